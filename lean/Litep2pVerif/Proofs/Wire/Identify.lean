import Litep2pVerif.Model.Wire.IdentifyProto
import Litep2pVerif.Proofs.Wire.Sizes
import Litep2pVerif.Proofs.Wire.RoundtripGen
import Litep2pVerif.Proofs.Substream.Varint
/-! Lemmas about the identify handlers (C19): the frame limit bounds everything an event holds on to,
the address filter only keeps addresses of the right peer, and our own message survives the remote
handler. -/
namespace Litep2pVerif.Wire
open Litep2pVerif.Substream

/-! ## the frame reader never returns more than the configured maximum -/

theorem onRead_frame_le (m : Nat) (st : RState) (h : RInv (.varint (some m)) st) (r : RdRes) (p : Bytes)
    (ho : (onRead (.varint (some m)) st r).2 = some (.frame p)) : p.length ≤ m := by
  obtain ⟨rbLen, rbData, offset, cur, svData⟩ := st
  obtain ⟨_, h⟩ := h
  cases cur with
  | some fs =>
    simp only at h
    obtain ⟨_, h2, _, _, h5⟩ := h
    cases r with
    | pending => simp [onRead] at ho
    | err => simp [onRead] at ho
    | ok bs =>
      simp only [onRead] at ho
      by_cases hz : bs.length = 0
      · rw [if_pos hz] at ho; simp at ho
      · rw [if_neg hz] at ho
        by_cases hoff : offset + bs.length = fs
        · rw [if_pos hoff] at ho
          simp only [Option.some.injEq, Out.frame.injEq] at ho
          subst ho
          simp only [overMax, decide_eq_false_iff_not, Nat.not_lt] at h5
          simp only [List.length_append]
          omega
        · rw [if_neg hoff] at ho; simp at ho
  | none =>
    cases r with
    | pending => simp [onRead] at ho
    | err => simp [onRead] at ho
    | ok bs =>
      simp only [onRead] at ho
      by_cases hz : bs.length = 0
      · rw [if_pos hz] at ho; simp at ho
      · rw [if_neg hz] at ho
        split at ho
        · simp at ho
        · simp at ho
        · split at ho
          · simp at ho
          · split at ho
            · simp at ho
            · split at ho
              · simp only [Option.some.injEq, Out.frame.injEq] at ho
                subst ho; simp
              · simp at ho

theorem pollNextF_frame_le (m fuel : Nat) (st : RState) (car : Carrier) (h : RInv (.varint (some m)) st) (p : Bytes)
    (ho : (pollNextF (.varint (some m)) fuel st car).1 = .frame p) : p.length ≤ m := by
  induction fuel generalizing st car with
  | zero => simp [pollNextF] at ho
  | succ fuel ih =>
    obtain ⟨cap, hcap⟩ := readCap_ok h
    unfold pollNextF at ho
    simp only [hcap] at ho
    have hinv := (onRead_inv h cap hcap (carRead cap car).1 (fun bs hbs => carRead_le cap car bs hbs)).1
    cases hr : (onRead (.varint (some m)) st (carRead cap car).1) with
    | mk st' o =>
      rw [hr] at ho hinv
      cases o with
      | some out =>
        simp only at ho
        subst ho
        exact onRead_frame_le m st h _ p (by rw [hr])
      | none => exact ih st' _ hinv ho

/-- The payload `timeout(.., substream.next())` hands to the decoder is within the limit. -/
theorem identifyRead_le (steps : List OutStep) (st : RState) (el : Nat) (h : RInv identifyCodec st) (p : List Nat)
    (ho : identifyRead steps st el = .payload p) : p.length ≤ IDENTIFY_PAYLOAD_SIZE := by
  induction steps generalizing st el with
  | nil => simp [identifyRead] at ho
  | cons s rest ih =>
    cases s with
    | wait secs =>
      simp only [identifyRead] at ho
      split at ho
      · simp at ho
      · exact ih st _ h ho
    | write bs =>
      simp only [identifyRead] at ho
      have hf := pollNextF_frame_le IDENTIFY_PAYLOAD_SIZE (carSize (stepCarrier (.write bs)) + 1) st (stepCarrier (.write bs)) h
      have hi := (pollNextF_inv identifyCodec (carSize (stepCarrier (.write bs)) + 1) st (stepCarrier (.write bs)) h).2
      unfold pollNext at ho
      split at ho
      · rename_i p' _ _ heq
        simp only [ReadOutcome.payload.injEq] at ho; subst ho
        exact hf p' (by rw [identifyCodec] at heq; rw [heq])
      · simp at ho
      · simp at ho
      · rename_i st' _ heq
        rw [heq] at hi
        exact ih st' el hi ho
      · simp at ho
    | close =>
      simp only [identifyRead] at ho
      have hf := pollNextF_frame_le IDENTIFY_PAYLOAD_SIZE (carSize (stepCarrier .close) + 1) st (stepCarrier .close) h
      have hi := (pollNextF_inv identifyCodec (carSize (stepCarrier .close) + 1) st (stepCarrier .close) h).2
      unfold pollNext at ho
      split at ho
      · rename_i p' _ _ heq
        simp only [ReadOutcome.payload.injEq] at ho; subst ho
        exact hf p' (by rw [identifyCodec] at heq; rw [heq])
      · simp at ho
      · simp at ho
      · rename_i st' _ heq
        rw [heq] at hi
        exact ih st' el hi ho
      · simp at ho
    | reset =>
      simp only [identifyRead] at ho
      have hf := pollNextF_frame_le IDENTIFY_PAYLOAD_SIZE (carSize (stepCarrier .reset) + 1) st (stepCarrier .reset) h
      have hi := (pollNextF_inv identifyCodec (carSize (stepCarrier .reset) + 1) st (stepCarrier .reset) h).2
      unfold pollNext at ho
      split at ho
      · rename_i p' _ _ heq
        simp only [ReadOutcome.payload.injEq] at ho; subst ho
        exact hf p' (by rw [identifyCodec] at heq; rw [heq])
      · simp at ho
      · simp at ho
      · rename_i st' _ heq
        rw [heq] at hi
        exact ih st' el hi ho
      · simp at ho

theorem identifyRead_no_panic (steps : List OutStep) (st : RState) (el : Nat) (h : RInv identifyCodec st) (msg : String) :
    identifyRead steps st el ≠ .panic msg := by
  induction steps generalizing st el with
  | nil => simp [identifyRead]
  | cons s rest ih =>
    have key : ∀ step : OutStep, (∀ secs, step ≠ .wait secs) →
        (match pollNext identifyCodec st (stepCarrier step) with
          | (.frame p, _, _) => ReadOutcome.payload p
          | (.err _, _, _) => .error
          | (.eof, _, _) => .closed
          | (.pending, st', _) => identifyRead rest st' el
          | (.panic m, _, _) => .panic m) ≠ .panic msg := by
      intro step _
      have hi := pollNextF_inv identifyCodec (carSize (stepCarrier step) + 1) st (stepCarrier step) h
      unfold pollNext
      split
      · simp
      · simp
      · simp
      · rename_i st' _ heq
        rw [heq] at hi
        exact ih st' el hi.2
      · rename_i heq
        rw [heq] at hi
        simp [Out.isPanic] at hi
    cases s with
    | wait secs =>
      simp only [identifyRead]
      split
      · simp
      · exact ih st _ h
    | write bs => simp only [identifyRead]; exact key (.write bs) (by simp)
    | close => simp only [identifyRead]; exact key .close (by simp)
    | reset => simp only [identifyRead]; exact key .reset (by simp)

/-! ## a carrier holding one write: `Pending` means the write was consumed completely -/

def OneWrite (car : Carrier) : Prop := car = [] ∨ ∃ bs, bs ≠ [] ∧ car = [.data bs]

theorem oneWrite_dataOnly {car : Carrier} (h : OneWrite car) : DataOnly car := by
  rcases h with rfl | ⟨bs, hne, rfl⟩
  · intro s hs; simp at hs
  · intro s hs
    simp only [List.mem_singleton] at hs
    exact Or.inr ⟨bs, hs, hne⟩

theorem onRead_pending (codec : Codec) (st : RState) : onRead codec st .pending = (st, some .pending) := by
  obtain ⟨rbLen, rbData, offset, cur, svData⟩ := st
  cases codec with
  | identity n => rfl
  | varint max => cases cur <;> rfl

theorem pollNextF_pending_rest (codec : Codec) (hc : codec ≠ .identity 0) (fuel : Nat) (st : RState) (car : Carrier)
    (h : RInv codec st) (hcar : OneWrite car) (hp : (pollNextF codec fuel st car).1.isPending = true) (hf : 0 < fuel) :
    (pollNextF codec fuel st car).2.2 = [] ∨ fuel ≤ carSize car := by
  induction fuel generalizing st car with
  | zero => omega
  | succ fuel ih =>
    obtain ⟨cap, hcap⟩ := readCap_ok h
    have hpos := cap_pos h hc cap hcap
    unfold pollNextF at hp ⊢
    simp only [hcap] at hp ⊢
    rcases hcar with rfl | ⟨bs, hne, rfl⟩
    · left
      simp only [carRead, onRead_pending]
    · have hcr : carRead cap [.data bs] = (.ok (bs.take cap), if bs.length ≤ cap then [] else [.data (bs.drop cap)]) := by
        simp only [carRead]; rw [if_neg (by omega)]
      have htk : bs.take cap ≠ [] := by
        cases bs with
        | nil => exact absurd rfl hne
        | cons b t =>
          cases cap with
          | zero => omega
          | succ c => simp
      rw [hcr] at hp ⊢
      have hinv := (onRead_inv h cap hcap (.ok (bs.take cap)) (fun x hx => by
        injection hx with hx; subst hx; simp only [List.length_take]; omega)).1
      cases hr : onRead codec st (.ok (bs.take cap)) with
      | mk st' o =>
        rw [hr] at hp hinv
        cases o with
        | some out =>
          have := (onRead_ok_out codec st _ htk out (by rw [hr])).1
          simp only at hp
          rw [this] at hp; exact absurd hp (by simp)
        | none =>
          simp only at hp ⊢
          by_cases hle : bs.length ≤ cap
          · rw [if_pos hle] at hp ⊢
            cases fuel with
            | zero => right; simp [carSize, segSize]
            | succ f =>
              rcases ih st' [] hinv (Or.inl rfl) hp (by omega) with h1 | h1
              · exact Or.inl h1
              · simp [carSize] at h1
          · rw [if_neg hle] at hp ⊢
            cases fuel with
            | zero => right; simp [carSize, segSize]
            | succ f =>
              have hdne : bs.drop cap ≠ [] := by
                intro he
                have := congrArg List.length he
                simp only [List.length_drop, List.length_nil] at this; omega
              rcases ih st' [.data (bs.drop cap)] hinv (Or.inr ⟨_, hdne, rfl⟩) hp (by omega) with h1 | h1
              · exact Or.inl h1
              · right
                simp only [carSize, segSize, List.length_drop] at h1 ⊢
                omega

/-! ## writes are consumed like a byte stream -/

def outcomeOf : Out → ReadOutcome
  | .frame p => .payload p
  | .err _ => .error
  | .eof => .closed
  | .pending => .waiting
  | .panic m => .panic m

theorem stepCarrier_write (c : List Nat) : OneWrite (stepCarrier (.write c)) ∧ carBytes (stepCarrier (.write c)) = c := by
  cases c with
  | nil => exact ⟨Or.inl rfl, rfl⟩
  | cons b t => exact ⟨Or.inr ⟨b :: t, by simp, rfl⟩, by simp [stepCarrier, carBytes]⟩

theorem identifyCodec_ne : identifyCodec ≠ .identity 0 := by simp [identifyCodec]

/-- Whatever the fragmentation of the remote's writes: the outcome of the read is the first result the
frame reader produces on the concatenated bytes. -/
theorem identifyRead_writes (chunks : List (List Nat)) (tail : List OutStep) (st : RState) (el : Nat)
    (h : RInv identifyCodec st) (o : Out) (rest : List Out)
    (hc : (consume identifyCodec st chunks.flatten).1 = o :: rest) :
    identifyRead (chunks.map .write ++ tail) st el = outcomeOf o := by
  induction chunks generalizing st with
  | nil => simp [consume] at hc
  | cons c cs ih =>
    obtain ⟨hone, hbytes⟩ := stepCarrier_write c
    have hcons := pollNextF_consume identifyCodec identifyCodec_ne (carSize (stepCarrier (.write c)) + 1) st
      (stepCarrier (.write c)) h (oneWrite_dataOnly hone) (by omega)
    obtain ⟨consumed, hsplit, hconsume, _, _, hnp⟩ := hcons
    have hinv := (pollNextF_inv identifyCodec (carSize (stepCarrier (.write c)) + 1) st (stepCarrier (.write c)) h).2
    simp only [List.map_cons, List.cons_append, identifyRead]
    unfold pollNext
    rw [hbytes] at hsplit
    generalize hres : pollNextF identifyCodec (carSize (stepCarrier (.write c)) + 1) st (stepCarrier (.write c)) = res at *
    obtain ⟨out, st', car'⟩ := res
    simp only at hsplit hconsume hinv hnp
    simp only [List.flatten_cons] at hc
    by_cases hp : out.isPending = true
    · have hrest := pollNextF_pending_rest identifyCodec identifyCodec_ne _ st _ h hone (by rw [hres]; exact hp) (by omega)
      rw [hres] at hrest
      simp only at hrest
      have hcar : car' = [] := by
        rcases hrest with h1 | h1
        · exact h1
        · omega
      subst hcar
      simp only [carBytes, List.append_nil] at hsplit
      subst hsplit
      rw [if_pos hp] at hconsume
      rw [consume_append, hconsume] at hc
      simp only [List.nil_append] at hc
      have hout : out = .pending := by cases out <;> simp [Out.isPending] at hp ⊢
      subst hout
      exact ih st' hinv hc
    · rw [if_neg hp] at hconsume
      rw [hsplit, List.append_assoc, consume_append, hconsume] at hc
      simp only [List.singleton_append, List.cons.injEq] at hc
      obtain ⟨ho, _⟩ := hc
      subst ho
      cases out with
      | frame p => rfl
      | err e => rfl
      | eof => rfl
      | pending => simp [Out.isPending] at hp
      | panic m => rfl

/-! ## what an event holds on to -/

/-- Number of payload bytes the event keeps (every byte of every string/address, one per list element). -/
def IdEvent.size (e : IdEvent) : Nat :=
  (e.protocolVersion.getD []).length + (e.userAgent.getD []).length + sumLen e.protocols +
    e.observed.length + sumLen e.listen

theorem sumLen_cons (a : List Nat) (l : List (List Nat)) : sumLen (a :: l) = (a.length + 1) + sumLen l := by
  simp [sumLen]

theorem sumLen_insertCanon (a : List Nat) (l : List (List Nat)) : sumLen (insertCanon a l) ≤ sumLen l + (a.length + 1) := by
  induction l with
  | nil => simp [insertCanon, sumLen]
  | cons b r ih =>
    simp only [insertCanon]
    split
    · omega
    · split
      · simp only [sumLen_cons]; omega
      · simp only [sumLen_cons] at ih ⊢; omega

theorem sumLen_canonSet (l : List (List Nat)) : sumLen (canonSet l) ≤ sumLen l := by
  induction l with
  | nil => simp [canonSet]
  | cons a r ih =>
    have := sumLen_insertCanon a (canonSet r)
    have e : canonSet (a :: r) = insertCanon a (canonSet r) := rfl
    rw [e, sumLen_cons]
    omega

theorem sumLen_filter (p : List Nat → Bool) (l : List (List Nat)) : sumLen (l.filter p) ≤ sumLen l := by
  induction l with
  | nil => simp
  | cons a r ih =>
    simp only [List.filter_cons]
    split
    · simp only [sumLen_cons]; omega
    · simp only [sumLen_cons]; omega

theorem identifyHandle_size (info : List Nat → AddrInfo) (remote localId payload : List Nat) (e : IdEvent)
    (h : identifyHandle info remote localId payload = some e) : e.size ≤ payload.length := by
  unfold identifyHandle at h
  cases hd : Identify.decode payload with
  | none => simp [hd] at h
  | some m =>
    simp only [hd, Option.some.injEq] at h
    subst h
    have hs := Identify.decode_size hd
    have h1 := sumLen_canonSet m.protocols
    have h2 := sumLen_filter (identifyKeep info remote) m.listenAddrs
    have h3 : ((identifyObserved info localId m).getD []).length ≤ (m.observedAddr.getD []).length := by
      unfold identifyObserved
      cases m.observedAddr with
      | none => simp
      | some a => simp only []; split <;> simp
    simp only [IdEvent.size, Identify.size, identifyListenAddrs] at hs ⊢
    omega

theorem identifyKeep_true (info : List Nat → AddrInfo) (owner a : List Nat) (h : identifyKeep info owner a = true) :
    info a = .noP2p ∨ info a = .p2p owner := by
  unfold identifyKeep at h
  cases hi : info a with
  | invalid => simp [hi] at h
  | empty => simp [hi] at h
  | noP2p => exact Or.inl rfl
  | p2p id => simp [hi] at h; exact Or.inr (by rw [h])

theorem identifyHandle_identity (info : List Nat → AddrInfo) (remote localId payload : List Nat) (e : IdEvent)
    (h : identifyHandle info remote localId payload = some e) :
    e.peer = remote ∧ (∀ a ∈ e.listen, info a = .noP2p ∨ info a = .p2p remote) ∧
    (e.observed = [] ∨ info e.observed = .noP2p ∨ info e.observed = .p2p localId) := by
  unfold identifyHandle at h
  cases hd : Identify.decode payload with
  | none => simp [hd] at h
  | some m =>
    simp only [hd, Option.some.injEq] at h
    subst h
    refine ⟨rfl, ?_, ?_⟩
    · intro a ha
      simp only [identifyListenAddrs, List.mem_filter] at ha
      exact identifyKeep_true info remote a ha.2
    · simp only [identifyObserved]
      cases m.observedAddr with
      | none => exact Or.inl rfl
      | some a =>
        simp only []
        by_cases hk : identifyKeep info localId a = true
        · rw [if_pos hk]; exact Or.inr (identifyKeep_true info localId a hk)
        · rw [if_neg hk]; exact Or.inl rfl

/-! ## our own message through the remote's handler -/

/-- What the asker must learn from node `cfg`. -/
def ownEvent (info : List Nat → AddrInfo) (cfg : IdLocal) (asker : List Nat) (observed : Option (List Nat)) : IdEvent :=
  { peer := cfg.localId,
    protocolVersion := some cfg.pv,
    userAgent := some (cfg.agent.getD IDENTIFY_DEFAULT_AGENT),
    protocols := canonSet cfg.protocols,
    observed := match observed with
      | some a => if identifyKeep info asker a then a else []
      | none => [],
    listen := (canonSet (cfg.listen ++ cfg.public_)).filter (identifyKeep info cfg.localId) }

theorem identifyRoundtrip_own (info : List Nat → AddrInfo) (cfg : IdLocal) (asker : List Nat) (observed : Option (List Nat))
    (split : Nat) (hwf : (ownIdentify cfg observed).WF)
    (hlen : (Identify.encode (ownIdentify cfg observed)).length ≤ IDENTIFY_PAYLOAD_SIZE) :
    identifyRoundtrip info cfg asker observed split = .event (ownEvent info cfg asker observed) := by
  have hacc : accepts identifyCodec (Identify.encode (ownIdentify cfg observed)) = true := by
    simp only [accepts, identifyCodec, overMax, Bool.not_eq_true', decide_eq_false_iff_not, Nat.not_lt]
    exact hlen
  have h64 : (Identify.encode (ownIdentify cfg observed)).length < 2 ^ 64 :=
    Nat.lt_of_le_of_lt hlen (by decide)
  have hsent : identifyInbound cfg observed (2 ^ 20) [] =
      encodeMsg identifyCodec (Identify.encode (ownIdentify cfg observed)) := by
    simp only [identifyInbound, hacc, if_true, identifySendLoop]
    rw [if_neg (by decide)]
    exact List.take_length
  have hcons := consume_msg identifyCodec identifyCodec_ne (RState.init identifyCodec) (idle_init _)
    (Identify.encode (ownIdentify cfg observed)) ⟨hacc, varintOk _ h64⟩
  unfold identifyRoundtrip identifyOutbound
  simp only [hsent]
  have hread := identifyRead_writes
    [(encodeMsg identifyCodec (Identify.encode (ownIdentify cfg observed))).take split,
     (encodeMsg identifyCodec (Identify.encode (ownIdentify cfg observed))).drop split] [.close]
    (RState.init identifyCodec) 0 (rinv_init _) (.frame (Identify.encode (ownIdentify cfg observed))) []
    (by simp only [List.flatten_cons, List.flatten_nil, List.append_nil, List.take_append_drop]; exact hcons.1)
  simp only [List.map_cons, List.map_nil, List.cons_append, List.nil_append] at hread
  rw [hread]
  simp only [outcomeOf, identifyHandle, Identify.decode_encode _ hwf]
  simp only [ownIdentify, ownEvent, identifyObserved, identifyListenAddrs]
  cases observed with
  | none => rfl
  | some a => simp only []; split <;> rfl

end Litep2pVerif.Wire
