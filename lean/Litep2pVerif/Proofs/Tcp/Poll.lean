import Litep2pVerif.Model.Tcp.Poll
/-! Lemmas about the `poll_next` model of the TCP transport (`Model/Tcp/Poll.lean`). -/
namespace Litep2pVerif.Tcp.Poll

local macro "fin" : tactic => `(tactic| first | exact ⟨rfl, by omega⟩ | exact ⟨trivial, by omega⟩ | omega)

theorem pollRaw_none : ∀ (raw : List RawRes) (hs : List (Id × Bool)) (op : List Id) raw' hs' op',
    pollRaw raw hs op = (none, raw', hs', op') → raw' = [] ∧ rawEvs raw hs = []
  | [], hs, op, raw', hs', op', h => by
    simp only [pollRaw, Prod.mk.injEq] at h
    exact ⟨h.2.1.symm, rfl⟩
  | .connected id :: rest, hs, op, raw', hs', op', h => by
    simp only [pollRaw] at h
    simp only [rawEvs]
    cases hl : lookupH hs id with
    | none => simp only [hl] at h ⊢; exact pollRaw_none rest hs op _ _ _ h
    | some aborted =>
      simp only [hl] at h ⊢
      cases aborted
      · simp at h
      · simp only [Bool.not_true, Bool.false_eq_true, if_false] at h ⊢
        exact pollRaw_none rest _ op _ _ _ h
  | .failed id :: rest, hs, op, raw', hs', op', h => by
    simp only [pollRaw] at h
    simp only [rawEvs]
    cases hl : lookupH hs id with
    | none => simp only [hl] at h ⊢; exact pollRaw_none rest hs op _ _ _ h
    | some aborted =>
      simp only [hl] at h ⊢
      cases aborted
      · simp at h
      · simp only [Bool.not_true, Bool.false_eq_true, if_false] at h ⊢
        exact pollRaw_none rest _ op _ _ _ h
  | .canceled id :: rest, hs, op, raw', hs', op', h => by
    simp only [pollRaw] at h
    simp only [rawEvs]
    exact pollRaw_none rest _ op _ _ _ h

theorem pollRaw_some : ∀ (raw : List RawRes) (hs : List (Id × Bool)) (op : List Id) e raw' hs' op',
    pollRaw raw hs op = (some e, raw', hs', op') → rawEvs raw hs = e :: rawEvs raw' hs' ∧ raw'.length < raw.length
  | [], hs, op, e, raw', hs', op', h => by simp [pollRaw] at h
  | .connected id :: rest, hs, op, e, raw', hs', op', h => by
    simp only [pollRaw] at h
    simp only [rawEvs, List.length_cons]
    cases hl : lookupH hs id with
    | none =>
      simp only [hl] at h ⊢
      have := pollRaw_some rest hs op _ _ _ _ h
      exact ⟨this.1, by omega⟩
    | some aborted =>
      simp only [hl] at h ⊢
      cases aborted
      · simp only [Bool.not_false, if_true, Prod.mk.injEq, Option.some.injEq] at h ⊢
        obtain ⟨rfl, rfl, rfl, _⟩ := h
        fin
      · simp only [Bool.not_true, Bool.false_eq_true, if_false] at h ⊢
        have := pollRaw_some rest _ op _ _ _ _ h
        exact ⟨this.1, by omega⟩
  | .failed id :: rest, hs, op, e, raw', hs', op', h => by
    simp only [pollRaw] at h
    simp only [rawEvs, List.length_cons]
    cases hl : lookupH hs id with
    | none =>
      simp only [hl] at h ⊢
      have := pollRaw_some rest hs op _ _ _ _ h
      exact ⟨this.1, by omega⟩
    | some aborted =>
      simp only [hl] at h ⊢
      cases aborted
      · simp only [Bool.not_false, if_true, Prod.mk.injEq, Option.some.injEq] at h ⊢
        obtain ⟨rfl, rfl, rfl, _⟩ := h
        fin
      · simp only [Bool.not_true, Bool.false_eq_true, if_false] at h ⊢
        have := pollRaw_some rest _ op _ _ _ _ h
        exact ⟨this.1, by omega⟩
  | .canceled id :: rest, hs, op, e, raw', hs', op', h => by
    simp only [pollRaw] at h
    simp only [rawEvs, List.length_cons]
    have := pollRaw_some rest _ op _ _ _ _ h
    exact ⟨this.1, by omega⟩

theorem pollConns_none : ∀ (cs : List ConnRes) (ds po : List Id) cs' ds' po',
    pollConns cs ds po = (none, cs', ds', po') → cs' = [] ∧ connEvs cs ds = []
  | [], ds, po, cs', ds', po', h => by
    simp only [pollConns, Prod.mk.injEq] at h
    exact ⟨h.2.1.symm, rfl⟩
  | .ok id :: rest, ds, po, cs', ds', po', h => by simp [pollConns] at h
  | .err id :: rest, ds, po, cs', ds', po', h => by
    simp only [pollConns] at h
    simp only [connEvs]
    split at h
    · simp at h
    · rename_i hm; simp only [hm, if_false]; exact pollConns_none rest ds po _ _ _ h

theorem pollConns_some : ∀ (cs : List ConnRes) (ds po : List Id) e cs' ds' po',
    pollConns cs ds po = (some e, cs', ds', po') → connEvs cs ds = e :: connEvs cs' ds' ∧ cs'.length < cs.length
  | [], ds, po, e, cs', ds', po', h => by simp [pollConns] at h
  | .ok id :: rest, ds, po, e, cs', ds', po', h => by
    simp only [pollConns, Prod.mk.injEq, Option.some.injEq] at h
    obtain ⟨rfl, rfl, rfl, _⟩ := h
    simp only [connEvs, List.length_cons]
    fin
  | .err id :: rest, ds, po, e, cs', ds', po', h => by
    simp only [pollConns] at h
    simp only [connEvs, List.length_cons]
    split at h
    · rename_i hm
      simp only [Prod.mk.injEq, Option.some.injEq] at h
      obtain ⟨rfl, rfl, rfl, _⟩ := h
      simp only [hm, if_true]
      fin
    · rename_i hm
      simp only [hm, if_false]
      have := pollConns_some rest ds po _ _ _ _ h
      exact ⟨this.1, by omega⟩

/-- `Pending`: nothing ready is left in any queue, and no event was due. -/
theorem pollNext_pending (t t' : T) (h : pollNext t = (none, t')) :
    t'.accepted = 0 ∧ t'.raw = [] ∧ t'.conns = [] ∧ due t = [] := by
  unfold pollNext at h
  split at h
  · simp at h
  · rename_i hacc
    have hacc : t.accepted = 0 := by omega
    split at h
    · simp at h
    · rename_i raw hs op hr
      have hr' := pollRaw_none _ _ _ _ _ _ hr
      split at h
      rename_i e conns ds po hc
      simp only [Prod.mk.injEq] at h
      obtain ⟨rfl, rfl⟩ := h
      have hc' := pollConns_none _ _ _ _ _ _ hc
      refine ⟨hacc, hr'.1, hc'.1, ?_⟩
      simp only [due, hacc, inboundEvs, hr'.2, hc'.2, List.append_nil]

/-- An item: it is the first event due, the rest stays due, and the queues shrank. -/
theorem pollNext_some (t t' : T) (e : Ev) (h : pollNext t = (some e, t')) :
    due t = e :: due t' ∧ size t' < size t := by
  unfold pollNext at h
  split at h
  · rename_i hacc
    simp only [Prod.mk.injEq, Option.some.injEq] at h
    obtain ⟨rfl, rfl⟩ := h
    obtain ⟨n, hn⟩ : ∃ n, t.accepted = n + 1 := ⟨t.accepted - 1, by omega⟩
    simp only [due, size, hn, inboundEvs, Nat.add_sub_cancel, List.cons_append]
    fin
  · rename_i hacc
    have hacc : t.accepted = 0 := by omega
    split at h
    · rename_i e' raw hs op hr
      simp only [Prod.mk.injEq, Option.some.injEq] at h
      obtain ⟨rfl, rfl⟩ := h
      have hr' := pollRaw_some _ _ _ _ _ _ _ hr
      simp only [due, size, hacc, inboundEvs, hr'.1, List.nil_append, List.cons_append]
      fin
    · rename_i raw hs op hr
      have hr' := pollRaw_none _ _ _ _ _ _ hr
      split at h
      rename_i e' conns ds po hc
      simp only [Prod.mk.injEq] at h
      obtain ⟨rfl, rfl⟩ := h
      have hc' := pollConns_some _ _ _ _ _ _ _ hc
      simp only [due, size, hacc, inboundEvs, hr'.1, hr'.2, hc'.1, rawEvs, List.nil_append, List.length_nil]
      fin

/-- The executor collects exactly the events that were due and leaves the queues empty. -/
theorem drain_collects : ∀ (n : Nat) (t : T), size t < n → (drain n t).1 = due t ∧ size (drain n t).2 = 0
  | 0, t, h => by omega
  | n + 1, t, h => by
    simp only [drain]
    split
    · rename_i t' hp
      have := pollNext_pending t t' hp
      simp only [size, this.1, this.2.1, this.2.2.1, this.2.2.2, List.length_nil]
      exact ⟨trivial, trivial⟩
    · rename_i e t' hp
      have hs := pollNext_some t t' e hp
      have ih := drain_collects n t' (by omega)
      simp only [hs.1, ih.1, ih.2]
      exact ⟨trivial, trivial⟩

/-- A queued failure of a pending dial is among the events due, whatever is queued ahead of it. -/
theorem mem_due_of_queued_dial_failure (t : T) (id : Id) (pre post : List ConnRes) (hc : t.conns = pre ++ .err id :: post)
    (hd : id ∈ t.dials) (hpre : ∀ r ∈ pre, r ≠ .ok id ∧ r ≠ .err id) : Ev.dialFailure id ∈ due t := by
  have key : ∀ (pre : List ConnRes) (ds : List Id), id ∈ ds → (∀ r ∈ pre, r ≠ .ok id ∧ r ≠ .err id) →
      Ev.dialFailure id ∈ connEvs (pre ++ .err id :: post) ds := by
    intro pre
    induction pre with
    | nil => intro ds hd _; simp [connEvs, hd]
    | cons r pre ih =>
      intro ds hd hpre
      have hr := hpre r (List.mem_cons_self ..)
      have hrest : ∀ r ∈ pre, r ≠ .ok id ∧ r ≠ .err id := fun x hx => hpre x (List.mem_cons_of_mem _ hx)
      have keep : ∀ j, j ≠ id → id ∈ eraseId ds j := fun j hj => by
        simp only [eraseId, List.mem_filter, hd, true_and]; simpa using fun h => hj h.symm
      cases r with
      | ok j =>
        have hj : j ≠ id := fun e => hr.1 (by rw [e])
        simp only [List.cons_append, connEvs, List.mem_cons]
        exact Or.inr (ih _ (keep j hj) hrest)
      | err j =>
        have hj : j ≠ id := fun e => hr.2 (by rw [e])
        simp only [List.cons_append, connEvs]
        split
        · simp only [List.mem_cons]; exact Or.inr (ih _ (keep j hj) hrest)
        · exact ih _ hd hrest
  simp only [due, hc, List.mem_append]
  exact Or.inr (key pre t.dials hd hpre)

/-! ## `TcpTransport::open`: what its future resolves to (round gtcp) -/

theorem openRun_res (id : Id) (timeout deadline : Nat) (addrs : List AddrKind) (el : Nat) :
    ((openRun id timeout deadline addrs el).1 = .failed id ∨ (openRun id timeout deadline addrs el).1 = .connected id) ∧
    (AddrKind.answer ∉ addrs → (openRun id timeout deadline addrs el).1 = .failed id) := by
  induction addrs generalizing el with
  | nil => simp [openRun]
  | cons a rest ih =>
    cases a with
    | stall =>
      simp only [openRun]
      split
      · simp
      · have := ih (el + timeout)
        simp only [List.mem_cons, reduceCtorEq, false_or]
        exact this
    | refuse =>
      simp only [openRun, List.mem_cons, reduceCtorEq, false_or]
      exact ih el
    | answer => simp [openRun]

theorem drain_failed (id : Id) :
    drain 2 { raw := [.failed id], handles := [(id, false)] } = ([.openFailure id], {}) := by
  simp [drain, pollNext, pollRaw, lookupH, eraseH, pollConns]

theorem drain_connected (id : Id) :
    drain 2 { raw := [.connected id], handles := [(id, false)] } = ([.opened id], { opened := [id] }) := by
  simp [drain, pollNext, pollRaw, lookupH, eraseH, pollConns, insertId]

theorem drain_canceled (id : Id) :
    drain 2 { raw := [.canceled id], handles := [(id, true)] } = ([], {}) := by
  simp [drain, pollNext, pollRaw, eraseH, pollConns]

theorem afterOpen_outcome (id : Id) (timeout mult : Nat) (addrs : List AddrKind) :
    openFuture id timeout mult addrs none ≠ .canceled id ∧
    ((drain 2 (afterOpen id timeout mult addrs none)).1 = [.openFailure id] ∨
      (drain 2 (afterOpen id timeout mult addrs none)).1 = [.opened id]) ∧
    (drain 2 (afterOpen id timeout mult addrs none)).2.handles = [] ∧
    size (drain 2 (afterOpen id timeout mult addrs none)).2 = 0 ∧
    (AddrKind.answer ∉ addrs → (drain 2 (afterOpen id timeout mult addrs none)).1 = [.openFailure id]) := by
  obtain ⟨h1, h2⟩ := openRun_res id timeout (mult * timeout) addrs 0
  have hf : openFuture id timeout mult addrs none = (openRun id timeout (mult * timeout) addrs 0).1 := rfl
  rcases h1 with h | h
  · have ha : afterOpen id timeout mult addrs none = { raw := [.failed id], handles := [(id, false)] } := by
      simp [afterOpen, hf, h]
    rw [ha, drain_failed, hf, h]
    simp [size]
  · have ha : afterOpen id timeout mult addrs none = { raw := [.connected id], handles := [(id, false)] } := by
      simp [afterOpen, hf, h]
    rw [ha, drain_connected, hf, h]
    refine ⟨by simp, by simp, rfl, by simp [size], ?_⟩
    intro hn
    rw [h2 hn] at h
    simp at h

theorem openFuture_canceled (id : Id) (timeout mult : Nat) (addrs : List AddrKind) (c : Option Nat)
    (h : openFuture id timeout mult addrs c = .canceled id) :
    ∃ at_, c = some at_ ∧ at_ < (openRun id timeout (mult * timeout) addrs 0).2 := by
  obtain ⟨h1, _⟩ := openRun_res id timeout (mult * timeout) addrs 0
  cases c with
  | none => simp only [openFuture] at h; rcases h1 with h' | h' <;> rw [h'] at h <;> simp at h
  | some a =>
    simp only [openFuture] at h
    split at h
    · exact ⟨a, rfl, by assumption⟩
    · rcases h1 with h' | h' <;> rw [h'] at h <;> simp at h


end Litep2pVerif.Tcp.Poll
