import Litep2pVerif.Model.Noise.Identity
import Litep2pVerif.Proofs.Wire.Roundtrip
import Litep2pVerif.Proofs.Wire.Sizes
/-! Helper lemmas for C01 (identity check): protobuf round trips of the honest payload and key encoding,
totality of the peer-id derivation, the laws of the free instance. -/
namespace Litep2pVerif.Noise.Identity
open Litep2pVerif.Wire Litep2pVerif.Id

/-- `keys_proto::PublicKey::decode` of the canonical encoding of a 32-byte key. -/
theorem decode_keyEncoding (key : Bytes) (hk : key.length = 32) :
    PublicKeyPb.decode (keyEncoding key) = some { type := 1, data := key } := by
  have hc : ∀ st tag wt bs st' rest, PublicKeyPb.merge recursionLimit st tag wt bs = some (st', rest) →
      rest.length ≤ bs.length := fun _ _ _ _ _ _ h => PublicKeyPb.merge_consumes h
  have e : keyEncoding key = writeKey 1 0 ++ (writeVarint 1 ++ (writeKey 2 2 ++ (writeVarint key.length ++ key ++ []))) := by
    simp [keyEncoding, writeKey, writeVarint, writeVarintAux, hk]
  unfold PublicKeyPb.decode
  rw [e]
  have h1 := readKey_writeKey' 1 0 (by omega) (by omega) (by omega)
    (writeVarint 1 ++ (writeKey 2 2 ++ (writeVarint key.length ++ key ++ [])))
  have h2 : PublicKeyPb.merge recursionLimit {} 1 0 (writeVarint 1 ++ (writeKey 2 2 ++ (writeVarint key.length ++ key ++ [])))
      = some ({ type := 1, data := [] }, writeKey 2 2 ++ (writeVarint key.length ++ key ++ [])) := by
    simp only [PublicKeyPb.merge, fieldVarint_enc 1 _ (by omega), Option.map_some]
    rfl
  rw [decodeLoop_field _ hc h1 h2]
  have h3 := readKey_writeKey' 2 2 (by omega) (by omega) (by omega) (writeVarint key.length ++ key ++ [])
  have h4 : PublicKeyPb.merge recursionLimit { type := 1, data := [] } 2 2 (writeVarint key.length ++ key ++ [])
      = some ({ type := 1, data := key }, []) := by
    simp only [PublicKeyPb.merge, fieldBytes_enc key [] (by omega), Option.map_some]
  rw [decodeLoop_field _ hc h3 h4]
  simp [decodeLoop]

/-- `RemotePublicKey::from_protobuf_encoding` accepts the canonical encoding of a valid key. -/
theorem remotePublicKey_keyEncoding (vp : Bytes → Bool) (key : Bytes) (hk : key.length = 32) (hv : vp key = true) :
    remotePublicKey vp (keyEncoding key) = .ok key := by
  simp [remotePublicKey, decode_keyEncoding key hk, hk, hv]

/-- `NoiseHandshakePayload::decode` of what an honest node encodes. -/
theorem decode_encodePayload (kb sig : Bytes) (hk : kb.length < 2 ^ 64) (hs : sig.length < 2 ^ 64) :
    NoisePayload.decode (encodePayload kb sig) = some { identityKey := some kb, identitySig := some sig } := by
  have hc : ∀ st tag wt bs st' rest, NoisePayload.merge recursionLimit st tag wt bs = some (st', rest) →
      rest.length ≤ bs.length := fun _ _ _ _ _ _ h => NoisePayload.merge_consumes h
  unfold NoisePayload.decode encodePayload
  have e : writeKey 1 2 ++ writeVarint kb.length ++ kb ++ (writeKey 2 2 ++ writeVarint sig.length ++ sig)
      = writeKey 1 2 ++ (writeVarint kb.length ++ kb ++ (writeKey 2 2 ++ (writeVarint sig.length ++ sig ++ []))) := by
    simp [List.append_assoc]
  rw [e]
  have h1 := readKey_writeKey' 1 2 (by omega) (by omega) (by omega)
    (writeVarint kb.length ++ kb ++ (writeKey 2 2 ++ (writeVarint sig.length ++ sig ++ [])))
  have h2 : NoisePayload.merge recursionLimit {} 1 2
      (writeVarint kb.length ++ kb ++ (writeKey 2 2 ++ (writeVarint sig.length ++ sig ++ [])))
      = some ({ identityKey := some kb }, writeKey 2 2 ++ (writeVarint sig.length ++ sig ++ [])) := by
    simp only [NoisePayload.merge, fieldBytes_enc kb _ hk, Option.map_some]
  rw [decodeLoop_field _ hc h1 h2]
  have h3 := readKey_writeKey' 2 2 (by omega) (by omega) (by omega) (writeVarint sig.length ++ sig ++ [])
  have h4 : NoisePayload.merge recursionLimit { identityKey := some kb } 2 2 (writeVarint sig.length ++ sig ++ [])
      = some ({ identityKey := some kb, identitySig := some sig }, []) := by
    simp only [NoisePayload.merge, fieldBytes_enc sig [] hs, Option.map_some]
  rw [decodeLoop_field _ hc h3 h4]
  simp [decodeLoop]

/-- The peer-id derivation cannot fail when SHA-256 returns 32 bytes. -/
theorem peerIdOfEncoding_total (c : Crypto) (hsha : ∀ x, (c.sha256 x).length = 32) (kb : Bytes) :
    ∃ P, peerIdOfEncoding c kb = .ok P := by
  unfold peerIdOfEncoding PeerId.fromPublicKeyProtobuf
  have hM : Consts.MAX_INLINE_KEY_LENGTH ≤ 64 := by decide
  split
  · rename_i h
    have : ¬ ((toU8 kb).length > Multihash.S) := by
      simp only [Multihash.S]; omega
    simp [Multihash.wrap, this]
  · have : ¬ ((c.sha256 (toU8 kb)).length > Multihash.S) := by
      rw [hsha]; simp [Multihash.S]
    simp [Multihash.wrap, this]

/-- The peer id of a key encoding of at most `MAX_INLINE_KEY_LENGTH` bytes is the identity multihash of
exactly those bytes. -/
theorem peerIdOfEncoding_inline (c : Crypto) (kb : Bytes) (h : kb.length ≤ Consts.MAX_INLINE_KEY_LENGTH) :
    peerIdOfEncoding c kb = .ok ⟨⟨IDENTITY_CODE, toU8 kb⟩⟩ := by
  unfold peerIdOfEncoding PeerId.fromPublicKeyProtobuf
  have h' : (toU8 kb).length ≤ Consts.MAX_INLINE_KEY_LENGTH := by simpa [toU8] using h
  have hM : Consts.MAX_INLINE_KEY_LENGTH ≤ 64 := by decide
  have : ¬ ((toU8 kb).length > Multihash.S) := by
    simp only [Multihash.S]; omega
  simp [h', Multihash.wrap, this]

/-- "The key encoded in `P` signed the static key `rs`": the payload `pl` carries identity-key bytes `kb` that decode to
`key`, a signature `sig` that `key` verifies over the domain-separated static key, and `P` is the peer id of `kb`. -/
def Verified (c : Crypto) (pl rs : Bytes) (P : PeerId) : Prop :=
  ∃ p kb key sig, NoisePayload.decode pl = some p ∧ p.identityKey = some kb ∧ p.identitySig = some sig ∧
    remotePublicKey c.validPoint kb = .ok key ∧ c.verify key (STATIC_KEY_DOMAIN ++ rs) sig = true ∧
    peerIdOfEncoding c kb = .ok P

/-! ### the free instance -/

theorem freeSecret_freePub (k : Nat) : freeSecret (freePub k) = some k := by
  simp [freeSecret, freePub]

theorem freeSign_inj {k k' : Nat} {m m' : Bytes} (h : freeSign k m = freeSign k' m') : k = k' ∧ m = m' := by
  unfold freeSign at h
  simp only [List.cons.injEq] at h
  obtain ⟨hk, hl, hm⟩ := h
  refine ⟨hk, ?_⟩
  exact (List.append_inj hm hl).1

theorem free_laws : Laws freeCrypto where
  pub_len := by intro k; simp [freeCrypto, freePub]
  pub_valid := by intro k; simp [freeCrypto, freeSecret_freePub]
  sig_len := by
    intro k rs hrs
    simp [freeCrypto, freeSign, STATIC_KEY_DOMAIN, hrs]
  verify_sign := by intro k m; simp [freeCrypto, freeSecret_freePub]
  sign_binds := by
    intro k k' m m' h
    simp only [freeCrypto, freeSecret_freePub, decide_eq_true_eq] at h
    have := freeSign_inj h
    exact ⟨this.1.symm, this.2.symm⟩

/-! ### Representations of an id (round gtcp): the code of the derived id of a short key encoding / of the SHA2-256 form -/

theorem derived_short_code (c : Crypto) (kb : Bytes) (P : PeerId) (hlen : kb.length ≤ Consts.MAX_INLINE_KEY_LENGTH)
    (hP : peerIdOfEncoding c kb = .ok P) : P.multihash.code = IDENTITY_CODE := by
  unfold peerIdOfEncoding PeerId.fromPublicKeyProtobuf at hP
  have hl : (toU8 kb).length ≤ Consts.MAX_INLINE_KEY_LENGTH := by simpa [toU8] using hlen
  rw [if_pos hl] at hP
  unfold Multihash.wrap at hP
  split at hP
  · rename_i mh hw
    split at hw
    · simp at hw
    · simp only [Except.ok.injEq] at hw hP
      subst hw; subst hP; rfl
  · simp at hP

theorem hashed_code (c : Crypto) (kb : Bytes) (d : PeerId) (hd : hashedIdOfEncoding c kb = some d) :
    d.multihash.code = SHA2_256_CODE := by
  unfold hashedIdOfEncoding Multihash.wrap at hd
  split at hd
  · rename_i mh hw
    split at hw
    · simp at hw
    · simp only [Except.ok.injEq] at hw
      subst hw
      simp [PeerId.fromMultihash] at hd
      rw [← hd]
  · simp at hd

end Litep2pVerif.Noise.Identity
