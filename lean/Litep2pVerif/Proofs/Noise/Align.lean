import Litep2pVerif.Proofs.Noise.Transport
/-! Alignment invariant of the `NoiseSocket` reader (C02): on a stream that starts with `j` intact
frames, the reader's frame cursor sits exactly on the wire offset of the frame whose nonce comes
next. From it: completeness (everything intact comes out), detection (an error follows) and the
absence of errors without a cause. -/
namespace Litep2pVerif.Noise.Transport

variable {C : Type}

/-- All side conditions on the constants (read path, write path, `TAGLEN ≥ 1`, `u16` lengths). -/
structure AConsts (P : Params) : Prop where
  r : RConsts P
  w : WConsts P
  t1 : 1 ≤ P.T
  u16 : P.SNOWMAX < 65536

/-- The reader's interpretation of the two length bytes. -/
def parseLen (w : WireOps C) (b0 b1 : C) : Nat := w.toByte b0 % 256 * 256 + w.toByte b1 % 256

/-- Wire offset of frame `n`. -/
def woff (w : WireOps C) (T : Nat) (frames : List Chunk) (n : Nat) : Nat :=
  (wireOf w T 0 (frames.take n)).length

/-- `rest` does not begin with the intact frame `j` (as the reader parses it): it is empty or too
short, or its length bytes announce more than what follows, or what they announce is not the
ciphertext of the writer's `j`-th chunk under nonce `j`. -/
def BadAt (w : WireOps C) (frames : List Chunk) (j : Nat) (rest : List C) : Prop :=
  ∀ b0 b1 tl ch, rest = b0 :: b1 :: tl → frames[j]? = some ch → parseLen w b0 b1 ≤ tl.length →
    tl.take (parseLen w b0 b1) ≠ w.enc j ch

/-- The frame announced by the first two bytes of `rest` is completely there (and has at least two
bytes): the reader does not have to wait for more data to judge it. -/
def CompleteAt (w : WireOps C) (rest : List C) : Prop :=
  ∃ b0 b1 tl, rest = b0 :: b1 :: tl ∧ parseLen w b0 b1 ≤ tl.length ∧ 2 ≤ tl.length

/-- The setting: `full` (what the carrier delivers in the end) consists of the first `j` frames of
the writer, intact, followed by `rest`, which does not begin with frame `j`. -/
structure Scene (P : Params) (w : WireOps C) (frames : List Chunk) (j : Nat) (rest full : List C) : Prop where
  laws : WireLaws P w
  consts : AConsts P
  frs : FramesFrom P.MAXF 0 frames
  hj : j ≤ frames.length
  full_eq : full = wireOf w P.T 0 (frames.take j) ++ rest
  bad : BadAt w frames j rest
  auth : Authentic w frames full

/-! ## Layout of the honest prefix -/

theorem woff_succ {P : Params} {w : WireOps C} (hl : WireLaws P w) {frames : List Chunk} {n : Nat} {ch : Chunk}
    (h : frames[n]? = some ch) :
    woff w P.T frames (n + 1) = woff w P.T frames n + (ch.len + P.T + 2) := by
  unfold woff
  rw [List.take_add_one, h, wireOf_append]
  simp [wireOf, frameBytes, hl.enc_len]

theorem woff_mono (w : WireOps C) (T : Nat) (frames : List Chunk) {a b : Nat} (h : a ≤ b) :
    woff w T frames a ≤ woff w T frames b := by
  unfold woff
  have e : frames.take b = frames.take a ++ (frames.take b).drop a := by
    have := List.take_append_drop a (frames.take b)
    rw [List.take_take, Nat.min_eq_left h] at this
    exact this.symm
  rw [e, wireOf_append]
  simp

theorem getElem?_of_drop_cons {l : List C} {a : Nat} {x : C} {t : List C} (h : l.drop a = x :: t) :
    l[a]? = some x := by
  have := List.getElem?_drop (xs := l) (i := a) (j := 0)
  rw [h] at this
  simpa using this.symm

theorem drop_succ_of_drop_cons {l : List C} {a : Nat} {x : C} {t : List C} (h : l.drop a = x :: t) :
    l.drop (a + 1) = t := by
  have : l.drop (a + 1) = (l.drop a).drop 1 := by rw [List.drop_drop]
  rw [this, h]; rfl

theorem drop_of_getElem? {l : List C} {a : Nat} {x y : C} (h0 : l[a]? = some x) (h1 : l[a + 1]? = some y) :
    l.drop a = x :: y :: l.drop (a + 2) := by
  have ha : a + 1 < l.length := by
    rcases Nat.lt_or_ge (a + 1) l.length with h | h
    · exact h
    · rw [List.getElem?_eq_none h] at h1; cases h1
  rw [List.drop_eq_getElem_cons (by omega : a < l.length), List.drop_eq_getElem_cons ha]
  rw [List.getElem?_eq_getElem (by omega : a < l.length)] at h0
  rw [List.getElem?_eq_getElem ha] at h1
  cases h0; cases h1; rfl

section scene
variable {P : Params} {w : WireOps C} {frames : List Chunk} {j : Nat} {rest full : List C}

theorem Scene.drop_rest (sc : Scene P w frames j rest full) : full.drop (woff w P.T frames j) = rest := by
  rw [sc.full_eq]
  unfold woff
  exact List.drop_left' rfl

theorem Scene.full_len (sc : Scene P w frames j rest full) :
    full.length = woff w P.T frames j + rest.length := by
  rw [sc.full_eq]; simp [woff]

/-- Frame `n < j` lies intact at its wire offset. -/
theorem Scene.drop_frame (sc : Scene P w frames j rest full) {n : Nat} {ch : Chunk} (hn : n < j)
    (h : frames[n]? = some ch) :
    ∃ post, full.drop (woff w P.T frames n) =
      w.ofByte ((ch.len + P.T) / 256 % 256) :: w.ofByte ((ch.len + P.T) % 256) :: (w.enc n ch ++ post) := by
  have hjl := sc.hj
  have hlen : (frames.take j).length = j := by simp; omega
  have hget : (frames.take j)[n]? = some ch := by rw [List.getElem?_take]; simp [hn, h]
  have hnl : n < (frames.take j).length := by omega
  obtain ⟨tl, e⟩ : ∃ tl, frames.take j = frames.take n ++ ch :: tl := by
    have := List.take_append_drop n (frames.take j)
    rw [List.take_take, Nat.min_eq_left (Nat.le_of_lt hn), List.drop_eq_getElem_cons hnl] at this
    rw [List.getElem?_eq_getElem hnl] at hget
    cases hget
    exact ⟨_, this.symm⟩
  have hl : (frames.take n).length = n := by simp; omega
  refine ⟨wireOf w P.T (n + 1) tl ++ rest, ?_⟩
  rw [sc.full_eq, e, wireOf_append, hl]
  simp only [wireOf, frameBytes, Nat.zero_add, List.append_assoc, List.cons_append]
  unfold woff
  rw [List.drop_left' rfl]

theorem Scene.frame_of_lt (sc : Scene P w frames j rest full) {n : Nat} (hn : n < j) :
    ∃ ch, frames[n]? = some ch ∧ 1 ≤ ch.len ∧ ch.len ≤ P.MAXF ∧ woff w P.T frames (n + 1) ≤ full.length := by
  have hjl := sc.hj
  have hnl : n < frames.length := by omega
  refine ⟨frames[n], List.getElem?_eq_getElem hnl, ?_, ?_, ?_⟩
  · exact (framesFrom_get sc.frs (List.getElem?_eq_getElem hnl)).2.2.2
  · have : ∀ (pos : Nat) (fr : List Chunk) (i : Nat) (hi : i < fr.length), FramesFrom P.MAXF pos fr → fr[i].len ≤ P.MAXF := by
      intro pos fr
      induction fr generalizing pos with
      | nil => intro i hi; simp at hi
      | cons x xs ih =>
        intro i hi hf
        simp only [FramesFrom] at hf
        cases i with
        | zero => exact hf.2.2.1
        | succ i => exact ih _ i (by simpa using hi) hf.2.2.2
    exact this 0 frames n hnl sc.frs
  · have := woff_mono w P.T frames (show n + 1 ≤ j by omega)
    have := sc.full_len
    omega

/-- The length bytes of an intact frame parse to its ciphertext length. -/
theorem Scene.parse_honest (sc : Scene P w frames j rest full) {n : Nat} {ch : Chunk} (hn : n < j)
    (h : frames[n]? = some ch) (hm : ch.len ≤ P.MAXF) {b0 b1 : C}
    (h0 : full[woff w P.T frames n]? = some b0) (h1 : full[woff w P.T frames n + 1]? = some b1) :
    parseLen w b0 b1 = ch.len + P.T := by
  obtain ⟨post, hd⟩ := sc.drop_frame hn h
  have e0 := getElem?_of_drop_cons hd
  have e1 := getElem?_of_drop_cons (drop_succ_of_drop_cons hd)
  rw [e0] at h0; rw [e1] at h1
  cases h0; cases h1
  unfold parseLen
  rw [sc.laws.toByte_ofByte _ (Nat.mod_lt _ (by decide)), sc.laws.toByte_ofByte _ (Nat.mod_lt _ (by decide))]
  have := sc.consts.w.snow; have := sc.consts.u16
  omega

/-- The body of an intact frame. -/
theorem Scene.body_honest (sc : Scene P w frames j rest full) {n : Nat} {ch : Chunk} (hn : n < j)
    (h : frames[n]? = some ch) :
    (full.drop (woff w P.T frames n + 2)).take (ch.len + P.T) = w.enc n ch := by
  obtain ⟨post, hd⟩ := sc.drop_frame hn h
  have := drop_succ_of_drop_cons (drop_succ_of_drop_cons hd)
  rw [show woff w P.T frames n + 1 + 1 = woff w P.T frames n + 2 by omega] at this
  rw [this]
  exact List.take_left' (sc.laws.enc_len n ch)

end scene

/-! ## The alignment invariant -/

/-- Absolute wire offset of the reader's frame cursor (`offset` seen from the start of the stream). -/
def absOff (s : ReadSock C) (c : RCarrier C) : Nat := c.cpos - s.nread + s.offset

/-- Where the cursor is, outside a partially handed-out frame: on the length prefix of frame `nonce`
(`current_frame_size = None`), or just behind it, `current_frame_size` holding what the two bytes say. -/
def CurAt (w : WireOps C) (T : Nat) (frames : List Chunk) (full : List C) (cur : Option Nat) (nonce A : Nat) :
    Prop :=
  match cur with
  | none => A = woff w T frames nonce
  | some fs => A = woff w T frames nonce + 2 ∧
      ∃ b0 b1, full[woff w T frames nonce]? = some b0 ∧ full[woff w T frames nonce + 1]? = some b1 ∧
        fs = parseLen w b0 b1

def Cursor (w : WireOps C) (T : Nat) (frames : List Chunk) (full : List C) (s : ReadSock C) (c : RCarrier C) :
    Prop :=
  match s.st with
  | .process (some _) _ _ fsz => absOff s c + fsz = woff w T frames s.nonce
  | _ => CurAt w T frames full s.cur s.nonce (absOff s c)

/-- In `ReadData` the frame under the cursor is incomplete. -/
def RdBound (s : ReadSock C) : Prop :=
  match s.st with
  | .readData _ =>
    match s.cur with
    | none => s.nread - s.offset < 2
    | some fs => s.nread - s.offset < 2 ∨ s.nread - s.offset < fs
  | _ => True

/-- **Alignment invariant**: the reader's frame cursor sits exactly on the wire offset of the frame
whose nonce comes next, and no more than the `j` intact frames have been decrypted. -/
structure AInv (w : WireOps C) (T : Nat) (frames : List Chunk) (j : Nat) (full : List C) (s : ReadSock C)
    (c : RCarrier C) : Prop where
  nle : s.nonce ≤ j
  cursor : Cursor w T frames full s c
  rd : RdBound s

theorem Cursor_eq (w : WireOps C) (T : Nat) (frames : List Chunk) (full : List C) (s : ReadSock C) (c : RCarrier C)
    (hs : ∀ ch a b d, s.st ≠ .process (some ch) a b d) :
    Cursor w T frames full s c ↔ CurAt w T frames full s.cur s.nonce (absOff s c) := by
  unfold Cursor
  split
  · rename_i ch a b d e; exact absurd e (hs ch a b d)
  · exact Iff.rfl

theorem AInv.congr {w : WireOps C} {T : Nat} {frames : List Chunk} {j : Nat} {full : List C} {s : ReadSock C}
    {c c' : RCarrier C} (a : AInv w T frames j full s c) (h : c'.cpos = c.cpos) : AInv w T frames j full s c' := by
  refine ⟨a.nle, ?_, a.rd⟩
  have := a.cursor
  unfold Cursor absOff at *
  rw [h]; exact this

/-! ## The carrier, once more: scripts -/

/-- Script entries of a carrier that delivers and never fails. -/
def GoodR : RHint → Prop
  | .chunk k => 1 ≤ k
  | .pend => True
  | .eof => False
  | .err => False

def GoodScript (l : List RHint) : Prop := ∀ h ∈ l, GoodR h

theorem GoodScript.suffix {a b : List RHint} (h : GoodScript b) (hs : a <:+ b) : GoodScript a :=
  fun x hx => h x (hs.subset hx)

theorem RCarrier.deflt_spec2 (c : RCarrier C) (cap : Nat) (hcap : 0 < cap) :
    (c.deflt cap).1.closed = c.closed ∧ (c.deflt cap).1.script = c.script ∧
    match (c.deflt cap).2 with
    | .ready n => n = 0 → c.closed = true ∧ c.str.size ≤ c.cpos
    | .pending => c.closed = false ∧ c.str.size ≤ c.cpos
    | .err => False := by
  unfold RCarrier.deflt
  by_cases h : c.str.size - c.cpos = 0
  · rw [if_pos h]
    cases hc : c.closed <;> simp <;> omega
  · rw [if_neg h]
    refine ⟨rfl, rfl, ?_⟩
    simp only []
    intro hn
    omega

theorem RCarrier.read_spec2 (c : RCarrier C) (req : Nat) (hreq : 0 < req) :
    (c.read req).1.closed = c.closed ∧ (c.read req).1.script <:+ c.script ∧
    (GoodScript c.script →
      match (c.read req).2 with
      | .ready n => n = 0 → c.closed = true ∧ c.str.size ≤ c.cpos
      | .pending => (c.read req).1.script.length < c.script.length ∨ (c.closed = false ∧ c.str.size ≤ c.cpos)
      | .err => False) := by
  unfold RCarrier.read
  cases hs : c.script with
  | nil =>
    simp only []
    have := RCarrier.deflt_spec2 c req hreq
    refine ⟨this.1, by rw [this.2.1, hs]; exact List.suffix_refl _, fun _ => ?_⟩
    have h3 := this.2.2
    split <;> rename_i e <;> rw [e] at h3
    · exact h3
    · exact Or.inr h3
    · exact h3
  | cons hd tl =>
    have hsuf : tl <:+ hd :: tl := List.suffix_cons _ _
    cases hd with
    | pend => exact ⟨rfl, hsuf, fun _ => Or.inl (by simp)⟩
    | eof => exact ⟨rfl, hsuf, fun hg => absurd (hg .eof (List.mem_cons_self ..)) (by simp [GoodR])⟩
    | err => exact ⟨rfl, hsuf, fun hg => absurd (hg .err (List.mem_cons_self ..)) (by simp [GoodR])⟩
    | chunk k =>
      simp only []
      by_cases hk : 1 ≤ k
      · have := RCarrier.deflt_spec2 { c with script := tl } (min req k) (by omega)
        refine ⟨this.1, by rw [this.2.1]; exact hsuf, fun _ => ?_⟩
        have h3 := this.2.2
        have h2 := this.2.1
        split <;> rename_i e <;> rw [e] at h3
        · exact h3
        · left; rw [h2]; simp
        · exact h3
      · have d := RCarrier.deflt_spec { c with script := tl } (min req k)
        refine ⟨?_, ?_, fun hg => absurd (hg (.chunk k) (List.mem_cons_self ..)) (by simp [GoodR]; omega)⟩
        · unfold RCarrier.deflt; split <;> rfl
        · have : (RCarrier.deflt { c with script := tl } (min req k)).1.script = tl := by
            unfold RCarrier.deflt; split <;> rfl
          rw [this]; exact hsuf

section steps
variable {P : Params} {w : WireOps C} {frames : List Chunk} {j : Nat} {rest full : List C}

theorem readDataStep_ainv (s : ReadSock C) (c : RCarrier C) (h : RInv P s c)
    (a : AInv w P.T frames j full s c) (m : Nat) (hst : s.st = .readData m) :
    (readDataStep w s c m).2.1.closed = c.closed ∧ (readDataStep w s c m).2.1.script <:+ c.script ∧
    match (readDataStep w s c m).2.2 with
    | none => AInv w P.T frames j full (readDataStep w s c m).1 (readDataStep w s c m).2.1
    | some .pending => (readDataStep w s c m).1 = s ∧ (readDataStep w s c m).2.1.cpos = c.cpos ∧
        (GoodScript c.script → (readDataStep w s c m).2.1.script.length < c.script.length ∨
          (c.closed = false ∧ c.str.size ≤ c.cpos))
    | some (.err e) => GoodScript c.script → e = .eof ∧ c.closed = true ∧ c.str.size ≤ c.cpos
    | _ => True := by
  have hsti := h.st
  simp only [StInv, hst] at hsti
  obtain ⟨hlt, hmb, hdec, hmr⟩ := hsti
  unfold readDataStep
  rw [if_neg (by omega)]
  have hr := RCarrier.read_spec c (m - s.nread)
  have hr2 := RCarrier.read_spec2 c (m - s.nread) (by omega)
  rcases hcr : c.read (m - s.nread) with ⟨c', ans⟩
  rw [hcr] at hr hr2
  obtain ⟨r1, r2, r3⟩ := hr
  obtain ⟨q1, q2, q3⟩ := hr2
  simp only [] at r1 r2 r3 q1 q2 q3
  cases ans with
  | pending =>
    simp only [] at q3 ⊢
    exact ⟨q1, q2, trivial, r3 (Or.inl rfl), q3⟩
  | err =>
    simp only [] at q3 ⊢
    exact ⟨q1, q2, fun hg => absurd (q3 hg) id⟩
  | ready n =>
    simp only [] at q3 ⊢
    by_cases hn : n = 0
    · rw [if_pos hn]
      simp only []
      exact ⟨q1, q2, fun hg => ⟨trivial, q3 hg hn⟩⟩
    · rw [if_neg hn]
      simp only []
      refine ⟨q1, q2, a.nle, ?_, by simp [RdBound]⟩
      obtain ⟨rn, rc, rs⟩ := r2 n rfl
      have hnl := h.nread_le
      have hc := a.cursor
      rw [Cursor_eq _ _ _ _ _ _ (by simp [hst])] at hc
      rw [Cursor_eq _ _ _ _ _ _ (by simp)]
      have : absOff { s with buf := blit (w.ofByte 0) s.buf s.nread c.str c.cpos n, nread := s.nread + n,
                             st := RState.readFrameLen } c' = absOff s c := by
        unfold absOff; simp only [rc]; omega
      rw [this]; exact hc

theorem lt_of_getElem?_some {l : List C} {i : Nat} {x : C} (h : l[i]? = some x) : i < l.length := by
  obtain ⟨h', _⟩ := List.getElem?_eq_some_iff.1 h
  exact h'

theorem full_get_of_str (c : RCarrier C) (hpre : ∃ t, c.str.toList ++ t = full) (i : Nat) (hi : i < c.str.size) :
    full[i]? = c.str[i]? := by
  obtain ⟨t, ht⟩ := hpre
  rw [← ht, List.getElem?_append_left (by simpa using hi), Array.getElem?_toList]

theorem full_window_of_str (c : RCarrier C) (hpre : ∃ t, c.str.toList ++ t = full) (a n : Nat)
    (h : a + n ≤ c.str.toList.length) :
    (full.drop a).take n = (c.str.toList.drop a).take n ∧ a + n ≤ full.length := by
  obtain ⟨t, ht⟩ := hpre
  rw [← ht, List.drop_append_of_le_length (by omega), List.take_append_of_le_length (by simp; simp at h; omega)]
  exact ⟨rfl, by simp; simp at h; omega⟩

theorem resetRead_fields (s s' : ReadSock C) (r : Nat) (h : resetRead s r = .ok s') :
    s'.offset = 0 ∧ s'.nread = r ∧ s'.cur = s.cur ∧ s'.nonce = s.nonce ∧ s'.st = .readData s.canon := by
  unfold resetRead at h
  split at h
  · cases h; exact ⟨rfl, rfl, rfl, rfl, rfl⟩
  · split at h
    · cases h; exact ⟨rfl, rfl, rfl, rfl, rfl⟩
    · cases h
  · cases h

theorem afterSize_ainv (sc : Scene P w frames j rest full) (s0 : ReadSock C) (c : RCarrier C) (fs : Nat)
    (hn : s0.nonce ≤ j) (hcur : CurAt w P.T frames full (some fs) s0.nonce (absOff s0 c)) :
    match (afterSize P s0 fs (s0.nread - s0.offset)).2 with
    | none => AInv w P.T frames j full (afterSize P s0 fs (s0.nread - s0.offset)).1 c
    | some (.err .invalidData) => s0.nonce = j ∧ 2 ≤ rest.length
    | _ => True := by
  unfold afterSize
  by_cases h1 : s0.nread - s0.offset < fs
  · rw [if_pos h1]
    by_cases h2 : s0.nread + fs < s0.canon
    · rw [if_pos h2]
      simp only []
      refine ⟨hn, ?_, ?_⟩
      · rw [Cursor_eq _ _ _ _ _ _ (by simp)]; exact hcur
      · simp only [RdBound]; exact Or.inr h1
    · rw [if_neg h2]
      simp only []
      refine ⟨hn, ?_, ?_⟩
      · rw [Cursor_eq _ _ _ _ _ _ (by simp)]; exact hcur
      · simp only [RdBound]; exact Or.inr h1
  · rw [if_neg h1]
    by_cases h3 : fs ≤ P.TAG
    · rw [if_pos h3]
      simp only []
      obtain ⟨_, b0, b1, g0, g1, hfs⟩ := hcur
      have hnj : s0.nonce = j := by
        rcases Nat.lt_or_ge s0.nonce j with hlt | hge
        · exfalso
          obtain ⟨ch, hch, hc1, hcm, _⟩ := sc.frame_of_lt hlt
          have := sc.parse_honest hlt hch hcm g0 g1
          have := sc.consts.r.tag
          omega
        · omega
      refine ⟨hnj, ?_⟩
      have := lt_of_getElem?_some g1
      have := sc.full_len
      rw [hnj] at *
      omega
    · rw [if_neg h3]
      simp only []
      refine ⟨hn, ?_, by simp [RdBound]⟩
      rw [Cursor_eq _ _ _ _ _ _ (by simp)]; exact hcur

theorem frameLenStep_ainv (sc : Scene P w frames j rest full) (s : ReadSock C) (c : RCarrier C)
    (h : RInv P s c) (hpre : ∃ t, c.str.toList ++ t = full) (a : AInv w P.T frames j full s c)
    (hst : s.st = .readFrameLen) :
    match (frameLenStep P w s).2 with
    | none => AInv w P.T frames j full (frameLenStep P w s).1 c
    | some (.err .invalidData) => s.nonce = j ∧ 2 ≤ rest.length
    | _ => True := by
  have hol := h.off_le
  have hnl := h.nread_le
  have hcu := a.cursor
  rw [Cursor_eq _ _ _ _ _ _ (by simp [hst])] at hcu
  unfold frameLenStep
  rw [if_neg (by omega)]
  by_cases hrem : s.nread - s.offset < 2
  · rw [if_pos hrem]
    obtain ⟨s', e, _, _⟩ := resetRead_inv P sc.consts.r s c h hst hrem
    rw [e]
    simp only []
    obtain ⟨f1, f2, f3, f4, f5⟩ := resetRead_fields _ _ _ e
    refine ⟨by rw [f4]; exact a.nle, ?_, ?_⟩
    · rw [Cursor_eq _ _ _ _ _ _ (by simp [f5])]
      have : absOff s' c = absOff s c := by unfold absOff; rw [f1, f2]; omega
      rw [this, f3, f4]; exact hcu
    · simp only [RdBound, f5, f3, f2, f1, Nat.sub_zero]
      split
      · exact hrem
      · exact Or.inl hrem
  · rw [if_neg hrem]
    cases hcur : s.cur with
    | some fs =>
      simp only []
      rw [hcur] at hcu
      exact afterSize_ainv sc { s with cur := none } c fs a.nle hcu
    | none =>
      simp only []
      rw [hcur] at hcu
      have hroom := h.room
      simp only [pendSize, hst, hcur, Option.getD_none] at hroom
      have hb : s.offset + 1 < s.buf.size := by
        have := canon_ge P sc.consts.r; have := bufSize_eq P; have := h.canon; have := h.size
        omega
      rw [if_pos hb]
      have e : s.nread - s.offset - 2 = s.nread - (s.offset + 2) := by omega
      rw [e]
      have hA : absOff s c = woff w P.T frames s.nonce := hcu
      have hcl := h.cpos_le
      have key : ∀ i, i < 2 → s.buf[s.offset + i]? = full[woff w P.T frames s.nonce + i]? ∧
          woff w P.T frames s.nonce + i < full.length := by
        intro i hi
        have hw := h.window (s.offset + i) (by omega)
        have hlt : c.cpos - s.nread + (s.offset + i) < c.str.size := by omega
        rw [hw, ← full_get_of_str c hpre _ hlt, ← hA]
        unfold absOff
        refine ⟨by congr 1; omega, ?_⟩
        obtain ⟨t, ht⟩ := hpre
        rw [← ht]; simp; omega
      obtain ⟨k0, l0⟩ := key 0 (by omega)
      obtain ⟨k1, l1⟩ := key 1 (by omega)
      simp only [Nat.add_zero] at k0 l0
      apply afterSize_ainv sc { s with offset := s.offset + 2, cur := none } c _ a.nle
      refine ⟨by show absOff { s with offset := s.offset + 2, cur := none } c = _; unfold absOff at hA ⊢; simp only []; omega,
        s.buf.getD s.offset (w.ofByte 0), s.buf.getD (s.offset + 1) (w.ofByte 0), ?_, ?_, rfl⟩
      · rw [Array.getD_eq_getD_getElem?, k0, List.getElem?_eq_getElem l0]; rfl
      · rw [Array.getD_eq_getD_getElem?, k1, List.getElem?_eq_getElem l1]; rfl

/-- The carrier is exhausted, everything has been delivered, and the reader still wants data: then
all intact frames have been decrypted. -/
theorem exhausted_done (sc : Scene P w frames j rest full) (s : ReadSock C) (c : RCarrier C)
    (h : RInv P s c) (a : AInv w P.T frames j full s c) (m : Nat) (hst : s.st = .readData m)
    (hex : c.str.size ≤ c.cpos) (hfull : c.str.toList = full) : s.nonce = j := by
  rcases Nat.lt_or_ge s.nonce j with hlt | hge
  · exfalso
    obtain ⟨ch, hch, hc1, hcm, hle⟩ := sc.frame_of_lt hlt
    have hws := woff_succ sc.laws hch
    have hol := h.off_le; have hnl := h.nread_le; have hcl := h.cpos_le
    have hlen : full.length = c.cpos := by rw [← hfull]; simp; omega
    have hcu := a.cursor
    rw [Cursor_eq _ _ _ _ _ _ (by simp [hst])] at hcu
    have hrd := a.rd
    simp only [RdBound, hst] at hrd
    unfold absOff at hcu
    cases hcur : s.cur with
    | none =>
      rw [hcur] at hcu hrd
      simp only [CurAt] at hcu hrd
      omega
    | some fs =>
      rw [hcur] at hcu hrd
      simp only [CurAt] at hcu hrd
      obtain ⟨hA, b0, b1, g0, g1, hfs⟩ := hcu
      have := sc.parse_honest hlt hch hcm g0 g1
      have := sc.consts.t1
      omega
  · have := a.nle; omega

/-- ... and if a complete frame's worth of bytes follows the intact frames, the reader is not in
`ReadData` with an exhausted carrier at all. -/
theorem not_stuck (sc : Scene P w frames j rest full) (s : ReadSock C) (c : RCarrier C)
    (h : RInv P s c) (a : AInv w P.T frames j full s c) (m : Nat) (hst : s.st = .readData m)
    (hex : c.str.size ≤ c.cpos) (hfull : c.str.toList = full) : ¬ CompleteAt w rest := by
  rintro ⟨b0, b1, tl, hr, hp, h2⟩
  have hnj := exhausted_done sc s c h a m hst hex hfull
  have hol := h.off_le; have hnl := h.nread_le; have hcl := h.cpos_le
  have hlen : full.length = c.cpos := by rw [← hfull]; simp; omega
  have hfl := sc.full_len
  have hrl : rest.length = tl.length + 2 := by rw [hr]; simp
  have hcu := a.cursor
  rw [Cursor_eq _ _ _ _ _ _ (by simp [hst])] at hcu
  have hrd := a.rd
  simp only [RdBound, hst] at hrd
  unfold absOff at hcu
  rw [hnj] at hcu
  cases hcur : s.cur with
  | none =>
    rw [hcur] at hcu hrd
    simp only [CurAt] at hcu hrd
    omega
  | some fs =>
    rw [hcur] at hcu hrd
    simp only [CurAt] at hcu hrd
    obtain ⟨hA, c0, c1, g0, g1, hfs⟩ := hcu
    have hd := sc.drop_rest
    rw [hr] at hd
    have e0 := getElem?_of_drop_cons hd
    have e1 := getElem?_of_drop_cons (drop_succ_of_drop_cons hd)
    rw [e0] at g0; rw [e1] at g1
    cases g0; cases g1
    omega

theorem snowRead_enc (hl : WireLaws P w) (n : Nat) (ch : Chunk) (sp : Nat) (h1 : ch.len + P.T ≤ P.SNOWMAX)
    (h2 : ch.len ≤ sp) : snowRead P w n (w.enc n ch) sp = some ch := by
  unfold snowRead
  rw [hl.enc_len, if_neg (by omega), if_neg (by omega)]
  exact (hl.dec_iff n _ ch).2 rfl

theorem processStep_ainv (sc : Scene P w frames j rest full) (k : Nat) (s : ReadSock C) (c : RCarrier C)
    (h : RInv P s c) (hpre : ∃ t, c.str.toList ++ t = full) (a : AInv w P.T frames j full s c)
    (pending : Option Chunk) (off size fsz : Nat) (hst : s.st = .process pending off size fsz) :
    match (processStep P w k s pending off size fsz).2 with
    | .ok _ _ => AInv w P.T frames j full (processStep P w k s pending off size fsz).1 c
    | .err _ => s.nonce = j ∧ pending = none ∧ 2 ≤ rest.length
    | _ => True := by
  have hsti := h.st
  have hcu := a.cursor
  have hol := h.off_le; have hnl := h.nread_le
  unfold processStep
  cases pending with
  | some ch =>
    simp only [StInv, hst] at hsti
    obtain ⟨hcur, ho, hsz, hof, hsl⟩ := hsti
    simp only [Cursor, hst] at hcu
    simp only []
    rw [if_neg (by omega)]
    by_cases hk : k ≥ size - off
    · rw [if_pos hk]
      simp only []
      refine ⟨a.nle, ?_, by simp [RdBound]⟩
      rw [Cursor_eq _ _ _ _ _ _ (by simp)]
      simp only [hcur, CurAt]
      unfold absOff at hcu ⊢
      simp only []
      omega
    · rw [if_neg hk]
      simp only []
      refine ⟨a.nle, ?_, by simp [RdBound]⟩
      simp only [Cursor]
      exact hcu
  | none =>
    simp only [StInv, hst] at hsti
    obtain ⟨hdec, fs, hcur, htg, hof⟩ := hsti
    rw [Cursor_eq _ _ _ _ _ _ (by simp [hst]), hcur] at hcu
    obtain ⟨hA, b0, b1, g0, g1, hfs⟩ := hcu
    simp only []
    rw [hcur]
    simp only []
    rw [if_neg (by omega)]
    have hroom := h.room
    simp only [pendSize, hst, hcur, Option.getD_some] at hroom
    have hnb : s.nread ≤ s.buf.size := by
      have := h.canon; have := bufSize_eq P; have := h.size
      omega
    obtain ⟨hw1, hw2, hw3⟩ := window_eq P s c h fs hof
    obtain ⟨hw4, hw5⟩ := full_window_of_str c hpre _ fs hw3
    have hwin : window s fs = (full.drop (woff w P.T frames s.nonce + 2)).take fs := by
      rw [hw1, ← hw4, ← hA]; rfl
    have hA' : c.cpos - s.nread + s.offset = woff w P.T frames s.nonce + 2 := hA
    have htag := sc.consts.r.tag
    rcases Nat.lt_or_ge s.nonce j with hlt | hge
    · obtain ⟨ch, hch, hc1, hcm, hle⟩ := sc.frame_of_lt hlt
      have hws := woff_succ sc.laws hch
      have hfs' : fs = ch.len + P.T := by rw [hfs]; exact sc.parse_honest hlt hch hcm g0 g1
      have hbody : window s fs = w.enc s.nonce ch := by rw [hwin, hfs']; exact sc.body_honest hlt hch
      have hsn := sc.consts.w.snow
      by_cases hk : k ≥ fs - P.TAG
      · rw [if_pos hk, if_neg (by omega), hbody, snowRead_enc sc.laws _ _ _ (by omega) (by omega)]
        simp only []
        refine ⟨by show s.nonce + 1 ≤ j; omega, ?_, by simp [RdBound]⟩
        rw [Cursor_eq _ _ _ _ _ _ (by simp)]
        simp only [CurAt]
        unfold absOff
        simp only []
        omega
      · rw [if_neg hk, if_neg (by simp [hdec]), if_neg (by omega), hbody,
          snowRead_enc sc.laws _ _ _ (by omega) hcm, ]
        simp only []
        rw [if_neg (by omega)]
        simp only []
        refine ⟨by show s.nonce + 1 ≤ j; omega, ?_, by simp [RdBound]⟩
        simp only [Cursor]
        unfold absOff
        simp only []
        omega
    · have hnj : s.nonce = j := by have := a.nle; omega
      have hrl : 2 ≤ rest.length := by
        have := lt_of_getElem?_some g1
        have := sc.full_len
        rw [hnj] at *
        omega
      -- no window decrypts under nonce `j`
      have hno : ∀ sp p, snowRead P w s.nonce (window s fs) sp = some p → False := by
        intro sp p hsr
        obtain ⟨hd, _, _⟩ := snowRead_some P w sc.laws _ _ _ _ hsr
        rw [hwin] at hd
        have hfp := sc.auth _ _ _ _ (by omega) hd
        have henc := (sc.laws.dec_iff _ _ _).1 hd
        have hrest := sc.drop_rest
        rw [hnj] at g0 g1 henc hfp
        rw [drop_of_getElem? g0 g1] at hrest
        refine sc.bad b0 b1 _ p hrest.symm hfp ?_ (by rw [← hfs]; exact henc)
        rw [← hfs, List.length_drop]
        rw [hnj] at hA'
        omega
      by_cases hk : k ≥ fs - P.TAG
      · rw [if_pos hk, if_neg (by omega)]
        cases hsr : snowRead P w s.nonce (window s fs) k with
        | none => exact ⟨hnj, trivial, hrl⟩
        | some p => exact (hno _ _ hsr).elim
      · rw [if_neg hk, if_neg (by simp [hdec]), if_neg (by omega)]
        cases hsr : snowRead P w s.nonce (window s fs) P.MAXF with
        | none => exact ⟨hnj, trivial, hrl⟩
        | some p => exact (hno _ _ hsr).elim

/-! ## One `poll_read` -/

/-- Why a read may fail: end of stream on a closed carrier, or bytes that are not the next frame. -/
def Cause (rest : List C) (closed : Prop) : RErr → Prop
  | .eof => closed
  | .invalidData => 2 ≤ rest.length
  | _ => False

/-- What a whole `poll_read` guarantees in addition to `PollPost`. `good`: the carrier script never
fails; `closed`, `str`: the carrier's flag and content; `slen`: bound on its script length. -/
def PollPostA (w : WireOps C) (T : Nat) (frames : List Chunk) (j : Nat) (rest full : List C) (outLen : Nat)
    (good : Prop) (closed : Bool) (str : List C) (slen : Nat) (s' : ReadSock C) (c' : RCarrier C) : ROut → Prop
  | .ok _ _ => AInv w T frames j full s' c'
  | .pending => AInv w T frames j full s' c' ∧
      (good → c'.script.length < slen ∨
        (closed = false ∧ (str = full → outLen = startOf frames j ∧ ¬ CompleteAt w rest)))
  | .err e => good → (closed = true → str = full) → outLen = startOf frames j ∧ Cause rest (closed = true) e
  | _ => True

def IterPostA (w : WireOps C) (T : Nat) (frames : List Chunk) (j : Nat) (rest full : List C) (outLen : Nat)
    (good : Prop) (closed : Bool) (str : List C) (slen : Nat) (s' : ReadSock C) (c' : RCarrier C) :
    Option ROut → Prop
  | none => AInv w T frames j full s' c'
  | some o => PollPostA w T frames j rest full outLen good closed str slen s' c' o

theorem readIter_ainv (sc : Scene P w frames j rest full) (k : Nat) (s : ReadSock C) (c : RCarrier C)
    (h : RInv P s c) (outLen : Nat) (hs : SInv frames s outLen) (a : AInv w P.T frames j full s c)
    (hpre : ∃ t, c.str.toList ++ t = full) (good : Prop) (hg : good → GoodScript c.script) (slen : Nat)
    (hsl : c.script.length ≤ slen) :
    (readIter P w k s c).2.1.closed = c.closed ∧ (readIter P w k s c).2.1.script <:+ c.script ∧
    IterPostA w P.T frames j rest full outLen good c.closed c.str.toList slen
      (readIter P w k s c).1 (readIter P w k s c).2.1 (readIter P w k s c).2.2 := by
  have hauth : Authentic w frames c.str.toList := by
    obtain ⟨t, ht⟩ := hpre
    exact Authentic_prefix w frames _ t (by rw [ht]; exact sc.auth)
  unfold readIter
  cases hst : s.st with
  | readData m =>
    simp only []
    have hsn : ∀ ch a b d, s.st ≠ .process (some ch) a b d := by simp [hst]
    obtain ⟨q1, q2, q3⟩ := readDataStep_ainv (w := w) (frames := frames) (j := j) (full := full) s c h a m hst
    have b3 := (readDataStep_inv P w s c h m hst).2.2
    rcases hrd : readDataStep w s c m with ⟨s', c', o⟩
    rw [hrd] at q1 q2 q3 b3
    simp only [] at q1 q2 q3 b3 ⊢
    refine ⟨q1, q2, ?_⟩
    have hdone : c.str.size ≤ c.cpos → c.str.toList = full → outLen = startOf frames j := by
      intro hex hf
      have := exhausted_done sc s c h a m hst hex hf
      rw [← this]
      exact ((SInv_eq frames s outLen hsn).1 hs).2
    have hns : c.str.size ≤ c.cpos → c.str.toList = full → ¬ CompleteAt w rest :=
      fun hex hf => not_stuck sc s c h a m hst hex hf
    match o, q3, b3 with
    | none, q3, _ => exact q3
    | some .pending, q3, _ =>
      obtain ⟨e1, e2, e3⟩ := q3
      subst e1
      refine ⟨a.congr e2, fun hgd => ?_⟩
      rcases e3 (hg hgd) with l | ⟨r1, r2⟩
      · left; omega
      · right; exact ⟨r1, fun hf => ⟨hdone r2 hf, hns r2 hf⟩⟩
    | some (.err .eof), q3, _ =>
      intro hgd hcf
      obtain ⟨_, e2, e3⟩ := q3 (hg hgd)
      exact ⟨hdone e3 (hcf e2), e2⟩
    | some (.err .carrier), q3, _ =>
      intro hgd _
      have := (q3 (hg hgd)).1
      cases this
  | readFrameLen =>
    simp only []
    have hsn : ∀ ch a b d, s.st ≠ .process (some ch) a b d := by simp [hst]
    have q3 := frameLenStep_ainv sc s c h hpre a hst
    have b3 := (frameLenStep_inv P w sc.consts.r s c h hst).2.2
    rcases hfl : frameLenStep P w s with ⟨s', o⟩
    rw [hfl] at q3 b3
    simp only [] at q3 b3 ⊢
    refine ⟨trivial, List.suffix_refl _, ?_⟩
    match o, q3, b3 with
    | none, q3, _ => exact q3
    | some (.err .invalidData), q3, _ =>
      intro _ _
      refine ⟨?_, q3.2⟩
      rw [← q3.1]
      exact ((SInv_eq frames s outLen hsn).1 hs).2
  | process pending off size fsz =>
    simp only []
    have q3 := processStep_ainv sc k s c h hpre a pending off size fsz hst
    have b3 := processStep_inv P w sc.laws sc.consts.r P.MAXF frames sc.frs k s c h pending off size fsz hst outLen hs hauth
    rcases hps : processStep P w k s pending off size fsz with ⟨s', o⟩
    rw [hps] at q3 b3
    simp only [] at q3 b3 ⊢
    refine ⟨trivial, List.suffix_refl _, ?_⟩
    match o, q3, b3 with
    | .ok n pos, q3, _ => exact q3
    | .err .invalidData, q3, _ =>
      intro _ _
      obtain ⟨e1, e2, e3⟩ := q3
      subst e2
      have hsn : ∀ ch a b d, s.st ≠ .process (some ch) a b d := by simp [hst]
      refine ⟨?_, e3⟩
      rw [← e1]
      exact ((SInv_eq frames s outLen hsn).1 hs).2

theorem readLoop_ainv (sc : Scene P w frames j rest full) (k : Nat) (fuel : Nat) (s : ReadSock C) (c : RCarrier C)
    (h : RInv P s c) (outLen : Nat) (hs : SInv frames s outLen) (a : AInv w P.T frames j full s c)
    (hpre : ∃ t, c.str.toList ++ t = full) (good : Prop) (hg : good → GoodScript c.script) (slen : Nat)
    (hsl : c.script.length ≤ slen) (closed : Bool) (hcl : c.closed = closed) (str : List C)
    (hstr : c.str.toList = str) (hfuel : rmeasure s c < fuel) :
    (readLoop P w k fuel s c).2.1.closed = closed ∧ (readLoop P w k fuel s c).2.1.script <:+ c.script ∧
    PollPostA w P.T frames j rest full outLen good closed str slen
      (readLoop P w k fuel s c).1 (readLoop P w k fuel s c).2.1 (readLoop P w k fuel s c).2.2 := by
  induction fuel generalizing s c with
  | zero => omega
  | succ fuel ih =>
    have hauth : Authentic w frames c.str.toList := by
      obtain ⟨t, ht⟩ := hpre
      exact Authentic_prefix w frames _ t (by rw [ht]; exact sc.auth)
    unfold readLoop
    obtain ⟨a1, a2, a3⟩ := readIter_inv P w sc.laws sc.consts.r P.MAXF frames sc.frs k s c h outLen hs hauth
    obtain ⟨q1, q2, q3⟩ := readIter_ainv sc k s c h outLen hs a hpre good hg slen hsl
    rcases hri : readIter P w k s c with ⟨s', c', o⟩
    rw [hri] at a1 a2 a3 q1 q2 q3
    simp only [] at a1 a2 a3 q1 q2 q3
    rw [hcl, hstr] at q3
    cases o with
    | none =>
      simp only []
      simp only [IterPost] at a2
      simp only [IterPostA] at q3
      have := a3 rfl
      obtain ⟨b1, b2, b3⟩ := ih s' c' a2.1 a2.2 q3 (by rw [a1]; exact hpre)
        (fun hgd => (hg hgd).suffix q2) (by have := q2.length_le; omega) (by rw [q1, hcl]) (by rw [a1, hstr])
        (by omega)
      exact ⟨b1, b2.trans q2, b3⟩
    | some o =>
      simp only []
      exact ⟨by rw [q1, hcl], q2, q3⟩

/-- `poll_read` from an aligned state. -/
theorem pollRead_ainv (sc : Scene P w frames j rest full) (k : Nat) (s : ReadSock C) (c : RCarrier C)
    (h : RInv P s c) (outLen : Nat) (hs : SInv frames s outLen) (a : AInv w P.T frames j full s c)
    (hpre : ∃ t, c.str.toList ++ t = full) :
    (pollRead P w k s c).2.1.closed = c.closed ∧ (pollRead P w k s c).2.1.script <:+ c.script ∧
    PollPostA w P.T frames j rest full outLen (GoodScript c.script) c.closed c.str.toList c.script.length
      (pollRead P w k s c).1 (pollRead P w k s c).2.1 (pollRead P w k s c).2.2 :=
  readLoop_ainv sc k _ s c h outLen hs a hpre _ id _ (Nat.le_refl _) _ rfl _ rfl (rmeasure_lt_fuel s c)

/-! ## Runs -/

theorem Cause.mono {rest : List C} {p q : Prop} (hpq : p → q) {e : RErr} (h : Cause rest p e) : Cause rest q e := by
  cases e <;> simp only [Cause] at h ⊢
  · exact hpq h
  · exact h

/-- An environment that delivers and never fails: good script entries, `close` only after the last
delivered byte. -/
def GoodEnv : List (REvent C) → Prop
  | [] => True
  | .poll _ :: es => GoodEnv es
  | .deliver _ :: es => GoodEnv es
  | .script hs :: es => GoodScript hs ∧ GoodEnv es
  | .close :: es => delivered es = [] ∧ GoodEnv es

/-- Number of script entries (an upper bound on the number of `Pending`s of a good carrier). -/
def scriptLen : List (REvent C) → Nat
  | [] => 0
  | .script hs :: es => hs.length + scriptLen es
  | _ :: es => scriptLen es

/-- The carrier is closed at some point. -/
def Closes : List (REvent C) → Prop
  | [] => False
  | .close :: _ => True
  | _ :: es => Closes es

theorem startOf_mono (frames : List Chunk) {a b : Nat} (h : a ≤ b) : startOf frames a ≤ startOf frames b := by
  have := startOf_le (frames.take b) a
  unfold startOf at *
  rw [List.take_take, Nat.min_eq_left h] at this
  exact this

theorem outLen_le (sc : Scene P w frames j rest full) (s : ReadSock C) (c : RCarrier C) (h : RInv P s c)
    (outLen : Nat) (hs : SInv frames s outLen) (a : AInv w P.T frames j full s c) :
    outLen ≤ startOf frames j := by
  have hn := a.nle
  unfold SInv at hs
  split at hs
  · rename_i ch off _ _ e
    obtain ⟨h1, h2, h3⟩ := hs
    obtain ⟨fa, fb, _, _⟩ := framesFrom_get sc.frs h2
    have hq := h.st
    simp only [StInv, e] at hq
    have := startOf_mono frames hn
    have e2 : s.nonce = s.nonce - 1 + 1 := by omega
    rw [e2] at this
    unfold startOf at this ⊢
    omega
  · rw [hs.2]; exact startOf_mono frames hn

theorem outBytes_append_err (pre : List ROut) (e : RErr) : outBytes (pre ++ [.err e]) = outBytes pre := by
  induction pre with
  | nil => rfl
  | cons x xs ih => cases x <;> simp [outBytes, ih]

/-- Safety on every stream that starts with `j` intact frames, for every environment: only the
plaintext of these `j` frames is ever handed out. -/
theorem run_safe (sc : Scene P w frames j rest full) (es : List (REvent C)) (s : ReadSock C) (c : RCarrier C)
    (h : RInv P s c) (outLen : Nat) (hs : SInv frames s outLen) (a : AInv w P.T frames j full s c)
    (hpre : ∃ t, c.str.toList ++ delivered es ++ t = full) :
    ∃ m, outBytes (runReader P w s c es) = List.range' outLen m ∧ outLen + m ≤ startOf frames j := by
  induction es generalizing s c outLen with
  | nil => exact ⟨0, rfl, outLen_le sc s c h outLen hs a⟩
  | cons e es ih =>
    cases e with
    | poll k =>
      simp only [runReader]
      have hpre' : ∃ t, c.str.toList ++ t = full := by
        obtain ⟨t, ht⟩ := hpre
        exact ⟨delivered es ++ t, by simpa [delivered] using ht⟩
      have hauth : Authentic w frames c.str.toList := by
        obtain ⟨t, ht⟩ := hpre'
        exact Authentic_prefix w frames _ t (by rw [ht]; exact sc.auth)
      obtain ⟨p1, p2⟩ := pollRead_inv P w sc.laws sc.consts.r P.MAXF frames sc.frs k s c h outLen hs hauth
      obtain ⟨_, _, q3⟩ := pollRead_ainv sc k s c h outLen hs a hpre'
      rcases hp : pollRead P w k s c with ⟨s', c', o⟩
      rw [hp] at p1 p2 q3
      simp only [] at p1 p2 q3
      cases o with
      | ok n pos =>
        simp only [PollPost] at p2
        simp only [PollPostA] at q3
        obtain ⟨e1, _, _, e4, e5⟩ := p2
        obtain ⟨m, i1, i2⟩ := ih s' c' e4 (outLen + n) e5 q3 (by rw [p1]; simpa [delivered] using hpre)
        subst e1
        refine ⟨n + m, ?_, by omega⟩
        simp only [outBytes, i1]
        rw [List.range'_append_1]
      | pending =>
        simp only [PollPost] at p2
        simp only [PollPostA] at q3
        obtain ⟨m, i1, i2⟩ := ih s' c' p2.1 outLen p2.2 q3.1 (by rw [p1]; simpa [delivered] using hpre)
        exact ⟨m, i1, i2⟩
      | err e => exact ⟨0, rfl, outLen_le sc s c h outLen hs a⟩
      | panic m => exact absurd p2 (by simp [PollPost])
      | diverged => exact absurd p2 (by simp [PollPost])
    | deliver d =>
      simp only [runReader]
      exact ih s _ (RInv_deliver P s c d h) outLen hs (a.congr rfl) (by simpa [applyEnv, delivered] using hpre)
    | script hs' =>
      simp only [runReader]
      exact ih s (applyEnv c (.script hs')) (RInv.congr P s c _ h rfl rfl) outLen hs (a.congr rfl)
        (by simpa [applyEnv, delivered] using hpre)
    | close =>
      simp only [runReader]
      exact ih s (applyEnv c .close) (RInv.congr P s c _ h rfl rfl) outLen hs (a.congr rfl)
        (by simpa [applyEnv, delivered] using hpre)

theorem delivered_polls (ks : List Nat) : delivered (ks.map (REvent.poll (C := C))) = [] := by
  induction ks with
  | nil => rfl
  | cons x xs ih => simpa [delivered] using ih

theorem delivered_append (a b : List (REvent C)) : delivered (a ++ b) = delivered a ++ delivered b := by
  induction a with
  | nil => rfl
  | cons x xs ih => cases x <;> simp [delivered, ih]

/-- What one poll of a run contributes, in the form the two inductions below need. -/
theorem poll_cases (sc : Scene P w frames j rest full) (k : Nat) (s : ReadSock C) (c : RCarrier C)
    (h : RInv P s c) (outLen : Nat) (hs : SInv frames s outLen) (a : AInv w P.T frames j full s c)
    (hpre : ∃ t, c.str.toList ++ t = full) (hg : GoodScript c.script)
    (hcf : c.closed = true → c.str.toList = full) :
    ∃ s' c' o, pollRead P w k s c = (s', c', o) ∧ c'.str = c.str ∧ c'.closed = c.closed ∧
      GoodScript c'.script ∧ c'.script.length ≤ c.script.length ∧
      match o with
      | .ok n pos => pos = outLen ∧ (0 < k → 0 < n) ∧ outLen + n ≤ startOf frames j ∧
          RInv P s' c' ∧ SInv frames s' (outLen + n) ∧ AInv w P.T frames j full s' c'
      | .pending => RInv P s' c' ∧ SInv frames s' outLen ∧ AInv w P.T frames j full s' c' ∧
          (c'.script.length < c.script.length ∨
            (c.closed = false ∧ (c.str.toList = full → outLen = startOf frames j ∧ ¬ CompleteAt w rest)))
      | .err e => outLen = startOf frames j ∧ Cause rest (c.closed = true) e
      | _ => False := by
  have hauth : Authentic w frames c.str.toList := by
    obtain ⟨t, ht⟩ := hpre
    exact Authentic_prefix w frames _ t (by rw [ht]; exact sc.auth)
  obtain ⟨p1, p2⟩ := pollRead_inv P w sc.laws sc.consts.r P.MAXF frames sc.frs k s c h outLen hs hauth
  obtain ⟨q1, q2, q3⟩ := pollRead_ainv sc k s c h outLen hs a hpre
  rcases hp : pollRead P w k s c with ⟨s', c', o⟩
  rw [hp] at p1 p2 q1 q2 q3
  simp only [] at p1 p2 q1 q2 q3
  refine ⟨s', c', o, rfl, p1, q1, hg.suffix q2, q2.length_le, ?_⟩
  cases o with
  | ok n pos =>
    simp only [PollPost] at p2
    simp only [PollPostA] at q3
    obtain ⟨e1, _, e3, e4, e5⟩ := p2
    exact ⟨e1, e3, outLen_le sc s' c' e4 _ e5 q3, e4, e5, q3⟩
  | pending =>
    simp only [PollPost] at p2
    simp only [PollPostA] at q3
    exact ⟨p2.1, p2.2, q3.1, q3.2 hg⟩
  | err e =>
    simp only [PollPostA] at q3
    exact q3 hg hcf
  | panic m => exact absurd p2 (by simp [PollPost])
  | diverged => exact absurd p2 (by simp [PollPost])

/-- Everything has been delivered, the script is good, the reader polls with non-empty buffers. -/
theorem drain_polls (sc : Scene P w frames j rest full) (ks : List Nat) (hk : ∀ k ∈ ks, 1 ≤ k)
    (s : ReadSock C) (c : RCarrier C) (h : RInv P s c) (outLen : Nat) (hs : SInv frames s outLen)
    (a : AInv w P.T frames j full s c) (hfull : c.str.toList = full) (hg : GoodScript c.script) :
    (∀ e, .err e ∈ runReader P w s c (ks.map .poll) →
      outBytes (runReader P w s c (ks.map .poll)) = List.range' outLen (startOf frames j - outLen) ∧
      Cause rest (c.closed = true) e) ∧
    ((startOf frames j - outLen) + c.script.length ≤ ks.length →
      outBytes (runReader P w s c (ks.map .poll)) = List.range' outLen (startOf frames j - outLen)) ∧
    (c.closed = true ∨ CompleteAt w rest → (startOf frames j - outLen) + c.script.length + 1 ≤ ks.length →
      ∃ pre e, runReader P w s c (ks.map .poll) = pre ++ [.err e]) := by
  induction ks generalizing s c outLen with
  | nil =>
    have := outLen_le sc s c h outLen hs a
    refine ⟨by simp [runReader], fun hb => ?_, fun _ hb => by simp at hb⟩
    simp only [List.length_nil] at hb
    have : startOf frames j - outLen = 0 := by omega
    rw [this]; rfl
  | cons k ks ih =>
    have hk1 : 1 ≤ k := hk k (List.mem_cons_self ..)
    have hk' : ∀ k ∈ ks, 1 ≤ k := fun x hx => hk x (List.mem_cons_of_mem _ hx)
    obtain ⟨s', c', o, hp, c1, c2, c3, c4, c5⟩ :=
      poll_cases sc k s c h outLen hs a ⟨[], by simp [hfull]⟩ hg (fun _ => hfull)
    simp only [List.map_cons, runReader, hp, List.length_cons]
    cases o with
    | ok n pos =>
      simp only [] at c5 ⊢
      obtain ⟨e1, e2, e3, e4, e5, e6⟩ := c5
      subst e1
      have hn := e2 (by omega)
      obtain ⟨i1, i2, i3⟩ := ih hk' s' c' e4 (pos + n) e5 e6 (by rw [c1]; exact hfull) c3
      have harith : startOf frames j - pos = n + (startOf frames j - (pos + n)) := by omega
      have hcomb : ∀ {l}, l = List.range' (pos + n) (startOf frames j - (pos + n)) →
          List.range' pos n ++ l = List.range' pos (startOf frames j - pos) := by
        intro l hl; rw [hl, harith, List.range'_append_1]
      refine ⟨fun e he => ?_, fun hb => ?_, fun hc hb => ?_⟩
      · have he' : ROut.err e ∈ runReader P w s' c' (ks.map .poll) := by simpa using he
        obtain ⟨j1, j2⟩ := i1 e he'
        exact ⟨by simp only [outBytes]; exact hcomb j1, by rw [← c2]; exact j2⟩
      · simp only [outBytes]; exact hcomb (i2 (by omega))
      · obtain ⟨pre, e, hpe⟩ := i3 (hc.imp (fun h => by rw [c2]; exact h) id) (by omega)
        exact ⟨.ok n pos :: pre, e, by rw [hpe]; rfl⟩
    | pending =>
      simp only [] at c5 ⊢
      obtain ⟨e4, e5, e6, e7⟩ := c5
      obtain ⟨i1, i2, i3⟩ := ih hk' s' c' e4 outLen e5 e6 (by rw [c1]; exact hfull) c3
      refine ⟨fun e he => ?_, fun hb => ?_, fun hc hb => ?_⟩
      · have he' : ROut.err e ∈ runReader P w s' c' (ks.map .poll) := by simpa using he
        obtain ⟨j1, j2⟩ := i1 e he'
        exact ⟨by simp only [outBytes]; exact j1, by rw [← c2]; exact j2⟩
      · simp only [outBytes]
        rcases e7 with l | ⟨_, r⟩
        · exact i2 (by omega)
        · have hdone := (r hfull).1
          obtain ⟨m, m1, m2⟩ := run_safe sc (ks.map .poll) s' c' e4 outLen e5 e6
            ⟨[], by rw [delivered_polls, c1, hfull]; simp⟩
          have : m = 0 := by omega
          rw [m1, this, hdone]; simp
      · rcases e7 with l | ⟨r, e7'⟩
        · obtain ⟨pre, e, hpe⟩ := i3 (hc.imp (fun h => by rw [c2]; exact h) id) (by omega)
          exact ⟨.pending :: pre, e, by rw [hpe]; rfl⟩
        · rcases hc with hc | hc
          · rw [hc] at r; cases r
          · exact ((e7' hfull).2 hc).elim
    | err e =>
      simp only [] at c5 ⊢
      obtain ⟨e1, e2⟩ := c5
      refine ⟨fun e' he => ?_, fun _ => ?_, fun _ _ => ⟨[], e, rfl⟩⟩
      · have : e' = e := by simpa using he
        subst this
        exact ⟨by rw [e1]; simp [outBytes], e2⟩
      · rw [e1]; simp [outBytes]
    | panic m => exact c5.elim
    | diverged => exact c5.elim

/-- A good environment delivering all of `full`, followed by polls with non-empty buffers. -/
theorem run_complete (sc : Scene P w frames j rest full) (ks : List Nat) (hk : ∀ k ∈ ks, 1 ≤ k)
    (es : List (REvent C)) (s : ReadSock C) (c : RCarrier C) (h : RInv P s c) (outLen : Nat)
    (hs : SInv frames s outLen) (a : AInv w P.T frames j full s c)
    (hstr : c.str.toList ++ delivered es = full) (hg : GoodScript c.script) (hge : GoodEnv es)
    (hcl : c.closed = true → delivered es = []) :
    (∀ e, .err e ∈ runReader P w s c (es ++ ks.map .poll) →
      outBytes (runReader P w s c (es ++ ks.map .poll)) = List.range' outLen (startOf frames j - outLen) ∧
      Cause rest (c.closed = true ∨ Closes es) e) ∧
    ((startOf frames j - outLen) + c.script.length + scriptLen es ≤ ks.length →
      outBytes (runReader P w s c (es ++ ks.map .poll)) = List.range' outLen (startOf frames j - outLen)) ∧
    ((c.closed = true ∨ Closes es) ∨ CompleteAt w rest →
      (startOf frames j - outLen) + c.script.length + scriptLen es + 1 ≤ ks.length →
      ∃ pre e, runReader P w s c (es ++ ks.map .poll) = pre ++ [.err e]) := by
  induction es generalizing s c outLen with
  | nil =>
    obtain ⟨i1, i2, i3⟩ := drain_polls sc ks hk s c h outLen hs a (by simpa [delivered] using hstr) hg
    simp only [List.nil_append, scriptLen, Nat.add_zero]
    refine ⟨fun e he => ⟨(i1 e he).1, (i1 e he).2.mono Or.inl⟩, i2, fun hc => ?_⟩
    rcases hc with (hc | hc) | hc
    · exact i3 (Or.inl hc)
    · exact hc.elim
    · exact i3 (Or.inr hc)
  | cons ev es ih =>
    cases ev with
    | poll k =>
      have hfull' : c.closed = true → c.str.toList = full := by
        intro hc
        have := hcl hc
        simp only [delivered] at this hstr
        rw [this] at hstr; simpa using hstr
      obtain ⟨s', c', o, hp, c1, c2, c3, c4, c5⟩ :=
        poll_cases sc k s c h outLen hs a ⟨delivered es, by simpa [delivered] using hstr⟩ hg hfull'
      simp only [List.cons_append, runReader, hp, GoodEnv, scriptLen, Closes, delivered] at hge hstr hcl ⊢
      cases o with
      | ok n pos =>
        simp only [] at c5 ⊢
        obtain ⟨e1, e2, e3, e4, e5, e6⟩ := c5
        subst e1
        obtain ⟨i1, i2, i3⟩ := ih s' c' e4 (pos + n) e5 e6 (by rw [c1]; exact hstr) c3 hge (by rw [c2]; exact hcl)
        have harith : startOf frames j - pos = n + (startOf frames j - (pos + n)) := by omega
        have hcomb : ∀ {l}, l = List.range' (pos + n) (startOf frames j - (pos + n)) →
            List.range' pos n ++ l = List.range' pos (startOf frames j - pos) := by
          intro l hl; rw [hl, harith, List.range'_append_1]
        refine ⟨fun e he => ?_, fun hb => ?_, fun hc hb => ?_⟩
        · have he' : ROut.err e ∈ runReader P w s' c' (es ++ ks.map .poll) := by simpa using he
          obtain ⟨j1, j2⟩ := i1 e he'
          exact ⟨by simp only [outBytes]; exact hcomb j1, by rw [← c2]; exact j2⟩
        · simp only [outBytes]; exact hcomb (i2 (by omega))
        · obtain ⟨pre, e, hpe⟩ := i3 (hc.imp (Or.imp (fun h => by rw [c2]; exact h) id) id) (by omega)
          exact ⟨.ok n pos :: pre, e, by rw [hpe]; rfl⟩
      | pending =>
        simp only [] at c5 ⊢
        obtain ⟨e4, e5, e6, _⟩ := c5
        obtain ⟨i1, i2, i3⟩ := ih s' c' e4 outLen e5 e6 (by rw [c1]; exact hstr) c3 hge (by rw [c2]; exact hcl)
        refine ⟨fun e he => ?_, fun hb => ?_, fun hc hb => ?_⟩
        · have he' : ROut.err e ∈ runReader P w s' c' (es ++ ks.map .poll) := by simpa using he
          obtain ⟨j1, j2⟩ := i1 e he'
          exact ⟨by simp only [outBytes]; exact j1, by rw [← c2]; exact j2⟩
        · simp only [outBytes]; exact i2 (by omega)
        · obtain ⟨pre, e, hpe⟩ := i3 (hc.imp (Or.imp (fun h => by rw [c2]; exact h) id) id) (by omega)
          exact ⟨.pending :: pre, e, by rw [hpe]; rfl⟩
      | err e =>
        simp only [] at c5 ⊢
        obtain ⟨e1, e2⟩ := c5
        refine ⟨fun e' he => ?_, fun _ => ?_, fun _ _ => ⟨[], e, rfl⟩⟩
        · have : e' = e := by simpa using he
          subst this
          exact ⟨by rw [e1]; simp [outBytes], e2.mono Or.inl⟩
        · rw [e1]; simp [outBytes]
      | panic m => exact c5.elim
      | diverged => exact c5.elim
    | deliver d =>
      simp only [List.cons_append, runReader, GoodEnv, scriptLen, Closes, delivered] at hge hstr hcl ⊢
      have hcl' : c.closed = true → delivered es = [] := fun hc => (List.append_eq_nil_iff.1 (hcl hc)).2
      exact ih s (applyEnv c (.deliver d)) (RInv_deliver P s c d h) outLen hs (a.congr rfl)
        (by simpa [applyEnv] using hstr) hg hge hcl'
    | script hs' =>
      simp only [List.cons_append, runReader, GoodEnv, scriptLen, Closes, delivered] at hge hstr hcl ⊢
      have hg' : GoodScript (c.script ++ hs') := by
        intro x hx
        rcases List.mem_append.1 hx with hx | hx
        · exact hg x hx
        · exact hge.1 x hx
      obtain ⟨i1, i2, i3⟩ := ih s (applyEnv c (.script hs')) (RInv.congr P s c _ h rfl rfl) outLen hs (a.congr rfl)
        hstr hg' hge.2 hcl
      simp only [applyEnv, List.length_append] at i1 i2 i3
      exact ⟨i1, fun hb => i2 (by omega), fun hc hb => i3 hc (by omega)⟩
    | close =>
      simp only [List.cons_append, runReader, GoodEnv, scriptLen, Closes, delivered] at hge hstr hcl ⊢
      obtain ⟨i1, i2, i3⟩ := ih s (applyEnv c .close) (RInv.congr P s c _ h rfl rfl) outLen hs (a.congr rfl)
        hstr hg hge.2 (fun _ => hge.1)
      simp only [applyEnv] at i1 i2 i3
      exact ⟨fun e he => ⟨(i1 e he).1, (i1 e he).2.mono (fun _ => Or.inr trivial)⟩, i2,
        fun _ hb => i3 (Or.inl (Or.inl trivial)) hb⟩

theorem AInv_init (P : Params) (w : WireOps C) (frames : List Chunk) (j : Nat) (full : List C) (c : RCarrier C)
    (h0 : c.cpos = 0) : AInv w P.T frames j full (newReadSock P w) c := by
  refine ⟨Nat.zero_le _, ?_, ?_⟩
  · simp [Cursor, CurAt, newReadSock, absOff, h0, woff, wireOf]
  · simp [RdBound, newReadSock]

end steps

/-! ## Runs from the initial state -/

/-- Outputs of the polls of a run of a fresh reader on a carrier that has delivered nothing yet. -/
def freshRun (P : Params) (w : WireOps C) (es : List (REvent C)) : List ROut :=
  runReader P w (newReadSock P w) ⟨#[], 0, [], false⟩ es

/-- Sufficient for `BadAt`: the ciphertext of frame `j` does not follow the two length bytes. -/
theorem BadAt_of_not_prefix (w : WireOps C) (frames : List Chunk) (j : Nat) (rest : List C)
    (h : ∀ ch, frames[j]? = some ch → ¬ w.enc j ch <+: rest.drop 2) : BadAt w frames j rest := by
  intro b0 b1 tl ch hr hf _ he
  apply h ch hf
  rw [hr, ← he]
  exact List.take_prefix _ _

theorem BadAt_short (w : WireOps C) (frames : List Chunk) (j : Nat) (rest : List C) (h : rest.length < 2) :
    BadAt w frames j rest := by
  intro b0 b1 tl ch hr
  rw [hr] at h; simp at h; omega

theorem BadAt_end (w : WireOps C) (frames : List Chunk) (j : Nat) (rest : List C) (h : frames.length ≤ j) :
    BadAt w frames j rest := by
  intro b0 b1 tl ch _ hf
  rw [List.getElem?_eq_none h] at hf; cases hf

section fresh
variable {P : Params} {w : WireOps C} {frames : List Chunk} {j : Nat} {rest full : List C}

/-- The honest stream: all frames intact, nothing behind them. -/
theorem Scene.honest (hl : WireLaws P w) (hc : AConsts P) (hfr : FramesFrom P.MAXF 0 frames)
    (hauth : Authentic w frames (wireOf w P.T 0 frames)) :
    Scene P w frames frames.length [] (wireOf w P.T 0 frames) :=
  { laws := hl, consts := hc, frs := hfr, hj := Nat.le_refl _,
    full_eq := by simp, bad := BadAt_short w frames _ [] (by simp), auth := hauth }

/-- Safety part, for every environment delivering a prefix of `full`. -/
theorem fresh_safe (sc : Scene P w frames j rest full) (es : List (REvent C)) (hd : delivered es <+: full) :
    outBytes (freshRun P w es) <+: List.range (startOf frames j) ∧ NoPanic (freshRun P w es) := by
  obtain ⟨t, ht⟩ := hd
  have hc := sc.consts.r
  constructor
  · obtain ⟨m, m1, m2⟩ := run_safe sc es (newReadSock P w) ⟨#[], 0, [], false⟩
      (RInv_init _ w hc ⟨#[], 0, [], false⟩ rfl) 0 (SInv_init _ w frames) (AInv_init P w frames j full _ rfl)
      ⟨t, by simpa using ht⟩
    unfold freshRun
    rw [m1, List.range_eq_range']
    have : startOf frames j = m + (startOf frames j - m) := by omega
    rw [this, ← List.range'_append_1]
    simp only [Nat.zero_add]
    exact List.prefix_append _ _
  · have ha : Authentic w frames (delivered es) := Authentic_prefix w frames _ t (by rw [ht]; exact sc.auth)
    exact (runReader_inv P w sc.laws hc P.MAXF frames sc.frs es _ _ (RInv_init _ w hc ⟨#[], 0, [], false⟩ rfl) 0
      (SInv_init _ w frames) (by simpa using ha) (Nat.zero_le _)).1

/-- Liveness part: a good environment delivers all of `full`; then polls with non-empty buffers. -/
theorem fresh_complete (sc : Scene P w frames j rest full) (es : List (REvent C)) (hd : delivered es = full)
    (hge : GoodEnv es) (ks : List Nat) (hk : ∀ k ∈ ks, 1 ≤ k) :
    (∀ e, .err e ∈ freshRun P w (es ++ ks.map .poll) →
      outBytes (freshRun P w (es ++ ks.map .poll)) = List.range (startOf frames j) ∧ Cause rest (Closes es) e) ∧
    (startOf frames j + scriptLen es ≤ ks.length →
      outBytes (freshRun P w (es ++ ks.map .poll)) = List.range (startOf frames j)) ∧
    (Closes es ∨ CompleteAt w rest → startOf frames j + scriptLen es + 1 ≤ ks.length →
      ∃ pre e, freshRun P w (es ++ ks.map .poll) = pre ++ [.err e]) := by
  obtain ⟨i1, i2, i3⟩ := run_complete sc ks hk es (newReadSock P w) ⟨#[], 0, [], false⟩
    (RInv_init _ w sc.consts.r ⟨#[], 0, [], false⟩ rfl) 0 (SInv_init _ w frames) (AInv_init P w frames j full _ rfl)
    (by simpa using hd) (by intro x hx; cases hx) hge (by intro h; cases h)
  simp only [Nat.sub_zero, List.length_nil, Nat.add_zero, ← List.range_eq_range'] at i1 i2 i3
  unfold freshRun
  refine ⟨fun e he => ⟨(i1 e he).1, (i1 e he).2.mono ?_⟩, i2, fun hc => i3 (hc.imp Or.inr id)⟩
  rintro (h | h)
  · cases h
  · exact h

end fresh

end Litep2pVerif.Noise.Transport
