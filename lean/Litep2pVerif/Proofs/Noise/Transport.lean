import Litep2pVerif.Model.Noise.Transport
/-! Lemmas and invariants for the `NoiseSocket` model (C02). -/
namespace Litep2pVerif.Noise.Transport

/-- Laws of the cipher (ideal AEAD with explicit nonce) and of the byte embedding. They are
hypotheses of the theorems; `termLaws` proves them for the free term model. -/
structure WireLaws {C : Type} (P : Params) (w : WireOps C) : Prop where
  enc_len : ∀ n p, (w.enc n p).length = p.len + P.T
  dec_iff : ∀ n c p, w.dec n c = some p ↔ c = w.enc n p
  enc_inj : ∀ n p n' p', w.enc n p = w.enc n' p' → n = n' ∧ p = p'
  toByte_ofByte : ∀ v, v < 256 → w.toByte (w.ofByte v) = v

/-! ## Term model -/

theorem termEnc_length (T n : Nat) (p : Chunk) : (termEnc T n p).length = p.len + T := by
  simp [termEnc]

theorem termEnc_head (T n : Nat) (p : Chunk) (hT : 1 ≤ T) :
    ∃ tl, termEnc T n p = .ct n p.start p.len 0 :: tl := by
  unfold termEnc
  have : p.len + T = (p.len + T - 1) + 1 := by omega
  rw [this, List.range_succ_eq_map]
  simp

theorem termDec_iff (T : Nat) (hT : 1 ≤ T) (n : Nat) (c : List TCell) (p : Chunk) :
    termDec T n c = some p ↔ c = termEnc T n p := by
  constructor
  · intro h
    unfold termDec at h
    split at h
    · rename_i n' s l tl
      split at h
      · rename_i hc
        cases h
        exact hc.2
      · cases h
    · cases h
  · intro h
    obtain ⟨tl, htl⟩ := termEnc_head T n p hT
    subst h
    unfold termDec
    rw [htl]
    simp only []
    rw [← htl]
    simp

theorem termEnc_inj (T : Nat) (hT : 1 ≤ T) (n : Nat) (p : Chunk) (n' : Nat) (p' : Chunk)
    (h : termEnc T n p = termEnc T n' p') : n = n' ∧ p = p' := by
  obtain ⟨tl, htl⟩ := termEnc_head T n p hT
  obtain ⟨tl', htl'⟩ := termEnc_head T n' p' hT
  rw [htl, htl'] at h
  injection h with h1 _
  injection h1 with a b c _
  refine ⟨a, ?_⟩
  cases p; cases p'; simp_all

theorem termLaws (P : Params) (hT : 1 ≤ P.T) : WireLaws P (termWire P.T) where
  enc_len := termEnc_length P.T
  dec_iff := termDec_iff P.T hT
  enc_inj := termEnc_inj P.T hT
  toByte_ofByte := by intro v _; rfl

variable {C : Type}

theorem blitList_size (buf : Array C) (dst : Nat) (l : List C) : (blitList buf dst l).size = buf.size := by
  induction l generalizing buf dst with
  | nil => rfl
  | cons x xs ih => simp [blitList, ih]

theorem blitList_getElem? (buf : Array C) (dst : Nat) (l : List C) (j : Nat) :
    (blitList buf dst l)[j]? =
      if dst ≤ j ∧ j < dst + l.length ∧ j < buf.size then l[j - dst]? else buf[j]? := by
  induction l generalizing buf dst with
  | nil => simp [blitList]; omega
  | cons x xs ih =>
    simp only [blitList, ih, Array.size_setIfInBounds, Array.getElem?_setIfInBounds, List.length_cons]
    by_cases h1 : dst + 1 ≤ j
    · have : j - dst = (j - (dst+1)) + 1 := by omega
      by_cases h2 : j < dst + 1 + xs.length ∧ j < buf.size
      · simp [h1, h2, this]; grind
      · grind
    · by_cases h3 : dst = j
      · subst h3; simp; grind
      · grind

theorem blit_size (fill : C) (buf : Array C) (dst : Nat) (src : Array C) (fr n : Nat) :
    (blit fill buf dst src fr n).size = buf.size := by
  induction n generalizing buf dst fr with
  | zero => rfl
  | succ n ih => simp [blit, ih]

theorem blit_getElem? (fill : C) (buf : Array C) (dst : Nat) (src : Array C) (fr n : Nat) (j : Nat)
    (hsrc : fr + n ≤ src.size) :
    (blit fill buf dst src fr n)[j]? =
      if dst ≤ j ∧ j < dst + n ∧ j < buf.size then src[fr + (j - dst)]? else buf[j]? := by
  induction n generalizing buf dst fr with
  | zero => simp [blit]; omega
  | succ n ih =>
    simp only [blit]
    rw [ih _ _ _ (by omega)]
    simp only [Array.size_setIfInBounds, Array.getElem?_setIfInBounds]
    by_cases h1 : dst + 1 ≤ j
    · have : fr + 1 + (j - (dst + 1)) = fr + (j - dst) := by omega
      grind
    · by_cases h3 : dst = j
      · subst h3
        have : fr < src.size := by omega
        simp [Array.getD, this]
        grind
      · grind
variable {C : Type}

local macro "t" : tactic => `(tactic| first | rfl | trivial | simp)

/-! ## Write side: totality -/

/-- Script entries of a carrier that never fails (`Ok(0)` and `Err` excluded). -/
def GoodW : WHint → Prop
  | .acc k => 1 ≤ k
  | .pend => True
  | .zero => False
  | .err => False

def NoFault (script : List WHint) : Prop := ∀ h ∈ script, GoodW h

/-- Shape invariant of the writer. -/
def WInv (P : Params) (s : WriteSock C) : Prop :=
  s.ebuf.size = P.encSize ∧
  match s.st with
  | .idle => True
  | .writing off len => off < len ∧ len ≤ s.ebuf.size

theorem WCarrier.write_spec (c : WCarrier C) (ebuf : Array C) (lo hi : Nat) (h : lo < hi) :
    (NoFault c.script → NoFault (c.write ebuf lo hi).1.script) ∧
    match (c.write ebuf lo hi).2 with
    | .accepted n => n ≤ hi - lo ∧ (c.write ebuf lo hi).1.out = c.out ++ ebuf.extract lo (lo + n) ∧
        (NoFault c.script → 1 ≤ n)
    | .pending => (c.write ebuf lo hi).1.out = c.out
    | .err => (c.write ebuf lo hi).1.out = c.out ∧ ¬ NoFault c.script := by
  unfold WCarrier.write
  cases hs : c.script with
  | nil =>
    simp only [NoFault]
    refine ⟨fun h => by simpa [hs] using h, ?_, ?_, ?_⟩
    · omega
    · have : lo + (hi - lo) = hi := by omega
      rw [this]
    · intro; omega
  | cons hd tl =>
    have htl : NoFault (hd :: tl) → NoFault tl := fun h x hx => h x (List.mem_cons_of_mem _ hx)
    cases hd with
    | acc k =>
      refine ⟨htl, ?_, rfl, ?_⟩
      · exact Nat.min_le_right _ _
      · intro hf
        have := hf (.acc k) (List.mem_cons_self ..)
        simp only [GoodW] at this
        omega
    | pend => exact ⟨htl, rfl⟩
    | zero =>
      refine ⟨htl, by omega, by simp [Nat.min_le_left], ?_⟩
      intro hf
      exact absurd (hf .zero (List.mem_cons_self ..)) (by simp [GoodW])
    | err =>
      refine ⟨htl, rfl, ?_⟩
      intro hf
      exact absurd (hf .err (List.mem_cons_self ..)) (by simp [GoodW])

/-- Bytes encrypted but not yet handed to the carrier. -/
def wtail (s : WriteSock C) : List C :=
  match s.st with
  | .idle => []
  | .writing off len => (s.ebuf.extract off len).toList

theorem extract_split (a : Array C) (i j k : Nat) (h1 : i ≤ j) (h2 : j ≤ k) :
    (a.extract i j).toList ++ (a.extract j k).toList = (a.extract i k).toList := by
  rw [← Array.toList_append, Array.extract_append_extract]
  simp [Nat.min_eq_left h1, Nat.max_eq_right h2]

theorem drain_spec (P : Params) (fuel : Nat) (s : WriteSock C) (c : WCarrier C)
    (hinv : WInv P s) (hfuel : drainFuel s ≤ fuel) :
    WInv P (drain fuel s c).1 ∧ (drain fuel s c).1.ebuf = s.ebuf ∧ (drain fuel s c).1.nonce = s.nonce ∧
    (drain fuel s c).2.1.out.toList ++ wtail (drain fuel s c).1 = c.out.toList ++ wtail s ∧
    (∀ m, (drain fuel s c).2.2 ≠ .panic m) ∧
    ((drain fuel s c).2.2 = .idle → (drain fuel s c).1.st = .idle) ∧
    ((drain fuel s c).2.2 = .blocked → (drain fuel s c).1.st ≠ .idle) ∧
    (NoFault c.script → NoFault (drain fuel s c).2.1.script ∧ ∀ e, (drain fuel s c).2.2 ≠ .err e) := by
  induction fuel generalizing s c with
  | zero =>
    exfalso
    unfold drainFuel at hfuel
    split at hfuel <;> omega
  | succ fuel ih =>
    unfold drain
    cases hst : s.st with
    | idle => simp [hst, hinv]
    | writing off len =>
      simp only []
      have hb : off < len ∧ len ≤ s.ebuf.size := by
        have := hinv.2; rw [hst] at this; exact this
      have hnot : ¬ (off > len ∨ len > s.ebuf.size) := by omega
      rw [if_neg hnot]
      have hw := WCarrier.write_spec c s.ebuf off len hb.1
      rcases hcw : c.write s.ebuf off len with ⟨c', a⟩
      rw [hcw] at hw
      cases a with
      | pending =>
        simp only [] at hw ⊢
        refine ⟨hinv, by t, by t, by rw [hw.2], by simp, by simp, by simp [hst], fun hf => ⟨hw.1 hf, by simp⟩⟩
      | err =>
        simp only [] at hw ⊢
        refine ⟨hinv, by t, by t, by rw [hw.2.1], by simp, by simp, by simp, fun hf => absurd hf hw.2.2⟩
      | accepted n =>
        simp only [] at hw ⊢
        obtain ⟨hsc, hn, hout, hpos⟩ := hw
        by_cases hn0 : n = 0
        · rw [if_pos hn0]
          subst hn0
          refine ⟨hinv, by t, by t, ?_, by simp, by simp, by simp, fun hf => ?_⟩
          · rw [hout]; simp
          · have := hpos hf; omega
        · rw [if_neg hn0]
          by_cases hfull : off + n = len
          · rw [if_pos hfull]
            refine ⟨⟨hinv.1, by simp⟩, by t, by t, ?_, by simp, by simp, by simp, fun hf => ⟨hsc hf, by simp⟩⟩
            simp only [wtail, hst, hout, hfull, Array.toList_append, List.append_nil]
          · rw [if_neg hfull]
            have hinv' : WInv P { s with st := .writing (off + n) len } := ⟨hinv.1, by simp; omega⟩
            have hf' : drainFuel { s with st := .writing (off + n) len } ≤ fuel := by
              simp only [drainFuel, hst] at hfuel ⊢; omega
            obtain ⟨i1, i2, i3, i4, i5, i6, i7, i8⟩ := ih { s with st := .writing (off + n) len } c' hinv' hf'
            refine ⟨i1, i2, i3, ?_, i5, i6, i7, fun hf => i8 (hsc hf)⟩
            rw [i4, hout]
            simp only [wtail, hst, Array.toList_append, List.append_assoc]
            rw [extract_split _ _ _ _ (by omega) (by omega)]

variable {C : Type}

/-! ## Write side: the byte stream produced -/

/-- One frame on the wire: big-endian `u16` length, then the ciphertext. -/
def frameBytes (w : WireOps C) (T n : Nat) (ch : Chunk) : List C :=
  w.ofByte ((ch.len + T) / 256 % 256) :: w.ofByte ((ch.len + T) % 256) :: w.enc n ch

/-- The wire image of a list of plaintext chunks encrypted under nonces `n, n+1, …`. -/
def wireOf (w : WireOps C) (T : Nat) : Nat → List Chunk → List C
  | _, [] => []
  | n, ch :: r => frameBytes w T n ch ++ wireOf w T (n + 1) r

/-- Consecutive non-empty chunks of at most `MAXF` bytes starting at position `pos`. -/
def FramesFrom (MAXF : Nat) : Nat → List Chunk → Prop
  | _, [] => True
  | pos, ch :: r => ch.start = pos ∧ 1 ≤ ch.len ∧ ch.len ≤ MAXF ∧ FramesFrom MAXF (pos + ch.len) r

/-- Number of plaintext bytes in a list of chunks. -/
def plen (fr : List Chunk) : Nat := (fr.map (·.len)).sum

theorem wireOf_append (w : WireOps C) (T n : Nat) (a b : List Chunk) :
    wireOf w T n (a ++ b) = wireOf w T n a ++ wireOf w T (n + a.length) b := by
  induction a generalizing n with
  | nil => simp [wireOf]
  | cons x xs ih =>
    simp only [List.cons_append, wireOf, ih, List.length_cons, List.append_assoc]
    rw [show n + 1 + xs.length = n + (xs.length + 1) by omega]

theorem FramesFrom_append (MAXF pos : Nat) (a b : List Chunk) :
    FramesFrom MAXF pos (a ++ b) ↔ FramesFrom MAXF pos a ∧ FramesFrom MAXF (pos + plen a) b := by
  induction a generalizing pos with
  | nil => simp [FramesFrom, plen]
  | cons x xs ih =>
    simp only [List.cons_append, FramesFrom, ih, plen, List.map_cons, List.sum_cons]
    rw [show pos + x.len + (List.map (fun x => x.len) xs).sum = pos + (x.len + (List.map (fun x => x.len) xs).sum) by omega]
    constructor <;> intro h <;> simp_all

theorem plen_append (a b : List Chunk) : plen (a ++ b) = plen a + plen b := by
  simp [plen]

/-- State of `write_state` after step 3. -/
def stAfter (st : WState) (bo : Nat) : WState :=
  match st with
  | .idle => .writing 0 bo
  | .writing off _ => .writing off bo

theorem frame_region (ebuf : Array C) (bo : Nat) (ct : List C) (x y : C)
    (h : bo + (ct.length + 2) ≤ ebuf.size) :
    ((((blitList ebuf (bo + 2) ct).setIfInBounds bo x).setIfInBounds (bo + 1) y).extract bo
        (bo + (ct.length + 2))).toList = x :: y :: ct := by
  apply List.ext_getElem?
  intro i
  rw [Array.getElem?_toList, Array.getElem?_extract]
  simp only [Array.size_setIfInBounds, blitList_size, Array.getElem?_setIfInBounds, blitList_getElem?]
  by_cases h0 : i = 0
  · subst h0; simp; omega
  · by_cases h1 : i = 1
    · subst h1; simp; omega
    · by_cases h2 : i < ct.length + 2
      · have e : i = (i - 2) + 2 := by omega
        rw [if_pos (by omega), if_neg (by omega), if_neg (by omega), if_pos (by omega)]
        rw [show bo + i - (bo + 2) = i - 2 by omega]
        conv => rhs; rw [e]
        simp
      · rw [if_neg (by omega)]
        have : (x :: y :: ct).length ≤ i := by simp; omega
        rw [List.getElem?_eq_none this]

theorem frame_untouched (ebuf : Array C) (bo : Nat) (ct : List C) (x y : C) (j : Nat) (hj : j < bo) :
    (((blitList ebuf (bo + 2) ct).setIfInBounds bo x).setIfInBounds (bo + 1) y)[j]? = ebuf[j]? := by
  simp only [Array.getElem?_setIfInBounds, blitList_getElem?]
  rw [if_neg (by omega), if_neg (by omega), if_neg (by omega)]

theorem extract_congr (a b : Array C) (lo hi : Nat) (hsz : a.size = b.size)
    (h : ∀ j, lo ≤ j → j < hi → a[j]? = b[j]?) : (a.extract lo hi).toList = (b.extract lo hi).toList := by
  apply List.ext_getElem?
  intro i
  rw [Array.getElem?_toList, Array.getElem?_toList, Array.getElem?_extract, Array.getElem?_extract, hsz]
  split
  · apply h <;> omega
  · rfl

variable {C : Type}

/-- Side conditions on the constants used by the write path. -/
structure WConsts (P : Params) : Prop where
  tag : P.T = P.TAG
  maxf : 1 ≤ P.MAXF
  /-- the largest frame fits a snow message: `MAX_FRAME_LEN + TAGLEN ≤ MAXMSGLEN` -/
  snow : P.MAXF + P.T ≤ P.SNOWMAX

theorem finishWrite_spec (s : WriteSock C) (bo total : Nat) :
    (finishWrite s bo total).1.ebuf = s.ebuf ∧ (finishWrite s bo total).1.nonce = s.nonce ∧
    if total = 0 then (finishWrite s bo total).2 = .pending ∧ (finishWrite s bo total).1.st = s.st
    else (finishWrite s bo total).2 = .ok total ∧ (finishWrite s bo total).1.st = stAfter s.st bo := by
  unfold finishWrite
  by_cases h : total = 0
  · simp [h]
  · simp only [h, if_false]
    cases hst : s.st <;> simp [stAfter]

theorem encLoop_spec (P : Params) (w : WireOps C) (hl : WireLaws P w) (hc : WConsts P)
    (fuel : Nat) (s : WriteSock C) (pos rem bo total : Nat) (hfuel : rem ≤ fuel) (hbo : bo ≤ s.ebuf.size) :
    ∃ fr bo',
      FramesFrom P.MAXF pos fr ∧ plen fr ≤ rem ∧
      (encLoop P w fuel s pos rem bo total).1.nonce = s.nonce + fr.length ∧
      (encLoop P w fuel s pos rem bo total).1.ebuf.size = s.ebuf.size ∧
      bo' = bo + (wireOf w P.T s.nonce fr).length ∧ bo' ≤ s.ebuf.size ∧
      (∀ j, j < bo → (encLoop P w fuel s pos rem bo total).1.ebuf[j]? = s.ebuf[j]?) ∧
      ((encLoop P w fuel s pos rem bo total).1.ebuf.extract bo bo').toList = wireOf w P.T s.nonce fr ∧
      (if total + plen fr = 0 then
          (encLoop P w fuel s pos rem bo total).2 = .pending ∧ (encLoop P w fuel s pos rem bo total).1.st = s.st
        else (encLoop P w fuel s pos rem bo total).2 = .ok (total + plen fr) ∧
          (encLoop P w fuel s pos rem bo total).1.st = stAfter s.st bo') := by
  induction fuel generalizing s pos rem bo total with
  | zero =>
    have : rem = 0 := by omega
    refine ⟨[], bo, trivial, by simp [plen], ?_⟩
    have hf := finishWrite_spec s bo total
    simp only [encLoop, plen, wireOf, List.map_nil, List.sum_nil, List.length_nil, Nat.add_zero]
    refine ⟨hf.2.1, by rw [hf.1], trivial, hbo, fun j _ => by rw [hf.1], by simp, hf.2.2⟩
  | succ fuel ih =>
    have hf := finishWrite_spec s bo total
    have stop : ∃ fr bo',
      FramesFrom P.MAXF pos fr ∧ plen fr ≤ rem ∧
      (finishWrite s bo total).1.nonce = s.nonce + fr.length ∧
      (finishWrite s bo total).1.ebuf.size = s.ebuf.size ∧
      bo' = bo + (wireOf w P.T s.nonce fr).length ∧ bo' ≤ s.ebuf.size ∧
      (∀ j, j < bo → (finishWrite s bo total).1.ebuf[j]? = s.ebuf[j]?) ∧
      ((finishWrite s bo total).1.ebuf.extract bo bo').toList = wireOf w P.T s.nonce fr ∧
      (if total + plen fr = 0 then
          (finishWrite s bo total).2 = .pending ∧ (finishWrite s bo total).1.st = s.st
        else (finishWrite s bo total).2 = .ok (total + plen fr) ∧
          (finishWrite s bo total).1.st = stAfter s.st bo') := by
      refine ⟨[], bo, trivial, by simp [plen], ?_⟩
      simp only [plen, wireOf, List.map_nil, List.sum_nil, List.length_nil, Nat.add_zero]
      exact ⟨hf.2.1, by rw [hf.1], trivial, hbo, fun j _ => by rw [hf.1], by simp, hf.2.2⟩
    unfold encLoop
    by_cases hrem : rem = 0
    · rw [if_pos hrem]; exact stop
    · rw [if_neg hrem]
      by_cases hfit : bo + min rem P.MAXF + (2 + P.TAG) > s.ebuf.size
      · rw [if_pos hfit]; exact stop
      · rw [if_neg hfit]
        have hcl : 1 ≤ min rem P.MAXF := by have := hc.maxf; omega
        have hcm : min rem P.MAXF ≤ P.MAXF := Nat.min_le_right _ _
        have hsw : snowWrite P w s.nonce ⟨pos, min rem P.MAXF⟩ (s.ebuf.size - (bo + 2))
            = some (w.enc s.nonce ⟨pos, min rem P.MAXF⟩) := by
          unfold snowWrite
          have h1 := hc.snow; have h2 := hc.tag
          rw [if_neg]; simp only []; omega
        rw [hsw]
        simp only []
        have hlen : (w.enc s.nonce ⟨pos, min rem P.MAXF⟩).length = min rem P.MAXF + P.T := hl.enc_len _ _
        generalize hct : w.enc s.nonce ⟨pos, min rem P.MAXF⟩ = ct at hlen ⊢
        have htag := hc.tag
        have hbo1 : bo + (ct.length + 2) ≤ s.ebuf.size := by omega
        obtain ⟨fr, bo', h1, h2, h3, h4, h5, h6, h7, h8, h9⟩ :=
          ih { s with
                ebuf := ((blitList s.ebuf (bo + 2) ct).setIfInBounds bo
                  (w.ofByte (ct.length / 256 % 256))).setIfInBounds (bo + 1) (w.ofByte (ct.length % 256)),
                nonce := s.nonce + 1 }
            (pos + min rem P.MAXF) (rem - min rem P.MAXF) (bo + (ct.length + 2)) (total + min rem P.MAXF)
            (by omega) (by simp [blitList_size]; omega)
        simp only [Array.size_setIfInBounds, blitList_size] at h4 h6
        refine ⟨⟨pos, min rem P.MAXF⟩ :: fr, bo', ⟨rfl, hcl, hcm, h1⟩, ?_, ?_, h4, ?_, h6, ?_, ?_, ?_⟩
        · simp only [plen, List.map_cons, List.sum_cons] at h2 ⊢; omega
        · rw [h3]; simp; omega
        · rw [h5]; simp only [wireOf, frameBytes, List.length_append, List.length_cons, hct, hlen]
          omega
        · intro j hj
          rw [h7 j (by omega)]
          exact frame_untouched s.ebuf bo ct _ _ j hj
        · have hb1 : bo + (ct.length + 2) ≤ bo' := by omega
          rw [← extract_split _ bo (bo + (ct.length + 2)) bo' (by omega) hb1, h8]
          simp only [wireOf, frameBytes, hct]
          rw [extract_congr _ _ bo (bo + (ct.length + 2)) (by simp [h4, blitList_size]) (fun j _ hj => h7 j hj)]
          rw [frame_region s.ebuf bo ct _ _ hbo1, hlen]
        · have e : total + plen (⟨pos, min rem P.MAXF⟩ :: fr) = total + min rem P.MAXF + plen fr := by
            simp only [plen, List.map_cons, List.sum_cons]; omega
          rw [e]
          exact h9

variable {C : Type}

/-- Stream invariant of the writer: what the carrier accepted so far, followed by what waits in the
encrypt buffer, is the wire image of the frames encrypted so far (nonces 0, 1, …), and these frames
are consecutive chunks covering plaintext positions `0 … wpos-1`. -/
structure WSInv (P : Params) (w : WireOps C) (s : WriteSock C) (c : WCarrier C)
    (frames : List Chunk) (wpos : Nat) : Prop where
  inv : WInv P s
  frs : FramesFrom P.MAXF 0 frames
  total : plen frames = wpos
  nonce : s.nonce = frames.length
  stream : c.out.toList ++ wtail s = wireOf w P.T 0 frames

theorem plen_pos_of_framesFrom {MAXF pos : Nat} {fr : List Chunk} (h : FramesFrom MAXF pos fr)
    (h0 : plen fr = 0) : fr = [] := by
  cases fr with
  | nil => rfl
  | cons x xs => simp only [FramesFrom] at h; simp only [plen, List.map_cons, List.sum_cons] at h0; omega

theorem wireOf_length_pos (w : WireOps C) (T n : Nat) (fr : List Chunk) (h : fr ≠ []) :
    2 ≤ (wireOf w T n fr).length := by
  cases fr with
  | nil => exact absurd rfl h
  | cons x xs => simp [wireOf, frameBytes]

theorem bufferOffset_le (P : Params) (s : WriteSock C) (h : WInv P s) : bufferOffset s ≤ s.ebuf.size := by
  unfold bufferOffset
  have := h.2
  split <;> simp_all

theorem encryptStep_spec (P : Params) (w : WireOps C) (hl : WireLaws P w) (hc : WConsts P)
    (s : WriteSock C) (c : WCarrier C) (frames : List Chunk) (wpos n : Nat)
    (h : WSInv P w s c frames wpos) :
    (∀ m, (encryptStep P w s wpos n).2 ≠ .panic m) ∧ (∀ e, (encryptStep P w s wpos n).2 ≠ .err e) ∧
    match (encryptStep P w s wpos n).2 with
    | .ok k => k ≤ n ∧ (0 < n → 1 ≤ k) ∧
        ∃ fr, WSInv P w (encryptStep P w s wpos n).1 c (frames ++ fr) (wpos + k)
    | .pending => 0 < n ∧ WSInv P w (encryptStep P w s wpos n).1 c frames wpos
    | _ => True := by
  unfold encryptStep
  by_cases hn : n = 0
  · subst hn
    simp only [if_true]
    refine ⟨by simp, by simp, Nat.le_refl _, by omega, [], ?_⟩
    simpa using h
  · rw [if_neg hn, if_neg (by have := hc.maxf; omega)]
    obtain ⟨fr, bo', h1, h2, h3, h4, h5, h6, h7, h8, h9⟩ :=
      encLoop_spec P w hl hc n s wpos n (bufferOffset s) 0 (Nat.le_refl _) (bufferOffset_le P s h.inv)
    generalize encLoop P w n s wpos n (bufferOffset s) 0 = r at *
    have hfr : FramesFrom P.MAXF 0 (frames ++ fr) := by
      rw [FramesFrom_append]; exact ⟨h.frs, by rw [h.total, Nat.zero_add]; exact h1⟩
    simp only [Nat.zero_add] at h9
    by_cases hz : plen fr = 0
    · rw [if_pos hz] at h9
      have hfr0 := plen_pos_of_framesFrom h1 hz
      subst hfr0
      rw [h9.1]
      refine ⟨by simp, by simp, by omega, ?_⟩
      refine ⟨⟨by rw [h4]; exact h.inv.1, by rw [h9.2]; rw [h4]; exact h.inv.2⟩, h.frs, h.total,
        by rw [h3, h.nonce]; rfl, ?_⟩
      rw [← h.stream]
      congr 1
      unfold wtail
      rw [h9.2]
      cases hst : s.st with
      | idle => rfl
      | writing off len =>
        simp only []
        apply extract_congr _ _ _ _ h4
        intro j _ hj
        apply h7
        simp only [bufferOffset, hst]; exact hj
    · rw [if_neg hz] at h9
      rw [h9.1]
      have hne : fr ≠ [] := by intro e; subst e; simp [plen] at hz
      have hwl := wireOf_length_pos w P.T s.nonce fr hne
      refine ⟨by simp, by simp, h2, fun _ => by omega, fr, ?_⟩
      have hbo := bufferOffset_le P s h.inv
      refine ⟨⟨by rw [h4]; exact h.inv.1, ?_⟩, hfr, by rw [plen_append, h.total], by rw [h3, h.nonce]; simp, ?_⟩
      · rw [h9.2, h4]
        have := h.inv.2
        unfold stAfter bufferOffset at *
        cases hst : s.st with
        | idle => simp only [hst] at *; omega
        | writing off len => simp only [hst] at *; omega
      · rw [wireOf_append, ← h.stream, List.append_assoc, Nat.zero_add, ← h.nonce, ← h8]
        congr 1
        unfold wtail
        rw [h9.2]
        have := h.inv.2
        cases hst : s.st with
        | idle =>
          simp only [stAfter, bufferOffset, hst] at *
          simp
        | writing off len =>
          simp only [stAfter, bufferOffset, hst] at *
          rw [← extract_split _ off len bo' (by omega) (by omega)]
          congr 1
          apply extract_congr _ _ _ _ h4
          intro j _ hj
          exact h7 j hj

variable {C : Type}

theorem wsinv_of_drain (P : Params) (w : WireOps C) (s s' : WriteSock C) (c c' : WCarrier C)
    (frames : List Chunk) (wpos : Nat) (h : WSInv P w s c frames wpos)
    (h1 : WInv P s') (h3 : s'.nonce = s.nonce)
    (h4 : c'.out.toList ++ wtail s' = c.out.toList ++ wtail s) : WSInv P w s' c' frames wpos :=
  ⟨h1, h.frs, h.total, by rw [h3, h.nonce], by rw [h4, h.stream]⟩

/-- `poll_write`: never panics, never fails by itself, and extends the stream by whole frames. -/
theorem pollWrite_spec (P : Params) (w : WireOps C) (hl : WireLaws P w) (hc : WConsts P)
    (s : WriteSock C) (c : WCarrier C) (frames : List Chunk) (wpos n : Nat)
    (h : WSInv P w s c frames wpos) :
    (∀ m, (pollWrite P w s c wpos n).2.2 ≠ .panic m) ∧
    (pollWrite P w s c wpos n).2.2 ≠ .err .invalidData ∧
    (NoFault c.script → NoFault (pollWrite P w s c wpos n).2.1.script ∧
        ∀ e, (pollWrite P w s c wpos n).2.2 ≠ .err e) ∧
    match (pollWrite P w s c wpos n).2.2 with
    | .ok k => k ≤ n ∧ (0 < n → 1 ≤ k) ∧
        ∃ fr, WSInv P w (pollWrite P w s c wpos n).1 (pollWrite P w s c wpos n).2.1 (frames ++ fr) (wpos + k)
    | .pending => 0 < n ∧ WSInv P w (pollWrite P w s c wpos n).1 (pollWrite P w s c wpos n).2.1 frames wpos
    | _ => True := by
  obtain ⟨d1, d2, d3, d4, d5, d6, d7, d8⟩ := drain_spec P (drainFuel s) s c h.inv (Nat.le_refl _)
  unfold pollWrite
  rcases hd : drain (drainFuel s) s c with ⟨s', c', o⟩
  rw [hd] at d1 d2 d3 d4 d5 d6 d7 d8
  simp only [] at d1 d2 d3 d4 d5 d6 d7 d8
  have hs' := wsinv_of_drain P w s s' c c' frames wpos h d1 d3 d4
  have he := encryptStep_spec P w hl hc s' c' frames wpos n hs'
  cases o with
  | err e =>
    refine ⟨by simp, ?_, fun hf => absurd rfl ((d8 hf).2 e), trivial⟩
    intro hh
    -- `drain` only reports `writeZero` / `carrier`
    have : e = .invalidData := by simpa using hh
    subst this
    clear he hs' d1 d2 d3 d4 d5 d6 d7 d8
    exact absurd hd (by
      have key : ∀ fuel (s : WriteSock C) (c : WCarrier C), (drain fuel s c).2.2 ≠ .err .invalidData := by
        intro fuel
        induction fuel with
        | zero => intro s c; simp [drain]
        | succ f ih =>
          intro s c
          unfold drain
          split
          · simp
          · split
            · simp
            · split
              · simp
              · simp
              · split
                · simp
                · split
                  · simp
                  · exact ih _ _
      intro hd; have := key (drainFuel s) s c; rw [hd] at this; exact this rfl)
  | panic m => exact absurd rfl (d5 m)
  | idle =>
    simp only []
    rcases hes : encryptStep P w s' wpos n with ⟨s'', o'⟩
    rw [hes] at he
    exact ⟨he.1, he.2.1 _, fun hf => ⟨(d8 hf).1, he.2.1⟩, he.2.2⟩
  | blocked =>
    simp only []
    rcases hes : encryptStep P w s' wpos n with ⟨s'', o'⟩
    rw [hes] at he
    exact ⟨he.1, he.2.1 _, fun hf => ⟨(d8 hf).1, he.2.1⟩, he.2.2⟩

/-- `poll_flush`: never panics; `Ok` means everything encrypted so far has been handed to the carrier. -/
theorem pollFlush_spec (P : Params) (w : WireOps C) (s : WriteSock C) (c : WCarrier C)
    (frames : List Chunk) (wpos : Nat) (h : WSInv P w s c frames wpos) :
    (∀ m, (pollFlush s c).2.2 ≠ .panic m) ∧
    (NoFault c.script → NoFault (pollFlush s c).2.1.script ∧ ∀ e, (pollFlush s c).2.2 ≠ .err e) ∧
    ((∀ e, (pollFlush s c).2.2 ≠ .err e) → WSInv P w (pollFlush s c).1 (pollFlush s c).2.1 frames wpos) ∧
    (∀ k, (pollFlush s c).2.2 = .ok k → (pollFlush s c).2.1.out.toList = wireOf w P.T 0 frames) := by
  obtain ⟨d1, d2, d3, d4, d5, d6, d7, d8⟩ := drain_spec P (drainFuel s) s c h.inv (Nat.le_refl _)
  unfold pollFlush
  rcases hd : drain (drainFuel s) s c with ⟨s', c', o⟩
  rw [hd] at d1 d2 d3 d4 d5 d6 d7 d8
  simp only [] at d1 d2 d3 d4 d5 d6 d7 d8
  have hs' := wsinv_of_drain P w s s' c c' frames wpos h d1 d3 d4
  cases o with
  | err e => exact ⟨by simp, fun hf => absurd rfl ((d8 hf).2 e), fun hh => absurd rfl (hh e), by simp⟩
  | panic m => exact absurd rfl (d5 m)
  | idle =>
    refine ⟨by simp, fun hf => ⟨(d8 hf).1, by simp⟩, fun _ => hs', fun k _ => ?_⟩
    have := hs'.stream
    simp only [wtail, d6 rfl, List.append_nil] at this
    exact this
  | blocked => exact ⟨by simp, fun hf => ⟨(d8 hf).1, by simp⟩, fun _ => hs', by simp⟩

end Litep2pVerif.Noise.Transport
