import Litep2pVerif.Model.Noise.Transport
/-! Lemmas and invariants for the `NoiseSocket` model (C02). -/
namespace Litep2pVerif.Noise.Transport

/-- Laws of the cipher (ideal AEAD with explicit nonce) and of the byte embedding. They are
hypotheses of the theorems; `termLaws` proves them for the free term model. -/
structure WireLaws {C : Type} (P : Params) (w : WireOps C) : Prop where
  enc_len : ∀ n p, (w.enc n p).length = p.len + P.T
  dec_iff : ∀ n c p, w.dec n c = some p ↔ c = w.enc n p
  enc_inj : ∀ n p n' p', w.enc n p = w.enc n' p' → n = n' ∧ p = p'
  toByte_ofByte : ∀ v, v < 256 → w.toByte (w.ofByte v) = v

/-! ## Term model -/

theorem termEnc_length (T n : Nat) (p : Chunk) : (termEnc T n p).length = p.len + T := by
  simp [termEnc]

theorem termEnc_head (T n : Nat) (p : Chunk) (hT : 1 ≤ T) :
    ∃ tl, termEnc T n p = .ct n p.start p.len 0 :: tl := by
  unfold termEnc
  have : p.len + T = (p.len + T - 1) + 1 := by omega
  rw [this, List.range_succ_eq_map]
  simp

theorem termDec_iff (T : Nat) (hT : 1 ≤ T) (n : Nat) (c : List TCell) (p : Chunk) :
    termDec T n c = some p ↔ c = termEnc T n p := by
  constructor
  · intro h
    unfold termDec at h
    split at h
    · rename_i n' s l tl
      split at h
      · rename_i hc
        cases h
        exact hc.2
      · cases h
    · cases h
  · intro h
    obtain ⟨tl, htl⟩ := termEnc_head T n p hT
    subst h
    unfold termDec
    rw [htl]
    simp only []
    rw [← htl]
    simp

theorem termEnc_inj (T : Nat) (hT : 1 ≤ T) (n : Nat) (p : Chunk) (n' : Nat) (p' : Chunk)
    (h : termEnc T n p = termEnc T n' p') : n = n' ∧ p = p' := by
  obtain ⟨tl, htl⟩ := termEnc_head T n p hT
  obtain ⟨tl', htl'⟩ := termEnc_head T n' p' hT
  rw [htl, htl'] at h
  injection h with h1 _
  injection h1 with a b c _
  refine ⟨a, ?_⟩
  cases p; cases p'; simp_all

theorem termLaws (P : Params) (hT : 1 ≤ P.T) : WireLaws P (termWire P.T) where
  enc_len := termEnc_length P.T
  dec_iff := termDec_iff P.T hT
  enc_inj := termEnc_inj P.T hT
  toByte_ofByte := by intro v _; rfl

variable {C : Type}

theorem blitList_size (buf : Array C) (dst : Nat) (l : List C) : (blitList buf dst l).size = buf.size := by
  induction l generalizing buf dst with
  | nil => rfl
  | cons x xs ih => simp [blitList, ih]

theorem blitList_getElem? (buf : Array C) (dst : Nat) (l : List C) (j : Nat) :
    (blitList buf dst l)[j]? =
      if dst ≤ j ∧ j < dst + l.length ∧ j < buf.size then l[j - dst]? else buf[j]? := by
  induction l generalizing buf dst with
  | nil => simp [blitList]; omega
  | cons x xs ih =>
    simp only [blitList, ih, Array.size_setIfInBounds, Array.getElem?_setIfInBounds, List.length_cons]
    by_cases h1 : dst + 1 ≤ j
    · have : j - dst = (j - (dst+1)) + 1 := by omega
      by_cases h2 : j < dst + 1 + xs.length ∧ j < buf.size
      · simp [h1, h2, this]; grind
      · grind
    · by_cases h3 : dst = j
      · subst h3; simp; grind
      · grind

theorem blit_size (fill : C) (buf : Array C) (dst : Nat) (src : Array C) (fr n : Nat) :
    (blit fill buf dst src fr n).size = buf.size := by
  induction n generalizing buf dst fr with
  | zero => rfl
  | succ n ih => simp [blit, ih]

theorem blit_getElem? (fill : C) (buf : Array C) (dst : Nat) (src : Array C) (fr n : Nat) (j : Nat)
    (hsrc : fr + n ≤ src.size) :
    (blit fill buf dst src fr n)[j]? =
      if dst ≤ j ∧ j < dst + n ∧ j < buf.size then src[fr + (j - dst)]? else buf[j]? := by
  induction n generalizing buf dst fr with
  | zero => simp [blit]; omega
  | succ n ih =>
    simp only [blit]
    rw [ih _ _ _ (by omega)]
    simp only [Array.size_setIfInBounds, Array.getElem?_setIfInBounds]
    by_cases h1 : dst + 1 ≤ j
    · have : fr + 1 + (j - (dst + 1)) = fr + (j - dst) := by omega
      grind
    · by_cases h3 : dst = j
      · subst h3
        have : fr < src.size := by omega
        simp [Array.getD, this]
        grind
      · grind
variable {C : Type}

local macro "t" : tactic => `(tactic| first | rfl | trivial | simp)

/-! ## Write side: totality -/

/-- Script entries of a carrier that never fails (`Ok(0)` and `Err` excluded). -/
def GoodW : WHint → Prop
  | .acc k => 1 ≤ k
  | .pend => True
  | .zero => False
  | .err => False

def NoFault (script : List WHint) : Prop := ∀ h ∈ script, GoodW h

/-- Shape invariant of the writer. -/
def WInv (P : Params) (s : WriteSock C) : Prop :=
  s.ebuf.size = P.encSize ∧
  match s.st with
  | .idle => True
  | .writing off len => off < len ∧ len ≤ s.ebuf.size

theorem WCarrier.write_spec (c : WCarrier C) (ebuf : Array C) (lo hi : Nat) (h : lo < hi) :
    (NoFault c.script → NoFault (c.write ebuf lo hi).1.script) ∧
    match (c.write ebuf lo hi).2 with
    | .accepted n => n ≤ hi - lo ∧ (c.write ebuf lo hi).1.out = c.out ++ ebuf.extract lo (lo + n) ∧
        (NoFault c.script → 1 ≤ n)
    | .pending => (c.write ebuf lo hi).1.out = c.out
    | .err => (c.write ebuf lo hi).1.out = c.out ∧ ¬ NoFault c.script := by
  unfold WCarrier.write
  cases hs : c.script with
  | nil =>
    simp only [NoFault]
    refine ⟨fun h => by simpa [hs] using h, ?_, ?_, ?_⟩
    · omega
    · have : lo + (hi - lo) = hi := by omega
      rw [this]
    · intro; omega
  | cons hd tl =>
    have htl : NoFault (hd :: tl) → NoFault tl := fun h x hx => h x (List.mem_cons_of_mem _ hx)
    cases hd with
    | acc k =>
      refine ⟨htl, ?_, rfl, ?_⟩
      · exact Nat.min_le_right _ _
      · intro hf
        have := hf (.acc k) (List.mem_cons_self ..)
        simp only [GoodW] at this
        omega
    | pend => exact ⟨htl, rfl⟩
    | zero =>
      refine ⟨htl, by omega, by simp [Nat.min_le_left], ?_⟩
      intro hf
      exact absurd (hf .zero (List.mem_cons_self ..)) (by simp [GoodW])
    | err =>
      refine ⟨htl, rfl, ?_⟩
      intro hf
      exact absurd (hf .err (List.mem_cons_self ..)) (by simp [GoodW])

/-- Bytes encrypted but not yet handed to the carrier. -/
def wtail (s : WriteSock C) : List C :=
  match s.st with
  | .idle => []
  | .writing off len => (s.ebuf.extract off len).toList

theorem extract_split (a : Array C) (i j k : Nat) (h1 : i ≤ j) (h2 : j ≤ k) :
    (a.extract i j).toList ++ (a.extract j k).toList = (a.extract i k).toList := by
  rw [← Array.toList_append, Array.extract_append_extract]
  simp [Nat.min_eq_left h1, Nat.max_eq_right h2]

theorem drain_spec (P : Params) (fuel : Nat) (s : WriteSock C) (c : WCarrier C)
    (hinv : WInv P s) (hfuel : drainFuel s ≤ fuel) :
    WInv P (drain fuel s c).1 ∧ (drain fuel s c).1.ebuf = s.ebuf ∧ (drain fuel s c).1.nonce = s.nonce ∧
    (drain fuel s c).2.1.out.toList ++ wtail (drain fuel s c).1 = c.out.toList ++ wtail s ∧
    (∀ m, (drain fuel s c).2.2 ≠ .panic m) ∧
    ((drain fuel s c).2.2 = .idle → (drain fuel s c).1.st = .idle) ∧
    ((drain fuel s c).2.2 = .blocked → (drain fuel s c).1.st ≠ .idle) ∧
    (NoFault c.script → NoFault (drain fuel s c).2.1.script ∧ ∀ e, (drain fuel s c).2.2 ≠ .err e) := by
  induction fuel generalizing s c with
  | zero =>
    exfalso
    unfold drainFuel at hfuel
    split at hfuel <;> omega
  | succ fuel ih =>
    unfold drain
    cases hst : s.st with
    | idle => simp [hst, hinv]
    | writing off len =>
      simp only []
      have hb : off < len ∧ len ≤ s.ebuf.size := by
        have := hinv.2; rw [hst] at this; exact this
      have hnot : ¬ (off > len ∨ len > s.ebuf.size) := by omega
      rw [if_neg hnot]
      have hw := WCarrier.write_spec c s.ebuf off len hb.1
      rcases hcw : c.write s.ebuf off len with ⟨c', a⟩
      rw [hcw] at hw
      cases a with
      | pending =>
        simp only [] at hw ⊢
        refine ⟨hinv, by t, by t, by rw [hw.2], by simp, by simp, by simp [hst], fun hf => ⟨hw.1 hf, by simp⟩⟩
      | err =>
        simp only [] at hw ⊢
        refine ⟨hinv, by t, by t, by rw [hw.2.1], by simp, by simp, by simp, fun hf => absurd hf hw.2.2⟩
      | accepted n =>
        simp only [] at hw ⊢
        obtain ⟨hsc, hn, hout, hpos⟩ := hw
        by_cases hn0 : n = 0
        · rw [if_pos hn0]
          subst hn0
          refine ⟨hinv, by t, by t, ?_, by simp, by simp, by simp, fun hf => ?_⟩
          · rw [hout]; simp
          · have := hpos hf; omega
        · rw [if_neg hn0]
          by_cases hfull : off + n = len
          · rw [if_pos hfull]
            refine ⟨⟨hinv.1, by simp⟩, by t, by t, ?_, by simp, by simp, by simp, fun hf => ⟨hsc hf, by simp⟩⟩
            simp only [wtail, hst, hout, hfull, Array.toList_append, List.append_nil]
          · rw [if_neg hfull]
            have hinv' : WInv P { s with st := .writing (off + n) len } := ⟨hinv.1, by simp; omega⟩
            have hf' : drainFuel { s with st := .writing (off + n) len } ≤ fuel := by
              simp only [drainFuel, hst] at hfuel ⊢; omega
            obtain ⟨i1, i2, i3, i4, i5, i6, i7, i8⟩ := ih { s with st := .writing (off + n) len } c' hinv' hf'
            refine ⟨i1, i2, i3, ?_, i5, i6, i7, fun hf => i8 (hsc hf)⟩
            rw [i4, hout]
            simp only [wtail, hst, Array.toList_append, List.append_assoc]
            rw [extract_split _ _ _ _ (by omega) (by omega)]

variable {C : Type}

/-! ## Write side: the byte stream produced -/

/-- One frame on the wire: big-endian `u16` length, then the ciphertext. -/
def frameBytes (w : WireOps C) (T n : Nat) (ch : Chunk) : List C :=
  w.ofByte ((ch.len + T) / 256 % 256) :: w.ofByte ((ch.len + T) % 256) :: w.enc n ch

/-- The wire image of a list of plaintext chunks encrypted under nonces `n, n+1, …`. -/
def wireOf (w : WireOps C) (T : Nat) : Nat → List Chunk → List C
  | _, [] => []
  | n, ch :: r => frameBytes w T n ch ++ wireOf w T (n + 1) r

/-- Consecutive non-empty chunks of at most `MAXF` bytes starting at position `pos`. -/
def FramesFrom (MAXF : Nat) : Nat → List Chunk → Prop
  | _, [] => True
  | pos, ch :: r => ch.start = pos ∧ 1 ≤ ch.len ∧ ch.len ≤ MAXF ∧ FramesFrom MAXF (pos + ch.len) r

/-- Number of plaintext bytes in a list of chunks. -/
def plen (fr : List Chunk) : Nat := (fr.map (·.len)).sum

theorem wireOf_append (w : WireOps C) (T n : Nat) (a b : List Chunk) :
    wireOf w T n (a ++ b) = wireOf w T n a ++ wireOf w T (n + a.length) b := by
  induction a generalizing n with
  | nil => simp [wireOf]
  | cons x xs ih =>
    simp only [List.cons_append, wireOf, ih, List.length_cons, List.append_assoc]
    rw [show n + 1 + xs.length = n + (xs.length + 1) by omega]

theorem FramesFrom_append (MAXF pos : Nat) (a b : List Chunk) :
    FramesFrom MAXF pos (a ++ b) ↔ FramesFrom MAXF pos a ∧ FramesFrom MAXF (pos + plen a) b := by
  induction a generalizing pos with
  | nil => simp [FramesFrom, plen]
  | cons x xs ih =>
    simp only [List.cons_append, FramesFrom, ih, plen, List.map_cons, List.sum_cons]
    rw [show pos + x.len + (List.map (fun x => x.len) xs).sum = pos + (x.len + (List.map (fun x => x.len) xs).sum) by omega]
    constructor <;> intro h <;> simp_all

theorem plen_append (a b : List Chunk) : plen (a ++ b) = plen a + plen b := by
  simp [plen]

/-- State of `write_state` after step 3. -/
def stAfter (st : WState) (bo : Nat) : WState :=
  match st with
  | .idle => .writing 0 bo
  | .writing off _ => .writing off bo

theorem frame_region (ebuf : Array C) (bo : Nat) (ct : List C) (x y : C)
    (h : bo + (ct.length + 2) ≤ ebuf.size) :
    ((((blitList ebuf (bo + 2) ct).setIfInBounds bo x).setIfInBounds (bo + 1) y).extract bo
        (bo + (ct.length + 2))).toList = x :: y :: ct := by
  apply List.ext_getElem?
  intro i
  rw [Array.getElem?_toList, Array.getElem?_extract]
  simp only [Array.size_setIfInBounds, blitList_size, Array.getElem?_setIfInBounds, blitList_getElem?]
  by_cases h0 : i = 0
  · subst h0; simp; omega
  · by_cases h1 : i = 1
    · subst h1; simp; omega
    · by_cases h2 : i < ct.length + 2
      · have e : i = (i - 2) + 2 := by omega
        rw [if_pos (by omega), if_neg (by omega), if_neg (by omega), if_pos (by omega)]
        rw [show bo + i - (bo + 2) = i - 2 by omega]
        conv => rhs; rw [e]
        simp
      · rw [if_neg (by omega)]
        have : (x :: y :: ct).length ≤ i := by simp; omega
        rw [List.getElem?_eq_none this]

theorem frame_untouched (ebuf : Array C) (bo : Nat) (ct : List C) (x y : C) (j : Nat) (hj : j < bo) :
    (((blitList ebuf (bo + 2) ct).setIfInBounds bo x).setIfInBounds (bo + 1) y)[j]? = ebuf[j]? := by
  simp only [Array.getElem?_setIfInBounds, blitList_getElem?]
  rw [if_neg (by omega), if_neg (by omega), if_neg (by omega)]

theorem extract_congr (a b : Array C) (lo hi : Nat) (hsz : a.size = b.size)
    (h : ∀ j, lo ≤ j → j < hi → a[j]? = b[j]?) : (a.extract lo hi).toList = (b.extract lo hi).toList := by
  apply List.ext_getElem?
  intro i
  rw [Array.getElem?_toList, Array.getElem?_toList, Array.getElem?_extract, Array.getElem?_extract, hsz]
  split
  · apply h <;> omega
  · rfl

variable {C : Type}

/-- Side conditions on the constants used by the write path. -/
structure WConsts (P : Params) : Prop where
  tag : P.T = P.TAG
  maxf : 1 ≤ P.MAXF
  /-- the largest frame fits a snow message: `MAX_FRAME_LEN + TAGLEN ≤ MAXMSGLEN` -/
  snow : P.MAXF + P.T ≤ P.SNOWMAX

theorem finishWrite_spec (s : WriteSock C) (bo total : Nat) :
    (finishWrite s bo total).1.ebuf = s.ebuf ∧ (finishWrite s bo total).1.nonce = s.nonce ∧
    if total = 0 then (finishWrite s bo total).2 = .pending ∧ (finishWrite s bo total).1.st = s.st
    else (finishWrite s bo total).2 = .ok total ∧ (finishWrite s bo total).1.st = stAfter s.st bo := by
  unfold finishWrite
  by_cases h : total = 0
  · simp [h]
  · simp only [h, if_false]
    cases hst : s.st <;> simp [stAfter]

theorem encLoop_spec (P : Params) (w : WireOps C) (hl : WireLaws P w) (hc : WConsts P)
    (fuel : Nat) (s : WriteSock C) (pos rem bo total : Nat) (hfuel : rem ≤ fuel) (hbo : bo ≤ s.ebuf.size) :
    ∃ fr bo',
      FramesFrom P.MAXF pos fr ∧ plen fr ≤ rem ∧
      (encLoop P w fuel s pos rem bo total).1.nonce = s.nonce + fr.length ∧
      (encLoop P w fuel s pos rem bo total).1.ebuf.size = s.ebuf.size ∧
      bo' = bo + (wireOf w P.T s.nonce fr).length ∧ bo' ≤ s.ebuf.size ∧
      (∀ j, j < bo → (encLoop P w fuel s pos rem bo total).1.ebuf[j]? = s.ebuf[j]?) ∧
      ((encLoop P w fuel s pos rem bo total).1.ebuf.extract bo bo').toList = wireOf w P.T s.nonce fr ∧
      (if total + plen fr = 0 then
          (encLoop P w fuel s pos rem bo total).2 = .pending ∧ (encLoop P w fuel s pos rem bo total).1.st = s.st
        else (encLoop P w fuel s pos rem bo total).2 = .ok (total + plen fr) ∧
          (encLoop P w fuel s pos rem bo total).1.st = stAfter s.st bo') := by
  induction fuel generalizing s pos rem bo total with
  | zero =>
    have : rem = 0 := by omega
    refine ⟨[], bo, trivial, by simp [plen], ?_⟩
    have hf := finishWrite_spec s bo total
    simp only [encLoop, plen, wireOf, List.map_nil, List.sum_nil, List.length_nil, Nat.add_zero]
    refine ⟨hf.2.1, by rw [hf.1], trivial, hbo, fun j _ => by rw [hf.1], by simp, hf.2.2⟩
  | succ fuel ih =>
    have hf := finishWrite_spec s bo total
    have stop : ∃ fr bo',
      FramesFrom P.MAXF pos fr ∧ plen fr ≤ rem ∧
      (finishWrite s bo total).1.nonce = s.nonce + fr.length ∧
      (finishWrite s bo total).1.ebuf.size = s.ebuf.size ∧
      bo' = bo + (wireOf w P.T s.nonce fr).length ∧ bo' ≤ s.ebuf.size ∧
      (∀ j, j < bo → (finishWrite s bo total).1.ebuf[j]? = s.ebuf[j]?) ∧
      ((finishWrite s bo total).1.ebuf.extract bo bo').toList = wireOf w P.T s.nonce fr ∧
      (if total + plen fr = 0 then
          (finishWrite s bo total).2 = .pending ∧ (finishWrite s bo total).1.st = s.st
        else (finishWrite s bo total).2 = .ok (total + plen fr) ∧
          (finishWrite s bo total).1.st = stAfter s.st bo') := by
      refine ⟨[], bo, trivial, by simp [plen], ?_⟩
      simp only [plen, wireOf, List.map_nil, List.sum_nil, List.length_nil, Nat.add_zero]
      exact ⟨hf.2.1, by rw [hf.1], trivial, hbo, fun j _ => by rw [hf.1], by simp, hf.2.2⟩
    unfold encLoop
    by_cases hrem : rem = 0
    · rw [if_pos hrem]; exact stop
    · rw [if_neg hrem]
      by_cases hfit : bo + min rem P.MAXF + (2 + P.TAG) > s.ebuf.size
      · rw [if_pos hfit]; exact stop
      · rw [if_neg hfit]
        have hcl : 1 ≤ min rem P.MAXF := by have := hc.maxf; omega
        have hcm : min rem P.MAXF ≤ P.MAXF := Nat.min_le_right _ _
        have hsw : snowWrite P w s.nonce ⟨pos, min rem P.MAXF⟩ (s.ebuf.size - (bo + 2))
            = some (w.enc s.nonce ⟨pos, min rem P.MAXF⟩) := by
          unfold snowWrite
          have h1 := hc.snow; have h2 := hc.tag
          rw [if_neg]; simp only []; omega
        rw [hsw]
        simp only []
        have hlen : (w.enc s.nonce ⟨pos, min rem P.MAXF⟩).length = min rem P.MAXF + P.T := hl.enc_len _ _
        generalize hct : w.enc s.nonce ⟨pos, min rem P.MAXF⟩ = ct at hlen ⊢
        have htag := hc.tag
        have hbo1 : bo + (ct.length + 2) ≤ s.ebuf.size := by omega
        obtain ⟨fr, bo', h1, h2, h3, h4, h5, h6, h7, h8, h9⟩ :=
          ih { s with
                ebuf := ((blitList s.ebuf (bo + 2) ct).setIfInBounds bo
                  (w.ofByte (ct.length / 256 % 256))).setIfInBounds (bo + 1) (w.ofByte (ct.length % 256)),
                nonce := s.nonce + 1 }
            (pos + min rem P.MAXF) (rem - min rem P.MAXF) (bo + (ct.length + 2)) (total + min rem P.MAXF)
            (by omega) (by simp [blitList_size]; omega)
        simp only [Array.size_setIfInBounds, blitList_size] at h4 h6
        refine ⟨⟨pos, min rem P.MAXF⟩ :: fr, bo', ⟨rfl, hcl, hcm, h1⟩, ?_, ?_, h4, ?_, h6, ?_, ?_, ?_⟩
        · simp only [plen, List.map_cons, List.sum_cons] at h2 ⊢; omega
        · rw [h3]; simp; omega
        · rw [h5]; simp only [wireOf, frameBytes, List.length_append, List.length_cons, hct, hlen]
          omega
        · intro j hj
          rw [h7 j (by omega)]
          exact frame_untouched s.ebuf bo ct _ _ j hj
        · have hb1 : bo + (ct.length + 2) ≤ bo' := by omega
          rw [← extract_split _ bo (bo + (ct.length + 2)) bo' (by omega) hb1, h8]
          simp only [wireOf, frameBytes, hct]
          rw [extract_congr _ _ bo (bo + (ct.length + 2)) (by simp [h4, blitList_size]) (fun j _ hj => h7 j hj)]
          rw [frame_region s.ebuf bo ct _ _ hbo1, hlen]
        · have e : total + plen (⟨pos, min rem P.MAXF⟩ :: fr) = total + min rem P.MAXF + plen fr := by
            simp only [plen, List.map_cons, List.sum_cons]; omega
          rw [e]
          exact h9

variable {C : Type}

/-- Stream invariant of the writer: what the carrier accepted so far, followed by what waits in the
encrypt buffer, is the wire image of the frames encrypted so far (nonces 0, 1, …), and these frames
are consecutive chunks covering plaintext positions `0 … wpos-1`. -/
structure WSInv (P : Params) (w : WireOps C) (s : WriteSock C) (c : WCarrier C)
    (frames : List Chunk) (wpos : Nat) : Prop where
  inv : WInv P s
  frs : FramesFrom P.MAXF 0 frames
  total : plen frames = wpos
  nonce : s.nonce = frames.length
  stream : c.out.toList ++ wtail s = wireOf w P.T 0 frames

theorem plen_pos_of_framesFrom {MAXF pos : Nat} {fr : List Chunk} (h : FramesFrom MAXF pos fr)
    (h0 : plen fr = 0) : fr = [] := by
  cases fr with
  | nil => rfl
  | cons x xs => simp only [FramesFrom] at h; simp only [plen, List.map_cons, List.sum_cons] at h0; omega

theorem wireOf_length_pos (w : WireOps C) (T n : Nat) (fr : List Chunk) (h : fr ≠ []) :
    2 ≤ (wireOf w T n fr).length := by
  cases fr with
  | nil => exact absurd rfl h
  | cons x xs => simp [wireOf, frameBytes]

theorem bufferOffset_le (P : Params) (s : WriteSock C) (h : WInv P s) : bufferOffset s ≤ s.ebuf.size := by
  unfold bufferOffset
  have := h.2
  split <;> simp_all

theorem encryptStep_spec (P : Params) (w : WireOps C) (hl : WireLaws P w) (hc : WConsts P)
    (s : WriteSock C) (c : WCarrier C) (frames : List Chunk) (wpos n : Nat)
    (h : WSInv P w s c frames wpos) :
    (∀ m, (encryptStep P w s wpos n).2 ≠ .panic m) ∧ (∀ e, (encryptStep P w s wpos n).2 ≠ .err e) ∧
    match (encryptStep P w s wpos n).2 with
    | .ok k => k ≤ n ∧ (0 < n → 1 ≤ k) ∧
        ∃ fr, WSInv P w (encryptStep P w s wpos n).1 c (frames ++ fr) (wpos + k)
    | .pending => 0 < n ∧ WSInv P w (encryptStep P w s wpos n).1 c frames wpos
    | _ => True := by
  unfold encryptStep
  by_cases hn : n = 0
  · subst hn
    simp only [if_true]
    refine ⟨by simp, by simp, Nat.le_refl _, by omega, [], ?_⟩
    simpa using h
  · rw [if_neg hn, if_neg (by have := hc.maxf; omega)]
    obtain ⟨fr, bo', h1, h2, h3, h4, h5, h6, h7, h8, h9⟩ :=
      encLoop_spec P w hl hc n s wpos n (bufferOffset s) 0 (Nat.le_refl _) (bufferOffset_le P s h.inv)
    generalize encLoop P w n s wpos n (bufferOffset s) 0 = r at *
    have hfr : FramesFrom P.MAXF 0 (frames ++ fr) := by
      rw [FramesFrom_append]; exact ⟨h.frs, by rw [h.total, Nat.zero_add]; exact h1⟩
    simp only [Nat.zero_add] at h9
    by_cases hz : plen fr = 0
    · rw [if_pos hz] at h9
      have hfr0 := plen_pos_of_framesFrom h1 hz
      subst hfr0
      rw [h9.1]
      refine ⟨by simp, by simp, by omega, ?_⟩
      refine ⟨⟨by rw [h4]; exact h.inv.1, by rw [h9.2]; rw [h4]; exact h.inv.2⟩, h.frs, h.total,
        by rw [h3, h.nonce]; rfl, ?_⟩
      rw [← h.stream]
      congr 1
      unfold wtail
      rw [h9.2]
      cases hst : s.st with
      | idle => rfl
      | writing off len =>
        simp only []
        apply extract_congr _ _ _ _ h4
        intro j _ hj
        apply h7
        simp only [bufferOffset, hst]; exact hj
    · rw [if_neg hz] at h9
      rw [h9.1]
      have hne : fr ≠ [] := by intro e; subst e; simp [plen] at hz
      have hwl := wireOf_length_pos w P.T s.nonce fr hne
      refine ⟨by simp, by simp, h2, fun _ => by omega, fr, ?_⟩
      have hbo := bufferOffset_le P s h.inv
      refine ⟨⟨by rw [h4]; exact h.inv.1, ?_⟩, hfr, by rw [plen_append, h.total], by rw [h3, h.nonce]; simp, ?_⟩
      · rw [h9.2, h4]
        have := h.inv.2
        unfold stAfter bufferOffset at *
        cases hst : s.st with
        | idle => simp only [hst] at *; omega
        | writing off len => simp only [hst] at *; omega
      · rw [wireOf_append, ← h.stream, List.append_assoc, Nat.zero_add, ← h.nonce, ← h8]
        congr 1
        unfold wtail
        rw [h9.2]
        have := h.inv.2
        cases hst : s.st with
        | idle =>
          simp only [stAfter, bufferOffset, hst] at *
          simp
        | writing off len =>
          simp only [stAfter, bufferOffset, hst] at *
          rw [← extract_split _ off len bo' (by omega) (by omega)]
          congr 1
          apply extract_congr _ _ _ _ h4
          intro j _ hj
          exact h7 j hj

variable {C : Type}

theorem wsinv_of_drain (P : Params) (w : WireOps C) (s s' : WriteSock C) (c c' : WCarrier C)
    (frames : List Chunk) (wpos : Nat) (h : WSInv P w s c frames wpos)
    (h1 : WInv P s') (h3 : s'.nonce = s.nonce)
    (h4 : c'.out.toList ++ wtail s' = c.out.toList ++ wtail s) : WSInv P w s' c' frames wpos :=
  ⟨h1, h.frs, h.total, by rw [h3, h.nonce], by rw [h4, h.stream]⟩

/-- `poll_write`: never panics, never fails by itself, and extends the stream by whole frames. -/
theorem pollWrite_spec (P : Params) (w : WireOps C) (hl : WireLaws P w) (hc : WConsts P)
    (s : WriteSock C) (c : WCarrier C) (frames : List Chunk) (wpos n : Nat)
    (h : WSInv P w s c frames wpos) :
    (∀ m, (pollWrite P w s c wpos n).2.2 ≠ .panic m) ∧
    (pollWrite P w s c wpos n).2.2 ≠ .err .invalidData ∧
    (NoFault c.script → NoFault (pollWrite P w s c wpos n).2.1.script ∧
        ∀ e, (pollWrite P w s c wpos n).2.2 ≠ .err e) ∧
    match (pollWrite P w s c wpos n).2.2 with
    | .ok k => k ≤ n ∧ (0 < n → 1 ≤ k) ∧
        ∃ fr, WSInv P w (pollWrite P w s c wpos n).1 (pollWrite P w s c wpos n).2.1 (frames ++ fr) (wpos + k)
    | .pending => 0 < n ∧ WSInv P w (pollWrite P w s c wpos n).1 (pollWrite P w s c wpos n).2.1 frames wpos
    | _ => True := by
  obtain ⟨d1, d2, d3, d4, d5, d6, d7, d8⟩ := drain_spec P (drainFuel s) s c h.inv (Nat.le_refl _)
  unfold pollWrite
  rcases hd : drain (drainFuel s) s c with ⟨s', c', o⟩
  rw [hd] at d1 d2 d3 d4 d5 d6 d7 d8
  simp only [] at d1 d2 d3 d4 d5 d6 d7 d8
  have hs' := wsinv_of_drain P w s s' c c' frames wpos h d1 d3 d4
  have he := encryptStep_spec P w hl hc s' c' frames wpos n hs'
  cases o with
  | err e =>
    refine ⟨by simp, ?_, fun hf => absurd rfl ((d8 hf).2 e), trivial⟩
    intro hh
    -- `drain` only reports `writeZero` / `carrier`
    have : e = .invalidData := by simpa using hh
    subst this
    clear he hs' d1 d2 d3 d4 d5 d6 d7 d8
    exact absurd hd (by
      have key : ∀ fuel (s : WriteSock C) (c : WCarrier C), (drain fuel s c).2.2 ≠ .err .invalidData := by
        intro fuel
        induction fuel with
        | zero => intro s c; simp [drain]
        | succ f ih =>
          intro s c
          unfold drain
          split
          · simp
          · split
            · simp
            · split
              · simp
              · simp
              · split
                · simp
                · split
                  · simp
                  · exact ih _ _
      intro hd; have := key (drainFuel s) s c; rw [hd] at this; exact this rfl)
  | panic m => exact absurd rfl (d5 m)
  | idle =>
    simp only []
    rcases hes : encryptStep P w s' wpos n with ⟨s'', o'⟩
    rw [hes] at he
    exact ⟨he.1, he.2.1 _, fun hf => ⟨(d8 hf).1, he.2.1⟩, he.2.2⟩
  | blocked =>
    simp only []
    rcases hes : encryptStep P w s' wpos n with ⟨s'', o'⟩
    rw [hes] at he
    exact ⟨he.1, he.2.1 _, fun hf => ⟨(d8 hf).1, he.2.1⟩, he.2.2⟩

/-- `poll_flush`: never panics; `Ok` means everything encrypted so far has been handed to the carrier. -/
theorem pollFlush_spec (P : Params) (w : WireOps C) (s : WriteSock C) (c : WCarrier C)
    (frames : List Chunk) (wpos : Nat) (h : WSInv P w s c frames wpos) :
    (∀ m, (pollFlush s c).2.2 ≠ .panic m) ∧
    (NoFault c.script → NoFault (pollFlush s c).2.1.script ∧ ∀ e, (pollFlush s c).2.2 ≠ .err e) ∧
    ((∀ e, (pollFlush s c).2.2 ≠ .err e) → WSInv P w (pollFlush s c).1 (pollFlush s c).2.1 frames wpos) ∧
    (∀ k, (pollFlush s c).2.2 = .ok k → (pollFlush s c).2.1.out.toList = wireOf w P.T 0 frames) := by
  obtain ⟨d1, d2, d3, d4, d5, d6, d7, d8⟩ := drain_spec P (drainFuel s) s c h.inv (Nat.le_refl _)
  unfold pollFlush
  rcases hd : drain (drainFuel s) s c with ⟨s', c', o⟩
  rw [hd] at d1 d2 d3 d4 d5 d6 d7 d8
  simp only [] at d1 d2 d3 d4 d5 d6 d7 d8
  have hs' := wsinv_of_drain P w s s' c c' frames wpos h d1 d3 d4
  cases o with
  | err e => exact ⟨by simp, fun hf => absurd rfl ((d8 hf).2 e), fun hh => absurd rfl (hh e), by simp⟩
  | panic m => exact absurd rfl (d5 m)
  | idle =>
    refine ⟨by simp, fun hf => ⟨(d8 hf).1, by simp⟩, fun _ => hs', fun k _ => ?_⟩
    have := hs'.stream
    simp only [wtail, d6 rfl, List.append_nil] at this
    exact this
  | blocked => exact ⟨by simp, fun hf => ⟨(d8 hf).1, by simp⟩, fun _ => hs', by simp⟩

variable {C : Type}

/-! ## Read side: the buffer invariant -/

/-- Side conditions on the constants used by the read path. -/
structure RConsts (P : Params) : Prop where
  tag : P.T = P.TAG
  f1 : 1 ≤ P.F
  /-- a frame of `u16::MAX` bytes fits behind the read-ahead area: `65535 ≤ MAX_NOISE_MSG_LEN + 2` -/
  m : 65533 ≤ P.M

/-- Size of the frame whose body starts at `offset` and has not been consumed yet. -/
def pendSize (s : ReadSock C) : Nat :=
  match s.st with
  | .process (some _) _ _ fsz => fsz
  | _ => s.cur.getD 0

/-- State-specific part of the invariant. -/
def StInv (P : Params) (s : ReadSock C) : Prop :=
  match s.st with
  | .readData m => s.nread < m ∧ m ≤ s.buf.size ∧ s.decBuf = true ∧
      (m ≤ s.canon ∨ (m ≤ s.offset + s.cur.getD 0 ∧ s.offset + s.cur.getD 0 ≤ s.buf.size))
  | .readFrameLen => s.decBuf = true
  | .process none _ _ _ => s.decBuf = true ∧ ∃ fs, s.cur = some fs ∧ P.TAG < fs ∧ s.offset + fs ≤ s.nread
  | .process (some ch) off size fsz =>
      s.cur = none ∧ off < size ∧ size ≤ P.MAXF ∧ s.offset + fsz ≤ s.nread ∧ size = ch.len

/-- The read-buffer invariant: `read_buffer[0..nread)` is the window `[cpos-nread, cpos)` of the
carrier stream, the cursors are ordered, and every slice the next step takes is in bounds. -/
structure RInv (P : Params) (s : ReadSock C) (c : RCarrier C) : Prop where
  size : s.buf.size = P.bufSize
  canon : s.canon = P.canon
  nread_le : s.nread ≤ c.cpos
  cpos_le : c.cpos ≤ c.str.size
  window : ∀ j, j < s.nread → s.buf[j]? = c.str[c.cpos - s.nread + j]?
  off_le : s.offset ≤ s.nread
  cur_lt : ∀ fs, s.cur = some fs → fs < 65536
  room : s.nread ≤ s.canon ∨ (s.nread ≤ s.offset + pendSize s ∧ s.offset + pendSize s ≤ s.buf.size)
  st : StInv P s

theorem canon_ge (P : Params) (hc : RConsts P) : 65533 ≤ P.canon := by
  have h1 := hc.f1; have h2 := hc.m
  unfold Params.canon
  calc 65533 ≤ P.M := h2
    _ = 1 * P.M := by omega
    _ ≤ P.F * P.M := Nat.mul_le_mul_right _ h1

theorem bufSize_eq (P : Params) : P.bufSize = P.canon + (2 + P.M) := rfl

theorem resetRead_inv (P : Params) (hc : RConsts P) (s : ReadSock C) (c : RCarrier C) (h : RInv P s c)
    (hst : s.st = .readFrameLen) (hrem : s.nread - s.offset < 2) :
    ∃ s', resetRead s (s.nread - s.offset) = .ok s' ∧ RInv P s' c ∧ s'.nonce = s.nonce ∧
      s'.st = .readData s.canon ∧ s'.cur = s.cur ∧ s'.nread - s'.offset = s.nread - s.offset := by
  have hcg := canon_ge P hc
  have hsz := h.size; have hcn := h.canon; have hol := h.off_le
  have hbs := bufSize_eq P
  have hdec : s.decBuf = true := by have := h.st; simpa [StInv, hst] using this
  unfold resetRead
  rcases hr : s.nread - s.offset with _ | _ | r
  · refine ⟨_, rfl, ⟨hsz, hcn, Nat.zero_le _, h.cpos_le, fun j hj => absurd hj (Nat.not_lt_zero _),
      Nat.le_refl _, h.cur_lt, Or.inl (Nat.zero_le _), ?_⟩, rfl, rfl, rfl, rfl⟩
    simp only [StInv]
    refine ⟨by omega, by omega, hdec, Or.inl (Nat.le_refl _)⟩
  · have hn : 0 < s.nread ∧ s.nread - 1 < s.buf.size := by
      have := h.room
      simp only [pendSize, hst] at this
      omega
    simp only [Nat.zero_add]
    rw [dif_pos hn]
    refine ⟨_, rfl, ⟨by simpa using hsz, hcn, by have := h.nread_le; show 1 ≤ c.cpos; omega, h.cpos_le, ?_,
      Nat.zero_le _, h.cur_lt, Or.inl (by show 1 ≤ s.canon; omega), ?_⟩, rfl, rfl, rfl, by simp⟩
    · intro j hj
      have hj0 : j = 0 := by simpa using hj
      subst hj0
      have hw := h.window (s.nread - 1) (by omega)
      have : c.cpos - s.nread + (s.nread - 1) = c.cpos - 1 + 0 := by have := h.nread_le; omega
      rw [this] at hw
      simp only [Array.getElem?_setIfInBounds]
      rw [if_pos trivial, if_pos (by omega), ← hw]
      simp [hn.2]
    · simp only [StInv]
      refine ⟨by show 1 < s.canon; omega, by simp; omega, hdec, Or.inl (Nat.le_refl _)⟩
  · omega

variable {C : Type}

theorem afterSize_inv (P : Params) (hc : RConsts P) (s : ReadSock C) (c : RCarrier C) (fs : Nat)
    (hsize : s.buf.size = P.bufSize) (hcanon : s.canon = P.canon) (hnr : s.nread ≤ c.cpos)
    (hcp : c.cpos ≤ c.str.size) (hwin : ∀ j, j < s.nread → s.buf[j]? = c.str[c.cpos - s.nread + j]?)
    (hcur : s.cur = none) (hst : s.st = .readFrameLen) (hdec : s.decBuf = true)
    (hoff : s.offset ≤ s.nread) (hfs : fs < 65536)
    (hroom : s.nread ≤ s.canon ∨ (s.nread ≤ s.offset + fs ∧ s.offset + fs ≤ s.buf.size)) :
    (afterSize P s fs (s.nread - s.offset)).1.nonce = s.nonce ∧
    (∀ ch a b d, (afterSize P s fs (s.nread - s.offset)).1.st ≠ .process (some ch) a b d) ∧
    match (afterSize P s fs (s.nread - s.offset)).2 with
    | none => RInv P (afterSize P s fs (s.nread - s.offset)).1 c
    | some (.err .invalidData) => True
    | _ => False := by
  have hcg := canon_ge P hc
  have hbs := bufSize_eq P
  have hm := hc.m
  unfold afterSize
  by_cases h1 : s.nread - s.offset < fs
  · rw [if_pos h1]
    by_cases h2 : s.nread + fs < s.canon
    · rw [if_pos h2]
      refine ⟨rfl, by simp, ?_⟩
      simp only []
      refine ⟨hsize, hcanon, hnr, hcp, hwin, hoff, by simp; omega, Or.inl (by show s.nread ≤ s.canon; omega), ?_⟩
      simp only [StInv]
      exact ⟨by omega, by omega, hdec, Or.inl (Nat.le_refl _)⟩
    · rw [if_neg h2]
      refine ⟨rfl, by simp, ?_⟩
      simp only []
      have hb : s.offset + fs ≤ s.buf.size := by
        rcases hroom with h | h
        · omega
        · exact h.2
      refine ⟨hsize, hcanon, hnr, hcp, hwin, hoff, by simp; omega, ?_, ?_⟩
      · right; simp only [pendSize, Option.getD_some]; omega
      · simp only [StInv, Option.getD_some]
        refine ⟨by omega, by omega, hdec, Or.inr ⟨by omega, hb⟩⟩
  · rw [if_neg h1]
    by_cases h3 : fs ≤ P.TAG
    · rw [if_pos h3]; exact ⟨rfl, by simp [hst], trivial⟩
    · rw [if_neg h3]
      refine ⟨rfl, by simp, ?_⟩
      simp only []
      refine ⟨hsize, hcanon, hnr, hcp, hwin, hoff, by simp; omega, ?_, ?_⟩
      · rcases hroom with h | h
        · exact Or.inl h
        · right; simp only [pendSize, Option.getD_some]; exact h
      · simp only [StInv]
        exact ⟨hdec, fs, rfl, by omega, by omega⟩

theorem frameLenStep_inv (P : Params) (w : WireOps C) (hc : RConsts P) (s : ReadSock C) (c : RCarrier C)
    (h : RInv P s c) (hst : s.st = .readFrameLen) :
    (frameLenStep P w s).1.nonce = s.nonce ∧
    (∀ ch a b d, (frameLenStep P w s).1.st ≠ .process (some ch) a b d) ∧
    match (frameLenStep P w s).2 with
    | none => RInv P (frameLenStep P w s).1 c
    | some (.err .invalidData) => True
    | _ => False := by
  have hdec : s.decBuf = true := by have := h.st; simpa [StInv, hst] using this
  have hol := h.off_le
  unfold frameLenStep
  rw [if_neg (by omega)]
  by_cases hrem : s.nread - s.offset < 2
  · rw [if_pos hrem]
    obtain ⟨s', e, hi, hn, hs, _⟩ := resetRead_inv P hc s c h hst hrem
    rw [e]
    exact ⟨hn, by simp [hs], hi⟩
  · rw [if_neg hrem]
    have hroom := h.room
    simp only [pendSize, hst] at hroom
    cases hcur : s.cur with
    | some fs =>
      simp only []
      rw [hcur] at hroom
      exact afterSize_inv P hc { s with cur := none } c fs h.size h.canon h.nread_le h.cpos_le h.window rfl hst hdec
        hol (h.cur_lt fs hcur) (by simpa using hroom)
    | none =>
      simp only []
      have hsz := h.size
      have hb : s.offset + 1 < s.buf.size := by
        rw [hcur] at hroom
        have := canon_ge P hc; have := bufSize_eq P; have := h.canon
        simp only [Option.getD_none] at hroom
        omega
      rw [if_pos hb]
      have e : s.nread - s.offset - 2 = s.nread - (s.offset + 2) := by omega
      rw [e]
      have hr' : s.nread ≤ s.canon := by
        rw [hcur] at hroom
        simp only [Option.getD_none] at hroom
        omega
      have key := afterSize_inv P hc { s with offset := s.offset + 2, cur := none } c
        (w.toByte (s.buf.getD s.offset (w.ofByte 0)) % 256 * 256
            + w.toByte (s.buf.getD (s.offset + 1) (w.ofByte 0)) % 256) h.size h.canon h.nread_le h.cpos_le h.window
        rfl hst hdec (by show s.offset + 2 ≤ s.nread; omega) (by omega) (Or.inl hr')
      exact key

variable {C : Type}

/-! ## Read side: what is handed to the caller -/

/-- Plaintext position at which frame `n` starts. -/
def startOf (frames : List Chunk) (n : Nat) : Nat := plen (frames.take n)

/-- Output bookkeeping: `outLen` bytes were handed out so far, they are the first `outLen` stream
positions, and the nonce counts the frames decrypted. -/
def SInv (frames : List Chunk) (s : ReadSock C) (outLen : Nat) : Prop :=
  match s.st with
  | .process (some ch) off _ _ => 1 ≤ s.nonce ∧ frames[s.nonce - 1]? = some ch ∧ outLen = ch.start + off
  | _ => s.nonce ≤ frames.length ∧ outLen = startOf frames s.nonce

/-- Ciphertext integrity for the stream on the carrier: whatever window of it decrypts under nonce
`n` is the writer's `n`-th frame (the attacker can rearrange, cut and corrupt, but cannot make a
valid ciphertext of its own). Proved for the term model in `Authentic_term`. -/
def Authentic (w : WireOps C) (frames : List Chunk) (str : List C) : Prop :=
  ∀ n i len p, i + len ≤ str.length → w.dec n ((str.drop i).take len) = some p → frames[n]? = some p

theorem framesFrom_get {B pos : Nat} {frames : List Chunk} (h : FramesFrom B pos frames) {n : Nat} {ch : Chunk}
    (hn : frames[n]? = some ch) :
    ch.start = pos + plen (frames.take n) ∧ plen (frames.take (n + 1)) = plen (frames.take n) + ch.len ∧
    n < frames.length ∧ 1 ≤ ch.len := by
  induction frames generalizing pos n with
  | nil => simp at hn
  | cons x xs ih =>
    cases n with
    | zero =>
      simp at hn; subst hn
      simp only [FramesFrom] at h
      simp [plen, h.1, h.2.1]
    | succ n =>
      simp only [List.getElem?_cons_succ] at hn
      simp only [FramesFrom] at h
      obtain ⟨a, b, c, d⟩ := ih h.2.2.2 hn
      refine ⟨?_, ?_, by simp; omega, d⟩
      · rw [a]; simp [plen]; omega
      · simp only [plen, List.take_succ_cons, List.map_cons, List.sum_cons] at b ⊢; omega

theorem startOf_le (frames : List Chunk) (n : Nat) : startOf frames n ≤ plen frames := by
  unfold startOf plen
  have : (frames.map (·.len)).sum = ((frames.take n).map (·.len)).sum + ((frames.drop n).map (·.len)).sum := by
    rw [← List.sum_append, ← List.map_append, List.take_append_drop]
  omega

theorem window_eq (P : Params) (s : ReadSock C) (c : RCarrier C) (h : RInv P s c) (fs : Nat)
    (hfs : s.offset + fs ≤ s.nread) :
    window s fs = (c.str.toList.drop (c.cpos - s.nread + s.offset)).take fs ∧
    (window s fs).length = fs ∧ c.cpos - s.nread + s.offset + fs ≤ c.str.toList.length := by
  have h1 := h.nread_le; have h2 := h.cpos_le; have h3 := h.size
  have hnb : s.nread ≤ s.buf.size := by
    have := h.room; have := h.canon; have := bufSize_eq P; omega
  refine ⟨?_, ?_, by simp; omega⟩
  · apply List.ext_getElem?
    intro i
    unfold window
    rw [Array.getElem?_toList, Array.getElem?_extract, List.getElem?_take, List.getElem?_drop, Array.getElem?_toList]
    by_cases hi : i < fs
    · rw [if_pos (by omega), if_pos hi, h.window _ (by omega)]
      congr 1; omega
    · rw [if_neg (by omega), if_neg hi]
  · unfold window; simp; omega

theorem snowRead_some (P : Params) (w : WireOps C) (hl : WireLaws P w) (n : Nat) (msg : List C) (sp : Nat)
    (ch : Chunk) (h : snowRead P w n msg sp = some ch) :
    w.dec n msg = some ch ∧ msg.length = ch.len + P.T ∧ ch.len ≤ sp := by
  unfold snowRead at h
  split at h
  · cases h
  · split at h
    · cases h
    · have := (hl.dec_iff n msg ch).1 h
      have hlen := hl.enc_len n ch
      rw [← this] at hlen
      exact ⟨h, hlen, by omega⟩

theorem processStep_inv (P : Params) (w : WireOps C) (hl : WireLaws P w) (hc : RConsts P) (B : Nat)
    (frames : List Chunk) (hfr : FramesFrom B 0 frames) (k : Nat) (s : ReadSock C) (c : RCarrier C)
    (h : RInv P s c) (pending : Option Chunk) (off size fsz : Nat)
    (hst : s.st = .process pending off size fsz) (outLen : Nat) (hs : SInv frames s outLen)
    (hauth : Authentic w frames c.str.toList) :
    match (processStep P w k s pending off size fsz).2 with
    | .ok n pos => pos = outLen ∧ n ≤ k ∧ (0 < k → 0 < n) ∧
        RInv P (processStep P w k s pending off size fsz).1 c ∧
        SInv frames (processStep P w k s pending off size fsz).1 (outLen + n)
    | .err .invalidData => True
    | _ => False := by
  have hsti := h.st
  have htag := hc.tag
  unfold processStep
  cases pending with
  | some ch =>
    simp only [StInv, hst] at hsti
    obtain ⟨hcur, ho, hsz, hof, hsl⟩ := hsti
    simp only [SInv, hst] at hs
    obtain ⟨hn1, hfn, hout⟩ := hs
    obtain ⟨fa, fb, fc, fd⟩ := framesFrom_get hfr hfn
    simp only []
    rw [if_neg (by omega)]
    have hroom := h.room
    simp only [pendSize, hst] at hroom
    by_cases hk : k ≥ size - off
    · rw [if_pos hk]
      simp only []
      refine ⟨by omega, by omega, fun _ => by omega, ?_, ?_⟩
      · refine ⟨h.size, h.canon, h.nread_le, h.cpos_le, h.window, by show s.offset + fsz ≤ s.nread; omega,
          h.cur_lt, ?_, ?_⟩
        · simp only [pendSize, hcur, Option.getD_none]
          rcases hroom with hr | hr
          · exact Or.inl hr
          · right; show s.nread ≤ s.offset + fsz + 0 ∧ s.offset + fsz + 0 ≤ s.buf.size; omega
        · simp [StInv]
      · simp only [SInv]
        refine ⟨by omega, ?_⟩
        have e : s.nonce = s.nonce - 1 + 1 := by omega
        rw [e]; unfold startOf; rw [fb]; simp only [Nat.zero_add] at fa; omega
    · rw [if_neg hk]
      simp only []
      refine ⟨by omega, by omega, fun h => h, ?_, ?_⟩
      · refine ⟨h.size, h.canon, h.nread_le, h.cpos_le, h.window, h.off_le, h.cur_lt, ?_, ?_⟩
        · simp only [pendSize]; exact hroom
        · simp only [StInv]; exact ⟨hcur, by omega, hsz, hof, hsl⟩
      · simp only [SInv]; exact ⟨hn1, hfn, by omega⟩
  | none =>
    simp only [StInv, hst] at hsti
    obtain ⟨hdec, fs, hcur, htg, hof⟩ := hsti
    simp only [SInv, hst] at hs
    obtain ⟨hnl, hout⟩ := hs
    simp only []
    rw [hcur]
    simp only []
    rw [if_neg (by omega)]
    have hroom := h.room
    simp only [pendSize, hst, hcur, Option.getD_some] at hroom
    have hnb : s.nread ≤ s.buf.size := by
      have := h.canon; have := bufSize_eq P; have := h.size
      omega
    obtain ⟨hw1, hw2, hw3⟩ := window_eq P s c h fs hof
    by_cases hk : k ≥ fs - P.TAG
    · rw [if_pos hk, if_neg (by omega)]
      cases hsr : snowRead P w s.nonce (window s fs) k with
      | none => trivial
      | some ch =>
        simp only []
        obtain ⟨hd, hlen, hsp⟩ := snowRead_some P w hl _ _ _ _ hsr
        rw [hw1] at hd
        have hfn := hauth _ _ _ _ hw3 hd
        obtain ⟨fa, fb, fc, fd⟩ := framesFrom_get hfr hfn
        simp only [Nat.zero_add] at fa
        refine ⟨by unfold startOf at hout; omega, hsp, fun _ => fd, ?_, ?_⟩
        · refine ⟨h.size, h.canon, h.nread_le, h.cpos_le, h.window, by show s.offset + fs ≤ s.nread; omega, by simp, ?_, ?_⟩
          · simp only [pendSize, Option.getD_none]
            rcases hroom with hr | hr
            · exact Or.inl hr
            · right; show s.nread ≤ s.offset + fs + 0 ∧ s.offset + fs + 0 ≤ s.buf.size; omega
          · simp only [StInv]; exact hdec
        · simp only [SInv]
          refine ⟨by omega, ?_⟩
          unfold startOf at hout ⊢; rw [fb]; omega
    · rw [if_neg hk, if_neg (by simp [hdec]), if_neg (by omega)]
      cases hsr : snowRead P w s.nonce (window s fs) P.MAXF with
      | none => trivial
      | some ch =>
        simp only []
        obtain ⟨hd, hlen, hsp⟩ := snowRead_some P w hl _ _ _ _ hsr
        rw [hw2] at hlen
        rw [if_neg (by omega)]
        rw [hw1] at hd
        have hfn := hauth _ _ _ _ hw3 hd
        obtain ⟨fa, fb, fc, fd⟩ := framesFrom_get hfr hfn
        simp only [Nat.zero_add] at fa
        simp only []
        refine ⟨by unfold startOf at hout; omega, Nat.le_refl _, fun h => h, ?_, ?_⟩
        · refine ⟨h.size, h.canon, h.nread_le, h.cpos_le, h.window, h.off_le, by simp, ?_, ?_⟩
          · simp only [pendSize]; exact hroom
          · simp only [StInv]; exact ⟨trivial, by omega, hsp, hof, trivial⟩
        · simp only [SInv]
          refine ⟨by omega, by simpa using hfn, by unfold startOf at hout; omega⟩

variable {C : Type}

local macro "t" : tactic => `(tactic| first | rfl | trivial | simp)

theorem afterSize_st (P : Params) (s : ReadSock C) (fs rem : Nat) (h0 : (afterSize P s fs rem).2 = none) :
    (afterSize P s fs rem).1.st ≠ .readFrameLen := by
  unfold afterSize at *
  by_cases h1 : rem < fs
  · simp only [h1, if_true] at h0 ⊢
    by_cases h2 : s.nread + fs < s.canon <;> simp [h2]
  · simp only [h1, if_false] at h0 ⊢
    by_cases h3 : fs ≤ P.TAG
    · simp [h3] at h0
    · simp [h3]

theorem resetRead_st (s s' : ReadSock C) (r : Nat) (h : resetRead s r = .ok s') :
    s'.st = .readData s.canon := by
  unfold resetRead at h
  split at h
  · cases h; rfl
  · split at h
    · cases h; rfl
    · cases h
  · cases h

theorem frameLenStep_st (P : Params) (w : WireOps C) (s : ReadSock C) (h0 : (frameLenStep P w s).2 = none) :
    (frameLenStep P w s).1.st ≠ .readFrameLen := by
  unfold frameLenStep at *
  by_cases h1 : s.nread < s.offset
  · simp [h1] at h0
  · simp only [h1, if_false] at h0 ⊢
    by_cases h2 : s.nread - s.offset < 2
    · simp only [h2, if_true] at h0 ⊢
      cases hr : resetRead s (s.nread - s.offset) with
      | error m => simp [hr] at h0
      | ok s' => simp only []; rw [resetRead_st _ _ _ hr]; simp
    · simp only [h2, if_false] at h0 ⊢
      cases hc : s.cur with
      | some fs => simp only [hc] at h0 ⊢; exact afterSize_st P _ _ _ h0
      | none =>
        simp only [hc] at h0 ⊢
        by_cases h3 : s.offset + 1 < s.buf.size
        · simp only [h3, if_true] at h0 ⊢; exact afterSize_st P _ _ _ h0
        · simp [h3] at h0

theorem RCarrier.deflt_spec (c : RCarrier C) (cap : Nat) :
    (c.deflt cap).1.str = c.str ∧
    (∀ n, (c.deflt cap).2 = .ready n →
      n ≤ cap ∧ (c.deflt cap).1.cpos = c.cpos + n ∧ (c.cpos ≤ c.str.size → c.cpos + n ≤ c.str.size)) ∧
    ((c.deflt cap).2 = .pending ∨ (c.deflt cap).2 = .err → (c.deflt cap).1.cpos = c.cpos) := by
  unfold RCarrier.deflt
  by_cases h : c.str.size - c.cpos = 0
  · rw [if_pos h]
    cases c.closed <;> simp
  · rw [if_neg h]
    refine ⟨rfl, ?_, by simp⟩
    intro n hn
    simp only [RAns.ready.injEq] at hn
    subst hn
    exact ⟨Nat.min_le_left _ _, rfl, fun _ => by omega⟩

theorem RCarrier.read_spec (c : RCarrier C) (req : Nat) :
    (c.read req).1.str = c.str ∧
    (∀ n, (c.read req).2 = .ready n →
      n ≤ req ∧ (c.read req).1.cpos = c.cpos + n ∧ (c.cpos ≤ c.str.size → c.cpos + n ≤ c.str.size)) ∧
    ((c.read req).2 = .pending ∨ (c.read req).2 = .err → (c.read req).1.cpos = c.cpos) := by
  unfold RCarrier.read
  split
  · exact RCarrier.deflt_spec c req
  · simp
  · refine ⟨rfl, ?_, by simp⟩
    intro n hn
    simp only [RAns.ready.injEq] at hn
    subst hn
    simp
  · simp
  · rename_i k r _
    have := RCarrier.deflt_spec { c with script := r } (min req k)
    refine ⟨this.1, ?_, this.2.2⟩
    intro n hn
    have := this.2.1 n hn
    exact ⟨Nat.le_trans this.1 (Nat.min_le_left _ _), this.2⟩

theorem RInv.congr (P : Params) (s : ReadSock C) (c c' : RCarrier C) (h : RInv P s c)
    (h1 : c'.str = c.str) (h2 : c'.cpos = c.cpos) : RInv P s c' :=
  ⟨h.size, h.canon, by rw [h2]; exact h.nread_le, by rw [h1, h2]; exact h.cpos_le,
    by rw [h1, h2]; exact h.window, h.off_le, h.cur_lt, h.room, h.st⟩

theorem readDataStep_inv (P : Params) (w : WireOps C) (s : ReadSock C) (c : RCarrier C)
    (h : RInv P s c) (m : Nat) (hst : s.st = .readData m) :
    (readDataStep w s c m).2.1.str = c.str ∧ (readDataStep w s c m).1.nonce = s.nonce ∧
    match (readDataStep w s c m).2.2 with
    | none => RInv P (readDataStep w s c m).1 (readDataStep w s c m).2.1 ∧
        (readDataStep w s c m).1.st = .readFrameLen ∧ c.cpos < (readDataStep w s c m).2.1.cpos
    | some .pending => RInv P (readDataStep w s c m).1 (readDataStep w s c m).2.1 ∧
        (readDataStep w s c m).1.st = s.st
    | some (.err .eof) => True
    | some (.err .carrier) => True
    | _ => False := by
  have hsti := h.st
  simp only [StInv, hst] at hsti
  obtain ⟨hlt, hmb, hdec, hmr⟩ := hsti
  unfold readDataStep
  rw [if_neg (by omega)]
  have hr := RCarrier.read_spec c (m - s.nread)
  rcases hcr : c.read (m - s.nread) with ⟨c', a⟩
  rw [hcr] at hr
  obtain ⟨r1, r2, r3⟩ := hr
  simp only [] at r1 r2 r3
  cases a with
  | pending =>
    simp only []
    exact ⟨r1, by t, RInv.congr P s c c' h r1 (r3 (Or.inl rfl)), by t⟩
  | err => simp only []; exact ⟨r1, by t, trivial⟩
  | ready n =>
    simp only []
    by_cases hn : n = 0
    · rw [if_pos hn]; exact ⟨r1, by t, trivial⟩
    · rw [if_neg hn]
      simp only []
      obtain ⟨rn, rc, rs⟩ := r2 n rfl
      have rs := rs h.cpos_le
      refine ⟨r1, by t, ?_, by t, by omega⟩
      have hnl := h.nread_le
      refine ⟨by simp [blit_size, h.size], h.canon, by show s.nread + n ≤ c'.cpos; omega,
        by rw [r1]; omega, ?_, by show s.offset ≤ s.nread + n; have := h.off_le; omega, h.cur_lt, ?_, ?_⟩
      · intro j hj
        have hj : j < s.nread + n := hj
        show (blit (w.ofByte 0) s.buf s.nread c.str c.cpos n)[j]? = c'.str[c'.cpos - (s.nread + n) + j]?
        rw [blit_getElem? _ _ _ _ _ _ _ rs, r1, rc]
        by_cases hjn : j < s.nread
        · rw [if_neg (by omega), h.window j hjn]
          congr 1; omega
        · rw [if_pos (by omega)]
          congr 1; omega
      · show s.nread + n ≤ s.canon ∨ _
        simp only [pendSize]
        rcases hmr with hm | hm
        · left; omega
        · right
          show s.nread + n ≤ s.offset + s.cur.getD 0 ∧ s.offset + s.cur.getD 0 ≤ _
          simp only [blit_size]; omega
      · simp only [StInv]; exact hdec

/-- What one loop iteration guarantees. -/
def IterPost (P : Params) (frames : List Chunk) (k outLen : Nat) (s' : ReadSock C) (c' : RCarrier C) :
    Option ROut → Prop
  | none => RInv P s' c' ∧ SInv frames s' outLen
  | some (.ok n pos) => pos = outLen ∧ n ≤ k ∧ (0 < k → 0 < n) ∧ RInv P s' c' ∧ SInv frames s' (outLen + n)
  | some .pending => RInv P s' c' ∧ SInv frames s' outLen
  | some (.err _) => True
  | some (.panic _) => False
  | some .diverged => False

/-- Termination measure of the `poll_read` loop. -/
def rmeasure (s : ReadSock C) (c : RCarrier C) : Nat :=
  2 * (c.str.size - c.cpos) + (match s.st with | .readFrameLen => 1 | _ => 0)

theorem SInv_eq (frames : List Chunk) (s : ReadSock C) (outLen : Nat)
    (hs : ∀ ch a b d, s.st ≠ .process (some ch) a b d) :
    SInv frames s outLen ↔ (s.nonce ≤ frames.length ∧ outLen = startOf frames s.nonce) := by
  unfold SInv
  split
  · rename_i ch a b d e; exact absurd e (hs ch a b d)
  · exact Iff.rfl

theorem SInv_of_not_partial (frames : List Chunk) (s s' : ReadSock C) (outLen : Nat)
    (h : SInv frames s outLen) (hs : ∀ ch a b d, s.st ≠ .process (some ch) a b d)
    (hs' : ∀ ch a b d, s'.st ≠ .process (some ch) a b d) (hn : s'.nonce = s.nonce) : SInv frames s' outLen := by
  rw [SInv_eq frames s' outLen hs', hn]
  exact (SInv_eq frames s outLen hs).1 h

theorem readIter_inv (P : Params) (w : WireOps C) (hl : WireLaws P w) (hc : RConsts P) (B : Nat)
    (frames : List Chunk) (hfr : FramesFrom B 0 frames) (k : Nat) (s : ReadSock C) (c : RCarrier C)
    (h : RInv P s c) (outLen : Nat) (hs : SInv frames s outLen) (hauth : Authentic w frames c.str.toList) :
    (readIter P w k s c).2.1.str = c.str ∧
    IterPost P frames k outLen (readIter P w k s c).1 (readIter P w k s c).2.1 (readIter P w k s c).2.2 ∧
    ((readIter P w k s c).2.2 = none → rmeasure (readIter P w k s c).1 (readIter P w k s c).2.1 < rmeasure s c) := by
  unfold readIter
  cases hst : s.st with
  | readData m =>
    simp only []
    obtain ⟨a1, a2, a3⟩ := readDataStep_inv P w s c h m hst
    refine ⟨a1, ?_, ?_⟩
    · rcases hrd : readDataStep w s c m with ⟨s', c', o⟩
      rw [hrd] at a1 a2 a3
      simp only [] at a1 a2 a3 ⊢
      have hsn : ∀ ch a b d, s.st ≠ .process (some ch) a b d := by simp [hst]
      match o, a3 with
      | none, a3 => exact ⟨a3.1, SInv_of_not_partial frames s s' outLen hs hsn (by simp [a3.2.1]) a2⟩
      | some .pending, a3 => exact ⟨a3.1, SInv_of_not_partial frames s s' outLen hs hsn (by rw [a3.2]; exact hsn) a2⟩
      | some (.err .eof), _ => trivial
      | some (.err .carrier), _ => trivial
    · intro hn
      rw [hn] at a3
      simp only [] at a3
      unfold rmeasure
      rw [a3.2.1, hst, a1]
      have := a3.1.cpos_le
      rw [a1] at this
      simp only []
      omega
  | readFrameLen =>
    simp only []
    obtain ⟨a1, a2, a3⟩ := frameLenStep_inv P w hc s c h hst
    rcases hfl : frameLenStep P w s with ⟨s', o⟩
    rw [hfl] at a1 a2 a3
    simp only [] at a1 a2 a3 ⊢
    have hsn : ∀ ch a b d, s.st ≠ .process (some ch) a b d := by simp [hst]
    refine ⟨trivial, ?_, ?_⟩
    · match o, a3 with
      | none, a3 => exact ⟨a3, SInv_of_not_partial frames s s' outLen hs hsn a2 a1⟩
      | some (.err .invalidData), _ => trivial
    · intro hn
      subst hn
      simp only [] at a3
      unfold rmeasure
      rw [hst]
      have : s'.st ≠ .readFrameLen := by
        have := frameLenStep_st P w s (by rw [hfl])
        rw [hfl] at this; exact this
      split
      · rename_i e; exact absurd e this
      · omega
  | process pending off size fsz =>
    simp only []
    have a := processStep_inv P w hl hc B frames hfr k s c h pending off size fsz hst outLen hs hauth
    rcases hps : processStep P w k s pending off size fsz with ⟨s', o⟩
    rw [hps] at a
    simp only [] at a ⊢
    refine ⟨trivial, ?_, by simp⟩
    match o, a with
    | .ok n pos, a => exact a
    | .err .invalidData, _ => trivial

variable {C : Type}

/-- What a whole `poll_read` guarantees. -/
def PollPost (P : Params) (frames : List Chunk) (k outLen : Nat) (s' : ReadSock C) (c' : RCarrier C) :
    ROut → Prop
  | .ok n pos => pos = outLen ∧ n ≤ k ∧ (0 < k → 0 < n) ∧ RInv P s' c' ∧ SInv frames s' (outLen + n)
  | .pending => RInv P s' c' ∧ SInv frames s' outLen
  | .err _ => True
  | .panic _ => False
  | .diverged => False

theorem readLoop_inv (P : Params) (w : WireOps C) (hl : WireLaws P w) (hc : RConsts P) (B : Nat)
    (frames : List Chunk) (hfr : FramesFrom B 0 frames) (k : Nat) (fuel : Nat) (s : ReadSock C) (c : RCarrier C)
    (h : RInv P s c) (outLen : Nat) (hs : SInv frames s outLen) (hauth : Authentic w frames c.str.toList)
    (hfuel : rmeasure s c < fuel) :
    (readLoop P w k fuel s c).2.1.str = c.str ∧
    PollPost P frames k outLen (readLoop P w k fuel s c).1 (readLoop P w k fuel s c).2.1 (readLoop P w k fuel s c).2.2 := by
  induction fuel generalizing s c with
  | zero => omega
  | succ fuel ih =>
    unfold readLoop
    obtain ⟨a1, a2, a3⟩ := readIter_inv P w hl hc B frames hfr k s c h outLen hs hauth
    rcases hri : readIter P w k s c with ⟨s', c', o⟩
    rw [hri] at a1 a2 a3
    simp only [] at a1 a2 a3
    cases o with
    | none =>
      simp only []
      simp only [IterPost] at a2
      have := a3 rfl
      obtain ⟨b1, b2⟩ := ih s' c' a2.1 a2.2 (by rw [a1]; exact hauth) (by omega)
      exact ⟨by rw [b1, a1], b2⟩
    | some o =>
      simp only []
      refine ⟨a1, ?_⟩
      cases o <;> simpa [IterPost, PollPost] using a2

theorem rmeasure_lt_fuel (s : ReadSock C) (c : RCarrier C) : rmeasure s c < readFuel c := by
  unfold rmeasure readFuel
  split <;> omega

/-- `poll_read` from a state satisfying the invariants. -/
theorem pollRead_inv (P : Params) (w : WireOps C) (hl : WireLaws P w) (hc : RConsts P) (B : Nat)
    (frames : List Chunk) (hfr : FramesFrom B 0 frames) (k : Nat) (s : ReadSock C) (c : RCarrier C)
    (h : RInv P s c) (outLen : Nat) (hs : SInv frames s outLen) (hauth : Authentic w frames c.str.toList) :
    (pollRead P w k s c).2.1.str = c.str ∧
    PollPost P frames k outLen (pollRead P w k s c).1 (pollRead P w k s c).2.1 (pollRead P w k s c).2.2 :=
  readLoop_inv P w hl hc B frames hfr k _ s c h outLen hs hauth (rmeasure_lt_fuel s c)

/-! ## Runs -/

/-- What happens around the reader: it is polled with a buffer of `k` bytes, the carrier gets more
data, its script is extended, or it is closed. -/
inductive REvent (C : Type) where
  | poll (k : Nat)
  | deliver (data : List C)
  | script (hs : List RHint)
  | close

def applyEnv (c : RCarrier C) : REvent C → RCarrier C
  | .deliver d => { c with str := c.str ++ d.toArray }
  | .script hs => { c with script := c.script ++ hs }
  | .close => { c with closed := true }
  | .poll _ => c

/-- Outputs of the polls of a run; the run ends at the first error (a caller stops there). -/
def runReader (P : Params) (w : WireOps C) : ReadSock C → RCarrier C → List (REvent C) → List ROut
  | _, _, [] => []
  | s, c, .poll k :: es =>
    match pollRead P w k s c with
    | (s', c', .ok n pos) => .ok n pos :: runReader P w s' c' es
    | (s', c', .pending) => .pending :: runReader P w s' c' es
    | (_, _, o) => [o]
  | s, c, .deliver d :: es => runReader P w s (applyEnv c (.deliver d)) es
  | s, c, .script hs :: es => runReader P w s (applyEnv c (.script hs)) es
  | s, c, .close :: es => runReader P w s (applyEnv c .close) es

/-- Stream positions handed to the caller, in order. -/
def outBytes : List ROut → List Nat
  | [] => []
  | .ok n pos :: r => List.range' pos n ++ outBytes r
  | _ :: r => outBytes r

/-- Everything the carrier delivers during a run. -/
def delivered : List (REvent C) → List C
  | [] => []
  | .deliver d :: es => d ++ delivered es
  | _ :: es => delivered es

def NoPanic : List ROut → Prop
  | [] => True
  | .panic _ :: _ => False
  | .diverged :: _ => False
  | _ :: r => NoPanic r

theorem Authentic_prefix (w : WireOps C) (frames : List Chunk) (a b : List C)
    (h : Authentic w frames (a ++ b)) : Authentic w frames a := by
  intro n i len p hi hd
  apply h n i len p (by simp; omega)
  rw [List.drop_append_of_le_length (by omega), List.take_append_of_le_length (by simp; omega)]
  exact hd

theorem RInv_deliver (P : Params) (s : ReadSock C) (c : RCarrier C) (d : List C) (h : RInv P s c) :
    RInv P s (applyEnv c (.deliver d)) := by
  refine ⟨h.size, h.canon, h.nread_le, ?_, ?_, h.off_le, h.cur_lt, h.room, h.st⟩
  · show c.cpos ≤ (c.str ++ d.toArray).size
    have := h.cpos_le; simp; omega
  · intro j hj
    show s.buf[j]? = (c.str ++ d.toArray)[c.cpos - s.nread + j]?
    have := h.cpos_le; have := h.nread_le
    rw [Array.getElem?_append, if_pos (by omega)]
    exact h.window j hj

theorem runReader_inv (P : Params) (w : WireOps C) (hl : WireLaws P w) (hc : RConsts P) (B : Nat)
    (frames : List Chunk) (hfr : FramesFrom B 0 frames) (es : List (REvent C)) (s : ReadSock C) (c : RCarrier C)
    (h : RInv P s c) (outLen : Nat) (hs : SInv frames s outLen)
    (hauth : Authentic w frames (c.str.toList ++ delivered es)) (hol : outLen ≤ plen frames) :
    NoPanic (runReader P w s c es) ∧
    ∃ m, outBytes (runReader P w s c es) = List.range' outLen m ∧ outLen + m ≤ plen frames := by
  induction es generalizing s c outLen with
  | nil => exact ⟨trivial, 0, rfl, hol⟩
  | cons e es ih =>
    cases e with
    | poll k =>
      simp only [runReader]
      have ha : Authentic w frames c.str.toList := Authentic_prefix w frames _ _ hauth
      obtain ⟨p1, p2⟩ := pollRead_inv P w hl hc B frames hfr k s c h outLen hs ha
      rcases hp : pollRead P w k s c with ⟨s', c', o⟩
      rw [hp] at p1 p2
      simp only [] at p1 p2
      cases o with
      | ok n pos =>
        simp only [PollPost] at p2
        obtain ⟨q1, q2, q3, q4, q5⟩ := p2
        have hol' : outLen + n ≤ plen frames := by
          unfold SInv at q5
          split at q5
          · rename_i ch off _ _ _
            obtain ⟨fa, fb, fc, fd⟩ := framesFrom_get hfr q5.2.1
            have := startOf_le frames (s'.nonce - 1 + 1)
            have hq := q4.st
            rename_i e
            simp only [StInv, e] at hq
            unfold startOf at this
            rw [fb] at this
            omega
          · rw [q5.2]; exact startOf_le _ _
        obtain ⟨i1, m, i2, i3⟩ := ih s' c' q4 (outLen + n) q5 (by rw [p1]; exact hauth) hol'
        subst q1
        refine ⟨i1, n + m, ?_, by omega⟩
        simp only [outBytes, i2]
        rw [← List.range'_append_1]
      | pending =>
        simp only [PollPost] at p2
        obtain ⟨i1, m, i2, i3⟩ := ih s' c' p2.1 outLen p2.2 (by rw [p1]; exact hauth) hol
        exact ⟨i1, m, i2, i3⟩
      | err e => exact ⟨trivial, 0, rfl, hol⟩
      | panic m => exact absurd p2 (by simp [PollPost])
      | diverged => exact absurd p2 (by simp [PollPost])
    | deliver d =>
      simp only [runReader]
      apply ih s _ (RInv_deliver P s c d h) outLen hs _ hol
      simpa [applyEnv, delivered] using hauth
    | script hs' =>
      simp only [runReader]
      exact ih s (applyEnv c (.script hs')) (RInv.congr P s c _ h rfl rfl) outLen hs
        (by simpa [applyEnv, delivered] using hauth) hol
    | close =>
      simp only [runReader]
      exact ih s (applyEnv c .close) (RInv.congr P s c _ h rfl rfl) outLen hs
        (by simpa [applyEnv, delivered] using hauth) hol

variable {C : Type}

/-! ## Initial states, the term model's integrity, composition -/

theorem RInv_init (P : Params) (w : WireOps C) (hc : RConsts P) (c : RCarrier C) (h0 : c.cpos = 0) :
    RInv P (newReadSock P w) c := by
  have := canon_ge P hc
  have := bufSize_eq P
  refine ⟨by simp [newReadSock], rfl, Nat.zero_le _, by rw [h0]; exact Nat.zero_le _,
    fun j hj => absurd hj (Nat.not_lt_zero _), Nat.le_refl _, by simp [newReadSock], Or.inl (Nat.zero_le _), ?_⟩
  simp only [StInv, newReadSock, Array.size_replicate]
  refine ⟨by omega, by omega, trivial, Or.inl (Nat.le_refl _)⟩

theorem SInv_init (P : Params) (w : WireOps C) (frames : List Chunk) : SInv frames (newReadSock P w) 0 := by
  simp [SInv, newReadSock, startOf, plen]

theorem WSInv_init (P : Params) (w : WireOps C) : WSInv P w (newWriteSock P w) ⟨#[], []⟩ [] 0 :=
  ⟨⟨by simp [newWriteSock], trivial⟩, trivial, rfl, rfl, by simp [wtail, newWriteSock, wireOf]⟩

/-- In the term model every stream whose ciphertext cells all stem from the writer's frames is
authentic — whatever was cut, moved, repeated or overwritten with other bytes. -/
theorem Authentic_term (T : Nat) (hT : 1 ≤ T) (frames : List Chunk) (str : List TCell)
    (h : ∀ n s l i, TCell.ct n s l i ∈ str → frames[n]? = some ⟨s, l⟩) :
    Authentic (termWire T) frames str := by
  intro n i len p _ hd
  have he : (str.drop i).take len = termEnc T n p := (termDec_iff T hT n _ p).1 hd
  obtain ⟨tl, htl⟩ := termEnc_head T n p hT
  have hm : TCell.ct n p.start p.len 0 ∈ (str.drop i).take len := by rw [he, htl]; exact List.mem_cons_self ..
  have := h n p.start p.len 0 (List.mem_of_mem_drop (List.mem_of_mem_take hm))
  simpa using this

theorem mem_wireOf_term (T n : Nat) (frames : List Chunk) (m s l i : Nat)
    (h : TCell.ct m s l i ∈ wireOf (termWire T) T n frames) : n ≤ m ∧ frames[m - n]? = some ⟨s, l⟩ := by
  induction frames generalizing n with
  | nil => simp [wireOf] at h
  | cons x xs ih =>
    simp only [wireOf, frameBytes, List.mem_append, List.mem_cons] at h
    rcases h with (h | h | h) | h
    · cases h
    · cases h
    · simp only [termWire, termEnc, List.mem_map, List.mem_range] at h
      obtain ⟨j, _, hj⟩ := h
      injection hj with a b c d
      subst a b c
      simp
    · obtain ⟨a, b⟩ := ih (n + 1) h
      refine ⟨by omega, ?_⟩
      have : m - n = (m - (n + 1)) + 1 := by omega
      rw [this]; simpa using b

/-- The honest wire is authentic in the term model. -/
theorem Authentic_term_honest (T : Nat) (hT : 1 ≤ T) (frames : List Chunk) :
    Authentic (termWire T) frames (wireOf (termWire T) T 0 frames) :=
  Authentic_term T hT frames _ (fun n s l i h => by simpa using (mem_wireOf_term T 0 frames n s l i h).2)

end Litep2pVerif.Noise.Transport
