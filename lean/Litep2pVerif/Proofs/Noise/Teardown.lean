import Litep2pVerif.Proofs.Noise.Transport
/-!
# Teardown of the Noise writer: the complete `poll_flush` and `poll_close`

`pollFlushE` = drain the encrypt buffer, then the inner `poll_flush`; `pollCloseE` = `ready!(poll_flush)?`, then the
inner `poll_close`. Facts proved here, for every reachable writer state (`WSInv`) and every schedule of carrier
answers (the three scripts of `WEnv`):

* `Ready(Ok)` of either call means the carrier holds the complete wire image of everything `poll_write` accepted;
  the carrier's write half is closed only by a `poll_close` that returns `Ready(Ok)`;
* a `Pending` of either call stems from a `Pending` of the carrier (which registered the waker) and consumes a script
  entry, so `flush().await` / `close().await` return `Ok` after at most one poll per script entry plus one.
-/
namespace Litep2pVerif.Noise.Transport

variable {C : Type}

/-- Inner `poll_flush` / `poll_close` that never fail. -/
def GoodF (script : List FHint) : Prop := ∀ h ∈ script, h = FHint.pend

/-- A carrier that never fails: partial writes and `Pending`s only. -/
structure GoodWEnv (e : WEnv C) : Prop where
  w : NoFault e.wc.script
  f : GoodF e.fscript
  c : GoodF e.cscript

/-- Number of scripted carrier answers still to come. -/
def WEnv.todo (e : WEnv C) : Nat := e.wc.script.length + e.fscript.length + e.cscript.length

theorem GoodF_tail {h : FHint} {r : List FHint} (g : GoodF (h :: r)) : GoodF r :=
  fun x hx => g x (List.mem_cons_of_mem _ hx)

theorem WCarrier.write_script (c : WCarrier C) (ebuf : Array C) (lo hi : Nat) :
    (c.write ebuf lo hi).1.script.length ≤ c.script.length ∧
    ((c.write ebuf lo hi).2 = .pending → (c.write ebuf lo hi).1.script.length < c.script.length) := by
  unfold WCarrier.write
  cases c.script with
  | nil => simp
  | cons hd tl => cases hd <;> simp

/-- The drain loop only consumes script entries, and a `blocked` result consumed a `Pending`. -/
theorem drain_script (fuel : Nat) (s : WriteSock C) (c : WCarrier C) :
    (drain fuel s c).2.1.script.length ≤ c.script.length ∧
    ((drain fuel s c).2.2 = .blocked → (drain fuel s c).2.1.script.length < c.script.length) := by
  induction fuel generalizing s c with
  | zero => simp [drain]
  | succ fuel ih =>
    unfold drain
    cases hst : s.st with
    | idle => simp
    | writing off len =>
      simp only []
      split
      · simp
      · have hw := WCarrier.write_script c s.ebuf off len
        rcases hcw : c.write s.ebuf off len with ⟨c', a⟩
        rw [hcw] at hw
        cases a with
        | pending => exact ⟨hw.1, fun _ => hw.2 rfl⟩
        | err => exact ⟨hw.1, by simp⟩
        | accepted n =>
          simp only []
          split
          · exact ⟨hw.1, by simp⟩
          · split
            · exact ⟨hw.1, by simp⟩
            · have := ih { s with st := .writing (off + n) len } c'
              exact ⟨Nat.le_trans this.1 hw.1, fun hb => Nat.lt_of_lt_of_le (this.2 hb) hw.1⟩

theorem pollFlush_script (s : WriteSock C) (c : WCarrier C) :
    (pollFlush s c).2.1.script.length ≤ c.script.length ∧
    ((pollFlush s c).2.2 = .pending →
      (drain (drainFuel s) s c).2.2 = .blocked ∧ (pollFlush s c).2.1.script.length < c.script.length) := by
  have hd := drain_script (drainFuel s) s c
  unfold pollFlush
  rcases h : drain (drainFuel s) s c with ⟨s', c', o⟩
  rw [h] at hd
  cases o with
  | idle => exact ⟨hd.1, by simp⟩
  | blocked => exact ⟨hd.1, fun _ => ⟨rfl, hd.2 rfl⟩⟩
  | err e => exact ⟨hd.1, by simp⟩
  | panic m => exact ⟨hd.1, by simp⟩

theorem pollFlush_ok_idle (P : Params) (s : WriteSock C) (c : WCarrier C) (hinv : WInv P s) (k : Nat)
    (h : (pollFlush s c).2.2 = .ok k) : (pollFlush s c).1.st = .idle := by
  have hd := (drain_spec P (drainFuel s) s c hinv (Nat.le_refl _)).2.2.2.2.2.1
  unfold pollFlush at h ⊢
  rcases hh : drain (drainFuel s) s c with ⟨s', c', o⟩
  rw [hh] at h hd
  cases o with
  | idle => exact hd rfl
  | blocked => simp at h
  | err e => simp at h
  | panic m => simp at h

/-- One complete `poll_flush`. -/
structure FlushPost (P : Params) (w : WireOps C) (s : WriteSock C) (e : WEnv C) (frames : List Chunk) (wpos : Nat)
    (r : WriteSock C × WEnv C × WOut) : Prop where
  nopanic : ∀ m, r.2.2 ≠ .panic m
  keep : (∀ x, r.2.2 ≠ .err x) → WSInv P w r.1 r.2.1.wc frames wpos
  closed : r.2.1.closed = e.closed
  cscript : r.2.1.cscript = e.cscript
  ok : ∀ k, r.2.2 = .ok k →
    r.2.1.wc.out.toList = wireOf w P.T 0 frames ∧ r.1.st = .idle ∧ r.2.1.flushed = r.2.1.wc.out.size
  pend : r.2.2 = .pending →
    ((drain (drainFuel s) s e.wc).2.2 = .blocked ∨ e.fscript.head? = some .pend) ∧ r.2.1.todo < e.todo
  le : r.2.1.todo ≤ e.todo
  good : GoodWEnv e → GoodWEnv r.2.1 ∧ ∀ x, r.2.2 ≠ .err x

theorem pollFlushE_spec (P : Params) (w : WireOps C) (s : WriteSock C) (e : WEnv C)
    (frames : List Chunk) (wpos : Nat) (h : WSInv P w s e.wc frames wpos) :
    FlushPost P w s e frames wpos (pollFlushE s e) := by
  obtain ⟨f1, f2, f3, f4⟩ := pollFlush_spec P w s e.wc frames wpos h
  have fs := pollFlush_script s e.wc
  have fi := pollFlush_ok_idle P s e.wc h.inv
  unfold pollFlushE
  rcases hp : pollFlush s e.wc with ⟨s', c', o⟩
  rw [hp] at f1 f2 f3 f4 fs fi
  simp only [] at f1 f2 f3 f4 fs fi
  have fle := fs.1
  cases o with
  | ok k =>
    have hk : WSInv P w s' c' frames wpos := f3 (by simp)
    simp only []
    cases hfs : e.fscript with
    | nil =>
      refine ⟨by simp, fun _ => hk, rfl, rfl, fun _ _ => ⟨f4 k rfl, fi k rfl, rfl⟩, by simp, ?_, fun g => ?_⟩
      · simp only [WEnv.todo, hfs]; omega
      · exact ⟨⟨(f2 g.w).1, by simp [GoodF], g.c⟩, by simp⟩
    | cons hd tl =>
      cases hd with
      | pend =>
        refine ⟨by simp, fun _ => hk, rfl, rfl, by simp, fun _ => ⟨Or.inr (by rw [hfs]; rfl), ?_⟩, ?_, fun g => ?_⟩
        · simp only [WEnv.todo, hfs, List.length_cons]; omega
        · simp only [WEnv.todo, hfs, List.length_cons]; omega
        · exact ⟨⟨(f2 g.w).1, GoodF_tail (by have := g.f; rwa [hfs] at this), g.c⟩, by simp⟩
      | err =>
        refine ⟨by simp, fun hh => absurd rfl (hh _), rfl, rfl, by simp, by simp, ?_, fun g => ?_⟩
        · simp only [WEnv.todo, hfs, List.length_cons]; omega
        · have := g.f .err (by rw [hfs]; exact List.mem_cons_self ..)
          cases this
  | pending =>
    refine ⟨by simp, fun _ => f3 (by simp), rfl, rfl, by simp, fun _ => ⟨Or.inl (fs.2 rfl).1, ?_⟩, ?_, fun g => ?_⟩
    · simp only [WEnv.todo]; have := (fs.2 rfl).2; omega
    · simp only [WEnv.todo]; omega
    · exact ⟨⟨(f2 g.w).1, g.f, g.c⟩, by simp⟩
  | err x =>
    refine ⟨by simp, fun hh => absurd rfl (hh x), rfl, rfl, by simp, by simp, ?_, fun g => ?_⟩
    · simp only [WEnv.todo]; omega
    · exact absurd rfl ((f2 g.w).2 x)
  | panic m => exact absurd rfl (f1 m)

/-- One `poll_close`. -/
structure ClosePost (P : Params) (w : WireOps C) (s : WriteSock C) (e : WEnv C) (frames : List Chunk) (wpos : Nat)
    (r : WriteSock C × WEnv C × WOut) : Prop where
  nopanic : ∀ m, r.2.2 ≠ .panic m
  keep : (∀ x, r.2.2 ≠ .err x) → WSInv P w r.1 r.2.1.wc frames wpos
  /-- the write half of the carrier is closed by this call only if the call returns `Ready(Ok)` -/
  closed : e.closed = false → r.2.1.closed = true → ∃ k, r.2.2 = .ok k
  ok : ∀ k, r.2.2 = .ok k →
    r.2.1.wc.out.toList = wireOf w P.T 0 frames ∧ r.1.st = .idle ∧ r.2.1.flushed = r.2.1.wc.out.size ∧
    r.2.1.closed = true
  pend : r.2.2 = .pending →
    ((drain (drainFuel s) s e.wc).2.2 = .blocked ∨ e.fscript.head? = some .pend ∨ e.cscript.head? = some .pend) ∧
    r.2.1.todo < e.todo
  le : r.2.1.todo ≤ e.todo
  good : GoodWEnv e → GoodWEnv r.2.1 ∧ ∀ x, r.2.2 ≠ .err x

theorem pollCloseE_spec (P : Params) (w : WireOps C) (s : WriteSock C) (e : WEnv C)
    (frames : List Chunk) (wpos : Nat) (h : WSInv P w s e.wc frames wpos) :
    ClosePost P w s e frames wpos (pollCloseE s e) := by
  have fp := pollFlushE_spec P w s e frames wpos h
  unfold pollCloseE
  rcases hp : pollFlushE s e with ⟨s', e', o⟩
  rw [hp] at fp
  obtain ⟨p1, p2, p3, p4, p5, p6, ple, p7⟩ := fp
  simp only [] at p1 p2 p3 p4 p5 p6 ple p7
  have hstay : e.closed = false → e'.closed = true → False := by
    intro h0 h1; rw [p3, h0] at h1; cases h1
  cases o with
  | ok k =>
    have hk : WSInv P w s' e'.wc frames wpos := p2 (by simp)
    obtain ⟨o1, o2, o3⟩ := p5 k rfl
    simp only []
    cases hcs : e'.cscript with
    | nil =>
      refine ⟨by simp, fun _ => hk, fun _ _ => ⟨0, rfl⟩, fun _ _ => ⟨o1, o2, rfl, rfl⟩, by simp, ?_, fun g => ?_⟩
      · simp only [WEnv.todo, hcs] at ple ⊢; omega
      · have g' := p7 g
        exact ⟨⟨g'.1.w, g'.1.f, by simp [GoodF]⟩, by simp⟩
    | cons hd tl =>
      have hce : e.cscript = hd :: tl := by rw [← p4, hcs]
      cases hd with
      | pend =>
        refine ⟨by simp, fun _ => hk, fun h0 h1 => (hstay h0 h1).elim, by simp,
          fun _ => ⟨Or.inr (Or.inr (by rw [hce]; rfl)), ?_⟩, ?_, fun g => ?_⟩
        · simp only [WEnv.todo, hcs, List.length_cons] at ple ⊢; omega
        · simp only [WEnv.todo, hcs, List.length_cons] at ple ⊢; omega
        · have g' := p7 g
          exact ⟨⟨g'.1.w, g'.1.f, GoodF_tail (by have := g'.1.c; rwa [hcs] at this)⟩, by simp⟩
      | err =>
        refine ⟨by simp, fun hh => absurd rfl (hh _), fun h0 h1 => (hstay h0 h1).elim, by simp, by simp, ?_,
          fun g => ?_⟩
        · simp only [WEnv.todo, hcs, List.length_cons] at ple ⊢; omega
        · have := (p7 g).1.c .err (by rw [hcs]; exact List.mem_cons_self ..)
          cases this
  | pending =>
    refine ⟨by simp, fun _ => p2 (by simp), fun h0 h1 => (hstay h0 h1).elim, by simp, fun _ => ⟨?_, (p6 rfl).2⟩,
      ple, fun g => p7 g⟩
    rcases (p6 rfl).1 with a | a
    · exact Or.inl a
    · exact Or.inr (Or.inl a)
  | err x =>
    exact ⟨by simp, fun hh => absurd rfl (hh x), fun h0 h1 => (hstay h0 h1).elim, by simp, by simp, ple,
      fun g => p7 g⟩
  | panic m => exact absurd rfl (p1 m)

/-- `flush().await`: whatever the number of polls, `Ok` means everything is with the carrier; with a carrier that
never fails, one poll per scripted answer plus one suffices. -/
theorem flushRun_spec (P : Params) (w : WireOps C) (frames : List Chunk) (wpos : Nat) (n : Nat)
    (s : WriteSock C) (e : WEnv C) (h : WSInv P w s e.wc frames wpos) :
    (∀ m, (flushRun n s e).2.2 ≠ .panic m) ∧
    (∀ k, (flushRun n s e).2.2 = .ok k →
      (flushRun n s e).2.1.wc.out.toList = wireOf w P.T 0 frames ∧ (flushRun n s e).1.st = .idle ∧
      (flushRun n s e).2.1.flushed = (flushRun n s e).2.1.wc.out.size) ∧
    (GoodWEnv e → e.todo < n → ∃ k, (flushRun n s e).2.2 = .ok k) := by
  induction n generalizing s e with
  | zero => exact ⟨by simp [flushRun], by simp [flushRun], fun _ hn => absurd hn (Nat.not_lt_zero _)⟩
  | succ n ih =>
    have fp := pollFlushE_spec P w s e frames wpos h
    unfold flushRun
    rcases hp : pollFlushE s e with ⟨s', e', o⟩
    rw [hp] at fp
    cases o with
    | pending =>
      have hk := fp.keep (by simp)
      have := ih s' e' hk
      refine ⟨this.1, this.2.1, fun g hn => this.2.2 (fp.good g).1 ?_⟩
      have := (fp.pend rfl).2
      simp only [] at this; omega
    | ok k => exact ⟨fp.nopanic, fp.ok, fun _ _ => ⟨k, rfl⟩⟩
    | err x => exact ⟨fp.nopanic, fp.ok, fun g _ => absurd rfl ((fp.good g).2 x)⟩
    | panic m => exact absurd rfl (fp.nopanic m)

/-- `close().await`. -/
theorem closeRun_spec (P : Params) (w : WireOps C) (frames : List Chunk) (wpos : Nat) (n : Nat)
    (s : WriteSock C) (e : WEnv C) (h : WSInv P w s e.wc frames wpos) (hopen : e.closed = false) :
    (∀ m, (closeRun n s e).2.2 ≠ .panic m) ∧
    ((closeRun n s e).2.1.closed = true → ∃ k, (closeRun n s e).2.2 = .ok k) ∧
    (∀ k, (closeRun n s e).2.2 = .ok k →
      (closeRun n s e).2.1.wc.out.toList = wireOf w P.T 0 frames ∧ (closeRun n s e).1.st = .idle ∧
      (closeRun n s e).2.1.closed = true) ∧
    (GoodWEnv e → e.todo < n → ∃ k, (closeRun n s e).2.2 = .ok k) := by
  induction n generalizing s e with
  | zero =>
    refine ⟨by simp [closeRun], ?_, by simp [closeRun], fun _ hn => absurd hn (Nat.not_lt_zero _)⟩
    intro hc; simp only [closeRun] at hc; rw [hopen] at hc; cases hc
  | succ n ih =>
    have cp := pollCloseE_spec P w s e frames wpos h
    unfold closeRun
    rcases hp : pollCloseE s e with ⟨s', e', o⟩
    rw [hp] at cp
    have hcl : o ≠ .ok 0 → (∀ k, o ≠ .ok k) → e'.closed = false := by
      intro _ hno
      cases hc : e'.closed with
      | false => rfl
      | true =>
        obtain ⟨k, hk⟩ := cp.closed hopen hc
        exact absurd hk (hno k)
    cases o with
    | pending =>
      have hk := cp.keep (by simp)
      have := ih s' e' hk (hcl (by simp) (by simp))
      refine ⟨this.1, this.2.1, this.2.2.1, fun g hn => this.2.2.2 (cp.good g).1 ?_⟩
      have := (cp.pend rfl).2
      simp only [] at this; omega
    | ok k =>
      exact ⟨cp.nopanic, fun _ => ⟨k, rfl⟩, fun k hk => ⟨(cp.ok k hk).1, (cp.ok k hk).2.1, (cp.ok k hk).2.2.2⟩,
        fun _ _ => ⟨k, rfl⟩⟩
    | err x =>
      refine ⟨cp.nopanic, ?_, by simp, fun g _ => absurd rfl ((cp.good g).2 x)⟩
      intro hc
      have := hcl (by simp) (by simp)
      simp only [] at hc; rw [this] at hc; cases hc
    | panic m => exact absurd rfl (cp.nopanic m)

/-! ## `poll_write`: a `Pending` is a `Pending` of the carrier -/

/-- Once something has been buffered, the chunk loop reports `Ok`, never `Pending`. -/
theorem encLoop_total_pos (P : Params) (w : WireOps C) (fuel : Nat) (s : WriteSock C) (pos rem bo total : Nat)
    (ht : 0 < total) : (encLoop P w fuel s pos rem bo total).2 ≠ .pending := by
  induction fuel generalizing s pos rem bo total with
  | zero =>
    have := (finishWrite_spec s bo total).2.2
    rw [if_neg (by omega)] at this
    simp only [encLoop]; rw [this.1]; simp
  | succ fuel ih =>
    have hf := (finishWrite_spec s bo total).2.2
    rw [if_neg (by omega)] at hf
    unfold encLoop
    split
    · rw [hf.1]; simp
    · split
      · rw [hf.1]; simp
      · split
        · simp
        · exact ih _ _ _ _ _ (by omega)

/-- `Pending` out of the chunk loop: nothing was buffered because the first chunk does not fit. -/
theorem encLoop_pending (P : Params) (w : WireOps C) (fuel : Nat) (s : WriteSock C) (pos rem bo total : Nat)
    (hfuel : rem ≤ fuel) (hm : 1 ≤ P.MAXF) (h : (encLoop P w fuel s pos rem bo total).2 = .pending) :
    rem = 0 ∨ bo + min rem P.MAXF + (2 + P.TAG) > s.ebuf.size := by
  cases fuel with
  | zero => left; omega
  | succ fuel =>
    unfold encLoop at h
    by_cases hrem : rem = 0
    · exact Or.inl hrem
    · rw [if_neg hrem] at h
      by_cases hfit : bo + min rem P.MAXF + (2 + P.TAG) > s.ebuf.size
      · exact Or.inr hfit
      · rw [if_neg hfit] at h
        exfalso
        split at h
        · simp at h
        · exact encLoop_total_pos P w fuel _ _ _ _ _ (by omega) h

/-- **A `Pending` of `poll_write` is a `Pending` of the carrier.** With room for at least one frame (`W ≥ 1`),
`poll_write` answers `Pending` only if the encrypt buffer could not be drained because the inner `poll_write`
answered `Pending` in this very call (which registered the waker). -/
theorem pollWrite_pending_blocked (P : Params) (w : WireOps C) (hc : WConsts P) (hW : 1 ≤ P.W)
    (s : WriteSock C) (c : WCarrier C) (pos n : Nat) (hinv : WInv P s)
    (h : (pollWrite P w s c pos n).2.2 = .pending) : (drain (drainFuel s) s c).2.2 = .blocked := by
  obtain ⟨d1, d2, _, _, _, d6, _, _⟩ := drain_spec P (drainFuel s) s c hinv (Nat.le_refl _)
  unfold pollWrite at h
  rcases hd : drain (drainFuel s) s c with ⟨s', c', o⟩
  rw [hd] at h d1 d2 d6
  simp only [] at h d1 d2 d6
  cases o with
  | blocked => rfl
  | err e => simp at h
  | panic m => simp at h
  | idle =>
    exfalso
    simp only [] at h
    have hidle := d6 rfl
    unfold encryptStep at h
    by_cases hn : n = 0
    · simp [hn] at h
    · rw [if_neg hn, if_neg (by have := hc.maxf; omega)] at h
      have hb : bufferOffset s' = 0 := by simp [bufferOffset, hidle]
      rw [hb] at h
      rcases encLoop_pending P w n s' pos n 0 0 (Nat.le_refl _) hc.maxf h with h0 | h0
      · exact hn h0
      · have hsz : s'.ebuf.size = P.encSize := d1.1
        have hmf := hc.maxf
        have : P.M + 2 ≤ P.W * (P.M + 2) := Nat.le_mul_of_pos_left _ hW
        simp only [Params.encSize, Params.MAXF] at hsz hmf h0 ⊢
        have : min n (P.M - P.TAG) ≤ P.M - P.TAG := Nat.min_le_right _ _
        omega

end Litep2pVerif.Noise.Transport
