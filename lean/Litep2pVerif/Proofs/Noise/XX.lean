import Litep2pVerif.Proofs.Noise.Identity
import Litep2pVerif.Model.Noise.XX
/-! Helper lemmas for C01 (symbolic XX model): honest run, inversion of the read operations, agreement. -/
namespace Litep2pVerif.Noise.XX
open Litep2pVerif Litep2pVerif.Wire Litep2pVerif.Id Litep2pVerif.Noise.Identity

theorem dh_pub (g : DH) (hg : g.Laws) (a b : Nat) : dh g a (.bytes (g.pubB b)) = .dhs (min a b) (max a b) := by
  simp [dh, hg.sec_pub]

theorem dh_comm (g : DH) (hg : g.Laws) (a b : Nat) : dh g a (.bytes (g.pubB b)) = dh g b (.bytes (g.pubB a)) := by
  rw [dh_pub g hg, dh_pub g hg, Nat.min_comm, Nat.max_comm]

/-- The peer id of honest identity `k`. -/
def idOf (c : Crypto) (k : Nat) : PeerId := ⟨⟨IDENTITY_CODE, toU8 (keyEncoding (c.pubOf k))⟩⟩

theorem finish_honest (E : Env) (hc : Laws E.c) (hg : E.g.Laws) (p : Party) :
    ∃ pl, NoisePayload.decode (p.payload E) = some pl ∧
      finish E pl (.bytes (E.g.pubB p.s)) = .ok (idOf E.c p.id) (E.g.pubB p.s) := by
  have hkl : (keyEncoding (E.c.pubOf p.id)).length = 36 := by simp [keyEncoding, hc.pub_len]
  have hsl := hc.sig_len p.id (E.g.pubB p.s) (hg.pub_len _)
  have hd := decode_encodePayload (keyEncoding (E.c.pubOf p.id)) (E.c.sign p.id (STATIC_KEY_DOMAIN ++ E.g.pubB p.s)) (by omega) (by omega)
  have hkey := remotePublicKey_keyEncoding E.c.validPoint (E.c.pubOf p.id) (hc.pub_len _) (hc.pub_valid _)
  have hP := peerIdOfEncoding_inline E.c (keyEncoding (E.c.pubOf p.id)) (by rw [hkl]; decide)
  refine ⟨_, hd, ?_⟩
  simp [finish, termBytes, checkPayload, hkey, hP, hc.verify_sign, idOf]

/-- The network that delivers every message unchanged. -/
def honestNet : Attacker := scripted false .pass .pass .pass

theorem honest_accepts (E : Env) (hc : Laws E.c) (hg : E.g.Laws) (D L : Party) :
    run1 E D L honestNet =
      (.ok (idOf E.c L.id) (E.g.pubB L.s), .ok (idOf E.c D.id) (E.g.pubB D.s)) := by
  obtain ⟨plL, hdL, hfL⟩ := finish_honest E hc hg L
  obtain ⟨plD, hdD, hfD⟩ := finish_honest E hc hg D
  have hlen := hg.pub_len
  simp only [run1, honestNet, scripted, applyAct, stageL1, dWrite1, lRead1, takeField, T.size, hlen, restTerm, L1.msg?]
  simp [stageD2, stageL3, dRead2, lRead3, lWrite2, dWrite3, dWrite1, takeField, T.size, hlen, restTerm, bodySize,
    SS.init, SS.mixHash, SS.mixKey, SS.encryptAndHash, SS.decryptAndHash, D2.res, D2.msg?, L1.msg?,
    dh_comm E.g hg L.e D.e, dh_comm E.g hg L.s D.e, dh_comm E.g hg L.e D.s, termBytes, hdL, hdD, hfL, hfD, applyAct]

theorem takeField_inv {n : Nat} {body rest : List T} {f : T} (h : takeField n body = some (f, rest)) :
    (body = f :: rest ∧ f.size = n) ∨ (f = .junk 0 n ∧ rest = []) := by
  unfold takeField at h
  split at h
  · simp at h
  · rename_i f' r
    split at h
    · rename_i hs
      simp only [Option.some.injEq, Prod.mk.injEq] at h
      obtain ⟨rfl, rfl⟩ := h
      exact Or.inl ⟨rfl, hs⟩
    · split at h
      · simp at h
      · simp only [Option.some.injEq, Prod.mk.injEq] at h
        exact Or.inr ⟨h.1.symm, h.2.symm⟩

theorem restTerm_aead {b : List T} {k : T} {n : Nat} {ad p : T} (h : restTerm b = .aead k n ad p) :
    b = [.aead k n ad p] := by
  match b, h with
  | [], h => simp [restTerm] at h
  | [x], h => simp [restTerm] at h; simp [h]
  | x :: y :: r, h => simp [restTerm] at h

theorem restTerm_bytes_nil {b : List T} (h : restTerm b = .bytes []) : b = [] ∨ b = [.bytes []] := by
  match b, h with
  | [], _ => exact Or.inl rfl
  | [x], h => simp [restTerm] at h; simp [h]
  | x :: y :: r, h => simp [restTerm] at h

theorem decrypt_inv {s s' : SS} {k c p : T} (hk : s.k = some k) (h : s.decryptAndHash c = some (p, s')) :
    c = .aead k s.n s.h p ∧ s' = { s.mixHash c with n := s.n + 1 } := by
  unfold SS.decryptAndHash at h
  rw [hk] at h
  simp only at h
  split at h
  · rename_i k' n' ad' p'
    split at h
    · rename_i hc
      simp only [Option.some.injEq, Prod.mk.injEq] at h
      obtain ⟨rfl, rfl⟩ := h
      obtain ⟨rfl, rfl, rfl⟩ := hc
      exact ⟨rfl, rfl⟩
    · simp at h
  · simp at h

theorem lRead1_inv {ss ssL : SS} {x1 : List T} {reL : T} (h : lRead1 ss x1 = some (ssL, reL)) :
    ∃ rest, takeField 32 x1 = some (reL, rest) ∧ ssL = (ss.mixHash reL).mixHash (restTerm rest) := by
  unfold lRead1 at h
  split at h
  · simp at h
  · rename_i re rest ht
    simp only [Option.some.injEq, Prod.mk.injEq] at h
    obtain ⟨rfl, rfl⟩ := h
    exact ⟨rest, ht, rfl⟩

theorem agreement_D (E : Env) (D L : Party) (x1 x2 : List T) (ssL : SS) (reL : T) (out : SS × T × T × T)
    (h1 : lRead1 SS.init x1 = some (ssL, reL))
    (h2 : dRead2 E D (dWrite1 E D).2 x2 = some out)
    (hNC : ∀ k n ad p, T.aead k n ad p ∈ x2 → T.aead k n ad p ∈ (lWrite2 E L ssL reL (L.payload E)).1) :
    x2 = (lWrite2 E L ssL reL (L.payload E)).1 ∧
      (ssL, reL) = ((SS.init.mixHash (.bytes (E.g.pubB D.e))).mixHash (.bytes []), T.bytes (E.g.pubB D.e)) := by
  obtain ⟨rest1, ht0, rfl⟩ := lRead1_inv h1
  unfold dRead2 at h2
  split at h2
  · simp at h2
  · rename_i re' b1 ht1
    split at h2
    · simp at h2
    · rename_i c1' b2 ht2
      split at h2
      · simp at h2
      · rename_i rs' ss2 hd1
        split at h2
        · simp at h2
        · rename_i pl ss3 hd2
          obtain ⟨hc1, rfl⟩ := decrypt_inv rfl hd1
          obtain ⟨hc2, _⟩ := decrypt_inv rfl hd2
          simp only [SS.mixKey, SS.mixHash, dWrite1, SS.init] at hc1 hc2
          clear hd1 hd2
          have hb2 := restTerm_aead hc2
          rcases takeField_inv ht2 with ⟨rfl, _⟩ | ⟨hj, _⟩
          · rcases takeField_inv ht1 with ⟨rfl, _⟩ | ⟨_, hb⟩
            · have hm := hNC _ _ _ _ (by rw [hb2]; exact List.mem_cons_of_mem _ (List.mem_cons_of_mem _ (List.mem_singleton.2 rfl)))
              subst hb2 hc1
              simp only [lWrite2, SS.encryptAndHash, SS.mixKey, SS.mixHash, SS.init, dWrite1, List.mem_cons,
                reduceCtorEq, T.aead.injEq, List.mem_nil_iff, or_false, false_or, T.h.injEq, T.k2.injEq, T.k1.injEq,
                and_true, true_and] at hm ⊢
              simp only [false_and, and_false, false_or] at hm
              obtain ⟨⟨hk1, hk2⟩, ⟨⟨⟨hre, hrest⟩, hre'⟩, -, -, hrs⟩, hpl⟩ := hm
              subst hre hre' hrs hpl
              rw [← hrest] at *
              simp only [← hk1, ← hk2, and_self]
            · cases hb
          · rw [hj] at hc1; simp at hc1

theorem dRead2_inv {E : Env} {D : Party} {ss ssD : SS} {x2 : List T} {reD rsD plD : T}
    (h2 : dRead2 E D ss x2 = some (ssD, reD, rsD, plD)) :
    ∃ c1 c2, x2 = [reD, c1, c2] ∧
      c1 = .aead (.k2 ss.ck (dh E.g D.e reD)) 0 (.h ss.h reD) rsD ∧
      c2 = .aead (.k2 (.k1 ss.ck (dh E.g D.e reD)) (dh E.g D.e rsD)) 0 (.h (.h ss.h reD) c1) plD ∧
      ssD = { ck := .k1 (.k1 ss.ck (dh E.g D.e reD)) (dh E.g D.e rsD), h := .h (.h (.h ss.h reD) c1) c2,
              k := some (.k2 (.k1 ss.ck (dh E.g D.e reD)) (dh E.g D.e rsD)), n := 1 } := by
  unfold dRead2 at h2
  split at h2
  · simp at h2
  · rename_i re' b1 ht1
    split at h2
    · simp at h2
    · rename_i c1' b2 ht2
      split at h2
      · simp at h2
      · rename_i rs' ss2 hd1
        split at h2
        · simp at h2
        · rename_i pl ss3 hd2
          simp only [Option.some.injEq, Prod.mk.injEq] at h2
          obtain ⟨rfl, rfl, rfl, rfl⟩ := h2
          obtain ⟨hc1, rfl⟩ := decrypt_inv rfl hd1
          obtain ⟨hc2, rfl⟩ := decrypt_inv rfl hd2
          simp only [SS.mixKey, SS.mixHash] at hc1 hc2
          have hb2 := restTerm_aead hc2
          rcases takeField_inv ht2 with ⟨rfl, _⟩ | ⟨hj, _⟩
          · rcases takeField_inv ht1 with ⟨rfl, _⟩ | ⟨_, hb⟩
            · subst hb2
              refine ⟨c1', _, rfl, hc1, rfl, ?_⟩
              simp [restTerm, SS.mixKey, SS.mixHash]
            · cases hb
          · rw [hj] at hc1; simp at hc1


theorem lRead3_inv {E : Env} {L : Party} {ss ss' : SS} {k : T} {x3 : List T} {rs pl : T} (hk : ss.k = some k)
    (h3 : lRead3 E L ss x3 = some (ss', rs, pl)) :
    ∃ c1 c2, x3 = [c1, c2] ∧ c1 = .aead k ss.n ss.h rs ∧
      c2 = .aead (.k2 ss.ck (dh E.g L.e rs)) 0 (.h ss.h c1) pl := by
  unfold lRead3 at h3
  split at h3
  · simp at h3
  · rename_i c1' b1 ht1
    split at h3
    · simp at h3
    · rename_i rs' ss1 hd1
      split at h3
      · simp at h3
      · rename_i pl' ss2 hd2
        simp only [Option.some.injEq, Prod.mk.injEq] at h3
        obtain ⟨rfl, rfl, rfl⟩ := h3
        obtain ⟨hc1, rfl⟩ := decrypt_inv hk hd1
        obtain ⟨hc2, rfl⟩ := decrypt_inv rfl hd2
        simp only [SS.mixKey, SS.mixHash] at hc2
        have hb := restTerm_aead hc2
        rcases takeField_inv ht1 with ⟨rfl, _⟩ | ⟨hj, _⟩
        · subst hb
          exact ⟨c1', _, rfl, hc1, rfl⟩
        · rw [hj] at hc1; simp at hc1

/-- **Agreement, listener side.** If the listener's Noise state accepts `x3` as message 3 and the payload ciphertext
in it was made by an honest party of this session, then `x3` is exactly the dialer's message 3, the dialer had
accepted exactly the listener's message 2, and the listener had read exactly the dialer's message 1. -/
theorem agreement_L (E : Env) (D L : Party) (x1 x2 x3 : List T) (ssL ssD : SS) (reL reD rsD plD : T)
    (out : SS × T × T)
    (h1 : lRead1 SS.init x1 = some (ssL, reL))
    (h2 : dRead2 E D (dWrite1 E D).2 x2 = some (ssD, reD, rsD, plD))
    (h3 : lRead3 E L (lWrite2 E L ssL reL (L.payload E)).2 x3 = some out)
    (hNC : ∀ k n ad p, T.aead k n ad p ∈ x3 →
      T.aead k n ad p ∈ (dWrite3 E D ssD reD (D.payload E)).1 ∨ T.aead k n ad p ∈ (lWrite2 E L ssL reL (L.payload E)).1) :
    x3 = (dWrite3 E D ssD reD (D.payload E)).1 ∧ x2 = (lWrite2 E L ssL reL (L.payload E)).1 ∧
      (ssL, reL) = ((SS.init.mixHash (.bytes (E.g.pubB D.e))).mixHash (.bytes []), T.bytes (E.g.pubB D.e)) := by
  obtain ⟨rest1, ht0, rfl⟩ := lRead1_inv h1
  obtain ⟨c1x, c2x, rfl, hc1x, hc2x, rfl⟩ := dRead2_inv h2
  obtain ⟨ss', rs', pl'⟩ := out
  obtain ⟨c1', c2', rfl, hc1', hc2'⟩ := lRead3_inv (k := _) rfl h3
  have hm := hNC _ _ _ _ (by rw [hc2']; exact List.mem_cons_of_mem _ (List.mem_singleton.2 rfl))
  subst hc2' hc1' hc2x hc1x
  simp only [lWrite2, dWrite3, dWrite1, SS.encryptAndHash, SS.mixKey, SS.mixHash, SS.init, List.mem_cons,
    reduceCtorEq, T.aead.injEq, List.mem_nil_iff, or_false, false_or, T.h.injEq, T.k2.injEq, T.k1.injEq,
    true_and, List.cons.injEq, and_true] at hm ⊢
  simp only [false_and, and_false, false_or, or_false] at hm
  obtain ⟨⟨⟨hk1, hk2⟩, hk3⟩, ⟨⟨⟨⟨⟨hre, hrest⟩, hre'⟩, -, -, hrs⟩, -, -, hpl⟩, -, -, hrs'⟩, hpl'⟩ := hm
  subst hre hre' hrs hpl hrs' hpl'
  rw [hrest] at *
  simp only [hk1, hk2, hk3, and_self]


/-- A listener that has seen no message 3 from the dialer cannot be made to accept its own ciphertexts. -/
theorem no_reflection_L (E : Env) (L : Party) (x1 x3 : List T) (ssL : SS) (reL : T) (out : SS × T × T)
    (h1 : lRead1 SS.init x1 = some (ssL, reL))
    (h3 : lRead3 E L (lWrite2 E L ssL reL (L.payload E)).2 x3 = some out)
    (hNC : ∀ k n ad p, T.aead k n ad p ∈ x3 → T.aead k n ad p ∈ (lWrite2 E L ssL reL (L.payload E)).1) : False := by
  obtain ⟨rest1, ht0, rfl⟩ := lRead1_inv h1
  obtain ⟨ss', rs', pl'⟩ := out
  obtain ⟨c1', c2', rfl, hc1', hc2'⟩ := lRead3_inv (k := _) rfl h3
  have hm := hNC _ _ _ _ (by rw [hc2']; exact List.mem_cons_of_mem _ (List.mem_singleton.2 rfl))
  subst hc2' hc1'
  simp only [lWrite2, SS.encryptAndHash, SS.mixKey, SS.mixHash, SS.init, List.mem_cons,
    reduceCtorEq, T.aead.injEq, List.mem_nil_iff, or_false, false_or, T.h.injEq, T.k2.injEq, T.k1.injEq,
    true_and, and_true, false_and, and_false, or_self] at hm

theorem checkPayload_eq_parse (c : Crypto) (pl : Bytes) (p : NoisePayload) (rs : Bytes)
    (hd : NoisePayload.decode pl = some p) : parseAndVerify c pl rs = checkPayload c p rs := by
  simp [parseAndVerify, hd]

theorem finish_ok_inv {E : Env} {p : NoisePayload} {rsT : T} {P : PeerId} {rs : Bytes}
    (h : finish E p rsT = .ok P rs) : checkPayload E.c p (termBytes rsT) = .ok P ∧ rs = termBytes rsT := by
  unfold finish at h
  split at h
  · rename_i peer hp
    simp only [Res.ok.injEq] at h
    obtain ⟨rfl, rfl⟩ := h
    exact ⟨hp, rfl⟩
  · simp at h

theorem resolve_ok_inv {eof : Bool} {r : Res × Res} {P : PeerId} {rs : Bytes} :
    ((resolve eof r).1 = .ok P rs → r.1 = .ok P rs) ∧ ((resolve eof r).2 = .ok P rs → r.2 = .ok P rs) := by
  obtain ⟨d, l⟩ := r
  constructor
  · intro h
    simp only [resolve] at h
    cases d <;> simp_all [Res.isErr] <;> (repeat' split at h) <;> simp_all
  · intro h
    simp only [resolve] at h
    cases l <;> simp_all [Res.isErr] <;> (repeat' split at h) <;> simp_all

/-- Inversion of the dialer's stage: it returns `ok` only after its Noise state accepted a message 2 and the
identity check passed on the payload and the static key decrypted from it. -/
theorem stageD2_ok_inv {E : Env} {D : Party} {x : Dlv} {P : PeerId} {rs : Bytes}
    (h : (stageD2 E D x).res = .ok P rs) :
    ∃ x2 ss re rsT plT, x = .msg x2 ∧ dRead2 E D (dWrite1 E D).2 x2 = some (ss, re, rsT, plT) ∧
      rs = termBytes rsT ∧ parseAndVerify E.c (termBytes plT) rs = .ok P ∧
      (stageD2 E D x).msg? = some (dWrite3 E D ss re (D.payload E)).1 := by
  unfold stageD2 at h ⊢
  split at h
  · simp [D2.res] at h
  · simp [D2.res] at h
  · rename_i x2
    split at h
    · simp [D2.res] at h
    · rename_i ss re rsT plT hr
      split at h
      · simp [D2.res] at h
      · rename_i p hp
        simp only [D2.res] at h
        obtain ⟨hc, rfl⟩ := finish_ok_inv h
        refine ⟨x2, ss, re, rsT, plT, rfl, hr, rfl, ?_, ?_⟩
        · rw [checkPayload_eq_parse _ _ _ _ hp]; exact hc
        · simp [hr, hp, D2.msg?]

theorem stageL1_sent_inv {E : Env} {L : Party} {x : Dlv} {m2 : List T} {ss : SS}
    (h : stageL1 E L x = .sent m2 ss) :
    ∃ x1 ssL reL, x = .msg x1 ∧ lRead1 SS.init x1 = some (ssL, reL) ∧
      m2 = (lWrite2 E L ssL reL (L.payload E)).1 ∧ ss = (lWrite2 E L ssL reL (L.payload E)).2 := by
  unfold stageL1 at h
  split at h
  · simp at h
  · simp at h
  · rename_i x1
    split at h
    · simp at h
    · rename_i ssL reL hr
      simp only [L1.sent.injEq] at h
      exact ⟨x1, ssL, reL, rfl, hr, h.1.symm, h.2.symm⟩

theorem stageL1_stuck_not_ok {E : Env} {L : Party} {x : Dlv} {r : Res} (h : stageL1 E L x = .stuck r) :
    r.isOk = false := by
  unfold stageL1 at h
  split at h
  · simp only [L1.stuck.injEq] at h; subst h; rfl
  · simp only [L1.stuck.injEq] at h; subst h; rfl
  · split at h
    · simp only [L1.stuck.injEq] at h; subst h; rfl
    · simp at h

/-- Inversion of the listener's last stage. -/
theorem stageL3_ok_inv {E : Env} {L : Party} {xa x : Dlv} {P : PeerId} {rs : Bytes}
    (h : stageL3 E L (stageL1 E L xa) x = .ok P rs) :
    ∃ x1 ssL reL x3 ss' rsT plT, xa = .msg x1 ∧ lRead1 SS.init x1 = some (ssL, reL) ∧
      stageL1 E L xa = .sent (lWrite2 E L ssL reL (L.payload E)).1 (lWrite2 E L ssL reL (L.payload E)).2 ∧
      x = .msg x3 ∧ lRead3 E L (lWrite2 E L ssL reL (L.payload E)).2 x3 = some (ss', rsT, plT) ∧
      rs = termBytes rsT ∧ parseAndVerify E.c (termBytes plT) rs = .ok P := by
  unfold stageL3 at h
  split at h
  · rename_i r hs
    have := stageL1_stuck_not_ok hs
    rw [h] at this
    simp [Res.isOk] at this
  · rename_i m2 ss hs
    obtain ⟨x1, ssL, reL, rfl, hr1, rfl, rfl⟩ := stageL1_sent_inv hs
    split at h
    · simp at h
    · simp at h
    · rename_i x3
      split at h
      · simp at h
      · rename_i ss' rsT plT hr
        split at h
        · simp at h
        · rename_i p hp
          obtain ⟨hc, rfl⟩ := finish_ok_inv h
          refine ⟨x1, ssL, reL, x3, ss', rsT, plT, rfl, hr1, hs, rfl, hr, rfl, ?_⟩
          rw [checkPayload_eq_parse _ _ _ _ hp]; exact hc

/-- An attacker that encrypts nothing itself: every ciphertext it delivers was sent by an honest party of the session
(it may drop, delay, truncate, garble, reorder, reflect, and add arbitrary plaintext/garbage fields). -/
structure Passive (A : Attacker) : Prop where
  p2 : ∀ m1 m2 x, A.a2 m1 m2 = .msg x → ∀ k n ad p, T.aead k n ad p ∈ x → ∃ m, m2 = some m ∧ T.aead k n ad p ∈ m
  p3 : ∀ m1 m2 m3 x, A.a3 m1 m2 m3 = .msg x → ∀ k n ad p, T.aead k n ad p ∈ x →
    (∃ m, m3 = some m ∧ T.aead k n ad p ∈ m) ∨ (∃ m, m2 = some m ∧ T.aead k n ad p ∈ m)

/-- The honest transcript. -/
def hm1 (E : Env) (D : Party) : List T := (dWrite1 E D).1
def hssL (E : Env) (D : Party) : SS := (SS.init.mixHash (.bytes (E.g.pubB D.e))).mixHash (.bytes [])
def hm2 (E : Env) (D L : Party) : List T := (lWrite2 E L (hssL E D) (.bytes (E.g.pubB D.e)) (L.payload E)).1
def hm3 (E : Env) (D L : Party) : List T :=
  match dRead2 E D (dWrite1 E D).2 (hm2 E D L) with
  | some (ss, re, _, _) => (dWrite3 E D ss re (D.payload E)).1
  | none => []

theorem agreement_run_D (E : Env) (D L : Party) (A : Attacker) (hP : Passive A) (P : PeerId) (rs : Bytes)
    (h : (run1 E D L A).1 = .ok P rs) :
    (stageL1 E L (A.a1 (hm1 E D))).msg? = some (hm2 E D L) ∧
      A.a2 (hm1 E D) (some (hm2 E D L)) = .msg (hm2 E D L) := by
  simp only [run1] at h
  obtain ⟨x2, ss, re, rsT, plT, hx, hr, -, -, -⟩ := stageD2_ok_inv h
  obtain ⟨c1, c2, rfl, hc1, hc2, -⟩ := dRead2_inv hr
  obtain ⟨m, hm, -⟩ := hP.p2 _ _ _ hx _ _ _ _ (by rw [hc2]; exact List.mem_cons_of_mem _ (List.mem_cons_of_mem _ (List.mem_singleton.2 rfl)))
  -- the listener did send a message 2
  cases hs : stageL1 E L (A.a1 (dWrite1 E D).1) with
  | stuck r => rw [hs] at hm; simp [L1.msg?] at hm
  | sent m2 ssm =>
    obtain ⟨x1, ssL, reL, hx1, hr1, rfl, rfl⟩ := stageL1_sent_inv hs
    rw [hs] at hx hm
    simp only [L1.msg?, Option.some.injEq] at hx hm
    have hag := agreement_D E D L x1 _ ssL reL _ hr1 hr (by
      intro k n ad p hmem
      obtain ⟨m', hm', hin⟩ := hP.p2 _ _ _ hx k n ad p hmem
      simp only [Option.some.injEq] at hm'
      rw [hm']; exact hin)
    obtain ⟨hx2, hh⟩ := hag
    simp only [Prod.mk.injEq] at hh
    obtain ⟨rfl, rfl⟩ := hh
    simp only [hm1, hm2, hssL, L1.msg?]
    rw [hs]
    refine ⟨rfl, ?_⟩
    rw [hx, hx2]


theorem stageD2_sent_inv {E : Env} {D : Party} {x : Dlv} {m3 : List T}
    (h : (stageD2 E D x).msg? = some m3) :
    ∃ x2 ss re rsT plT, x = .msg x2 ∧ dRead2 E D (dWrite1 E D).2 x2 = some (ss, re, rsT, plT) ∧
      m3 = (dWrite3 E D ss re (D.payload E)).1 := by
  unfold stageD2 at h
  split at h
  · simp [D2.msg?] at h
  · simp [D2.msg?] at h
  · rename_i x2
    split at h
    · simp [D2.msg?] at h
    · rename_i ss re rsT plT hr
      split at h
      · simp [D2.msg?] at h
      · simp only [D2.msg?, Option.some.injEq] at h
        exact ⟨x2, ss, re, rsT, plT, rfl, hr, h.symm⟩

theorem agreement_run_L (E : Env) (D L : Party) (A : Attacker) (hP : Passive A) (P : PeerId) (rs : Bytes)
    (h : (run1 E D L A).2 = .ok P rs) :
    (stageL1 E L (A.a1 (hm1 E D))).msg? = some (hm2 E D L) ∧
      A.a2 (hm1 E D) (some (hm2 E D L)) = .msg (hm2 E D L) ∧
      (stageD2 E D (A.a2 (hm1 E D) (some (hm2 E D L)))).msg? = some (hm3 E D L) ∧
      A.a3 (hm1 E D) (some (hm2 E D L)) (some (hm3 E D L)) = .msg (hm3 E D L) := by
  simp only [run1] at h
  obtain ⟨x1, ssL, reL, x3, ss', rsT, plT, hx1, hr1, hs, hx3, hr3, -, -⟩ := stageL3_ok_inv h
  obtain ⟨c1', c2', rfl, hc1', hc2'⟩ := lRead3_inv (k := _) rfl hr3
  rw [hs] at hx3
  simp only [L1.msg?] at hx3
  cases hd : (stageD2 E D (A.a2 (dWrite1 E D).1 (some (lWrite2 E L ssL reL (L.payload E)).1))).msg? with
  | none =>
    rw [hd] at hx3
    exfalso
    refine no_reflection_L E L x1 _ ssL reL _ hr1 hr3 ?_
    intro k n ad p hmem
    rcases hP.p3 _ _ _ _ hx3 k n ad p hmem with ⟨m, hm, _⟩ | ⟨m, hm, hin⟩
    · simp at hm
    · simp only [Option.some.injEq] at hm
      rw [hm]; exact hin
  | some m3 =>
    rw [hd] at hx3
    obtain ⟨x2, ssD, reD, rsD, plD, hx2, hr2, rfl⟩ := stageD2_sent_inv hd
    have hag := agreement_L E D L x1 x2 _ ssL ssD reL reD rsD plD _ hr1 hr2 hr3 (by
      intro k n ad p hmem
      rcases hP.p3 _ _ _ _ hx3 k n ad p hmem with ⟨m, hm, hin⟩ | ⟨m, hm, hin⟩
      · simp only [Option.some.injEq] at hm
        left; rw [hm]; exact hin
      · simp only [Option.some.injEq] at hm
        right; rw [hm]; exact hin)
    obtain ⟨h3, h2, hh⟩ := hag
    simp only [Prod.mk.injEq] at hh
    obtain ⟨rfl, rfl⟩ := hh
    have e2 : hm2 E D L = (lWrite2 E L ((SS.init.mixHash (.bytes (E.g.pubB D.e))).mixHash (.bytes [])) (.bytes (E.g.pubB D.e)) (L.payload E)).1 := rfl
    have e3 : hm3 E D L = (dWrite3 E D ssD reD (D.payload E)).1 := by
      simp only [hm3, e2, ← h2, hr2]
    simp only [hm1, e2, e3]
    rw [hs]
    refine ⟨rfl, ?_, ?_, ?_⟩
    · rw [hx2, h2]
    · exact hd
    · rw [hx3, h3]

theorem mem_garble (id : Nat) : ∀ (o : Nat) (m : List T) (x : T), x ∈ garble id o m → x ∈ m ∨ ∃ n, x = .junk id n
  | _, [], x, h => by simp [garble] at h
  | o, f :: rest, x, h => by
    unfold garble at h
    split at h
    · simp only [List.mem_cons] at h
      rcases h with rfl | h
      · exact Or.inr ⟨_, rfl⟩
      · exact Or.inl (List.mem_cons_of_mem _ h)
    · simp only [List.mem_cons] at h
      rcases h with rfl | h
      · exact Or.inl (List.mem_cons_self ..)
      · rcases mem_garble id _ rest x h with h | h
        · exact Or.inl (List.mem_cons_of_mem _ h)
        · exact Or.inr h

theorem mem_truncBody : ∀ (n : Nat) (m : List T) (x : T), x ∈ truncBody n m → x ∈ m ∨ ∃ k, x = .junk 50 k
  | _, [], x, h => by simp [truncBody] at h
  | n, f :: rest, x, h => by
    unfold truncBody at h
    split at h
    · simp at h
    · split at h
      · simp only [List.mem_cons] at h
        rcases h with rfl | h
        · exact Or.inl (List.mem_cons_self ..)
        · rcases mem_truncBody _ rest x h with h | h
          · exact Or.inl (List.mem_cons_of_mem _ h)
          · exact Or.inr h
      · simp only [List.mem_singleton] at h
        exact Or.inr ⟨_, h⟩

/-- Whatever a scripted action delivers contains no ciphertext that was not in the message acted upon. -/
theorem applyAct_aead {eof : Bool} {k : Nat} {a : Act} {own : Option (List T)} {x : List T}
    (h : applyAct eof k a own none = .msg x) {kk : T} {n : Nat} {ad p : T} (hm : T.aead kk n ad p ∈ x) :
    ∃ m, own = some m ∧ T.aead kk n ad p ∈ m := by
  unfold applyAct at h
  split at h
  · simp at h
  · rename_i m
    refine ⟨m, rfl, ?_⟩
    split at h
    · simp only [Dlv.msg.injEq] at h; subst h; exact hm
    · rename_i off mask
      unfold flipMsg at h
      split at h
      · have key : ∀ L', (if bodySize m < L' then Dlv.hang else Dlv.msg (truncBody L' m)) = .msg x →
            T.aead kk n ad p ∈ m := by
          intro L' h'
          split at h'
          · simp at h'
          · simp only [Dlv.msg.injEq] at h'; subst h'
            rcases mem_truncBody _ _ _ hm with h | ⟨_, h⟩
            · exact h
            · simp at h
        exact key _ h
      · simp only [Dlv.msg.injEq] at h; subst h
        rcases mem_garble _ _ _ _ hm with h | ⟨_, h⟩
        · exact h
        · simp at h
    · simp only [Dlv.msg.injEq] at h; subst h
      rcases mem_truncBody _ _ _ hm with h | ⟨_, h⟩
      · exact h
      · simp at h
    · simp only [Dlv.msg.injEq] at h; subst h
      simp only [List.mem_append, List.mem_singleton, reduceCtorEq, or_false] at hm
      exact hm
    · split at h <;> simp at h
    · split at h <;> simp at h
    · simp at h
    · simp at h

/-- The scripted man-in-the-middle of the correspondence runs is passive. -/
theorem scripted_passive (eof : Bool) (a1 a2 a3 : Act) : Passive (scripted eof a1 a2 a3) where
  p2 := by
    intro m1 m2 x h k n ad p hm
    exact applyAct_aead (by simpa [scripted] using h) hm
  p3 := by
    intro m1 m2 m3 x h k n ad p hm
    exact Or.inl (applyAct_aead (by simpa [scripted] using h) hm)

end Litep2pVerif.Noise.XX
