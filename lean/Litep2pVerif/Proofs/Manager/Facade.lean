import Litep2pVerif.Proofs.Manager.LedgerStep
import Litep2pVerif.Model.Manager.Facade
/-! Lemmas about the `Litep2p` facade translation (`Model/Manager/Facade.lean`), used by
`Props/C05.lean` (`facade_reports_every_outcome`). -/
namespace Litep2pVerif.Manager

theorem reports_zero_or_one (a : Attempt) (e : Ev) : reports a e = 0 ∨ reports a e = 1 := by
  cases e <;> simp only [reports] <;> (try split) <;> simp

/-- Counting reports = counting the reporting events. -/
theorem sum_reports_eq_length (a : Attempt) (l : List Ev) :
    (l.map (reports a)).sum = (l.filter (fun e => reports a e == 1)).length := by
  induction l with
  | nil => rfl
  | cons e t ih =>
    rcases reports_zero_or_one a e with h | h <;> simp [List.filter_cons, h, ih] <;> omega

theorem outcome_eq_concluding (g : G) (a : Attempt) : outcome g a = (concluding g a).length :=
  sum_reports_eq_length a g.log

/-- No event the manager returns falls into the `_ => {}` arm of `Litep2p::next_event`. -/
theorem facadeEvent_toT_isSome (e : Ev) : (facadeEvent e.toT).isSome = true := by
  cases e <;> rfl

/-- The facade neither drops nor duplicates: one user event per event of the manager. -/
theorem facadeEvents_length (l : List Ev) : (facadeEvents l).length = l.length := by
  induction l with
  | nil => rfl
  | cons e t ih =>
    cases e <;> simp [facadeEvents, Ev.toT, facadeEvent] at ih ⊢ <;> exact ih

/-- The manager report that concludes an attempt becomes one of the three dial outcomes at the
facade, carrying the same peer/endpoint, address/error or error list. -/
theorem facade_of_report (a : Attempt) (e : Ev) (h : reports a e = 1) :
    ∃ u, facadeEvent e.toT = some u ∧ u.isDialOutcome = true ∧ u.carries e = true := by
  cases e with
  | established p ep => exact ⟨_, rfl, rfl, by simp [UEv.carries]⟩
  | closed p c => simp [reports] at h
  | dialFailure c ad e => exact ⟨_, rfl, rfl, by simp [UEv.carries]⟩
  | openFailure c errs => exact ⟨_, rfl, rfl, by simp [UEv.carries]⟩

theorem uoutcome_eq_outcome (g : G) (a : Attempt) : uoutcome g a = outcome g a := by
  rw [outcome_eq_concluding]
  exact facadeEvents_length _

end Litep2pVerif.Manager
