import Litep2pVerif.Model.Manager.Dial
/-! Basic lemmas about the connection-manager model: association lists, state projections of the
handlers, slot lemmas of `PeerState`. Shared by the C05 and C06 proofs. -/
namespace Litep2pVerif.Manager

/-! ## Association lists -/

theorem alookup_ainsert {β : Type} (k k' : Nat) (v : β) (l : List (Nat × β)) :
    alookup k' (ainsert k v l) = if k = k' then some v else alookup k' l := by
  induction l with
  | nil => simp [ainsert, alookup]
  | cons h t ih =>
    obtain ⟨a, b⟩ := h
    simp only [ainsert]
    split
    · rename_i h1; subst h1
      simp only [alookup]
      split <;> simp_all
    · rename_i h1
      simp only [alookup, ih]
      split
      · rename_i h2; subst h2
        have : ¬ k = a := fun h => h1 h.symm
        simp [this]
      · rfl

theorem alookup_aerase {β : Type} (k k' : Nat) (l : List (Nat × β)) :
    alookup k' (aerase k l) = if k = k' then none else alookup k' l := by
  induction l with
  | nil => simp [aerase, alookup]
  | cons h t ih =>
    obtain ⟨a, b⟩ := h
    simp only [aerase]
    split
    · rename_i h1; subst h1
      rw [ih]; simp only [alookup]
      split
      · rfl
      · rename_i h2; simp [h2]
    · rename_i h1
      simp only [alookup, ih]
      split
      · rename_i h2; subst h2
        have : ¬ k = a := fun h => h1 h.symm
        simp [this]
      · rfl

/-! ## Projections -/

@[simp] theorem stateOf_setState (s : Mgr) (p q : Peer) (st : PeerState) :
    stateOf (setState s p st) q = if q = p then st else stateOf s q := by
  simp only [stateOf, setState]; split <;> rfl

@[simp] theorem stateOf_updAddr (s : Mgr) (p q : Peer) (a : Multiaddr) (sc : Int) :
    stateOf (updAddr s p a sc) q = stateOf s q := by
  simp only [stateOf, updAddr]; split
  · rename_i h; subst h; rfl
  · rfl

@[simp] theorem limits_setState (s : Mgr) (p : Peer) (st : PeerState) : (setState s p st).limits = s.limits := rfl
@[simp] theorem limits_updAddr (s : Mgr) (p : Peer) (a : Multiaddr) (sc : Int) : (updAddr s p a sc).limits = s.limits := rfl
@[simp] theorem pending_setState (s : Mgr) (p : Peer) (st : PeerState) : (setState s p st).pending = s.pending := rfl
@[simp] theorem pending_updAddr (s : Mgr) (p : Peer) (a : Multiaddr) (sc : Int) : (updAddr s p a sc).pending = s.pending := rfl
@[simp] theorem pa_setState (s : Mgr) (p : Peer) (st : PeerState) : (setState s p st).pendingAccept = s.pendingAccept := rfl
@[simp] theorem pa_updAddr (s : Mgr) (p : Peer) (a : Multiaddr) (sc : Int) : (updAddr s p a sc).pendingAccept = s.pendingAccept := rfl
@[simp] theorem nc_setState (s : Mgr) (p : Peer) (st : PeerState) : (setState s p st).nextConn = s.nextConn := rfl
@[simp] theorem nc_updAddr (s : Mgr) (p : Peer) (a : Multiaddr) (sc : Int) : (updAddr s p a sc).nextConn = s.nextConn := rfl

@[simp] theorem stateOf_updAddrFail (s : Mgr) (a : Multiaddr) (e : DialErr) (q : Peer) :
    stateOf (updAddrFail s a e) q = stateOf s q := by
  unfold updAddrFail; split <;> simp
@[simp] theorem limits_updAddrFail (s : Mgr) (a : Multiaddr) (e : DialErr) : (updAddrFail s a e).limits = s.limits := by
  unfold updAddrFail; split <;> simp
@[simp] theorem pending_updAddrFail (s : Mgr) (a : Multiaddr) (e : DialErr) : (updAddrFail s a e).pending = s.pending := by
  unfold updAddrFail; split <;> simp
@[simp] theorem pa_updAddrFail (s : Mgr) (a : Multiaddr) (e : DialErr) : (updAddrFail s a e).pendingAccept = s.pendingAccept := by
  unfold updAddrFail; split <;> simp
@[simp] theorem nc_updAddrFail (s : Mgr) (a : Multiaddr) (e : DialErr) : (updAddrFail s a e).nextConn = s.nextConn := by
  unfold updAddrFail; split <;> simp

@[simp] theorem stateOf_updAddrFails (errs : List (Multiaddr × DialErr)) (s : Mgr) (q : Peer) :
    stateOf (updAddrFails s errs) q = stateOf s q := by
  induction errs generalizing s with
  | nil => rfl
  | cons h t ih => obtain ⟨a, e⟩ := h; simp [updAddrFails, ih]
@[simp] theorem limits_updAddrFails (errs : List (Multiaddr × DialErr)) (s : Mgr) :
    (updAddrFails s errs).limits = s.limits := by
  induction errs generalizing s with
  | nil => rfl
  | cons h t ih => obtain ⟨a, e⟩ := h; simp [updAddrFails, ih]
@[simp] theorem pending_updAddrFails (errs : List (Multiaddr × DialErr)) (s : Mgr) :
    (updAddrFails s errs).pending = s.pending := by
  induction errs generalizing s with
  | nil => rfl
  | cons h t ih => obtain ⟨a, e⟩ := h; simp [updAddrFails, ih]
@[simp] theorem pa_updAddrFails (errs : List (Multiaddr × DialErr)) (s : Mgr) :
    (updAddrFails s errs).pendingAccept = s.pendingAccept := by
  induction errs generalizing s with
  | nil => rfl
  | cons h t ih => obtain ⟨a, e⟩ := h; simp [updAddrFails, ih]
@[simp] theorem nc_updAddrFails (errs : List (Multiaddr × DialErr)) (s : Mgr) :
    (updAddrFails s errs).nextConn = s.nextConn := by
  induction errs generalizing s with
  | nil => rfl
  | cons h t ih => obtain ⟨a, e⟩ := h; simp [updAddrFails, ih]

@[simp] theorem stateOf_addAddrs (as : List Multiaddr) (s : Mgr) (p q : Peer) :
    stateOf (addAddrs s p as) q = stateOf s q := by
  induction as generalizing s with
  | nil => rfl
  | cons h t ih => simp [addAddrs, ih]
@[simp] theorem limits_addAddrs (as : List Multiaddr) (s : Mgr) (p : Peer) : (addAddrs s p as).limits = s.limits := by
  induction as generalizing s with
  | nil => rfl
  | cons h t ih => simp [addAddrs, ih]
@[simp] theorem pending_addAddrs (as : List Multiaddr) (s : Mgr) (p : Peer) : (addAddrs s p as).pending = s.pending := by
  induction as generalizing s with
  | nil => rfl
  | cons h t ih => simp [addAddrs, ih]
@[simp] theorem pa_addAddrs (as : List Multiaddr) (s : Mgr) (p : Peer) : (addAddrs s p as).pendingAccept = s.pendingAccept := by
  induction as generalizing s with
  | nil => rfl
  | cons h t ih => simp [addAddrs, ih]
@[simp] theorem nc_addAddrs (as : List Multiaddr) (s : Mgr) (p : Peer) : (addAddrs s p as).nextConn = s.nextConn := by
  induction as generalizing s with
  | nil => rfl
  | cons h t ih => simp [addAddrs, ih]

/-! ## `PeerState` slot lemmas -/

namespace PeerState

theorem canDial_ok' {s : PeerState} (h : s.canDial = .ok) : s = .disconnected none := by
  unfold canDial at h; split at h <;> simp_all

theorem slots_length_le (s : PeerState) : s.slots.length ≤ 2 := by
  unfold slots; split <;> simp

theorem est_accept_mem (s : PeerState) (x : ConnRecord) (h : (s.onConnectionEstablished x).2 = true) :
    x.conn ∈ (s.onConnectionEstablished x).1.slots := by
  unfold onConnectionEstablished at *
  split at h <;> (try split at h) <;> simp_all [slots] <;> (split <;> simp_all [slots])

theorem est_slots_mono (s : PeerState) (x : ConnRecord) (y : ConnId) (hy : y ∈ s.slots) :
    y ∈ (s.onConnectionEstablished x).1.slots := by
  unfold onConnectionEstablished
  split <;> (try split) <;> simp_all [slots]

theorem est_reject_eq (s : PeerState) (x : ConnRecord) (h : (s.onConnectionEstablished x).2 = false) :
    (s.onConnectionEstablished x).1 = s := by
  unfold onConnectionEstablished at *
  split at h <;> (try split at h) <;> simp_all

theorem closed_slots (s : PeerState) (c y : ConnId) (hy : y ∈ s.slots) (hne : y ≠ c) :
    y ∈ (s.onConnectionClosed c).1.slots := by
  unfold onConnectionClosed
  split
  · rename_i r sec
    split
    · rename_i hc
      split <;> simp_all [slots]
      all_goals (first | omega | skip)
    · rename_i hc
      split
      · split <;> simp_all [slots]
      · exact hy
  · exact hy

theorem dialFailure_slots (s : PeerState) (c : ConnId) : (s.onDialFailure c).1.slots = s.slots := by
  unfold onDialFailure
  split <;> (try split) <;> simp_all [slots]

theorem openFailure_slots (s : PeerState) (t : Transport) : (s.onOpenFailure t).1.slots = s.slots := by
  unfold onOpenFailure
  split
  · simp only []; split <;> simp [slots]
  · rfl

end PeerState
end Litep2pVerif.Manager
