import Litep2pVerif.Proofs.Manager.Basic
/-! Invariant behind C06 (connection caps). No assumption on the environment. -/
namespace Litep2pVerif.Manager

/-! ## Set helpers -/

theorem mem_setInsert (l : List ConnId) (c x : ConnId) : x ∈ setInsert l c ↔ x = c ∨ x ∈ l := by
  unfold setInsert; split
  · constructor
    · exact Or.inr
    · rintro (h | h)
      · subst h; assumption
      · exact h
  · simp

theorem nodup_setInsert (l : List ConnId) (c : ConnId) (h : l.Nodup) : (setInsert l c).Nodup := by
  unfold setInsert; split
  · exact h
  · rename_i hc; exact List.nodup_cons.2 ⟨hc, h⟩

theorem length_setInsert_le (l : List ConnId) (c : ConnId) : (setInsert l c).length ≤ l.length + 1 := by
  unfold setInsert; split <;> simp

theorem mem_setRemove (l : List ConnId) (c x : ConnId) : x ∈ setRemove l c ↔ x ∈ l ∧ x ≠ c := by
  simp [setRemove]

theorem nodup_setRemove (l : List ConnId) (c : ConnId) (h : l.Nodup) : (setRemove l c).Nodup :=
  List.Nodup.sublist List.filter_sublist h

theorem length_setRemove_le (l : List ConnId) (c : ConnId) : (setRemove l c).length ≤ l.length :=
  List.length_filter_le _ _

theorem setRemove_setInsert (l : List ConnId) (c : ConnId) : setRemove (setInsert l c) c = setRemove l c := by
  unfold setInsert; split
  · rfl
  · simp [setRemove, List.filter_cons]

theorem mem_addLive (x l : Live) (ls : List Live) : l ∈ addLive x ls ↔ l = x ∨ l ∈ ls := by
  unfold addLive; split
  · constructor
    · exact Or.inr
    · rintro (h | h)
      · subst h; assumption
      · exact h
  · simp

theorem nodup_addLive (x : Live) (ls : List Live) (h : ls.Nodup) : (addLive x ls).Nodup := by
  unfold addLive; split
  · exact h
  · rename_i hc; exact List.nodup_cons.2 ⟨hc, h⟩

theorem mem_dropLive (c : ConnId) (l : Live) (ls : List Live) : l ∈ dropLive c ls ↔ l ∈ ls ∧ l.conn ≠ c := by
  simp [dropLive]

/-! ## The invariant -/

structure Inv06 (g : G) : Prop where
  inLe : ∀ m, g.m.limits.cfg.maxIn = some m → g.m.limits.incoming.length ≤ m
  outLe : ∀ m, g.m.limits.cfg.maxOut = some m → g.m.limits.outgoing.length ≤ m
  inNodup : g.m.limits.incoming.Nodup
  outNodup : g.m.limits.outgoing.Nodup
  inIff : ∀ c, c ∈ g.m.limits.incoming ↔
    (g.m.limits.cfg.maxIn.isSome = true ∧ ∃ l ∈ g.live, l.conn = c ∧ l.isListener = true)
  outIff : ∀ c, c ∈ g.m.limits.outgoing ↔
    (g.m.limits.cfg.maxOut.isSome = true ∧ ∃ l ∈ g.live, l.conn = c ∧ l.isListener = false)
  liveSlots : ∀ l ∈ g.live, l.conn ∈ (stateOf g.m l.peer).slots
  liveNodup : g.live.Nodup

theorem inv06_init (cfg : LimitsCfg) : Inv06 (G.init cfg) := by
  constructor <;> simp [G.init, Mgr.init]

/-- Steps that leave limits and live set alone and never shrink a slot list. -/
theorem inv06_same {g g' : G} (h : Inv06 g) (hl : g'.m.limits = g.m.limits) (hlive : g'.live = g.live)
    (hs : ∀ q y, y ∈ (stateOf g.m q).slots → y ∈ (stateOf g'.m q).slots) : Inv06 g' := by
  constructor
  · rw [hl]; exact h.inLe
  · rw [hl]; exact h.outLe
  · rw [hl]; exact h.inNodup
  · rw [hl]; exact h.outNodup
  · rw [hl, hlive]; exact h.inIff
  · rw [hl, hlive]; exact h.outIff
  · rw [hlive]; intro l hlm; exact hs _ _ (h.liveSlots l hlm)
  · rw [hlive]; exact h.liveNodup

/-- Releasing connection `c` for peer `p` (`on_connection_closed`) while the ghost drops `c`. -/
theorem inv06_close {g g' : G} (h : Inv06 g) (p : Peer) (c : ConnId)
    (hl : g'.m.limits = g.m.limits.onConnectionClosed c) (hlive : g'.live = dropLive c g.live)
    (hs : ∀ q, stateOf g'.m q = if q = p then ((stateOf g.m p).onConnectionClosed c).1 else stateOf g.m q) :
    Inv06 g' := by
  constructor
  · rw [hl]; intro m hm
    exact Nat.le_trans (length_setRemove_le _ _) (h.inLe m hm)
  · rw [hl]; intro m hm
    exact Nat.le_trans (length_setRemove_le _ _) (h.outLe m hm)
  · rw [hl]; exact nodup_setRemove _ _ h.inNodup
  · rw [hl]; exact nodup_setRemove _ _ h.outNodup
  · rw [hl, hlive]; intro x
    simp only [Limits.onConnectionClosed, mem_setRemove, h.inIff x]
    constructor
    · rintro ⟨⟨hc, l, hlm, h1, h2⟩, hne⟩
      exact ⟨hc, l, (mem_dropLive _ _ _).2 ⟨hlm, by rw [h1]; exact hne⟩, h1, h2⟩
    · rintro ⟨hc, l, hlm, h1, h2⟩
      have := (mem_dropLive _ _ _).1 hlm
      exact ⟨⟨hc, l, this.1, h1, h2⟩, by rw [← h1]; exact this.2⟩
  · rw [hl, hlive]; intro x
    simp only [Limits.onConnectionClosed, mem_setRemove, h.outIff x]
    constructor
    · rintro ⟨⟨hc, l, hlm, h1, h2⟩, hne⟩
      exact ⟨hc, l, (mem_dropLive _ _ _).2 ⟨hlm, by rw [h1]; exact hne⟩, h1, h2⟩
    · rintro ⟨hc, l, hlm, h1, h2⟩
      have := (mem_dropLive _ _ _).1 hlm
      exact ⟨⟨hc, l, this.1, h1, h2⟩, by rw [← h1]; exact this.2⟩
  · rw [hlive]; intro l hlm
    have := (mem_dropLive _ _ _).1 hlm
    rw [hs]
    split
    · rename_i hq
      have h0 := h.liveSlots l this.1
      rw [hq] at h0
      exact PeerState.closed_slots _ _ _ h0 this.2
    · exact h.liveSlots l this.1
  · rw [hlive]; exact List.Nodup.sublist List.filter_sublist h.liveNodup

end Litep2pVerif.Manager

namespace Litep2pVerif.Manager

theorem PeerState.canDial_ok {s : PeerState} (h : s.canDial = .ok) : s = .disconnected none := by
  unfold PeerState.canDial at h; split at h <;> simp_all

/-! ## Ghost projections -/

theorem ghost_m (g : G) (i : In) (m' : Mgr) (out : Out) : (ghost g i m' out).m = m' := by
  cases i <;> simp only [ghost] <;> (repeat' split) <;> rfl

theorem ghost_live_other (g : G) (i : In) (m' : Mgr) (out : Out)
    (h1 : ∀ p ep ok, i ≠ .evEstablished p ep ok) (h2 : ∀ p c, i ≠ .evClosed p c)
    (h3 : ∀ c ok, i ≠ .acceptResult c ok) : (ghost g i m' out).live = g.live := by
  cases i <;> simp only [ghost] <;> (repeat' split) <;> first | rfl | simp_all

/-! ## Handlers that do not touch limits or slots -/

theorem dial_limits (s : Mgr) (p : Peer) (ch : List Multiaddr) : (dial s p ch).1.limits = s.limits := by
  unfold dial; (repeat' split) <;> rfl

theorem dial_slots (s : Mgr) (p : Peer) (ch : List Multiaddr) (q : Peer) (y : ConnId)
    (hy : y ∈ (stateOf s q).slots) : y ∈ (stateOf (dial s p ch).1 q).slots := by
  unfold dial; (repeat' split) <;> try exact hy
  rename_i hc _
  have := PeerState.canDial_ok hc
  show y ∈ (stateOf (setState s p _) q).slots
  rw [stateOf_setState]; split
  · rename_i hq; subst hq; rw [this] at hy; simp [PeerState.slots] at hy
  · exact hy

theorem dialAddress_limits (s : Mgr) (a : Multiaddr) : (dialAddress s a).1.limits = s.limits := by
  unfold dialAddress; (repeat' split) <;> rfl

theorem dialAddress_slots (s : Mgr) (a : Multiaddr) (q : Peer) (y : ConnId)
    (hy : y ∈ (stateOf s q).slots) : y ∈ (stateOf (dialAddress s a).1 q).slots := by
  unfold dialAddress; (repeat' split) <;> try exact hy
  all_goals first
    | (show y ∈ (stateOf (updAddr s _ _ _) q).slots; rw [stateOf_updAddr]; exact hy)
    | skip
  rename_i _ _ _ _ remote _ _ _ _ _ _ hc
  show y ∈ (stateOf (setState (updAddr s remote a 0) remote _) q).slots
  rw [stateOf_setState]; split
  · rename_i hq; subst hq
    unfold PeerState.dialSingleAddress at hc
    split at hc
    · rename_i hcd; rw [PeerState.canDial_ok hcd] at hy; simp [PeerState.slots] at hy
    · rename_i hne; simp at hc; exact absurd hc (by simpa using hne)
  · rw [stateOf_updAddr]; exact hy


theorem onOpened_limits (s : Mgr) (c : ConnId) (a : Multiaddr) (errs : List (Multiaddr × DialErr)) :
    (onOpened s c a errs).1.limits = s.limits := by
  unfold onOpened openedPre; (repeat' split) <;> simp

theorem onOpened_slots (s : Mgr) (c : ConnId) (a : Multiaddr) (errs : List (Multiaddr × DialErr))
    (q : Peer) (y : ConnId) (hy : y ∈ (stateOf s q).slots) :
    y ∈ (stateOf (onOpened s c a errs).1 q).slots := by
  unfold onOpened openedPre
  split
  · show y ∈ (stateOf (updAddrFails _ errs) q).slots
    rw [stateOf_updAddrFails]; exact hy
  · rename_i peer _
    split
    · rename_i hst
      show y ∈ (stateOf (setState (updAddr _ peer _ _) peer _) q).slots
      rw [stateOf_setState]; split
      · rename_i hq; subst hq
        rw [stateOf_updAddrFails] at hst
        have : stateOf s q = PeerState.opening _ _ _ := hst
        rw [this] at hy; simp [PeerState.slots] at hy
      · rw [stateOf_updAddr, stateOf_updAddrFails]; exact hy
    · show y ∈ (stateOf (updAddr _ peer _ _) q).slots
      rw [stateOf_updAddr, stateOf_updAddrFails]; exact hy

theorem onOpenFailure_limits (s : Mgr) (c : ConnId) (errs : List (Multiaddr × DialErr)) :
    (onOpenFailure s c errs).1.limits = s.limits := by
  unfold onOpenFailure; (repeat' split) <;> simp

theorem onOpenFailure_slots (s : Mgr) (c : ConnId) (errs : List (Multiaddr × DialErr))
    (q : Peer) (y : ConnId) (hy : y ∈ (stateOf s q).slots) :
    y ∈ (stateOf (onOpenFailure s c errs).1 q).slots := by
  have key : ∀ peer, y ∈ (stateOf (setState (updAddrFails s errs) peer
      ((stateOf (updAddrFails s errs) peer).onOpenFailure .tcp).1) q).slots := by
    intro peer
    rw [stateOf_setState]; split
    · rename_i hq; subst hq
      rw [PeerState.openFailure_slots, stateOf_updAddrFails]; exact hy
    · rw [stateOf_updAddrFails]; exact hy
  unfold onOpenFailure
  split
  · show y ∈ (stateOf (updAddrFails s errs) q).slots
    rw [stateOf_updAddrFails]; exact hy
  · rename_i peer _
    split
    · show y ∈ (stateOf (updAddrFails s errs) q).slots
      rw [stateOf_updAddrFails]; exact hy
    · split
      · exact key peer
      · exact key peer

theorem onDialFailure_limits (s : Mgr) (c : ConnId) (a : Multiaddr) (e : DialErr) :
    (onDialFailure s c a e).1.limits = s.limits := by
  unfold onDialFailure; (repeat' split) <;> simp

theorem onDialFailure_slots (s : Mgr) (c : ConnId) (a : Multiaddr) (e : DialErr)
    (q : Peer) (y : ConnId) (hy : y ∈ (stateOf s q).slots) :
    y ∈ (stateOf (onDialFailure s c a e).1 q).slots := by
  unfold onDialFailure
  split
  · rw [stateOf_updAddrFail]; exact hy
  · rename_i peer _
    show y ∈ (stateOf (setState (updAddrFail s a e) peer _) q).slots
    rw [stateOf_setState]; split
    · rename_i hq; subst hq
      rw [PeerState.dialFailure_slots, stateOf_updAddrFail]; exact hy
    · rw [stateOf_updAddrFail]; exact hy

/-! ## `on_connection_closed` -/

theorem closeConn_limits (s : Mgr) (p : Peer) (c : ConnId) :
    (closeConn s p c).1.limits = s.limits.onConnectionClosed c := rfl

theorem closeConn_pa (s : Mgr) (p : Peer) (c : ConnId) :
    (closeConn s p c).1.pendingAccept = s.pendingAccept := rfl

theorem closeConn_state (s : Mgr) (p : Peer) (c : ConnId) (q : Peer) :
    stateOf (closeConn s p c).1 q =
      if q = p then ((stateOf s p).onConnectionClosed c).1 else stateOf s q := by
  show stateOf (setState s p _) q = _
  rw [stateOf_setState]


/-! ## `ConnectionEstablished` -/

@[simp] theorem estPre_limits (s : Mgr) (p : Peer) (ep : Endpoint) : (estPre s p ep).limits = s.limits := by
  unfold estPre; split <;> rfl

@[simp] theorem estPre_state (s : Mgr) (p : Peer) (ep : Endpoint) (q : Peer) :
    stateOf (estPre s p ep) q = stateOf s q := by
  unfold estPre; split
  · rfl
  · show stateOf (updAddr s p _ _) q = _
    rw [stateOf_updAddr]

@[simp] theorem estPre_pa (s : Mgr) (p : Peer) (ep : Endpoint) : (estPre s p ep).pendingAccept = s.pendingAccept := by
  unfold estPre; split <;> rfl

theorem accept_not_mem_cancelCalls (st : PeerState) (c : ConnId) : Call.accept c ∉ cancelCalls st := by
  unfold cancelCalls; split <;> simp

/-- The three shapes of the `ConnectionEstablished` step. -/
inductive EstShape (s : Mgr) (p : Peer) (ep : Endpoint) (ok : Bool) (r : Mgr × Out) : Prop where
  | refused
      (hcalls : Call.accept ep.conn ∉ r.2.calls)
      (hlim : r.1.limits = s.limits)
      (hpa : r.1.pendingAccept = s.pendingAccept)
      (hslots : ∀ q y, y ∈ (stateOf s q).slots → y ∈ (stateOf r.1 q).slots)
  | accepted (hok : ok = true)
      (hcalls : Call.accept ep.conn ∈ r.2.calls)
      (hcan : s.limits.canAccept ep.isListener = true)
      (hest : ((stateOf s p).onConnectionEstablished (ConnRecord.new p ep.addr ep.conn)).2 = true)
      (hlim : r.1.limits = s.limits.accept ep.conn ep.isListener)
      (hpa : r.1.pendingAccept = s.pendingAccept ++ [(p, ep)])
      (hst : ∀ q, stateOf r.1 q =
        if q = p then ((stateOf s p).onConnectionEstablished (ConnRecord.new p ep.addr ep.conn)).1
        else stateOf s q)
  | rolledBack (hok : ok = false)
      (hcalls : Call.accept ep.conn ∈ r.2.calls)
      (hcan : s.limits.canAccept ep.isListener = true)
      (hest : ((stateOf s p).onConnectionEstablished (ConnRecord.new p ep.addr ep.conn)).2 = true)
      (hlim : r.1.limits =
        (s.limits.accept ep.conn ep.isListener).onConnectionClosed ep.conn)
      (hpa : r.1.pendingAccept = s.pendingAccept)
      (hst : ∀ q, stateOf r.1 q =
        if q = p then
          (((stateOf s p).onConnectionEstablished (ConnRecord.new p ep.addr ep.conn)).1.onConnectionClosed
            ep.conn).1
        else stateOf s q)

theorem est_shape' (s : Mgr) (p : Peer) (ep : Endpoint) (ok : Bool) (r : Mgr × Out)
    (hr : onEstablished s p ep ok = r) : EstShape s p ep ok r := by
  unfold onEstablished at hr
  split at hr
  · subst hr
    exact .refused (by simp) (by simp) (by simp) (by intro q y hy; simpa using hy)
  · split at hr
    · split at hr
      · subst hr
        refine .refused (by simp) (by simp) (by simp) ?_
        intro q y hy
        show y ∈ (stateOf (setState (estPre s p ep) p _) q).slots
        rw [stateOf_setState]; split
        · rename_i hq; subst hq
          rw [PeerState.dialFailure_slots, estPre_state]; exact hy
        · rw [estPre_state]; exact hy
      · subst hr
        exact .refused (by simp) (by simp) (by simp) (by intro q y hy; simpa using hy)
    · rename_i hcan
      have hcan' : s.limits.canAccept ep.isListener = true := by simpa using hcan
      split at hr
      · rename_i hest
        have hest' : ((stateOf s p).onConnectionEstablished (ConnRecord.new p ep.addr ep.conn)).2 = true := by
          simpa using hest
        split at hr
        · rename_i hok
          subst hr
          refine .accepted hok (by simp) hcan' hest' (by simp) (by simp) ?_
          intro q
          show stateOf (setState (estPre s p ep) p _) q = _
          rw [stateOf_setState]; split <;> simp
        · rename_i hok
          subst hr
          refine .rolledBack (by simpa using hok) (by simp) hcan' hest' ?_ ?_ ?_
          · rw [closeConn_limits]; simp
          · rw [closeConn_pa]; simp
          · intro q
            rw [closeConn_state]
            split
            · show ((stateOf (setState (estPre s p ep) p _) p).onConnectionClosed ep.conn).1 = _
              simp
            · show stateOf (setState (estPre s p ep) p _) q = _
              rw [stateOf_setState]; simp [*]
      · split at hr
        · subst hr
          exact .refused (by simp) (by simp) (by simp) (by intro q y hy; simpa using hy)
        · subst hr
          exact .refused (by simp) (by simp) (by simp) (by intro q y hy; simpa using hy)

theorem est_shape (s : Mgr) (p : Peer) (ep : Endpoint) (ok : Bool) :
    EstShape s p ep ok (onEstablished s p ep ok) := est_shape' s p ep ok _ rfl


theorem ghost_live_est (g : G) (p : Peer) (ep : Endpoint) (ok : Bool) (m' : Mgr) (out : Out) :
    (ghost g (.evEstablished p ep ok) m' out).live =
      if Call.accept ep.conn ∈ out.calls then
        (if ok then addLive ⟨p, ep.conn, ep.isListener⟩ g.live else dropLive ep.conn g.live)
      else g.live := by
  simp only [ghost]; split <;> (try split) <;> simp_all

theorem dropLive_addLive (c : ConnId) (x : Live) (ls : List Live) (hx : x.conn = c) :
    dropLive c (addLive x ls) = dropLive c ls := by
  unfold addLive; split
  · rfl
  · simp [dropLive, List.filter_cons, hx]

/-- Accepting connection `c` of peer `p`. -/
theorem inv06_accept {g g' : G} (h : Inv06 g) (p : Peer) (c : ConnId) (isL : Bool) (x : ConnRecord)
    (hx : x.conn = c)
    (hcan : g.m.limits.canAccept isL = true)
    (hest : ((stateOf g.m p).onConnectionEstablished x).2 = true)
    (hl : g'.m.limits = g.m.limits.accept c isL) (hlive : g'.live = addLive ⟨p, c, isL⟩ g.live)
    (hs : ∀ q, stateOf g'.m q = if q = p then ((stateOf g.m p).onConnectionEstablished x).1 else stateOf g.m q) :
    Inv06 g' := by
  have hcfg : (g.m.limits.accept c isL).cfg = g.m.limits.cfg := by
    unfold Limits.accept; (repeat' split) <;> rfl
  constructor
  · rw [hl, hcfg]; intro m hm
    unfold Limits.accept
    cases isL
    · simp only [Bool.false_eq_true, if_false]; split <;> exact h.inLe m hm
    · simp only [if_true, hm, Option.isSome_some]
      have h1 := length_setInsert_le g.m.limits.incoming c
      have h2 : g.m.limits.incoming.length < m := by
        simp [Limits.canAccept, hm] at hcan; exact hcan
      show (setInsert g.m.limits.incoming c).length ≤ m
      omega
  · rw [hl, hcfg]; intro m hm
    unfold Limits.accept
    cases isL
    · simp only [Bool.false_eq_true, if_false, hm, Option.isSome_some, if_true]
      have h1 := length_setInsert_le g.m.limits.outgoing c
      have h2 : g.m.limits.outgoing.length < m := by
        simp [Limits.canAccept, hm] at hcan; exact hcan
      show (setInsert g.m.limits.outgoing c).length ≤ m
      omega
    · simp only [if_true]; split <;> exact h.outLe m hm
  · rw [hl]; unfold Limits.accept; (repeat' split) <;> first | exact h.inNodup | exact nodup_setInsert _ _ h.inNodup
  · rw [hl]; unfold Limits.accept; (repeat' split) <;> first | exact h.outNodup | exact nodup_setInsert _ _ h.outNodup
  · rw [hl, hlive]; intro y
    have hiff := h.inIff y
    unfold Limits.accept
    cases isL
    · simp only [Bool.false_eq_true, if_false]
      have : (if g.m.limits.cfg.maxOut.isSome = true then
          ({ g.m.limits with outgoing := setInsert g.m.limits.outgoing c } : Limits) else g.m.limits).incoming
          = g.m.limits.incoming := by split <;> rfl
      have hc2 : (if g.m.limits.cfg.maxOut.isSome = true then
          ({ g.m.limits with outgoing := setInsert g.m.limits.outgoing c } : Limits) else g.m.limits).cfg
          = g.m.limits.cfg := by split <;> rfl
      rw [this, hc2, hiff]
      constructor
      · rintro ⟨hc, l, hlm, h1, h2⟩; exact ⟨hc, l, (mem_addLive _ _ _).2 (Or.inr hlm), h1, h2⟩
      · rintro ⟨hc, l, hlm, h1, h2⟩
        rcases (mem_addLive _ _ _).1 hlm with hh | hh
        · subst hh; simp at h2
        · exact ⟨hc, l, hh, h1, h2⟩
    · simp only [if_true]
      split
      · rename_i hsome
        show y ∈ setInsert g.m.limits.incoming c ↔ _
        rw [mem_setInsert, hiff]
        constructor
        · rintro (hy | ⟨hc, l, hlm, h1, h2⟩)
          · exact ⟨hsome, ⟨p, c, true⟩, (mem_addLive _ _ _).2 (Or.inl rfl), hy.symm, rfl⟩
          · exact ⟨hc, l, (mem_addLive _ _ _).2 (Or.inr hlm), h1, h2⟩
        · rintro ⟨hc, l, hlm, h1, h2⟩
          rcases (mem_addLive _ _ _).1 hlm with hh | hh
          · subst hh; exact Or.inl h1.symm
          · exact Or.inr ⟨hc, l, hh, h1, h2⟩
      · rename_i hnone
        rw [hiff]
        constructor
        · rintro ⟨hc, _⟩; exact absurd hc hnone
        · rintro ⟨hc, _⟩; exact absurd hc hnone
  · rw [hl, hlive]; intro y
    have hiff := h.outIff y
    unfold Limits.accept
    cases isL
    · simp only [Bool.false_eq_true, if_false]
      split
      · rename_i hsome
        show y ∈ setInsert g.m.limits.outgoing c ↔ _
        rw [mem_setInsert, hiff]
        constructor
        · rintro (hy | ⟨hc, l, hlm, h1, h2⟩)
          · exact ⟨hsome, ⟨p, c, false⟩, (mem_addLive _ _ _).2 (Or.inl rfl), hy.symm, rfl⟩
          · exact ⟨hc, l, (mem_addLive _ _ _).2 (Or.inr hlm), h1, h2⟩
        · rintro ⟨hc, l, hlm, h1, h2⟩
          rcases (mem_addLive _ _ _).1 hlm with hh | hh
          · subst hh; exact Or.inl h1.symm
          · exact Or.inr ⟨hc, l, hh, h1, h2⟩
      · rename_i hnone
        rw [hiff]
        constructor
        · rintro ⟨hc, _⟩; exact absurd hc hnone
        · rintro ⟨hc, _⟩; exact absurd hc hnone
    · simp only [if_true]
      have : (if g.m.limits.cfg.maxIn.isSome = true then
          ({ g.m.limits with incoming := setInsert g.m.limits.incoming c } : Limits) else g.m.limits).outgoing
          = g.m.limits.outgoing := by split <;> rfl
      have hc2 : (if g.m.limits.cfg.maxIn.isSome = true then
          ({ g.m.limits with incoming := setInsert g.m.limits.incoming c } : Limits) else g.m.limits).cfg
          = g.m.limits.cfg := by split <;> rfl
      rw [this, hc2, hiff]
      constructor
      · rintro ⟨hc, l, hlm, h1, h2⟩; exact ⟨hc, l, (mem_addLive _ _ _).2 (Or.inr hlm), h1, h2⟩
      · rintro ⟨hc, l, hlm, h1, h2⟩
        rcases (mem_addLive _ _ _).1 hlm with hh | hh
        · subst hh; simp at h2
        · exact ⟨hc, l, hh, h1, h2⟩
  · rw [hlive]; intro l hlm
    rcases (mem_addLive _ _ _).1 hlm with hh | hh
    · subst hh
      rw [hs]; simp only [if_true]
      rw [← hx]; exact PeerState.est_accept_mem _ _ hest
    · rw [hs]; split
      · rename_i hq
        have := h.liveSlots l hh
        rw [hq] at this
        exact PeerState.est_slots_mono _ _ _ this
      · exact h.liveSlots l hh
  · rw [hlive]; exact nodup_addLive _ _ h.liveNodup


theorem ghost_live_closed (g : G) (p : Peer) (c : ConnId) (m' : Mgr) (out : Out) :
    (ghost g (.evClosed p c) m' out).live = dropLive c g.live := rfl

theorem ghost_live_acceptResult (g : G) (c : ConnId) (ok : Bool) (m' : Mgr) (out : Out) :
    (ghost g (.acceptResult c ok) m' out).live =
      if ok then g.live else if (findAccept c g.m.pendingAccept).isSome then dropLive c g.live else g.live := rfl

theorem findAccept_conn {c : ConnId} {l : List (Peer × Endpoint)} {p : Peer} {ep : Endpoint}
    (h : findAccept c l = some (p, ep)) : ep.conn = c := by
  induction l with
  | nil => simp [findAccept] at h
  | cons x t ih =>
    obtain ⟨q, e⟩ := x
    simp only [findAccept] at h
    split at h
    · simp at h; rw [← h.2]; assumption
    · exact ih h

/-- **Preservation of the C06 invariant by every step, whatever the environment does.** -/
theorem inv06_step (g : G) (i : In) (h : Inv06 g) : Inv06 (gstep g i).1 := by
  unfold gstep
  cases i with
  | dial p ch =>
    refine inv06_same h ?_ ?_ ?_
    · rw [ghost_m]; exact dial_limits _ _ _
    · exact ghost_live_other _ _ _ _ (by simp) (by simp) (by simp)
    · intro q y hy; rw [ghost_m]; exact dial_slots _ _ _ _ _ hy
  | dialAddress a =>
    refine inv06_same h ?_ ?_ ?_
    · rw [ghost_m]; exact dialAddress_limits _ _
    · exact ghost_live_other _ _ _ _ (by simp) (by simp) (by simp)
    · intro q y hy; rw [ghost_m]; exact dialAddress_slots _ _ _ _ hy
  | addKnown p as =>
    refine inv06_same h ?_ ?_ ?_
    · rw [ghost_m]; simp [step, addKnown]
    · exact ghost_live_other _ _ _ _ (by simp) (by simp) (by simp)
    · intro q y hy; rw [ghost_m]; simpa [step, addKnown] using hy
  | alloc =>
    refine inv06_same h ?_ ?_ ?_
    · rw [ghost_m]; rfl
    · exact ghost_live_other _ _ _ _ (by simp) (by simp) (by simp)
    · intro q y hy; rw [ghost_m]; exact hy
  | evOpened c a errs =>
    refine inv06_same h ?_ ?_ ?_
    · rw [ghost_m]; exact onOpened_limits _ _ _ _
    · exact ghost_live_other _ _ _ _ (by simp) (by simp) (by simp)
    · intro q y hy; rw [ghost_m]; exact onOpened_slots _ _ _ _ _ _ hy
  | evOpenFailure c errs =>
    refine inv06_same h ?_ ?_ ?_
    · rw [ghost_m]; exact onOpenFailure_limits _ _ _
    · exact ghost_live_other _ _ _ _ (by simp) (by simp) (by simp)
    · intro q y hy; rw [ghost_m]; exact onOpenFailure_slots _ _ _ _ _ hy
  | evDialFailure c a e =>
    refine inv06_same h ?_ ?_ ?_
    · rw [ghost_m]; exact onDialFailure_limits _ _ _ _
    · exact ghost_live_other _ _ _ _ (by simp) (by simp) (by simp)
    · intro q y hy; rw [ghost_m]; exact onDialFailure_slots _ _ _ _ _ _ hy
  | evPendingInbound c =>
    refine inv06_same h ?_ ?_ ?_
    · rw [ghost_m]; simp only [step, onPendingInbound]; split <;> rfl
    · exact ghost_live_other _ _ _ _ (by simp) (by simp) (by simp)
    · intro q y hy; rw [ghost_m]; simp only [step, onPendingInbound]; split <;> exact hy
  | evClosed p c =>
    refine inv06_close h p c ?_ ?_ ?_
    · rw [ghost_m]; rfl
    · exact ghost_live_closed g p c _ _
    · intro q; rw [ghost_m]; exact closeConn_state _ _ _ _
  | acceptResult c ok =>
    show Inv06 (ghost g (.acceptResult c ok) (onAcceptResult g.m c ok).1 (onAcceptResult g.m c ok).2)
    unfold onAcceptResult
    split
    · rename_i hnone
      refine inv06_same h ?_ ?_ ?_
      · rw [ghost_m]
      · rw [ghost_live_acceptResult, hnone]; simp
      · intro q y hy; rw [ghost_m]; exact hy
    · rename_i p ep hsome
      split
      · rename_i hok
        refine inv06_same h ?_ ?_ ?_
        · rw [ghost_m]
        · rw [ghost_live_acceptResult, hok]; simp
        · intro q y hy; rw [ghost_m]; exact hy
      · rename_i hok
        refine inv06_close h p c ?_ ?_ ?_
        · rw [ghost_m]; rfl
        · rw [ghost_live_acceptResult, hsome]; simp [hok]
        · intro q; rw [ghost_m, closeConn_state]; rfl
  | evEstablished p ep ok =>
    show Inv06 (ghost g (.evEstablished p ep ok) (onEstablished g.m p ep ok).1 (onEstablished g.m p ep ok).2)
    cases est_shape g.m p ep ok with
    | refused hcalls hlim hpa hslots =>
      refine inv06_same h ?_ ?_ ?_
      · rw [ghost_m]; exact hlim
      · rw [ghost_live_est, if_neg hcalls]
      · intro q y hy; rw [ghost_m]; exact hslots q y hy
    | accepted hok hcalls hcan hest hlim hpa hst =>
      refine inv06_accept h p ep.conn ep.isListener (ConnRecord.new p ep.addr ep.conn) rfl hcan hest ?_ ?_ ?_
      · rw [ghost_m]; exact hlim
      · rw [ghost_live_est, if_pos hcalls, hok]; rfl
      · intro q; rw [ghost_m]; exact hst q
    | rolledBack hok hcalls hcan hest hlim hpa hst =>
      -- accept, then release
      let m1 : Mgr := { setState g.m p ((stateOf g.m p).onConnectionEstablished
        (ConnRecord.new p ep.addr ep.conn)).1 with limits := g.m.limits.accept ep.conn ep.isListener }
      let g1 : G := { g with m := m1, live := addLive ⟨p, ep.conn, ep.isListener⟩ g.live }
      have h1 : Inv06 g1 :=
        inv06_accept h p ep.conn ep.isListener (ConnRecord.new p ep.addr ep.conn) rfl hcan hest rfl rfl
          (by intro q; show stateOf (setState g.m p _) q = _; rw [stateOf_setState])
      refine inv06_close h1 p ep.conn ?_ ?_ ?_
      · rw [ghost_m]; exact hlim
      · rw [ghost_live_est, if_pos hcalls, hok]
        show dropLive ep.conn g.live = dropLive ep.conn (addLive _ g.live)
        exact (dropLive_addLive ep.conn ⟨p, ep.conn, ep.isListener⟩ g.live rfl).symm
      · intro q; rw [ghost_m, hst q]
        show _ = if q = p then ((stateOf (setState g.m p _) p).onConnectionClosed ep.conn).1
          else stateOf (setState g.m p _) q
        rw [stateOf_setState, stateOf_setState]; split <;> simp [*]

theorem inv06_reach {g : G} (h : ReachAny g) : Inv06 g := by
  induction h with
  | init cfg => exact inv06_init cfg
  | step i _ ih => exact inv06_step _ i ih

/-- The configured limits never change. -/
theorem cfg_step (g : G) (i : In) : (gstep g i).1.m.limits.cfg = g.m.limits.cfg := by
  unfold gstep; rw [ghost_m]
  cases i with
  | dial p ch => show (dial g.m p ch).1.limits.cfg = _; rw [dial_limits]
  | dialAddress a => show (dialAddress g.m a).1.limits.cfg = _; rw [dialAddress_limits]
  | addKnown p as => simp [step, addKnown]
  | alloc => rfl
  | evOpened c a errs => show (onOpened g.m c a errs).1.limits.cfg = _; rw [onOpened_limits]
  | evOpenFailure c errs => show (onOpenFailure g.m c errs).1.limits.cfg = _; rw [onOpenFailure_limits]
  | evDialFailure c a e => show (onDialFailure g.m c a e).1.limits.cfg = _; rw [onDialFailure_limits]
  | evPendingInbound c => simp only [step, onPendingInbound]; split <;> rfl
  | evClosed p c => rfl
  | acceptResult c ok =>
    show (onAcceptResult g.m c ok).1.limits.cfg = _
    unfold onAcceptResult; (repeat' split) <;> rfl
  | evEstablished p ep ok =>
    show (onEstablished g.m p ep ok).1.limits.cfg = _
    have hcfg : ∀ c b, (g.m.limits.accept c b).cfg = g.m.limits.cfg := by
      intro c b; unfold Limits.accept; (repeat' split) <;> rfl
    cases est_shape g.m p ep ok with
    | refused _ hlim _ _ => rw [hlim]
    | accepted _ _ _ _ hlim _ _ => rw [hlim, hcfg]
    | rolledBack _ _ _ _ hlim _ _ => rw [hlim]; exact hcfg _ _


theorem reachAny_runG (is : List In) {g : G} (h : ReachAny g) : ReachAny (runG g is) := by
  induction is generalizing g with
  | nil => exact h
  | cons i t ih => exact ih (ReachAny.step i h)

theorem cfg_runG (is : List In) (g : G) : (runG g is).m.limits.cfg = g.m.limits.cfg := by
  induction is generalizing g with
  | nil => rfl
  | cons i t ih => simp only [runG]; rw [ih, cfg_step]

theorem length_setRemove (l : List ConnId) (c : ConnId) (h : l.Nodup) :
    (setRemove l c).length + (if c ∈ l then 1 else 0) = l.length := by
  induction l with
  | nil => simp [setRemove]
  | cons x t ih =>
    have hn := List.nodup_cons.1 h
    have := ih hn.2
    simp only [setRemove, List.filter_cons] at this ⊢
    by_cases hx : x = c
    · subst hx
      have hnot : x ∉ t := hn.1
      simp [hnot] at this ⊢
      omega
    · have hx' : ¬ c = x := fun e => hx e.symm
      simp [hx, hx'] at this ⊢
      split at this <;> simp_all <;> omega

theorem PeerState.est_of_no_slots (s : PeerState) (x : ConnRecord) (h : s.slots = []) :
    (s.onConnectionEstablished x).2 = true := by
  unfold PeerState.onConnectionEstablished
  split <;> (try split) <;> simp_all [PeerState.slots]

end Litep2pVerif.Manager
