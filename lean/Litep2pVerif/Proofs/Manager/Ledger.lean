import Litep2pVerif.Proofs.Manager.Caps
import Litep2pVerif.Proofs.Manager.Addr
/-! The ghost-ledger invariant behind C05 (contract-abiding environments). -/
namespace Litep2pVerif.Manager

def conns (l : List Owed) : List ConnId := l.map (·.conn)

def evConn : Ev → Option ConnId
  | .established _ ep => some ep.conn
  | .dialFailure c _ _ => some c
  | .openFailure c _ => some c
  | .closed _ _ => none

/-! ## List helpers -/

theorem mem_dropOwed {c : ConnId} {o : Owed} {l : List Owed} : o ∈ dropOwed c l ↔ o ∈ l ∧ o.conn ≠ c := by
  simp [dropOwed]

theorem mem_conns {x : ConnId} {l : List Owed} : x ∈ conns l ↔ ∃ o ∈ l, o.conn = x := by
  simp [conns]

theorem mem_conns_dropOwed {c x : ConnId} {l : List Owed} : x ∈ conns (dropOwed c l) ↔ x ∈ conns l ∧ x ≠ c := by
  simp only [mem_conns, mem_dropOwed]
  constructor
  · rintro ⟨o, ⟨h1, h2⟩, h3⟩; exact ⟨⟨o, h1, h3⟩, h3 ▸ h2⟩
  · rintro ⟨⟨o, h1, h3⟩, h2⟩; exact ⟨o, ⟨h1, h3 ▸ h2⟩, h3⟩

theorem nodup_conns_dropOwed {c : ConnId} {l : List Owed} (h : (conns l).Nodup) : (conns (dropOwed c l)).Nodup := by
  induction l with
  | nil => simp [dropOwed, conns]
  | cons x t ih =>
    simp only [conns, List.map_cons, List.nodup_cons] at h
    simp only [dropOwed, List.filter_cons]
    split
    · simp only [conns, List.map_cons, List.nodup_cons]
      refine ⟨?_, ih h.2⟩
      intro hm
      have := (mem_conns_dropOwed (c := c) (l := t)).1 hm
      exact h.1 this.1
    · exact ih h.2

theorem dropOwed_of_not_mem {c : ConnId} {l : List Owed} (h : c ∉ conns l) : dropOwed c l = l := by
  simp only [dropOwed]
  apply List.filter_eq_self.2
  intro o ho
  simp only [decide_eq_true_eq]
  intro he; exact h (mem_conns.2 ⟨o, ho, he⟩)

theorem owed_unique {l : List Owed} (h : (conns l).Nodup) {o o' : Owed} (ho : o ∈ l) (ho' : o' ∈ l)
    (hc : o.conn = o'.conn) : o = o' := by
  induction l with
  | nil => cases ho
  | cons x t ih =>
    simp only [conns, List.map_cons, List.nodup_cons] at h
    rcases List.mem_cons.1 ho with rfl | ho1
    · rcases List.mem_cons.1 ho' with rfl | ho2
      · rfl
      · exact absurd (List.mem_map.2 ⟨o', ho2, hc.symm⟩) h.1
    · rcases List.mem_cons.1 ho' with rfl | ho2
      · exact absurd (List.mem_map.2 ⟨o, ho1, hc⟩) h.1
      · exact ih h.2 ho1 ho2

theorem owedPeer_of_mem {l : List Owed} (h : (conns l).Nodup) {o : Owed} (ho : o ∈ l) :
    owedPeer o.conn l = o.peer := by
  unfold owedPeer
  cases hf : l.find? (fun x => decide (x.conn = o.conn)) with
  | none =>
    have := List.find?_eq_none.1 hf o ho
    simp at this
  | some o' =>
    have hm := List.mem_of_find?_eq_some hf
    have hp := List.find?_some hf
    simp only [decide_eq_true_eq] at hp
    rw [owed_unique h hm ho hp]

theorem any_conn_iff {l : List Owed} {c : ConnId} : l.any (fun o => o.conn == c) = true ↔ c ∈ conns l := by
  simp [conns, List.any_eq_true]

/-! ## `findAccept` -/

theorem findAccept_append_isSome {c : ConnId} {l : List (Peer × Endpoint)} (x : Peer × Endpoint)
    (h : (findAccept c l).isSome = true) : (findAccept c (l ++ [x])).isSome = true := by
  induction l with
  | nil => simp [findAccept] at h
  | cons y t ih =>
    obtain ⟨q, e⟩ := y
    simp only [findAccept, List.cons_append] at h ⊢
    split
    · rfl
    · rename_i hne; simp only [hne, if_false] at h; exact ih h

theorem findAccept_append_self (l : List (Peer × Endpoint)) (p : Peer) (ep : Endpoint) :
    (findAccept ep.conn (l ++ [(p, ep)])).isSome = true := by
  induction l with
  | nil => simp [findAccept]
  | cons y t ih =>
    obtain ⟨q, e⟩ := y
    simp only [findAccept, List.cons_append]
    split
    · rfl
    · exact ih

theorem findAccept_eraseAccept {c c' : ConnId} {l : List (Peer × Endpoint)} (h : c' ≠ c) :
    findAccept c' (eraseAccept c l) = findAccept c' l := by
  induction l with
  | nil => rfl
  | cons y t ih =>
    obtain ⟨q, e⟩ := y
    simp only [eraseAccept]
    split
    · rename_i he
      simp only [findAccept]
      have : ¬ e.conn = c' := fun h2 => h (h2.symm.trans he)
      simp [this]
    · simp only [findAccept, ih]

/-! ## Outcome -/

theorem outcome_ghost (g : G) (i : In) (m' : Mgr) (out : Out) :
    (ghost g i m' out).log = g.log ++ out.events := by
  cases i <;> simp only [ghost] <;> (repeat' split) <;> rfl

def reportsOf (a : Attempt) (l : List Ev) : Nat := (l.map (reports a)).sum

theorem outcome_eq (g : G) (a : Attempt) : outcome g a = reportsOf a g.log := rfl

theorem reportsOf_append (a : Attempt) (l l' : List Ev) : reportsOf a (l ++ l') = reportsOf a l + reportsOf a l' := by
  simp [reportsOf, List.map_append, List.sum_append]

/-- A log without events for the attempt's ids reports nothing. -/
theorem reportsOf_zero (a : Attempt) (l : List Ev)
    (h : ∀ e ∈ l, ∀ c, evConn e = some c → c ≠ a.conn ∧ c ≠ a.carrier) : reportsOf a l = 0 := by
  induction l with
  | nil => rfl
  | cons e t ih =>
    simp only [reportsOf, List.map_cons, List.sum_cons]
    have h1 := h e (List.mem_cons_self ..)
    have h2 : reportsOf a t = 0 := ih (fun e' he' => h e' (List.mem_cons_of_mem _ he'))
    simp only [reportsOf] at h2
    rw [h2]
    cases e with
    | established p ep =>
      have := h1 ep.conn rfl
      simp [reports, this.2]
    | dialFailure c x y =>
      have := h1 c rfl
      simp [reports, this.1]
    | openFailure c x =>
      have := h1 c rfl
      simp [reports, this.1]
    | closed p c => simp [reports]

/-- Changing the carrier to an id that never occurs in the log keeps the failure reports only. -/
theorem reportsOf_recarry (a : Attempt) (c : ConnId) (l : List Ev)
    (h : ∀ e ∈ l, ∀ x, evConn e = some x → x ≠ c) (h0 : reportsOf a l = 0) :
    reportsOf { a with carrier := c } l = 0 := by
  induction l with
  | nil => rfl
  | cons e t ih =>
    simp only [reportsOf, List.map_cons, List.sum_cons] at h0 ⊢
    have ht : reportsOf a t = 0 := by simp only [reportsOf]; omega
    have he : reports a e = 0 := by omega
    have h2 := ih (fun e' he' => h e' (List.mem_cons_of_mem _ he')) ht
    simp only [reportsOf] at h2
    rw [h2]
    cases e with
    | established p ep =>
      have := h _ (List.mem_cons_self ..) ep.conn rfl
      simp [reports, this]
    | dialFailure x y z => simpa [reports] using he
    | openFailure x y => simpa [reports] using he
    | closed p x => simp [reports]

end Litep2pVerif.Manager

namespace Litep2pVerif.Manager

/-! ## The invariant -/

structure Inv05 (g : G) : Prop where
  trackOpen : ∀ o ∈ g.owed, o.phase = .opening →
    alookup o.conn g.m.pending = some o.peer ∧ ∃ as, stateOf g.m o.peer = .opening as o.conn [.tcp]
  trackDial : ∀ o ∈ g.owed, o.phase = .dialing →
    alookup o.conn g.m.pending = some o.peer ∧ (stateOf g.m o.peer).holdsDial o.conn = true
  trackAcc : ∀ o ∈ g.owed, o.phase = .accepting → (findAccept o.conn g.m.pendingAccept).isSome = true
  pendOwed : ∀ c p, alookup c g.m.pending = some p → ∃ o ∈ g.owed, o.conn = c ∧ o.phase ≠ .accepting
  openTracked : ∀ p as c ts, stateOf g.m p = .opening as c ts → ⟨c, .opening, p⟩ ∈ g.owed
  dialTracked : ∀ p c, (stateOf g.m p).holdsDial c = true → ⟨c, .dialing, p⟩ ∈ g.owed
  nodup : (conns g.owed).Nodup
  bOwed : ∀ o ∈ g.owed, o.conn < g.m.nextConn
  bFresh : ∀ c ∈ g.fresh, c < g.m.nextConn
  bLedger : ∀ a ∈ g.ledger, a.conn < g.m.nextConn ∧ a.carrier < g.m.nextConn
  bLog : ∀ e ∈ g.log, ∀ c, evConn e = some c → c < g.m.nextConn ∧ c ∉ conns g.owed ∧ c ∉ g.fresh
  freshOwed : ∀ c ∈ g.fresh, c ∉ conns g.owed
  ledFresh : ∀ a ∈ g.ledger, a.conn ∉ g.fresh ∧ a.carrier ∉ g.fresh
  carrierAcc : ∀ a ∈ g.ledger, a.carrier ≠ a.conn → ∀ o ∈ g.owed, o.conn = a.carrier → o.phase = .accepting
  ledger : ∀ a ∈ g.ledger, (a.conn ∈ conns g.owed → a.carrier = a.conn) ∧
    ((a.carrier ∈ conns g.owed ∧ outcome g a = 0) ∨ (a.carrier ∉ conns g.owed ∧ outcome g a = 1))

theorem inv05_init (cfg : LimitsCfg) : Inv05 (G.init cfg) := by
  constructor <;> simp [G.init, Mgr.init, conns, stateOf, alookup, PeerState.holdsDial]

theorem PeerState.holdsDial_unique {s : PeerState} {c c' : ConnId} (h : s.holdsDial c = true)
    (h' : s.holdsDial c' = true) : c = c' := by
  unfold PeerState.holdsDial at h h'
  split at h <;> simp_all

theorem PeerState.holdsDial_not_opening {s : PeerState} {c : ConnId} (h : s.holdsDial c = true)
    {as : List Multiaddr} {c' : ConnId} {ts : List Transport} : s ≠ .opening as c' ts := by
  intro he; subst he; simp [PeerState.holdsDial] at h

/-- Two obligations of the opening/dialing kind for the same peer are the same obligation. -/
theorem Inv05.same_peer {g : G} (h : Inv05 g) {o o' : Owed} (ho : o ∈ g.owed) (ho' : o' ∈ g.owed)
    (hp : o.phase ≠ .accepting) (hp' : o'.phase ≠ .accepting) (hpeer : o.peer = o'.peer) : o = o' := by
  apply owed_unique h.nodup ho ho'
  cases h1 : o.phase with
  | accepting => exact absurd h1 hp
  | opening =>
    obtain ⟨_, as, hs⟩ := h.trackOpen o ho h1
    cases h2 : o'.phase with
    | accepting => exact absurd h2 hp'
    | opening =>
      obtain ⟨_, as', hs'⟩ := h.trackOpen o' ho' h2
      rw [hpeer, hs'] at hs
      injection hs with _ hc _; exact hc.symm
    | dialing =>
      have := (h.trackDial o' ho' h2).2
      rw [← hpeer, hs] at this
      simp [PeerState.holdsDial] at this
  | dialing =>
    have hd := (h.trackDial o ho h1).2
    cases h2 : o'.phase with
    | accepting => exact absurd h2 hp'
    | opening =>
      obtain ⟨_, as', hs'⟩ := h.trackOpen o' ho' h2
      rw [hpeer, hs'] at hd
      simp [PeerState.holdsDial] at hd
    | dialing =>
      have hd' := (h.trackDial o' ho' h2).2
      rw [hpeer] at hd
      exact PeerState.holdsDial_unique hd hd'

theorem Inv05.pending_none {g : G} (h : Inv05 g) {c : ConnId} (hc : c ∉ conns g.owed) :
    alookup c g.m.pending = none := by
  cases hl : alookup c g.m.pending with
  | none => rfl
  | some p =>
    obtain ⟨o, ho, hoc, _⟩ := h.pendOwed c p hl
    exact absurd (mem_conns.2 ⟨o, ho, hoc⟩) hc

end Litep2pVerif.Manager

namespace Litep2pVerif.Manager

theorem outcome_of_log {g g' : G} (a : Attempt) (evs : List Ev) (hlog : g'.log = g.log ++ evs) :
    outcome g' a = outcome g a + reportsOf a evs := by
  rw [outcome_eq, outcome_eq, hlog, reportsOf_append]

theorem reportsOf_none (a : Attempt) (evs : List Ev) (h : ∀ e ∈ evs, evConn e = none) : reportsOf a evs = 0 :=
  reportsOf_zero a evs (fun e he c hc => by rw [h e he] at hc; cases hc)

/-- Steps that leave obligations, ledger and reports alone. -/
theorem inv05_frame {g g' : G} (h : Inv05 g)
    (howed : g'.owed = g.owed) (hled : g'.ledger = g.ledger)
    (evs : List Ev) (hlog : g'.log = g.log ++ evs) (hevs : ∀ e ∈ evs, evConn e = none)
    (hnc : g.m.nextConn ≤ g'.m.nextConn)
    (hfresh : ∀ c ∈ g'.fresh, c ∈ g.fresh ∨ (g.m.nextConn ≤ c ∧ c < g'.m.nextConn))
    (hpend : ∀ c, alookup c g'.m.pending = alookup c g.m.pending)
    (hpa : g'.m.pendingAccept = g.m.pendingAccept)
    (hopen : ∀ q as c ts, stateOf g'.m q = .opening as c ts ↔ stateOf g.m q = .opening as c ts)
    (hdial : ∀ q c, (stateOf g.m q).holdsDial c = true → (stateOf g'.m q).holdsDial c = true)
    (hdialBack : ∀ q c, (stateOf g'.m q).holdsDial c = true → (stateOf g.m q).holdsDial c = true) :
    Inv05 g' := by
  have hout : ∀ a, outcome g' a = outcome g a := by
    intro a; rw [outcome_of_log a evs hlog, reportsOf_none a evs hevs]; rfl
  constructor
  · intro o ho hp; rw [howed] at ho
    obtain ⟨h1, as, h2⟩ := h.trackOpen o ho hp
    exact ⟨by rw [hpend]; exact h1, as, (hopen _ _ _ _).2 h2⟩
  · intro o ho hp; rw [howed] at ho
    obtain ⟨h1, h2⟩ := h.trackDial o ho hp
    exact ⟨by rw [hpend]; exact h1, hdial _ _ h2⟩
  · intro o ho hp; rw [howed] at ho; rw [hpa]; exact h.trackAcc o ho hp
  · intro c p hc; rw [hpend] at hc; rw [howed]; exact h.pendOwed c p hc
  · intro p as c ts hs; rw [howed]; exact h.openTracked p as c ts ((hopen _ _ _ _).1 hs)
  · intro p c hs; rw [howed]; exact h.dialTracked p c (hdialBack _ _ hs)
  · rw [howed]; exact h.nodup
  · intro o ho; rw [howed] at ho; exact Nat.lt_of_lt_of_le (h.bOwed o ho) hnc
  · intro c hc
    rcases hfresh c hc with h1 | h1
    · exact Nat.lt_of_lt_of_le (h.bFresh c h1) hnc
    · exact h1.2
  · intro a ha; rw [hled] at ha
    exact ⟨Nat.lt_of_lt_of_le (h.bLedger a ha).1 hnc, Nat.lt_of_lt_of_le (h.bLedger a ha).2 hnc⟩
  · intro e he c hc
    rw [hlog] at he
    rcases List.mem_append.1 he with he | he
    · obtain ⟨h1, h2, h3⟩ := h.bLog e he c hc
      refine ⟨Nat.lt_of_lt_of_le h1 hnc, by rw [howed]; exact h2, ?_⟩
      intro hf
      rcases hfresh c hf with h4 | h4
      · exact h3 h4
      · exact Nat.lt_irrefl _ (Nat.lt_of_lt_of_le h1 h4.1)
    · rw [hevs e he] at hc; cases hc
  · intro c hc
    rw [howed]
    rcases hfresh c hc with h1 | h1
    · exact h.freshOwed c h1
    · intro hm
      obtain ⟨o, ho, hoc⟩ := mem_conns.1 hm
      have := h.bOwed o ho
      rw [hoc] at this
      exact Nat.lt_irrefl _ (Nat.lt_of_lt_of_le this h1.1)
  · intro a ha; rw [hled] at ha
    have hb := h.bLedger a ha
    have hf := h.ledFresh a ha
    constructor
    · intro hm; rcases hfresh _ hm with h1 | h1
      · exact hf.1 h1
      · exact Nat.lt_irrefl _ (Nat.lt_of_lt_of_le hb.1 h1.1)
    · intro hm; rcases hfresh _ hm with h1 | h1
      · exact hf.2 h1
      · exact Nat.lt_irrefl _ (Nat.lt_of_lt_of_le hb.2 h1.1)
  · intro a ha; rw [hled] at ha; rw [howed]; exact h.carrierAcc a ha
  · intro a ha; rw [hled] at ha; rw [howed, hout]; exact h.ledger a ha

end Litep2pVerif.Manager

namespace Litep2pVerif.Manager

theorem reportsOf_single (a : Attempt) (e : Ev) : reportsOf a [e] = reports a e := by
  simp [reportsOf]

/-- An opening/dialing obligation `o` ends with one failure report for its connection id. -/
theorem inv05_drop {g g' : G} (h : Inv05 g) (o : Owed) (ho : o ∈ g.owed) (hph : o.phase ≠ .accepting)
    (howed : g'.owed = dropOwed o.conn g.owed) (hled : g'.ledger = g.ledger) (hfresh : g'.fresh = g.fresh)
    (e : Ev) (hlog : g'.log = g.log ++ [e]) (hevc : evConn e = some o.conn)
    (hrep : ∀ a, reports a e = if o.conn = a.conn then 1 else 0)
    (hnc : g'.m.nextConn = g.m.nextConn)
    (hpend : ∀ c, alookup c g'.m.pending = if o.conn = c then none else alookup c g.m.pending)
    (hpa : g'.m.pendingAccept = g.m.pendingAccept)
    (hst : ∀ q, q ≠ o.peer → stateOf g'.m q = stateOf g.m q)
    (hnotopen : ∀ as c ts, stateOf g'.m o.peer ≠ .opening as c ts)
    (hnodial : ∀ c, (stateOf g'.m o.peer).holdsDial c = false) : Inv05 g' := by
  have hother : ∀ o' ∈ g.owed, o'.conn ≠ o.conn → o'.phase ≠ .accepting → o'.peer ≠ o.peer := by
    intro o' ho' hne hp' hpeer
    exact hne (congrArg Owed.conn (h.same_peer ho' ho hp' hph hpeer))
  constructor
  · intro o' ho' hp'; rw [howed] at ho'
    obtain ⟨hm, hne⟩ := mem_dropOwed.1 ho'
    obtain ⟨h1, as, h2⟩ := h.trackOpen o' hm hp'
    refine ⟨by rw [hpend, if_neg (fun e => hne e.symm)]; exact h1, as, ?_⟩
    rw [hst _ (hother o' hm hne (by rw [hp']; simp))]; exact h2
  · intro o' ho' hp'; rw [howed] at ho'
    obtain ⟨hm, hne⟩ := mem_dropOwed.1 ho'
    obtain ⟨h1, h2⟩ := h.trackDial o' hm hp'
    refine ⟨by rw [hpend, if_neg (fun e => hne e.symm)]; exact h1, ?_⟩
    rw [hst _ (hother o' hm hne (by rw [hp']; simp))]; exact h2
  · intro o' ho' hp'; rw [howed] at ho'; rw [hpa]
    exact h.trackAcc o' (mem_dropOwed.1 ho').1 hp'
  · intro c p hc; rw [hpend] at hc
    split at hc
    · cases hc
    · rename_i hne
      obtain ⟨o', ho', hoc, hp'⟩ := h.pendOwed c p hc
      exact ⟨o', by rw [howed]; exact mem_dropOwed.2 ⟨ho', by rw [hoc]; exact fun e => hne e.symm⟩, hoc, hp'⟩
  · intro p as c ts hs
    by_cases hp : p = o.peer
    · subst hp; exact absurd hs (hnotopen as c ts)
    · rw [hst p hp] at hs
      have hm := h.openTracked p as c ts hs
      rw [howed]; refine mem_dropOwed.2 ⟨hm, ?_⟩
      intro hc
      have := owed_unique h.nodup hm ho hc
      exact hp (by rw [← this])
  · intro p c hs
    by_cases hp : p = o.peer
    · subst hp; rw [hnodial c] at hs; cases hs
    · rw [hst p hp] at hs
      have hm := h.dialTracked p c hs
      rw [howed]; refine mem_dropOwed.2 ⟨hm, ?_⟩
      intro hc
      have := owed_unique h.nodup hm ho hc
      exact hp (by rw [← this])
  · rw [howed]; exact nodup_conns_dropOwed h.nodup
  · intro o' ho'; rw [howed] at ho'; rw [hnc]; exact h.bOwed o' (mem_dropOwed.1 ho').1
  · intro c hc; rw [hfresh] at hc; rw [hnc]; exact h.bFresh c hc
  · intro a ha; rw [hled] at ha; rw [hnc]; exact h.bLedger a ha
  · intro e' he' c hc
    rw [hlog] at he'; rw [hnc, howed, hfresh]
    rcases List.mem_append.1 he' with he' | he'
    · obtain ⟨h1, h2, h3⟩ := h.bLog e' he' c hc
      exact ⟨h1, fun hm => h2 (mem_conns_dropOwed.1 hm).1, h3⟩
    · rw [List.mem_singleton.1 he', hevc] at hc
      cases hc
      refine ⟨h.bOwed o ho, fun hm => (mem_conns_dropOwed.1 hm).2 rfl, ?_⟩
      intro hf; exact h.freshOwed _ hf (mem_conns.2 ⟨o, ho, rfl⟩)
  · intro c hc; rw [hfresh] at hc; rw [howed]
    exact fun hm => h.freshOwed c hc (mem_conns_dropOwed.1 hm).1
  · intro a ha; rw [hled] at ha; rw [hfresh]; exact h.ledFresh a ha
  · intro a ha hne o' ho' hoc; rw [hled] at ha; rw [howed] at ho'
    exact h.carrierAcc a ha hne o' (mem_dropOwed.1 ho').1 hoc
  · intro a ha; rw [hled] at ha
    have hl := h.ledger a ha
    have hout : outcome g' a = outcome g a + reports a e := by
      rw [outcome_of_log a [e] hlog, reportsOf_single]
    rw [howed, hout, hrep]
    refine ⟨fun hm => hl.1 (mem_conns_dropOwed.1 hm).1, ?_⟩
    by_cases hac : o.conn = a.conn
    · have hcar : a.carrier = a.conn := hl.1 (hac ▸ mem_conns.2 ⟨o, ho, rfl⟩)
      rw [if_pos hac]
      right
      rcases hl.2 with ⟨_, h0⟩ | ⟨hnot, _⟩
      · exact ⟨fun hm => (mem_conns_dropOwed.1 hm).2 (by rw [hcar, hac]), by omega⟩
      · exact absurd (by rw [hcar, ← hac]; exact mem_conns.2 ⟨o, ho, rfl⟩) hnot
    · rw [if_neg hac]
      have hcar : a.carrier ≠ o.conn := by
        intro hc
        have hne : a.carrier ≠ a.conn := by rw [hc]; exact hac
        exact hph (h.carrierAcc a ha hne o ho hc.symm)
      rcases hl.2 with ⟨hin, h0⟩ | ⟨hnot, h1⟩
      · left; exact ⟨mem_conns_dropOwed.2 ⟨hin, hcar⟩, by omega⟩
      · right; exact ⟨fun hm => hnot (mem_conns_dropOwed.1 hm).1, by omega⟩

end Litep2pVerif.Manager

namespace Litep2pVerif.Manager

theorem mem_conns_replace {c x : ConnId} {o' : Owed} {l : List Owed} (hc : c ∈ conns l) (ho' : o'.conn = c) :
    x ∈ conns (o' :: dropOwed c l) ↔ x ∈ conns l := by
  simp only [conns, List.map_cons, List.mem_cons]
  have := @mem_conns_dropOwed c x l
  simp only [conns] at this hc
  rw [this, ho']
  constructor
  · rintro (h | h)
    · rw [h]; exact hc
    · exact h.1
  · intro h
    by_cases hx : x = c
    · exact Or.inl hx
    · exact Or.inr ⟨h, hx⟩

/-- An opening/dialing obligation `o` moves to its next phase (same connection id, same peer). -/
theorem inv05_rephase {g g' : G} (h : Inv05 g) (o o' : Owed) (ho : o ∈ g.owed) (hph : o.phase ≠ .accepting)
    (hconn : o'.conn = o.conn) (hpeer : o'.peer = o.peer)
    (howed : g'.owed = o' :: dropOwed o.conn g.owed) (hled : g'.ledger = g.ledger)
    (hfresh : g'.fresh = g.fresh) (hlog : g'.log = g.log)
    (hnc : g'.m.nextConn = g.m.nextConn)
    (hto : o'.phase = .opening →
      alookup o'.conn g'.m.pending = some o'.peer ∧ ∃ as, stateOf g'.m o'.peer = .opening as o'.conn [.tcp])
    (htd : o'.phase = .dialing →
      alookup o'.conn g'.m.pending = some o'.peer ∧ (stateOf g'.m o'.peer).holdsDial o'.conn = true)
    (hta : o'.phase = .accepting → (findAccept o'.conn g'.m.pendingAccept).isSome = true)
    (hpendOther : ∀ c, c ≠ o.conn → alookup c g'.m.pending = alookup c g.m.pending)
    (hpendSelf : ∀ p, alookup o.conn g'.m.pending = some p → o'.phase ≠ .accepting)
    (hpaOther : ∀ c, (findAccept c g.m.pendingAccept).isSome = true → (findAccept c g'.m.pendingAccept).isSome = true)
    (hst : ∀ q, q ≠ o.peer → stateOf g'.m q = stateOf g.m q)
    (hnotopen : ∀ as c ts, stateOf g'.m o.peer ≠ .opening as c ts)
    (hdialNew : ∀ c, (stateOf g'.m o.peer).holdsDial c = true → c = o.conn ∧ o'.phase = .dialing) :
    Inv05 g' := by
  have hother : ∀ x ∈ g.owed, x.conn ≠ o.conn → x.phase ≠ .accepting → x.peer ≠ o.peer := by
    intro x hx hne hp' hpe
    exact hne (congrArg Owed.conn (h.same_peer hx ho hp' hph hpe))
  have hcin : o.conn ∈ conns g.owed := mem_conns.2 ⟨o, ho, rfl⟩
  have hmem : ∀ x, x ∈ conns g'.owed ↔ x ∈ conns g.owed := by
    intro x; rw [howed]; exact mem_conns_replace hcin hconn
  have hout : ∀ a, outcome g' a = outcome g a := by
    intro a; rw [outcome_eq, outcome_eq, hlog]
  constructor
  · intro x hx hp'; rw [howed] at hx
    rcases List.mem_cons.1 hx with rfl | hx
    · exact hto hp'
    · obtain ⟨hm, hne⟩ := mem_dropOwed.1 hx
      obtain ⟨h1, as, h2⟩ := h.trackOpen x hm hp'
      refine ⟨by rw [hpendOther _ hne]; exact h1, as, ?_⟩
      rw [hst _ (hother x hm hne (by rw [hp']; simp))]; exact h2
  · intro x hx hp'; rw [howed] at hx
    rcases List.mem_cons.1 hx with rfl | hx
    · exact htd hp'
    · obtain ⟨hm, hne⟩ := mem_dropOwed.1 hx
      obtain ⟨h1, h2⟩ := h.trackDial x hm hp'
      refine ⟨by rw [hpendOther _ hne]; exact h1, ?_⟩
      rw [hst _ (hother x hm hne (by rw [hp']; simp))]; exact h2
  · intro x hx hp'; rw [howed] at hx
    rcases List.mem_cons.1 hx with rfl | hx
    · exact hta hp'
    · exact hpaOther _ (h.trackAcc x (mem_dropOwed.1 hx).1 hp')
  · intro c p hc
    by_cases hcc : c = o.conn
    · subst hcc
      exact ⟨o', by rw [howed]; exact List.mem_cons_self .., hconn, hpendSelf p hc⟩
    · rw [hpendOther c hcc] at hc
      obtain ⟨x, hx, hxc, hp'⟩ := h.pendOwed c p hc
      exact ⟨x, by rw [howed]; exact List.mem_cons_of_mem _ (mem_dropOwed.2 ⟨hx, by rw [hxc]; exact hcc⟩), hxc, hp'⟩
  · intro p as c ts hs
    by_cases hp : p = o.peer
    · subst hp; exact absurd hs (hnotopen as c ts)
    · rw [hst p hp] at hs
      have hm := h.openTracked p as c ts hs
      rw [howed]; refine List.mem_cons_of_mem _ (mem_dropOwed.2 ⟨hm, ?_⟩)
      intro hc
      have := owed_unique h.nodup hm ho hc
      exact hp (by rw [← this])
  · intro p c hs
    by_cases hp : p = o.peer
    · subst hp
      obtain ⟨hc, hph'⟩ := hdialNew c hs
      rw [howed]
      have : o' = ⟨c, .dialing, o.peer⟩ := by
        cases o'; simp only at hconn hpeer hph'; subst hconn hpeer hph' hc; rfl
      rw [this]; exact List.mem_cons_self ..
    · rw [hst p hp] at hs
      have hm := h.dialTracked p c hs
      rw [howed]; refine List.mem_cons_of_mem _ (mem_dropOwed.2 ⟨hm, ?_⟩)
      intro hc
      have := owed_unique h.nodup hm ho hc
      exact hp (by rw [← this])
  · rw [howed]
    simp only [conns, List.map_cons, List.nodup_cons]
    refine ⟨?_, nodup_conns_dropOwed h.nodup⟩
    intro hm
    have := (mem_conns_dropOwed (c := o.conn) (l := g.owed)).1 hm
    exact this.2 hconn
  · intro x hx; rw [howed] at hx; rw [hnc]
    rcases List.mem_cons.1 hx with rfl | hx
    · rw [hconn]; exact h.bOwed o ho
    · exact h.bOwed x (mem_dropOwed.1 hx).1
  · intro c hc; rw [hfresh] at hc; rw [hnc]; exact h.bFresh c hc
  · intro a ha; rw [hled] at ha; rw [hnc]; exact h.bLedger a ha
  · intro e he c hc; rw [hlog] at he; rw [hnc, hfresh, hmem]; exact h.bLog e he c hc
  · intro c hc; rw [hfresh] at hc; rw [hmem]; exact h.freshOwed c hc
  · intro a ha; rw [hled] at ha; rw [hfresh]; exact h.ledFresh a ha
  · intro a ha hne x hx hxc; rw [hled] at ha; rw [howed] at hx
    rcases List.mem_cons.1 hx with rfl | hx
    · rw [hconn] at hxc
      exact absurd (h.carrierAcc a ha hne o ho hxc) hph
    · exact h.carrierAcc a ha hne x (mem_dropOwed.1 hx).1 hxc
  · intro a ha; rw [hled] at ha
    rw [hmem, hmem, hout]; exact h.ledger a ha

end Litep2pVerif.Manager

namespace Litep2pVerif.Manager

/-- A new attempt starts for an idle peer `p` with the next connection id. -/
theorem inv05_new {g g' : G} (h : Inv05 g) (p lp : Peer) (ph : Phase) (hph : ph ≠ .accepting)
    (hidle : stateOf g.m p = .disconnected none)
    (howed : g'.owed = ⟨g.m.nextConn, ph, p⟩ :: g.owed)
    (hled : g'.ledger = ⟨lp, g.m.nextConn, g.m.nextConn⟩ :: g.ledger)
    (hfresh : g'.fresh = g.fresh) (hlog : g'.log = g.log)
    (hnc : g'.m.nextConn = g.m.nextConn + 1)
    (hpend : g'.m.pending = ainsert g.m.nextConn p g.m.pending)
    (hpa : g'.m.pendingAccept = g.m.pendingAccept)
    (hst : ∀ q, q ≠ p → stateOf g'.m q = stateOf g.m q)
    (hnew : (ph = .opening → ∃ as, stateOf g'.m p = .opening as g.m.nextConn [.tcp]) ∧
            (ph = .dialing → ∃ a, stateOf g'.m p = .dialing ⟨a, g.m.nextConn⟩)) : Inv05 g' := by
  have hother : ∀ x ∈ g.owed, x.phase ≠ .accepting → x.peer ≠ p := by
    intro x hx hp' hpe
    cases hxp : x.phase with
    | accepting => exact hp' hxp
    | opening =>
      obtain ⟨_, as, hs⟩ := h.trackOpen x hx hxp
      rw [hpe, hidle] at hs; cases hs
    | dialing =>
      have := (h.trackDial x hx hxp).2
      rw [hpe, hidle] at this; simp [PeerState.holdsDial] at this
  have hlt : ∀ x ∈ g.owed, x.conn ≠ g.m.nextConn := fun x hx => Nat.ne_of_lt (h.bOwed x hx)
  have hnin : g.m.nextConn ∉ conns g.owed := by
    intro hm; obtain ⟨x, hx, hxc⟩ := mem_conns.1 hm; exact hlt x hx hxc
  have hout : ∀ a, outcome g' a = outcome g a := by
    intro a; rw [outcome_eq, outcome_eq, hlog]
  have hmem : ∀ x, x ∈ conns g'.owed ↔ x = g.m.nextConn ∨ x ∈ conns g.owed := by
    intro x; rw [howed]; simp [conns]
  constructor
  · intro x hx hp'; rw [howed] at hx
    rcases List.mem_cons.1 hx with rfl | hx
    · refine ⟨by rw [hpend, alookup_ainsert]; simp, ?_⟩
      exact hnew.1 hp'
    · obtain ⟨h1, as, h2⟩ := h.trackOpen x hx hp'
      refine ⟨by rw [hpend, alookup_ainsert, if_neg (fun e => hlt x hx e.symm)]; exact h1, as, ?_⟩
      rw [hst _ (hother x hx (by rw [hp']; simp))]; exact h2
  · intro x hx hp'; rw [howed] at hx
    rcases List.mem_cons.1 hx with rfl | hx
    · refine ⟨by rw [hpend, alookup_ainsert]; simp, ?_⟩
      obtain ⟨a, ha⟩ := hnew.2 hp'
      show (stateOf g'.m p).holdsDial g.m.nextConn = true
      rw [ha]; simp [PeerState.holdsDial]
    · obtain ⟨h1, h2⟩ := h.trackDial x hx hp'
      refine ⟨by rw [hpend, alookup_ainsert, if_neg (fun e => hlt x hx e.symm)]; exact h1, ?_⟩
      rw [hst _ (hother x hx (by rw [hp']; simp))]; exact h2
  · intro x hx hp'; rw [howed] at hx
    rcases List.mem_cons.1 hx with rfl | hx
    · exact absurd hp' hph
    · rw [hpa]; exact h.trackAcc x hx hp'
  · intro c q hc; rw [hpend, alookup_ainsert] at hc
    split at hc
    · rename_i hcc
      exact ⟨_, by rw [howed]; exact List.mem_cons_self .., hcc, hph⟩
    · obtain ⟨x, hx, hxc, hp'⟩ := h.pendOwed c q hc
      exact ⟨x, by rw [howed]; exact List.mem_cons_of_mem _ hx, hxc, hp'⟩
  · intro q as c ts hs
    by_cases hq : q = p
    · subst hq
      cases ph with
      | accepting => exact absurd rfl hph
      | opening =>
        obtain ⟨as', hs'⟩ := hnew.1 rfl
        rw [hs'] at hs; injection hs with _ hc _
        rw [howed, ← hc]; exact List.mem_cons_self ..
      | dialing =>
        obtain ⟨a, hs'⟩ := hnew.2 rfl
        rw [hs'] at hs; cases hs
    · rw [hst q hq] at hs
      rw [howed]; exact List.mem_cons_of_mem _ (h.openTracked q as c ts hs)
  · intro q c hs
    by_cases hq : q = p
    · subst hq
      cases ph with
      | accepting => exact absurd rfl hph
      | opening =>
        obtain ⟨as', hs'⟩ := hnew.1 rfl
        rw [hs'] at hs; simp [PeerState.holdsDial] at hs
      | dialing =>
        obtain ⟨a, hs'⟩ := hnew.2 rfl
        rw [hs'] at hs; simp only [PeerState.holdsDial, beq_iff_eq] at hs
        rw [howed, ← hs]; exact List.mem_cons_self ..
    · rw [hst q hq] at hs
      rw [howed]; exact List.mem_cons_of_mem _ (h.dialTracked q c hs)
  · rw [howed]; simp only [conns, List.map_cons, List.nodup_cons]
    exact ⟨hnin, h.nodup⟩
  · intro x hx; rw [howed] at hx; rw [hnc]
    rcases List.mem_cons.1 hx with rfl | hx
    · exact Nat.lt_succ_self _
    · exact Nat.lt_succ_of_lt (h.bOwed x hx)
  · intro c hc; rw [hfresh] at hc; rw [hnc]; exact Nat.lt_succ_of_lt (h.bFresh c hc)
  · intro a ha; rw [hled] at ha; rw [hnc]
    rcases List.mem_cons.1 ha with rfl | ha
    · exact ⟨Nat.lt_succ_self _, Nat.lt_succ_self _⟩
    · exact ⟨Nat.lt_succ_of_lt (h.bLedger a ha).1, Nat.lt_succ_of_lt (h.bLedger a ha).2⟩
  · intro e he c hc; rw [hlog] at he; rw [hnc, hfresh, hmem]
    obtain ⟨h1, h2, h3⟩ := h.bLog e he c hc
    refine ⟨Nat.lt_succ_of_lt h1, ?_, h3⟩
    rintro (h4 | h4)
    · exact Nat.ne_of_lt h1 h4
    · exact h2 h4
  · intro c hc; rw [hfresh] at hc; rw [hmem]
    rintro (h4 | h4)
    · exact Nat.ne_of_lt (h.bFresh c hc) h4
    · exact h.freshOwed c hc h4
  · intro a ha; rw [hled] at ha; rw [hfresh]
    rcases List.mem_cons.1 ha with rfl | ha
    · have : g.m.nextConn ∉ g.fresh := fun hm => Nat.lt_irrefl _ (h.bFresh _ hm)
      exact ⟨this, this⟩
    · exact h.ledFresh a ha
  · intro a ha hne x hx hxc; rw [hled] at ha; rw [howed] at hx
    rcases List.mem_cons.1 ha with rfl | ha
    · exact absurd rfl hne
    · rcases List.mem_cons.1 hx with rfl | hx
      · exact absurd hxc.symm (Nat.ne_of_lt (h.bLedger a ha).2)
      · exact h.carrierAcc a ha hne x hx hxc
  · intro a ha; rw [hled] at ha
    rcases List.mem_cons.1 ha with rfl | ha
    · refine ⟨fun _ => rfl, Or.inl ⟨(hmem _).2 (Or.inl rfl), ?_⟩⟩
      rw [hout, outcome_eq]
      apply reportsOf_zero
      intro e he c hc
      have := (h.bLog e he c hc).1
      exact ⟨Nat.ne_of_lt this, Nat.ne_of_lt this⟩
    · have hb := h.bLedger a ha
      have hl := h.ledger a ha
      rw [hout]
      constructor
      · intro hm
        rcases (hmem _).1 hm with h4 | h4
        · exact absurd h4 (Nat.ne_of_lt hb.1)
        · exact hl.1 h4
      · rcases hl.2 with ⟨hin, h0⟩ | ⟨hnot, h1⟩
        · exact Or.inl ⟨(hmem _).2 (Or.inr hin), h0⟩
        · refine Or.inr ⟨?_, h1⟩
          intro hm
          rcases (hmem _).1 hm with h4 | h4
          · exact Nat.ne_of_lt hb.2 h4
          · exact hnot h4

end Litep2pVerif.Manager

namespace Litep2pVerif.Manager

theorem mem_filter_ne {c x : ConnId} {l : List ConnId} : x ∈ l.filter (· ≠ c) ↔ x ∈ l ∧ x ≠ c := by
  simp

/-- An inbound connection with a fresh id is accepted (no `Opening` attempt superseded). -/
theorem inv05_inbound {g g' : G} (h : Inv05 g) (c : ConnId) (p : Peer) (hc : c ∈ g.fresh)
    (howed : g'.owed = ⟨c, .accepting, p⟩ :: g.owed) (hled : g'.ledger = g.ledger)
    (hfresh : g'.fresh = g.fresh.filter (· ≠ c)) (hlog : g'.log = g.log)
    (hnc : g'.m.nextConn = g.m.nextConn)
    (hpend : ∀ x, alookup x g'.m.pending = alookup x g.m.pending)
    (hpaSelf : (findAccept c g'.m.pendingAccept).isSome = true)
    (hpaOther : ∀ x, (findAccept x g.m.pendingAccept).isSome = true → (findAccept x g'.m.pendingAccept).isSome = true)
    (hopen : ∀ q as x ts, stateOf g'.m q = .opening as x ts ↔ stateOf g.m q = .opening as x ts)
    (hdial : ∀ q x, x ≠ c → (stateOf g.m q).holdsDial x = true → (stateOf g'.m q).holdsDial x = true)
    (hdialBack : ∀ q x, (stateOf g'.m q).holdsDial x = true → (stateOf g.m q).holdsDial x = true) :
    Inv05 g' := by
  have hnin : c ∉ conns g.owed := h.freshOwed c hc
  have hne : ∀ x ∈ g.owed, x.conn ≠ c := fun x hx e => hnin (mem_conns.2 ⟨x, hx, e⟩)
  have hout : ∀ a, outcome g' a = outcome g a := by
    intro a; rw [outcome_eq, outcome_eq, hlog]
  have hmem : ∀ x, x ∈ conns g'.owed ↔ x = c ∨ x ∈ conns g.owed := by
    intro x; rw [howed]; simp [conns]
  constructor
  · intro x hx hp'; rw [howed] at hx
    rcases List.mem_cons.1 hx with rfl | hx
    · cases hp'
    · obtain ⟨h1, as, h2⟩ := h.trackOpen x hx hp'
      exact ⟨by rw [hpend]; exact h1, as, (hopen _ _ _ _).2 h2⟩
  · intro x hx hp'; rw [howed] at hx
    rcases List.mem_cons.1 hx with rfl | hx
    · cases hp'
    · obtain ⟨h1, h2⟩ := h.trackDial x hx hp'
      exact ⟨by rw [hpend]; exact h1, hdial _ _ (hne x hx) h2⟩
  · intro x hx hp'; rw [howed] at hx
    rcases List.mem_cons.1 hx with rfl | hx
    · exact hpaSelf
    · exact hpaOther _ (h.trackAcc x hx hp')
  · intro x q hx; rw [hpend] at hx
    obtain ⟨y, hy, hyc, hp'⟩ := h.pendOwed x q hx
    exact ⟨y, by rw [howed]; exact List.mem_cons_of_mem _ hy, hyc, hp'⟩
  · intro q as x ts hs
    rw [howed]; exact List.mem_cons_of_mem _ (h.openTracked q as x ts ((hopen _ _ _ _).1 hs))
  · intro q x hs
    rw [howed]; exact List.mem_cons_of_mem _ (h.dialTracked q x (hdialBack _ _ hs))
  · rw [howed]; simp only [conns, List.map_cons, List.nodup_cons]; exact ⟨hnin, h.nodup⟩
  · intro x hx; rw [howed] at hx; rw [hnc]
    rcases List.mem_cons.1 hx with rfl | hx
    · exact h.bFresh c hc
    · exact h.bOwed x hx
  · intro x hx; rw [hfresh] at hx; rw [hnc]; exact h.bFresh x (mem_filter_ne.1 hx).1
  · intro a ha; rw [hled] at ha; rw [hnc]; exact h.bLedger a ha
  · intro e he x hx; rw [hlog] at he; rw [hnc, hfresh, hmem]
    obtain ⟨h1, h2, h3⟩ := h.bLog e he x hx
    refine ⟨h1, ?_, fun hm => h3 (mem_filter_ne.1 hm).1⟩
    rintro (h4 | h4)
    · exact h3 (h4 ▸ hc)
    · exact h2 h4
  · intro x hx; rw [hfresh] at hx; rw [hmem]
    obtain ⟨hx1, hx2⟩ := mem_filter_ne.1 hx
    rintro (h4 | h4)
    · exact hx2 h4
    · exact h.freshOwed x hx1 h4
  · intro a ha; rw [hled] at ha; rw [hfresh]
    exact ⟨fun hm => (h.ledFresh a ha).1 (mem_filter_ne.1 hm).1, fun hm => (h.ledFresh a ha).2 (mem_filter_ne.1 hm).1⟩
  · intro a ha hnec x hx hxc; rw [hled] at ha; rw [howed] at hx
    rcases List.mem_cons.1 hx with rfl | hx
    · rfl
    · exact h.carrierAcc a ha hnec x hx hxc
  · intro a ha; rw [hled] at ha
    have hf := h.ledFresh a ha
    have hl := h.ledger a ha
    have h1 : a.conn ≠ c := fun e => hf.1 (e ▸ hc)
    have h2 : a.carrier ≠ c := fun e => hf.2 (e ▸ hc)
    rw [hout, hmem, hmem]
    constructor
    · rintro (h4 | h4)
      · exact absurd h4 h1
      · exact hl.1 h4
    · rcases hl.2 with ⟨hin, h0⟩ | ⟨hnot, h1'⟩
      · exact Or.inl ⟨Or.inr hin, h0⟩
      · refine Or.inr ⟨?_, h1'⟩
        rintro (h4 | h4)
        · exact h2 h4
        · exact hnot h4

/-- A pending accept resolves: `ConnectionEstablished` is reported for its connection. -/
theorem inv05_accepted {g g' : G} (h : Inv05 g) (o : Owed) (ho : o ∈ g.owed) (hph : o.phase = .accepting)
    (p : Peer) (ep : Endpoint) (hep : ep.conn = o.conn)
    (howed : g'.owed = dropOwed o.conn g.owed) (hled : g'.ledger = g.ledger) (hfresh : g'.fresh = g.fresh)
    (hlog : g'.log = g.log ++ [.established p ep])
    (hnc : g'.m.nextConn = g.m.nextConn)
    (hpend : g'.m.pending = g.m.pending)
    (hpa : ∀ x, x ≠ o.conn → findAccept x g'.m.pendingAccept = findAccept x g.m.pendingAccept)
    (hst : ∀ q, stateOf g'.m q = stateOf g.m q) : Inv05 g' := by
  constructor
  · intro x hx hp'; rw [howed] at hx
    obtain ⟨h1, as, h2⟩ := h.trackOpen x (mem_dropOwed.1 hx).1 hp'
    exact ⟨by rw [hpend]; exact h1, as, by rw [hst]; exact h2⟩
  · intro x hx hp'; rw [howed] at hx
    obtain ⟨h1, h2⟩ := h.trackDial x (mem_dropOwed.1 hx).1 hp'
    exact ⟨by rw [hpend]; exact h1, by rw [hst]; exact h2⟩
  · intro x hx hp'; rw [howed] at hx
    obtain ⟨hm, hne⟩ := mem_dropOwed.1 hx
    rw [hpa _ hne]; exact h.trackAcc x hm hp'
  · intro c q hc; rw [hpend] at hc
    obtain ⟨y, hy, hyc, hp'⟩ := h.pendOwed c q hc
    refine ⟨y, ?_, hyc, hp'⟩
    rw [howed]; refine mem_dropOwed.2 ⟨hy, ?_⟩
    intro hcc
    have := owed_unique h.nodup hy ho hcc
    rw [this] at hp'; exact hp' hph
  · intro q as c ts hs; rw [hst] at hs
    have hm := h.openTracked q as c ts hs
    rw [howed]; refine mem_dropOwed.2 ⟨hm, ?_⟩
    intro hcc
    have := owed_unique h.nodup hm ho hcc
    rw [← this] at hph; cases hph
  · intro q c hs; rw [hst] at hs
    have hm := h.dialTracked q c hs
    rw [howed]; refine mem_dropOwed.2 ⟨hm, ?_⟩
    intro hcc
    have := owed_unique h.nodup hm ho hcc
    rw [← this] at hph; cases hph
  · rw [howed]; exact nodup_conns_dropOwed h.nodup
  · intro x hx; rw [howed] at hx; rw [hnc]; exact h.bOwed x (mem_dropOwed.1 hx).1
  · intro c hc; rw [hfresh] at hc; rw [hnc]; exact h.bFresh c hc
  · intro a ha; rw [hled] at ha; rw [hnc]; exact h.bLedger a ha
  · intro e he c hc
    rw [hlog] at he; rw [hnc, howed, hfresh]
    rcases List.mem_append.1 he with he | he
    · obtain ⟨h1, h2, h3⟩ := h.bLog e he c hc
      exact ⟨h1, fun hm => h2 (mem_conns_dropOwed.1 hm).1, h3⟩
    · rw [List.mem_singleton.1 he] at hc
      simp only [evConn, Option.some.injEq] at hc
      subst hc; rw [hep]
      refine ⟨h.bOwed o ho, fun hm => (mem_conns_dropOwed.1 hm).2 rfl, ?_⟩
      intro hf; exact h.freshOwed _ hf (mem_conns.2 ⟨o, ho, rfl⟩)
  · intro c hc; rw [hfresh] at hc; rw [howed]
    exact fun hm => h.freshOwed c hc (mem_conns_dropOwed.1 hm).1
  · intro a ha; rw [hled] at ha; rw [hfresh]; exact h.ledFresh a ha
  · intro a ha hne x hx hxc; rw [hled] at ha; rw [howed] at hx
    exact h.carrierAcc a ha hne x (mem_dropOwed.1 hx).1 hxc
  · intro a ha; rw [hled] at ha
    have hl := h.ledger a ha
    have hout : outcome g' a = outcome g a + (if ep.conn = a.carrier then 1 else 0) := by
      rw [outcome_of_log a [.established p ep] hlog, reportsOf_single]; rfl
    rw [howed, hout, hep]
    refine ⟨fun hm => hl.1 (mem_conns_dropOwed.1 hm).1, ?_⟩
    by_cases hac : o.conn = a.carrier
    · rw [if_pos hac]
      right
      rcases hl.2 with ⟨_, h0⟩ | ⟨hnot, _⟩
      · exact ⟨fun hm => (mem_conns_dropOwed.1 hm).2 hac.symm, by omega⟩
      · exact absurd (hac ▸ mem_conns.2 ⟨o, ho, rfl⟩) hnot
    · rw [if_neg hac]
      rcases hl.2 with ⟨hin, h0⟩ | ⟨hnot, h1⟩
      · left; exact ⟨mem_conns_dropOwed.2 ⟨hin, fun e => hac e.symm⟩, by omega⟩
      · right; exact ⟨fun hm => hnot (mem_conns_dropOwed.1 hm).1, by omega⟩

end Litep2pVerif.Manager

namespace Litep2pVerif.Manager

theorem mem_recarry {c0 c : ConnId} {l : List Attempt} {b : Attempt} :
    b ∈ recarry [c0] c l ↔ ∃ a ∈ l, b = if a.carrier = c0 then { a with carrier := c } else a := by
  simp only [recarry, List.mem_map, List.mem_singleton]
  constructor
  · rintro ⟨a, ha, rfl⟩; exact ⟨a, ha, rfl⟩
  · rintro ⟨a, ha, rfl⟩; exact ⟨a, ha, rfl⟩

/-- An inbound connection with a fresh id supersedes the `Opening` attempt `c0` of the same peer:
the attempt is cancelled and its fate is carried by the inbound connection. -/
theorem inv05_supersede {g g' : G} (h : Inv05 g) (c c0 : ConnId) (p : Peer) (hc : c ∈ g.fresh)
    (ho : (⟨c0, .opening, p⟩ : Owed) ∈ g.owed)
    (howed : g'.owed = ⟨c, .accepting, p⟩ :: dropOwed c0 g.owed)
    (hled : g'.ledger = recarry [c0] c g.ledger)
    (hfresh : g'.fresh = g.fresh.filter (· ≠ c)) (hlog : g'.log = g.log)
    (hnc : g'.m.nextConn = g.m.nextConn)
    (hpend : ∀ x, alookup x g'.m.pending = if c0 = x then none else alookup x g.m.pending)
    (hpaSelf : (findAccept c g'.m.pendingAccept).isSome = true)
    (hpaOther : ∀ x, (findAccept x g.m.pendingAccept).isSome = true → (findAccept x g'.m.pendingAccept).isSome = true)
    (hst : ∀ q, q ≠ p → stateOf g'.m q = stateOf g.m q)
    (hnotopen : ∀ as x ts, stateOf g'.m p ≠ .opening as x ts)
    (hnodial : ∀ x, (stateOf g'.m p).holdsDial x = false) : Inv05 g' := by
  have hnin : c ∉ conns g.owed := h.freshOwed c hc
  have hcc0 : c0 ≠ c := fun e => hnin (e ▸ mem_conns.2 ⟨_, ho, rfl⟩)
  have hother : ∀ x ∈ g.owed, x.conn ≠ c0 → x.phase ≠ .accepting → x.peer ≠ p := by
    intro x hx hne hp' hpe
    exact hne (congrArg Owed.conn (h.same_peer hx ho hp' (by simp) hpe))
  have hmem : ∀ x, x ∈ conns g'.owed ↔ x = c ∨ (x ∈ conns g.owed ∧ x ≠ c0) := by
    intro x; rw [howed]
    simp only [conns, List.map_cons, List.mem_cons]
    have := @mem_conns_dropOwed c0 x g.owed
    simp only [conns] at this
    rw [this]
  have hlogc : ∀ e ∈ g.log, ∀ x, evConn e = some x → x ≠ c := by
    intro e he x hx hxc; exact (h.bLog e he x hx).2.2 (hxc ▸ hc)
  constructor
  · intro x hx hp'; rw [howed] at hx
    rcases List.mem_cons.1 hx with rfl | hx
    · cases hp'
    · obtain ⟨hm, hne⟩ := mem_dropOwed.1 hx
      obtain ⟨h1, as, h2⟩ := h.trackOpen x hm hp'
      refine ⟨by rw [hpend, if_neg (fun e => hne e.symm)]; exact h1, as, ?_⟩
      rw [hst _ (hother x hm hne (by rw [hp']; simp))]; exact h2
  · intro x hx hp'; rw [howed] at hx
    rcases List.mem_cons.1 hx with rfl | hx
    · cases hp'
    · obtain ⟨hm, hne⟩ := mem_dropOwed.1 hx
      obtain ⟨h1, h2⟩ := h.trackDial x hm hp'
      refine ⟨by rw [hpend, if_neg (fun e => hne e.symm)]; exact h1, ?_⟩
      rw [hst _ (hother x hm hne (by rw [hp']; simp))]; exact h2
  · intro x hx hp'; rw [howed] at hx
    rcases List.mem_cons.1 hx with rfl | hx
    · exact hpaSelf
    · exact hpaOther _ (h.trackAcc x (mem_dropOwed.1 hx).1 hp')
  · intro x q hx; rw [hpend] at hx
    split at hx
    · cases hx
    · rename_i hne
      obtain ⟨y, hy, hyc, hp'⟩ := h.pendOwed x q hx
      exact ⟨y, by rw [howed]; exact List.mem_cons_of_mem _ (mem_dropOwed.2 ⟨hy, by rw [hyc]; exact fun e => hne e.symm⟩), hyc, hp'⟩
  · intro q as x ts hs
    by_cases hq : q = p
    · subst hq; exact absurd hs (hnotopen as x ts)
    · rw [hst q hq] at hs
      have hm := h.openTracked q as x ts hs
      rw [howed]; refine List.mem_cons_of_mem _ (mem_dropOwed.2 ⟨hm, ?_⟩)
      intro hxc
      have := owed_unique h.nodup hm ho hxc
      exact hq (congrArg Owed.peer this)
  · intro q x hs
    by_cases hq : q = p
    · subst hq; rw [hnodial x] at hs; cases hs
    · rw [hst q hq] at hs
      have hm := h.dialTracked q x hs
      rw [howed]; refine List.mem_cons_of_mem _ (mem_dropOwed.2 ⟨hm, ?_⟩)
      intro hxc
      have := owed_unique h.nodup hm ho hxc
      cases this
  · rw [howed]; simp only [conns, List.map_cons, List.nodup_cons]
    refine ⟨fun hm => hnin (mem_conns_dropOwed.1 hm).1, nodup_conns_dropOwed h.nodup⟩
  · intro x hx; rw [howed] at hx; rw [hnc]
    rcases List.mem_cons.1 hx with rfl | hx
    · exact h.bFresh c hc
    · exact h.bOwed x (mem_dropOwed.1 hx).1
  · intro x hx; rw [hfresh] at hx; rw [hnc]; exact h.bFresh x (mem_filter_ne.1 hx).1
  · intro b hb; rw [hled] at hb; rw [hnc]
    obtain ⟨a, ha, rfl⟩ := mem_recarry.1 hb
    split
    · exact ⟨(h.bLedger a ha).1, h.bFresh c hc⟩
    · exact h.bLedger a ha
  · intro e he x hx; rw [hlog] at he; rw [hnc, hfresh, hmem]
    obtain ⟨h1, h2, h3⟩ := h.bLog e he x hx
    refine ⟨h1, ?_, fun hm => h3 (mem_filter_ne.1 hm).1⟩
    rintro (h4 | h4)
    · exact h3 (h4 ▸ hc)
    · exact h2 h4.1
  · intro x hx; rw [hfresh] at hx; rw [hmem]
    obtain ⟨hx1, hx2⟩ := mem_filter_ne.1 hx
    rintro (h4 | h4)
    · exact hx2 h4
    · exact h.freshOwed x hx1 h4.1
  · intro b hb; rw [hled] at hb; rw [hfresh]
    obtain ⟨a, ha, rfl⟩ := mem_recarry.1 hb
    have hf := h.ledFresh a ha
    split
    · exact ⟨fun hm => hf.1 (mem_filter_ne.1 hm).1, fun hm => (mem_filter_ne.1 hm).2 rfl⟩
    · exact ⟨fun hm => hf.1 (mem_filter_ne.1 hm).1, fun hm => hf.2 (mem_filter_ne.1 hm).1⟩
  · intro b hb hnec x hx hxc; rw [hled] at hb; rw [howed] at hx
    obtain ⟨a, ha, rfl⟩ := mem_recarry.1 hb
    rcases List.mem_cons.1 hx with rfl | hx
    · rfl
    · obtain ⟨hm, hne⟩ := mem_dropOwed.1 hx
      split at hxc
      · exact absurd (mem_conns.2 ⟨x, hm, hxc⟩) hnin
      · rename_i hcar
        simp only [hcar, if_false] at hnec
        exact h.carrierAcc a ha hnec x hm hxc
  · intro b hb; rw [hled] at hb
    obtain ⟨a, ha, rfl⟩ := mem_recarry.1 hb
    have hl := h.ledger a ha
    have hf := h.ledFresh a ha
    have h1 : a.conn ≠ c := fun e => hf.1 (e ▸ hc)
    have h2 : a.carrier ≠ c := fun e => hf.2 (e ▸ hc)
    split
    · rename_i hcar
      -- the superseded attempt
      have hconn : a.conn = c0 := by
        apply Decidable.byContradiction
        intro hne
        have := h.carrierAcc a ha (by rw [hcar]; exact fun e => hne e.symm) _ ho hcar.symm
        cases this
      have h0 : outcome g a = 0 := by
        rcases hl.2 with ⟨_, h0⟩ | ⟨hnot, _⟩
        · exact h0
        · exact absurd (hcar ▸ mem_conns.2 ⟨_, ho, rfl⟩) hnot
      refine ⟨?_, Or.inl ⟨(hmem _).2 (Or.inl rfl), ?_⟩⟩
      · intro hm
        rcases (hmem _).1 hm with h4 | h4
        · exact absurd h4 h1
        · exact absurd hconn h4.2
      · rw [outcome_eq, hlog]
        exact reportsOf_recarry a c g.log hlogc h0
    · rename_i hcar
      have hconn : a.conn ≠ c0 := by
        intro e
        exact hcar (hl.1 (e ▸ mem_conns.2 ⟨_, ho, rfl⟩) ▸ e)
      have hout : outcome g' a = outcome g a := by rw [outcome_eq, outcome_eq, hlog]
      rw [hout]
      constructor
      · intro hm
        rcases (hmem _).1 hm with h4 | h4
        · exact absurd h4 h1
        · exact hl.1 h4.1
      · rcases hl.2 with ⟨hin, h0⟩ | ⟨hnot, h1'⟩
        · exact Or.inl ⟨(hmem _).2 (Or.inr ⟨hin, hcar⟩), h0⟩
        · refine Or.inr ⟨?_, h1'⟩
          intro hm
          rcases (hmem _).1 hm with h4 | h4
          · exact h2 h4
          · exact hnot h4.1

end Litep2pVerif.Manager
