import Litep2pVerif.Proofs.Manager.Ledger
/-! Preservation of the C05 invariant by every step a contract-abiding environment allows. -/
namespace Litep2pVerif.Manager

theorem gstep_fst (g : G) (i : In) : (gstep g i).1 = ghost g i (step g.m i).1 (step g.m i).2 := rfl

/-! ### failure of a dialing connection -/

theorem PeerState.dialFailure_not_opening (s : PeerState) (c : ConnId) (h : s.holdsDial c = true)
    (as : List Multiaddr) (x : ConnId) (ts : List Transport) : (s.onDialFailure c).1 ≠ .opening as x ts := by
  unfold PeerState.holdsDial at h
  unfold PeerState.onDialFailure
  split at h <;> simp_all

theorem PeerState.dialFailure_no_dial (s : PeerState) (c : ConnId) (h : s.holdsDial c = true) (x : ConnId) :
    (s.onDialFailure c).1.holdsDial x = false := by
  cases s with
  | connected r sec =>
    cases sec with
    | none => simp [PeerState.holdsDial] at h
    | some y =>
      cases y with
      | secondary y => simp [PeerState.holdsDial] at h
      | dialing d =>
        simp only [PeerState.holdsDial, beq_iff_eq] at h
        simp [PeerState.onDialFailure, h, PeerState.holdsDial]
  | opening as y ts => simp [PeerState.holdsDial] at h
  | dialing d =>
    simp only [PeerState.holdsDial, beq_iff_eq] at h
    simp [PeerState.onDialFailure, h, PeerState.holdsDial]
  | disconnected d =>
    cases d with
    | none => simp [PeerState.holdsDial] at h
    | some d =>
      simp only [PeerState.holdsDial, beq_iff_eq] at h
      simp [PeerState.onDialFailure, h, PeerState.holdsDial]

theorem PeerState.est_of_dial_no_dial (s : PeerState) (x : ConnRecord) (h : s.holdsDial x.conn = true) (y : ConnId) :
    (s.onConnectionEstablished x).1.holdsDial y = false := by
  cases s with
  | connected r sec =>
    cases sec with
    | none => simp [PeerState.holdsDial] at h
    | some z =>
      cases z with
      | secondary z => simp [PeerState.holdsDial] at h
      | dialing d =>
        simp only [PeerState.holdsDial, beq_iff_eq] at h
        simp [PeerState.onConnectionEstablished, h, PeerState.holdsDial]
  | opening as z ts => simp [PeerState.holdsDial] at h
  | dialing d =>
    simp only [PeerState.holdsDial, beq_iff_eq] at h
    simp [PeerState.onConnectionEstablished, h, PeerState.holdsDial]
  | disconnected d =>
    cases d with
    | none => simp [PeerState.holdsDial] at h
    | some d =>
      simp only [PeerState.holdsDial, beq_iff_eq] at h
      simp [PeerState.onConnectionEstablished, h, PeerState.holdsDial]

theorem PeerState.est_dial_back (s : PeerState) (x : ConnRecord) (y : ConnId)
    (h : (s.onConnectionEstablished x).1.holdsDial y = true) : s.holdsDial y = true := by
  cases s with
  | connected r sec =>
    cases sec with
    | none => simp [PeerState.onConnectionEstablished, PeerState.holdsDial] at h
    | some z =>
      cases z with
      | secondary z => simpa [PeerState.onConnectionEstablished] using h
      | dialing d =>
        simp only [PeerState.onConnectionEstablished] at h
        split at h
        · simp [PeerState.holdsDial] at h
        · exact h
  | opening as z ts => simp [PeerState.onConnectionEstablished, PeerState.holdsDial] at h
  | dialing d =>
    simp only [PeerState.onConnectionEstablished] at h
    split at h
    · simp [PeerState.holdsDial] at h
    · simpa [PeerState.holdsDial] using h
  | disconnected d =>
    cases d with
    | none => simp [PeerState.onConnectionEstablished, PeerState.holdsDial] at h
    | some d =>
      simp only [PeerState.onConnectionEstablished] at h
      split at h
      · simp [PeerState.holdsDial] at h
      · simpa [PeerState.holdsDial] using h

theorem PeerState.closed_dial_back (s : PeerState) (c y : ConnId)
    (h : (s.onConnectionClosed c).1.holdsDial y = true) : s.holdsDial y = true := by
  cases s with
  | connected r sec =>
    cases sec with
    | none =>
      simp only [PeerState.onConnectionClosed] at h
      split at h <;> simp [PeerState.holdsDial] at h
    | some z =>
      cases z with
      | secondary z =>
        simp only [PeerState.onConnectionClosed] at h
        split at h
        · simp [PeerState.holdsDial] at h
        · split at h <;> simp [PeerState.holdsDial] at h
      | dialing d =>
        simp only [PeerState.onConnectionClosed] at h
        split at h <;> simpa [PeerState.holdsDial] using h
  | opening as z ts => simpa [PeerState.onConnectionClosed] using h
  | dialing d => simpa [PeerState.onConnectionClosed] using h
  | disconnected d => simpa [PeerState.onConnectionClosed] using h

theorem inv05_evDialFailure {g : G} (h : Inv05 g) (c : ConnId) (a : Multiaddr) (e : DialErr)
    (hal : allowed g (.evDialFailure c a e) = true) : Inv05 (gstep g (.evDialFailure c a e)).1 := by
  simp only [allowed, Bool.and_eq_true, List.any_eq_true, beq_iff_eq] at hal
  obtain ⟨⟨o, ho, hoc, hoph⟩, hlast⟩ := hal
  subst hoc
  obtain ⟨hp, hd⟩ := h.trackDial o ho hoph
  obtain ⟨lp, hlp⟩ := Option.isSome_iff_exists.1 hlast
  have hstep : onDialFailure g.m o.conn a e =
      ({ setState (updAddrFail g.m a e) o.peer
            ((stateOf (updAddrFail g.m a e) o.peer).onDialFailure o.conn).1 with
          pending := aerase o.conn g.m.pending },
        { events := [.dialFailure o.conn a e] }) := by
    unfold onDialFailure; rw [hp]; simp [hlp]
  rw [gstep_fst]
  show Inv05 (ghost g _ (onDialFailure g.m o.conn a e).1 (onDialFailure g.m o.conn a e).2)
  rw [hstep]
  refine inv05_drop h o ho (by rw [hoph]; simp) rfl rfl rfl (.dialFailure o.conn a e) rfl rfl ?_ ?_ ?_ ?_ ?_ ?_ ?_
  · intro x; simp [reports]
  · simp [ghost]
  · intro x; show alookup x (aerase o.conn g.m.pending) = _; rw [alookup_aerase]
  · simp [ghost]
  · intro q hq
    show stateOf (setState (updAddrFail g.m a e) o.peer _) q = _
    rw [stateOf_setState, if_neg hq, stateOf_updAddrFail]
  · intro as x ts
    show stateOf (setState (updAddrFail g.m a e) o.peer _) o.peer ≠ _
    rw [stateOf_setState, if_pos rfl, stateOf_updAddrFail]
    exact PeerState.dialFailure_not_opening _ _ hd as x ts
  · intro x
    show (stateOf (setState (updAddrFail g.m a e) o.peer _) o.peer).holdsDial x = false
    rw [stateOf_setState, if_pos rfl, stateOf_updAddrFail]
    exact PeerState.dialFailure_no_dial _ _ hd x

/-! ### failure of an opening connection -/

theorem inv05_evOpenFailure {g : G} (h : Inv05 g) (c : ConnId) (errs : List (Multiaddr × DialErr))
    (hal : allowed g (.evOpenFailure c errs) = true) : Inv05 (gstep g (.evOpenFailure c errs)).1 := by
  simp only [allowed, Bool.and_eq_true, List.any_eq_true, beq_iff_eq] at hal
  obtain ⟨o, ho, hoc, hoph⟩ := hal
  subst hoc
  obtain ⟨hp, as, hs⟩ := h.trackOpen o ho hoph
  have hstep : onOpenFailure g.m o.conn errs =
      ({ setState (updAddrFails g.m errs) o.peer (.disconnected none) with
          pending := aerase o.conn g.m.pending,
          openingErrors := aerase o.conn g.m.openingErrors },
        { events := [.openFailure o.conn (((alookup o.conn g.m.openingErrors).getD []) ++ errs)] }) := by
    unfold onOpenFailure; rw [hp]
    simp [hs, PeerState.onOpenFailure]
  rw [gstep_fst]
  show Inv05 (ghost g _ (onOpenFailure g.m o.conn errs).1 (onOpenFailure g.m o.conn errs).2)
  rw [hstep]
  refine inv05_drop h o ho (by rw [hoph]; simp) rfl rfl rfl (.openFailure o.conn _) rfl rfl ?_ ?_ ?_ ?_ ?_ ?_ ?_
  · intro x; simp [reports]
  · simp [ghost]
  · intro x; show alookup x (aerase o.conn g.m.pending) = _; rw [alookup_aerase]
  · simp [ghost]
  · intro q hq
    show stateOf (setState (updAddrFails g.m errs) o.peer _) q = _
    rw [stateOf_setState, if_neg hq, stateOf_updAddrFails]
  · intro as' x ts
    show stateOf (setState (updAddrFails g.m errs) o.peer _) o.peer ≠ _
    rw [stateOf_setState, if_pos rfl]; simp
  · intro x
    show (stateOf (setState (updAddrFails g.m errs) o.peer _) o.peer).holdsDial x = false
    rw [stateOf_setState, if_pos rfl]; simp [PeerState.holdsDial]


/-! ### an opening connection reaches its socket -/

theorem dropOwed_idem (c : ConnId) (l : List Owed) : dropOwed c (dropOwed c l) = dropOwed c l := by
  simp [dropOwed, List.filter_filter]

theorem inv05_evOpened {g : G} (h : Inv05 g) (c : ConnId) (a : Multiaddr) (errs : List (Multiaddr × DialErr))
    (hal : allowed g (.evOpened c a errs) = true) : Inv05 (gstep g (.evOpened c a errs)).1 := by
  simp only [allowed, Bool.and_eq_true, List.any_eq_true, beq_iff_eq] at hal
  obtain ⟨o, ho, hoc, hoph⟩ := hal
  subst hoc
  obtain ⟨hp, as, hs⟩ := h.trackOpen o ho hoph
  have hs' : stateOf (openedPre g.m o.conn errs) o.peer = .opening as o.conn [.tcp] := by
    unfold openedPre; rw [stateOf_updAddrFails]; exact hs
  have hstep : onOpened g.m o.conn a errs =
      ({ setState (updAddr (openedPre g.m o.conn errs) o.peer (addrNew o.peer a) scoreEstablished) o.peer
            (.dialing (ConnRecord.new o.peer a o.conn)) with
          pending := ainsert o.conn o.peer (aerase o.conn g.m.pending) },
        { calls := [Call.cancel o.conn, .negotiate o.conn] }) := by
    unfold onOpened; rw [hp]; simp only []; rw [hs']; rfl
  rw [gstep_fst]
  show Inv05 (ghost g _ (onOpened g.m o.conn a errs).1 (onOpened g.m o.conn a errs).2)
  rw [hstep]
  refine inv05_rephase h o ⟨o.conn, .dialing, o.peer⟩ ho (by rw [hoph]; simp) rfl rfl ?_ rfl rfl ?_ ?_
    ?_ ?_ ?_ ?_ ?_ ?_ ?_ ?_ ?_
  · show (ghost g (.evOpened o.conn a errs) _ _).owed = _
    simp only [ghost, List.filterMap_cons, List.filterMap_nil]
    rw [dropOwed_idem, owedPeer_of_mem h.nodup ho]
  · simp [ghost]
  · simp [ghost, openedPre]
  · intro hc; cases hc
  · intro _
    refine ⟨?_, ?_⟩
    · show alookup o.conn (ainsert o.conn o.peer _) = _; rw [alookup_ainsert]; simp
    · show (stateOf (setState _ o.peer _) o.peer).holdsDial o.conn = true
      rw [stateOf_setState, if_pos rfl]; simp [PeerState.holdsDial, ConnRecord.new]
  · intro hc; cases hc
  · intro x hx
    show alookup x (ainsert o.conn o.peer (aerase o.conn g.m.pending)) = _
    rw [alookup_ainsert, if_neg (fun e => hx e.symm), alookup_aerase, if_neg (fun e => hx e.symm)]
  · intro _ _; simp
  · intro x hx; simpa [ghost, openedPre] using hx
  · intro q hq
    show stateOf (setState (updAddr (openedPre g.m o.conn errs) o.peer _ _) o.peer _) q = _
    rw [stateOf_setState, if_neg hq, stateOf_updAddr]; unfold openedPre; rw [stateOf_updAddrFails]; rfl
  · intro as' x ts
    show stateOf (setState (updAddr (openedPre g.m o.conn errs) o.peer _ _) o.peer _) o.peer ≠ _
    rw [stateOf_setState, if_pos rfl]; simp
  · intro x hx
    have : (stateOf (setState (updAddr (openedPre g.m o.conn errs) o.peer (addrNew o.peer a) scoreEstablished) o.peer
        (.dialing (ConnRecord.new o.peer a o.conn))) o.peer).holdsDial x = true := hx
    rw [stateOf_setState, if_pos rfl] at this
    simp only [PeerState.holdsDial, ConnRecord.new, beq_iff_eq] at this
    exact ⟨this.symm, rfl⟩

/-! ### a pending accept resolves -/

theorem findAccept_isSome {c : ConnId} {l : List (Peer × Endpoint)} (h : (findAccept c l).isSome = true) :
    ∃ p ep, findAccept c l = some (p, ep) ∧ ep.conn = c := by
  obtain ⟨⟨p, ep⟩, hx⟩ := Option.isSome_iff_exists.1 h
  exact ⟨p, ep, hx, findAccept_conn hx⟩

theorem inv05_acceptResult {g : G} (h : Inv05 g) (c : ConnId) (ok : Bool)
    (hal : allowed g (.acceptResult c ok) = true) : Inv05 (gstep g (.acceptResult c ok)).1 := by
  simp only [allowed, Bool.and_eq_true, List.any_eq_true, beq_iff_eq] at hal
  obtain ⟨hok, o, ho, hoc, hoph⟩ := hal
  subst hoc; subst hok
  obtain ⟨p, ep, hf, hep⟩ := findAccept_isSome (h.trackAcc o ho hoph)
  have hstep : onAcceptResult g.m o.conn true =
      ({ g.m with pendingAccept := eraseAccept o.conn g.m.pendingAccept }, { events := [.established p ep] }) := by
    unfold onAcceptResult; rw [hf]; simp
  rw [gstep_fst]
  show Inv05 (ghost g _ (onAcceptResult g.m o.conn true).1 (onAcceptResult g.m o.conn true).2)
  rw [hstep]
  refine inv05_accepted h o ho hoph p ep hep rfl rfl rfl rfl rfl rfl ?_ (fun _ => rfl)
  intro x hx
  show findAccept x (eraseAccept o.conn g.m.pendingAccept) = _
  exact findAccept_eraseAccept hx


/-! ### `ConnectionEstablished` -/

theorem PeerState.est_accepted_not_opening (s : PeerState) (x : ConnRecord)
    (h : (s.onConnectionEstablished x).2 = true) (as : List Multiaddr) (y : ConnId) (ts : List Transport) :
    (s.onConnectionEstablished x).1 ≠ .opening as y ts := by
  unfold PeerState.onConnectionEstablished at *
  split <;> (try split) <;> simp_all

theorem PeerState.est_keeps_dial (s : PeerState) (x : ConnRecord) (y : ConnId) (hy : s.holdsDial y = true)
    (hne : y ≠ x.conn) : (s.onConnectionEstablished x).1.holdsDial y = true := by
  unfold PeerState.holdsDial at hy
  unfold PeerState.onConnectionEstablished
  split at hy <;> simp_all [PeerState.holdsDial]
  all_goals (split <;> simp_all [PeerState.holdsDial])

theorem PeerState.est_of_holdsDial (s : PeerState) (x : ConnRecord) (h : s.holdsDial x.conn = true) :
    (s.onConnectionEstablished x).2 = true := by
  unfold PeerState.holdsDial at h
  unfold PeerState.onConnectionEstablished
  split at h <;> simp_all

theorem cancelCalls_of_not_opening (s : PeerState) (h : ∀ as c ts, s ≠ .opening as c ts) :
    cancelCalls s = [] ∧ ∀ l, erasePrevOpening s l = l := by
  unfold cancelCalls erasePrevOpening
  cases s with
  | opening as c ts => exact absurd rfl (h as c ts)
  | _ => simp

theorem recarry_nil (c : ConnId) (l : List Attempt) : recarry [] c l = l := by
  simp [recarry]

@[simp] theorem estPre_nc (s : Mgr) (p : Peer) (ep : Endpoint) : (estPre s p ep).nextConn = s.nextConn := by
  unfold estPre; split <;> rfl

theorem estPre_pending (s : Mgr) (p : Peer) (ep : Endpoint) : (estPre s p ep).pending = aerase ep.conn s.pending := by
  unfold estPre; split <;> rfl

theorem closed_keeps_dial (s : PeerState) (c y : ConnId) (hy : s.holdsDial y = true) :
    (s.onConnectionClosed c).1.holdsDial y = true := by
  cases s with
  | connected r sec =>
    cases sec with
    | none => simp [PeerState.holdsDial] at hy
    | some x =>
      cases x with
      | secondary x => simp [PeerState.holdsDial] at hy
      | dialing d =>
        simp only [PeerState.holdsDial] at hy
        simp only [PeerState.onConnectionClosed]
        split <;> simp [PeerState.holdsDial, hy]
  | opening as x ts => simp [PeerState.holdsDial] at hy
  | dialing d => simpa [PeerState.onConnectionClosed] using hy
  | disconnected d => simpa [PeerState.onConnectionClosed] using hy

theorem closed_opening_iff (s : PeerState) (c : ConnId) (as : List Multiaddr) (x : ConnId) (ts : List Transport) :
    (s.onConnectionClosed c).1 = .opening as x ts ↔ s = .opening as x ts := by
  unfold PeerState.onConnectionClosed
  split
  · split
    · split <;> simp
    · split
      · split <;> simp
      · simp
  · rfl


theorem filter_ne_of_not_mem {c : ConnId} {l : List ConnId} (h : c ∉ l) : l.filter (· ≠ c) = l := by
  apply List.filter_eq_self.2
  intro x hx
  simp only [ne_eq, decide_not, Bool.not_eq_eq_eq_not, Bool.not_true, decide_eq_false_iff_not]
  intro e; exact h (e ▸ hx)

theorem inv05_est_dialer {g : G} (h : Inv05 g) (p : Peer) (ep : Endpoint) (hd : ep.isListener = false)
    (ho : (⟨ep.conn, .dialing, p⟩ : Owed) ∈ g.owed) :
    Inv05 (gstep g (.evEstablished p ep true)).1 := by
  obtain ⟨hp, hdial⟩ := h.trackDial _ ho rfl
  have hp' : alookup ep.conn g.m.pending = some p := hp
  have hdial' : (stateOf g.m p).holdsDial ep.conn = true := hdial
  have hnotopen : ∀ as c ts, stateOf g.m p ≠ .opening as c ts :=
    fun as c ts => PeerState.holdsDial_not_opening hdial'
  have hest : ((stateOf g.m p).onConnectionEstablished (ConnRecord.new p ep.addr ep.conn)).2 = true :=
    PeerState.est_of_holdsDial _ (ConnRecord.new p ep.addr ep.conn) hdial'
  obtain ⟨hcc, hepo⟩ := cancelCalls_of_not_opening _ hnotopen
  have hfr : ∀ a ∈ g.fresh, ¬ a = ep.conn := by
    intro a ha e; subst e; exact h.freshOwed _ ha (mem_conns.2 ⟨_, ho, rfl⟩)
  rw [gstep_fst]
  show Inv05 (ghost g _ (onEstablished g.m p ep true).1 (onEstablished g.m p ep true).2)
  by_cases hcan : g.m.limits.canAccept ep.isListener = true
  · -- accepted: the obligation moves to the accepting phase
    have hstep : onEstablished g.m p ep true =
        ({ setState (estPre g.m p ep) p
              ((stateOf g.m p).onConnectionEstablished (ConnRecord.new p ep.addr ep.conn)).1 with
            limits := g.m.limits.accept ep.conn ep.isListener,
            pending := aerase ep.conn g.m.pending,
            pendingAccept := g.m.pendingAccept ++ [(p, ep)] },
          { calls := [.accept ep.conn] }) := by
      unfold onEstablished
      simp [hp', hcan, hest, hcc, hepo, estPre_pending]
    rw [hstep]
    refine inv05_rephase h ⟨ep.conn, .dialing, p⟩ ⟨ep.conn, .accepting, p⟩ ho (by simp) rfl rfl ?_ ?_ ?_ ?_
      ?_ ?_ ?_ ?_ ?_ ?_ ?_ ?_ ?_ ?_
    · simp [ghost, cancelled]
    · simp [ghost, cancelled, recarry_nil]
    · simpa [ghost] using hfr
    · simp [ghost]
    · simp [ghost]
    · intro hc; cases hc
    · intro hc; cases hc
    · intro _; rw [ghost_m]; exact findAccept_append_self _ _ _
    · intro x hx
      rw [ghost_m]
      show alookup x (aerase ep.conn g.m.pending) = _
      rw [alookup_aerase, if_neg (fun e => hx e.symm)]
    · intro q hq
      rw [ghost_m] at hq
      have : alookup ep.conn (aerase ep.conn g.m.pending) = some q := hq
      rw [alookup_aerase, if_pos rfl] at this; cases this
    · intro x hx; rw [ghost_m]; exact findAccept_append_isSome _ hx
    · intro q hq
      rw [ghost_m]
      show stateOf (setState (estPre g.m p ep) p _) q = _
      rw [stateOf_setState, if_neg hq, estPre_state]
    · intro as x ts
      rw [ghost_m]
      show stateOf (setState (estPre g.m p ep) p _) p ≠ _
      rw [stateOf_setState, if_pos rfl]
      exact PeerState.est_accepted_not_opening _ _ hest as x ts
    · intro x hx
      rw [ghost_m] at hx
      have : (stateOf (setState (estPre g.m p ep) p
          ((stateOf g.m p).onConnectionEstablished (ConnRecord.new p ep.addr ep.conn)).1) p).holdsDial x = true := hx
      rw [stateOf_setState, if_pos rfl,
        PeerState.est_of_dial_no_dial _ (ConnRecord.new p ep.addr ep.conn) hdial' x] at this
      cases this
  · -- rejected by the limits: the attempt ends with a dial failure (fix for finding (d))
    have hstep : onEstablished g.m p ep true =
        (setState (estPre g.m p ep) p ((stateOf g.m p).onDialFailure ep.conn).1,
          { calls := [.reject ep.conn], events := [.dialFailure ep.conn ep.addr .negotiation] }) := by
      unfold onEstablished
      simp [hp', hcan]
    rw [hstep]
    refine inv05_drop h ⟨ep.conn, .dialing, p⟩ ho (by simp) ?_ ?_ ?_ (.dialFailure ep.conn ep.addr .negotiation)
      ?_ rfl ?_ ?_ ?_ ?_ ?_ ?_ ?_
    · simp [ghost, cancelled]
    · simp [ghost, cancelled]
    · simpa [ghost] using hfr
    · simp [ghost]
    · intro x; simp [reports]
    · simp [ghost]
    · intro x
      rw [ghost_m]
      show alookup x (estPre g.m p ep).pending = _
      rw [estPre_pending, alookup_aerase]
    · simp [ghost]
    · intro q hq
      rw [ghost_m]
      show stateOf (setState (estPre g.m p ep) p _) q = _
      rw [stateOf_setState, if_neg hq, estPre_state]
    · intro as x ts
      rw [ghost_m]
      show stateOf (setState (estPre g.m p ep) p _) p ≠ _
      rw [stateOf_setState, if_pos rfl]
      exact PeerState.dialFailure_not_opening _ _ hdial' as x ts
    · intro x
      rw [ghost_m]
      show (stateOf (setState (estPre g.m p ep) p _) p).holdsDial x = false
      rw [stateOf_setState, if_pos rfl]
      exact PeerState.dialFailure_no_dial _ _ hdial' x


theorem inv05_est_listener {g : G} (h : Inv05 g) (p : Peer) (ep : Endpoint) (hd : ep.isListener = true)
    (hc : ep.conn ∈ g.fresh) : Inv05 (gstep g (.evEstablished p ep true)).1 := by
  have hnin : ep.conn ∉ conns g.owed := h.freshOwed _ hc
  have hpn : alookup ep.conn g.m.pending = none := h.pending_none hnin
  have hdrop : dropOwed ep.conn g.owed = g.owed := dropOwed_of_not_mem hnin
  have hpend0 : ∀ x, alookup x (estPre g.m p ep).pending = alookup x g.m.pending := by
    intro x; rw [estPre_pending, alookup_aerase]; split
    · rename_i e; subst e; exact hpn.symm
    · rfl
  rw [gstep_fst]
  show Inv05 (ghost g _ (onEstablished g.m p ep true).1 (onEstablished g.m p ep true).2)
  -- the two refusals leave everything but the fresh set alone
  have hrefuse : onEstablished g.m p ep true = (estPre g.m p ep, { calls := [.reject ep.conn] }) →
      Inv05 (ghost g (.evEstablished p ep true) (onEstablished g.m p ep true).1 (onEstablished g.m p ep true).2) := by
    intro hstep; rw [hstep]
    refine inv05_frame h ?_ ?_ [] ?_ (by simp) ?_ ?_ ?_ ?_ ?_ ?_ ?_
    · simp [ghost, cancelled, hdrop]
    · simp [ghost, cancelled]
    · simp [ghost]
    · rw [ghost_m]; simp
    · intro x hx
      have : x ∈ g.fresh.filter (· ≠ ep.conn) := by simpa [ghost, cancelled] using hx
      exact Or.inl (mem_filter_ne.1 this).1
    · intro x; rw [ghost_m]; exact hpend0 x
    · rw [ghost_m]; simp
    · intro q as x ts; rw [ghost_m, estPre_state]
    · intro q x hx; rw [ghost_m, estPre_state]; exact hx
    · intro q x hx; rw [ghost_m, estPre_state] at hx; exact hx
  by_cases hcan : g.m.limits.canAccept ep.isListener = true
  · by_cases hest : ((stateOf g.m p).onConnectionEstablished (ConnRecord.new p ep.addr ep.conn)).2 = true
    · by_cases hop : ∃ as c0 ts, stateOf g.m p = .opening as c0 ts
      · -- an `Opening` attempt of the same peer is superseded
        obtain ⟨as, c0, ts, hs⟩ := hop
        have ho0 := h.openTracked p as c0 ts hs
        obtain ⟨_, as', hs'⟩ := h.trackOpen _ ho0 rfl
        have hts : ts = [.tcp] := by
          have : stateOf g.m p = .opening as' c0 [.tcp] := hs'
          rw [hs] at this; injection this
        subst hts
        have hstep : onEstablished g.m p ep true =
            ({ setState (estPre g.m p ep) p
                  ((stateOf g.m p).onConnectionEstablished (ConnRecord.new p ep.addr ep.conn)).1 with
                limits := g.m.limits.accept ep.conn ep.isListener,
                pending := aerase c0 (aerase ep.conn g.m.pending),
                pendingAccept := g.m.pendingAccept ++ [(p, ep)] },
              { calls := [.cancel c0, .accept ep.conn] }) := by
          unfold onEstablished
          simp [hpn, hcan, estPre_pending, hs, cancelCalls, erasePrevOpening, PeerState.onConnectionEstablished]
        rw [hstep]
        refine inv05_supersede h ep.conn c0 p hc ho0 ?_ ?_ ?_ ?_ ?_ ?_ ?_ ?_ ?_ ?_ ?_
        · simp [ghost, cancelled, hdrop]
        · simp [ghost, cancelled]
        · simp [ghost, cancelled]
        · simp [ghost]
        · rw [ghost_m]; simp
        · intro x; rw [ghost_m]
          show alookup x (aerase c0 (aerase ep.conn g.m.pending)) = _
          rw [alookup_aerase]; split
          · rfl
          · rw [← estPre_pending g.m p ep, hpend0]
        · rw [ghost_m]; exact findAccept_append_self _ _ _
        · intro x hx; rw [ghost_m]; exact findAccept_append_isSome _ hx
        · intro q hq; rw [ghost_m]
          show stateOf (setState (estPre g.m p ep) p _) q = _
          rw [stateOf_setState, if_neg hq, estPre_state]
        · intro as2 x ts2; rw [ghost_m]
          show stateOf (setState (estPre g.m p ep) p _) p ≠ _
          rw [stateOf_setState, if_pos rfl]
          exact PeerState.est_accepted_not_opening _ _ hest as2 x ts2
        · intro x; rw [ghost_m]
          show (stateOf (setState (estPre g.m p ep) p _) p).holdsDial x = false
          rw [stateOf_setState, if_pos rfl, hs]
          simp [PeerState.onConnectionEstablished, PeerState.holdsDial]
      · -- plain accept
        have hnotopen : ∀ as c ts, stateOf g.m p ≠ .opening as c ts :=
          fun as c ts hs => hop ⟨as, c, ts, hs⟩
        obtain ⟨hcc, hepo⟩ := cancelCalls_of_not_opening _ hnotopen
        have hstep : onEstablished g.m p ep true =
            ({ setState (estPre g.m p ep) p
                  ((stateOf g.m p).onConnectionEstablished (ConnRecord.new p ep.addr ep.conn)).1 with
                limits := g.m.limits.accept ep.conn ep.isListener,
                pending := aerase ep.conn g.m.pending,
                pendingAccept := g.m.pendingAccept ++ [(p, ep)] },
              { calls := [.accept ep.conn] }) := by
          unfold onEstablished
          simp [hpn, hcan, hest, hcc, hepo, estPre_pending]
        rw [hstep]
        refine inv05_inbound h ep.conn p hc ?_ ?_ ?_ ?_ ?_ ?_ ?_ ?_ ?_ ?_ ?_
        · simp [ghost, cancelled, hdrop]
        · simp [ghost, cancelled, recarry_nil]
        · simp [ghost, cancelled]
        · simp [ghost]
        · rw [ghost_m]; simp
        · intro x; rw [ghost_m]
          show alookup x (aerase ep.conn g.m.pending) = _
          rw [← estPre_pending g.m p ep, hpend0]
        · rw [ghost_m]; exact findAccept_append_self _ _ _
        · intro x hx; rw [ghost_m]; exact findAccept_append_isSome _ hx
        · intro q as x ts; rw [ghost_m]
          show stateOf (setState (estPre g.m p ep) p _) q = _ ↔ _
          rw [stateOf_setState]; split
          · rename_i hq; subst hq
            constructor
            · intro hs; exact absurd hs (PeerState.est_accepted_not_opening _ _ hest as x ts)
            · intro hs; exact absurd hs (hnotopen as x ts)
          · rw [estPre_state]
        · intro q x hx hdial; rw [ghost_m]
          show (stateOf (setState (estPre g.m p ep) p _) q).holdsDial x = true
          rw [stateOf_setState]; split
          · rename_i hq; subst hq
            exact PeerState.est_keeps_dial _ _ _ hdial hx
          · rw [estPre_state]; exact hdial
        · intro q x hdial; rw [ghost_m] at hdial
          have : (stateOf (setState (estPre g.m p ep) p
              ((stateOf g.m p).onConnectionEstablished (ConnRecord.new p ep.addr ep.conn)).1) q).holdsDial x = true := hdial
          rw [stateOf_setState] at this; split at this
          · rename_i hq; subst hq
            exact PeerState.est_dial_back _ _ _ this
          · rw [estPre_state] at this; exact this
    · apply hrefuse
      unfold onEstablished
      simp [hpn, hcan, hest]
  · apply hrefuse
    unfold onEstablished
    simp [hpn, hcan]


/-! ### API calls and the remaining inputs -/

theorem inv05_same {g : G} (h : Inv05 g) (g' : G) (howed : g'.owed = g.owed) (hled : g'.ledger = g.ledger)
    (hlog : g'.log = g.log) (hfresh : g'.fresh = g.fresh) (hnc : g.m.nextConn ≤ g'.m.nextConn)
    (hpend : g'.m.pending = g.m.pending) (hpa : g'.m.pendingAccept = g.m.pendingAccept)
    (hst : ∀ q, stateOf g'.m q = stateOf g.m q) : Inv05 g' :=
  inv05_frame h howed hled [] (by rw [hlog]; simp) (by simp) hnc
    (fun c hc => Or.inl (hfresh ▸ hc)) (fun c => by rw [hpend]) hpa
    (fun q as c ts => by rw [hst]) (fun q c hc => by rw [hst]; exact hc)
    (fun q c hc => by rw [hst] at hc; exact hc)

theorem inv05_dial {g : G} (h : Inv05 g) (p : Peer) (ch : List Multiaddr) :
    Inv05 (gstep g (.dial p ch)).1 := by
  rw [gstep_fst]
  show Inv05 (ghost g _ (dial g.m p ch).1 (dial g.m p ch).2)
  have hquiet : ∀ r : Mgr × Out, dial g.m p ch = r → r.1 = g.m → r.2.calls = [] → r.2.events = [] →
      Inv05 (ghost g (.dial p ch) r.1 r.2) := by
    intro r _ h1 h2 h3
    refine inv05_same h _ ?_ ?_ ?_ ?_ ?_ ?_ ?_ ?_
    · simp [ghost, h2]
    · simp [ghost, h2]
    · simp [ghost, h2, h3]
    · simp [ghost, h2]
    · rw [ghost_m, h1]; exact Nat.le_refl _
    · rw [ghost_m, h1]
    · rw [ghost_m, h1]
    · intro q; rw [ghost_m, h1]
  unfold dial
  split
  · exact hquiet _ (by unfold dial; simp [*]) rfl rfl rfl
  · rename_i cap hcap
    split
    · exact hquiet _ (by unfold dial; simp [*]) rfl rfl rfl
    · rename_i hloc
      split
      · rename_i hcd; exact hquiet _ (by unfold dial; simp [*]) rfl rfl rfl
      · rename_i hcd; exact hquiet _ (by unfold dial; simp [*]) rfl rfl rfl
      · rename_i hcd
        split
        · exact hquiet _ (by unfold dial; simp [*]) rfl rfl rfl
        · have hidle := PeerState.canDial_ok' hcd
          refine inv05_new h p p .opening (by simp) hidle rfl rfl rfl ?_ rfl rfl rfl ?_ ?_
          · simp [ghost]
          · intro q hq; rw [ghost_m]
            show stateOf (setState g.m p _) q = _
            rw [stateOf_setState, if_neg hq]
          · refine ⟨fun _ => ⟨selectAddrs (g.m.peers p).addresses cap ch, ?_⟩, fun hc => by cases hc⟩
            rw [ghost_m]
            show stateOf (setState g.m p _) p = _
            rw [stateOf_setState, if_pos rfl, hidle]
            rfl

theorem inv05_dialAddress {g : G} (h : Inv05 g) (a : Multiaddr) : Inv05 (gstep g (.dialAddress a)).1 := by
  rw [gstep_fst]
  show Inv05 (ghost g _ (dialAddress g.m a).1 (dialAddress g.m a).2)
  cases dialAddress_shape g.m a with
  | refused e hres hcalls hev hst hpend hlim hpa hnc =>
    refine inv05_same h _ ?_ ?_ ?_ ?_ ?_ ?_ ?_ ?_
    · simp [ghost, hcalls]
    · simp [ghost, hcalls]
    · simp [ghost, hcalls, hev]
    · simp [ghost, hcalls]
    · rw [ghost_m]; exact hnc
    · rw [ghost_m]; exact hpend
    · rw [ghost_m]; exact hpa
    · intro q; rw [ghost_m]; exact hst q
  | joined remote hres hcalls hev hremote hbusy hst hpend hlim hpa hnc =>
    refine inv05_same h _ ?_ ?_ ?_ ?_ ?_ ?_ ?_ ?_
    · simp [ghost, hcalls]
    · simp [ghost, hcalls]
    · simp [ghost, hcalls, hev]
    · simp [ghost, hcalls]
    · rw [ghost_m]; exact hnc
    · rw [ghost_m]; exact hpend
    · rw [ghost_m]; exact hpa
    · intro q; rw [ghost_m]; exact hst q
  | started remote hres hcalls hev hremote htcp hidle hst hpend hlim hpa hnc =>
    refine inv05_new h remote remote .dialing (by simp) hidle ?_ ?_ ?_ ?_ ?_ ?_ ?_ ?_ ?_
    · simp [ghost, hcalls, htcp]
    · simp [ghost, hcalls, hremote]
    · simp [ghost, hcalls]
    · simp [ghost, hcalls, hev]
    · rw [ghost_m]; exact hnc
    · rw [ghost_m]; exact hpend
    · rw [ghost_m]; exact hpa
    · intro q hq; rw [ghost_m, hst q, if_neg hq]
    · refine ⟨fun hc => (by cases hc), fun _ => ⟨a, ?_⟩⟩
      rw [ghost_m, hst remote, if_pos rfl]


theorem inv05_evClosed {g : G} (h : Inv05 g) (p : Peer) (c : ConnId) : Inv05 (gstep g (.evClosed p c)).1 := by
  rw [gstep_fst]
  show Inv05 (ghost g _ (onClosed g.m p c).1 (onClosed g.m p c).2)
  refine inv05_frame h rfl rfl (closeConn g.m p c).2 rfl ?_ (Nat.le_refl _) (fun x hx => Or.inl hx)
    (fun x => rfl) rfl ?_ ?_ ?_
  · intro e he
    unfold closeConn at he
    simp only at he
    split at he
    · rw [List.mem_singleton.1 he]; rfl
    · cases he
  · intro q as x ts
    show stateOf (closeConn g.m p c).1 q = _ ↔ _
    rw [closeConn_state]; split
    · rename_i hq; subst hq; exact closed_opening_iff _ _ _ _ _
    · rfl
  · intro q x hx
    show (stateOf (closeConn g.m p c).1 q).holdsDial x = true
    rw [closeConn_state]; split
    · rename_i hq; subst hq; exact closed_keeps_dial _ _ _ hx
    · exact hx
  · intro q x hx
    have : (stateOf (closeConn g.m p c).1 q).holdsDial x = true := hx
    rw [closeConn_state] at this; split at this
    · rename_i hq; subst hq; exact PeerState.closed_dial_back _ _ _ this
    · exact this

/-- **Preservation of the C05 invariant by every step the environment contract allows.** -/
theorem inv05_step {g : G} (h : Inv05 g) (i : In) (hal : allowed g i = true) : Inv05 (gstep g i).1 := by
  cases i with
  | dial p ch => exact inv05_dial h p ch
  | dialAddress a => exact inv05_dialAddress h a
  | addKnown p as =>
    rw [gstep_fst]
    refine inv05_same h _ rfl rfl ?_ rfl ?_ ?_ ?_ ?_
    · simp [ghost, step, addKnown]
    · rw [ghost_m]; simp [step, addKnown]
    · rw [ghost_m]; simp [step, addKnown]
    · rw [ghost_m]; simp [step, addKnown]
    · intro q; rw [ghost_m]; simp [step, addKnown]
  | alloc =>
    rw [gstep_fst]
    refine inv05_frame h rfl rfl [] ?_ (by simp) ?_ ?_ (fun x => rfl) rfl (fun q as x ts => Iff.rfl)
      (fun q x hx => hx) (fun q x hx => hx)
    · simp [ghost, step]
    · rw [ghost_m]; exact Nat.le_succ _
    · intro x hx
      have : x = g.m.nextConn ∨ x ∈ g.fresh := by simpa [ghost, step] using hx
      rcases this with rfl | hx
      · exact Or.inr ⟨Nat.le_refl _, by rw [ghost_m]; exact Nat.lt_succ_self _⟩
      · exact Or.inl hx
  | evEstablished p ep ok =>
    simp only [allowed, Bool.and_eq_true] at hal
    obtain ⟨hok, hrest⟩ := hal
    subst hok
    cases hl : ep.isListener with
    | true =>
      rw [hl] at hrest
      exact inv05_est_listener h p ep hl (by simpa using hrest)
    | false =>
      rw [hl] at hrest
      exact inv05_est_dialer h p ep hl (by simpa using hrest)
  | evOpened c a errs => exact inv05_evOpened h c a errs hal
  | evOpenFailure c errs => exact inv05_evOpenFailure h c errs hal
  | evDialFailure c a e => exact inv05_evDialFailure h c a e hal
  | evPendingInbound c =>
    rw [gstep_fst]
    refine inv05_same h _ rfl rfl ?_ rfl ?_ ?_ ?_ ?_
    · simp only [ghost, step, onPendingInbound]; split <;> simp
    · rw [ghost_m]; simp only [step, onPendingInbound]; split <;> exact Nat.le_refl _
    · rw [ghost_m]; simp only [step, onPendingInbound]; split <;> rfl
    · rw [ghost_m]; simp only [step, onPendingInbound]; split <;> rfl
    · intro q; rw [ghost_m]; simp only [step, onPendingInbound]; split <;> rfl
  | evClosed p c => exact inv05_evClosed h p c
  | acceptResult c ok => exact inv05_acceptResult h c ok hal

theorem inv05_reach {g : G} (h : Reach g) : Inv05 g := by
  induction h with
  | init cfg => exact inv05_init cfg
  | step i _ hal ih => exact inv05_step ih i hal

end Litep2pVerif.Manager
