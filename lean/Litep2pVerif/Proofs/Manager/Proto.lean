import Litep2pVerif.Model.Manager.Proto
import Litep2pVerif.Proofs.Manager.LedgerStep
/-! Invariant of the protocol layer (`Model/Manager/Proto.lean`): what every protocol was or is being
sent is exactly what was decided to be broadcast; the broadcast mirrors the events `next()`
returns; every accepted request is queued or processed exactly once. -/
namespace Litep2pVerif.Manager

/-! ## Sends -/

theorem pend_cons (x : Nat × PEv) (t : List (Nat × PEv)) (j : Nat) :
    pend (x :: t) j = if x.1 = j then x.2 :: pend t j else pend t j := by
  unfold pend
  by_cases h : x.1 = j <;> simp [List.filter_cons, h]

theorem pend_append (l l' : List (Nat × PEv)) (j : Nat) : pend (l ++ l') j = pend l j ++ pend l' j := by
  simp [pend, List.filter_append]

theorem pend_row (e : PEv) (j : Nat) : ∀ (order : List Nat), order.Nodup →
    pend (order.map (fun i => (i, e))) j = if j ∈ order then [e] else []
  | [], _ => by simp [pend]
  | i :: t, h => by
    rw [List.map_cons, pend_cons, pend_row e j t (List.nodup_cons.1 h).2]
    by_cases hij : i = j
    · subst hij
      have := (List.nodup_cons.1 h).1
      simp [this]
    · have : ¬ j = i := fun h => hij h.symm
      simp [hij, this]

theorem pend_sendsOf (order : List Nat) (h : order.Nodup) (j : Nat) (hj : j ∈ order) :
    ∀ evs : List PEv, pend (sendsOf order evs) j = evs
  | [] => by simp [sendsOf, pend]
  | e :: es => by
    have ih := pend_sendsOf order h j hj es
    unfold sendsOf at ih ⊢
    rw [List.flatMap_cons, pend_append, pend_row e j order h, if_pos hj, ih]
    rfl

theorem runSends_tied (cap : Nat) : ∀ (l : List (Nat × PEv)) (ch : Nat → List Slot) (st : Nat → List PEv) (j : Nat),
    (runSends cap ch st l).2.1 j ++ pend (runSends cap ch st l).2.2 j = st j ++ pend l j
  | [], ch, st, j => by simp [runSends]
  | (i, e) :: t, ch, st, j => by
    simp only [runSends]
    split
    · rw [runSends_tied cap t, pend_cons]
      by_cases hij : i = j <;> simp [pushAt, hij]
      intro h; exact absurd h.symm hij
    · rfl

theorem runSends_split (cap : Nat) (r : Nat → List PEv) : ∀ (l : List (Nat × PEv)) (ch : Nat → List Slot)
    (st : Nat → List PEv), (∀ j, st j = r j ++ (ch j).filterMap slotEv) →
    ∀ j, (runSends cap ch st l).2.1 j = r j ++ ((runSends cap ch st l).1 j).filterMap slotEv
  | [], ch, st, h => by simpa [runSends] using h
  | (i, e) :: t, ch, st, h => by
    simp only [runSends]
    split
    · apply runSends_split cap r t
      intro j
      by_cases hij : j = i <;> simp [pushAt, hij, h, slotEv]
    · exact h

/-! ## `deliver` -/

theorem deliver_frame (ps : PS) (g' : G) (evs : List PEv) (held : List Ev) :
    (deliver ps g' evs held).1.g = g' ∧ (deliver ps g' evs held).1.order = ps.order ∧
    (deliver ps g' evs held).1.cap = ps.cap ∧ (deliver ps g' evs held).1.cmds = ps.cmds ∧
    (deliver ps g' evs held).1.nextReq = ps.nextReq ∧ (deliver ps g' evs held).1.done = ps.done ∧
    (deliver ps g' evs held).1.recv = ps.recv ∧ (deliver ps g' evs held).1.bcast = ps.bcast ++ evs := by
  unfold deliver
  split <;> simp

theorem deliver_tied (ps : PS) (g' : G) (evs : List PEv) (held : List Ev) (hidle : ps.todo = []) (j : Nat) :
    (deliver ps g' evs held).1.sent j ++ pend (deliver ps g' evs held).1.todo j =
      ps.sent j ++ pend (sendsOf ps.order evs) j := by
  have h := runSends_tied ps.cap (sendsOf ps.order evs) ps.chans ps.sent j
  unfold deliver
  split <;> rename_i heq <;> rw [heq] at h
  · simpa [hidle] using h
  · simpa using h

theorem deliver_split (ps : PS) (g' : G) (evs : List PEv) (held : List Ev)
    (hs : ∀ j, ps.sent j = ps.recv j ++ (ps.chans j).filterMap slotEv) (j : Nat) :
    (deliver ps g' evs held).1.sent j =
      (deliver ps g' evs held).1.recv j ++ ((deliver ps g' evs held).1.chans j).filterMap slotEv := by
  have h := runSends_split ps.cap ps.recv (sendsOf ps.order evs) ps.chans ps.sent hs j
  unfold deliver
  split <;> rename_i heq <;> rw [heq] at h <;> simpa using h

/-! ## Reports -/

def preportsOf (a : Attempt) (l : List PEv) : Nat := (l.map (preports a)).sum

theorem preportsOf_append (a : Attempt) (l l' : List PEv) :
    preportsOf a (l ++ l') = preportsOf a l + preportsOf a l' := by
  simp [preportsOf, List.map_append, List.sum_append]

/-- The protocol notification of an event reports exactly what the event reports. -/
theorem preports_toPEv (a : Attempt) (s : Mgr) (i : In) (e : Ev) :
    preportsOf a ((toPEv s i e).toList) = reports a e := by
  cases e <;> simp [toPEv, preportsOf, preports, reports]

theorem preportsOf_notes (a : Attempt) (s : Mgr) (i : In) (evs : List Ev) :
    preportsOf a (evs.filterMap (toPEv s i)) = reportsOf a evs := by
  induction evs with
  | nil => rfl
  | cons e t ih =>
    have h := preports_toPEv a s i e
    rw [show reportsOf a (e :: t) = reports a e + reportsOf a t from by simp [reportsOf]]
    rw [← h, ← ih, List.filterMap_cons]
    cases toPEv s i e <;> simp [preportsOf]

theorem notes_src (s : Mgr) (i : In) (out : Out) : ∀ e ∈ notes s i out, ∃ c, e.src = .conn c := by
  intro e he
  unfold notes at he
  obtain ⟨ev, _, hev⟩ := List.mem_filterMap.1 he
  cases ev <;> simp [toPEv] at hev <;> subst hev <;> exact ⟨_, rfl⟩

theorem gstep_log (g : G) (i : In) : (gstep g i).1.log = g.log ++ (gstep g i).2.events := by
  rw [gstep_fst]; exact outcome_ghost g i _ _

/-! ## Commands -/

def cmdPeer : Cmd → Peer
  | .dialPeer _ _ p => p
  | .dialAddress _ _ a => (lastPeer a).getD 0

def cmdAddrs : Cmd → List Multiaddr
  | .dialPeer _ _ _ => []
  | .dialAddress _ _ a => [a]

/-- The failure notification of a failed queued dial: `DialFailure{peer, []}` for `DialPeer`,
`DialFailure{peer, [address]}` for `DialAddress`. -/
def failEv (d : Done) : PEv := ⟨.df, cmdPeer d.cmd, 0, cmdAddrs d.cmd, .cmd d.cmd.k⟩

theorem dial_events (s : Mgr) (p : Peer) (ch : List Multiaddr) : (dial s p ch).2.events = [] := by
  unfold dial
  repeat' split
  all_goals rfl

theorem dialAddress_events (s : Mgr) (a : Multiaddr) : (dialAddress s a).2.events = [] := by
  unfold dialAddress
  repeat' split
  all_goals rfl

theorem gstep_dial_events (g : G) (p : Peer) (ch : List Multiaddr) : (gstep g (.dial p ch)).2.events = [] :=
  dial_events g.m p ch

theorem gstep_dialAddress_events (g : G) (a : Multiaddr) : (gstep g (.dialAddress a)).2.events = [] :=
  dialAddress_events g.m a

/-- Attempts stay in the ledger (only their carrier may change). -/
theorem ledger_persist (g : G) (i : In) (a : Attempt) (ha : a ∈ g.ledger) :
    ∃ a' ∈ (gstep g i).1.ledger, a'.conn = a.conn ∧ a'.peer = a.peer := by
  rw [gstep_fst]
  have hre : ∀ cs to, ∃ a' ∈ recarry cs to g.ledger, a'.conn = a.conn ∧ a'.peer = a.peer := by
    intro cs to
    refine ⟨_, List.mem_map.2 ⟨a, ha, rfl⟩, ?_⟩
    split <;> simp
  cases i <;> simp only [ghost] <;> (repeat' split) <;>
    first
    | exact ⟨a, ha, rfl, rfl⟩
    | exact ⟨a, List.mem_cons_of_mem _ ha, rfl, rfl⟩
    | exact hre _ _

theorem dial_started (g : G) (p : Peer) (ch : List Multiaddr) (c : ConnId)
    (h : startedConn (gstep g (.dial p ch)).2 = some c) : ⟨p, c, c⟩ ∈ (gstep g (.dial p ch)).1.ledger := by
  rw [gstep_fst]
  show _ ∈ (ghost g _ (dial g.m p ch).1 (dial g.m p ch).2).ledger
  have h' : startedConn (dial g.m p ch).2 = some c := h
  have hcalls : (dial g.m p ch).2.calls = [] ∨ ∃ as, (dial g.m p ch).2.calls = [.open c as] := by
    revert h'
    unfold dial
    repeat' split
    all_goals simp [startedConn]
  rcases hcalls with h0 | ⟨as, h1⟩
  · rw [startedConn, h0] at h'; simp at h'
  · simp [ghost, h1]

theorem dialAddress_started (g : G) (a : Multiaddr) (c : ConnId)
    (h : startedConn (gstep g (.dialAddress a)).2 = some c) :
    ⟨(lastPeer a).getD 0, c, c⟩ ∈ (gstep g (.dialAddress a)).1.ledger := by
  rw [gstep_fst]
  show _ ∈ (ghost g _ (dialAddress g.m a).1 (dialAddress g.m a).2).ledger
  have h' : startedConn (dialAddress g.m a).2 = some c := h
  have hcalls : (dialAddress g.m a).2.calls = [] ∨ ∃ a', (dialAddress g.m a).2.calls = [.dial c a'] := by
    revert h'
    unfold dialAddress
    repeat' split
    all_goals simp [startedConn]
  rcases hcalls with h0 | ⟨a', h1⟩
  · rw [startedConn, h0] at h'; simp at h'
  · simp [ghost, h1]

/-! ## The invariant -/

structure PInv (ps : PS) : Prop where
  reach : Reach ps.g
  nodup : ps.order.Nodup
  /-- what protocol `j` was sent plus what it is still being sent = what was broadcast -/
  tied : ∀ j ∈ ps.order, ps.sent j ++ pend ps.todo j = ps.bcast
  /-- the broadcast reports what the events returned by `next()` report -/
  rep : ∀ a : Attempt, preportsOf a ps.bcast = outcome ps.g a
  /-- sent = taken out ++ still in the channel -/
  split : ∀ j, ps.sent j = ps.recv j ++ (ps.chans j).filterMap slotEv
  /-- every accepted request is queued or processed, once -/
  acct : ∀ k, (ps.done.filter (fun d => d.cmd.k == k)).length + (ps.cmds.filter (fun c => c.k == k)).length =
    if k < ps.nextReq then 1 else 0
  /-- the failure notifications are those of the failed `DialPeer` commands -/
  failedEv : ∀ k, ps.bcast.filter (fun e => e.src == .cmd k) =
    (ps.done.filter (fun d => d.cmd.k == k && d.fate == .failed)).map failEv
  /-- a command that started an attempt has it in the ledger -/
  started : ∀ d ∈ ps.done, ∀ c, d.fate = .started c → ∃ a ∈ ps.g.ledger, a.conn = c ∧ a.peer = cmdPeer d.cmd
  /-- the handle only queues addresses that end in `/p2p` -/
  cmdsPeer : ∀ k j a, Cmd.dialAddress k j a ∈ ps.cmds → (lastPeer a).isSome = true
  /-- so no failed command goes unreported -/
  noSilent : ∀ d ∈ ps.done, d.fate ≠ .silent

theorem pinv_init (cfg : LimitsCfg) (cap : Nat) (order : List Nat) (h : order.Nodup) :
    PInv (PS.init cfg cap order) := by
  refine ⟨Reach.init cfg, h, ?_, ?_, ?_, ?_, ?_, ?_, ?_, ?_⟩ <;> simp [PS.init, pend, preportsOf, outcome, G.init]

theorem filter_src_conn (l : List PEv) (h : ∀ e ∈ l, ∃ c, e.src = .conn c) (k : Nat) :
    l.filter (fun e => e.src == .cmd k) = [] := by
  apply List.filter_eq_nil_iff.2
  intro e he
  obtain ⟨c, hc⟩ := h e he
  simp [hc]

theorem acct_move (done : List Done) (c : Cmd) (rest : List Cmd) (f : Fate) (n : Nat)
    (h : ∀ k, (done.filter (fun d : Done => d.cmd.k == k)).length + ((c :: rest).filter (fun c => c.k == k)).length =
      if k < n then 1 else 0) (k : Nat) :
    ((done ++ [(⟨c, f⟩ : Done)]).filter (fun d : Done => d.cmd.k == k)).length + (rest.filter (fun c => c.k == k)).length =
      if k < n then 1 else 0 := by
  have := h k
  simp only [List.filter_append, List.length_append, List.filter_cons] at this ⊢
  by_cases hk : c.k = k <;> simp [hk] at this ⊢ <;> omega

/-- Delivering notifications from a state that is not suspended (field by field, so that it also
serves the failed-command step). -/
theorem pinv_deliver' (ps : PS) (hidle : ps.todo = []) (hnd : ps.order.Nodup)
    (htied : ∀ j ∈ ps.order, ps.sent j ++ pend ps.todo j = ps.bcast)
    (hsplit : ∀ j, ps.sent j = ps.recv j ++ (ps.chans j).filterMap slotEv)
    (hacct : ∀ k, (ps.done.filter (fun d => d.cmd.k == k)).length + (ps.cmds.filter (fun c => c.k == k)).length =
      if k < ps.nextReq then 1 else 0)
    (g' : G) (hg' : Reach g') (evs : List PEv) (held : List Ev)
    (hrep : ∀ a, preportsOf a (ps.bcast ++ evs) = outcome g' a)
    (hfail : ∀ k, (ps.bcast ++ evs).filter (fun e => e.src == .cmd k) =
      (ps.done.filter (fun d => d.cmd.k == k && d.fate == .failed)).map failEv)
    (hstart : ∀ d ∈ ps.done, ∀ c, d.fate = .started c → ∃ a ∈ g'.ledger, a.conn = c ∧ a.peer = cmdPeer d.cmd)
    (hcp : ∀ k j a, Cmd.dialAddress k j a ∈ ps.cmds → (lastPeer a).isSome = true)
    (hns : ∀ d ∈ ps.done, d.fate ≠ .silent) :
    PInv (deliver ps g' evs held).1 := by
  obtain ⟨f1, f2, f3, f4, f5, f6, f7, f8⟩ := deliver_frame ps g' evs held
  refine ⟨by rw [f1]; exact hg', by rw [f2]; exact hnd, ?_, ?_, ?_, ?_, ?_, ?_, by rw [f4]; exact hcp,
    by rw [f6]; exact hns⟩
  · intro j hj
    rw [f2] at hj
    rw [deliver_tied ps g' evs held hidle j, pend_sendsOf ps.order hnd j hj, f8, ← htied j hj, hidle]
    simp [pend]
  · intro a; rw [f8, f1]; exact hrep a
  · exact deliver_split ps g' evs held hsplit
  · intro k; rw [f6, f4, f5]; exact hacct k
  · intro k; rw [f8, f6]; exact hfail k
  · intro d hd c hc
    rw [f6] at hd
    rw [f1]
    exact hstart d hd c hc

/-- Delivering the notifications of a step of `g` that is not suspended. -/
theorem pinv_deliver {ps : PS} (h : PInv ps) (hidle : ps.todo = []) (g' : G) (hg' : Reach g')
    (evs : List PEv) (held : List Ev)
    (hrep : ∀ a, outcome g' a = outcome ps.g a + preportsOf a evs)
    (hsrc : ∀ e ∈ evs, ∃ c, e.src = .conn c)
    (hled : ∀ a ∈ ps.g.ledger, ∃ a' ∈ g'.ledger, a'.conn = a.conn ∧ a'.peer = a.peer) :
    PInv (deliver ps g' evs held).1 := by
  refine pinv_deliver' ps hidle h.nodup h.tied h.split h.acct g' hg' evs held ?_ ?_ ?_ h.cmdsPeer h.noSilent
  · intro a; rw [preportsOf_append, h.rep, hrep]
  · intro k; rw [List.filter_append, filter_src_conn evs hsrc, List.append_nil]; exact h.failedEv k
  · intro d hd c hc
    obtain ⟨a, ha, h1, h2⟩ := h.started d hd c hc
    obtain ⟨a', ha', h3, h4⟩ := hled a ha
    exact ⟨a', ha', h3.trans h1, h4.trans h2⟩

theorem pinv_base {ps : PS} (h : PInv ps) (i : In) (hal : allowed ps.g i = true) : PInv (pbase ps i).1 := by
  unfold pbase
  split
  · exact h
  · split
    · exact h
    · rename_i hidle _
      have hidle' : ps.todo = [] := by simpa using hidle
      refine pinv_deliver h hidle' _ (Reach.step i h.reach hal) _ _ ?_ (notes_src _ _ _) (ledger_persist ps.g i)
      intro a
      rw [outcome_of_log a _ (gstep_log ps.g i)]
      unfold notes
      rw [preportsOf_notes]

theorem pinv_queue {ps : PS} (h : PInv ps) (c : Cmd) (hk : c.k = ps.nextReq)
    (hp : ∀ k j a, c = .dialAddress k j a → (lastPeer a).isSome = true) :
    PInv { ps with cmds := ps.cmds ++ [c], nextReq := ps.nextReq + 1 } := by
  refine ⟨h.reach, h.nodup, h.tied, h.rep, h.split, ?_, h.failedEv, h.started, ?_, h.noSilent⟩
  rotate_left
  · intro k j a hm
    rcases List.mem_append.1 hm with hm | hm
    · exact h.cmdsPeer k j a hm
    · exact hp k j a (by have := List.mem_singleton.1 hm; exact this.symm)
  intro k
  have := h.acct k
  show (ps.done.filter _).length + ((ps.cmds ++ [c]).filter _).length = if k < ps.nextReq + 1 then 1 else 0
  rw [List.filter_append, List.length_append]
  by_cases hkk : k = ps.nextReq
  · subst hkk
    rw [if_neg (Nat.lt_irrefl _)] at this
    rw [if_pos (Nat.lt_succ_self _)]
    have h1 : ([c].filter (fun c => c.k == ps.nextReq)).length = 1 := by simp [List.filter_cons, hk]
    omega
  · have h1 : ([c].filter (fun c => c.k == k)).length = 0 := by
      have : ¬ ps.nextReq = k := fun h => hkk h.symm
      simp [List.filter_cons, hk, this]
    by_cases hlt : k < ps.nextReq
    · rw [if_pos hlt] at this; rw [if_pos (by omega)]; omega
    · rw [if_neg hlt] at this; rw [if_neg (by omega)]; omega

theorem pinv_handleDial {ps : PS} (h : PInv ps) (j : Nat) (p : Peer) : PInv (handleDial ps j p).1 := by
  unfold handleDial
  repeat' split
  all_goals first | exact h | exact pinv_queue h _ rfl (by intro k j a hc; cases hc)

theorem pinv_handleDialAddress {ps : PS} (h : PInv ps) (j : Nat) (a : Multiaddr) :
    PInv (handleDialAddress ps j a).1 := by
  unfold handleDialAddress
  split
  · exact h
  · rename_i hsome
    refine pinv_queue h _ rfl ?_
    intro k j' a' hc
    cases hc
    cases hl : lastPeer a <;> simp [hl] at hsome ⊢

/-- Moving the head command to `done` with a fate that sends nothing. -/
theorem pinv_done {ps : PS} (h : PInv ps) (c : Cmd) (rest : List Cmd) (hc : ps.cmds = c :: rest) (g' : G)
    (hg' : Reach g') (hlog : g'.log = ps.g.log)
    (hled : ∀ a ∈ ps.g.ledger, ∃ a' ∈ g'.ledger, a'.conn = a.conn ∧ a'.peer = a.peer)
    (f : Fate) (hf : f ≠ .failed) (hf' : f ≠ .silent)
    (hst : ∀ x, f = .started x → ∃ a ∈ g'.ledger, a.conn = x ∧ a.peer = cmdPeer c) :
    PInv { ps with g := g', cmds := rest, done := ps.done ++ [⟨c, f⟩] } := by
  refine ⟨hg', h.nodup, h.tied, ?_, h.split, ?_, ?_, ?_, ?_, ?_⟩
  rotate_right 2
  · intro k j a hm
    exact h.cmdsPeer k j a (by rw [hc]; exact List.mem_cons_of_mem _ hm)
  · intro d hd
    rcases List.mem_append.1 hd with hd | hd
    · exact h.noSilent d hd
    · have : d = ⟨c, f⟩ := by simpa using hd
      subst this; exact hf'
  · intro a
    have : outcome g' a = outcome ps.g a := by rw [outcome_eq, outcome_eq, hlog]
    show preportsOf a ps.bcast = outcome g' a
    rw [this]; exact h.rep a
  · exact acct_move ps.done c rest f ps.nextReq (by intro k; have := h.acct k; rwa [hc] at this)
  · intro k
    have hff : (f == Fate.failed) = false := by
      cases f <;> simp at hf ⊢
    simp [List.filter_append, List.filter_cons, hff]
    exact h.failedEv k
  · intro d hd x hx
    rcases List.mem_append.1 hd with hd | hd
    · obtain ⟨a, ha, h1, h2⟩ := h.started d hd x hx
      obtain ⟨a', ha', h3, h4⟩ := hled a ha
      exact ⟨a', ha', h3.trans h1, h4.trans h2⟩
    · have : d = ⟨c, f⟩ := by simpa using hd
      subst this
      exact hst x hx

/-- A queued dial failed: its failure notification goes to every protocol. -/
theorem pinv_failed {ps : PS} (h : PInv ps) (hidle : ps.todo = []) (c : Cmd) (rest : List Cmd)
    (hc : ps.cmds = c :: rest) (g' : G) (hg' : Reach g') (hlog : g'.log = ps.g.log)
    (hled : ∀ a ∈ ps.g.ledger, ∃ a' ∈ g'.ledger, a'.conn = a.conn ∧ a'.peer = a.peer) :
    PInv (deliver { ps with cmds := rest, done := ps.done ++ [⟨c, .failed⟩] } g' [failEv ⟨c, .failed⟩] []).1 := by
  refine pinv_deliver' { ps with cmds := rest, done := ps.done ++ [⟨c, .failed⟩] } hidle h.nodup
    h.tied h.split
    (acct_move ps.done _ rest .failed ps.nextReq (by intro k; have := h.acct k; rwa [hc] at this))
    _ hg' _ _ ?_ ?_ ?_ ?_ ?_
  · intro a
    have : outcome g' a = outcome ps.g a := by rw [outcome_eq, outcome_eq, hlog]
    show preportsOf a (ps.bcast ++ _) = _
    rw [preportsOf_append, this, h.rep a]
    simp [preportsOf, preports, failEv]
  · intro k'
    show (ps.bcast ++ _).filter _ = ((ps.done ++ _).filter _).map failEv
    rw [List.filter_append, List.filter_append, List.map_append, h.failedEv k']
    by_cases hk : c.k = k' <;> simp [List.filter_cons, hk, failEv]
  · intro d hd x hx
    rcases List.mem_append.1 hd with hd | hd
    · obtain ⟨a, ha, h1, h2⟩ := h.started d hd x hx
      obtain ⟨a', ha', h3, h4⟩ := hled a ha
      exact ⟨a', ha', h3.trans h1, h4.trans h2⟩
    · have : d = ⟨c, .failed⟩ := by simpa using hd
      subst this; cases hx
  · intro k j a hm
    exact h.cmdsPeer k j a (by rw [hc]; exact List.mem_cons_of_mem _ hm)
  · intro d hd
    rcases List.mem_append.1 hd with hd | hd
    · exact h.noSilent d hd
    · have : d = ⟨c, .failed⟩ := by simpa using hd
      subst this; simp

theorem pinv_afterDialPeer {ps : PS} (h : PInv ps) (hidle : ps.todo = []) (k j : Nat) (p : Peer)
    (rest : List Cmd) (hc : ps.cmds = .dialPeer k j p :: rest) (ch : List Multiaddr) :
    PInv (afterDialPeer ps k j p rest (gstep ps.g (.dial p ch))).1 := by
  have hg' : Reach (gstep ps.g (.dial p ch)).1 := Reach.step _ h.reach rfl
  have hlog : (gstep ps.g (.dial p ch)).1.log = ps.g.log := by
    rw [gstep_log, gstep_dial_events, List.append_nil]
  have hled := ledger_persist ps.g (.dial p ch)
  unfold afterDialPeer
  split
  · exact pinv_done h _ rest hc _ hg' hlog hled .connected (by simp) (by simp) (by intro x hx; cases hx)
  · exact pinv_failed h hidle _ rest hc _ hg' hlog hled
  · split
    · rename_i c hs
      exact pinv_done h _ rest hc _ hg' hlog hled (.started c) (by simp) (by simp)
        (by intro x hx; cases hx; exact ⟨_, dial_started ps.g p ch _ hs, rfl, rfl⟩)
    · exact pinv_done h _ rest hc _ hg' hlog hled .joined (by simp) (by simp) (by intro x hx; cases hx)

theorem pinv_afterDialAddress {ps : PS} (h : PInv ps) (hidle : ps.todo = []) (k j : Nat) (a : Multiaddr)
    (rest : List Cmd) (hc : ps.cmds = .dialAddress k j a :: rest) :
    PInv (afterDialAddress ps k j a rest (gstep ps.g (.dialAddress a))).1 := by
  have hg' : Reach (gstep ps.g (.dialAddress a)).1 := Reach.step _ h.reach rfl
  have hlog : (gstep ps.g (.dialAddress a)).1.log = ps.g.log := by
    rw [gstep_log, gstep_dialAddress_events, List.append_nil]
  have hled := ledger_persist ps.g (.dialAddress a)
  have hsome := h.cmdsPeer k j a (by rw [hc]; exact List.mem_cons_self)
  unfold afterDialAddress
  split
  · exact pinv_done h _ rest hc _ hg' hlog hled .connected (by simp) (by simp) (by intro x hx; cases hx)
  · split
    · rename_i p hp
      have := pinv_failed h hidle (.dialAddress k j a) rest hc _ hg' hlog hled
      simpa [failEv, cmdPeer, cmdAddrs, Cmd.k, hp] using this
    · rename_i hn; rw [hn] at hsome; cases hsome
  · split
    · rename_i c hs
      exact pinv_done h _ rest hc _ hg' hlog hled (.started c) (by simp) (by simp)
        (by intro x hx; cases hx; exact ⟨_, dialAddress_started ps.g a _ hs, rfl, rfl⟩)
    · exact pinv_done h _ rest hc _ hg' hlog hled .joined (by simp) (by simp) (by intro x hx; cases hx)

theorem pinv_runCmd {ps : PS} (h : PInv ps) (ch : List Multiaddr) : PInv (runCmd ps ch).1 := by
  unfold runCmd
  split
  · exact h
  · rename_i hidle
    have hidle' : ps.todo = [] := by simpa using hidle
    split
    · exact h
    · rename_i k j p rest hc; exact pinv_afterDialPeer h hidle' k j p rest hc ch
    · rename_i k j a rest hc; exact pinv_afterDialAddress h hidle' k j a rest hc

theorem pinv_resume {ps : PS} (h : PInv ps) : PInv (resume ps).1 := by
  unfold resume
  split
  · exact h
  · rename_i j e t htodo
    split
    · have htied := fun j' => runSends_tied ps.cap t (pushAt ps.chans j (.ev e)) (pushAt ps.sent j e) j'
      have hsplit := runSends_split ps.cap ps.recv t (pushAt ps.chans j (.ev e)) (pushAt ps.sent j e) (by
        intro j'
        by_cases hij : j' = j <;> simp [pushAt, hij, h.split, slotEv])
      have hold : ∀ j', pushAt ps.sent j e j' ++ pend t j' = ps.sent j' ++ pend ps.todo j' := by
        intro j'
        rw [htodo, pend_cons]
        by_cases hij : j = j' <;> simp [pushAt, hij]
        intro h'; exact absurd h'.symm hij
      split <;> rename_i heq <;> rw [heq] at htied hsplit
      · refine ⟨h.reach, h.nodup, ?_, h.rep, ?_, h.acct, h.failedEv, h.started, h.cmdsPeer, h.noSilent⟩
        · intro j' hj'
          have := htied j'
          simp only [] at this
          show _ ++ pend [] j' = _
          rw [← h.tied j' hj', ← hold j']
          simpa using this
        · intro j'; simpa using hsplit j'
      · refine ⟨h.reach, h.nodup, ?_, h.rep, ?_, h.acct, h.failedEv, h.started, h.cmdsPeer, h.noSilent⟩
        · intro j' hj'
          have := htied j'
          show _ ++ pend (_ :: _) j' = _
          rw [← h.tied j' hj', ← hold j']
          simpa using this
        · intro j'; simpa using hsplit j'
    · exact h

theorem pinv_pfill {ps : PS} (h : PInv ps) (j : Nat) : PInv (pfill ps j).1 := by
  unfold pfill
  refine ⟨h.reach, h.nodup, h.tied, h.rep, ?_, h.acct, h.failedEv, h.started, h.cmdsPeer, h.noSilent⟩
  intro i
  show ps.sent i = ps.recv i ++ _
  by_cases hij : i = j
  · subst hij
    have : List.filterMap slotEv (List.replicate (ps.cap - (ps.chans i).length) Slot.fill) = [] := by
      apply List.filterMap_eq_nil_iff.2
      intro x hx
      rw [(List.mem_replicate.1 hx).2]; rfl
    simp [List.filterMap_append, this, h.split]
  · simp [hij, h.split]

theorem pinv_pdrain {ps : PS} (h : PInv ps) (j : Nat) : PInv (pdrain ps j).1 := by
  unfold pdrain
  refine ⟨h.reach, h.nodup, h.tied, h.rep, ?_, h.acct, h.failedEv, h.started, h.cmdsPeer, h.noSilent⟩
  intro i
  show ps.sent i = _
  by_cases hij : i = j
  · subst hij; simp [h.split]
  · simp [hij, h.split]

theorem pinv_step {ps : PS} (h : PInv ps) (i : PIn) (hal : pallowed ps i = true) : PInv (pstep ps i).1 := by
  cases i with
  | base i => exact pinv_base h i hal
  | pdial j p => exact pinv_handleDial h j p
  | pdialAddr j a => exact pinv_handleDialAddress h j a
  | pfill j => exact pinv_pfill h j
  | pdrain j => exact pinv_pdrain h j
  | runCmd ch => exact pinv_runCmd h ch
  | resume => exact pinv_resume h

theorem pinv_reach {ps : PS} (h : PReach ps) : PInv ps := by
  induction h with
  | init cfg cap order hn => exact pinv_init cfg cap order hn
  | step i _ hal ih => exact pinv_step ih i hal

end Litep2pVerif.Manager
