import Litep2pVerif.Proofs.Manager.LedgerStep
import Litep2pVerif.Proofs.Manager.Caps
/-! Connection ids (C06 `connection_ids_unique`): one counter (`Mgr.nextConn`) serves the manager's own dials
(`dial`, `dial_address`) and the ids the transports take for inbound connections (`In.alloc` =
`TransportHandle::next_connection_id`); under the transport contract the ids of all live connections are
pairwise distinct, below the counter, and none of them is shared with an inbound socket still waiting or with
a dial in flight. -/
namespace Litep2pVerif.Manager

theorem closeConn_nc (s : Mgr) (p : Peer) (c : ConnId) : (closeConn s p c).1.nextConn = s.nextConn := rfl

theorem openedPre_nc (s : Mgr) (c : ConnId) (errs : List (Multiaddr × DialErr)) :
    (openedPre s c errs).nextConn = s.nextConn := by
  simp [openedPre]

/-- The counter never goes back. -/
theorem step_nextConn_le (s : Mgr) (i : In) : s.nextConn ≤ (step s i).1.nextConn := by
  cases i with
  | dial p ch =>
    simp only [step]; unfold dial
    repeat' split
    all_goals simp
  | dialAddress a =>
    cases dialAddress_shape s a with
    | refused e _ _ _ _ _ _ _ hnc => exact hnc
    | joined p _ _ _ _ _ _ _ _ _ hnc => exact hnc
    | started p _ _ _ _ _ _ _ _ _ _ hnc => show _ ≤ (dialAddress s a).1.nextConn; rw [hnc]; exact Nat.le_succ _
  | addKnown p as => simp [step, addKnown]
  | alloc => simp [step]
  | evEstablished p ep ok =>
    simp only [step]; unfold onEstablished
    repeat' split
    all_goals simp [closeConn_nc]
  | evOpened c a errs =>
    simp only [step]; unfold onOpened
    repeat' split
    all_goals simp [openedPre_nc]
  | evOpenFailure c errs =>
    simp only [step]; unfold onOpenFailure
    repeat' split
    all_goals simp
  | evDialFailure c a e =>
    simp only [step]; unfold onDialFailure
    repeat' split
    all_goals simp
  | evPendingInbound c =>
    simp only [step]; unfold onPendingInbound
    repeat' split
    all_goals simp
  | evClosed p c => simp [step, onClosed, closeConn_nc]
  | acceptResult c ok =>
    simp only [step]; unfold onAcceptResult
    repeat' split
    all_goals simp [closeConn_nc]

/-- `dial` hands the transport the current value of the counter. -/
theorem dial_calls (s : Mgr) (p : Peer) (ch : List Multiaddr) (c : ConnId) (as : List Multiaddr)
    (h : (dial s p ch).2.calls = [.open c as]) : c = s.nextConn := by
  unfold dial at h
  repeat' split at h
  all_goals simp at h
  exact h.1.symm

/-- `negotiate c'` is only ever called for the id stored in an `Opening` state. -/
theorem onOpened_negotiate (s : Mgr) (c : ConnId) (a : Multiaddr) (errs : List (Multiaddr × DialErr)) (c' : ConnId)
    (h : Call.negotiate c' ∈ (onOpened s c a errs).2.calls) :
    ∃ peer as ts, stateOf s peer = .opening as c' ts := by
  unfold onOpened at h
  split at h
  · simp at h
  · rename_i peer _
    split at h
    · rename_i as c0 ts hs
      simp only [List.mem_append, List.mem_map, List.mem_singleton] at h
      rcases h with ⟨_, _, hh⟩ | hh
      · cases hh
      · injection hh with hc
        subst hc
        refine ⟨peer, as, ts, ?_⟩
        simp only [openedPre, stateOf_updAddrFails] at hs
        exact hs
    · simp at h

theorem mem_foldl_dropOwed (cs : List ConnId) : ∀ (l : List Owed) (o : Owed),
    o ∈ cs.foldl (fun l c => dropOwed c l) l → o ∈ l := by
  induction cs with
  | nil => intro l o h; exact h
  | cons c t ih => intro l o h; exact (mem_dropOwed.1 (ih _ o h)).1

/-! ### What one ghost step does to `owed` and `fresh` -/

theorem ghost_fresh_sub (g : G) (i : In) (m' : Mgr) (out : Out) (c : ConnId)
    (h : c ∈ (ghost g i m' out).fresh) : c ∈ g.fresh ∨ (i = .alloc ∧ out.res = .conn c) := by
  cases i <;> simp only [ghost] at h <;> (repeat' split at h) <;>
    first
    | exact Or.inl h
    | (simp only [List.mem_cons] at h; rcases h with rfl | h
       · exact Or.inr ⟨rfl, by assumption⟩
       · exact Or.inl h)
    | exact Or.inl (List.mem_filter.1 h).1

theorem ghost_owed_est (g : G) (p : Peer) (ep : Endpoint) (ok : Bool) (m' : Mgr) (out : Out) (o : Owed)
    (h : o ∈ (ghost g (.evEstablished p ep ok) m' out).owed) :
    (o = ⟨ep.conn, .accepting, p⟩ ∧ Call.accept ep.conn ∈ out.calls ∧ ok = true) ∨ (o ∈ g.owed ∧ o.conn ≠ ep.conn) := by
  have hsub : ∀ o, o ∈ (cancelled out.calls).foldl (fun l c => dropOwed c l) (dropOwed ep.conn g.owed) →
      o ∈ g.owed ∧ o.conn ≠ ep.conn := fun o ho => mem_dropOwed.1 (mem_foldl_dropOwed _ _ o ho)
  simp only [ghost] at h
  split at h
  · rename_i hacc
    split at h
    · rename_i hok
      simp only [List.mem_cons] at h
      rcases h with rfl | h
      · exact Or.inl ⟨rfl, hacc, hok⟩
      · exact Or.inr (hsub o h)
    · exact Or.inr (hsub o h)
  · exact Or.inr (hsub o h)

theorem ghost_fresh_est (g : G) (p : Peer) (ep : Endpoint) (ok : Bool) (m' : Mgr) (out : Out) :
    (ghost g (.evEstablished p ep ok) m' out).fresh = g.fresh.filter (· ≠ ep.conn) := by
  simp only [ghost]; split <;> (try split) <;> rfl

/-- Every obligation after a step is an old one, an `accepting` one, or carries an id the step took from
the counter, or re-phases an old non-accepting obligation with the same id. -/
theorem ghost_owed_sub (g : G) (h5 : Inv05 g) (i : In) (o : Owed)
    (h : o ∈ (gstep g i).1.owed) :
    o ∈ g.owed ∨ o.phase = .accepting ∨ g.m.nextConn ≤ o.conn ∨
      (∃ o' ∈ g.owed, o'.conn = o.conn ∧ o'.phase ≠ .accepting) := by
  rw [gstep_fst] at h
  cases i with
  | dial p ch =>
    simp only [ghost] at h
    split at h
    · rename_i c as hcalls
      simp only [List.mem_cons] at h
      rcases h with rfl | h
      · exact Or.inr (Or.inr (Or.inl (by rw [dial_calls g.m p ch c as hcalls]; exact Nat.le_refl _)))
      · exact Or.inl h
    · exact Or.inl h
  | dialAddress a =>
    simp only [ghost] at h
    split at h
    · rename_i c a' hcalls
      simp only [List.mem_cons] at h
      rcases h with rfl | h
      · refine Or.inr (Or.inr (Or.inl ?_))
        cases dialAddress_shape g.m a with
        | refused e _ hc _ _ _ _ _ _ => rw [show (step g.m (.dialAddress a)).2.calls = _ from hc] at hcalls; cases hcalls
        | joined q _ hc _ _ _ _ _ _ _ _ => rw [show (step g.m (.dialAddress a)).2.calls = _ from hc] at hcalls; cases hcalls
        | started q _ hc _ _ _ _ _ _ _ _ _ =>
          rw [show (step g.m (.dialAddress a)).2.calls = _ from hc] at hcalls
          injection hcalls with h1 _
          injection h1 with h2 _
          show g.m.nextConn ≤ c
          rw [← h2]; exact Nat.le_refl _
      · exact Or.inl h
    · exact Or.inl h
  | addKnown p as => exact Or.inl h
  | alloc =>
    simp only [ghost] at h
    split at h <;> exact Or.inl h
  | evEstablished p ep ok =>
    rcases ghost_owed_est g p ep ok _ _ o h with ⟨rfl, _, _⟩ | ⟨h1, _⟩
    · exact Or.inr (Or.inl rfl)
    · exact Or.inl h1
  | evOpened c a errs =>
    simp only [ghost] at h
    split at h
    · rename_i c' rest hneg
      simp only [List.mem_cons] at h
      rcases h with rfl | h
      · have hmem : Call.negotiate c' ∈ (step g.m (.evOpened c a errs)).2.calls := by
          have this := List.mem_cons_self (a := c') (l := rest)
          rw [← hneg] at this
          obtain ⟨x, hx, hx2⟩ := List.mem_filterMap.1 this
          cases x <;> simp at hx2
          subst hx2; exact hx
        obtain ⟨peer, as, ts, hs⟩ := onOpened_negotiate g.m c a errs c' hmem
        exact Or.inr (Or.inr (Or.inr ⟨_, h5.openTracked peer as c' ts hs, rfl, by simp⟩))
      · exact Or.inl (mem_dropOwed.1 (mem_dropOwed.1 h).1).1
    · exact Or.inl (mem_dropOwed.1 h).1
  | evOpenFailure c errs => exact Or.inl (mem_dropOwed.1 h).1
  | evDialFailure c a e => exact Or.inl (mem_dropOwed.1 h).1
  | evPendingInbound c => exact Or.inl h
  | evClosed p c => exact Or.inl h
  | acceptResult c ok => exact Or.inl (mem_dropOwed.1 h).1

/-! ### The invariant -/

structure InvIds (g : G) : Prop where
  bLive : ∀ l ∈ g.live, l.conn < g.m.nextConn
  liveFresh : ∀ l ∈ g.live, l.conn ∉ g.fresh
  liveOwed : ∀ l ∈ g.live, ∀ o ∈ g.owed, o.conn = l.conn → o.phase = .accepting
  uniq : ∀ l ∈ g.live, ∀ l' ∈ g.live, l.conn = l'.conn → l = l'
  nodup : g.live.Nodup

theorem invIds_init (cfg : LimitsCfg) : InvIds (G.init cfg) := by
  constructor <;> simp [G.init]

theorem nodup_dropLive (c : ConnId) (ls : List Live) (h : ls.Nodup) : (dropLive c ls).Nodup :=
  List.Nodup.sublist List.filter_sublist h

/-- The live set does not grow. -/
theorem invIds_frame {g : G} (h : InvIds g) (h5 : Inv05 g) (i : In)
    (hlive : ∀ l ∈ (gstep g i).1.live, l ∈ g.live) (hnd : (gstep g i).1.live.Nodup) :
    InvIds (gstep g i).1 := by
  have hnc : g.m.nextConn ≤ (gstep g i).1.m.nextConn := by
    rw [gstep_fst, ghost_m]; exact step_nextConn_le g.m i
  constructor
  · intro l hl; exact Nat.lt_of_lt_of_le (h.bLive l (hlive l hl)) hnc
  · intro l hl hf
    rw [gstep_fst] at hf
    rcases ghost_fresh_sub g i _ _ _ hf with hf | ⟨rfl, hres⟩
    · exact h.liveFresh l (hlive l hl) hf
    · have : l.conn = g.m.nextConn := by
        have : (Res.conn g.m.nextConn) = .conn l.conn := hres
        injection this with e; exact e.symm
      exact absurd (h.bLive l (hlive l hl)) (by rw [this]; exact Nat.lt_irrefl _)
  · intro l hl o ho hc
    rcases ghost_owed_sub g h5 i o ho with h1 | h1 | h1 | ⟨o', ho', hc', hph⟩
    · exact h.liveOwed l (hlive l hl) o h1 hc
    · exact h1
    · exact absurd (h.bLive l (hlive l hl)) (by rw [← hc]; exact Nat.not_lt.2 h1)
    · exact absurd (h.liveOwed l (hlive l hl) o' ho' (hc'.trans hc)) hph
  · intro l hl l' hl' hc; exact h.uniq l (hlive l hl) l' (hlive l' hl') hc
  · exact hnd

theorem invIds_step {g : G} (h : InvIds g) (h5 : Inv05 g) (i : In) (hal : allowed g i = true) :
    InvIds (gstep g i).1 := by
  have hother : (∀ p ep ok, i ≠ .evEstablished p ep ok) → (∀ p c, i ≠ .evClosed p c) →
      (∀ c ok, i ≠ .acceptResult c ok) → InvIds (gstep g i).1 := by
    intro h1 h2 h3
    have hl : (gstep g i).1.live = g.live := by rw [gstep_fst]; exact ghost_live_other g i _ _ h1 h2 h3
    exact invIds_frame h h5 i (fun l hl' => hl ▸ hl') (hl ▸ h.nodup)
  cases i with
  | dial p ch => exact hother (by intros; simp) (by intros; simp) (by intros; simp)
  | dialAddress a => exact hother (by intros; simp) (by intros; simp) (by intros; simp)
  | addKnown p as => exact hother (by intros; simp) (by intros; simp) (by intros; simp)
  | alloc => exact hother (by intros; simp) (by intros; simp) (by intros; simp)
  | evOpened c a errs => exact hother (by intros; simp) (by intros; simp) (by intros; simp)
  | evOpenFailure c errs => exact hother (by intros; simp) (by intros; simp) (by intros; simp)
  | evDialFailure c a e => exact hother (by intros; simp) (by intros; simp) (by intros; simp)
  | evPendingInbound c => exact hother (by intros; simp) (by intros; simp) (by intros; simp)
  | evClosed p c =>
    have hl : (gstep g (.evClosed p c)).1.live = dropLive c g.live := by
      rw [gstep_fst]; exact ghost_live_closed g p c _ _
    exact invIds_frame h h5 _ (fun l hl' => ((mem_dropLive c l _).1 (hl ▸ hl')).1) (hl ▸ nodup_dropLive c _ h.nodup)
  | acceptResult c ok =>
    have hl : (gstep g (.acceptResult c ok)).1.live =
        if ok then g.live else if (findAccept c g.m.pendingAccept).isSome then dropLive c g.live else g.live := by
      rw [gstep_fst]; exact ghost_live_acceptResult g c ok _ _
    refine invIds_frame h h5 _ ?_ ?_
    · intro l hl'; rw [hl] at hl'
      split at hl'
      · exact hl'
      · split at hl'
        · exact ((mem_dropLive c l _).1 hl').1
        · exact hl'
    · rw [hl]; split
      · exact h.nodup
      · split
        · exact nodup_dropLive c _ h.nodup
        · exact h.nodup
  | evEstablished p ep ok =>
    simp only [allowed, Bool.and_eq_true] at hal
    obtain ⟨hok, hrest⟩ := hal
    subst hok
    have hl : (gstep g (.evEstablished p ep true)).1.live =
        if Call.accept ep.conn ∈ (step g.m (.evEstablished p ep true)).2.calls then
          addLive ⟨p, ep.conn, ep.isListener⟩ g.live else g.live := by
      rw [gstep_fst, ghost_live_est]; simp
    by_cases hacc : Call.accept ep.conn ∈ (step g.m (.evEstablished p ep true)).2.calls
    · rw [if_pos hacc] at hl
      -- the id is new among the live connections
      have hnew : ∀ l ∈ g.live, l.conn ≠ ep.conn := by
        intro l hl' e
        cases hd : ep.isListener with
        | true =>
          rw [hd] at hrest
          have : ep.conn ∈ g.fresh := by simpa using hrest
          exact h.liveFresh l hl' (e ▸ this)
        | false =>
          rw [hd] at hrest
          have : (⟨ep.conn, .dialing, p⟩ : Owed) ∈ g.owed := by simpa using hrest
          have := h.liveOwed l hl' _ this e.symm
          cases this
      have hb : ep.conn < g.m.nextConn := by
        cases hd : ep.isListener with
        | true =>
          rw [hd] at hrest
          exact h5.bFresh _ (by simpa using hrest)
        | false =>
          rw [hd] at hrest
          have : (⟨ep.conn, .dialing, p⟩ : Owed) ∈ g.owed := by simpa using hrest
          exact h5.bOwed _ this
      have hnc : g.m.nextConn ≤ (gstep g (.evEstablished p ep true)).1.m.nextConn := by
        rw [gstep_fst, ghost_m]; exact step_nextConn_le g.m _
      have hmem : ∀ l, l ∈ (gstep g (.evEstablished p ep true)).1.live ↔
          l = ⟨p, ep.conn, ep.isListener⟩ ∨ l ∈ g.live := by
        intro l; rw [hl]; exact mem_addLive _ _ _
      have hfr : (gstep g (.evEstablished p ep true)).1.fresh = g.fresh.filter (· ≠ ep.conn) := by
        rw [gstep_fst]; exact ghost_fresh_est g p ep true _ _
      constructor
      · intro l hl'
        rcases (hmem l).1 hl' with rfl | hl'
        · exact Nat.lt_of_lt_of_le hb hnc
        · exact Nat.lt_of_lt_of_le (h.bLive l hl') hnc
      · intro l hl' hf
        rw [hfr] at hf
        obtain ⟨hf1, hf2⟩ := List.mem_filter.1 hf
        rcases (hmem l).1 hl' with rfl | hl'
        · simp at hf2
        · exact h.liveFresh l hl' hf1
      · intro l hl' o ho hc
        rw [gstep_fst] at ho
        rcases ghost_owed_est g p ep true _ _ o ho with ⟨rfl, _, _⟩ | ⟨ho1, hne⟩
        · rfl
        · rcases (hmem l).1 hl' with rfl | hl'
          · exact absurd hc hne
          · exact h.liveOwed l hl' o ho1 hc
      · intro l hl1 l' hl2 hc
        rcases (hmem l).1 hl1 with rfl | hl1 <;> rcases (hmem l').1 hl2 with rfl | hl2
        · rfl
        · exact absurd hc.symm (hnew l' hl2)
        · exact absurd hc (hnew l hl1)
        · exact h.uniq l hl1 l' hl2 hc
      · rw [hl]; exact nodup_addLive _ _ h.nodup
    · rw [if_neg hacc] at hl
      exact invIds_frame h h5 _ (fun l hl' => hl ▸ hl') (hl ▸ h.nodup)

theorem invIds_reach {g : G} (h : Reach g) : InvIds g := by
  induction h with
  | init cfg => exact invIds_init cfg
  | step i hr hal ih => exact invIds_step ih (inv05_reach hr) i hal

end Litep2pVerif.Manager
