import Litep2pVerif.Proofs.Manager.Basic
/-! `dial_address` on arbitrary multiaddress shapes (C05 `addr_total`, findings (e) and (f)). -/
namespace Litep2pVerif.Manager

/-- Shape of the addresses `dial_address` lets through (after the fix for (f)). -/
theorem dialAddrTransport_shape {a : Multiaddr} {t : Transport} (h : dialAddrTransport a = some t) :
    ∃ first port p, a = [first, .tcp port, .p2p p] ∧ first.isIpOrDns = true := by
  unfold dialAddrTransport at h
  split at h
  · rename_i first rest
    split at h
    · rename_i hip
      split at h
      · rename_i port p
        exact ⟨first, port, p, rfl, hip⟩
      · simp at h
    · simp at h
  · simp at h

theorem tcpParse_of_shape (first : Proto) (port p : Nat) (h : first.isIpOrDns = true) :
    tcpParse [first, .tcp port, .p2p p] = some (some p) := by
  simp [tcpParse, h]

theorem lastPeer_of_shape (first : Proto) (port p : Nat) : lastPeer [first, .tcp port, .p2p p] = some p := by
  simp [lastPeer]

/-- The three ways `dial_address` can end. -/
inductive DialAddrShape (s : Mgr) (a : Multiaddr) (r : Mgr × Out) : Prop where
  | refused (e : ErrKind) (hres : r.2.res = .err e) (hcalls : r.2.calls = []) (hev : r.2.events = [])
      (hst : ∀ q, stateOf r.1 q = stateOf s q) (hpend : r.1.pending = s.pending)
      (hlim : r.1.limits = s.limits) (hpa : r.1.pendingAccept = s.pendingAccept)
      (hnc : s.nextConn ≤ r.1.nextConn)
  | joined (remote : Peer) (hres : r.2.res = .ok) (hcalls : r.2.calls = []) (hev : r.2.events = [])
      (hremote : lastPeer a = some remote)
      (hbusy : (stateOf s remote).canDial = .dialingInProgress)
      (hst : ∀ q, stateOf r.1 q = stateOf s q) (hpend : r.1.pending = s.pending)
      (hlim : r.1.limits = s.limits) (hpa : r.1.pendingAccept = s.pendingAccept)
      (hnc : s.nextConn ≤ r.1.nextConn)
  | started (remote : Peer) (hres : r.2.res = .ok) (hcalls : r.2.calls = [.dial s.nextConn a])
      (hev : r.2.events = [])
      (hremote : lastPeer a = some remote) (htcp : tcpParse a = some (some remote))
      (hidle : stateOf s remote = .disconnected none)
      (hst : ∀ q, stateOf r.1 q = if q = remote then .dialing ⟨a, s.nextConn⟩ else stateOf s q)
      (hpend : r.1.pending = ainsert s.nextConn remote s.pending)
      (hlim : r.1.limits = s.limits) (hpa : r.1.pendingAccept = s.pendingAccept)
      (hnc : r.1.nextConn = s.nextConn + 1)

theorem dialAddress_shape' (s : Mgr) (a : Multiaddr) (r : Mgr × Out) (hr : dialAddress s a = r) :
    DialAddrShape s a r ∧ r.2.panic = false := by
  unfold dialAddress at hr
  split at hr
  · subst hr; exact ⟨.refused _ rfl rfl rfl (fun _ => rfl) rfl rfl rfl (Nat.le_refl _), rfl⟩
  · split at hr
    · subst hr; exact ⟨.refused _ rfl rfl rfl (fun _ => rfl) rfl rfl rfl (Nat.le_refl _), rfl⟩
    · rename_i remote hremote
      split at hr
      · subst hr; exact ⟨.refused _ rfl rfl rfl (fun _ => rfl) rfl rfl rfl (Nat.le_refl _), rfl⟩
      · split at hr
        · subst hr; exact ⟨.refused _ rfl rfl rfl (fun _ => rfl) rfl rfl rfl (Nat.le_refl _), rfl⟩
        · rename_i t ht
          obtain ⟨first, port, p, hshape, hip⟩ := dialAddrTransport_shape ht
          have hp : remote = p := by
            rw [hshape, lastPeer_of_shape] at hremote; exact (Option.some.inj hremote).symm
          split at hr
          · subst hr
            refine ⟨.refused _ rfl rfl rfl ?_ rfl rfl rfl (Nat.le_succ _), rfl⟩
            intro q; show stateOf (updAddr s remote a 0) q = _; rw [stateOf_updAddr]
          · rename_i hres
            subst hr
            refine ⟨.joined remote rfl rfl rfl hremote ?_ ?_ rfl rfl rfl (Nat.le_succ _), rfl⟩
            · unfold PeerState.dialSingleAddress at hres
              split at hres
              · simp at hres
              · exact hres
            · intro q; show stateOf (updAddr s remote a 0) q = _; rw [stateOf_updAddr]
          · rename_i hres
            subst hr
            have hidle : stateOf s remote = .disconnected none := by
              unfold PeerState.dialSingleAddress at hres
              split at hres
              · rename_i hc; exact PeerState.canDial_ok' hc
              · rename_i hne; exact absurd hres (by simpa using hne)
            refine ⟨.started remote rfl rfl rfl hremote ?_ hidle ?_ rfl rfl rfl rfl, rfl⟩
            · rw [hshape, hp]; exact tcpParse_of_shape _ _ _ hip
            · intro q
              show stateOf (setState (updAddr s remote a 0) remote _) q = _
              rw [stateOf_setState]; split
              · rfl
              · rw [stateOf_updAddr]

theorem dialAddress_shape (s : Mgr) (a : Multiaddr) : DialAddrShape s a (dialAddress s a) :=
  (dialAddress_shape' s a _ rfl).1

end Litep2pVerif.Manager
