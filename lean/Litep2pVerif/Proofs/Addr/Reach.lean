import Litep2pVerif.Proofs.Addr.Filter
/-!
Specification vocabulary (`Admissible`, `Reach`) and the invariant proof behind
`Props.C10.remembered_only_if`.
-/
namespace Litep2pVerif.Addr

/-- What the property demands of an address remembered for `peer`: an enabled transport supports
it, it is not a local listen address, it names `peer`, and the transport's own parser accepts it
with that peer. -/
def Admissible (tcp : Bool) (listen : List Multiaddr) (peer : Nat) (a : Multiaddr) : Prop :=
  supportedTransport tcp a = true ∧ isLocalAddress listen a = false ∧ lastP2p a = some peer ∧
  ∃ host port, tcpParse a = .ok ⟨host, port, some peer⟩

/-- Addresses handed to the transport by a `dial`. -/
def handedOf : DialOut → List Multiaddr
  | .started _ (some as) => as
  | _ => []

/-- Histories of the manager in which addresses are learned through `add_known_address` and
re-scored by the results of dials (`H` = every address handed to the transport so far). The TCP
transport reports failures with the dialed address and successes with `ip|dns + tcp` of it.
`shuffle` = the hash map changes its iteration order. The listen set and the enabled transports
are those of the initial state. -/
inductive Reach (m0 : Mgr) : Mgr → List Multiaddr → Prop
  | init : Reach m0 m0 []
  | shuffle {m H} (peer : Nat) (π : List Rec) : Reach m0 m H → π.Perm (m.ctx peer).store.recs →
      Reach m0 (m.modify peer (fun c => { c with store := { c.store with recs := π } })) H
  | addKnown {m H} (peer : Nat) (as order : List Multiaddr) : Reach m0 m H →
      order.Perm (admitted m.tcp m.listen peer as) → Reach m0 (m.addKnownOrdered peer order) H
  | learn {m H} (peer : Nat) (as : List Multiaddr) (a : Multiaddr) : Reach m0 m H →
      a ∈ admitted m.tcp m.listen peer as → Reach m0 (m.rawInsert peer ⟨a, 0⟩) H
  | dial {m H} (peer : Nat) : Reach m0 m H → Reach m0 (m.dial peer).1 (H ++ handedOf (m.dial peer).2)
  | dialFailure {m H} (a : Multiaddr) (addressError : Bool) : Reach m0 m H → a ∈ H →
      Reach m0 (m.updateOnDialFailure a addressError) H
  | established {m H} (a : Multiaddr) (prs : Parsed) (peer : Nat) (listener : Bool) : Reach m0 m H → a ∈ H →
      tcpParse a = .ok prs → prs.peer = some peer →
      Reach m0 (m.updateOnEstablished peer (endpointAddr prs) listener) H
  | opened {m H} (conn : Nat) (a : Multiaddr) (prs : Parsed) : Reach m0 m H → a ∈ H →
      tcpParse a = .ok prs → lookupPending conn m.pending = prs.peer →
      Reach m0 (m.onConnectionOpened conn (endpointAddr prs)).1 H
  | openFailure {m H} (conn : Nat) : Reach m0 m H → Reach m0 (m.onOpenFailure conn).1 H
  | dialFailed {m H} (conn : Nat) : Reach m0 m H → Reach m0 (m.onDialFailure conn).1 H
  | occupy {m H} : Reach m0 m H → Reach m0 m.occupy H

/-- One offered address: what `add_known_address` keeps is the offered address itself, supported,
not local, naming the peer, parsable. (The "append the peer id" branch exists in the code but is
never taken: `supported_transport` already demands a trailing `/p2p`.) -/
theorem admit_sound {tcp : Bool} {listen : List Multiaddr} {peer : Nat} {a a' : Multiaddr}
    (h : admitOne tcp listen peer a = some a') : a' = a ∧ Admissible tcp listen peer a := by
  unfold admitOne at h
  split at h
  · simp at h
  · rename_i hs
    split at h
    · simp at h
    · rename_i hl
      have hs' : supportedTransport tcp a = true := by simpa using hs
      obtain ⟨host, port, q, rfl, _, _⟩ := supported_shape hs'
      simp only [List.getLast?_cons_cons, List.getLast?_singleton] at h
      split at h
      · rename_i heq
        simp only [Option.some.injEq] at h
        subst h; subst heq
        exact ⟨rfl, hs', by simpa using hl, rfl, host, port, tcpParse_shape host port q⟩
      · simp at h

theorem mem_dedup {a : Multiaddr} : ∀ {l : List Multiaddr}, a ∈ dedup l → a ∈ l
  | [], h => by simp [dedup] at h
  | x :: xs, h => by
    unfold dedup at h
    rcases List.mem_cons.1 h with rfl | h
    · exact List.mem_cons_self
    · exact List.mem_cons_of_mem _ (mem_dedup (List.mem_filter.1 h).1)

theorem admitted_sound {tcp : Bool} {listen : List Multiaddr} {peer : Nat} {as : List Multiaddr} {a : Multiaddr}
    (h : a ∈ admitted tcp listen peer as) : a ∈ as ∧ Admissible tcp listen peer a := by
  unfold admitted at h
  obtain ⟨x, hx, hadm⟩ := List.mem_filterMap.1 (mem_dedup h)
  obtain ⟨rfl, hA⟩ := admit_sound hadm
  exact ⟨hx, hA⟩

/-- Invariant of `Reach`. -/
structure RInv (m0 m : Mgr) (H : List Multiaddr) : Prop where
  tcp : m.tcp = m0.tcp
  listen : m.listen = m0.listen
  stores : ∀ p c, (p, c) ∈ m.peers → ∀ r ∈ c.store.recs, Admissible m0.tcp m0.listen p r.addr
  handed : ∀ a ∈ H, ∃ p, Admissible m0.tcp m0.listen p a

theorem insert_adm {sc : Scores} {P : Multiaddr → Prop} {s : Store} {r : Rec}
    (hs : ∀ x ∈ s.recs, P x.addr) (hr : P r.addr) : ∀ x ∈ (insert sc s r).recs, P x.addr := by
  intro x hx
  rcases insert_addr_subset sc s r x hx with h | ⟨y, hy, hya⟩
  · rw [h]; exact hr
  · rw [← hya]; exact hs y hy

theorem extend_adm {sc : Scores} {P : Multiaddr → Prop} : ∀ (rs : List Rec) {s : Store},
    (∀ x ∈ s.recs, P x.addr) → (∀ r ∈ rs, P r.addr) → ∀ x ∈ (extend sc s rs).recs, P x.addr
  | [], s, hs, _ => by simpa [extend] using hs
  | r :: rs, s, hs, hr => by
    have := extend_adm (sc := sc) rs (s := insert sc s r) (insert_adm hs (hr r List.mem_cons_self))
      (fun x hx => hr x (List.mem_cons_of_mem _ hx))
    simpa [extend] using this

theorem rinv_rawInsert {m0 m : Mgr} {H : List Multiaddr} (hi : RInv m0 m H) (p : Nat) (r : Rec)
    (hr : Admissible m0.tcp m0.listen p r.addr) : RInv m0 (m.rawInsert p r) H := by
  refine ⟨hi.tcp, hi.listen, ?_, hi.handed⟩
  unfold Mgr.rawInsert
  apply forall_modify (P := fun p c => ∀ r ∈ c.store.recs, Admissible m0.tcp m0.listen p r.addr) hi.stores
  have hc := ctx_of_forall (P := fun p c => ∀ r ∈ c.store.recs, Admissible m0.tcp m0.listen p r.addr)
    hi.stores (by intro q r hr; simp [Mgr.defaultCtx] at hr) p
  exact insert_adm hc hr

theorem rinv_modify_st {m0 m : Mgr} {H : List Multiaddr} (hi : RInv m0 m H) (p : Nat) (f : Ctx → Ctx)
    (hf : ∀ c, (f c).store = c.store) : RInv m0 (m.modify p f) H := by
  refine ⟨hi.tcp, hi.listen, ?_, hi.handed⟩
  apply forall_modify (P := fun p c => ∀ r ∈ c.store.recs, Admissible m0.tcp m0.listen p r.addr) hi.stores
  rw [hf]
  exact ctx_of_forall (P := fun p c => ∀ r ∈ c.store.recs, Admissible m0.tcp m0.listen p r.addr)
    hi.stores (by intro q r hr; simp [Mgr.defaultCtx] at hr) p

/-- A handed address that parses to `prs` with peer `peer`: the record the success paths insert
(`AddressRecord::new(peer, endpoint address, score)`) is for that very address. -/
theorem endpoint_roundtrip {tcp : Bool} {listen : List Multiaddr} {p : Nat} {a : Multiaddr}
    (hA : Admissible tcp listen p a) {prs : Parsed} {peer : Nat}
    (hp : tcpParse a = .ok prs) (hpeer : prs.peer = some peer) (score : Int) :
    peer = p ∧ Rec.new peer (endpointAddr prs) score = ⟨a, score⟩ := by
  obtain ⟨hs, _, hl, _⟩ := hA
  obtain ⟨host, port, q, rfl, _, _⟩ := supported_shape hs
  rw [tcpParse_shape] at hp
  simp only [Except.ok.injEq] at hp
  subst hp
  simp only [Option.some.injEq] at hpeer
  rw [lastP2p_shape] at hl
  simp only [Option.some.injEq] at hl
  subst hpeer
  refine ⟨hl, ?_⟩
  simp [Rec.new, endpointAddr, lastP2p_endpoint, withP2p]

theorem reach_inv {m0 m : Mgr} {H : List Multiaddr} (h0 : m0.peers = []) (h : Reach m0 m H) : RInv m0 m H := by
  induction h with
  | init => exact ⟨rfl, rfl, by simp [h0], by simp⟩
  | shuffle peer π _ hperm ih =>
    refine ⟨ih.tcp, ih.listen, ?_, ih.handed⟩
    apply forall_modify (P := fun p c => ∀ r ∈ c.store.recs, Admissible m0.tcp m0.listen p r.addr) ih.stores
    intro r hr
    have hc := ctx_of_forall (P := fun p c => ∀ r ∈ c.store.recs, Admissible m0.tcp m0.listen p r.addr)
      ih.stores (by intro q r hr; simp [Mgr.defaultCtx] at hr) peer
    exact hc r (hperm.mem_iff.1 hr)
  | addKnown peer as order _ hperm ih =>
    refine ⟨ih.tcp, ih.listen, ?_, ih.handed⟩
    unfold Mgr.addKnownOrdered
    apply forall_modify (P := fun p c => ∀ r ∈ c.store.recs, Admissible m0.tcp m0.listen p r.addr) ih.stores
    have hc := ctx_of_forall (P := fun p c => ∀ r ∈ c.store.recs, Admissible m0.tcp m0.listen p r.addr)
      ih.stores (by intro q r hr; simp [Mgr.defaultCtx] at hr) peer
    apply extend_adm _ hc
    intro r hr
    obtain ⟨a, ha, hfa⟩ := List.mem_filterMap.1 hr
    have hadm := (admitted_sound (hperm.mem_iff.1 ha)).2
    rw [ih.tcp, ih.listen] at hadm
    unfold Rec.fromMultiaddr at hfa
    split at hfa
    · simp only [Option.some.injEq] at hfa
      subst hfa
      exact hadm
    · simp at hfa
  | learn peer as a _ hmem ih =>
    have hadm := (admitted_sound hmem).2
    rw [ih.tcp, ih.listen] at hadm
    exact rinv_rawInsert ih peer ⟨a, 0⟩ hadm
  | @dial m H peer _ ih =>
    have hc := ctx_of_forall (P := fun p c => ∀ r ∈ c.store.recs, Admissible m0.tcp m0.listen p r.addr)
      ih.stores (by intro q r hr; simp [Mgr.defaultCtx] at hr) peer
    unfold Mgr.dial
    split
    · simpa [handedOf] using ih
    · split
      · simpa [handedOf] using ih
      · split
        · simpa [handedOf] using rinv_modify_st ih peer id (fun _ => rfl)
        · simpa [handedOf] using rinv_modify_st ih peer id (fun _ => rfl)
        · split
          · simpa [handedOf] using rinv_modify_st ih peer id (fun _ => rfl)
          · rename_i limit _ _ _
            have h1 := rinv_modify_st ih peer (fun c => { c with st := .opening m.nextConn }) (fun _ => rfl)
            refine ⟨h1.tcp, h1.listen, h1.stores, ?_⟩
            intro a ha
            rcases List.mem_append.1 ha with ha | ha
            · exact ih.handed a ha
            · by_cases ht : m.tcp = true
              · simp only [handedOf, ht, if_true] at ha
                obtain ⟨r, hr, rfl⟩ := addresses_subset _ _ a ha
                exact ⟨peer, hc r hr⟩
              · simp [handedOf, ht] at ha
  | dialFailure a ae _ hmem ih =>
    obtain ⟨p, hA⟩ := ih.handed a hmem
    unfold Mgr.updateOnDialFailure
    rw [hA.2.2.1]
    apply rinv_rawInsert ih
    simpa [Rec.new, hA.2.2.1] using hA
  | @established m H a prs peer listener _ hmem hp hpeer ih =>
    obtain ⟨p, hA⟩ := ih.handed a hmem
    unfold Mgr.updateOnEstablished
    split
    · exact ih
    · obtain ⟨rfl, hrec⟩ := endpoint_roundtrip hA hp hpeer m.sc.established
      apply rinv_rawInsert ih
      rw [hrec]; exact hA
  | @opened m H conn a prs _ hmem hp hpend ih =>
    obtain ⟨p, hA⟩ := ih.handed a hmem
    unfold Mgr.onConnectionOpened
    split
    · exact ih
    · rename_i peer hlk
      have hpeer : prs.peer = some peer := by rw [← hpend, hlk]
      obtain ⟨rfl, hrec⟩ := endpoint_roundtrip hA hp hpeer m.sc.established
      have key : ∀ (f : Ctx → Ctx), (∀ x, (f x).store = insert m.sc x.store (Rec.new peer (endpointAddr prs) m.sc.established)) →
          RInv m0 (m.modify peer f) H := by
        intro f hf
        refine ⟨ih.tcp, ih.listen, ?_, ih.handed⟩
        apply forall_modify (P := fun p c => ∀ r ∈ c.store.recs, Admissible m0.tcp m0.listen p r.addr) ih.stores
        have hc := ctx_of_forall (P := fun p c => ∀ r ∈ c.store.recs, Admissible m0.tcp m0.listen p r.addr)
          ih.stores (by intro q r hr; simp [Mgr.defaultCtx] at hr) peer
        rw [hf, hrec]
        exact insert_adm hc hA
      split
      · split
        · have := key (fun x => { st := .dialing conn, store := insert m.sc x.store (Rec.new peer (endpointAddr prs) m.sc.established) }) (fun _ => rfl)
          exact ⟨this.tcp, this.listen, this.stores, this.handed⟩
        · have := key (fun x => { st := .dialing conn, store := insert m.sc x.store (Rec.new peer (endpointAddr prs) m.sc.established) }) (fun _ => rfl)
          exact ⟨this.tcp, this.listen, this.stores, this.handed⟩
      · have := key (fun x => { x with store := insert m.sc x.store (Rec.new peer (endpointAddr prs) m.sc.established) }) (fun _ => rfl)
        exact ⟨this.tcp, this.listen, this.stores, this.handed⟩
  | @openFailure m H conn _ ih =>
    unfold Mgr.onOpenFailure
    split
    · exact ih
    · rename_i peer _
      split
      · have := rinv_modify_st ih peer (fun x => { x with st := .disconnected }) (fun _ => rfl)
        exact ⟨this.tcp, this.listen, this.stores, this.handed⟩
      · exact rinv_modify_st ih peer id (fun _ => rfl)
  | @dialFailed m H conn _ ih =>
    unfold Mgr.onDialFailure
    split
    · exact ih
    · rename_i peer _
      have := rinv_modify_st ih peer (fun x =>
          match x.st with
          | .dialing c => if c = conn then { x with st := .disconnected } else x
          | _ => x) (by
            intro c
            split
            · split <;> rfl
            · rfl)
      exact ⟨this.tcp, this.listen, this.stores, this.handed⟩
  | occupy _ ih =>
    unfold Mgr.occupy
    split
    · exact ⟨ih.tcp, ih.listen, ih.stores, ih.handed⟩
    · exact ih

end Litep2pVerif.Addr
