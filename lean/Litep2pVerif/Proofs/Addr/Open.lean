import Litep2pVerif.Model.Addr.Open
/-! Lemmas about `TcpTransport::open`'s attempt order (`Model/Addr/Open.lean`). -/
namespace Litep2pVerif.Addr.Open

variable {α : Type}

/-- The attempts started so far followed by the addresses not yet pulled are the list given to `open`. -/
def Inv (addrs : List α) (s : St α) : Prop := s.started ++ s.pending = addrs

/-- With one dial slot: what has finished followed by what is in flight is what has been started. -/
def Seq (s : St α) : Prop := s.finished ++ s.inflight = s.started ∧ s.inflight.length ≤ 1

theorem fillGo_inv (n : Nat) (addrs p : List α) (s : St α) (h : s.started ++ p = addrs) :
    Inv addrs (fillGo n p s) := by
  induction p generalizing s with
  | nil => simpa [fillGo, Inv] using h
  | cons a rest ih =>
    unfold fillGo
    split
    · apply ih
      simpa using h
    · simpa [Inv] using h

theorem fill_inv (n : Nat) (addrs : List α) (s : St α) (h : Inv addrs s) : Inv addrs (fill n s) :=
  fillGo_inv n addrs s.pending s h

theorem complete_inv (k : Nat) (addrs : List α) (s : St α) (h : Inv addrs s) : Inv addrs (complete k s) := by
  unfold complete
  split <;> exact h

theorem run_inv (n : Nat) (sched : List Nat) (addrs : List α) : Inv addrs (run n sched addrs) := by
  unfold run
  have h0 : Inv addrs (fill n ({ pending := addrs } : St α)) := fill_inv _ _ _ (by simp [Inv])
  generalize fill n ({ pending := addrs } : St α) = s0 at h0
  induction sched generalizing s0 with
  | nil => exact h0
  | cons k ks ih => exact ih _ (fill_inv _ _ _ (complete_inv _ _ _ h0))

theorem fillGo_seq (p : List α) (s : St α) (h : Seq s) : Seq (fillGo 1 p s) := by
  induction p generalizing s with
  | nil => exact h
  | cons a rest ih =>
    unfold fillGo
    split
    · rename_i hlt
      apply ih
      obtain ⟨h1, _⟩ := h
      have h0 : s.inflight = [] := by
        cases hi : s.inflight with
        | nil => rfl
        | cons x xs => simp [hi] at hlt
      constructor
      · simp [h0] at h1 ⊢
        exact h1
      · simp [h0]
    · exact h

theorem fill_seq (s : St α) (h : Seq s) : Seq (fill 1 s) := fillGo_seq s.pending s h

theorem complete_seq (k : Nat) (s : St α) (h : Seq s) : Seq (complete k s) := by
  unfold complete
  obtain ⟨h1, h2⟩ := h
  split
  · rename_i a ha
    cases hi : s.inflight with
    | nil => simp [hi] at ha
    | cons x xs =>
      have hx : xs = [] := by
        cases xs with
        | nil => rfl
        | cons y ys => simp [hi] at h2
      subst hx
      have hk : k % 1 = 0 := Nat.mod_one k
      simp only [hi, List.length_singleton, hk, List.getElem?_cons_zero, Option.some.injEq] at ha
      subst ha
      constructor
      · simp [hi, hk] at h1 ⊢
        exact h1
      · simp [hi, hk]
  · exact ⟨h1, h2⟩

theorem run_seq (sched : List Nat) (addrs : List α) : Seq (run 1 sched addrs) := by
  unfold run
  have h0 : Seq (fill 1 ({ pending := addrs } : St α)) := fill_seq _ (by simp [Seq])
  generalize fill 1 ({ pending := addrs } : St α) = s0 at h0
  induction sched generalizing s0 with
  | nil => exact h0
  | cons k ks ih => exact ih _ (fill_seq _ (complete_seq _ _ h0))

end Litep2pVerif.Addr.Open
