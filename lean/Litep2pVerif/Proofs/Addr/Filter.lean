import Litep2pVerif.Proofs.Addr.Store
/-!
Helper lemmas about the address filter, the TCP parser and the manager bookkeeping (C10).
-/
namespace Litep2pVerif.Addr

/-- The only shape `supported_transport` accepts in a TCP-only build. -/
theorem supported_shape {tcp : Bool} {a : Multiaddr} (h : supportedTransport tcp a = true) :
    ∃ host port q, a = [Host.comp host, .tcp port, .p2p q] ∧ tcp = true ∧
      (∀ ip, host = .ip4 ip ∨ host = .ip6 ip → ip.unspecified = false) := by
  unfold supportedTransport at h
  split at h
  · simp at h
  · rename_i ip rest
    split at h
    · simp at h
    · rename_i hu
      split at h
      · rename_i p q
        exact ⟨.ip4 ip, p, q, rfl, h, by intro ip' h'; rcases h' with h' | h' <;> simp_all⟩
      · simp at h
  · rename_i ip rest
    split at h
    · simp at h
    · rename_i hu
      split at h
      · rename_i p q
        exact ⟨.ip6 ip, p, q, rfl, h, by intro ip' h'; rcases h' with h' | h' <;> simp_all⟩
      · simp at h
  · rename_i hh rest
    split at h
    · rename_i p q
      exact ⟨.dns hh, p, q, rfl, h, by intro ip' h'; rcases h' with h' | h' <;> simp at h'⟩
    · simp at h
  · rename_i hh rest
    split at h
    · rename_i p q
      exact ⟨.dns4 hh, p, q, rfl, h, by intro ip' h'; rcases h' with h' | h' <;> simp at h'⟩
    · simp at h
  · rename_i hh rest
    split at h
    · rename_i p q
      exact ⟨.dns6 hh, p, q, rfl, h, by intro ip' h'; rcases h' with h' | h' <;> simp at h'⟩
    · simp at h
  · simp at h

theorem tcpParse_shape (host : Host) (port q : Nat) :
    tcpParse [host.comp, .tcp port, .p2p q] = .ok ⟨host, port, some q⟩ := by
  cases host <;> rfl

theorem lastP2p_shape (c1 c2 : Comp) (q : Nat) : lastP2p [c1, c2, .p2p q] = some q := rfl

theorem lastP2p_endpoint (host : Host) (port : Nat) : lastP2p [host.comp, .tcp port] = none := rfl

/-! ### peers map -/

theorem mem_setCtx {p q : Nat} {c c' : Ctx} : ∀ {l : List (Nat × Ctx)},
    (q, c') ∈ setCtx p c l → (q = p ∧ c' = c) ∨ (q, c') ∈ l
  | [], h => by
    simp [setCtx] at h
    exact Or.inl h
  | (p0, c0) :: rest, h => by
    unfold setCtx at h
    split at h
    · rename_i heq
      rcases List.mem_cons.1 h with h | h
      · simp only [Prod.mk.injEq] at h
        exact Or.inl ⟨h.1.trans heq, h.2⟩
      · exact Or.inr (List.mem_cons_of_mem _ h)
    · rcases List.mem_cons.1 h with h | h
      · exact Or.inr (h ▸ List.mem_cons_self)
      · rcases mem_setCtx h with h | h
        · exact Or.inl h
        · exact Or.inr (List.mem_cons_of_mem _ h)

theorem lookupCtx_mem {p : Nat} {c : Ctx} : ∀ {l : List (Nat × Ctx)}, lookupCtx p l = some c → (p, c) ∈ l
  | [], h => by simp [lookupCtx] at h
  | (p0, c0) :: rest, h => by
    unfold lookupCtx at h
    split at h
    · rename_i heq
      simp only [Option.some.injEq] at h
      subst h; subst heq
      exact List.mem_cons_self
    · exact List.mem_cons_of_mem _ (lookupCtx_mem h)

/-- A predicate on (peer, context) pairs that holds for all stored contexts and for the default
context holds for `m.ctx p`. -/
theorem ctx_of_forall {m : Mgr} {P : Nat → Ctx → Prop} (h : ∀ q c, (q, c) ∈ m.peers → P q c)
    (hd : ∀ q, P q m.defaultCtx) (p : Nat) : P p (m.ctx p) := by
  unfold Mgr.ctx
  cases hl : lookupCtx p m.peers with
  | none => exact hd p
  | some c => exact h p c (lookupCtx_mem hl)

theorem forall_modify {m : Mgr} {P : Nat → Ctx → Prop} (h : ∀ q c, (q, c) ∈ m.peers → P q c)
    (p : Nat) (f : Ctx → Ctx) (hf : P p (f (m.ctx p))) :
    ∀ q c, (q, c) ∈ (m.modify p f).peers → P q c := by
  intro q c hm
  unfold Mgr.modify at hm
  rcases mem_setCtx hm with ⟨rfl, rfl⟩ | hm
  · exact hf
  · exact h q c hm

/-- `addresses(limit)` only returns stored addresses. -/
theorem addresses_subset (s : Store) (limit : Option Nat) :
    ∀ a ∈ addresses s limit, ∃ r ∈ s.recs, r.addr = a := by
  intro a ha
  unfold addresses at ha
  obtain ⟨r, hr, rfl⟩ := List.mem_map.1 ha
  refine ⟨r, ?_, rfl⟩
  unfold selectRecs at hr
  split at hr
  · exact (sortDesc_perm _).mem_iff.1 hr
  · exact (sortDesc_perm _).mem_iff.1 (List.mem_of_mem_take hr)

end Litep2pVerif.Addr
