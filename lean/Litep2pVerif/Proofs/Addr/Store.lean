import Litep2pVerif.Model.Addr.Manager
/-!
Helper lemmas about `AddressStore` (model `Model/Addr/Store.lean`) for property C10.
-/
namespace Litep2pVerif.Addr

theorem hasAddr_iff {rs : List Rec} {a : Multiaddr} : hasAddr rs a = true ↔ ∃ r ∈ rs, r.addr = a := by
  simp [hasAddr]

theorem minRec_spec : ∀ {rs : List Rec} {m : Rec}, minRec rs = some m → m ∈ rs ∧ ∀ x ∈ rs, m.score ≤ x.score
  | [], m, h => by simp [minRec] at h
  | r :: rest, m, h => by
    unfold minRec at h
    split at h
    · rename_i hn
      simp only [Option.some.injEq] at h
      subst h
      have : rest = [] := by
        cases rest with
        | nil => rfl
        | cons y ys =>
          unfold minRec at hn
          split at hn <;> (try split at hn) <;> simp at hn
      subst this
      simp
    · rename_i m' hm'
      have ih := minRec_spec hm'
      split at h
      · simp only [Option.some.injEq] at h
        subst h
        refine ⟨List.mem_cons_of_mem _ ih.1, ?_⟩
        intro x hx
        rcases List.mem_cons.1 hx with rfl | hx
        · omega
        · exact ih.2 x hx
      · simp only [Option.some.injEq] at h
        subst h
        refine ⟨List.mem_cons_self, ?_⟩
        intro x hx
        rcases List.mem_cons.1 hx with rfl | hx
        · omega
        · have := ih.2 x hx
          omega

theorem minRec_none {rs : List Rec} (h : minRec rs = none) : rs = [] := by
  cases rs with
  | nil => rfl
  | cons y ys =>
    unfold minRec at h
    split at h <;> (try split at h) <;> simp at h

theorem removeAddr_length_lt {rs : List Rec} {m : Rec} (hm : m ∈ rs) :
    (removeAddr rs m.addr).length < rs.length := by
  unfold removeAddr
  apply List.length_filter_lt_length_iff_exists.2
  exact ⟨m, hm, by simp⟩

theorem mem_removeAddr {rs : List Rec} {a : Multiaddr} {x : Rec} :
    x ∈ removeAddr rs a ↔ x ∈ rs ∧ x.addr ≠ a := by
  simp [removeAddr]

theorem mem_setScore {rs : List Rec} {a : Multiaddr} {v : Int} {x : Rec} (hx : x ∈ setScore rs a v) :
    ∃ y ∈ rs, y.addr = x.addr ∧ (if y.addr = a then x.score = v else x = y) := by
  unfold setScore at hx
  obtain ⟨y, hy, rfl⟩ := List.mem_map.1 hx
  refine ⟨y, hy, ?_⟩
  by_cases h : y.addr = a <;> simp [h]

theorem setScore_map_addr (rs : List Rec) (a : Multiaddr) (v : Int) :
    (setScore rs a v).map (·.addr) = rs.map (·.addr) := by
  unfold setScore
  rw [List.map_map]
  apply List.map_congr_left
  intro r _
  by_cases h : r.addr = a <;> simp [h]

theorem insert_cap (sc : Scores) (s : Store) (r : Rec) : (insert sc s r).cap = s.cap := by
  unfold insert
  split
  · split <;> rfl
  · split
    · split
      · rfl
      · split <;> rfl
    · rfl

/-- Every address stored after `insert` was stored before or is the inserted one. -/
theorem insert_addr_subset (sc : Scores) (s : Store) (r : Rec) :
    ∀ x ∈ (insert sc s r).recs, x.addr = r.addr ∨ ∃ y ∈ s.recs, y.addr = x.addr := by
  intro x hx
  unfold insert at hx
  split at hx
  · split at hx
    · obtain ⟨y, hy, hya, _⟩ := mem_setScore hx
      exact Or.inr ⟨y, hy, hya⟩
    · exact Or.inr ⟨x, hx, rfl⟩
  · split at hx
    · split at hx
      · exact Or.inr ⟨x, hx, rfl⟩
      · split at hx
        · exact Or.inr ⟨x, hx, rfl⟩
        · rcases List.mem_append.1 hx with h | h
          · exact Or.inr ⟨x, (mem_removeAddr.1 h).1, rfl⟩
          · simp only [List.mem_singleton] at h
            subst h
            left
            unfold withBonus
            split <;> rfl
    · rcases List.mem_append.1 hx with h | h
      · exact Or.inr ⟨x, h, rfl⟩
      · simp only [List.mem_singleton] at h
        subst h
        left
        unfold withBonus
        split <;> rfl

theorem insert_length_le (sc : Scores) (s : Store) (r : Rec) (h : s.recs.length ≤ s.cap) :
    (insert sc s r).recs.length ≤ s.cap := by
  unfold insert
  split
  · split
    · simp [setScore]; exact h
    · exact h
  · split
    · split
      · exact h
      · rename_i m hm
        split
        · exact h
        · have := removeAddr_length_lt (minRec_spec hm).1
          simp only [List.length_append, List.length_singleton]
          omega
    · simp only [List.length_append, List.length_singleton]
      omega

theorem withBonus_addr (sc : Scores) (r : Rec) : (withBonus sc r).addr = r.addr := by
  unfold withBonus; split <;> rfl

/-- Unique addresses are preserved by `insert`. -/
theorem insert_nodup (sc : Scores) (s : Store) (r : Rec) (h : (s.recs.map (·.addr)).Nodup) :
    ((insert sc s r).recs.map (·.addr)).Nodup := by
  unfold insert
  split
  · split
    · rw [setScore_map_addr]; exact h
    · exact h
  · rename_i hno
    have hnew : ∀ x ∈ s.recs, x.addr ≠ r.addr := by
      intro x hx heq
      exact hno (hasAddr_iff.2 ⟨x, hx, heq⟩)
    split
    · split
      · exact h
      · split
        · exact h
        · simp only [List.map_append, List.map_cons, List.map_nil, withBonus_addr]
          rw [List.nodup_append]
          refine ⟨?_, by simp, ?_⟩
          · exact List.Nodup.sublist (List.Sublist.map _ List.filter_sublist) h
          · intro a ha b hb
            simp only [List.mem_singleton] at hb
            subst hb
            obtain ⟨x, hx, rfl⟩ := List.mem_map.1 ha
            exact hnew x (mem_removeAddr.1 hx).1
    · simp only [List.map_append, List.map_cons, List.map_nil, withBonus_addr]
      rw [List.nodup_append]
      refine ⟨h, by simp, ?_⟩
      intro a ha b hb
      simp only [List.mem_singleton] at hb
      subst hb
      obtain ⟨x, hx, rfl⟩ := List.mem_map.1 ha
      exact hnew x hx

theorem eq_of_nodup_map_addr : ∀ {rs : List Rec}, (rs.map (·.addr)).Nodup →
    ∀ x ∈ rs, ∀ y ∈ rs, x.addr = y.addr → x = y
  | [], _, x, hx, _, _, _ => by simp at hx
  | r :: rest, h, x, hx, y, hy, he => by
    simp only [List.map_cons, List.nodup_cons, List.mem_map, not_exists, not_and] at h
    rcases List.mem_cons.1 hx with hx1 | hx2
    · rcases List.mem_cons.1 hy with hy1 | hy2
      · rw [hx1, hy1]
      · rw [hx1] at he
        exact absurd he.symm (h.1 y hy2)
    · rcases List.mem_cons.1 hy with hy1 | hy2
      · rw [hy1] at he
        exact absurd he (h.1 x hx2)
      · exact eq_of_nodup_map_addr h.2 x hx2 y hy2 he

theorem removeAddr_length : ∀ {rs : List Rec}, (rs.map (·.addr)).Nodup → ∀ {m : Rec}, m ∈ rs →
    (removeAddr rs m.addr).length + 1 = rs.length
  | [], _, m, hm => by simp at hm
  | r :: rest, h, m, hm => by
    simp only [List.map_cons, List.nodup_cons, List.mem_map, not_exists, not_and] at h
    rcases List.mem_cons.1 hm with rfl | hm
    · have : removeAddr (m :: rest) m.addr = rest := by
        unfold removeAddr
        rw [List.filter_cons]
        simp only [bne_self_eq_false, Bool.false_eq_true, if_false]
        apply List.filter_eq_self.2
        intro x hx
        have := h.1 x hx
        simpa using this
      rw [this]; rfl
    · have hne : r.addr ≠ m.addr := fun he => h.1 m hm he.symm
      have : removeAddr (r :: rest) m.addr = r :: removeAddr rest m.addr := by
        unfold removeAddr
        rw [List.filter_cons]
        simp [hne]
      rw [this]
      simp only [List.length_cons]
      have := removeAddr_length h.2 hm
      omega

theorem insertPanics_false (s : Store) (r : Rec) (hcap : 1 ≤ s.cap) : insertPanics s r = false := by
  unfold insertPanics
  by_cases h1 : hasAddr s.recs r.addr = true
  · simp [h1]
  · by_cases h2 : s.cap ≤ s.recs.length
    · have : s.recs ≠ [] := by intro h; rw [h] at h2; simp at h2; omega
      simp [this]
    · simp [h2]

/-! ### `sortDesc` -/

theorem insertDesc_perm (r : Rec) : ∀ l : List Rec, (insertDesc r l).Perm (r :: l)
  | [] => List.Perm.refl _
  | x :: xs => by
    unfold insertDesc
    split
    · exact ((insertDesc_perm r xs).cons x).trans (List.Perm.swap r x xs)
    · exact List.Perm.refl _

theorem sortDesc_perm : ∀ l : List Rec, (sortDesc l).Perm l
  | [] => List.Perm.refl _
  | r :: rest => by
    unfold sortDesc
    exact (insertDesc_perm r _).trans ((sortDesc_perm rest).cons r)

theorem insertDesc_sorted (r : Rec) : ∀ l : List Rec, l.Pairwise (fun a b => b.score ≤ a.score) →
    (insertDesc r l).Pairwise (fun a b => b.score ≤ a.score)
  | [], _ => by simp [insertDesc]
  | x :: xs, h => by
    unfold insertDesc
    split
    · rename_i hlt
      rw [List.pairwise_cons] at h ⊢
      refine ⟨?_, insertDesc_sorted r xs h.2⟩
      intro y hy
      rcases List.mem_cons.1 ((insertDesc_perm r xs).mem_iff.1 hy) with rfl | hy
      · omega
      · exact h.1 y hy
    · rename_i hge
      rw [List.pairwise_cons]
      refine ⟨?_, h⟩
      intro y hy
      rcases List.mem_cons.1 hy with rfl | hy
      · omega
      · have := (List.pairwise_cons.1 h).1 y hy
        omega

theorem sortDesc_sorted : ∀ l : List Rec, (sortDesc l).Pairwise (fun a b => b.score ≤ a.score)
  | [] => by simp [sortDesc]
  | r :: rest => by
    unfold sortDesc
    exact insertDesc_sorted r _ (sortDesc_sorted rest)

end Litep2pVerif.Addr
