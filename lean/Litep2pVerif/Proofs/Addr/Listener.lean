import Litep2pVerif.Model.Addr.Listener
/-!
Helper lemmas about the listener model (`Model/Addr/Listener.lean`) for `Props/C10.lean`.
-/
namespace Litep2pVerif.Addr

theorem tcpParse_socketToMultiaddr (s : SockAddr) :
    tcpParse (socketToMultiaddr s) = .ok ⟨s.ip.host, s.port, none⟩ := by
  cases s with
  | mk ip port => cases ip <;> rfl

theorem bindTarget_socketToMultiaddr (s : SockAddr) : bindTarget (socketToMultiaddr s) = some s := by
  cases s with
  | mk ip port => cases ip <;> rfl

/-- What `bindTarget` accepts: ip4/ip6, tcp, then nothing or a `/p2p`. -/
theorem bindTarget_shape {a : Multiaddr} {t : SockAddr} (h : bindTarget a = some t) :
    ∃ rest, a = t.ip.comp :: .tcp t.port :: rest := by
  unfold bindTarget at h
  split at h
  · rename_i i p _ hp
    cases h
    unfold tcpParse at hp
    split at hp <;> first
      | (rename_i i' p' rest; unfold parsePeer at hp; split at hp <;> simp at hp;
         all_goals (first | (obtain ⟨h1, h2, _⟩ := hp; cases h1; cases h2; exact ⟨_, rfl⟩) | skip))
      | simp at hp
  · rename_i i p _ hp
    cases h
    unfold tcpParse at hp
    split at hp <;> first
      | (rename_i i' p' rest; unfold parsePeer at hp; split at hp <;> simp at hp;
         all_goals (first | (obtain ⟨h1, h2, _⟩ := hp; cases h1; cases h2; exact ⟨_, rfl⟩) | skip))
      | simp at hp
  · cases h

theorem bindTarget_dns (h : Nat) (rest : Multiaddr) :
    bindTarget (.dns h :: rest) = none ∧ bindTarget (.dns4 h :: rest) = none ∧
      bindTarget (.dns6 h :: rest) = none := by
  refine ⟨?_, ?_, ?_⟩ <;>
  · unfold bindTarget tcpParse
    cases rest with
    | nil => rfl
    | cons c rest' =>
      cases c <;> try rfl
      all_goals (unfold parsePeer; cases rest' with
        | nil => rfl
        | cons d _ => cases d <;> rfl)

/-- Well-formedness of one listener record with respect to the interface list. -/
def Bound.Wf (ifaces : Option (List IpAddr)) (b : Bound) : Prop :=
  ∀ s ∈ b.reported, s.port = b.sock.port ∧
    ((b.sock.ip.isUnspecified = false ∧ s.ip = b.sock.ip) ∨
      (b.sock.ip.isUnspecified = true ∧ s.ip.isV4 = b.sock.ip.isV4 ∧ ∃ l, ifaces = some l ∧ s.ip ∈ l))

theorem expandOne_spec {t4 : Bool} {p : Nat} {i : IpAddr} {s : SockAddr} (h : expandOne t4 p i = some s) :
    s.port = p ∧ s.ip = i ∧ i.isV4 = t4 := by
  cases i with
  | v4 a =>
    cases t4 <;> simp [expandOne] at h
    subst h; exact ⟨rfl, rfl, rfl⟩
  | v6 a =>
    cases t4 <;> simp [expandOne] at h
    obtain ⟨_, h⟩ := h
    subst h; exact ⟨rfl, rfl, rfl⟩

theorem bindAll_spec (ifaces : Option (List IpAddr)) (addrs : List Multiaddr) :
    ∀ (os : List (Option Nat)) (b : Bound), b ∈ bindAll ifaces os addrs →
      b.Wf ifaces ∧ ∃ a ∈ addrs, ∃ t, bindTarget a = some t ∧ b.sock.ip = t.ip ∧
        (t.port ≠ 0 → True) := by
  induction addrs with
  | nil => intro os b h; simp [bindAll] at h
  | cons a rest ih =>
    intro os b h
    have lift : ∀ os', b ∈ bindAll ifaces os' rest →
        b.Wf ifaces ∧ ∃ a' ∈ a :: rest, ∃ t, bindTarget a' = some t ∧ b.sock.ip = t.ip ∧ (t.port ≠ 0 → True) := by
      intro os' h'
      obtain ⟨w, a', ha', t, ht⟩ := ih os' b h'
      exact ⟨w, a', List.mem_cons_of_mem _ ha', t, ht⟩
    unfold bindAll at h
    split at h
    · exact lift _ h
    · rename_i t ht
      split at h
      · exact lift _ h
      · exact lift _ h
      · rename_i p os'
        split at h
        · rename_i hun
          split at h
          · exact lift _ h
          · rename_i l
            rcases List.mem_cons.mp h with hb | hb
            · subst hb
              refine ⟨?_, a, List.mem_cons_self, t, ht, rfl, fun _ => trivial⟩
              intro s hs
              obtain ⟨i, hi, hsi⟩ := List.mem_filterMap.mp hs
              obtain ⟨h1, h2, h3⟩ := expandOne_spec hsi
              exact ⟨h1, Or.inr ⟨hun, by rw [h2]; exact h3, l, rfl, by rw [h2]; exact hi⟩⟩
            · exact lift _ hb
        · rcases List.mem_cons.mp h with hb | hb
          · subst hb
            refine ⟨?_, a, List.mem_cons_self, t, ht, rfl, fun _ => trivial⟩
            intro s hs
            simp at hs
            subst hs
            rename_i hun
            exact ⟨rfl, Or.inl ⟨by simpa using hun, rfl⟩⟩
          · exact lift _ hb

theorem bindAll_length (ifaces : Option (List IpAddr)) (addrs : List Multiaddr) :
    ∀ os : List (Option Nat), (bindAll ifaces os addrs).length ≤ addrs.length := by
  induction addrs with
  | nil => intro os; simp [bindAll]
  | cons a rest ih =>
    intro os
    unfold bindAll
    split
    · exact Nat.le_succ_of_le (ih _)
    · split
      · exact Nat.le_succ_of_le (ih _)
      · exact Nat.le_succ_of_le (ih _)
      · split
        · split
          · exact Nat.le_succ_of_le (ih _)
          · simp; exact ih _
        · simp; exact ih _

theorem mem_reportedAddrs {bs : List Bound} {m : Multiaddr} (h : m ∈ reportedAddrs bs) :
    ∃ b ∈ bs, ∃ s ∈ b.reported, m = socketToMultiaddr s := by
  unfold reportedAddrs reportedSockets at h
  obtain ⟨s, hs, rfl⟩ := List.mem_map.mp h
  obtain ⟨b, hb, hsb⟩ := List.mem_flatMap.mp hs
  exact ⟨b, hb, s, hsb, rfl⟩

/-- A reported address followed by `/p2p/q` has exactly the shape `supported_transport` wants. -/
theorem supported_reported (s : SockAddr) (q : Nat) (h : s.ip.isUnspecified = false) :
    supportedTransport true (withP2p (socketToMultiaddr s) q) = true := by
  cases s with
  | mk ip port =>
    cases ip with
    | v4 a =>
      simp [IpAddr.isUnspecified] at h
      simp [socketToMultiaddr, withP2p, IpAddr.comp, supportedTransport, h]
    | v6 a =>
      simp [IpAddr.isUnspecified] at h
      simp [socketToMultiaddr, withP2p, IpAddr.comp, supportedTransport, h]

theorem takeWhile_reported (s : SockAddr) (q : Nat) :
    (withP2p (socketToMultiaddr s) q).takeWhile (fun c => !c.isP2p) = socketToMultiaddr s := by
  cases s with
  | mk ip port => cases ip <;> simp [socketToMultiaddr, withP2p, IpAddr.comp, Comp.isP2p, List.takeWhile]

theorem localDial_spec {d : Dial} {remote : IpAddr} {r : Option SockAddr} (h : localDial d remote = .ok r) :
    match d, r with
    | .noReuse, r => r = none
    | .reuse _, none => False
    | .reuse l, some s =>
      s.ip.isUnspecified = true ∧ s.ip.isV4 = remote.isV4 ∧
        ∃ a ∈ l, a.port = s.port ∧ a.ip.isV4 = remote.isV4 ∧ a.ip.isLoopback = remote.isLoopback := by
  cases d with
  | noReuse => simp [localDial] at h; simpa using h.symm
  | reuse l =>
    unfold localDial at h
    simp only [] at h
    split at h
    · rename_i a ha
      cases h
      have hm := List.mem_of_find?_eq_some ha
      have hp := List.find?_some ha
      simp [dialCandidate] at hp
      refine ⟨?_, ?_, a, hm, rfl, hp.1.symm, hp.2.symm⟩
      · cases hr : remote.isV4 <;> simp [IpAddr.isUnspecified, unspecified4, unspecified6]
      · cases hr : remote.isV4 <;> simp [IpAddr.isV4]
    · cases h

theorem localDial_error {l : List SockAddr} {remote : IpAddr} :
    localDial (.reuse l) remote = .error () ↔ ∀ a ∈ l, dialCandidate remote a = false := by
  unfold localDial
  simp only []
  split
  · rename_i a ha
    constructor
    · intro h; cases h
    · intro h
      have := h a (List.mem_of_find?_eq_some ha)
      have hp := List.find?_some ha
      simp [this] at hp
  · rename_i hn
    constructor
    · intro _ a ha
      have := List.find?_eq_none.mp hn a ha
      simpa using this
    · intro _; rfl

/-- What an `Ok` of `lookup_ip` guarantees, per kind of host. -/
def LookupOk (h : Host) (answer : Option (List IpAddr)) (s : SockAddr) : Prop :=
  match h with
  | .ip4 i => s.ip = .v4 i
  | .ip6 i => s.ip = .v6 i
  | .dns _ => ∃ l, answer = some l ∧ s.ip ∈ l
  | .dns4 _ => ∃ l, answer = some l ∧ s.ip ∈ l ∧ s.ip.isV4 = true
  | .dns6 _ => ∃ l, answer = some l ∧ s.ip ∈ l ∧ s.ip.isV4 = false

theorem lookupIp_ok {h : Host} {port : Nat} {answer : Option (List IpAddr)} {s : SockAddr}
    (hl : lookupIp h port answer = .ok s) : s.port = port ∧ LookupOk h answer s := by
  cases h with
  | ip4 i => simp [lookupIp] at hl; subst hl; exact ⟨rfl, rfl⟩
  | ip6 i => simp [lookupIp] at hl; subst hl; exact ⟨rfl, rfl⟩
  | dns n =>
    cases answer with
    | none => simp [lookupIp] at hl
    | some l =>
      simp only [lookupIp] at hl
      split at hl
      · rename_i ip hf; cases hl
        exact ⟨rfl, l, rfl, List.mem_of_find?_eq_some hf⟩
      · cases hl
  | dns4 n =>
    cases answer with
    | none => simp [lookupIp] at hl
    | some l =>
      simp only [lookupIp] at hl
      split at hl
      · rename_i ip hf; cases hl
        have hp := List.find?_some hf
        exact ⟨rfl, l, rfl, List.mem_of_find?_eq_some hf, by simpa [dnsWants] using hp⟩
      · cases hl
  | dns6 n =>
    cases answer with
    | none => simp [lookupIp] at hl
    | some l =>
      simp only [lookupIp] at hl
      split at hl
      · rename_i ip hf; cases hl
        have hp := List.find?_some hf
        exact ⟨rfl, l, rfl, List.mem_of_find?_eq_some hf, by simpa [dnsWants] using hp⟩
      · cases hl

theorem lookupIp_mismatch {h : Host} {port : Nat} {answer : Option (List IpAddr)}
    (hl : lookupIp h port answer = .error .mismatch) :
    ∃ l, answer = some l ∧ ∀ ip ∈ l, dnsWants h ip = false := by
  cases h with
  | ip4 i => simp [lookupIp] at hl
  | ip6 i => simp [lookupIp] at hl
  | dns n | dns4 n | dns6 n =>
    cases answer with
    | none => simp [lookupIp] at hl
    | some l =>
      simp only [lookupIp] at hl
      split at hl
      · cases hl
      · rename_i hn
        refine ⟨l, rfl, fun ip hip => ?_⟩
        have := List.find?_eq_none.mp hn ip hip
        simpa using this

theorem lookupIp_resolve {h : Host} {port : Nat} {answer : Option (List IpAddr)}
    (hl : lookupIp h port answer = .error .resolve) : answer = none := by
  cases h with
  | ip4 i => simp [lookupIp] at hl
  | ip6 i => simp [lookupIp] at hl
  | dns n | dns4 n | dns6 n =>
    cases answer with
    | none => rfl
    | some l =>
      simp only [lookupIp] at hl
      split at hl <;> cases hl

/-! ## Public addresses -/

theorem lastP2p_withP2p (a : Multiaddr) (p : Nat) : lastP2p (withP2p a p) = some p := by
  simp [lastP2p, withP2p]

theorem ensureLocalPeer_ok {lp : Nat} {a a' : Multiaddr} (h : ensureLocalPeer lp a = .ok a') :
    lastP2p a' = some lp ∧ (a' = a ∨ (lastP2p a = none ∧ a' = withP2p a lp)) ∧ a ≠ [] := by
  unfold ensureLocalPeer at h
  split at h
  · cases h
  · rename_i hne
    have hne' : a ≠ [] := by intro h0; subst h0; simp at hne
    split at h
    · rename_i q hq
      split at h
      · rename_i hq'; cases h; subst hq'; exact ⟨hq, Or.inl rfl, hne'⟩
      · cases h
    · rename_i hq
      cases h
      exact ⟨lastP2p_withP2p a lp, Or.inr ⟨hq, rfl⟩, hne'⟩

theorem publicAdd_inv {lp : Nat} {set : List Multiaddr} (a : Multiaddr)
    (h : ∀ x ∈ set, lastP2p x = some lp) : ∀ x ∈ (publicAdd lp set a).1, lastP2p x = some lp := by
  unfold publicAdd
  split
  · exact h
  · rename_i a' ha'
    split
    · exact h
    · intro x hx
      rcases List.mem_append.mp hx with hx | hx
      · exact h x hx
      · simp at hx; subst hx; exact (ensureLocalPeer_ok ha').1

theorem publicRemove_inv {lp : Nat} {set : List Multiaddr} (a : Multiaddr)
    (h : ∀ x ∈ set, lastP2p x = some lp) : ∀ x ∈ (publicRemove set a).1, lastP2p x = some lp := by
  intro x hx
  exact h x (List.mem_filter.mp hx).1

end Litep2pVerif.Addr
