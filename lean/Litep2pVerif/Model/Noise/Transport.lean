import Litep2pVerif.Generated.Consts
/-!
# Model of `NoiseSocket` (src/crypto/noise/mod.rs): `poll_read`, `poll_write`, `poll_flush`

Operational copy of the code. Conventions:

* A plaintext byte is identified with its *position* in the writer's plaintext stream; a block of
  plaintext is a `Chunk` (`start`, `len`) of consecutive positions.
* Ciphertext bytes are values of an arbitrary type `C`. The cipher is a record of functions
  `WireOps C` (`enc`/`dec` with an explicit nonce, and the embedding of the two length-prefix bytes).
  Its laws (`WireLaws`, stated in `Proofs/Noise/Transport.lean`) are hypotheses of the theorems and
  are proved for the free term model `termWire` at the end of this file; nothing is an axiom.
* `snow`'s `TransportState::{read,write}_message` are `snowRead` / `snowWrite`: the size checks of
  snow (`MAXMSGLEN`, `TAGLEN`, output space) in the order of the code, then the cipher; the nonce
  counter is a field of the socket and advances only on success.
* Every slice/index/`expect`/`panic!` of the Rust code is a checked operation returning a `panic`
  output. Inner I/O (`this.io.poll_read` / `poll_write`) is a scripted carrier (`RCarrier`,
  `WCarrier`) that can produce every behaviour of an `AsyncRead`/`AsyncWrite`.
* `loop { match this.read_state … }` is `readLoop` (one iteration = `readIter`), with fuel.
-/
namespace Litep2pVerif.Noise.Transport

/-- Block of plaintext: stream positions `start … start+len-1`. -/
structure Chunk where
  start : Nat
  len : Nat
deriving DecidableEq, Repr

/-- The cipher and the byte embedding, as data. -/
structure WireOps (C : Type) where
  enc : Nat → Chunk → List C
  dec : Nat → List C → Option Chunk
  ofByte : Nat → C
  toByte : C → Nat

/-- Constants of the code and of snow, and the two configuration values. -/
structure Params where
  /-- `MAX_NOISE_MSG_LEN` -/
  M : Nat
  /-- `NOISE_EXTRA_ENCRYPT_SPACE` -/
  TAG : Nat
  /-- snow `MAXMSGLEN` -/
  SNOWMAX : Nat
  /-- snow `TAGLEN` -/
  T : Nat
  /-- `max_read_ahead_factor` -/
  F : Nat
  /-- `max_write_buffer_size` -/
  W : Nat
deriving Repr

/-- `MAX_FRAME_LEN = MAX_NOISE_MSG_LEN - NOISE_EXTRA_ENCRYPT_SPACE` -/
def Params.MAXF (P : Params) : Nat := P.M - P.TAG
/-- `max_read_ahead_factor * MAX_NOISE_MSG_LEN` -/
def Params.canon (P : Params) : Nat := P.F * P.M
/-- length of `read_buffer` -/
def Params.bufSize (P : Params) : Nat := P.F * P.M + (2 + P.M)
/-- length of `encrypt_buffer` -/
def Params.encSize (P : Params) : Nat := P.W * (P.M + 2)

/-- The constants as extracted from the sources on this run. -/
def realParams (F W : Nat) : Params :=
  { M := Consts.MAX_NOISE_MSG_LEN, TAG := Consts.NOISE_EXTRA_ENCRYPT_SPACE,
    SNOWMAX := Consts.SNOW_MAXMSGLEN, T := Consts.SNOW_TAGLEN, F := F, W := W }

/-- snow `TransportState::write_message(payload, out)`: size checks, then encrypt. -/
def snowWrite {C : Type} (P : Params) (w : WireOps C) (n : Nat) (p : Chunk) (outSpace : Nat) :
    Option (List C) :=
  if p.len + P.T > P.SNOWMAX ∨ p.len + P.T > outSpace then none else some (w.enc n p)

/-- snow `TransportState::read_message(msg, out)`: size checks, then decrypt. -/
def snowRead {C : Type} (P : Params) (w : WireOps C) (n : Nat) (msg : List C) (outSpace : Nat) :
    Option Chunk :=
  if msg.length > P.SNOWMAX then none
  else if msg.length < P.T ∨ outSpace < msg.length - P.T then none
  else w.dec n msg

/-- Copy `src[from .. from+n)` to `buf[dst .. dst+n)`. -/
def blit {C : Type} (fill : C) (buf : Array C) (dst : Nat) (src : Array C) (from_ : Nat) :
    Nat → Array C
  | 0 => buf
  | n + 1 => blit fill (buf.setIfInBounds dst (src.getD from_ fill)) (dst + 1) src (from_ + 1) n

/-- Copy a list to `buf[dst ..)`. -/
def blitList {C : Type} (buf : Array C) (dst : Nat) : List C → Array C
  | [] => buf
  | x :: xs => blitList (buf.setIfInBounds dst x) (dst + 1) xs

/-! ## Read side -/

inductive RState where
  | readData (maxRead : Nat)
  | readFrameLen
  | process (pending : Option Chunk) (offset size frameSize : Nat)
deriving DecidableEq, Repr

structure ReadSock (C : Type) where
  buf : Array C
  nread : Nat
  offset : Nat
  cur : Option Nat
  st : RState
  canon : Nat
  /-- `decrypt_buffer.is_some()` -/
  decBuf : Bool
  /-- receiving cipher state's nonce -/
  nonce : Nat

inductive RErr where
  | eof | invalidData | permissionDenied | carrier
deriving DecidableEq, Repr

inductive ROut where
  /-- `Ready(Ok(n))`; the bytes handed out are stream positions `pos … pos+n-1` -/
  | ok (n pos : Nat)
  | pending
  | err (e : RErr)
  | panic (msg : String)
  /-- model artefact: loop fuel exhausted (proved unreachable, `readLoop_fuel`) -/
  | diverged
deriving DecidableEq, Repr

/-- Script entry for one inner `poll_read`. -/
inductive RHint where
  | chunk (k : Nat) | pend | eof | err
deriving DecidableEq, Repr

/-- The carrier as seen by the reader: everything delivered so far, a cursor, the script. -/
structure RCarrier (C : Type) where
  str : Array C
  cpos : Nat
  script : List RHint
  closed : Bool

inductive RAns where
  | ready (n : Nat) | pending | err
deriving DecidableEq, Repr

def RCarrier.deflt {C : Type} (c : RCarrier C) (cap : Nat) : RCarrier C × RAns :=
  if c.str.size - c.cpos = 0 then (c, if c.closed then .ready 0 else .pending)
  else ({ c with cpos := c.cpos + min cap (c.str.size - c.cpos) }, .ready (min cap (c.str.size - c.cpos)))

/-- Inner `poll_read` with a buffer of `req` bytes; `ready n` hands out `str[cpos .. cpos+n)`. -/
def RCarrier.read {C : Type} (c : RCarrier C) (req : Nat) : RCarrier C × RAns :=
  match c.script with
  | [] => c.deflt req
  | .pend :: r => ({ c with script := r }, .pending)
  | .eof :: r => ({ c with script := r }, .ready 0)
  | .err :: r => ({ c with script := r }, .err)
  | .chunk k :: r => RCarrier.deflt { c with script := r } (min req k)

def newReadSock {C : Type} (P : Params) (w : WireOps C) : ReadSock C :=
  { buf := Array.replicate P.bufSize (w.ofByte 0), nread := 0, offset := 0, cur := none,
    st := .readData P.canon, canon := P.canon, decBuf := true, nonce := 0 }

/-- `reset_read_state(remaining)` -/
def resetRead {C : Type} (s : ReadSock C) (remaining : Nat) : Except String (ReadSock C) :=
  match remaining with
  | 0 => .ok { s with nread := 0, offset := 0, st := .readData s.canon }
  | 1 =>
    if h : 0 < s.nread ∧ s.nread - 1 < s.buf.size then
      .ok { s with buf := s.buf.setIfInBounds 0 (s.buf[s.nread - 1]'h.2), nread := 1, offset := 0,
                   st := .readData s.canon }
    else .error "index out of bounds"
  | _ => .error "invalid state"

/-- `ReadFrameLen`, after the frame size is known. An invalid frame size is kept in
`current_frame_size` before the error is returned, so every later poll reports the same error. -/
def afterSize {C : Type} (P : Params) (s : ReadSock C) (fs remaining : Nat) :
    ReadSock C × Option ROut :=
  if remaining < fs then
    if s.nread + fs < s.canon then
      ({ s with cur := some fs, st := .readData s.canon }, none)
    else
      ({ s with cur := some fs, st := .readData (s.nread + fs - remaining) }, none)
  else if fs ≤ P.TAG then ({ s with cur := some fs }, some (.err .invalidData))
  else ({ s with cur := some fs, st := .process none 0 0 0 }, none)

/-- `ReadState::ReadFrameLen` -/
def frameLenStep {C : Type} (P : Params) (w : WireOps C) (s : ReadSock C) :
    ReadSock C × Option ROut :=
  if s.nread < s.offset then (s, some (.err .permissionDenied))
  else if s.nread - s.offset < 2 then
    match resetRead s (s.nread - s.offset) with
    | .error m => (s, some (.panic m))
    | .ok s' => (s', none)
  else
    match s.cur with
    | some fs => afterSize P { s with cur := none } fs (s.nread - s.offset)
    | none =>
      if s.offset + 1 < s.buf.size then
        afterSize P { s with offset := s.offset + 2 }
          (w.toByte (s.buf.getD s.offset (w.ofByte 0)) % 256 * 256
            + w.toByte (s.buf.getD (s.offset + 1) (w.ofByte 0)) % 256)
          (s.nread - s.offset - 2)
      else (s, some (.panic "index out of bounds"))

/-- `read_buffer[offset .. offset + frame_size]` -/
def window {C : Type} (s : ReadSock C) (fs : Nat) : List C :=
  (s.buf.extract s.offset (s.offset + fs)).toList

/-- `ReadState::ProcessNextFrame` with a caller buffer of `k` bytes. A decryption failure puts
`current_frame_size` (and the decrypt buffer) back before returning the error, so the state is
unchanged and every later poll reports the same error again (`fix: noise: ... poll_read again after a
decryption error`; before it the next poll panicked with "`frame_size` to exist"). -/
def processStep {C : Type} (P : Params) (w : WireOps C) (k : Nat) (s : ReadSock C)
    (pending : Option Chunk) (off size fsz : Nat) : ReadSock C × ROut :=
  match pending with
  | some ch =>
    if off > size ∨ size > P.MAXF then (s, .panic "slice out of range")
    else if k ≥ size - off then
      ({ s with st := .readFrameLen, decBuf := true, offset := s.offset + fsz },
        .ok (size - off) (ch.start + off))
    else
      ({ s with st := .process (some ch) (off + k) size fsz }, .ok k (ch.start + off))
  | none =>
    match s.cur with
    | none => (s, .panic "`frame_size` to exist")
    | some fs =>
      if fs < P.TAG then ({ s with cur := none }, .panic "attempt to subtract with overflow")
      else if k ≥ fs - P.TAG then
        if s.offset + fs > s.buf.size then ({ s with cur := none }, .panic "slice out of range")
        else
          match snowRead P w s.nonce (window s fs) k with
          | none => (s, .err .invalidData)
          | some ch =>
            ({ s with cur := none, offset := s.offset + fs, st := .readFrameLen,
                      nonce := s.nonce + 1 }, .ok ch.len ch.start)
      else
        if s.decBuf = false then ({ s with cur := none }, .panic "buffer to exist")
        else if s.offset + fs > s.buf.size then
          ({ s with cur := none, decBuf := false }, .panic "slice out of range")
        else
          match snowRead P w s.nonce (window s fs) P.MAXF with
          | none => (s, .err .invalidData)
          | some ch =>
            if k > P.MAXF then ({ s with cur := none, decBuf := false }, .panic "slice out of range")
            else
              ({ s with cur := none, decBuf := false, st := .process (some ch) k ch.len fs,
                        nonce := s.nonce + 1 }, .ok k ch.start)

/-- `ReadState::ReadData { max_read }` -/
def readDataStep {C : Type} (w : WireOps C) (s : ReadSock C) (c : RCarrier C) (m : Nat) :
    ReadSock C × RCarrier C × Option ROut :=
  if s.nread > m ∨ m > s.buf.size then (s, c, some (.panic "slice out of range"))
  else
    match c.read (m - s.nread) with
    | (c', .pending) => (s, c', some .pending)
    | (c', .err) => (s, c', some (.err .carrier))
    | (c', .ready n) =>
      if n = 0 then (s, c', some (.err .eof))
      else
        ({ s with buf := blit (w.ofByte 0) s.buf s.nread c.str c.cpos n, nread := s.nread + n,
                  st := .readFrameLen }, c', none)

/-- One iteration of the `loop` in `poll_read` (`none` = `continue`). -/
def readIter {C : Type} (P : Params) (w : WireOps C) (k : Nat) (s : ReadSock C) (c : RCarrier C) :
    ReadSock C × RCarrier C × Option ROut :=
  match s.st with
  | .readData m => readDataStep w s c m
  | .readFrameLen =>
    match frameLenStep P w s with
    | (s', o) => (s', c, o)
  | .process pending off size fsz =>
    match processStep P w k s pending off size fsz with
    | (s', o) => (s', c, some o)

def readLoop {C : Type} (P : Params) (w : WireOps C) (k : Nat) :
    Nat → ReadSock C → RCarrier C → ReadSock C × RCarrier C × ROut
  | 0, s, c => (s, c, .diverged)
  | fuel + 1, s, c =>
    match readIter P w k s c with
    | (s', c', some o) => (s', c', o)
    | (s', c', none) => readLoop P w k fuel s' c'

/-- Fuel that always suffices: every `continue` out of `ReadData` consumed a byte. -/
def readFuel {C : Type} (c : RCarrier C) : Nat := 2 * (c.str.size - c.cpos) + 4

/-- `poll_read(buf)` with `buf.len() = k`. -/
def pollRead {C : Type} (P : Params) (w : WireOps C) (k : Nat) (s : ReadSock C) (c : RCarrier C) :
    ReadSock C × RCarrier C × ROut :=
  readLoop P w k (readFuel c) s c

/-! ## Write side -/

inductive WState where
  | idle
  | writing (offset encLen : Nat)
deriving DecidableEq, Repr

structure WriteSock (C : Type) where
  ebuf : Array C
  st : WState
  /-- sending cipher state's nonce -/
  nonce : Nat

inductive WErr where
  | writeZero | invalidData | carrier
deriving DecidableEq, Repr

inductive WOut where
  | ok (n : Nat)
  | pending
  | err (e : WErr)
  | panic (msg : String)
deriving DecidableEq, Repr

/-- Script entry for one inner `poll_write`. -/
inductive WHint where
  | acc (k : Nat) | pend | zero | err
deriving DecidableEq, Repr

/-- The carrier as seen by the writer: everything accepted so far, and the script. -/
structure WCarrier (C : Type) where
  out : Array C
  script : List WHint

inductive WAns where
  | accepted (n : Nat) | pending | err
deriving DecidableEq, Repr

/-- Inner `poll_write(&ebuf[lo..hi])`. -/
def WCarrier.write {C : Type} (c : WCarrier C) (ebuf : Array C) (lo hi : Nat) : WCarrier C × WAns :=
  match c.script with
  | [] => ({ c with out := c.out ++ ebuf.extract lo hi }, .accepted (hi - lo))
  | .pend :: r => ({ c with script := r }, .pending)
  | .zero :: r => ({ c with script := r }, .accepted 0)
  | .err :: r => ({ c with script := r }, .err)
  | .acc k :: r =>
    ({ out := c.out ++ ebuf.extract lo (lo + min k (hi - lo)), script := r }, .accepted (min k (hi - lo)))

def newWriteSock {C : Type} (P : Params) (w : WireOps C) : WriteSock C :=
  { ebuf := Array.replicate P.encSize (w.ofByte 0), st := .idle, nonce := 0 }

inductive DrainOut where
  | idle | blocked | err (e : WErr) | panic (msg : String)
deriving DecidableEq, Repr

/-- The `loop` that writes `encrypt_buffer[offset..encrypted_len]` to the socket (step 1 of
`poll_write`, and `poll_flush`). -/
def drain {C : Type} : Nat → WriteSock C → WCarrier C → WriteSock C × WCarrier C × DrainOut
  | 0, s, c => (s, c, .panic "fuel")
  | fuel + 1, s, c =>
    match s.st with
    | .idle => (s, c, .idle)
    | .writing off len =>
      if off > len ∨ len > s.ebuf.size then (s, c, .panic "slice out of range")
      else
        match c.write s.ebuf off len with
        | (c', .pending) => (s, c', .blocked)
        | (c', .err) => (s, c', .err .carrier)
        | (c', .accepted n) =>
          if n = 0 then (s, c', .err .writeZero)
          else if off + n = len then ({ s with st := .idle }, c', .idle)
          else drain fuel { s with st := .writing (off + n) len } c'

def drainFuel {C : Type} (s : WriteSock C) : Nat :=
  match s.st with
  | .idle => 1
  | .writing off len => len - off + 2

/-- `buffer_offset` at the start of step 2. -/
def bufferOffset {C : Type} (s : WriteSock C) : Nat :=
  match s.st with
  | .idle => 0
  | .writing _ len => len

/-- Step 3 of `poll_write`. -/
def finishWrite {C : Type} (s : WriteSock C) (bo total : Nat) : WriteSock C × WOut :=
  if total = 0 then (s, .pending)
  else
    match s.st with
    | .idle => ({ s with st := .writing 0 bo }, .ok total)
    | .writing off _ => ({ s with st := .writing off bo }, .ok total)

/-- `for chunk in buf.chunks(MAX_FRAME_LEN)`: `pos`/`rem` = the part of `buf` not yet chunked. -/
def encLoop {C : Type} (P : Params) (w : WireOps C) :
    Nat → WriteSock C → (pos rem bo total : Nat) → WriteSock C × WOut
  | 0, s, _, _, bo, total => finishWrite s bo total
  | fuel + 1, s, pos, rem, bo, total =>
    if rem = 0 then finishWrite s bo total
    else if bo + min rem P.MAXF + (2 + P.TAG) > s.ebuf.size then finishWrite s bo total
    else
      match snowWrite P w s.nonce ⟨pos, min rem P.MAXF⟩ (s.ebuf.size - (bo + 2)) with
      | none => (s, .err .invalidData)
      | some ct =>
        encLoop P w fuel
          { s with
            ebuf := ((blitList s.ebuf (bo + 2) ct).setIfInBounds bo
                      (w.ofByte (ct.length / 256 % 256))).setIfInBounds (bo + 1)
                      (w.ofByte (ct.length % 256)),
            nonce := s.nonce + 1 }
          (pos + min rem P.MAXF) (rem - min rem P.MAXF) (bo + (ct.length + 2)) (total + min rem P.MAXF)

/-- Step 2 and 3 of `poll_write`. -/
def encryptStep {C : Type} (P : Params) (w : WireOps C) (s : WriteSock C) (pos n : Nat) :
    WriteSock C × WOut :=
  if n = 0 then (s, .ok 0)
  else if P.MAXF = 0 then (s, .panic "chunk size must be non-zero")
  else encLoop P w n s pos n (bufferOffset s) 0

/-- `poll_write(buf)` where `buf` holds plaintext positions `pos … pos+n-1`. -/
def pollWrite {C : Type} (P : Params) (w : WireOps C) (s : WriteSock C) (c : WCarrier C)
    (pos n : Nat) : WriteSock C × WCarrier C × WOut :=
  match drain (drainFuel s) s c with
  | (s', c', .err e) => (s', c', .err e)
  | (s', c', .panic m) => (s', c', .panic m)
  | (s', c', _) =>
    match encryptStep P w s' pos n with
    | (s'', o) => (s'', c', o)

/-- The first half of `poll_flush`: "Flush internal buffer of encrypted messages" (`ok` = the loop was
left with `write_state = Idle`; the inner `poll_flush` that follows is in `pollFlushE`). -/
def pollFlush {C : Type} (s : WriteSock C) (c : WCarrier C) : WriteSock C × WCarrier C × WOut :=
  match drain (drainFuel s) s c with
  | (s', c', .err e) => (s', c', .err e)
  | (s', c', .panic m) => (s', c', .panic m)
  | (s', c', .blocked) => (s', c', .pending)
  | (s', c', .idle) => (s', c', .ok 0)

/-! ## Teardown: the complete `poll_flush`, and `poll_close` -/

/-- Script entry for one inner `poll_flush` / `poll_close` (empty script: `Ready(Ok(()))`). -/
inductive FHint where
  | pend | err
deriving DecidableEq, Repr

/-- The writer's carrier with its flush/close half. -/
structure WEnv (C : Type) where
  wc : WCarrier C
  /-- answers of the inner `poll_flush` -/
  fscript : List FHint
  /-- answers of the inner `poll_close` -/
  cscript : List FHint
  /-- `wc.out.size` at the last successful inner `poll_flush` / `poll_close` -/
  flushed : Nat
  /-- the inner `poll_close` returned `Ready(Ok(()))` -/
  closed : Bool

/-- `poll_flush`: drain the encrypt buffer — `futures::ready!` on every inner `poll_write`, so a
`Pending` (or an error) of the carrier ends the call — and only then "Flush underlying socket":
`Pin::new(&mut this.io).poll_flush(cx)`. -/
def pollFlushE {C : Type} (s : WriteSock C) (e : WEnv C) : WriteSock C × WEnv C × WOut :=
  match pollFlush s e.wc with
  | (s', c', .ok _) =>
    match e.fscript with
    | [] => (s', { e with wc := c', flushed := c'.out.size }, .ok 0)
    | .pend :: r => (s', { e with wc := c', fscript := r }, .pending)
    | .err :: r => (s', { e with wc := c', fscript := r }, .err .carrier)
  | (s', c', o) => (s', { e with wc := c' }, o)

/-- `poll_close`: `futures::ready!(self.as_mut().poll_flush(cx))?` — neither a `Pending` nor an error of
the flush gets past this line — then `Pin::new(&mut self.io).poll_close(cx)`. -/
def pollCloseE {C : Type} (s : WriteSock C) (e : WEnv C) : WriteSock C × WEnv C × WOut :=
  match pollFlushE s e with
  | (s', e', .ok _) =>
    match e'.cscript with
    | [] => (s', { e' with flushed := e'.wc.out.size, closed := true }, .ok 0)
    | .pend :: r => (s', { e' with cscript := r }, .pending)
    | .err :: r => (s', { e' with cscript := r }, .err .carrier)
  | r => r

/-- The caller's side of `flush().await` / `close().await`: poll again while the answer is `Pending`
(at most `n` polls). -/
def flushRun {C : Type} : Nat → WriteSock C → WEnv C → WriteSock C × WEnv C × WOut
  | 0, s, e => (s, e, .pending)
  | n + 1, s, e =>
    match pollFlushE s e with
    | (s', e', .pending) => flushRun n s' e'
    | r => r

def closeRun {C : Type} : Nat → WriteSock C → WEnv C → WriteSock C × WEnv C × WOut
  | 0, s, e => (s, e, .pending)
  | n + 1, s, e =>
    match pollCloseE s e with
    | (s', e', .pending) => closeRun n s' e'
    | r => r

/-! ## The free term model of the cipher -/

/-- Symbolic ciphertext bytes: a plain byte, the `i`-th byte of the ciphertext of chunk
`(start,len)` under nonce `n`, or a byte modified in transit. -/
inductive TCell where
  | raw (v : Nat)
  | ct (n start len i : Nat)
  | mod (c : TCell) (mask : Nat)
deriving DecidableEq, Repr

def termEnc (T : Nat) (n : Nat) (p : Chunk) : List TCell :=
  (List.range (p.len + T)).map (fun i => .ct n p.start p.len i)

def termDec (T : Nat) (n : Nat) (c : List TCell) : Option Chunk :=
  match c with
  | .ct n' s l 0 :: _ => if n' = n ∧ c = termEnc T n ⟨s, l⟩ then some ⟨s, l⟩ else none
  | _ => none

/-- The term model (`T` = tag length). -/
def termWire (T : Nat) : WireOps TCell :=
  { enc := termEnc T, dec := termDec T, ofByte := .raw,
    toByte := fun c => match c with | .raw v => v | _ => 0 }

end Litep2pVerif.Noise.Transport
