import Litep2pVerif.Model.Noise.Identity
/-!
# C01 — symbolic (Dolev–Yao) model of the Noise XX exchange as `handshake()` performs it
(src/crypto/noise/mod.rs `handshake`, `NoiseContext::{first_message, second_message, read_handshake_message}`;
snow 0.9.6 `HandshakeState::{write_message, read_message}`, `SymmetricState`)

Wire format: every handshake message is `[2-byte big-endian length][Noise message]`; the Noise messages are
`e` / `e, ee, s, es, payload` / `s, se, payload`. The dialer writes message 1, reads message 2, decodes the
payload protobuf (an error here returns before message 3 is written), writes message 3 and only then runs
`parse_and_verify_peer_id`; the listener reads 1, writes 2, reads 3, then decodes and verifies.

Terms (`T`) form a free algebra: hashing/HKDF/AEAD are injective constructors, the Diffie–Hellman value of two
secret keys is stored with its arguments sorted, so that it commutes *by construction*; a DH with bytes that
are nobody's public key is the opaque `dhj`. The payload inside the ciphertexts and the static keys are real byte
strings, so that the identity check is literally `Identity.parseAndVerify`.

The network is an attacker: a function from the messages sent so far to what each receiver gets (`Dlv`).
-/
namespace Litep2pVerif.Noise.XX
open Litep2pVerif.Noise.Identity Litep2pVerif.Id Litep2pVerif.Wire

inductive T where
  | bytes (b : Bytes)                         -- public byte strings (DH public keys, plaintexts)
  | junk (id len : Nat)                       -- `len` bytes unrelated to anything else (garbled data)
  | name                                      -- "Noise_XX_25519_ChaChaPoly_SHA256"
  | dhs (a b : Nat)                           -- X25519 of the secret keys a ≤ b
  | dhj (a : Nat) (pk : T)                    -- X25519 of secret a with something that is nobody's public key
  | h (x y : T)                               -- SHA-256 chaining (MixHash)
  | k1 (ck ikm : T)                           -- HKDF output 1 (new chaining key)
  | k2 (ck ikm : T)                           -- HKDF output 2 (new cipher key)
  | aead (k : T) (n : Nat) (ad : T) (p : T)   -- ChaCha20-Poly1305 ciphertext (16-byte tag)
  | cat (x y : T)                             -- concatenation of message fields
  deriving DecidableEq, Repr

/-- Length on the wire. -/
def T.size : T → Nat
  | .bytes b => b.length
  | .junk _ len => len
  | .aead _ _ _ p => p.size + 16
  | .cat x y => x.size + y.size
  | _ => 32

/-- The X25519 group as far as the model needs it: public key bytes of secret number `n`, and the
(model-only) inverse. -/
structure DH where
  pubB : Nat → Bytes
  secOf : Bytes → Option Nat

structure DH.Laws (g : DH) : Prop where
  sec_pub : ∀ n, g.secOf (g.pubB n) = some n
  pub_sec : ∀ b n, g.secOf b = some n → b = g.pubB n
  pub_len : ∀ n, (g.pubB n).length = 32

/-- `Dh::dh(secret a, public pk)`; commutes because the pair is sorted. -/
def dh (g : DH) (a : Nat) (pk : T) : T :=
  match pk with
  | .bytes b =>
    match g.secOf b with
    | some b' => .dhs (min a b') (max a b')
    | none => .dhj a pk
  | _ => .dhj a pk

/-- snow's `SymmetricState` + `CipherState` (key, nonce). -/
structure SS where
  ck : T
  h : T
  k : Option T
  n : Nat
  deriving DecidableEq, Repr

/-- `initialize_symmetric(name)` (the name is exactly 32 bytes: `h = name`) followed by `mix_hash(prologue = "")`. -/
def SS.init : SS := { ck := .name, h := .h .name (.bytes []), k := none, n := 0 }

def SS.mixHash (s : SS) (d : T) : SS := { s with h := .h s.h d }

def SS.mixKey (s : SS) (ikm : T) : SS := { s with ck := .k1 s.ck ikm, k := some (.k2 s.ck ikm), n := 0 }

def SS.encryptAndHash (s : SS) (p : T) : T × SS :=
  match s.k with
  | none => (p, s.mixHash p)
  | some k => (.aead k s.n s.h p, { s.mixHash (.aead k s.n s.h p) with n := s.n + 1 })

/-- `decrypt_and_mix_hash`: ideal AEAD — a ciphertext opens iff it was made under the same key, nonce and
associated data. -/
def SS.decryptAndHash (s : SS) (c : T) : Option (T × SS) :=
  match s.k with
  | none => some (c, s.mixHash c)
  | some k =>
    match c with
    | .aead k' n' ad' p =>
      if k' = k ∧ n' = s.n ∧ ad' = s.h then some (p, { s.mixHash c with n := s.n + 1 }) else none
    | _ => none

/-! ## Message bodies: lists of fields -/

def bodySize : List T → Nat
  | [] => 0
  | f :: rest => f.size + bodySize rest

/-- Take the next `n` bytes of the message as one field (`Error::Input` if fewer remain). A read that does
not end on a field boundary yields garbage. -/
def takeField (n : Nat) (body : List T) : Option (T × List T) :=
  match body with
  | [] => none
  | f :: rest =>
    if f.size = n then some (f, rest)
    else if bodySize (f :: rest) < n then none
    else some (.junk 0 n, [])

/-- The rest of a message as one term (the payload ciphertext). -/
def restTerm : List T → T
  | [] => .bytes []
  | [x] => x
  | x :: y :: rest => .cat x (restTerm (y :: rest))

def termBytes : T → Bytes
  | .bytes b => b
  | _ => []

structure Env where
  c : Crypto
  g : DH

/-- An honest node: identity key number, ephemeral and static DH secrets. -/
structure Party where
  id : Nat
  e : Nat
  s : Nat
  deriving DecidableEq, Repr

/-- The identity payload the node sends (`NoiseContext::assemble`). -/
def Party.payload (E : Env) (p : Party) : Bytes := honestPayload E.c p.id (E.g.pubB p.s)

/-! ## The six message operations -/

/-- Dialer, `first_message`: `e`, empty payload (no key yet). -/
def dWrite1 (E : Env) (p : Party) : List T × SS :=
  ([.bytes (E.g.pubB p.e)], (SS.init.mixHash (.bytes (E.g.pubB p.e))).mixHash (.bytes []))

/-- Listener reads message 1: `e`, then the (unencrypted, ignored) payload. -/
def lRead1 (ss : SS) (body : List T) : Option (SS × T) :=
  match takeField 32 body with
  | none => none
  | some (re, rest) => some ((ss.mixHash re).mixHash (restTerm rest), re)

/-- Listener, `second_message`: `e, ee, s, es, payload`. -/
def lWrite2 (E : Env) (p : Party) (ss : SS) (re : T) (payload : Bytes) : List T × SS :=
  let r1 := ((ss.mixHash (.bytes (E.g.pubB p.e))).mixKey (dh E.g p.e re)).encryptAndHash (.bytes (E.g.pubB p.s))
  let r2 := (r1.2.mixKey (dh E.g p.s re)).encryptAndHash (.bytes payload)
  ([.bytes (E.g.pubB p.e), r1.1, r2.1], r2.2)

/-- Dialer reads message 2: returns the state, `re`, `rs` and the decrypted payload. -/
def dRead2 (E : Env) (p : Party) (ss : SS) (body : List T) : Option (SS × T × T × T) :=
  match takeField 32 body with
  | none => none
  | some (re, b1) =>
    match takeField 48 b1 with
    | none => none
    | some (c1, b2) =>
      match ((ss.mixHash re).mixKey (dh E.g p.e re)).decryptAndHash c1 with
      | none => none
      | some (rs, ss2) =>
        match (ss2.mixKey (dh E.g p.e rs)).decryptAndHash (restTerm b2) with
        | none => none
        | some (pl, ss3) => some (ss3, re, rs, pl)

/-- Dialer, `second_message`: `s, se, payload`. -/
def dWrite3 (E : Env) (p : Party) (ss : SS) (re : T) (payload : Bytes) : List T × SS :=
  let r1 := ss.encryptAndHash (.bytes (E.g.pubB p.s))
  let r2 := (r1.2.mixKey (dh E.g p.s re)).encryptAndHash (.bytes payload)
  ([r1.1, r2.1], r2.2)

/-- Listener reads message 3: returns the state, `rs` and the decrypted payload. -/
def lRead3 (E : Env) (p : Party) (ss : SS) (body : List T) : Option (SS × T × T) :=
  match takeField 48 body with
  | none => none
  | some (c1, b1) =>
    match ss.decryptAndHash c1 with
    | none => none
    | some (rs, ss1) =>
      match (ss1.mixKey (dh E.g p.e rs)).decryptAndHash (restTerm b1) with
      | none => none
      | some (pl, ss2) => some (ss2, rs, pl)

/-! ## What `handshake()` returns -/

/-- Result of one side. `ok peer rs`: a socket for `peer`, bound to the remote static key `rs`.
`waiting`/`eofed` are the states of a side whose read never completes (resolved by `resolve`). -/
inductive Res where
  | ok (peer : PeerId) (rs : Bytes)
  | err (e : NegErr)
  | waiting
  | eofed
  deriving DecidableEq, Repr

def Res.isOk : Res → Bool
  | .ok _ _ => true
  | _ => false

def Res.isErr : Res → Bool
  | .err _ => true
  | _ => false

/-- `parse_and_verify_peer_id(payload, get_handshake_dh_remote_pubkey())` on a decoded payload. -/
def finish (E : Env) (p : NoisePayload) (rs : T) : Res :=
  match checkPayload E.c p (termBytes rs) with
  | .ok peer => .ok peer (termBytes rs)
  | .error e => .err e

/-- What the network hands to a receiver: a complete framed message, a closed stream, or nothing. -/
inductive Dlv where
  | msg (body : List T)
  | closed
  | hang
  deriving DecidableEq, Repr

/-- Listener after message 1. -/
inductive L1 where
  | stuck (r : Res)
  | sent (m2 : List T) (ss : SS)
  deriving Repr

def L1.msg? : L1 → Option (List T)
  | .stuck _ => none
  | .sent m _ => some m

def stageL1 (E : Env) (L : Party) (x : Dlv) : L1 :=
  match x with
  | .hang => .stuck .waiting
  | .closed => .stuck .eofed
  | .msg x1 =>
    match lRead1 SS.init x1 with
    | none => .stuck (.err .snow)
    | some (ss, re) => .sent (lWrite2 E L ss re (L.payload E)).1 (lWrite2 E L ss re (L.payload E)).2

/-- Dialer after message 2: stuck, or message 3 sent and the final result. -/
inductive D2 where
  | stuck (r : Res)
  | sent (m3 : List T) (r : Res)
  deriving Repr

def D2.msg? : D2 → Option (List T)
  | .stuck _ => none
  | .sent m _ => some m

def D2.res : D2 → Res
  | .stuck r => r
  | .sent _ r => r

def stageD2 (E : Env) (D : Party) (x : Dlv) : D2 :=
  match x with
  | .hang => .stuck .waiting
  | .closed => .stuck .eofed
  | .msg x2 =>
    match dRead2 E D (dWrite1 E D).2 x2 with
    | none => .stuck (.err .snow)
    | some (ss, re, rs, pl) =>
      match NoisePayload.decode (termBytes pl) with
      | none => .stuck (.err .parse)
      | some p => .sent (dWrite3 E D ss re (D.payload E)).1 (finish E p rs)

def stageL3 (E : Env) (L : Party) (l1 : L1) (x : Dlv) : Res :=
  match l1 with
  | .stuck r => r
  | .sent _ ss =>
    match x with
    | .hang => .waiting
    | .closed => .eofed
    | .msg x3 =>
      match lRead3 E L ss x3 with
      | none => .err .snow
      | some (_, rs, pl) =>
        match NoisePayload.decode (termBytes pl) with
        | none => .err .parse
        | some p => finish E p rs

/-- The network/attacker of one session: what each receiver gets, as a function of everything sent so far
(`none`: that message was never sent). Arbitrary functions — in particular every Dolev–Yao attacker. -/
structure Attacker where
  a1 : List T → Dlv
  a2 : List T → Option (List T) → Dlv
  a3 : List T → Option (List T) → Option (List T) → Dlv

/-- One session between dialer `D` and listener `L` under attacker `A`: (dialer result, listener result),
before timers. -/
def run1 (E : Env) (D L : Party) (A : Attacker) : Res × Res :=
  let m1 := (dWrite1 E D).1
  let l1 := stageL1 E L (A.a1 m1)
  let d2 := stageD2 E D (A.a2 m1 l1.msg?)
  (d2.res, stageL3 E L l1 (A.a3 m1 l1.msg? d2.msg?))

/-- The attacker of two concurrent sessions. -/
structure Attacker2 where
  a1 : List T → List T → Dlv × Dlv
  a2 : List T → List T → Option (List T) → Option (List T) → Dlv × Dlv
  a3 : List T → List T → Option (List T) → Option (List T) → Option (List T) → Option (List T) → Dlv × Dlv

/-- Two concurrent sessions, in lock step (message k of a session depends only on deliveries < k). -/
def run2 (E : Env) (D L D' L' : Party) (A : Attacker2) : (Res × Res) × (Res × Res) :=
  let m1 := (dWrite1 E D).1
  let m1' := (dWrite1 E D').1
  let x1 := A.a1 m1 m1'
  let l1 := stageL1 E L x1.1
  let l1' := stageL1 E L' x1.2
  let x2 := A.a2 m1 m1' l1.msg? l1'.msg?
  let d2 := stageD2 E D x2.1
  let d2' := stageD2 E D' x2.2
  let x3 := A.a3 m1 m1' l1.msg? l1'.msg? d2.msg? d2'.msg?
  ((d2.res, stageL3 E L l1 x3.1), (d2'.res, stageL3 E L' l1' x3.2))

/-- Timers and hang-ups. The dialer's handshake timeout (300 ms) fires before the listener's (400 ms).
`eof`: a side that returns an error drops its end of the pipe and the peer's pending read sees EOF. -/
def resolve (eof : Bool) (r : Res × Res) : Res × Res :=
  let d1 := if r.1 = .eofed then .err .io else r.1
  let l1 := if r.2 = .eofed then .err .io else r.2
  let d2 := if eof ∧ d1 = .waiting ∧ l1.isErr then .err .io else d1
  let l2 := if eof ∧ l1 = .waiting ∧ d1.isErr then .err .io else l1
  let d3 := if d2 = .waiting then .err .timeout else d2
  let l3 := if l2 = .waiting then (if eof ∧ d2 = .waiting then .err .io else .err .timeout) else l2
  (d3, l3)

/-! ## `negotiate_connection` around the handshake (src/transport/tcp/connection.rs) -/

/-- Which side reports a connection (`NegotiatedConnection`), given the two handshake results:
the dialer additionally applies the dialed-peer test; then both sides run the `/yamux/1.0.0` multistream negotiation
over the `NoiseSocket`, an exchange in which each side needs the other's answer — it completes for a side only if
the other side reached it as well (a side that failed has dropped the stream). -/
def negotiateConn (dialed : Option PeerId) (r : Res × Res) : Bool × Bool :=
  ((match r.1 with
    | .ok P _ => (match negotiateCheck dialed P with
      | .ok _ => true
      | .error _ => false)
    | _ => false) && r.2.isOk,
   (match r.1 with
    | .ok P _ => (match negotiateCheck dialed P with
      | .ok _ => true
      | .error _ => false)
    | _ => false) && r.2.isOk)

/-! ## The scripted man-in-the-middle of the correspondence runs -/

inductive Act where
  | pass
  | flip (off mask : Nat)
  | trunc (n : Nat)
  | ext (n : Nat)
  | cut (n : Nat)
  | drop
  | swap
  | from2
  deriving DecidableEq, Repr

/-- The first `n` bytes of a body (a field that is cut becomes garbage). -/
def truncBody : Nat → List T → List T
  | _, [] => []
  | n, f :: rest =>
    if n = 0 then [] else if f.size ≤ n then f :: truncBody (n - f.size) rest else [.junk 50 n]

/-- Change a byte at body offset `o`: the field containing it becomes garbage. -/
def garble (id : Nat) : Nat → List T → List T
  | _, [] => []
  | o, f :: rest => if o < f.size then .junk id f.size :: rest else f :: garble id (o - f.size) rest

/-- `flip off mask` on message `k`: in the 2-byte length prefix it changes the announced length (a longer
announcement never completes, a shorter one truncates), elsewhere it garbles a field. -/
def flipMsg (k off mask : Nat) (m : List T) : Dlv :=
  if off % (2 + bodySize m) < 2 then
    (if bodySize m < (bodySize m) ^^^ (mask * (if off % (2 + bodySize m) = 0 then 256 else 1))
     then .hang
     else .msg (truncBody ((bodySize m) ^^^ (mask * (if off % (2 + bodySize m) = 0 then 256 else 1))) m))
  else .msg (garble (10 * k + 1) (off % (2 + bodySize m) - 2) m)

/-- Action `a` on message `k` of a session (`own`), `other` being message `k` of the other session. -/
def applyAct (eof : Bool) (k : Nat) (a : Act) (own other : Option (List T)) : Dlv :=
  match own with
  | none => .hang
  | some m =>
    match a with
    | .pass => .msg m
    | .flip off mask => flipMsg k off mask m
    | .trunc n => .msg (truncBody (n % bodySize m) m)
    | .ext n => .msg (m ++ [.junk (100 + k) n])
    | .cut _ => if eof then .closed else .hang
    | .drop => if eof then .closed else .hang
    | .swap => match other with
      | some o => .msg o
      | none => .hang
    | .from2 => match other with
      | some o => .msg o
      | none => .hang

/-- The scripted attacker of one session. -/
def scripted (eof : Bool) (a1 a2 a3 : Act) : Attacker where
  a1 := fun m1 => applyAct eof 1 a1 (some m1) none
  a2 := fun _ m2 => applyAct eof 2 a2 m2 none
  a3 := fun _ _ m3 => applyAct eof 3 a3 m3 none

/-- The second session is never acted upon, except that `swap` exchanges the two messages. -/
def mirror (a : Act) : Act := if a = .swap then .swap else .pass

def scripted2 (eof : Bool) (a1 a2 a3 : Act) : Attacker2 where
  a1 := fun m m' => (applyAct eof 1 a1 (some m) (some m'), applyAct eof 1 (mirror a1) (some m') (some m))
  a2 := fun _ _ m m' => (applyAct eof 2 a2 m m', applyAct eof 2 (mirror a2) m' m)
  a3 := fun _ _ _ _ m m' => (applyAct eof 3 a3 m m', applyAct eof 3 (mirror a3) m' m)

/-! ## The rogue endpoint: the real Noise code with its own keys and a forged identity payload -/

/-- A rogue dialer `R` (payload `forged`) against an honest listener: an attacker that ignores the honest
dialer of `run1` altogether. -/
def rogueDialer (E : Env) (R : Party) (forged : Bytes) : Attacker where
  a1 := fun _ => .msg (dWrite1 E R).1
  a2 := fun _ _ => .hang
  a3 := fun _ m2 _ =>
    match m2 with
    | none => .hang
    | some m2 =>
      match dRead2 E R (dWrite1 E R).2 m2 with
      | none => .hang
      | some (ss, re, _, _) => .msg (dWrite3 E R ss re forged).1

/-- A rogue listener against an honest dialer. -/
def rogueListener (E : Env) (R : Party) (forged : Bytes) : Attacker where
  a1 := fun _ => .hang
  a2 := fun m1 _ =>
    match lRead1 SS.init m1 with
    | none => .hang
    | some (ss, re) => .msg (lWrite2 E R ss re forged).1
  a3 := fun _ _ _ => .hang

/-! ## The free DH instance -/

def freeDhPub (n : Nat) : Bytes := List.replicate 31 1 ++ [n]

def freeDhSec (pk : Bytes) : Option Nat :=
  match pk.drop 31 with
  | [k] => if pk.take 31 = List.replicate 31 1 then some k else none
  | _ => none

def freeDH : DH := { pubB := freeDhPub, secOf := freeDhSec }

def freeEnv : Env := { c := freeCrypto, g := freeDH }

end Litep2pVerif.Noise.XX
