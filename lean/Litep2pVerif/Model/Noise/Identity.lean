import Litep2pVerif.Model.Wire.Schemas
import Litep2pVerif.Model.Id.PeerId
import Litep2pVerif.Generated.Consts
/-!
# C01 — the identity check of the Noise handshake (src/crypto/noise/mod.rs `parse_and_verify_peer_id`,
the payload decoding in `handshake()`, and the dialed-peer test of `negotiate_connection`)

`checkPayload` is `parse_and_verify_peer_id` check by check, in the order of the code:
identity key present → `RemotePublicKey::from_protobuf_encoding` (C19's `remotePublicKey`) → signature
present → peer id derived from the *received key bytes* (C18's `fromPublicKeyProtobuf`) → signature
verified over `"noise-libp2p-static-key:" ++ remote static key`.

Cryptography is a structure of parameters (`Crypto`); what the theorems need of it is the separate
proposition `Laws` (a hypothesis, never an axiom), which the free instance `freeCrypto` satisfies.
Bytes are `Nat`s as in `Model/Wire`.
-/
namespace Litep2pVerif.Noise.Identity
open Litep2pVerif.Wire Litep2pVerif.Id

abbrev Bytes := List Nat

/-- `STATIC_KEY_DOMAIN` = "noise-libp2p-static-key:" -/
def STATIC_KEY_DOMAIN : Bytes :=
  [110, 111, 105, 115, 101, 45, 108, 105, 98, 112, 50, 112, 45, 115, 116, 97, 116, 105, 99, 45, 107, 101, 121, 58]

/-- The cryptographic primitives the identity check uses. Secret identity keys are numbered. -/
structure Crypto where
  /-- `ed25519::VerifyingKey::from_bytes` succeeds on these 32 bytes -/
  validPoint : Bytes → Bool
  /-- `ed25519::PublicKey::verify key msg sig` -/
  verify : Bytes → Bytes → Bytes → Bool
  /-- SHA-256 (peer ids of key encodings longer than `MAX_INLINE_KEY_LENGTH`) -/
  sha256 : List UInt8 → List UInt8
  /-- the 32 public key bytes of secret key number `k` -/
  pubOf : Nat → Bytes
  /-- `Keypair::sign` -/
  sign : Nat → Bytes → Bytes

/-- What the theorems assume of the primitives (correctness and the binding of a signature to its
key and message — the latter is the idealisation of EUF-CMA security). -/
structure Laws (c : Crypto) : Prop where
  pub_len : ∀ k, (c.pubOf k).length = 32
  pub_valid : ∀ k, c.validPoint (c.pubOf k) = true
  sig_len : ∀ k rs, rs.length = 32 → (c.sign k (STATIC_KEY_DOMAIN ++ rs)).length = 64
  verify_sign : ∀ k m, c.verify (c.pubOf k) m (c.sign k m) = true
  sign_binds : ∀ k k' m m', c.verify (c.pubOf k) m (c.sign k' m') = true → k = k' ∧ m = m'

/-- `NegotiationError` (the variants a handshake can produce) -/
inductive NegErr where
  | parse            -- ParseError(ProstDecodeError) of the payload
  | peerIdMissing
  | keyDecode        -- ParseError(ProstDecodeError) of the identity key
  | unknownKeyType
  | invalidKey
  | badSignature
  | panic (msg : String)
  | snow
  | io
  | timeout
  | peerIdMismatch
  deriving DecidableEq, Repr

def toU8 (b : Bytes) : List UInt8 := b.map UInt8.ofNat

/-- `PeerId::from_public_key_protobuf(&identity)` — of the RECEIVED bytes, not of a re-encoding. -/
def peerIdOfEncoding (c : Crypto) (kb : Bytes) : Except Panic PeerId :=
  PeerId.fromPublicKeyProtobuf Consts.MAX_INLINE_KEY_LENGTH c.sha256 (toU8 kb)

/-- `parse_and_verify_peer_id(payload, dh_remote_pubkey)` -/
def checkPayload (c : Crypto) (p : NoisePayload) (rs : Bytes) : Except NegErr PeerId :=
  match p.identityKey with
  | none => .error .peerIdMissing
  | some identity =>
    match remotePublicKey c.validPoint identity with
    | .decodeErr => .error .keyDecode
    | .unknownKeyType => .error .unknownKeyType
    | .invalidData => .error .invalidKey
    | .ok key =>
      match p.identitySig with
      | none => .error .badSignature
      | some sig =>
        match peerIdOfEncoding c identity with
        | .error (.expect m) => .error (.panic m)
        | .ok peer =>
          if c.verify key (STATIC_KEY_DOMAIN ++ rs) sig then .ok peer else .error .badSignature

/-- `NoiseHandshakePayload::decode(message)` followed by `parse_and_verify_peer_id`, as in `handshake()`. -/
def parseAndVerify (c : Crypto) (payload : Bytes) (remoteStatic : Bytes) : Except NegErr PeerId :=
  match NoisePayload.decode payload with
  | none => .error .parse
  | some p => checkPayload c p remoteStatic

/-- The test after `noise::handshake` in `negotiate_connection`:
`if let Some(dialed_peer) = dialed_peer { if dialed_peer != peer { return Err(PeerIdMismatch) } }`. -/
def negotiateCheck (dialed : Option PeerId) (proven : PeerId) : Except NegErr PeerId :=
  match dialed with
  | some d => if d ≠ proven then .error .peerIdMismatch else .ok proven
  | none => .ok proven

/-! ## The representation of the expected id

`PeerId` is compared structurally (`#[derive(PartialEq)]` over the multihash: code and digest). An id handed to the
transport (`/p2p/<id>` of the dialed address, `PeerId::from_multihash` / `from_bytes` / `try_from_multiaddr`) may be in
either form `from_multihash` accepts: the form `from_public_key_protobuf` derives (identity multihash for encodings of
at most `MAX_INLINE_KEY_LENGTH` bytes, SHA2-256 above) or the SHA2-256 form ("Qm…") of ANY key encoding. Nothing in
`negotiate_connection` converts between the two: a SHA2-256 expectation of an inlined key never equals the id the
handshake derives — not even for the same key (observed on the real code: `PeerIdMismatch`). -/

/-- How an expected id was written down. -/
inductive IdForm where
  | derived   -- `PublicKey::to_peer_id()` / `from_public_key_protobuf`
  | sha256    -- `PeerId::from_multihash(Code::Sha2_256.digest(key_enc))`
  deriving DecidableEq, Repr

/-- `PeerId::from_multihash(Code::Sha2_256.digest(kb))`. -/
def hashedIdOfEncoding (c : Crypto) (kb : Bytes) : Option PeerId :=
  match Multihash.wrap SHA2_256_CODE (c.sha256 (toU8 kb)) with
  | .ok mh =>
    match PeerId.fromMultihash Consts.MAX_INLINE_KEY_LENGTH mh with
    | .ok p => some p
    | .error _ => none
  | .error _ => none

/-- The id of key encoding `kb` written in form `f`. -/
def expectedIdOf (c : Crypto) (f : IdForm) (kb : Bytes) : Option PeerId :=
  match f with
  | .derived => match peerIdOfEncoding c kb with
    | .ok p => some p
    | .error _ => none
  | .sha256 => hashedIdOfEncoding c kb

/-! ## Where `dialed` comes from: the address handed to `TcpTransport::open` / `dial` -/

/-- Host component of a dialed address: every family `multiaddr_to_socket_address` accepts. -/
inductive Host where
  | ip4 | ip6 | dns | dns4 | dns6
  deriving DecidableEq, Repr

/-- Component of a dialed multiaddress, as far as the TCP address parser tells them apart. -/
inductive AddrComp where
  | host (h : Host)
  | tcp
  | p2p (peer : PeerId)
  | other
  deriving DecidableEq, Repr

abbrev DialedAddr := List AddrComp

/-- `TcpAddress::multiaddr_to_socket_address` (`transport/common/listener.rs`): a host of any family,
`/tcp`, then nothing or `/p2p/<peer>` (what follows the `/p2p` is not looked at). `none` = `AddressError`.
For `/dns*/` hosts the socket address is resolved later (`AddressType::Dns`), for `/ip*/` it is immediate
(`AddressType::Socket`) — the optional peer is parsed the same way in both cases. -/
def parseDialed : DialedAddr → Option (Host × Option PeerId)
  | [.host h, .tcp] => some (h, none)
  | .host h :: .tcp :: .p2p p :: _ => some (h, some p)
  | _ => none

/-- The dialed-peer expectation of an address: its `/p2p` suffix, whatever the host component. -/
def expectedPeer (a : DialedAddr) : Option PeerId := (parseDialed a).bind (·.2)

/-- The address `TcpTransport::dial_peer` returns next to the connected stream: the multiaddress it was
given, unchanged (`Ok((address, stream))`) — also when it had to resolve a DNS name first. -/
def dialPeerAddress (a : DialedAddr) : DialedAddr := a

/-- The two entry points of the transport. -/
inductive Entry where
  | open | dial
  deriving DecidableEq, Repr

/-- The `dialed_peer` argument of `TcpConnection::open_connection` (handed on to
`negotiate_connection`): `TcpTransport::dial` parses the address before it calls `dial_peer`,
`TcpTransport::open` parses the address `dial_peer` RETURNED. -/
def entryDialedPeer : Entry → DialedAddr → Option PeerId
  | .dial, a => expectedPeer a
  | .open, a => expectedPeer (dialPeerAddress a)

/-- `negotiate_connection`'s dialed-peer test as reached through an entry point of the transport. -/
def transportCheck (e : Entry) (a : DialedAddr) (proven : PeerId) : Except NegErr PeerId :=
  negotiateCheck (entryDialedPeer e a) proven

/-! ## The address a negotiated connection reports (`Endpoint::address`, what the manager scores) -/

/-- `DnsType` (`transport/common/listener.rs`). -/
inductive DnsType where
  | dns | dns4 | dns6
  deriving DecidableEq, Repr

/-- `AddressType` as far as its shape goes: `Socket(addr)` (with the IP version of `addr`) or
`Dns { address, port, dns_type }`. -/
inductive AddrType where
  | socket (v6 : Bool)
  | dns (t : DnsType)
  deriving DecidableEq, Repr

/-- The `AddressType` `multiaddr_to_socket_address` builds from the host component. -/
def addressType : Host → AddrType
  | .ip4 => .socket false
  | .ip6 => .socket true
  | .dns => .dns .dns
  | .dns4 => .dns .dns4
  | .dns6 => .dns .dns6

/-- The host component `negotiate_connection` rebuilds from the `AddressType` it was handed
(`Protocol::from(address.ip())` for a socket address; `Protocol::Dns` / `Dns4` / `Dns6` by `dns_type`). Name and port
are copied verbatim in every arm and are not modelled. -/
def endpointHost : AddrType → Host
  | .socket false => .ip4
  | .socket true => .ip6
  | .dns .dns => .dns
  | .dns .dns4 => .dns4
  | .dns .dns6 => .dns6

/-- `Endpoint::address()` of the connection a dialer gets for the address handed to `TcpTransport::dial` / `open`
(`none`: the address does not parse, nothing is dialed): `/<host>/tcp/<port>`, never a `/p2p` suffix. -/
def endpointAddress (e : Entry) (a : DialedAddr) : Option DialedAddr :=
  let parsed := match e with
    | .dial => parseDialed a
    | .open => parseDialed (dialPeerAddress a)
  parsed.map fun hp => [.host (endpointHost (addressType hp.1)), .tcp]

/-- `AddressRecord::new(&peer, endpoint.address(), CONNECTION_ESTABLISHED)` in
`update_address_on_connection_established`: the record the manager scores for a dialer's connection to `peer`
(the endpoint address never ends in `/p2p`, so the peer is appended). -/
def scoredAddress (e : Entry) (a : DialedAddr) (peer : PeerId) : Option DialedAddr :=
  (endpointAddress e a).map (· ++ [.p2p peer])

/-! ## What an honest node sends (`NoiseContext::assemble`) -/

/-- `PublicKey::Ed25519(k).to_protobuf_encoding()` -/
def keyEncoding (key : Bytes) : Bytes := [0x08, 0x01, 0x12, key.length] ++ key

/-- prost encoding of `NoiseHandshakePayload { identity_key: Some(kb), identity_sig: Some(sig), .. }` -/
def encodePayload (kb sig : Bytes) : Bytes :=
  writeKey 1 2 ++ writeVarint kb.length ++ kb ++ (writeKey 2 2 ++ writeVarint sig.length ++ sig)

/-- The payload of identity key `k` for the Noise static public key `static`. -/
def honestPayload (c : Crypto) (k : Nat) (static : Bytes) : Bytes :=
  encodePayload (keyEncoding (c.pubOf k)) (c.sign k (STATIC_KEY_DOMAIN ++ static))

/-! ## The free instance (non-vacuity of `Laws`, and the symbolic mode of the driver) -/

/-- Public key of secret `k`: 31 zero bytes and `k`. -/
def freePub (k : Nat) : Bytes := List.replicate 31 0 ++ [k]

def freeSecret (pk : Bytes) : Option Nat :=
  match pk.drop 31 with
  | [k] => if pk.take 31 = List.replicate 31 0 then some k else none
  | _ => none

/-- A signature is the term `(k, m)` written as 64 "bytes" when `m` is a 56-byte message. -/
def freeSign (k : Nat) (m : Bytes) : Bytes := k :: m.length :: (m ++ List.replicate (62 - m.length) 0)

def freeCrypto : Crypto where
  validPoint := fun pk => (freeSecret pk).isSome
  verify := fun pk m s => match freeSecret pk with
    | some k => decide (s = freeSign k m)
    | none => false
  sha256 := fun _ => List.replicate 32 0
  pubOf := freePub
  sign := freeSign

end Litep2pVerif.Noise.Identity
