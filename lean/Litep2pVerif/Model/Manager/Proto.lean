import Litep2pVerif.Model.Manager.Dial
/-!
# Connection manager, part 4: the installed protocols (`src/transport/manager/{mod,handle}.rs`)

Dial requests also come from the protocols (`TransportService::dial` / `dial_address` →
`TransportManagerHandle::dial` / `dial_address`): after a few checks on the shared peer map the
request is queued as an `InnerTransportManagerCommand` on the command channel, `TransportManager::
next()` takes it from there and calls its own `dial` / `dial_address`. What happens to the dial is
told to the protocols as `InnerTransportEvent`s over one bounded channel per protocol:

* a queued `DialPeer` whose `dial` fails with anything but `AlreadyConnected` →
  `DialFailure{peer, []}` (commit `fix: transport manager reports a dial failure to the protocols
  when a queued DialPeer command fails`); a queued `DialAddress` whose `dial_address` fails with
  anything but `AlreadyConnected` → `DialFailure{peer, [address]}` for the peer of the trailing
  `/p2p` (commit `fix: transport manager reports a dial failure to the protocols when a queued
  DialAddress command fails`; the handle only queues addresses that end in `/p2p`);
* before `next()` returns `TransportEvent::DialFailure` (a failed single-address dial or negotiation,
  or a dialed connection the manager rejects) or `TransportEvent::OpenFailure` (the last transport
  failed to open) every protocol is sent `DialFailure{peer, addresses}`: `try_send`, and when that
  protocol's channel is full `send().await` — the manager's `next()` stays suspended inside that arm
  until the protocol makes room; the remaining protocols are notified and the event is returned
  only after that;
* `ConnectionEstablished{peer, connection}` is sent by the connection's `accept` future
  (`ProtocolSet::report_connection_established`), `next()` returns `ConnectionEstablished` when that
  future resolves. Scope: the accept future runs when every protocol channel has room (its blocking
  broadcast is C09's subject), otherwise the step is refused (`busy`).

The layer wraps the ghost state `G` of `Dial.lean` unchanged: commands run `gstep` with the
corresponding `In.dial` / `In.dialAddress`, so every theorem about `G` keeps holding for `PS.g`.
-/
namespace Litep2pVerif.Manager

/-- Ghost tag of a protocol notification: the connection id of the dial attempt (or connection) it
reports, or the number of the failed command. Not part of the real event. -/
inductive Src where
  | conn (c : ConnId)
  | cmd (k : Nat)
  deriving DecidableEq, Repr

inductive PKind where
  | est | df
  deriving DecidableEq, Repr

/-- `InnerTransportEvent::{ConnectionEstablished{peer, connection}, DialFailure{peer, addresses}}`. -/
structure PEv where
  kind : PKind
  peer : Peer
  conn : ConnId
  addrs : List Multiaddr
  src : Src
  deriving DecidableEq, Repr

/-- What sits in a protocol channel: a dial-related event or anything else (`pfill`). -/
inductive Slot where
  | ev (e : PEv)
  | fill
  deriving DecidableEq, Repr

def slotEv : Slot → Option PEv
  | .ev e => some e
  | .fill => none

/-- `InnerTransportManagerCommand`; `k` (number of the request) and `j` (requesting protocol) are ghost. -/
inductive Cmd where
  | dialPeer (k : Nat) (j : Nat) (p : Peer)
  | dialAddress (k : Nat) (j : Nat) (a : Multiaddr)
  deriving DecidableEq, Repr

def Cmd.k : Cmd → Nat
  | .dialPeer k _ _ => k
  | .dialAddress k _ _ => k

/-- What became of a queued request when the manager processed its command. -/
inductive Fate where
  /-- the manager started an attempt with this connection id (`open` / `dial` on the transport) -/
  | started (c : ConnId)
  /-- the queued dial failed: `DialFailure{peer, []}` (`DialPeer`) / `DialFailure{peer, [address]}`
  (`DialAddress`) goes to every protocol -/
  | failed
  /-- a dial of that peer is already in progress: nothing more is done -/
  | joined
  /-- `AlreadyConnected`: nothing is reported -/
  | connected
  /-- `DialAddress` failed for an address without trailing `/p2p`: only logged (unreachable: the
  handle does not queue such addresses) -/
  | silent
  deriving DecidableEq, Repr

structure Done where
  cmd : Cmd
  fate : Fate
  deriving DecidableEq, Repr

/-- Manager + protocols. `todo ≠ []` means: `next()` is suspended inside an arm, blocked on the
`send().await` to protocol `todo.head.1`; `todo` lists the sends still to do in order and `held`
the events `next()` returns once they are done. -/
structure PS where
  g : G
  cap : Nat := 0
  /-- the protocols in the order the manager walks over them (`HashMap` iteration order) -/
  order : List Nat := []
  chans : Nat → List Slot := fun _ => []
  cmds : List Cmd := []
  todo : List (Nat × PEv) := []
  held : List Ev := []
  -- ghost
  nextReq : Nat := 0
  /-- every notification that entered the channel of protocol `j` -/
  sent : Nat → List PEv := fun _ => []
  /-- every notification protocol `j` took out of its channel -/
  recv : Nat → List PEv := fun _ => []
  /-- every notification the manager / a connection decided to send to all protocols -/
  bcast : List PEv := []
  done : List Done := []

def PS.init (cfg : LimitsCfg) (cap : Nat) (order : List Nat) : PS :=
  { g := G.init cfg, cap := cap, order := order }

def pushAt {α : Type} (f : Nat → List α) (j : Nat) (x : α) : Nat → List α :=
  fun i => if i = j then f i ++ [x] else f i

/-- The notifications one manager step owes: each protocol in turn, event by event. -/
def sendsOf (order : List Nat) (evs : List PEv) : List (Nat × PEv) :=
  evs.flatMap (fun e => order.map (fun j => (j, e)))

/-- Do the sends in order (`try_send`) until one finds its channel full. -/
def runSends (cap : Nat) : (Nat → List Slot) → (Nat → List PEv) → List (Nat × PEv) →
    (Nat → List Slot) × (Nat → List PEv) × List (Nat × PEv)
  | ch, st, [] => (ch, st, [])
  | ch, st, (j, e) :: t =>
    if (ch j).length < cap then runSends cap (pushAt ch j (.ev e)) (pushAt st j e) t
    else (ch, st, (j, e) :: t)

/-- What is still to be sent to protocol `j`. -/
def pend (todo : List (Nat × PEv)) (j : Nat) : List PEv :=
  (todo.filter (fun x => x.1 == j)).map (·.2)

/-- The peer named in a `DialFailure` notification, per site. -/
def dfPeer (s : Mgr) : In → Peer
  | .evDialFailure _ a _ => (lastPeer a).getD 0
  | .evEstablished p _ _ => p
  | .evOpenFailure c _ => (alookup c s.pending).getD 0
  | _ => 0

/-- The addresses of an open-failure notification: those of the failing event only. -/
def dfAddrs : In → List Multiaddr
  | .evOpenFailure _ errs => errs.map (·.1)
  | _ => []

/-- The protocol notification that accompanies an event returned by `next()`. -/
def toPEv (s : Mgr) (i : In) : Ev → Option PEv
  | .established p ep => some ⟨.est, p, ep.conn, [], .conn ep.conn⟩
  | .closed _ _ => none
  | .dialFailure c a _ => some ⟨.df, dfPeer s i, 0, [a], .conn c⟩
  | .openFailure c _ => some ⟨.df, dfPeer s i, 0, dfAddrs i, .conn c⟩

def notes (s : Mgr) (i : In) (out : Out) : List PEv := out.events.filterMap (toPEv s i)

/-- Send `evs` to all protocols, then return `held`; or get suspended on a full channel. Returns
the events `next()` returns now. -/
def deliver (ps : PS) (g' : G) (evs : List PEv) (held : List Ev) : PS × List Ev :=
  match runSends ps.cap ps.chans ps.sent (sendsOf ps.order evs) with
  | (ch, st, []) => ({ ps with g := g', chans := ch, sent := st, bcast := ps.bcast ++ evs }, held)
  | (ch, st, x :: t) =>
    ({ ps with g := g', chans := ch, sent := st, bcast := ps.bcast ++ evs, todo := x :: t, held := held }, [])

def anyFull (ps : PS) : Bool := ps.order.any (fun j => decide (ps.cap ≤ (ps.chans j).length))

def isAcceptOk : In → Bool
  | .acceptResult _ ok => ok
  | _ => false

inductive HErr where
  | self | noaddr | connected | nopeerid
  deriving DecidableEq, Repr

/-- Result of a step of the layer. `busy`: the operation is impossible now (the manager is blocked,
or a connection cannot report itself because a channel is full) and nothing happened. -/
structure POut where
  out : Out := {}
  busy : Bool := false
  /-- immediate answer of `TransportManagerHandle::dial` / `dial_address` -/
  hres : Option (Option HErr) := none
  got : List Slot := []
  filled : Nat := 0
  deriving DecidableEq, Repr

/-- An application call or an item of the environment, as in `Dial.lean`. -/
def pbase (ps : PS) (i : In) : PS × POut :=
  if !ps.todo.isEmpty then (ps, { busy := true })
  else if isAcceptOk i && anyFull ps then (ps, { busy := true })
  else
    ((deliver ps (gstep ps.g i).1 (notes ps.g.m i (gstep ps.g i).2) (gstep ps.g i).2.events).1,
     { out := { (gstep ps.g i).2 with
                events := (deliver ps (gstep ps.g i).1 (notes ps.g.m i (gstep ps.g i).2) (gstep ps.g i).2.events).2 } })

/-- `TransportManagerHandle::dial`. -/
def handleDial (ps : PS) (j : Nat) (p : Peer) : PS × POut :=
  if p = localPeer then (ps, { hres := some (some .self) })
  else
    match (stateOf ps.g.m p).canDial with
    | .alreadyConnected => (ps, { hres := some (some .connected) })
    | .dialingInProgress => (ps, { hres := some none })
    | .ok =>
      if (ps.g.m.peers p).addresses.isEmpty then (ps, { hres := some (some .noaddr) })
      else
        ({ ps with cmds := ps.cmds ++ [.dialPeer ps.nextReq j p], nextReq := ps.nextReq + 1 },
          { hres := some none })

/-- `TransportManagerHandle::dial_address`: the address must end in `/p2p/<peer>`. -/
def handleDialAddress (ps : PS) (j : Nat) (a : Multiaddr) : PS × POut :=
  if (lastPeer a).isNone then (ps, { hres := some (some .nopeerid) })
  else
    ({ ps with cmds := ps.cmds ++ [.dialAddress ps.nextReq j a], nextReq := ps.nextReq + 1 },
      { hres := some none })

/-- Connection id of the attempt a `dial` / `dial_address` call started. -/
def startedConn (out : Out) : Option ConnId :=
  out.calls.findSome? (fun c => match c with
    | .dial c _ => some c
    | .open c _ => some c
    | _ => none)

/-- The `DialPeer` arm of `next()` after `self.dial(peer)` returned `r`. -/
def afterDialPeer (ps : PS) (k j : Nat) (p : Peer) (rest : List Cmd) (r : G × Out) : PS × List Ev :=
  match r.2.res with
  | .err .alreadyConnected =>
    ({ ps with g := r.1, cmds := rest, done := ps.done ++ [⟨.dialPeer k j p, .connected⟩] }, [])
  | .err _ =>
    deliver { ps with cmds := rest, done := ps.done ++ [⟨.dialPeer k j p, .failed⟩] } r.1
      [⟨.df, p, 0, [], .cmd k⟩] []
  | _ =>
    match startedConn r.2 with
    | some c => ({ ps with g := r.1, cmds := rest, done := ps.done ++ [⟨.dialPeer k j p, .started c⟩] }, [])
    | none => ({ ps with g := r.1, cmds := rest, done := ps.done ++ [⟨.dialPeer k j p, .joined⟩] }, [])

/-- The `DialAddress` arm of `next()` after `self.dial_address(address)` returned `r`. -/
def afterDialAddress (ps : PS) (k j : Nat) (a : Multiaddr) (rest : List Cmd) (r : G × Out) : PS × List Ev :=
  match r.2.res with
  | .err .alreadyConnected =>
    ({ ps with g := r.1, cmds := rest, done := ps.done ++ [⟨.dialAddress k j a, .connected⟩] }, [])
  | .err _ =>
    match lastPeer a with
    | some p =>
      deliver { ps with cmds := rest, done := ps.done ++ [⟨.dialAddress k j a, .failed⟩] } r.1
        [⟨.df, p, 0, [a], .cmd k⟩] []
    | none => ({ ps with g := r.1, cmds := rest, done := ps.done ++ [⟨.dialAddress k j a, .silent⟩] }, [])
  | _ =>
    match startedConn r.2 with
    | some c => ({ ps with g := r.1, cmds := rest, done := ps.done ++ [⟨.dialAddress k j a, .started c⟩] }, [])
    | none => ({ ps with g := r.1, cmds := rest, done := ps.done ++ [⟨.dialAddress k j a, .joined⟩] }, [])

/-- `next()` takes the next command from the command channel. -/
def runCmd (ps : PS) (choice : List Multiaddr) : PS × POut :=
  if !ps.todo.isEmpty then (ps, { busy := true })
  else
    match ps.cmds with
    | [] => (ps, { busy := true })
    | .dialPeer k j p :: rest =>
      ((afterDialPeer ps k j p rest (gstep ps.g (.dial p choice))).1,
        { out := { (gstep ps.g (.dial p choice)).2 with
                   events := (afterDialPeer ps k j p rest (gstep ps.g (.dial p choice))).2 } })
    | .dialAddress k j a :: rest =>
      ((afterDialAddress ps k j a rest (gstep ps.g (.dialAddress a))).1,
        { out := { (gstep ps.g (.dialAddress a)).2 with
                   events := (afterDialAddress ps k j a rest (gstep ps.g (.dialAddress a))).2 } })

/-- The blocked `send().await` is polled again: with room in the channel it completes and the
manager goes on with the remaining sends. -/
def resume (ps : PS) : PS × POut :=
  match ps.todo with
  | [] => (ps, { busy := true })
  | (j, e) :: t =>
    if (ps.chans j).length < ps.cap then
      match runSends ps.cap (pushAt ps.chans j (.ev e)) (pushAt ps.sent j e) t with
      | (ch, st, []) =>
        ({ ps with chans := ch, sent := st, todo := [], held := [] }, { out := { events := ps.held } })
      | (ch, st, x :: t') => ({ ps with chans := ch, sent := st, todo := x :: t' }, {})
    else (ps, { busy := true })

/-- `pfill j`: something else fills the channel of protocol `j` up. -/
def pfill (ps : PS) (j : Nat) : PS × POut :=
  ({ ps with chans := fun i => if i = j then ps.chans i ++ List.replicate (ps.cap - (ps.chans j).length) .fill
                               else ps.chans i },
    { filled := ps.cap - (ps.chans j).length })

/-- `pdrain j`: protocol `j` takes everything out of its channel. -/
def pdrain (ps : PS) (j : Nat) : PS × POut :=
  ({ ps with chans := fun i => if i = j then [] else ps.chans i,
             recv := fun i => if i = j then ps.recv i ++ (ps.chans j).filterMap slotEv else ps.recv i },
    { got := ps.chans j })

inductive PIn where
  | base (i : In)
  | pdial (j : Nat) (p : Peer)
  | pdialAddr (j : Nat) (a : Multiaddr)
  | pfill (j : Nat)
  | pdrain (j : Nat)
  /-- internal: the manager takes the next queued command -/
  | runCmd (choice : List Multiaddr)
  /-- internal: the blocked send is polled again -/
  | resume
  deriving DecidableEq, Repr

def pstep (ps : PS) : PIn → PS × POut
  | .base i => pbase ps i
  | .pdial j p => handleDial ps j p
  | .pdialAddr j a => handleDialAddress ps j a
  | .pfill j => pfill ps j
  | .pdrain j => pdrain ps j
  | .runCmd ch => runCmd ps ch
  | .resume => resume ps

/-- The contract of the environment, as in `Dial.lean`; everything of the protocols is allowed at any
time (a protocol index must name an installed protocol). -/
def pallowed (ps : PS) : PIn → Bool
  | .base i => allowed ps.g i
  | .pdial j _ => ps.order.contains j
  | .pdialAddr j _ => ps.order.contains j
  | .pfill j => ps.order.contains j
  | .pdrain j => ps.order.contains j
  | .runCmd _ => true
  | .resume => true

/-- States reachable when the environment keeps its contract, from an initial state with any limit
configuration, any channel capacity and any order of any number of protocols. -/
inductive PReach : PS → Prop where
  | init (cfg : LimitsCfg) (cap : Nat) (order : List Nat) : order.Nodup → PReach (PS.init cfg cap order)
  | step {ps : PS} (i : PIn) : PReach ps → pallowed ps i = true → PReach (pstep ps i).1

def runP (ps : PS) : List PIn → PS
  | [] => ps
  | i :: t => runP (pstep ps i).1 t

/-! ### Protocol-level ledger -/

/-- Number of reports in a notification that conclude attempt `a`, as `reports` in `Dial.lean`. -/
def preports (a : Attempt) (e : PEv) : Nat :=
  match e.kind, e.src with
  | .est, .conn c => if c = a.carrier then 1 else 0
  | .df, .conn c => if c = a.conn then 1 else 0
  | _, _ => 0

/-- Everything protocol `j` was sent or is still being sent (the blocked and the remaining sends of
a suspended manager step). -/
def pall (ps : PS) (j : Nat) : List PEv := ps.sent j ++ pend ps.todo j

/-- Reports concluding `a` that protocol `j` was or is being sent. -/
def poutcome (ps : PS) (j : Nat) (a : Attempt) : Nat := ((pall ps j).map (preports a)).sum

/-- Failure reports for request number `k`. -/
def pfailures (ps : PS) (j : Nat) (k : Nat) : List PEv := (pall ps j).filter (fun e => e.src == .cmd k)

end Litep2pVerif.Manager
