import Litep2pVerif.Model.Manager.PeerState
/-!
# Connection manager, part 2: `ConnectionLimits` (`src/transport/manager/limits.rs`)

The two `HashSet<ConnectionId>` are lists with set-insertion (no duplicates are ever created);
`len()` is `length`.
-/
namespace Litep2pVerif.Manager

/-- `ConnectionLimitsConfig`. -/
structure LimitsCfg where
  maxIn : Option Nat := none
  maxOut : Option Nat := none
  deriving DecidableEq, Repr, Inhabited

/-- `ConnectionLimits`. -/
structure Limits where
  cfg : LimitsCfg := {}
  incoming : List ConnId := []
  outgoing : List ConnId := []
  deriving DecidableEq, Repr, Inhabited

/-- `HashSet::insert`. -/
def setInsert (l : List ConnId) (c : ConnId) : List ConnId := if c ∈ l then l else c :: l
/-- `HashSet::remove`. -/
def setRemove (l : List ConnId) (c : ConnId) : List ConnId := l.filter (· ≠ c)

namespace Limits

/-- `ConnectionLimits::on_dial_address`: `none` = `Err(MaxOutgoingConnectionsExceeded)`,
`some none` = `Ok(usize::MAX)`, `some (some k)` = `Ok(k)`. -/
def onDialAddress (l : Limits) : Option (Option Nat) :=
  match l.cfg.maxOut with
  | some m => if l.outgoing.length ≥ m then none else some (some (m - l.outgoing.length))
  | none => some none

/-- `ConnectionLimits::on_incoming`; `true` = `Ok`. -/
def onIncoming (l : Limits) : Bool :=
  match l.cfg.maxIn with
  | some m => !(l.incoming.length ≥ m)
  | none => true

/-- `ConnectionLimits::can_accept_connection`; `true` = `Ok`. -/
def canAccept (l : Limits) (isListener : Bool) : Bool :=
  if isListener then
    match l.cfg.maxIn with
    | some m => !(l.incoming.length ≥ m)
    | none => true
  else
    match l.cfg.maxOut with
    | some m => !(l.outgoing.length ≥ m)
    | none => true

/-- `ConnectionLimits::accept_established_connection`. -/
def accept (l : Limits) (c : ConnId) (isListener : Bool) : Limits :=
  if isListener then
    if l.cfg.maxIn.isSome then { l with incoming := setInsert l.incoming c } else l
  else
    if l.cfg.maxOut.isSome then { l with outgoing := setInsert l.outgoing c } else l

/-- `ConnectionLimits::on_connection_closed`. -/
def onConnectionClosed (l : Limits) (c : ConnId) : Limits :=
  { l with incoming := setRemove l.incoming c, outgoing := setRemove l.outgoing c }

end Limits
end Litep2pVerif.Manager
