import Litep2pVerif.Model.Manager.Dial
/-!
# Connection manager, part 5: the `Litep2p` facade (`src/lib.rs`)

`Litep2p::dial` / `dial_address` forward to `TransportManager::dial` / `dial_address` and return
their result unchanged; `Litep2p::next_event` loops over `TransportManager::next()` and translates
what it gets into a `Litep2pEvent`:

```text
loop { match self.transport_manager.next().await? {
    TransportEvent::ConnectionEstablished { peer, endpoint, .. } => return Some(Litep2pEvent::ConnectionEstablished { peer, endpoint }),
    TransportEvent::ConnectionClosed { peer, connection_id }    => return Some(Litep2pEvent::ConnectionClosed { peer, connection_id }),
    TransportEvent::DialFailure { address, error, .. }          => return Some(Litep2pEvent::DialFailure { address, error }),
    TransportEvent::OpenFailure { errors, .. }                  => return Some(Litep2pEvent::ListDialFailures { errors }),
    _ => {}
} }
```

`facadeEvent` is that `match`, on every `TransportEvent` shape (`TEv`): `some u` is `return Some(u)`,
`none` is the `_ => {}` arm (the event is dropped and the loop polls the manager again). The arm is
unconditional in every constructor: in particular an `OpenFailure` with an EMPTY error list (what
`TcpTransport` reports when the overall dial deadline fires while every attempt is still
outstanding) is a `ListDialFailures { errors: [] }`.
-/
namespace Litep2pVerif.Manager

/-- `Litep2pEvent`. A failure report carries no connection id. -/
inductive UEv where
  | established (p : Peer) (ep : Endpoint)
  | closed (p : Peer) (c : ConnId)
  | dialFailure (a : Multiaddr) (e : DialErr)
  | listDialFailures (errs : List (Multiaddr × DialErr))
  deriving DecidableEq, Repr

/-- Every shape of `TransportEvent` (`src/transport/mod.rs`). -/
inductive TEv where
  | established (p : Peer) (ep : Endpoint)
  | pendingInbound (c : ConnId)
  | opened (c : ConnId) (a : Multiaddr) (errs : List (Multiaddr × DialErr))
  | closed (p : Peer) (c : ConnId)
  | dialFailure (c : ConnId) (a : Multiaddr) (e : DialErr)
  | openFailure (c : ConnId) (errs : List (Multiaddr × DialErr))
  deriving DecidableEq, Repr

/-- The events `TransportManager::next()` returns (its four `return Some(..)` sites) as
`TransportEvent`s. -/
def Ev.toT : Ev → TEv
  | .established p ep => .established p ep
  | .closed p c => .closed p c
  | .dialFailure c a e => .dialFailure c a e
  | .openFailure c errs => .openFailure c errs

/-- The `match` of `Litep2p::next_event`. -/
def facadeEvent : TEv → Option UEv
  | .established p ep => some (.established p ep)
  | .closed p c => some (.closed p c)
  | .dialFailure _ a e => some (.dialFailure a e)
  | .openFailure _ errs => some (.listDialFailures errs)
  | .pendingInbound _ => none
  | .opened _ _ _ => none

/-- `Litep2p::next_event` called until the manager has nothing more: the user events for the events
the manager returned, in order. -/
def facadeEvents (l : List Ev) : List UEv := l.filterMap (fun e => facadeEvent e.toT)

/-- `Litep2p::dial`. -/
def facadeDial (s : Mgr) (peer : Peer) (choice : List Multiaddr) : Mgr × Out := dial s peer choice

/-- `Litep2p::dial_address`. -/
def facadeDialAddress (s : Mgr) (a : Multiaddr) : Mgr × Out := dialAddress s a

/-- One of the three reports that conclude a dial (`ConnectionClosed` is not one). -/
def UEv.isDialOutcome : UEv → Bool
  | .established _ _ => true
  | .dialFailure _ _ => true
  | .listDialFailures _ => true
  | .closed _ _ => false

/-- The user event carries what the manager's report carried (peer and endpoint / address and
error / the error list), only the connection id of a failure is gone. -/
def UEv.carries : UEv → Ev → Bool
  | .established p ep, .established p' ep' => p == p' && ep == ep'
  | .closed p c, .closed p' c' => p == p' && c == c'
  | .dialFailure a e, .dialFailure _ a' e' => a == a' && e == e'
  | .listDialFailures errs, .openFailure _ errs' => errs == errs'
  | _, _ => false

/-- The manager reports that conclude attempt `a` (see `reports`), in order. -/
def concluding (g : G) (a : Attempt) : List Ev := g.log.filter (fun e => reports a e == 1)

/-- Number of user events at the facade that conclude attempt `a`. -/
def uoutcome (g : G) (a : Attempt) : Nat := (facadeEvents (concluding g a)).length

end Litep2pVerif.Manager
