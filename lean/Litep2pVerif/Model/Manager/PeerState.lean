/-!
# Connection manager, part 1: multiaddress shapes and the per-peer state machine

Mirrors `src/transport/manager/peer_state.rs` (the `PeerState` enum and all its transition
functions, literally) and the small part of the multiaddress grammar the manager looks at.
Core Lean only (no imports) so that the model driver links.
-/
namespace Litep2pVerif.Manager

/-- One multiaddress component. Only the kinds the manager and the TCP address parser distinguish
are separate constructors; everything else (`/p2p-circuit`, `/tls`, `/http`, …) is `other`. The
payload of a `/p2p` component is always a valid peer id (the `multiaddr` crate refuses anything
else when the address is parsed; agreement of the two peer-id types is C18). -/
inductive Proto where
  | ip4 (n : Nat) | ip6 (n : Nat) | dns (n : Nat) | dns4 (n : Nat) | dns6 (n : Nat)
  | tcp (port : Nat) | udp (port : Nat) | ws | wss | quicV1
  | p2p (peer : Nat) | other (n : Nat)
  deriving DecidableEq, Repr, Inhabited

abbrev Multiaddr := List Proto
abbrev Peer := Nat
abbrev ConnId := Nat

/-- `PeerId::try_from_multiaddr`: the peer of the LAST component if it is `/p2p`. -/
def lastPeer (a : Multiaddr) : Option Peer :=
  match a.getLast? with
  | some (.p2p p) => some p
  | _ => none

def Proto.isIpOrDns : Proto → Bool
  | .ip4 _ | .ip6 _ | .dns _ | .dns4 _ | .dns6 _ => true
  | _ => false

/-- `multiaddr_to_socket_address(.., Tcp)` of `transport/common/listener.rs`: `ip|dns`, `tcp`, then
either nothing or `/p2p` (whatever follows the first `/p2p` is ignored). Returns the peer the TCP
transport will verify in the handshake. `none` = `Err(AddressError)`. -/
def tcpParse (a : Multiaddr) : Option (Option Peer) :=
  match a with
  | first :: .tcp _ :: rest =>
    if first.isIpOrDns then
      match rest with
      | [] => some none
      | .p2p p :: _ => some (some p)
      | _ => none
    else none
  | _ => none

/-- `SupportedTransport` (only TCP is compiled in with the default feature set). -/
inductive Transport where
  | tcp
  deriving DecidableEq, Repr, Inhabited

/-- `ConnectionRecord`. -/
structure ConnRecord where
  addr : Multiaddr
  conn : ConnId
  deriving DecidableEq, Repr, Inhabited

/-- `ConnectionRecord::ensure_peer_id`. -/
def ensurePeerId (peer : Peer) (a : Multiaddr) : Multiaddr :=
  match a.getLast? with
  | some (.p2p q) => if q ≠ peer then a.dropLast ++ [.p2p peer] else a
  | _ => a ++ [.p2p peer]

/-- `ConnectionRecord::new` / `from_endpoint`. -/
def ConnRecord.new (peer : Peer) (a : Multiaddr) (c : ConnId) : ConnRecord :=
  ⟨ensurePeerId peer a, c⟩

/-- `SecondaryOrDialing`. -/
inductive Secondary where
  | secondary (r : ConnRecord)
  | dialing (r : ConnRecord)
  deriving DecidableEq, Repr

/-- `PeerState`. `HashSet`s are lists (their elements are never observed in an order). -/
inductive PeerState where
  | connected (record : ConnRecord) (secondary : Option Secondary)
  | opening (addresses : List Multiaddr) (conn : ConnId) (transports : List Transport)
  | dialing (record : ConnRecord)
  | disconnected (dialRecord : Option ConnRecord)
  deriving DecidableEq, Repr

instance : Inhabited PeerState := ⟨.disconnected none⟩

/-- `StateDialResult`. -/
inductive DialResult where
  | alreadyConnected | dialingInProgress | ok
  deriving DecidableEq, Repr

namespace PeerState

/-- `PeerState::can_dial`. -/
def canDial : PeerState → DialResult
  | .connected _ _ => .alreadyConnected
  | .dialing _ => .dialingInProgress
  | .opening _ _ _ => .dialingInProgress
  | .disconnected (some _) => .dialingInProgress
  | .disconnected none => .ok

/-- `PeerState::dial_single_address`. -/
def dialSingleAddress (s : PeerState) (r : ConnRecord) : PeerState × DialResult :=
  match s.canDial with
  | .ok => (.dialing r, .ok)
  | reason => (s, reason)

/-- `PeerState::dial_addresses`. -/
def dialAddresses (s : PeerState) (c : ConnId) (addresses : List Multiaddr)
    (transports : List Transport) : PeerState × DialResult :=
  match s.canDial with
  | .ok => (.opening addresses c transports, .ok)
  | reason => (s, reason)

/-- `PeerState::on_dial_failure`. -/
def onDialFailure (s : PeerState) (c : ConnId) : PeerState × Bool :=
  match s with
  | .dialing d => if d.conn = c then (.disconnected none, true) else (s, false)
  | .connected r (some (.dialing d)) => if d.conn = c then (.connected r none, true) else (s, false)
  | .disconnected (some d) => if d.conn = c then (.disconnected none, true) else (s, false)
  | _ => (s, false)

/-- `PeerState::on_connection_established`; `true` = accept. -/
def onConnectionEstablished (s : PeerState) (x : ConnRecord) : PeerState × Bool :=
  match s with
  | .connected r (some (.dialing d)) =>
    if d.conn = x.conn then (.connected r (some (.secondary x)), true) else (s, false)
  | .connected r none => (.connected r (some (.secondary x)), true)
  | .connected _ (some (.secondary _)) => (s, false)
  | .dialing d =>
    if d.conn = x.conn then (.connected x none, true) else (.connected x (some (.dialing d)), true)
  | .disconnected (some d) =>
    if d.conn = x.conn then (.connected x none, true) else (.connected x (some (.dialing d)), true)
  | .disconnected none => (.connected x none, true)
  | .opening _ _ _ => (.connected x none, true)

/-- `PeerState::on_connection_closed`; `true` = the peer is now disconnected. -/
def onConnectionClosed (s : PeerState) (c : ConnId) : PeerState × Bool :=
  match s with
  | .connected r sec =>
    if r.conn = c then
      match sec with
      | some (.secondary x) => (.connected x none, false)
      | some (.dialing d) => (.disconnected (some d), true)
      | none => (.disconnected none, true)
    else
      match sec with
      | some (.secondary x) => if x.conn = c then (.connected r none, false) else (s, false)
      | _ => (s, false)
  | _ => (s, false)

/-- `PeerState::on_open_failure`; `true` = that was the last transport. -/
def onOpenFailure (s : PeerState) (t : Transport) : PeerState × Bool :=
  match s with
  | .opening as c ts =>
    let ts' := ts.filter (· ≠ t)
    if ts'.isEmpty then (.disconnected none, true) else (.opening as c ts', false)
  | _ => (s, false)

/-- `PeerState::on_connection_opened` (a mismatching id or address is only logged). -/
def onConnectionOpened (s : PeerState) (r : ConnRecord) : PeerState × Bool :=
  match s with
  | .opening _ _ _ => (.dialing r, true)
  | _ => (s, false)

/-- Ids of the established connections the state keeps (at most two slots). -/
def slots : PeerState → List ConnId
  | .connected r (some (.secondary x)) => [r.conn, x.conn]
  | .connected r _ => [r.conn]
  | _ => []

/-- The state carries the dial record of connection `c` in its negotiation phase. -/
def holdsDial (s : PeerState) (c : ConnId) : Bool :=
  match s with
  | .dialing d => d.conn == c
  | .connected _ (some (.dialing d)) => d.conn == c
  | .disconnected (some d) => d.conn == c
  | _ => false

/-- The state is `Opening` for connection `c`. -/
def holdsOpen (s : PeerState) (c : ConnId) : Bool :=
  match s with
  | .opening _ c' _ => c' == c
  | _ => false

end PeerState
end Litep2pVerif.Manager
