import Litep2pVerif.Model.Manager.Limits
/-!
# Connection manager, part 3: `TransportManager` bookkeeping (`src/transport/manager/mod.rs`)

One step per API call (`dial`, `dial_address`, `add_known_address`) and per item the manager's
`next()` loop consumes (a `TransportEvent` of the installed transport, a `ConnectionClosed`
notification of a connection, a resolved `pending_accept` future). Each step returns the calls
made on the transport and the events returned to the caller of `next()` (`Litep2p` turns them into
`ConnectionEstablished` / `ConnectionClosed` / `DialFailure` / `ListDialFailures`).

Scope of the mirror: default feature set (TCP is the only `SupportedTransport`, so
`supported_transports_addresses` maps every address to TCP); the transport's `dial`/`open`/
`negotiate` calls return `Ok` (see `Props/C05.lean` for why that is so for `TcpTransport`); the
address store is exact below its capacity of 64 addresses per peer (eviction is C10's subject).
`HashMap<PeerId, PeerContext>` with `entry(..).or_default()` everywhere is a total function with
default value.

The second half of the file is the *ghost* layer: obligations of the environment, live
connections, the ledger of accepted dial attempts and the log of reported events, all computed
from inputs and outputs only (the Python oracle computes the same from the real observations).
-/
namespace Litep2pVerif.Manager

/-! ## Association lists (`HashMap<ConnectionId, _>`) -/

def alookup {β : Type} (k : Nat) : List (Nat × β) → Option β
  | [] => none
  | (k', v) :: t => if k' = k then some v else alookup k t

def ainsert {β : Type} (k : Nat) (v : β) : List (Nat × β) → List (Nat × β)
  | [] => [(k, v)]
  | (k', v') :: t => if k' = k then (k, v) :: t else (k', v') :: ainsert k v t

def aerase {β : Type} (k : Nat) : List (Nat × β) → List (Nat × β)
  | [] => []
  | (k', v') :: t => if k' = k then aerase k t else (k', v') :: aerase k t

/-! ## Address store (scores only matter for the choice of addresses in `dial`) -/

/-- Kind of a `DialError`: only `AddressError` is scored differently. -/
inductive DialErr where
  | timeout | address | negotiation
  deriving DecidableEq, Repr, Inhabited

structure AddrRec where
  addr : Multiaddr
  score : Int
  deriving DecidableEq, Repr

def scoreEstablished : Int := 100
def scoreFailure : Int := -100
def scoreAddressFailure : Int := -2147483648

/-- `AddressStore::error_score`. -/
def errorScore : DialErr → Int
  | .address => scoreAddressFailure
  | _ => scoreFailure

/-- `is_global_multiaddr` on the addresses the harness uses: `ip4 n` with `n ≥ 256` stands for a
public address, smaller `n` for `10.0.0.n` (`0.0.0.0` for 0), `n ≥ 99990` for the boundary targets
(99999 broadcast, 99998 loopback, 99996 link-local: not global; 99997 = the multicast address 224.0.0.1,
which `IpNetwork::is_global` counts as global — observed on the real code), `ip6 n` for a unique-local
address, DNS names count as public. -/
def isGlobal : Multiaddr → Bool
  | [] => false
  | .ip4 n :: _ => decide ((256 ≤ n ∧ n < 99990) ∨ n = 99997)
  | .ip6 _ :: _ => false
  | .dns _ :: _ => true
  | .dns4 _ :: _ => true
  | .dns6 _ :: _ => true
  | _ :: t => isGlobal t

/-- `AddressStore::insert`. -/
def storeInsert (st : List AddrRec) (a : Multiaddr) (score : Int) : List AddrRec :=
  if st.any (fun r => r.addr == a) then
    if score ≠ 0 then st.map (fun r => if r.addr = a then { r with score := score } else r) else st
  else st ++ [⟨a, if isGlobal a then score + 1 else score⟩]

def insertByScore (r : AddrRec) : List AddrRec → List AddrRec
  | [] => [r]
  | x :: t => if x.score ≤ r.score then r :: x :: t else x :: insertByScore r t

/-- Stable sort by descending score. -/
def sortByScore (l : List AddrRec) : List AddrRec := l.foldr insertByScore []

/-- `AddressStore::addresses(limit)` is determined only up to the order of equal scores (hash-map
iteration order): the model accepts the implementation's `choice` if it is a legal answer and
otherwise falls back to insertion order. `cap = none` is `usize::MAX`. -/
def validChoice (st : List AddrRec) (cap : Option Nat) (choice : List Multiaddr) : Bool :=
  decide choice.Nodup &&
  choice.all (fun a => st.any (fun r => r.addr == a)) &&
  choice.length == min (cap.getD st.length) st.length &&
  st.all (fun r => st.all (fun r' =>
    !(choice.contains r.addr && !choice.contains r'.addr) || decide (r'.score ≤ r.score)))

def selectAddrs (st : List AddrRec) (cap : Option Nat) (choice : List Multiaddr) : List Multiaddr :=
  if validChoice st cap choice then choice
  else ((sortByScore st).map (·.addr)).take (cap.getD st.length)

/-- `AddressRecord::new`: append `/p2p/peer` unless the address already ends in a `/p2p`. -/
def addrNew (peer : Peer) (a : Multiaddr) : Multiaddr :=
  match lastPeer a with
  | some _ => a
  | none => a ++ [.p2p peer]

/-! ## Manager state, inputs, outputs -/

/-- `PeerContext`. -/
structure PeerCtx where
  state : PeerState := .disconnected none
  addresses : List AddrRec := []

/-- `Endpoint`. -/
structure Endpoint where
  isListener : Bool
  addr : Multiaddr
  conn : ConnId
  deriving DecidableEq, Repr, Inhabited

/-- Calls on the `Transport` trait. -/
inductive Call where
  | dial (c : ConnId) (a : Multiaddr)
  | open (c : ConnId) (as : List Multiaddr)
  | negotiate (c : ConnId)
  | cancel (c : ConnId)
  | accept (c : ConnId)
  | reject (c : ConnId)
  | acceptPending (c : ConnId)
  | rejectPending (c : ConnId)
  deriving DecidableEq, Repr

/-- Events returned by `TransportManager::next()`. -/
inductive Ev where
  | established (p : Peer) (ep : Endpoint)
  | closed (p : Peer) (c : ConnId)
  | dialFailure (c : ConnId) (a : Multiaddr) (e : DialErr)
  | openFailure (c : ConnId) (errs : List (Multiaddr × DialErr))
  deriving DecidableEq, Repr

inductive ErrKind where
  | connectionLimit | triedToDialSelf | alreadyConnected | noAddressAvailable | peerIdMissing
  | transportNotSupported
  deriving DecidableEq, Repr

/-- Return value of an API call. -/
inductive Res where
  | none | ok | err (e : ErrKind) | count (n : Nat) | conn (c : ConnId)
  deriving DecidableEq, Repr

structure Out where
  calls : List Call := []
  events : List Ev := []
  res : Res := .none
  /-- a reachable `debug_assert!(false)` -/
  panic : Bool := false
  deriving DecidableEq, Repr

/-- `TransportManager` (the fields the dial and limit logic uses). -/
structure Mgr where
  limits : Limits := {}
  peers : Peer → PeerCtx := fun _ => {}
  pending : List (ConnId × Peer) := []
  openingErrors : List (ConnId × List (Multiaddr × DialErr)) := []
  pendingAccept : List (Peer × Endpoint) := []
  nextConn : Nat := 0

def localPeer : Peer := 0

/-- The listen address the harness registers (`register_listen_address` stores it with and without
the local `/p2p`). -/
def listenAddrs : List Multiaddr :=
  [[.ip4 99, .tcp 99], [.ip4 99, .tcp 99, .p2p localPeer]]

def stateOf (s : Mgr) (p : Peer) : PeerState := (s.peers p).state

def setState (s : Mgr) (p : Peer) (st : PeerState) : Mgr :=
  { s with peers := fun q => if q = p then { s.peers p with state := st } else s.peers q }

def updAddr (s : Mgr) (p : Peer) (a : Multiaddr) (score : Int) : Mgr :=
  { s with peers := fun q =>
      if q = p then { s.peers p with addresses := storeInsert (s.peers p).addresses a score }
      else s.peers q }

/-- `update_address_on_dial_failure`. -/
def updAddrFail (s : Mgr) (a : Multiaddr) (e : DialErr) : Mgr :=
  match lastPeer a with
  | some p => updAddr s p a (errorScore e)
  | none => s

def updAddrFails (s : Mgr) : List (Multiaddr × DialErr) → Mgr
  | [] => s
  | (a, e) :: t => updAddrFails (updAddrFail s a e) t

/-- Inputs of the manager. `choice` is the address store's answer (see `selectAddrs`);
`acceptOk` says whether `Transport::accept` returns `Ok`. -/
inductive In where
  | dial (p : Peer) (choice : List Multiaddr)
  | dialAddress (a : Multiaddr)
  | addKnown (p : Peer) (as : List Multiaddr)
  | alloc
  | evEstablished (p : Peer) (ep : Endpoint) (acceptOk : Bool)
  | evOpened (c : ConnId) (a : Multiaddr) (errs : List (Multiaddr × DialErr))
  | evOpenFailure (c : ConnId) (errs : List (Multiaddr × DialErr))
  | evDialFailure (c : ConnId) (a : Multiaddr) (e : DialErr)
  | evPendingInbound (c : ConnId)
  | evClosed (p : Peer) (c : ConnId)
  | acceptResult (c : ConnId) (ok : Bool)
  deriving DecidableEq, Repr

/-! ## API calls -/

/-- `TransportManager::dial`. -/
def dial (s : Mgr) (peer : Peer) (choice : List Multiaddr) : Mgr × Out :=
  match s.limits.onDialAddress with
  | none => (s, { res := .err .connectionLimit })
  | some cap =>
    if peer = localPeer then (s, { res := .err .triedToDialSelf })
    else
      match (stateOf s peer).canDial with
      | .alreadyConnected => (s, { res := .err .alreadyConnected })
      | .dialingInProgress => (s, { res := .ok })
      | .ok =>
        if (selectAddrs (s.peers peer).addresses cap choice).isEmpty then
          (s, { res := .err .noAddressAvailable })
        else
          ({ setState s peer
                ((stateOf s peer).dialAddresses s.nextConn
                  (selectAddrs (s.peers peer).addresses cap choice) [.tcp]).1 with
              nextConn := s.nextConn + 1,
              pending := ainsert s.nextConn peer s.pending },
            { calls := [.open s.nextConn (selectAddrs (s.peers peer).addresses cap choice)],
              res := .ok })

/-- The transport `dial_address` selects for an address, `none` = `TransportNotSupported`
(default feature set: no `/ws`, no `/udp/../quic-v1`). After the fix for finding (f) nothing may
follow the `/p2p` component. -/
def dialAddrTransport (a : Multiaddr) : Option Transport :=
  match a with
  | first :: rest =>
    if first.isIpOrDns then
      match rest with
      | .tcp _ :: .p2p _ :: [] => some .tcp
      | _ => none
    else none
  | [] => none

/-- The SYNCHRONOUS part of `TcpTransport::dial` (`src/transport/tcp/mod.rs`): the address is parsed
(`TcpAddress::multiaddr_to_socket_address`); resolving, connecting and negotiating happen in the future
the call queues. `false` = the call returns `Err` — which `dial_address` (it has set the peer `Dialing`
by then and returns with `?` before `pending_connections.insert`) would turn into a peer that is
`Dialing` forever. `dialAddress` below has no such branch: `Props/C05.lean`
(`transport_dial_total_on_accepted_shapes`) proves it unreachable for every address the shape check
lets through, and the adapter runs the real `TcpTransport::dial`/`open` behind the scripted transport,
so a synchronous refusal added to the real code breaks the correspondence. -/
def tcpDialSync (a : Multiaddr) : Bool := (tcpParse a).isSome

/-- The synchronous part of `TcpTransport::open`: nothing is checked (every address is parsed inside
the future), the call returns `Ok` for every list. -/
def tcpOpenSync (_addrs : List Multiaddr) : Bool := true

/-- `TransportManager::dial_address`. -/
def dialAddress (s : Mgr) (a : Multiaddr) : Mgr × Out :=
  match s.limits.onDialAddress with
  | none => (s, { res := .err .connectionLimit })
  | some _ =>
    match lastPeer a with
    | none => (s, { res := .err .peerIdMissing })
    | some remote =>
      if a ∈ listenAddrs then (s, { res := .err .triedToDialSelf })
      else
        match dialAddrTransport a with
        | none => (s, { res := .err .transportNotSupported })
        | some _ =>
          -- the connection id is taken before the peer state is consulted
          match ((stateOf s remote).dialSingleAddress ⟨a, s.nextConn⟩).2 with
          | .alreadyConnected =>
            ({ updAddr s remote a 0 with nextConn := s.nextConn + 1 }, { res := .err .alreadyConnected })
          | .dialingInProgress =>
            ({ updAddr s remote a 0 with nextConn := s.nextConn + 1 }, { res := .ok })
          | .ok =>
            ({ setState (updAddr s remote a 0) remote (.dialing ⟨a, s.nextConn⟩) with
                nextConn := s.nextConn + 1,
                pending := ainsert s.nextConn remote s.pending },
              { calls := [.dial s.nextConn a], res := .ok })

/-- `TransportManagerHandle::supported_transport` with TCP registered. -/
def supportedTransport (a : Multiaddr) : Bool :=
  match a with
  | [.ip4 n, .tcp _, .p2p _] => n != 0
  | [.ip6 n, .tcp _, .p2p _] => n != 0
  | [.dns _, .tcp _, .p2p _] => true
  | [.dns4 _, .tcp _, .p2p _] => true
  | [.dns6 _, .tcp _, .p2p _] => true
  | _ => false

/-- `TransportManagerHandle::is_local_address` for the one registered listen address. -/
def isLocalAddress (a : Multiaddr) : Bool :=
  let stripped := a.takeWhile (fun c => match c with | .p2p _ => false | _ => true)
  listenAddrs.contains stripped ||
  (match stripped with
   | .ip4 99 :: .tcp 99 :: _ => true
   | .ip4 99 :: .udp 99 :: _ => true
   | _ => false)

/-- The filter of `add_known_address` (a set: duplicates count once). -/
def knownFilter (p : Peer) : List Multiaddr → List Multiaddr
  | [] => []
  | a :: t =>
    let rest := knownFilter p t
    if supportedTransport a && !isLocalAddress a && (lastPeer a == some p) && !rest.contains a
    then a :: rest else rest

def addAddrs (s : Mgr) (p : Peer) : List Multiaddr → Mgr
  | [] => s
  | a :: t => addAddrs (updAddr s p a 0) p t

/-- `TransportManager::add_known_address`. -/
def addKnown (s : Mgr) (p : Peer) (as : List Multiaddr) : Mgr × Out :=
  (addAddrs s p (knownFilter p as), { res := .count (knownFilter p as).length })

/-! ## Items consumed by `next()` -/

/-- `TransportManager::on_connection_closed` (limits first, then the peer state). -/
def closeConn (s : Mgr) (p : Peer) (c : ConnId) : Mgr × List Ev :=
  ({ setState s p ((stateOf s p).onConnectionClosed c).1 with
      limits := s.limits.onConnectionClosed c },
    if ((stateOf s p).onConnectionClosed c).2 then [.closed p c] else [])

/-- Start of the `ConnectionEstablished` branch: `opening_errors.remove`, address score for a
dialer endpoint, `pending_connections.remove`. -/
def estPre (s : Mgr) (peer : Peer) (ep : Endpoint) : Mgr :=
  { (if ep.isListener then s else updAddr s peer (addrNew peer ep.addr) scoreEstablished) with
      openingErrors := aerase ep.conn s.openingErrors,
      pending := aerase ep.conn s.pending }

/-- Calls cancelling a superseded `Opening` attempt. -/
def cancelCalls : PeerState → List Call
  | .opening _ c ts => ts.map (fun _ => Call.cancel c)
  | _ => []

/-- `pending_connections.remove` of a superseded `Opening` attempt. -/
def erasePrevOpening (prev : PeerState) (pending : List (ConnId × Peer)) : List (ConnId × Peer) :=
  match prev with
  | .opening _ c _ => aerase c pending
  | _ => pending

/-- `TransportEvent::ConnectionEstablished` (with `on_connection_established` inlined). With the
fix for finding (d): a dialed connection that is rejected ends its dial attempt (record cleared on
a limit rejection, `DialFailure` returned). -/
def onEstablished (s : Mgr) (peer : Peer) (ep : Endpoint) (acceptOk : Bool) : Mgr × Out :=
  if (alookup ep.conn s.pending).isSome ∧ alookup ep.conn s.pending ≠ some peer then
    -- "peer ids do not match but transport was supposed to reject connection"
    (estPre s peer ep, { panic := true })
  else if !(estPre s peer ep).limits.canAccept ep.isListener then
    if (alookup ep.conn s.pending).isSome then
      (setState (estPre s peer ep) peer
          ((stateOf (estPre s peer ep) peer).onDialFailure ep.conn).1,
        { calls := [.reject ep.conn], events := [.dialFailure ep.conn ep.addr .negotiation] })
    else (estPre s peer ep, { calls := [.reject ep.conn] })
  else if ((stateOf (estPre s peer ep) peer).onConnectionEstablished
      (ConnRecord.new peer ep.addr ep.conn)).2 then
    if acceptOk then
      ({ setState (estPre s peer ep) peer
            ((stateOf (estPre s peer ep) peer).onConnectionEstablished
              (ConnRecord.new peer ep.addr ep.conn)).1 with
          limits := (estPre s peer ep).limits.accept ep.conn ep.isListener,
          pending := erasePrevOpening (stateOf (estPre s peer ep) peer) (estPre s peer ep).pending,
          pendingAccept := s.pendingAccept ++ [(peer, ep)] },
        { calls := cancelCalls (stateOf (estPre s peer ep) peer) ++ [.accept ep.conn] })
    else
      -- `accept` failed: roll back through `on_connection_closed` (its event is dropped)
      ((closeConn
          { setState (estPre s peer ep) peer
              ((stateOf (estPre s peer ep) peer).onConnectionEstablished
                (ConnRecord.new peer ep.addr ep.conn)).1 with
            limits := (estPre s peer ep).limits.accept ep.conn ep.isListener,
            pending := erasePrevOpening (stateOf (estPre s peer ep) peer) (estPre s peer ep).pending }
          peer ep.conn).1,
        { calls := cancelCalls (stateOf (estPre s peer ep) peer) ++ [.accept ep.conn] })
  else if (alookup ep.conn s.pending).isSome then
    (estPre s peer ep,
      { calls := [.reject ep.conn], events := [.dialFailure ep.conn ep.addr .negotiation] })
  else (estPre s peer ep, { calls := [.reject ep.conn] })

/-- Start of the `ConnectionOpened` branch. -/
def openedPre (s : Mgr) (c : ConnId) (errs : List (Multiaddr × DialErr)) : Mgr :=
  updAddrFails { s with openingErrors := aerase c s.openingErrors } errs

/-- `TransportEvent::ConnectionOpened` (with `on_connection_opened` inlined). Note that the id
used for `cancel`/`negotiate`/`pending_connections.insert` is the one stored in the `Opening`
state (the `let PeerState::Opening { connection_id, .. } = previous_state` shadows the event's). -/
def onOpened (s : Mgr) (c : ConnId) (a : Multiaddr) (errs : List (Multiaddr × DialErr)) : Mgr × Out :=
  match alookup c s.pending with
  | none => (openedPre s c errs, { panic := true })
  | some peer =>
    match stateOf (openedPre s c errs) peer with
    | .opening _ c' ts =>
      ({ setState (updAddr (openedPre s c errs) peer (addrNew peer a) scoreEstablished) peer
            (.dialing (ConnRecord.new peer a c)) with
          pending := ainsert c' peer (aerase c s.pending) },
        { calls := ts.map (fun _ => Call.cancel c') ++ [.negotiate c'] })
    | _ =>
      ({ updAddr (openedPre s c errs) peer (addrNew peer a) scoreEstablished with
          pending := aerase c s.pending }, {})

/-- `TransportEvent::OpenFailure` (with `on_open_failure` inlined). -/
def onOpenFailure (s : Mgr) (c : ConnId) (errs : List (Multiaddr × DialErr)) : Mgr × Out :=
  match alookup c s.pending with
  | none => (updAddrFails s errs, {})
  | some peer =>
    if ((stateOf (updAddrFails s errs) peer).onOpenFailure .tcp).1 = stateOf (updAddrFails s errs) peer then
      (updAddrFails s errs, {})
    else if ((stateOf (updAddrFails s errs) peer).onOpenFailure .tcp).2 then
      ({ setState (updAddrFails s errs) peer
            ((stateOf (updAddrFails s errs) peer).onOpenFailure .tcp).1 with
          pending := aerase c s.pending,
          openingErrors := aerase c s.openingErrors },
        { events := [.openFailure c (((alookup c s.openingErrors).getD []) ++ errs)] })
    else
      ({ setState (updAddrFails s errs) peer
            ((stateOf (updAddrFails s errs) peer).onOpenFailure .tcp).1 with
          openingErrors := ainsert c (((alookup c s.openingErrors).getD []) ++ errs) s.openingErrors },
        {})

/-- `TransportEvent::DialFailure` (with `on_dial_failure` inlined). -/
def onDialFailure (s : Mgr) (c : ConnId) (a : Multiaddr) (e : DialErr) : Mgr × Out :=
  match alookup c s.pending with
  | none => (updAddrFail s a e, {})
  | some peer =>
    ({ setState (updAddrFail s a e) peer ((stateOf (updAddrFail s a e) peer).onDialFailure c).1 with
        pending := aerase c s.pending },
      match lastPeer a with
      | some _ => { events := [.dialFailure c a e] }
      | none => { panic := true })

/-- `TransportEvent::PendingInboundConnection`. -/
def onPendingInbound (s : Mgr) (c : ConnId) : Mgr × Out :=
  if s.limits.onIncoming then (s, { calls := [.acceptPending c] })
  else (s, { calls := [.rejectPending c] })

/-- `TransportManagerEvent::ConnectionClosed` from a connection. -/
def onClosed (s : Mgr) (p : Peer) (c : ConnId) : Mgr × Out :=
  ((closeConn s p c).1, { events := (closeConn s p c).2 })

def findAccept (c : ConnId) : List (Peer × Endpoint) → Option (Peer × Endpoint)
  | [] => none
  | (p, ep) :: t => if ep.conn = c then some (p, ep) else findAccept c t

def eraseAccept (c : ConnId) : List (Peer × Endpoint) → List (Peer × Endpoint)
  | [] => []
  | (p, ep) :: t => if ep.conn = c then t else (p, ep) :: eraseAccept c t

/-- A `pending_accept` future resolves. -/
def onAcceptResult (s : Mgr) (c : ConnId) (ok : Bool) : Mgr × Out :=
  match findAccept c s.pendingAccept with
  | none => (s, {})
  | some (p, ep) =>
    if ok then
      ({ s with pendingAccept := eraseAccept c s.pendingAccept }, { events := [.established p ep] })
    else
      ((closeConn { s with pendingAccept := eraseAccept c s.pendingAccept } p c).1, {})

/-- One step of the manager. `alloc` is a transport taking a connection id from the shared counter
(`TransportHandle::next_connection_id`). -/
def step (s : Mgr) : In → Mgr × Out
  | .dial p choice => dial s p choice
  | .dialAddress a => dialAddress s a
  | .addKnown p as => addKnown s p as
  | .alloc => ({ s with nextConn := s.nextConn + 1 }, { res := .conn s.nextConn })
  | .evEstablished p ep ok => onEstablished s p ep ok
  | .evOpened c a errs => onOpened s c a errs
  | .evOpenFailure c errs => onOpenFailure s c errs
  | .evDialFailure c a e => onDialFailure s c a e
  | .evPendingInbound c => onPendingInbound s c
  | .evClosed p c => onClosed s p c
  | .acceptResult c ok => onAcceptResult s c ok

def Mgr.init (cfg : LimitsCfg) : Mgr := { limits := { cfg := cfg } }

/-! ## Ghost layer -/

inductive Phase where
  | opening | dialing | accepting
  deriving DecidableEq, Repr

/-- An obligation of the environment: the transport still owes a terminal event for `conn`.
`peer` is the peer the transport will report (it verifies the `/p2p` it parses from the dialed
address). -/
structure Owed where
  conn : ConnId
  phase : Phase
  peer : Peer
  deriving DecidableEq, Repr

/-- An accepted dial request that started an attempt. `carrier` is the connection whose report
concludes it: its own, or the inbound connection that superseded it while it was `Opening`. -/
structure Attempt where
  peer : Peer
  conn : ConnId
  carrier : ConnId
  deriving DecidableEq, Repr

/-- A connection the manager accepted and that has not been closed or rolled back. -/
structure Live where
  peer : Peer
  conn : ConnId
  isListener : Bool
  deriving DecidableEq, Repr

structure G where
  m : Mgr
  owed : List Owed := []
  live : List Live := []
  ledger : List Attempt := []
  log : List Ev := []
  /-- ids handed to the transport for inbound sockets and not yet reported -/
  fresh : List ConnId := []

def G.init (cfg : LimitsCfg) : G := { m := Mgr.init cfg }

def dropOwed (c : ConnId) (l : List Owed) : List Owed := l.filter (·.conn ≠ c)
def dropLive (c : ConnId) (l : List Live) : List Live := l.filter (·.conn ≠ c)
def addLive (x : Live) (l : List Live) : List Live := if x ∈ l then l else x :: l

def cancelled (calls : List Call) : List ConnId :=
  calls.filterMap (fun c => match c with | .cancel c => some c | _ => none)

def recarry (cs : List ConnId) (to : ConnId) (l : List Attempt) : List Attempt :=
  l.map (fun a => if a.carrier ∈ cs then { a with carrier := to } else a)

def owedPeer (c : ConnId) (l : List Owed) : Peer :=
  match l.find? (·.conn = c) with
  | some o => o.peer
  | none => 0

/-- Ghost update, a function of the input and the observable output only. -/
def ghost (g : G) (i : In) (m' : Mgr) (out : Out) : G :=
  let log := g.log ++ out.events
  match i with
  | .dial p _ =>
    match out.calls with
    | [.open c _] =>
      { g with m := m', log := log, owed := ⟨c, .opening, p⟩ :: g.owed, ledger := ⟨p, c, c⟩ :: g.ledger }
    | _ => { g with m := m', log := log }
  | .dialAddress a =>
    match out.calls with
    | [.dial c a'] =>
      { g with m := m', log := log,
               owed := ⟨c, .dialing, ((tcpParse a').getD none).getD 0⟩ :: g.owed,
               ledger := ⟨(lastPeer a).getD 0, c, c⟩ :: g.ledger }
    | _ => { g with m := m', log := log }
  | .addKnown _ _ => { g with m := m', log := log }
  | .alloc =>
    match out.res with
    | .conn c => { g with m := m', log := log, fresh := c :: g.fresh }
    | _ => { g with m := m', log := log }
  | .evEstablished p ep ok =>
    let owed1 := (cancelled out.calls).foldl (fun l c => dropOwed c l) (dropOwed ep.conn g.owed)
    if Call.accept ep.conn ∈ out.calls then
      if ok then
        { g with m := m', log := log, fresh := g.fresh.filter (· ≠ ep.conn),
                 owed := ⟨ep.conn, .accepting, p⟩ :: owed1,
                 live := addLive ⟨p, ep.conn, ep.isListener⟩ g.live,
                 ledger := recarry (cancelled out.calls) ep.conn g.ledger }
      else
        -- `accept` failed: the manager rolls the connection back (releases the id)
        { g with m := m', log := log, fresh := g.fresh.filter (· ≠ ep.conn), owed := owed1,
                 live := dropLive ep.conn g.live }
    else
      { g with m := m', log := log, fresh := g.fresh.filter (· ≠ ep.conn), owed := owed1 }
  | .evOpened c _ _ =>
    match out.calls.filterMap (fun x => match x with | .negotiate c' => some c' | _ => none) with
    | c' :: _ =>
      { g with m := m', log := log, owed := ⟨c', .dialing, owedPeer c g.owed⟩ :: dropOwed c' (dropOwed c g.owed) }
    | [] => { g with m := m', log := log, owed := dropOwed c g.owed }
  | .evOpenFailure c _ => { g with m := m', log := log, owed := dropOwed c g.owed }
  | .evDialFailure c _ _ => { g with m := m', log := log, owed := dropOwed c g.owed }
  | .evPendingInbound _ => { g with m := m', log := log }
  | .evClosed _ c => { g with m := m', log := log, live := dropLive c g.live }
  | .acceptResult c ok =>
    { g with m := m', log := log, owed := dropOwed c g.owed,
             -- a failed accept future rolls its connection back (visible as `acc` going down)
             live := if ok then g.live
                     else if (findAccept c g.m.pendingAccept).isSome then dropLive c g.live
                     else g.live }

def gstep (g : G) (i : In) : G × Out :=
  ((ghost g i (step g.m i).1 (step g.m i).2), (step g.m i).2)

/-- The contract of the environment (the `Transport` trait as `TcpTransport` implements it, and
the connections it spawns): events only for outstanding obligations, with the peer the transport
verified; inbound connections carry an id taken from the shared counter; a dial failure echoes the
dialed address (which ends in `/p2p`); `accept` succeeds for a connection the transport has just
reported (a failing `accept` means a protocol handle was dropped — finding (i) of C07); a
connection is closed only after it was accepted and reported. -/
def allowed (g : G) : In → Bool
  | .dial _ _ => true
  | .dialAddress _ => true
  | .addKnown _ _ => true
  | .alloc => true
  | .evEstablished p ep ok =>
    ok && (if ep.isListener then g.fresh.contains ep.conn
           else g.owed.contains ⟨ep.conn, .dialing, p⟩)
  | .evOpened c _ _ => g.owed.any (fun o => o.conn == c && o.phase == .opening)
  | .evOpenFailure c _ => g.owed.any (fun o => o.conn == c && o.phase == .opening)
  | .evDialFailure c a _ =>
    g.owed.any (fun o => o.conn == c && o.phase == .dialing) && (lastPeer a).isSome
  | .evPendingInbound c => g.fresh.contains c
  | .evClosed p c =>
    g.live.any (fun l => l.peer == p && l.conn == c) && !g.owed.any (fun o => o.conn == c)
  | .acceptResult c ok => ok && g.owed.any (fun o => o.conn == c && o.phase == .accepting)

/-- States reachable by arbitrary inputs (no assumption on the environment): C06. -/
inductive ReachAny : G → Prop where
  | init (cfg : LimitsCfg) : ReachAny (G.init cfg)
  | step {g : G} (i : In) : ReachAny g → ReachAny (gstep g i).1

/-- States reachable when the environment keeps its contract: C05. -/
inductive Reach : G → Prop where
  | init (cfg : LimitsCfg) : Reach (G.init cfg)
  | step {g : G} (i : In) : Reach g → allowed g i = true → Reach (gstep g i).1

/-- Run a list of inputs (for examples and the driver). -/
def runG (g : G) : List In → G
  | [] => g
  | i :: t => runG (gstep g i).1 t

/-! ### Ledger -/

/-- Number of reports that conclude attempt `a`: a `ConnectionEstablished` for its carrier, or a
`DialFailure` / `OpenFailure` for its own connection id. -/
def reports (a : Attempt) : Ev → Nat
  | .established _ ep => if ep.conn = a.carrier then 1 else 0
  | .dialFailure c _ _ => if c = a.conn then 1 else 0
  | .openFailure c _ => if c = a.conn then 1 else 0
  | .closed _ _ => 0

def outcome (g : G) (a : Attempt) : Nat := (g.log.map (reports a)).sum

/-- `1` iff the environment still owes the event that concludes `a`. -/
def inflight (g : G) (a : Attempt) : Nat := if g.owed.any (fun o => o.conn == a.carrier) then 1 else 0

def owedOf (g : G) (p : Peer) : List Owed := g.owed.filter (fun o => o.peer == p)
def liveOf (g : G) (p : Peer) : List Live := g.live.filter (fun l => l.peer == p)

end Litep2pVerif.Manager
