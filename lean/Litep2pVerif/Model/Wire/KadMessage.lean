import Litep2pVerif.Model.Wire.Schemas
/-!
# `KademliaMessage::from_bytes`, `KademliaPeer::try_from`, `record_from_schema`
(src/protocol/libp2p/kademlia/{message.rs,types.rs}) and identify's address filter
(src/protocol/libp2p/identify.rs) on top of the wire model.

Third-party parsers are parameters: `peerIdOk` (C18 models `PeerId::from_bytes`; here only its
accept/reject decision matters), `addrOk` (`Multiaddr::try_from(Vec<u8>)`).
-/
namespace Litep2pVerif.Wire

/-- What the protocol keeps of a decoded peer: id bytes, number of addresses kept (the address
store holds distinct addresses up to its capacity), connection type. -/
structure PeerOut where
  id : List Nat
  naddrs : Nat
  conn : Int
  deriving Repr, DecidableEq

/-- Capacity of the per-peer `AddressStore` (`MAX_ADDRESSES` in transport/manager/address.rs). -/
def addressStoreCapacity : Nat := 64

/-- `KademliaPeer::try_from(&schema::kademlia::Peer)`. -/
def peerTryFrom (peerIdOk addrOk : List Nat → Bool) (p : KPeer) : Option PeerOut :=
  if !peerIdOk p.id then none
  else if p.connection < 0 ∨ 3 < p.connection then none
  else some { id := p.id, naddrs := min ((p.addrs.filter addrOk).eraseDups).length addressStoreCapacity,
              conn := p.connection }

def peersFrom (peerIdOk addrOk : List Nat → Bool) (repl : Nat) (ps : List KPeer) : List PeerOut :=
  (ps.filterMap (peerTryFrom peerIdOk addrOk)).take repl

structure RecordOut where
  key : List Nat
  value : List Nat
  publisher : Option (List Nat)
  hasExpiry : Bool
  deriving Repr, DecidableEq

/-- `record_from_schema`. -/
def recordFromSchema (peerIdOk : List Nat → Bool) (r : KRecord) : Option RecordOut :=
  if r.publisher.isEmpty then
    some { key := r.key, value := r.value, publisher := none, hasExpiry := 0 < r.ttl }
  else if peerIdOk r.publisher then
    some { key := r.key, value := r.value, publisher := some r.publisher, hasExpiry := 0 < r.ttl }
  else none

inductive KadOut where
  | findNode (target : List Nat) (peers : List PeerOut)
  | putValue (record : RecordOut)
  | getRecord (key : Option (List Nat)) (record : Option RecordOut) (peers : List PeerOut)
  | addProvider (key : List Nat) (providers : List PeerOut)
  | getProviders (key : Option (List Nat)) (peers providers : List PeerOut)
  deriving Repr, DecidableEq

/-- The part of `KademliaMessage::from_bytes` after prost's decode: dispatch on the message type. -/
def kadOfMessage (peerIdOk addrOk : List Nat → Bool) (repl : Nat) (m : KMessage) : Option KadOut :=
  let peers := peersFrom peerIdOk addrOk repl
  if m.type = 4 then some (.findNode m.key (peers m.closerPeers))
  else if m.type = 0 then
    match m.record with
    | none => none
    | some r => (recordFromSchema peerIdOk r).map .putValue
  else if m.type = 1 then
    let key :=
      if m.key.isEmpty then
        match m.record with
        | some r => if r.key.isEmpty then none else some r.key
        | none => none
      else some m.key
    match m.record with
    | some r =>
      match recordFromSchema peerIdOk r with
      | none => none
      | some r' => some (.getRecord key (some r') (peers m.closerPeers))
    | none => some (.getRecord key none (peers m.closerPeers))
  else if m.type = 2 then
    if m.key.isEmpty then none else some (.addProvider m.key (peers m.providerPeers))
  else if m.type = 3 then
    some (.getProviders (if m.key.isEmpty then none else some m.key) (peers m.closerPeers) (peers m.providerPeers))
  else none

/-- `KademliaMessage::from_bytes(bytes, replication_factor)`. -/
def kadFromBytes (peerIdOk addrOk : List Nat → Bool) (repl : Nat) (bs : List Nat) : Option KadOut :=
  match KMessage.decode bs with
  | none => none
  | some m => kadOfMessage peerIdOk addrOk repl m

/-- What identify learns about one address: invalid, empty, no trailing `/p2p`, or trailing
`/p2p/<id bytes>`. (Third-party `multiaddr` parse: a parameter.) -/
inductive AddrInfo where
  | invalid
  | empty
  | noP2p
  | p2p (id : List Nat)
  deriving Repr, DecidableEq

/-- The `filter_map` over `listen_addrs` in identify: keep valid, non-empty addresses that do not end
in a `/p2p` of somebody else. -/
def identifyKeep (info : List Nat → AddrInfo) (remote : List Nat) (a : List Nat) : Bool :=
  match info a with
  | .invalid => false
  | .empty => false
  | .noP2p => true
  | .p2p id => id = remote

def identifyListenAddrs (info : List Nat → AddrInfo) (remote : List Nat) (m : Identify) : List (List Nat) :=
  m.listenAddrs.filter (identifyKeep info remote)

def identifyObserved (info : List Nat → AddrInfo) (localId : List Nat) (m : Identify) : Option (List Nat) :=
  match m.observedAddr with
  | none => none
  | some a => if identifyKeep info localId a then some a else none

end Litep2pVerif.Wire
