import Litep2pVerif.Model.Wire.KadMessage
import Litep2pVerif.Model.Substream.Codec
/-!
# The identify protocol's substream handlers (`src/protocol/libp2p/identify.rs`)

Operational copy of what `Identify` does with a remote's bytes and of the message it sends itself:

* `on_outbound_substream`: `timeout(10 s, substream.next())` on a `Substream` with the codec of
  `Config::new` (`UnsignedVarint(Some(IDENTIFY_PAYLOAD_SIZE))`, the frame reader of
  `Model/Substream/Codec.lean`), prost's `Identify::decode` (`Generated/Schemas.lean`), the
  `filter_map` over the listen addresses, the check of the observed address, and the event `run()`
  builds from the response (`observed_address.map_or(Multiaddr::empty(), ..)`, protocols collected into
  a set). The peer of the event is the peer of the *connection*; the `publicKey` field of the message
  is not looked at.
* `on_inbound_substream`: the `identify_schema::Identify` built from the configuration and
  `timeout(10 s, substream.send_framed(..))` over a flow-controlled carrier.

Third-party parsers are parameters (`info`, see `AddrInfo`). Sets (`HashSet`) are canonical lists:
sorted by bytes, no duplicates. Time is explicit (whole seconds).
-/
namespace Litep2pVerif.Wire
open Litep2pVerif.Substream (Codec RState pollNext Seg Out encodeMsg accepts)

/-- `IDENTIFY_PAYLOAD_SIZE` -/
def IDENTIFY_PAYLOAD_SIZE : Nat := Consts.IDENTIFY_PAYLOAD_SIZE
/-- `Duration::from_secs(10)` around `substream.next()` -/
def IDENTIFY_READ_TIMEOUT : Nat := Consts.IDENTIFY_READ_TIMEOUT_SECS
/-- `Duration::from_secs(10)` around `substream.send_framed(..)` -/
def IDENTIFY_SEND_TIMEOUT : Nat := Consts.IDENTIFY_SEND_TIMEOUT_SECS
/-- `DEFAULT_AGENT` -/
def IDENTIFY_DEFAULT_AGENT : List Nat := Consts.IDENTIFY_DEFAULT_AGENT

/-- `Config::new`: `ProtocolCodec::UnsignedVarint(Some(IDENTIFY_PAYLOAD_SIZE))`. -/
def identifyCodec : Codec := .varint (some IDENTIFY_PAYLOAD_SIZE)

/-! ## canonical sets of byte strings -/

/-- Lexicographic order on byte strings (a proper prefix is smaller). -/
def bytesLt : List Nat → List Nat → Bool
  | [], [] => false
  | [], _ :: _ => true
  | _ :: _, [] => false
  | a :: as, b :: bs => if a < b then true else if b < a then false else bytesLt as bs

def insertCanon (a : List Nat) : List (List Nat) → List (List Nat)
  | [] => [a]
  | b :: r => if a = b then b :: r else if bytesLt a b then a :: b :: r else b :: insertCanon a r

/-- A `HashSet` of byte strings as the sorted list of its elements. -/
def canonSet (l : List (List Nat)) : List (List Nat) := l.foldr insertCanon []

/-! ## outbound substream: the remote's answer -/

/-- What the remote (and time) do on our outbound identify substream. -/
inductive OutStep
  | write (bs : List Nat)
  | wait (secs : Nat)
  | close
  | reset
  deriving Repr, DecidableEq

/-- How `timeout(.., substream.next())` ends. `waiting`: the script is over and the future is
still pending. -/
inductive ReadOutcome
  | payload (bs : List Nat)
  | timeout
  | closed
  | error
  | waiting
  | panic (msg : String)
  deriving Repr, DecidableEq

/-- The carrier segment one step hands to the frame reader (an empty write wakes nobody). -/
def stepCarrier : OutStep → Substream.Carrier
  | .write bs => if bs.isEmpty then [] else [.data bs]
  | .close => [.eof]
  | .reset => [.err]
  | .wait _ => []

/-- `timeout(IDENTIFY_READ_TIMEOUT, substream.next())` against a script: reader state, seconds elapsed. -/
def identifyRead : List OutStep → RState → Nat → ReadOutcome
  | [], _, _ => .waiting
  | .wait s :: rest, st, el =>
    if IDENTIFY_READ_TIMEOUT ≤ el + s then .timeout else identifyRead rest st (el + s)
  | step :: rest, st, el =>
    match pollNext identifyCodec st (stepCarrier step) with
    | (.frame p, _, _) => .payload p
    | (.err _, _, _) => .error
    | (.eof, _, _) => .closed
    | (.pending, st', _) => identifyRead rest st' el
    | (.panic m, _, _) => .panic m

/-- `IdentifyEvent::PeerIdentified`. -/
structure IdEvent where
  peer : List Nat
  protocolVersion : Option (List Nat)
  userAgent : Option (List Nat)
  /-- `supported_protocols` (a set) -/
  protocols : List (List Nat)
  /-- `observed_address` (`Multiaddr::empty()` = no bytes) -/
  observed : List Nat
  listen : List (List Nat)
  deriving Repr, DecidableEq

/-- The rest of the outbound future after the frame arrived, and the event `run()` makes of the
response. `remote`: the peer of the connection; `localId`: our own peer id. -/
def identifyHandle (info : List Nat → AddrInfo) (remote localId : List Nat) (payload : List Nat) : Option IdEvent :=
  match Identify.decode payload with
  | none => none
  | some m =>
    some { peer := remote,
           protocolVersion := m.protocolVersion,
           userAgent := m.agentVersion,
           protocols := canonSet m.protocols,
           observed := (identifyObserved info localId m).getD [],
           listen := identifyListenAddrs info remote m }

inductive OutboundResult
  | event (e : IdEvent)
  | noevent
  | panic (msg : String)
  deriving Repr, DecidableEq

/-- What the user sees after the remote played `steps` on the outbound substream. -/
def identifyOutbound (info : List Nat → AddrInfo) (remote localId : List Nat) (steps : List OutStep) : OutboundResult :=
  match identifyRead steps (RState.init identifyCodec) 0 with
  | .payload p =>
    match identifyHandle info remote localId p with
    | some e => .event e
    | none => .noevent
  | .panic m => .panic m
  | _ => .noevent

/-! ## inbound substream: our own message -/

/-- What `Identify` knows about the local node. -/
structure IdLocal where
  /-- `local_peer_id` (identity multihash of the protobuf-encoded public key) -/
  localId : List Nat
  /-- `protocol_version` -/
  pv : List Nat
  /-- `user_agent` of the `Config` -/
  agent : Option (List Nat)
  protocols : List (List Nat)
  /-- `service.listen_addresses()` -/
  listen : List (List Nat)
  /-- `service.public_addresses()` -/
  public_ : List (List Nat)
  deriving Repr, DecidableEq

/-- The `identify_schema::Identify` of `on_inbound_substream`; `observed`: the address of the peer's
endpoint if the peer is connected. The listen addresses are a set (canonical order here; the real
order is the `HashSet`'s). -/
def ownIdentify (cfg : IdLocal) (observed : Option (List Nat)) : Identify :=
  { protocolVersion := some cfg.pv,
    agentVersion := some (cfg.agent.getD IDENTIFY_DEFAULT_AGENT),
    publicKey := some (cfg.localId.drop 2),
    listenAddrs := canonSet (cfg.listen ++ cfg.public_),
    observedAddr := observed,
    protocols := cfg.protocols }

/-- What the remote and time do on an inbound identify substream. -/
inductive InStep
  | wait (secs : Nat)
  | read (n : Nat)
  deriving Repr, DecidableEq

/-- `timeout(IDENTIFY_SEND_TIMEOUT, send_framed(frame))` over a carrier that holds at most `cap` unread bytes:
`w` bytes written, `r` read by the remote, `el` seconds elapsed. Returns how many bytes of the frame
the remote ends up with (it drains the carrier at the end). -/
def identifySendLoop (len cap : Nat) : List InStep → Nat → Nat → Nat → Nat
  | [], w, _, _ => if cap = 0 then w else len
  | .read n :: rest, w, r, el =>
    identifySendLoop len cap rest (min len (r + min n (w - r) + cap)) (r + min n (w - r)) el
  | .wait s :: rest, w, r, el =>
    if w < len ∧ IDENTIFY_SEND_TIMEOUT ≤ el + s then w else identifySendLoop len cap rest w r (el + s)

/-- The bytes the remote receives on an inbound identify substream. -/
def identifyInbound (cfg : IdLocal) (observed : Option (List Nat)) (cap : Nat) (steps : List InStep) : List Nat :=
  let payload := Identify.encode (ownIdentify cfg observed)
  if accepts identifyCodec payload then
    let frame := encodeMsg identifyCodec payload
    frame.take (identifySendLoop frame.length cap steps (min frame.length cap) 0 0)
  else []

/-- Our message through the remote's handler: node `cfg` answers the peer `asker` (whose endpoint
address it observed as `observed`), the bytes arrive cut after `split` bytes, then the stream ends. -/
def identifyRoundtrip (info : List Nat → AddrInfo) (cfg : IdLocal) (asker : List Nat) (observed : Option (List Nat))
    (split : Nat) : OutboundResult :=
  let sent := identifyInbound cfg observed (2 ^ 20) []
  identifyOutbound info cfg.localId asker [.write (sent.take split), .write (sent.drop split), .close]

end Litep2pVerif.Wire
