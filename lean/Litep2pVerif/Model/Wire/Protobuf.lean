/-!
# Protobuf wire format as decoded by `prost` 0.13 — shared by C19 (and the message models)

`prost` is third-party code: this model is validated against the real generated decoders by the
C19 correspondence run, not derived from prost's source. It follows prost's decoding rules:

* `decode_varint`: at most 10 bytes, the 10th byte must be `< 2` (no u64 overflow);
* `decode_key`: key ≤ u32::MAX, wire type = key & 7 ∈ 0..5, tag = key >> 3 ≥ 1;
* `skip_field` for unknown tags, incl. (deprecated) groups with the recursion limit;
* length-delimited payloads must fit in the remaining buffer (`buffer underflow`);
* nested messages are decoded from exactly their delimited slice, one recursion level deeper
  (prost shares the buffer and checks `delimited length exceeded` afterwards — same accept set);
* strings must be valid UTF-8.

Bytes are `Nat`s below 256 (the driver only ever supplies such lists). All functions are total:
"no panic" is by construction, failure is `none`.
-/
namespace Litep2pVerif.Wire

/-- prost's `RECURSION_LIMIT`. -/
def recursionLimit : Nat := 100

/-- `decode_varint`. `count` = number of bytes consumed so far, `acc` the value so far. -/
def readVarintAux : Nat → Nat → List Nat → Option (Nat × List Nat)
  | _, _, [] => none
  | count, acc, b :: rest =>
    if 10 ≤ count then none
    else
      let v := acc + (b % 128) * 2 ^ (7 * count)
      if b < 128 then
        if count = 9 ∧ 2 ≤ b then none else some (v, rest)
      else readVarintAux (count + 1) v rest

def readVarint (bs : List Nat) : Option (Nat × List Nat) := readVarintAux 0 0 bs

/-- `encode_varint` (fuel 10 suffices for values below 2^64 + …; extra fuel is harmless). -/
def writeVarintAux : Nat → Nat → List Nat
  | 0, _ => []
  | fuel + 1, n => if n < 128 then [n] else (n % 128 + 128) :: writeVarintAux fuel (n / 128)

def writeVarint (n : Nat) : List Nat := writeVarintAux 10 n

/-- `decode_key`: (tag, wire type, rest). -/
def readKey (bs : List Nat) : Option (Nat × Nat × List Nat) :=
  match readVarint bs with
  | none => none
  | some (key, rest) =>
    if 2 ^ 32 ≤ key then none
    else if 5 < key % 8 then none
    else if key / 8 < 1 then none
    else some (key / 8, key % 8, rest)

def writeKey (tag wt : Nat) : List Nat := writeVarint (tag * 8 + wt)

/-- Take exactly `n` bytes or fail (`buffer underflow`). -/
def takeExact (n : Nat) (bs : List Nat) : Option (List Nat × List Nat) :=
  if bs.length < n then none else some (bs.take n, bs.drop n)

/-- A length-delimited payload: varint length, then that many bytes. -/
def readLenDelimited (bs : List Nat) : Option (List Nat × List Nat) :=
  match readVarint bs with
  | none => none
  | some (len, rest) => takeExact len rest

mutual
/-- `skip_field` (fuel bounds the total number of keys read; `depth` is prost's recursion budget). -/
def skipField : Nat → Nat → Nat → Nat → List Nat → Option (List Nat)
  | 0, _, _, _, _ => none
  | fuel + 1, depth, wt, tag, bs =>
    if depth = 0 then none
    else match wt with
      | 0 => (readVarint bs).map (·.2)
      | 1 => (takeExact 8 bs).map (·.2)
      | 2 => (readLenDelimited bs).map (·.2)
      | 3 => skipGroup fuel depth tag bs
      | 5 => (takeExact 4 bs).map (·.2)
      | _ => none
/-- The `StartGroup` loop of `skip_field`. -/
def skipGroup : Nat → Nat → Nat → List Nat → Option (List Nat)
  | 0, _, _, _ => none
  | fuel + 1, depth, tag, bs =>
    match readKey bs with
    | none => none
    | some (itag, iwt, rest) =>
      if iwt = 4 then (if itag = tag then some rest else none)
      else match skipField fuel (depth - 1) iwt itag rest with
        | none => none
        | some rest' => skipGroup fuel depth tag rest'
end

/-- Generic message loop: `while buf.has_remaining() { decode_key; merge_field }`.
`merge st tag wt rest` handles one field and returns the new state and the remaining bytes. -/
def decodeLoop {σ : Type} (merge : σ → Nat → Nat → List Nat → Option (σ × List Nat)) :
    Nat → σ → List Nat → Option σ
  | _, st, [] => some st
  | 0, _, _ :: _ => none
  | fuel + 1, st, bs@(_ :: _) =>
    match readKey bs with
    | none => none
    | some (tag, wt, rest) =>
      match merge st tag wt rest with
      | none => none
      | some (st', rest') => decodeLoop merge fuel st' rest'

/-- `int32`/enum fields: `value as i32`. -/
def toI32 (n : Nat) : Int :=
  if n % 2 ^ 32 < 2 ^ 31 then Int.ofNat (n % 2 ^ 32) else Int.ofNat (n % 2 ^ 32) - Int.ofNat (2 ^ 32)

/-- `uint32` fields: `value as u32`. -/
def toU32 (n : Nat) : Nat := n % 2 ^ 32

/-- A varint field: wire type must be 0. -/
def fieldVarint (wt : Nat) (bs : List Nat) : Option (Nat × List Nat) :=
  if wt = 0 then readVarint bs else none

/-- A bytes field: wire type must be 2. -/
def fieldBytes (wt : Nat) (bs : List Nat) : Option (List Nat × List Nat) :=
  if wt = 2 then readLenDelimited bs else none

/-- Rust's UTF-8 validity (`core::str::from_utf8`): no overlong forms, no surrogates, ≤ U+10FFFF. -/
def validUtf8 : List Nat → Bool
  | [] => true
  | b0 :: rest =>
    if b0 < 0x80 then validUtf8 rest
    else if 0xC2 ≤ b0 ∧ b0 ≤ 0xDF then
      match rest with
      | b1 :: r => (0x80 ≤ b1 ∧ b1 ≤ 0xBF) && validUtf8 r
      | _ => false
    else if 0xE0 ≤ b0 ∧ b0 ≤ 0xEF then
      match rest with
      | b1 :: b2 :: r =>
        let lo := if b0 = 0xE0 then 0xA0 else 0x80
        let hi := if b0 = 0xED then 0x9F else 0xBF
        (lo ≤ b1 ∧ b1 ≤ hi) && (0x80 ≤ b2 ∧ b2 ≤ 0xBF) && validUtf8 r
      | _ => false
    else if 0xF0 ≤ b0 ∧ b0 ≤ 0xF4 then
      match rest with
      | b1 :: b2 :: b3 :: r =>
        let lo := if b0 = 0xF0 then 0x90 else 0x80
        let hi := if b0 = 0xF4 then 0x8F else 0xBF
        (lo ≤ b1 ∧ b1 ≤ hi) && (0x80 ≤ b2 ∧ b2 ≤ 0xBF) && (0x80 ≤ b3 ∧ b3 ≤ 0xBF) && validUtf8 r
      | _ => false
    else false

/-- A string field. -/
def fieldString (wt : Nat) (bs : List Nat) : Option (List Nat × List Nat) :=
  match fieldBytes wt bs with
  | none => none
  | some (s, rest) => if validUtf8 s then some (s, rest) else none

/-- A nested message field: wire type 2, recursion budget not exhausted, payload decoded from its
slice with `sub` one level deeper. -/
def fieldMessage {τ : Type} (sub : Nat → List Nat → Option τ) (depth wt : Nat) (bs : List Nat) :
    Option (τ × List Nat) :=
  if wt ≠ 2 then none
  else if depth = 0 then none
  else match readLenDelimited bs with
    | none => none
    | some (payload, rest) =>
      match sub (depth - 1) payload with
      | none => none
      | some v => some (v, rest)

/-- Unknown field: skipped. -/
def fieldSkip {σ : Type} (st : σ) (depth wt tag : Nat) (bs : List Nat) : Option (σ × List Nat) :=
  (skipField (2 * bs.length + 2) depth wt tag bs).map (fun r => (st, r))

/-! ## Encoders (prost `encode_raw`)

Fields are written in tag order (prost-derive sorts them), a proto3 scalar equal to its default is
omitted, `None` is omitted, a proto2 `required` scalar is always written, repeated fields are written
one element after the other, a nested message is length-prefixed with its `encoded_len` (modelled as
the length of its encoding). -/

def encBytesField (tag : Nat) (bs : List Nat) : List Nat :=
  writeKey tag 2 ++ writeVarint bs.length ++ bs

def encVarintField (tag n : Nat) : List Nat := writeKey tag 0 ++ writeVarint n

/-- i32 → the 64-bit two's complement varint prost writes (`value as u64`). -/
def i32ToU64 (i : Int) : Nat := if 0 ≤ i then i.toNat else (2 ^ 64 - (-i).toNat)

/-- `int64` fields: `value as i64`. -/
def toI64 (n : Nat) : Int :=
  if n % 2 ^ 64 < 2 ^ 63 then Int.ofNat (n % 2 ^ 64) else Int.ofNat (n % 2 ^ 64) - Int.ofNat (2 ^ 64)

def encStringField (tag : Nat) (s : List Nat) : List Nat := encBytesField tag s
/-- `int32` and enumeration fields. -/
def encInt32Field (tag : Nat) (i : Int) : List Nat := encVarintField tag (i32ToU64 i)
def encInt64Field (tag : Nat) (i : Int) : List Nat := encVarintField tag (i32ToU64 i)
def encUInt32Field (tag n : Nat) : List Nat := encVarintField tag n
def encUInt64Field (tag n : Nat) : List Nat := encVarintField tag n
def encBoolField (tag : Nat) (b : Bool) : List Nat := encVarintField tag (if b then 1 else 0)
/-- `message::encode`: key, `encoded_len`, `encode_raw`. -/
def encMessageField (tag : Nat) (payload : List Nat) : List Nat := encBytesField tag payload

/-- proto3 singular scalar: written unless equal to the default. -/
def encPlain {α : Type} [DecidableEq α] (enc : α → List Nat) (dflt a : α) : List Nat :=
  if a = dflt then [] else enc a

/-- `Option` field: written when `Some`. -/
def encOpt {α : Type} (enc : α → List Nat) : Option α → List Nat
  | none => []
  | some a => enc a

/-- repeated field: every element, in order. -/
def encRep {α : Type} (enc : α → List Nat) : List α → List Nat
  | [] => []
  | a :: l => enc a ++ encRep enc l

/-! ## Well-formedness of the values an encoder can be given

The Rust types guarantee these (an `i32` is within the i32 range, a `String` is valid UTF-8, a `Vec`
is shorter than 2^64); the model's `Int`/`Nat`/`List Nat` do not, so the round-trip theorems state
them. All are decidable. -/

def okBytes (b : List Nat) : Prop := b.length < 2 ^ 64
def okString (s : List Nat) : Prop := s.length < 2 ^ 64 ∧ validUtf8 s = true
def okI32 (i : Int) : Prop := -(2 ^ 31) ≤ i ∧ i < 2 ^ 31
def okI64 (i : Int) : Prop := -(2 ^ 63) ≤ i ∧ i < 2 ^ 63
def okU32 (n : Nat) : Prop := n < 2 ^ 32
def okU64 (n : Nat) : Prop := n < 2 ^ 64
def okBool (_ : Bool) : Prop := True
/-- A nested message: well-formed itself and with an encoding shorter than 2^64. -/
def okMsg {α : Type} (wf : α → Prop) (enc : α → List Nat) (v : α) : Prop := wf v ∧ (enc v).length < 2 ^ 64
def optAll {α : Type} (p : α → Prop) : Option α → Prop
  | none => True
  | some a => p a
def listAll {α : Type} (p : α → Prop) (l : List α) : Prop := ∀ a ∈ l, p a

instance : DecidablePred okBytes := fun b => inferInstanceAs (Decidable (b.length < 2 ^ 64))
instance : DecidablePred okString := fun s => inferInstanceAs (Decidable (s.length < 2 ^ 64 ∧ validUtf8 s = true))
instance : DecidablePred okI32 := fun i => inferInstanceAs (Decidable (-(2 ^ 31) ≤ i ∧ i < 2 ^ 31))
instance : DecidablePred okI64 := fun i => inferInstanceAs (Decidable (-(2 ^ 63) ≤ i ∧ i < 2 ^ 63))
instance : DecidablePred okU32 := fun n => inferInstanceAs (Decidable (n < 2 ^ 32))
instance : DecidablePred okU64 := fun n => inferInstanceAs (Decidable (n < 2 ^ 64))
instance : DecidablePred okBool := fun _ => inferInstanceAs (Decidable True)
instance {α : Type} (wf : α → Prop) (enc : α → List Nat) [DecidablePred wf] : DecidablePred (okMsg wf enc) :=
  fun v => inferInstanceAs (Decidable (wf v ∧ (enc v).length < 2 ^ 64))
instance {α : Type} (p : α → Prop) [DecidablePred p] : DecidablePred (optAll p)
  | none => inferInstanceAs (Decidable True)
  | some a => inferInstanceAs (Decidable (p a))
instance {α : Type} (p : α → Prop) [DecidablePred p] : DecidablePred (listAll p) :=
  fun l => inferInstanceAs (Decidable (∀ a ∈ l, p a))

end Litep2pVerif.Wire
