import Litep2pVerif.Generated.Schemas
/-!
# The protobuf messages litep2p decodes from the network (prost-generated structs)

The structures, decoders and encoders are GENERATED from the `.proto` files of /repo by
`tools/proto2lean.py` on every run (`Generated/Schemas.lean`); this file only adds what is hand-written
Rust on top of them.
-/
namespace Litep2pVerif.Wire

/-- `RemotePublicKey::from_protobuf_encoding` without the `rsa` feature: only Ed25519 (type 1) with
exactly 32 key bytes. The curve-point validity check of ed25519-dalek is a parameter. -/
inductive KeyResult where
  | ok (key : List Nat)
  | decodeErr
  | unknownKeyType
  | invalidData
  deriving Repr, DecidableEq

def remotePublicKey (validPoint : List Nat → Bool) (bs : List Nat) : KeyResult :=
  match PublicKeyPb.decode bs with
  | none => .decodeErr
  | some pk =>
    if pk.type = 1 then
      (if pk.data.length = 32 ∧ validPoint pk.data then .ok pk.data else .invalidData)
    else .unknownKeyType

end Litep2pVerif.Wire
