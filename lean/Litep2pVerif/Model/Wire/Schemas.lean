import Litep2pVerif.Model.Wire.Protobuf
/-!
# The protobuf messages litep2p decodes from the network (prost-generated structs)

One structure + `mergeField` per message, transcribed from the `.proto` files
(src/protocol/libp2p/schema/{kademlia,identify,bitswap}.proto, src/schema/{keys,noise}.proto) with
prost's rules: scalar/optional fields — last occurrence wins; repeated — appended; optional message
fields — merged into the existing value; unknown tags — skipped; known tag with another wire
type — error. `decodeX depth bytes` is `X::decode` (depth = remaining recursion budget).
-/
namespace Litep2pVerif.Wire

/-! ## kademlia.proto -/

structure KRecord where
  key : List Nat := []
  value : List Nat := []
  timeReceived : List Nat := []
  publisher : List Nat := []
  ttl : Nat := 0
  deriving Repr, DecidableEq

def KRecord.merge (depth : Nat) (r : KRecord) (tag wt : Nat) (bs : List Nat) : Option (KRecord × List Nat) :=
  match tag with
  | 1 => (fieldBytes wt bs).map fun (v, rest) => ({ r with key := v }, rest)
  | 2 => (fieldBytes wt bs).map fun (v, rest) => ({ r with value := v }, rest)
  | 5 => (fieldString wt bs).map fun (v, rest) => ({ r with timeReceived := v }, rest)
  | 666 => (fieldBytes wt bs).map fun (v, rest) => ({ r with publisher := v }, rest)
  | 777 => (fieldVarint wt bs).map fun (v, rest) => ({ r with ttl := toU32 v }, rest)
  | _ => fieldSkip r depth wt tag bs

def KRecord.mergeFrom (init : KRecord) (depth : Nat) (bs : List Nat) : Option KRecord :=
  decodeLoop (KRecord.merge depth) bs.length init bs

structure KPeer where
  id : List Nat := []
  addrs : List (List Nat) := []
  connection : Int := 0
  deriving Repr, DecidableEq

def KPeer.merge (depth : Nat) (p : KPeer) (tag wt : Nat) (bs : List Nat) : Option (KPeer × List Nat) :=
  match tag with
  | 1 => (fieldBytes wt bs).map fun (v, rest) => ({ p with id := v }, rest)
  | 2 => (fieldBytes wt bs).map fun (v, rest) => ({ p with addrs := p.addrs ++ [v] }, rest)
  | 3 => (fieldVarint wt bs).map fun (v, rest) => ({ p with connection := toI32 v }, rest)
  | _ => fieldSkip p depth wt tag bs

def KPeer.decode (depth : Nat) (bs : List Nat) : Option KPeer :=
  decodeLoop (KPeer.merge depth) bs.length {} bs

structure KMessage where
  type : Int := 0
  clusterLevelRaw : Int := 0
  key : List Nat := []
  record : Option KRecord := none
  closerPeers : List KPeer := []
  providerPeers : List KPeer := []
  deriving Repr, DecidableEq

def KMessage.merge (depth : Nat) (m : KMessage) (tag wt : Nat) (bs : List Nat) : Option (KMessage × List Nat) :=
  match tag with
  | 1 => (fieldVarint wt bs).map fun (v, rest) => ({ m with type := toI32 v }, rest)
  | 10 => (fieldVarint wt bs).map fun (v, rest) => ({ m with clusterLevelRaw := toI32 v }, rest)
  | 2 => (fieldBytes wt bs).map fun (v, rest) => ({ m with key := v }, rest)
  | 3 => (fieldMessage (KRecord.mergeFrom (m.record.getD {})) depth wt bs).map
      fun (v, rest) => ({ m with record := some v }, rest)
  | 8 => (fieldMessage KPeer.decode depth wt bs).map
      fun (v, rest) => ({ m with closerPeers := m.closerPeers ++ [v] }, rest)
  | 9 => (fieldMessage KPeer.decode depth wt bs).map
      fun (v, rest) => ({ m with providerPeers := m.providerPeers ++ [v] }, rest)
  | _ => fieldSkip m depth wt tag bs

/-- `schema::kademlia::Message::decode`. -/
def KMessage.decode (bs : List Nat) : Option KMessage :=
  decodeLoop (KMessage.merge recursionLimit) bs.length {} bs

/-! ## identify.proto (proto2) -/

structure Identify where
  protocolVersion : Option (List Nat) := none
  agentVersion : Option (List Nat) := none
  publicKey : Option (List Nat) := none
  listenAddrs : List (List Nat) := []
  observedAddr : Option (List Nat) := none
  protocols : List (List Nat) := []
  deriving Repr, DecidableEq

def Identify.merge (depth : Nat) (m : Identify) (tag wt : Nat) (bs : List Nat) : Option (Identify × List Nat) :=
  match tag with
  | 5 => (fieldString wt bs).map fun (v, rest) => ({ m with protocolVersion := some v }, rest)
  | 6 => (fieldString wt bs).map fun (v, rest) => ({ m with agentVersion := some v }, rest)
  | 1 => (fieldBytes wt bs).map fun (v, rest) => ({ m with publicKey := some v }, rest)
  | 2 => (fieldBytes wt bs).map fun (v, rest) => ({ m with listenAddrs := m.listenAddrs ++ [v] }, rest)
  | 4 => (fieldBytes wt bs).map fun (v, rest) => ({ m with observedAddr := some v }, rest)
  | 3 => (fieldString wt bs).map fun (v, rest) => ({ m with protocols := m.protocols ++ [v] }, rest)
  | _ => fieldSkip m depth wt tag bs

def Identify.decode (bs : List Nat) : Option Identify :=
  decodeLoop (Identify.merge recursionLimit) bs.length {} bs

/-! ## keys.proto (proto2; prost does not enforce `required`) -/

structure PublicKeyPb where
  type : Int := 0
  data : List Nat := []
  deriving Repr, DecidableEq

def PublicKeyPb.merge (depth : Nat) (m : PublicKeyPb) (tag wt : Nat) (bs : List Nat) :
    Option (PublicKeyPb × List Nat) :=
  match tag with
  | 1 => (fieldVarint wt bs).map fun (v, rest) => ({ m with type := toI32 v }, rest)
  | 2 => (fieldBytes wt bs).map fun (v, rest) => ({ m with data := v }, rest)
  | _ => fieldSkip m depth wt tag bs

def PublicKeyPb.decode (bs : List Nat) : Option PublicKeyPb :=
  decodeLoop (PublicKeyPb.merge recursionLimit) bs.length {} bs

/-- `RemotePublicKey::from_protobuf_encoding` without the `rsa` feature: only Ed25519 (type 1) with
exactly 32 key bytes. The curve-point validity check of ed25519-dalek is a parameter. -/
inductive KeyResult where
  | ok (key : List Nat)
  | decodeErr
  | unknownKeyType
  | invalidData
  deriving Repr, DecidableEq

def remotePublicKey (validPoint : List Nat → Bool) (bs : List Nat) : KeyResult :=
  match PublicKeyPb.decode bs with
  | none => .decodeErr
  | some pk =>
    if pk.type = 1 then
      (if pk.data.length = 32 ∧ validPoint pk.data then .ok pk.data else .invalidData)
    else .unknownKeyType

/-! ## noise.proto (proto2) -/

structure NoiseExtensions where
  webtransportCerthashes : List (List Nat) := []
  streamMuxers : List (List Nat) := []
  deriving Repr, DecidableEq

def NoiseExtensions.merge (depth : Nat) (m : NoiseExtensions) (tag wt : Nat) (bs : List Nat) :
    Option (NoiseExtensions × List Nat) :=
  match tag with
  | 1 => (fieldBytes wt bs).map fun (v, rest) => ({ m with webtransportCerthashes := m.webtransportCerthashes ++ [v] }, rest)
  | 2 => (fieldString wt bs).map fun (v, rest) => ({ m with streamMuxers := m.streamMuxers ++ [v] }, rest)
  | _ => fieldSkip m depth wt tag bs

def NoiseExtensions.mergeFrom (init : NoiseExtensions) (depth : Nat) (bs : List Nat) : Option NoiseExtensions :=
  decodeLoop (NoiseExtensions.merge depth) bs.length init bs

structure NoisePayload where
  identityKey : Option (List Nat) := none
  identitySig : Option (List Nat) := none
  extensions : Option NoiseExtensions := none
  deriving Repr, DecidableEq

def NoisePayload.merge (depth : Nat) (m : NoisePayload) (tag wt : Nat) (bs : List Nat) :
    Option (NoisePayload × List Nat) :=
  match tag with
  | 1 => (fieldBytes wt bs).map fun (v, rest) => ({ m with identityKey := some v }, rest)
  | 2 => (fieldBytes wt bs).map fun (v, rest) => ({ m with identitySig := some v }, rest)
  | 4 => (fieldMessage (NoiseExtensions.mergeFrom (m.extensions.getD {})) depth wt bs).map
      fun (v, rest) => ({ m with extensions := some v }, rest)
  | _ => fieldSkip m depth wt tag bs

def NoisePayload.decode (bs : List Nat) : Option NoisePayload :=
  decodeLoop (NoisePayload.merge recursionLimit) bs.length {} bs

/-! ## bitswap.proto -/

structure BsEntry where
  block : List Nat := []
  priority : Int := 0
  cancel : Bool := false
  wantType : Int := 0
  sendDontHave : Bool := false
  deriving Repr, DecidableEq

def BsEntry.merge (depth : Nat) (m : BsEntry) (tag wt : Nat) (bs : List Nat) : Option (BsEntry × List Nat) :=
  match tag with
  | 1 => (fieldBytes wt bs).map fun (v, rest) => ({ m with block := v }, rest)
  | 2 => (fieldVarint wt bs).map fun (v, rest) => ({ m with priority := toI32 v }, rest)
  | 3 => (fieldVarint wt bs).map fun (v, rest) => ({ m with cancel := v != 0 }, rest)
  | 4 => (fieldVarint wt bs).map fun (v, rest) => ({ m with wantType := toI32 v }, rest)
  | 5 => (fieldVarint wt bs).map fun (v, rest) => ({ m with sendDontHave := v != 0 }, rest)
  | _ => fieldSkip m depth wt tag bs

def BsEntry.decode (depth : Nat) (bs : List Nat) : Option BsEntry :=
  decodeLoop (BsEntry.merge depth) bs.length {} bs

structure BsWantlist where
  entries : List BsEntry := []
  full : Bool := false
  deriving Repr, DecidableEq

def BsWantlist.merge (depth : Nat) (m : BsWantlist) (tag wt : Nat) (bs : List Nat) :
    Option (BsWantlist × List Nat) :=
  match tag with
  | 1 => (fieldMessage BsEntry.decode depth wt bs).map fun (v, rest) => ({ m with entries := m.entries ++ [v] }, rest)
  | 2 => (fieldVarint wt bs).map fun (v, rest) => ({ m with full := v != 0 }, rest)
  | _ => fieldSkip m depth wt tag bs

def BsWantlist.mergeFrom (init : BsWantlist) (depth : Nat) (bs : List Nat) : Option BsWantlist :=
  decodeLoop (BsWantlist.merge depth) bs.length init bs

structure BsBlock where
  pfx : List Nat := []
  data : List Nat := []
  deriving Repr, DecidableEq

def BsBlock.merge (depth : Nat) (m : BsBlock) (tag wt : Nat) (bs : List Nat) : Option (BsBlock × List Nat) :=
  match tag with
  | 1 => (fieldBytes wt bs).map fun (v, rest) => ({ m with pfx := v }, rest)
  | 2 => (fieldBytes wt bs).map fun (v, rest) => ({ m with data := v }, rest)
  | _ => fieldSkip m depth wt tag bs

def BsBlock.decode (depth : Nat) (bs : List Nat) : Option BsBlock :=
  decodeLoop (BsBlock.merge depth) bs.length {} bs

structure BsPresence where
  cid : List Nat := []
  type : Int := 0
  deriving Repr, DecidableEq

def BsPresence.merge (depth : Nat) (m : BsPresence) (tag wt : Nat) (bs : List Nat) :
    Option (BsPresence × List Nat) :=
  match tag with
  | 1 => (fieldBytes wt bs).map fun (v, rest) => ({ m with cid := v }, rest)
  | 2 => (fieldVarint wt bs).map fun (v, rest) => ({ m with type := toI32 v }, rest)
  | _ => fieldSkip m depth wt tag bs

def BsPresence.decode (depth : Nat) (bs : List Nat) : Option BsPresence :=
  decodeLoop (BsPresence.merge depth) bs.length {} bs

structure BsMessage where
  wantlist : Option BsWantlist := none
  blocks : List (List Nat) := []
  payload : List BsBlock := []
  blockPresences : List BsPresence := []
  pendingBytes : Int := 0
  deriving Repr, DecidableEq

def BsMessage.merge (depth : Nat) (m : BsMessage) (tag wt : Nat) (bs : List Nat) :
    Option (BsMessage × List Nat) :=
  match tag with
  | 1 => (fieldMessage (BsWantlist.mergeFrom (m.wantlist.getD {})) depth wt bs).map
      fun (v, rest) => ({ m with wantlist := some v }, rest)
  | 2 => (fieldBytes wt bs).map fun (v, rest) => ({ m with blocks := m.blocks ++ [v] }, rest)
  | 3 => (fieldMessage BsBlock.decode depth wt bs).map fun (v, rest) => ({ m with payload := m.payload ++ [v] }, rest)
  | 4 => (fieldMessage BsPresence.decode depth wt bs).map
      fun (v, rest) => ({ m with blockPresences := m.blockPresences ++ [v] }, rest)
  | 5 => (fieldVarint wt bs).map fun (v, rest) => ({ m with pendingBytes := toI32 v }, rest)
  | _ => fieldSkip m depth wt tag bs

def BsMessage.decode (bs : List Nat) : Option BsMessage :=
  decodeLoop (BsMessage.merge recursionLimit) bs.length {} bs

end Litep2pVerif.Wire
