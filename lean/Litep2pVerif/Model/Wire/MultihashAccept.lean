/-!
# Accept/reject decision of `PeerId::from_bytes` (src/peer_id.rs) as used by the message decoders

`Multihash::<64>::from_bytes` (multihash 0.19: code varint, size varint ≤ 64, exactly `size` digest
bytes, no trailing bytes) with `unsigned_varint::io::read_u64` (≤ 10 bytes, `NotMinimal` when a
multi-byte varint ends in a zero byte, silent truncation of the 10th byte's high bits), followed by
`PeerId::from_multihash` (sha2-256 code 0x12 with any digest length, or identity code 0x00 with at
most 42 digest bytes). The full peer-id model with its theorems is C18's (`Model/Id/*`); this file
only provides the decision the decoders need.
-/
namespace Litep2pVerif.Wire

/-- `unsigned_varint::io::read_u64`: value and remaining bytes. -/
def uvarU64Aux : Nat → Nat → List Nat → Option (Nat × List Nat)
  | _, _, [] => none
  | i, acc, b :: rest =>
    let n := (acc + (b % 128) * 2 ^ (7 * i)) % 2 ^ 64
    if b < 128 then
      if b = 0 ∧ 0 < i then none else some (n, rest)
    else if 9 ≤ i then none
    else uvarU64Aux (i + 1) n rest

def uvarU64 (bs : List Nat) : Option (Nat × List Nat) := uvarU64Aux 0 0 bs

/-- `Multihash::<64>::from_bytes`: (code, digest). -/
def multihashFromBytes (bs : List Nat) : Option (Nat × List Nat) :=
  match uvarU64 bs with
  | none => none
  | some (code, r1) =>
    match uvarU64 r1 with
    | none => none
    | some (size, r2) =>
      if 64 < size then none
      else if r2.length ≠ size then none
      else some (code, r2)

/-- `PeerId::from_bytes(bs).is_ok()`. -/
def peerIdOk (bs : List Nat) : Bool :=
  match multihashFromBytes bs with
  | none => false
  | some (code, digest) => code = 0x12 || (code = 0 && digest.length ≤ 42)

end Litep2pVerif.Wire
