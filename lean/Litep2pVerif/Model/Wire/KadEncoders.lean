import Litep2pVerif.Model.Wire.KadMessage
/-!
# The hand-written Kademlia encoders of src/protocol/libp2p/kademlia/message.rs

Each `KademliaMessage::<constructor>` builds a `schema::kademlia::Message` with struct-update syntax
over `Default::default()` and calls prost's `encode`; here: the same `KMessage` value, encoded with the
generated `KMessage.encode`. Inputs are what the Rust functions take, reduced to bytes: a peer is its
`PeerId::to_bytes()`, the byte strings of `address_store.addresses(MAX_ADDRESSES)` and its connection
type (`From<&KademliaPeer> for schema::kademlia::Peer`, types.rs); a record is key, value, the
publisher's peer-id bytes and the TTL `record_to_schema` computes from the clock (0 = no expiry,
otherwise 1 … u32::MAX).
-/
namespace Litep2pVerif.Wire

structure PeerIn where
  id : List Nat
  addrs : List (List Nat)
  conn : Int
  deriving Repr, DecidableEq

/-- `impl From<&KademliaPeer> for schema::kademlia::Peer`. -/
def peerToSchema (p : PeerIn) : KPeer := { id := p.id, addrs := p.addrs, connection := p.conn }

structure RecordIn where
  key : List Nat
  value : List Nat
  publisher : Option (List Nat)
  ttl : Nat
  deriving Repr, DecidableEq

/-- `record_to_schema`. -/
def recordToSchema (r : RecordIn) : KRecord :=
  { key := r.key, value := r.value, timeReceived := [], publisher := r.publisher.getD [], ttl := r.ttl }

/-- `KademliaMessage::find_node`. -/
def kadFindNode (key : List Nat) : KMessage := { key := key, type := 4, clusterLevelRaw := 10 }

/-- `KademliaMessage::put_value`. -/
def kadPutValue (r : RecordIn) : KMessage :=
  { key := r.key, type := 0, record := some (recordToSchema r), clusterLevelRaw := 10 }

/-- `KademliaMessage::get_record`. -/
def kadGetRecord (key : List Nat) : KMessage := { key := key, type := 1, clusterLevelRaw := 10 }

/-- `KademliaMessage::find_node_response`. -/
def kadFindNodeResponse (key : List Nat) (peers : List PeerIn) : KMessage :=
  { key := key, clusterLevelRaw := 10, type := 4, closerPeers := peers.map peerToSchema }

/-- `KademliaMessage::put_value_response`. -/
def kadPutValueResponse (key value : List Nat) : KMessage :=
  { key := key, clusterLevelRaw := 10, type := 0, record := some { key := key, value := value } }

/-- `KademliaMessage::get_value_response`. -/
def kadGetValueResponse (key : List Nat) (peers : List PeerIn) (record : Option RecordIn) : KMessage :=
  { key := key, clusterLevelRaw := 10, type := 1, closerPeers := peers.map peerToSchema,
    record := record.map recordToSchema }

/-- `KademliaMessage::add_provider`: the provider is sent with `ConnectionType::CanConnect` (2). -/
def kadAddProvider (key : List Nat) (provider : PeerIn) : KMessage :=
  { key := key, clusterLevelRaw := 10, type := 2, providerPeers := [peerToSchema { provider with conn := 2 }] }

/-- `KademliaMessage::get_providers_request`. -/
def kadGetProvidersRequest (key : List Nat) : KMessage := { key := key, clusterLevelRaw := 10, type := 3 }

/-- `KademliaMessage::get_providers_response`: providers are sent with `NotConnected` (0), no key. -/
def kadGetProvidersResponse (providers closer : List PeerIn) : KMessage :=
  { clusterLevelRaw := 10, type := 3, closerPeers := closer.map peerToSchema,
    providerPeers := providers.map fun p => peerToSchema { p with conn := 0 } }

/-- The bytes a request (`find_node`, `get_record`, `get_providers_request`) puts on the wire, written
out: type, key, clusterLevelRaw = 10 in tag order, defaults omitted. -/
def encodeKadRequest (type : Nat) (key : List Nat) : List Nat :=
  (if type = 0 then [] else encVarintField 1 type) ++
  (if key = [] then [] else encBytesField 2 key) ++ encVarintField 10 10

/-- What `from_bytes` makes of a peer that was encoded from `p` (when it accepts it). -/
def peerOutOf (addrOk : List Nat → Bool) (p : PeerIn) : PeerOut :=
  { id := p.id, naddrs := min ((p.addrs.filter addrOk).eraseDups).length addressStoreCapacity, conn := p.conn }

/-- A peer `KademliaPeer::try_from` accepts: parseable peer id, connection type 0..3. -/
def peerInOk (peerIdOk : List Nat → Bool) (p : PeerIn) : Prop := peerIdOk p.id = true ∧ 0 ≤ p.conn ∧ p.conn ≤ 3

instance (peerIdOk : List Nat → Bool) : DecidablePred (peerInOk peerIdOk) :=
  fun p => inferInstanceAs (Decidable (peerIdOk p.id = true ∧ 0 ≤ p.conn ∧ p.conn ≤ 3))

/-- A record whose publisher (if any) is a non-empty parseable peer id. -/
def recordInOk (peerIdOk : List Nat → Bool) (r : RecordIn) : Prop :=
  match r.publisher with
  | none => True
  | some p => p ≠ [] ∧ peerIdOk p = true

instance (peerIdOk : List Nat → Bool) : DecidablePred (recordInOk peerIdOk) := fun r => by
  unfold recordInOk; split <;> infer_instance

def recordOutOf (r : RecordIn) : RecordOut :=
  { key := r.key, value := r.value, publisher := r.publisher, hasExpiry := 0 < r.ttl }

end Litep2pVerif.Wire
