/-! `impl Stream for TcpTransport` (`/repo/src/transport/tcp/mod.rs`, `poll_next`) as "drain until an event or nothing
ready", and the `Transport` calls that feed / consume its maps (`negotiate`, `accept`/`reject`, `accept_pending` /
`reject_pending`).

The queues of the model hold the READY results only, in the order the `FuturesUnordered` hands them out (futures that
are not ready have a wake-up registered by the `Future` contract and do not matter to one poll). One call of `pollNext`
is one call of `poll_next`: the listener first (one socket → `PendingInboundConnection`), then `pending_raw_connections`
(`while let`), then `pending_connections` (`while let`); a result that yields no `TransportEvent` (failed inbound
negotiation, result of a cancelled / unknown `open`) is swallowed and the loop goes on. `none` = `Poll::Pending`.

The waker contract of `Stream::poll_next`: when `Pending` is returned, a wake-up must be registered for everything
that can still produce an item. A ready result left in a `FuturesUnordered` has NO wake-up registered (its wake-up was
spent when it became ready), so the contract reads: `Pending` ⇒ no ready result is left behind. -/
namespace Litep2pVerif.Tcp.Poll

abbrev Id := Nat

/-- Output of a future of `pending_connections`: `Ok(NegotiatedConnection)` / `Err((connection_id, error))`. -/
inductive ConnRes where
  | ok (id : Id)
  | err (id : Id)
  deriving DecidableEq, Repr

/-- `RawConnectionResult`. -/
inductive RawRes where
  | connected (id : Id)
  | failed (id : Id)
  | canceled (id : Id)
  deriving DecidableEq, Repr

/-- `TransportEvent`s of the TCP transport. -/
inductive Ev where
  | pendingInbound (id : Id)
  | opened (id : Id)
  | openFailure (id : Id)
  | established (id : Id)
  | dialFailure (id : Id)
  deriving DecidableEq, Repr

structure T where
  /-- sockets the listener has ready -/
  accepted : Nat := 0
  /-- `context.next_connection_id` -/
  nextId : Id := 0
  /-- ready results of `pending_raw_connections`, in the order they are handed out -/
  raw : List RawRes := []
  /-- ready results of `pending_connections` -/
  conns : List ConnRes := []
  /-- keys of `pending_dials` -/
  dials : List Id := []
  /-- `cancel_futures`: id ↦ `is_aborted()` -/
  handles : List (Id × Bool) := []
  /-- keys of `opened` -/
  opened : List Id := []
  /-- keys of `pending_open` -/
  pendingOpen : List Id := []
  /-- keys of `pending_inbound_connections` -/
  pendingInbound : List Id := []
  deriving DecidableEq, Repr

def lookupH (hs : List (Id × Bool)) (id : Id) : Option Bool := (hs.find? (·.1 = id)).map (·.2)
def eraseH (hs : List (Id × Bool)) (id : Id) : List (Id × Bool) := hs.filter (·.1 ≠ id)
def eraseId (l : List Id) (id : Id) : List Id := l.filter (· ≠ id)
def insertId (l : List Id) (id : Id) : List Id := if id ∈ l then l else l ++ [id]

/-- The `while let Poll::Ready(Some(result)) = self.pending_raw_connections.poll_next_unpin(cx)` loop:
`(event, results left, cancel_futures, opened)`. -/
def pollRaw : List RawRes → List (Id × Bool) → List Id → Option Ev × List RawRes × List (Id × Bool) × List Id
  | [], hs, op => (none, [], hs, op)
  | .connected id :: rest, hs, op =>
    match lookupH hs id with
    | none => pollRaw rest hs op                                   -- "raw connection without a cancel handle": continue
    | some aborted =>
      if !aborted then (some (.opened id), rest, eraseH hs id, insertId op id)
      else pollRaw rest (eraseH hs id) op
  | .failed id :: rest, hs, op =>
    match lookupH hs id with
    | none => pollRaw rest hs op
    | some aborted =>
      if !aborted then (some (.openFailure id), rest, eraseH hs id, op)
      else pollRaw rest (eraseH hs id) op
  | .canceled id :: rest, hs, op => pollRaw rest (eraseH hs id) op

/-- The `while let Poll::Ready(Some(connection)) = self.pending_connections.poll_next_unpin(cx)` loop:
`(event, results left, pending_dials, pending_open)`. -/
def pollConns : List ConnRes → List Id → List Id → Option Ev × List ConnRes × List Id × List Id
  | [], ds, po => (none, [], ds, po)
  | .ok id :: rest, ds, po => (some (.established id), rest, eraseId ds id, insertId po id)
  | .err id :: rest, ds, po =>
    if id ∈ ds then (some (.dialFailure id), rest, eraseId ds id, po)
    else pollConns rest ds po                                      -- "Pending inbound connection failed": swallowed

/-- One `poll_next`; `none` = `Poll::Pending`. -/
def pollNext (t : T) : Option Ev × T :=
  if t.accepted > 0 then
    (some (.pendingInbound t.nextId),
     { t with accepted := t.accepted - 1, nextId := t.nextId + 1, pendingInbound := insertId t.pendingInbound t.nextId })
  else
    match pollRaw t.raw t.handles t.opened with
    | (some e, raw, hs, op) => (some e, { t with raw := raw, handles := hs, opened := op })
    | (none, raw, hs, op) =>
      match pollConns t.conns t.dials t.pendingOpen with
      | (e, conns, ds, po) => (e, { t with raw := raw, handles := hs, opened := op, conns := conns, dials := ds, pendingOpen := po })

/-- An executor: poll again after every item, stop at `Pending` (nothing wakes the task: every queued result was
ready already). -/
def drain : Nat → T → List Ev × T
  | 0, t => ([], t)
  | n + 1, t =>
    match pollNext t with
    | (none, t') => ([], t')
    | (some e, t') => let r := drain n t'; (e :: r.1, r.2)

/-- Number of queued ready results. -/
def size (t : T) : Nat := t.accepted + t.raw.length + t.conns.length

/-- `Transport::negotiate(id)`: an `opened` connection goes back into `pending_connections` as a ready `Ok`. -/
def negotiate (t : T) (id : Id) : Bool × T :=
  if id ∈ t.opened then (true, { t with opened := eraseId t.opened id, conns := t.conns ++ [.ok id] }) else (false, t)

/-- `Transport::reject(id)` (and `accept(id)` as far as the map goes): the entry of `pending_open` is consumed. -/
def reject (t : T) (id : Id) : Bool × T :=
  if id ∈ t.pendingOpen then (true, { t with pendingOpen := eraseId t.pendingOpen id }) else (false, t)

/-- `Transport::reject_pending(id)` / `accept_pending(id)`: the entry of `pending_inbound_connections` is consumed. -/
def rejectPending (t : T) (id : Id) : Bool × T :=
  if id ∈ t.pendingInbound then (true, { t with pendingInbound := eraseId t.pendingInbound id }) else (false, t)

/-! ## What the executor must have collected (specification, independent of the loop structure) -/

/-- The events the results of `pending_raw_connections` stand for, given `cancel_futures`. -/
def rawEvs : List RawRes → List (Id × Bool) → List Ev
  | [], _ => []
  | .connected id :: rest, hs =>
    match lookupH hs id with
    | none => rawEvs rest hs
    | some aborted => if !aborted then .opened id :: rawEvs rest (eraseH hs id) else rawEvs rest (eraseH hs id)
  | .failed id :: rest, hs =>
    match lookupH hs id with
    | none => rawEvs rest hs
    | some aborted => if !aborted then .openFailure id :: rawEvs rest (eraseH hs id) else rawEvs rest (eraseH hs id)
  | .canceled id :: rest, hs => rawEvs rest (eraseH hs id)

/-- The events the results of `pending_connections` stand for, given `pending_dials`. -/
def connEvs : List ConnRes → List Id → List Ev
  | [], _ => []
  | .ok id :: rest, ds => .established id :: connEvs rest (eraseId ds id)
  | .err id :: rest, ds => if id ∈ ds then .dialFailure id :: connEvs rest (eraseId ds id) else connEvs rest ds

def inboundEvs : Nat → Id → List Ev
  | 0, _ => []
  | n + 1, id => .pendingInbound id :: inboundEvs n (id + 1)

/-- Every event the queued results stand for. -/
def due (t : T) : List Ev := inboundEvs t.accepted t.nextId ++ rawEvs t.raw t.handles ++ connEvs t.conns t.dials

/-! ## The seeded variant (for the non-vacuity witness): `if let` instead of `while let` on `pending_connections` -/

def pollConnsOnce : List ConnRes → List Id → List Id → Option Ev × List ConnRes × List Id × List Id
  | [], ds, po => (none, [], ds, po)
  | .ok id :: rest, ds, po => (some (.established id), rest, eraseId ds id, insertId po id)
  | .err id :: rest, ds, po =>
    if id ∈ ds then (some (.dialFailure id), rest, eraseId ds id, po) else (none, rest, ds, po)

/-! ## `TcpTransport::open`: the future it pushes into `pending_raw_connections` (round `gtcp`)

`open(id, addresses)` builds ONE future: the addresses are attempted through `buffer_unordered(max_parallel_dials)`
(here `max_parallel_dials = 1`: one after the other), a successful attempt resolves it to `Connected`, the exhausted
list to `Failed`, and so does the overall deadline `DIAL_DEADLINE_MULTIPLIER * connection_open_timeout`
(`_ = &mut deadline => return RawConnectionResult::Failed {..}`) — the deadline interrupts an attempt in flight. The
future is wrapped in `futures::future::abortable(..).unwrap_or_else(|_| Canceled)`: `Canceled` comes out only when the
manager called `Transport::cancel(id)` while it was running. Time is logical: a stalled attempt (the remote accepts
the TCP connection and never speaks) lasts `timeout`, a refused or answered one lasts no time. -/

/-- What the node behind a dialed address does. -/
inductive AddrKind where
  | stall    -- accepts the TCP connection, never speaks: the attempt runs into `connection_open_timeout`
  | refuse   -- connection refused
  | answer   -- negotiates
  deriving DecidableEq, Repr

/-- The `loop { select! { futures.next(), deadline } }` of `open` with attempts run one at a time: the result and the
time at which it is ready. `el`: time elapsed since the future started. -/
def openRun (id : Id) (timeout deadline : Nat) : List AddrKind → Nat → RawRes × Nat
  | [], el => (.failed id, el)                                  -- `None =>` every address failed
  | .refuse :: rest, el => openRun id timeout deadline rest el  -- `Some(Err(error)) => errors.push(error)`
  | .answer :: _, el => (.connected id, el)                     -- `Some(Ok(negotiated)) =>`
  | .stall :: rest, el =>
    if deadline ≤ el + timeout then (.failed id, deadline)      -- `_ = &mut deadline =>` "overall dial timeout exceeded"
    else openRun id timeout deadline rest (el + timeout)

/-- The future `open` queues: `abortable(future).unwrap_or_else(|_| Canceled { connection_id })`. `cancelAt`: when the
manager calls `Transport::cancel(id)` (if it does); an abort after the result was handed out changes nothing. -/
def openFuture (id : Id) (timeout mult : Nat) (addrs : List AddrKind) (cancelAt : Option Nat) : RawRes :=
  let r := openRun id timeout (mult * timeout) addrs 0
  match cancelAt with
  | some c => if c < r.2 then .canceled id else r.1
  | none => r.1

/-- The transport right after `open(id, addrs)` once its future is ready: the result queued, the cancel handle
inserted (aborted iff the manager cancelled in time). -/
def afterOpen (id : Id) (timeout mult : Nat) (addrs : List AddrKind) (cancelAt : Option Nat) : T :=
  let r := openFuture id timeout mult addrs cancelAt
  { raw := [r], handles := [(id, decide (r = .canceled id))] }

/-- The seeded variant (non-vacuity witness): the deadline arm returns `Canceled`. -/
def openRunSilent (id : Id) (timeout deadline : Nat) : List AddrKind → Nat → RawRes × Nat
  | [], el => (.failed id, el)
  | .refuse :: rest, el => openRunSilent id timeout deadline rest el
  | .answer :: _, el => (.connected id, el)
  | .stall :: rest, el =>
    if deadline ≤ el + timeout then (.canceled id, deadline)
    else openRunSilent id timeout deadline rest (el + timeout)

end Litep2pVerif.Tcp.Poll
