/-!
# Base58 (crate `bs58` 0.5.1, bitcoin alphabet) — executable model

`bs58::decode::decode_into` and `bs58::encode::encode_into` are the same loop with the two bases
swapped: the output buffer holds little-endian digits in the output base; for every input digit the
buffer is multiplied by the input base and the digit added (`carryLoop`, the inner `for byte in
&mut output[..index]`), the remaining carry is appended (`pushCarry`, the `while val > 0` loop).
Afterwards one zero digit is appended per leading zero digit of the input and the buffer is
reversed. `val & 0xFF`, `val >>= 8`, `<< 8` are `% 256`, `/ 256`, `* 256`.

Core Lean only (the model driver links this file).
-/
namespace Litep2pVerif.Id.Base58

/-- Inner loop `for byte in &mut output[..index] { carry += byte * bi; byte = carry % bo; carry /= bo }`.
Returns the updated digits and the carry left over. -/
def carryLoop (bi bo : Nat) : List Nat → Nat → List Nat × Nat
  | [], c => ([], c)
  | d :: ds, c =>
    ((c + d * bi) % bo :: (carryLoop bi bo ds ((c + d * bi) / bo)).1,
     (carryLoop bi bo ds ((c + d * bi) / bo)).2)

/-- `while carry > 0 { output[index] = carry % bo; index += 1; carry /= bo }` (fuel: the carry). -/
def pushCarry (bo : Nat) : Nat → Nat → List Nat
  | 0, _ => []
  | f + 1, c => if c = 0 then [] else c % bo :: pushCarry bo f (c / bo)

/-- One iteration of the outer loop for the input digit `v`. -/
def stepDigit (bi bo : Nat) (out : List Nat) (v : Nat) : List Nat :=
  (carryLoop bi bo out v).1 ++ pushCarry bo (carryLoop bi bo out v).2 (carryLoop bi bo out v).2

/-- The outer loop over all input digits (big endian); result little endian in base `bo`. -/
def convLE (bi bo : Nat) (ds : List Nat) : List Nat := ds.foldl (stepDigit bi bo) []

/-- `input.iter().take_while(|c| **c == zero).count()` -/
def leadingZeros (ds : List Nat) : Nat := (ds.takeWhile (· == 0)).length

/-- Whole conversion of big-endian digits in base `bi` to big-endian digits in base `bo`, leading
zero digits preserved one for one. -/
def conv (bi bo : Nat) (ds : List Nat) : List Nat :=
  (convLE bi bo ds ++ List.replicate (leadingZeros ds) 0).reverse

/-- `Alphabet::BITCOIN.encode` — "123456789ABCDEFGHJKLMNPQRSTUVWXYZabcdefghijkmnopqrstuvwxyz". -/
def alphabet : List Nat :=
  [49, 50, 51, 52, 53, 54, 55, 56, 57,
   65, 66, 67, 68, 69, 70, 71, 72, 74, 75, 76, 77, 78, 80, 81, 82, 83, 84, 85, 86, 87, 88, 89, 90,
   97, 98, 99, 100, 101, 102, 103, 104, 105, 106, 107, 109, 110, 111, 112, 113, 114, 115, 116, 117,
   118, 119, 120, 121, 122]

/-- `alpha.encode[d]` -/
def encodeDigit (d : Nat) : Nat := alphabet.getD d 0

/-- `alpha.decode[c]` (`none` is the table's `0xFF`). -/
def decodeChar (c : Nat) : Option Nat :=
  if alphabet.idxOf c < 58 then some (alphabet.idxOf c) else none

inductive Err where
  | nonAscii (index : Nat)
  | invalidChar (index : Nat)
  deriving DecidableEq, Repr

/-- First pass of `decode_into`: map characters to digit values; the first offending character
(by index) decides the error (`*c > 127` is tested before the table lookup). -/
def digitsOf : Nat → List Nat → Except Err (List Nat)
  | _, [] => .ok []
  | i, c :: cs =>
    if c > 127 then .error (.nonAscii i)
    else match decodeChar c with
      | none => .error (.invalidChar i)
      | some d => match digitsOf (i + 1) cs with
        | .error e => .error e
        | .ok ds => .ok (d :: ds)

/-- `bs58::encode(bytes).into_string()` (as ASCII codes). -/
def encode (bytes : List UInt8) : List UInt8 :=
  (conv 256 58 (bytes.map (·.toNat))).map (fun d => UInt8.ofNat (encodeDigit d))

/-- `bs58::decode(s).into_vec()` on the UTF-8 bytes of `s`. -/
def decode (s : List UInt8) : Except Err (List UInt8) :=
  match digitsOf 0 (s.map (·.toNat)) with
  | .error e => .error e
  | .ok ds => .ok ((conv 58 256 ds).map UInt8.ofNat)

end Litep2pVerif.Id.Base58
