import Litep2pVerif.Model.Id.Multihash
import Litep2pVerif.Model.Id.Base58
/-!
# `litep2p::PeerId` (src/peer_id.rs) and the reference `libp2p_identity::PeerId` (0.2.14,
= `multiaddr::PeerId`) — executable models

`maxInline` is `MAX_INLINE_KEY_LENGTH` of src/peer_id.rs (regenerated into
`Litep2pVerif.Consts.MAX_INLINE_KEY_LENGTH`); the reference's own constant is the literal 42 below.
SHA-256 is the parameter `hash`. `expect`s are the explicit value `Panic`.
-/
namespace Litep2pVerif.Id
open Multihash (Multihash)

/-- `MULTIHASH_IDENTITY_CODE` -/
def IDENTITY_CODE : Nat := 0x00
/-- `u64::from(Code::Sha2_256)` (multihash-codetable) -/
def SHA2_256_CODE : Nat := 0x12

inductive Panic where
  | expect (msg : String)
  deriving DecidableEq, Repr

/-! ## The reference: libp2p-identity 0.2.14 `src/peer_id.rs` (transcribed independently) -/
namespace Ref

def MAX_INLINE_KEY_LENGTH : Nat := 42
def MULTIHASH_IDENTITY_CODE : Nat := 0
def MULTIHASH_SHA256_CODE : Nat := 0x12

structure PeerId where
  multihash : Multihash
  deriving DecidableEq, Repr

inductive ParseError where
  | b58 (e : Base58.Err)
  | unsupportedCode (code : Nat)
  | invalidMultihash (e : Multihash.Err)
  deriving DecidableEq, Repr

/-- `PeerId::from_multihash` -/
def fromMultihash (mh : Multihash) : Except Multihash PeerId :=
  if mh.code = MULTIHASH_SHA256_CODE then .ok ⟨mh⟩
  else if mh.code = MULTIHASH_IDENTITY_CODE ∧ mh.digest.length ≤ MAX_INLINE_KEY_LENGTH then .ok ⟨mh⟩
  else .error mh

/-- `PeerId::from_bytes` -/
def fromBytes (data : List UInt8) : Except ParseError PeerId :=
  match Multihash.fromBytes data with
  | .error e => .error (.invalidMultihash e)
  | .ok mh => match fromMultihash mh with
    | .error mh => .error (.unsupportedCode mh.code)
    | .ok p => .ok p

/-- `PeerId::from_public_key` on the protobuf encoding `key_enc` of the key. -/
def fromKeyEncoding (hash : List UInt8 → List UInt8) (keyEnc : List UInt8) : Except Panic PeerId :=
  if keyEnc.length ≤ MAX_INLINE_KEY_LENGTH then
    match Multihash.wrap MULTIHASH_IDENTITY_CODE keyEnc with
    | .ok mh => .ok ⟨mh⟩
    | .error _ => .error (.expect "64 byte multihash provides sufficient space")
  else
    match Multihash.wrap MULTIHASH_SHA256_CODE (hash keyEnc) with
    | .ok mh => .ok ⟨mh⟩
    | .error _ => .error (.expect "64 byte multihash provides sufficient space")

def toBytes (p : PeerId) : List UInt8 := Multihash.toBytes p.multihash
def toBase58 (p : PeerId) : List UInt8 := Base58.encode (toBytes p)

/-- `FromStr` -/
def fromStr (s : List UInt8) : Except ParseError PeerId :=
  match Base58.decode s with
  | .error e => .error (.b58 e)
  | .ok bytes => fromBytes bytes

end Ref

/-! ## litep2p `src/peer_id.rs` -/

structure PeerId where
  multihash : Multihash
  deriving DecidableEq, Repr

inductive ParseError where
  | b58 (e : Base58.Err)
  | multiHash
  deriving DecidableEq, Repr

namespace PeerId

/-- `PeerId::from_multihash` -/
def fromMultihash (maxInline : Nat) (mh : Multihash) : Except Multihash PeerId :=
  if mh.code = SHA2_256_CODE then .ok ⟨mh⟩
  else if mh.code = IDENTITY_CODE ∧ mh.digest.length ≤ maxInline then .ok ⟨mh⟩
  else .error mh

/-- `PeerId::from_public_key_protobuf` -/
def fromPublicKeyProtobuf (maxInline : Nat) (hash : List UInt8 → List UInt8) (keyEnc : List UInt8) :
    Except Panic PeerId :=
  if keyEnc.length ≤ maxInline then
    match Multihash.wrap IDENTITY_CODE keyEnc with
    | .ok mh => .ok ⟨mh⟩
    | .error _ => .error (.expect "key_enc.len() <= MAX_INLINE_KEY_LENGTH which fits in Multihash<64>")
  else
    -- `Code::Sha2_256.digest(key_enc)` = `Multihash::wrap(0x12, sha256(key_enc)).unwrap()`
    match Multihash.wrap SHA2_256_CODE (hash keyEnc) with
    | .ok mh => .ok ⟨mh⟩
    | .error _ => .error (.expect "digest fits in Multihash<64>")

/-- `PeerId::from_bytes` -/
def fromBytes (maxInline : Nat) (data : List UInt8) : Except ParseError PeerId :=
  match Multihash.fromBytes data with
  | .error _ => .error .multiHash
  | .ok mh => match fromMultihash maxInline mh with
    | .error _ => .error .multiHash
    | .ok p => .ok p

/-- `PeerId::to_bytes` -/
def toBytes (p : PeerId) : List UInt8 := Multihash.toBytes p.multihash

/-- `PeerId::to_base58` (ASCII codes) -/
def toBase58 (p : PeerId) : List UInt8 := Base58.encode (toBytes p)

/-- `FromStr for PeerId` -/
def fromStr (maxInline : Nat) (s : List UInt8) : Except ParseError PeerId :=
  match Base58.decode s with
  | .error e => .error (.b58 e)
  | .ok bytes => fromBytes maxInline bytes

/-- `PeerId::random()` given the 32 random bytes. -/
def random (r : List UInt8) : Except Panic PeerId :=
  match Multihash.wrap IDENTITY_CODE r with
  | .ok mh => .ok ⟨mh⟩
  | .error _ => .error (.expect "The digest size is never too large")

/-- `PeerId::to_multiaddr_peer_id` = `multiaddr::PeerId::try_from(multihash)`. -/
def toMultiaddrPeerId (p : PeerId) : Except Multihash Ref.PeerId := Ref.fromMultihash p.multihash

/-- `From<PeerId> for multiaddr::PeerId` (`.expect("litep2p PeerId is always a valid multiaddr PeerId")`). -/
def intoMultiaddrPeerId (p : PeerId) : Except Panic Ref.PeerId :=
  match toMultiaddrPeerId p with
  | .ok r => .ok r
  | .error _ => .error (.expect "litep2p PeerId is always a valid multiaddr PeerId")

end PeerId

/-- A `multiaddr::Protocol`: only `/p2p/<peer id>` matters here. -/
inductive Protocol where
  | p2p (peer : Ref.PeerId)
  | other (tag : Nat)
  deriving DecidableEq, Repr

/-- `multiaddr::Multiaddr` as its list of components. -/
abbrev Multiaddr := List Protocol

/-- `PeerId::try_from_multiaddr`: `address.iter().last()` is `/p2p/…` and `from_multihash` accepts. -/
def PeerId.tryFromMultiaddr (maxInline : Nat) (address : Multiaddr) : Option PeerId :=
  match address.getLast? with
  | some (.p2p peer) =>
    match PeerId.fromMultihash maxInline peer.multihash with
    | .ok p => some p
    | .error _ => none
  | _ => none

/-- `crypto::PublicKey::to_protobuf_encoding` for `PublicKey::Ed25519(key)`: proto2 message
`{ required KeyType Type = 1 (Ed25519 = 1); required bytes Data = 2 }` with 32 key bytes. -/
def ed25519Protobuf (key : List UInt8) : List UInt8 :=
  [0x08, 0x01, 0x12, UInt8.ofNat key.length] ++ key

/-- `Serialize`/`Deserialize`: human readable = base58 text, binary = raw bytes. -/
def PeerId.serialize (humanReadable : Bool) (p : PeerId) : List UInt8 :=
  if humanReadable then p.toBase58 else p.toBytes
def PeerId.deserialize (maxInline : Nat) (humanReadable : Bool) (v : List UInt8) : Except ParseError PeerId :=
  if humanReadable then PeerId.fromStr maxInline v else PeerId.fromBytes maxInline v

/-! ## Which `PeerId` values exist

The field `multihash` is private: a `PeerId` can only come out of the constructors below (safe Rust).
Arguments of Rust type `Multihash<64>` / `multiaddr::PeerId` satisfy their type invariant `Wf`. -/

/-- The invariant all constructors establish (it is the reference's acceptance rule as well). -/
def PeerId.Valid (maxInline : Nat) (p : PeerId) : Prop :=
  Multihash.Wf p.multihash ∧
  (p.multihash.code = SHA2_256_CODE ∨
    (p.multihash.code = IDENTITY_CODE ∧ p.multihash.digest.length ≤ maxInline))

inductive PeerId.Constructible (maxInline : Nat) (hash : List UInt8 → List UInt8) : PeerId → Prop
  | ofKey (k : List UInt8) (p : PeerId) :
      PeerId.fromPublicKeyProtobuf maxInline hash k = .ok p → Constructible maxInline hash p
  | ofMultihash (mh : Multihash) (p : PeerId) : Multihash.Wf mh →
      PeerId.fromMultihash maxInline mh = .ok p → Constructible maxInline hash p
  | ofBytes (bs : List UInt8) (p : PeerId) :
      PeerId.fromBytes maxInline bs = .ok p → Constructible maxInline hash p
  | ofStr (s : List UInt8) (p : PeerId) :
      PeerId.fromStr maxInline s = .ok p → Constructible maxInline hash p
  | ofRandom (r : List UInt8) (p : PeerId) : r.length = 32 →
      PeerId.random r = .ok p → Constructible maxInline hash p
  | ofMultiaddr (a : Multiaddr) (p : PeerId) : (∀ r, Protocol.p2p r ∈ a → Multihash.Wf r.multihash) →
      PeerId.tryFromMultiaddr maxInline a = some p → Constructible maxInline hash p
  | ofDeserialize (hr : Bool) (v : List UInt8) (p : PeerId) :
      PeerId.deserialize maxInline hr v = .ok p → Constructible maxInline hash p

end Litep2pVerif.Id
