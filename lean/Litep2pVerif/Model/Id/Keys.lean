import Litep2pVerif.Model.Id.PeerId
/-!
# Ed25519 key material (src/crypto/ed25519.rs) — properties C18 / C01

`Keypair::try_from_bytes`, `SecretKey::try_from_bytes`, `PublicKey::try_from_bytes`, `PublicKey::verify`,
`Keypair::{to_bytes, secret, public}`, `From<SecretKey> for Keypair`: the length rules, the zeroing of the
caller's buffer (on success only) and the consistency check between the two halves of a keypair are
modelled; the curve arithmetic of `ed25519-dalek` is the parameter `Curve`.
-/
namespace Litep2pVerif.Id.Keys

abbrev Bytes := List UInt8

/-- What `ed25519-dalek` computes. -/
structure Curve where
  /-- `SigningKey::from_bytes(seed).verifying_key().to_bytes()` for a 32-byte seed. -/
  derive : Bytes → Bytes
  /-- `VerifyingKey::from_bytes` accepts these 32 bytes. -/
  validPoint : Bytes → Bool
  /-- `VerifyingKey::verify(msg, sig)` for a 64-byte signature. -/
  sigValid : Bytes → Bytes → Bytes → Bool

/-- `Keypair` (`ed25519::SigningKey`: seed and cached public key). -/
structure Keypair where
  secret : Bytes
  pub : Bytes
  deriving DecidableEq, Repr

def zeros (n : Nat) : Bytes := List.replicate n 0

/-- `Keypair::try_from_bytes(&mut kp)`: the result and the caller's buffer afterwards
(`SigningKey::from_keypair_bytes`: both halves must parse and the public half must be the one
derived from the secret half; `kp.zeroize()` only on success). -/
def keypairFromBytes (c : Curve) (buf : Bytes) : Option Keypair × Bytes :=
  if buf.length = 64 then
    if c.validPoint (buf.drop 32) && (c.derive (buf.take 32) == buf.drop 32) then
      (some ⟨buf.take 32, buf.drop 32⟩, zeros buf.length)
    else (none, buf)
  else (none, buf)

/-- `Keypair::to_bytes`. -/
def Keypair.toBytes (k : Keypair) : Bytes := k.secret ++ k.pub

/-- `SecretKey::try_from_bytes(sk_bytes)`: result and buffer afterwards. -/
def secretFromBytes (buf : Bytes) : Option Bytes × Bytes :=
  if buf.length = 32 then (some buf, zeros buf.length) else (none, buf)

/-- `Keypair::from(SecretKey)`. -/
def keypairOfSecret (c : Curve) (secret : Bytes) : Keypair := ⟨secret, c.derive secret⟩

/-- `PublicKey::try_from_bytes`. -/
def publicFromBytes (c : Curve) (k : Bytes) : Option Bytes :=
  if k.length = 32 && c.validPoint k then some k else none

/-- `PublicKey::verify(msg, sig)`: `Signature::try_from(sig)` (64 bytes) and then the curve check. -/
def verify (c : Curve) (key msg sig : Bytes) : Bool :=
  sig.length == 64 && c.sigValid key msg sig

/-- A keypair as `Keypair::generate`/`from(SecretKey)` produce it. -/
def Keypair.Wf (c : Curve) (k : Keypair) : Prop :=
  k.secret.length = 32 ∧ k.pub.length = 32 ∧ k.pub = c.derive k.secret ∧ c.validPoint k.pub = true

end Litep2pVerif.Id.Keys
