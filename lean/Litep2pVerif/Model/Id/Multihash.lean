import Litep2pVerif.Model.Id.Varint
/-!
# multihash 0.19.5, `Multihash<64>` — executable model of `wrap`, `read`, `from_bytes`, `to_bytes`

The Rust struct is `{ code: u64, size: u8, digest: [u8; 64] }` with `digest()` = `digest[..size]`
(equality and hashing look at `code` and `digest()` only); the model keeps `digest()` as a list,
`size` is its length.
-/
namespace Litep2pVerif.Id.Multihash
open Litep2pVerif.Id

/-- The const generic `S` of `Multihash<64>`. -/
def S : Nat := 64

inductive Err where
  | varint (e : Varint.Err)   -- `Error::Varint` / insufficient varint bytes
  | invalidSize (n : Nat)     -- `Error::invalid_size`
  | io                        -- `read_exact` hit the end of the input
  deriving DecidableEq, Repr

structure Multihash where
  code : Nat
  digest : List UInt8
  deriving DecidableEq, Repr

/-- The type invariant of a Rust `Multihash<64>` value: `code: u64`, `size ≤ 64`. -/
def Wf (mh : Multihash) : Prop := mh.code < 2 ^ 64 ∧ mh.digest.length ≤ S

/-- `Multihash::wrap(code, input_digest)`. -/
def wrap (code : Nat) (input : List UInt8) : Except Err Multihash :=
  if input.length > S then .error (.invalidSize input.length) else .ok ⟨code, input⟩

/-- `read_multihash`: code (u64 varint), size (u64 varint), `size > S || size > u8::MAX` rejected,
then `read_exact` of `size` digest bytes. Returns the unread rest as well. -/
def read (r : List UInt8) : Except Err (Multihash × List UInt8) :=
  match Varint.readU64 r with
  | .error e => .error (.varint e)
  | .ok (code, r1) =>
    match Varint.readU64 r1 with
    | .error e => .error (.varint e)
    | .ok (size, r2) =>
      if size > S ∨ size > 255 then .error (.invalidSize size)
      else if r2.length < size then .error .io
      else .ok (⟨code, r2.take size⟩, r2.drop size)

/-- `Multihash::from_bytes`: `read`, then "There were more bytes supplied than read". -/
def fromBytes (bytes : List UInt8) : Except Err Multihash :=
  match read bytes with
  | .error e => .error e
  | .ok (mh, rest) => if rest.length ≠ 0 then .error (.invalidSize rest.length) else .ok mh

/-- `Multihash::to_bytes` = `write_multihash(code, size, digest)`. -/
def toBytes (mh : Multihash) : List UInt8 :=
  Varint.encodeU64 mh.code ++ Varint.encodeU8 mh.digest.length ++ mh.digest

end Litep2pVerif.Id.Multihash
