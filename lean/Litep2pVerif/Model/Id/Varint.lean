/-!
# unsigned-varint 0.8.0 — executable model of `decode!`, `io::read_u64` and `encode!`

Core Lean only. Bytes are `UInt8`; all arithmetic happens on their `toNat`, fixed-width behaviour
(`u64`) is explicit: the shift `k << (i * 7)` is taken modulo `2 ^ bits` (bits shifted out are
silently lost, as in Rust), a shift amount `≥ bits` is the debug-build panic `shiftPanic`.
-/
namespace Litep2pVerif.Id.Varint

inductive Err where
  | insufficient   -- `decode::Error::Insufficient` / `io::ErrorKind::UnexpectedEof`
  | overflow       -- `decode::Error::Overflow`
  | notMinimal     -- `decode::Error::NotMinimal`
  | shiftPanic     -- "attempt to shift left with overflow" (proved unreachable)
  deriving DecidableEq, Repr

/-- `decode::is_last`: `b & 0x80 == 0`. -/
def isLast (b : UInt8) : Bool := b.toNat &&& 0x80 == 0

/-- `n |= $typ::from(b & 0x7F) << (i * 7)` on a `bits`-wide unsigned integer. -/
def accum (bits n i : Nat) (b : UInt8) : Nat :=
  n ||| ((b.toNat &&& 0x7F) <<< (i * 7)) % 2 ^ bits

/-- The `decode!` macro: `for (i, b) in buf.iter().cloned().enumerate()` with loop state `n`, `i`. -/
def decodeLoop (maxBytes bits : Nat) : Nat → Nat → List UInt8 → Except Err (Nat × List UInt8)
  | _, _, [] => .error .insufficient
  | n, i, b :: rest =>
    if bits ≤ i * 7 then .error .shiftPanic
    else if isLast b then
      if b.toNat = 0 ∧ 0 < i then .error .notMinimal
      else .ok (accum bits n i b, rest)
    else if i = maxBytes then .error .overflow
    else decodeLoop maxBytes bits (accum bits n i b) (i + 1) rest

/-- `decode::u64(buf)` = `decode!(buf, 9, u64)`. -/
def decodeU64 (buf : List UInt8) : Except Err (Nat × List UInt8) := decodeLoop 9 64 0 0 buf

/-- `io::read_u64(reader)`: read single bytes into a 10-byte buffer until `is_last`, then run
`decode::u64` on the bytes read; `fuel` = remaining buffer slots, `buf` = bytes read so far.
Returns the value and the unread rest of the reader. -/
def readLoop : Nat → List UInt8 → List UInt8 → Except Err (Nat × List UInt8)
  | 0, _, _ => .error .overflow
  | _ + 1, _, [] => .error .insufficient
  | f + 1, buf, b :: rest =>
    if isLast b then
      match decodeU64 (buf ++ [b]) with
      | .ok (n, _) => .ok (n, rest)
      | .error e => .error e
    else readLoop f (buf ++ [b]) rest

/-- `unsigned_varint::io::read_u64` (buffer `encode::u64_buffer()`, `U64_LEN = 10`). -/
def readU64 (r : List UInt8) : Except Err (Nat × List UInt8) := readLoop 10 [] r

/-- The `encode!` macro: `for b in buf.iter_mut() { *b = n as u8 | 0x80; n >>= 7; if n == 0 { *b &= 0x7f; break } }`;
`fuel` = length of the buffer. (Fuel exhaustion is the `debug_assert_eq!(n, 0)`; it does not happen
for `n < 2 ^ (7 * fuel)`, see `Proofs/Id/Varint.lean`.) -/
def encodeLoop : Nat → Nat → List UInt8
  | 0, _ => []
  | f + 1, n =>
    if n / 128 = 0 then [UInt8.ofNat (n % 128)]
    else UInt8.ofNat (n % 128 + 128) :: encodeLoop f (n / 128)

/-- `encode::u64` (`U64_LEN = 10`). -/
def encodeU64 (n : Nat) : List UInt8 := encodeLoop 10 n
/-- `encode::u8` (`U8_LEN = 2`). -/
def encodeU8 (n : Nat) : List UInt8 := encodeLoop 2 n

/-- Number of bytes up to and including the first byte without continuation bit (the length of the
varint at the head of `bs`; `bs.length` if there is none). -/
def headLen : List UInt8 → Nat
  | [] => 0
  | b :: rest => if isLast b then 1 else 1 + headLen rest

end Litep2pVerif.Id.Varint
