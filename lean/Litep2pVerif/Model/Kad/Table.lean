import Litep2pVerif.Model.Kad.Bucket
/-!
# Model of `RoutingTable` and `ClosestBucketsIter` (src/protocol/libp2p/kademlia/routing_table.rs)
— property C14

`RoutingTable::entry` = bucket index of the distance to the local key (`LocalNode` for distance 0)
followed by `KBucket::entry` on that bucket; the `&mut` reference it returns is used by the callers
within the same call, so every table operation is "select the bucket, run the bucket-level
operation" (`Table.atBucket`). `self.buckets[index]` panics when out of range; the model leaves the
table unchanged there, and `index_in_range` (Props/C14) shows the index is always in range for
256-bit keys and `NUM_BUCKETS = 256`.
-/
namespace Litep2pVerif.Kad.Table
open Litep2pVerif.Kad.Key Litep2pVerif.Kad.Bucket

structure Table where
  localKey : Nat
  buckets : List Bucket
  deriving Repr, DecidableEq

/-- `RoutingTable::new` with `nb = NUM_BUCKETS`. -/
def Table.new (nb localKey : Nat) : Table := ⟨localKey, List.replicate nb []⟩

/-- Select the bucket for `key` and apply `f` to it; nothing for the local key. -/
def Table.atBucket (t : Table) (key : Nat) (f : Bucket → Bucket) : Table :=
  match bucketIndex (distance t.localKey key) with
  | none => t
  | some i => { t with buckets := t.buckets.modify i f }

/-- `RoutingTable::entry`, observable part: the kind of entry returned (the table is mutated
when a placeholder is pushed). -/
def Table.entry (K : Nat) (t : Table) (key rnd : Nat) : Table × Entry :=
  match bucketIndex (distance t.localKey key) with
  | none => (t, .localNode)
  | some i =>
    (t.atBucket key (fun b => (Bucket.entry K b key rnd).1),
     (Bucket.entry K (t.buckets.getD i []) key rnd).2)

/-- `RoutingTable::add_known_peer` (`naddrs` = number of addresses supplied). -/
def Table.addKnownPeer (K : Nat) (t : Table) (peer key naddrs : Nat) (conn : Conn) (rnd : Nat) : Table :=
  if naddrs = 0 then t
  else t.atBucket key (fun b => Bucket.addKnownPeer K b peer key naddrs conn rnd)

/-- `RoutingTable::on_connection_established`. -/
def Table.onConnectionEstablished (K : Nat) (t : Table) (key : Nat) (dialer : Bool) (rnd : Nat) : Table :=
  t.atBucket key (fun b => Bucket.onConnectionEstablished K b key dialer rnd)

/-- `RoutingTable::on_dial_failure`. -/
def Table.onDialFailure (K : Nat) (t : Table) (key naddrs rnd : Nat) : Table :=
  t.atBucket key (fun b => Bucket.onDialFailure K b key naddrs rnd)

/-- `Kademlia::disconnect_peer`'s use of the table (mod.rs). -/
def Table.onDisconnected (K : Nat) (t : Table) (key rnd : Nat) : Table :=
  t.atBucket key (fun b => Bucket.onDisconnected K b key rnd)

/-! ## `ClosestBucketsIter` -/

/-- `ClosestBucketsIterState`. -/
inductive IterState
  | start (i : Nat)
  | zoomIn (i : Nat)
  | zoomOut (i : Nat)
  | done
  deriving Repr, DecidableEq

structure Iter where
  distance : Nat
  state : IterState
  deriving Repr, DecidableEq

/-- `ClosestBucketsIter::new`. -/
def Iter.new (d : Nat) : Iter :=
  ⟨d, match bucketIndex d with
      | some i => .start i
      | none => .start 0⟩

/-- `next_in`: `(0..i).rev().find_map(|i| distance.bit(i).then_some(i))` as a downward loop. -/
def nextIn (d : Nat) : Nat → Option Nat
  | 0 => none
  | i + 1 => if d.testBit i then some i else nextIn d i

/-- `(j..j+n).find_map(|i| (!distance.bit(i)).then_some(i))` as an upward loop. -/
def nextOutFrom (d : Nat) (j : Nat) : Nat → Option Nat
  | 0 => none
  | n + 1 => if !d.testBit j then some j else nextOutFrom d (j + 1) n

/-- `next_out`: the range is `i + 1 .. NUM_BUCKETS`. -/
def nextOut (nb d i : Nat) : Option Nat := nextOutFrom d (i + 1) (nb - (i + 1))

/-- `Iterator::next`. -/
def Iter.next (nb : Nat) (it : Iter) : Option Nat × Iter :=
  match it.state with
  | .start i => (some i, { it with state := .zoomIn i })
  | .zoomIn i =>
    match nextIn it.distance i with
    | some j => (some j, { it with state := .zoomIn j })
    | none => (some 0, { it with state := .zoomOut 0 })
  | .zoomOut i =>
    match nextOut nb it.distance i with
    | some j => (some j, { it with state := .zoomOut j })
    | none => (none, { it with state := .done })
  | .done => (none, it)

/-- Drain the iterator (`fuel` bounds the number of `next` calls). -/
def Iter.drain (nb : Nat) : Nat → Iter → List Nat
  | 0, _ => []
  | fuel + 1, it =>
    match it.next nb with
    | (some i, it') => i :: Iter.drain nb fuel it'
    | (none, _) => []

/-- Everything `ClosestBucketsIter::new(d)` yields: at most `1 + log2 d + 1 + (nb - 1)` items. -/
def iterList (nb d : Nat) : List Nat := Iter.drain nb (d.log2 + nb + 3) (Iter.new d)

/-- `.filter(|index| previous.replace(*index) != Some(*index))` in `RoutingTable::closest`
(added by `fix: kademlia: visit each k-bucket once in RoutingTable::closest`): drops an index equal
to the one yielded immediately before it. -/
def skipRepeats : Option Nat → List Nat → List Nat
  | _, [] => []
  | prev, i :: is =>
    if prev = some i then skipRepeats (some i) is else i :: skipRepeats (some i) is

/-- The bucket indices `closest` visits. -/
def visited (nb d : Nat) : List Nat := skipRepeats none (iterList nb d)

/-- `RoutingTable::closest`. -/
def Table.closest (nb : Nat) (t : Table) (target limit : Nat) : List Slot :=
  ((visited nb (distance t.localKey target)).flatMap
    (fun i => closestIter target (t.buckets.getD i []))).take limit

/-- `RoutingTable::closest` before the fix (every yielded index is visited): kept to state the
witness of the repaired defect. -/
def Table.closestUnfixed (nb : Nat) (t : Table) (target limit : Nat) : List Slot :=
  ((iterList nb (distance t.localKey target)).flatMap
    (fun i => closestIter target (t.buckets.getD i []))).take limit

/-! ## Operation histories -/

inductive Op
  | add (peer key naddrs : Nat) (conn : Conn) (rnd : Nat)
  | connected (key : Nat) (dialer : Bool) (rnd : Nat)
  | dialFailure (key naddrs rnd : Nat)
  | disconnected (key rnd : Nat)
  | entry (key rnd : Nat)
  deriving Repr, DecidableEq

def Op.key : Op → Nat
  | .add _ k _ _ _ => k
  | .connected k _ _ => k
  | .dialFailure k _ _ => k
  | .disconnected k _ => k
  | .entry k _ => k

def step (K : Nat) (t : Table) : Op → Table
  | .add peer key naddrs conn rnd => t.addKnownPeer K peer key naddrs conn rnd
  | .connected key dialer rnd => t.onConnectionEstablished K key dialer rnd
  | .dialFailure key naddrs rnd => t.onDialFailure K key naddrs rnd
  | .disconnected key rnd => t.onDisconnected K key rnd
  | .entry key rnd => (t.entry K key rnd).1

/-- The table after a history of operations on a fresh table (`closest` does not change it). -/
def run (K nb localKey : Nat) (ops : List Op) : Table :=
  ops.foldl (step K) (Table.new nb localKey)

end Litep2pVerif.Kad.Table
