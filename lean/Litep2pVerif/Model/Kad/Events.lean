/-!
# Model of the coordinator's event channel (`Kademlia.event_tx` → `KademliaHandle`) — property C16

Every event of the coordinator (terminal events `FindNodeSuccess` / `PutRecordSuccess` / … / `QueryFailed`, and
`GetRecordPartialResult`, `IncomingRecord`, `IncomingProvider`, `RoutingTableUpdate`) reaches the user through one
bounded tokio mpsc channel (capacity `DEFAULT_CHANNEL_SIZE`) and is sent with `event_tx.send(ev).await`: when the
channel is full the event loop is SUSPENDED inside the handler holding the event (`blocked`), whatever it would do
next waits (`todo`: the events it will emit, in order, once it runs again), and the user's next `recv` frees a slot
which the suspended `send` takes. Nothing is dropped. (`try_send` instead of `send().await` drops the event when the
channel is full: `Chan.emitTry`, kept to state the contrast.)
-/
namespace Litep2pVerif.Kad.Events

structure Chan (α : Type) where
  cap : Nat
  /-- events in the channel, oldest first -/
  queue : List α := []
  /-- the event loop is suspended in `send(ev).await` with this event -/
  blocked : Option α := none
  /-- events the event loop emits, in this order, when it runs on -/
  todo : List α := []
  /-- what the user has read so far, oldest first -/
  got : List α := []
  deriving Repr, DecidableEq

variable {α : Type}

/-- The event loop reaches the point where it sends `e` (it may have to get there first: `todo`). -/
def Chan.emit (c : Chan α) (e : α) : Chan α := { c with todo := c.todo ++ [e] }

/-- One `event_tx.send(e).await` of the event loop, if it is not suspended: into the channel when there is room,
otherwise the loop suspends holding `e`. -/
def Chan.runOne (c : Chan α) : Chan α :=
  match c.blocked, c.todo with
  | none, e :: rest =>
    if c.queue.length < c.cap then { c with queue := c.queue ++ [e], todo := rest }
    else { c with blocked := some e, todo := rest }
  | _, _ => c

/-- The event loop runs as far as it can (`fuel` ≥ number of events it wants to send). -/
def Chan.run : Nat → Chan α → Chan α
  | 0, c => c
  | n + 1, c => Chan.run n c.runOne

/-- The user's `handle.next()`: the oldest event; the freed slot goes to the suspended `send`. -/
def Chan.read (c : Chan α) : Chan α :=
  match c.queue with
  | [] => c
  | e :: rest =>
    match c.blocked with
    | some b => { c with queue := rest ++ [b], blocked := none, got := c.got ++ [e] }
    | none => { c with queue := rest, got := c.got ++ [e] }

/-- The seeded variant: `try_send` drops the event when the channel is full. -/
def Chan.emitTry (c : Chan α) (e : α) : Chan α :=
  if c.queue.length < c.cap then { c with queue := c.queue ++ [e] } else c

/-- Schedules of the three parties. -/
inductive Step (α : Type)
  | emit (e : α)
  | run
  | read
  deriving Repr, DecidableEq

def Chan.step (c : Chan α) : Step α → Chan α
  | .emit e => c.emit e
  | .run => c.runOne
  | .read => c.read

/-- Everything emitted so far, in emission order: read ++ in the channel ++ held by the suspended send ++ not yet
sent. -/
def Chan.all (c : Chan α) : List α := c.got ++ c.queue ++ c.blocked.toList ++ c.todo

/-- Events not yet read. -/
def Chan.pending (c : Chan α) : Nat := c.queue.length + c.blocked.toList.length + c.todo.length

/-- The user reads until nothing is left (the event loop runs on after every read). -/
def Chan.drain : Nat → Chan α → Chan α
  | 0, c => c
  | n + 1, c => Chan.drain n (c.runOne.read.runOne)

/-- What the user has read after the event loop emitted `es` while the user did not read, and the user then read
everything (the schedule of the `burst`/`release` operations of the adapter). -/
def heldThenDrained (c : Chan α) (es : List α) : Chan α :=
  let c1 := es.foldl (fun c e => (c.emit e).runOne) c
  Chan.drain (c1.pending + 1) c1

end Litep2pVerif.Kad.Events
