import Litep2pVerif.Model.Kad.Key
/-!
# Model of `KBucket` / `KBucketEntry` (src/protocol/libp2p/kademlia/bucket.rs) — property C14

`KBucket::entry` returns a `&mut KademliaPeer` into `self.nodes`; the model returns the index of that
node together with the (possibly extended) node vector. When `len < K` and the key is not present,
`entry` *pushes a placeholder* `KademliaPeer::new(PeerId::random(), vec![], NotConnected)` and hands
out a `Vacant` reference to it; if the caller does not `insert` (e.g. `on_connection_established` for
an unknown peer) the placeholder stays. It is the explicit `Slot.junk` here; its key (the SHA-256 of a
random peer id) is the extra input `rnd`. Modelling assumption: a random placeholder key never equals
a key that is looked up (so `junk` never matches in the linear search).

The address store of a node is abstracted to the number of `AddressStore::insert` calls made on it:
the store starts empty, `insert` into an empty store always stores, and nothing is ever removed
without a replacement, hence `address_store.is_empty() ⇔ addrs = 0` (address.rs; C10 covers the store).
-/
namespace Litep2pVerif.Kad.Bucket
open Litep2pVerif.Kad.Key

/-- `ConnectionType`. -/
inductive Conn
  | notConnected | connected | canConnect | cannotConnect
  deriving Repr, DecidableEq

/-- `KademliaPeer`. -/
structure Peer where
  peer : Nat
  key : Nat
  addrs : Nat
  conn : Conn
  deriving Repr, DecidableEq

/-- One element of `KBucket::nodes`. -/
inductive Slot
  | junk (key : Nat)
  | real (p : Peer)
  deriving Repr, DecidableEq

def Slot.key : Slot → Nat
  | .junk k => k
  | .real p => p.key

def Slot.conn : Slot → Conn
  | .junk _ => .notConnected
  | .real p => p.conn

/-- `!peer.address_store.is_empty()`. -/
def Slot.hasAddr : Slot → Bool
  | .junk _ => false
  | .real p => p.addrs != 0

/-- `self.nodes[i].key == key` (never true for a random placeholder, see above). -/
def Slot.matchesKey (key : Nat) : Slot → Bool
  | .junk _ => false
  | .real p => p.key == key

/-- `ConnectionType::NotConnected | ConnectionType::CannotConnect`. -/
def Slot.replaceable (s : Slot) : Bool :=
  match s.conn with
  | .notConnected => true
  | .cannotConnect => true
  | _ => false

abbrev Bucket := List Slot

/-- `KBucketEntry`; `occupied`/`vacant` carry the index the `&mut` reference points to. -/
inductive Entry
  | localNode
  | occupied (i : Nat)
  | vacant (i : Nat)
  | noSlot
  deriving Repr, DecidableEq

/-- `KBucket::entry` with capacity literal `K` (20). -/
def entry (K : Nat) (b : Bucket) (key rnd : Nat) : Bucket × Entry :=
  match b.findIdx? (Slot.matchesKey key) with
  | some i => (b, .occupied i)
  | none =>
    if b.length < K then (b ++ [.junk rnd], .vacant b.length)
    else
      match b.findIdx? Slot.replaceable with
      | some i => (b, .vacant i)
      | none => (b, .noSlot)

/-- `KBucketEntry::insert`: overwrites the node behind a `Vacant` reference, else nothing. -/
def insert (b : Bucket) (e : Entry) (new : Peer) : Bucket :=
  match e with
  | .vacant i => b.set i (.real new)
  | _ => b

/-- Field updates through an `Occupied(&mut KademliaPeer)` reference. -/
def updateReal (f : Peer → Peer) : Slot → Slot
  | .real p => .real (f p)
  | s => s

/-- The part of `RoutingTable::add_known_peer` after the bucket has been selected
(`match self.entry(Key::from(peer))`). -/
def addKnownPeer (K : Nat) (b : Bucket) (peer key naddrs : Nat) (conn : Conn) (rnd : Nat) : Bucket :=
  match entry K b key rnd with
  | (b', .occupied i) =>
    b'.modify i (updateReal fun p => { p with addrs := p.addrs + naddrs, conn := conn })
  | (b', .vacant i) => insert b' (.vacant i) ⟨peer, key, naddrs, conn⟩
  | (b', _) => b'

/-- `RoutingTable::on_connection_established` on the selected bucket; `dialer` = the endpoint is
`Endpoint::Dialer` (its address is inserted into the store). -/
def onConnectionEstablished (K : Nat) (b : Bucket) (key : Nat) (dialer : Bool) (rnd : Nat) : Bucket :=
  match entry K b key rnd with
  | (b', .occupied i) =>
    b'.modify i (updateReal fun p =>
      { p with conn := .connected, addrs := if dialer then p.addrs + 1 else p.addrs })
  | (b', _) => b'

/-- `RoutingTable::on_dial_failure` on the selected bucket. -/
def onDialFailure (K : Nat) (b : Bucket) (key naddrs rnd : Nat) : Bucket :=
  match entry K b key rnd with
  | (b', .occupied i) => b'.modify i (updateReal fun p => { p with addrs := p.addrs + naddrs })
  | (b', _) => b'

/-- `Kademlia::disconnect_peer` (mod.rs): `if let Occupied(e) = routing_table.entry(key)
{ e.connection = NotConnected }`. -/
def onDisconnected (K : Nat) (b : Bucket) (key rnd : Nat) : Bucket :=
  match entry K b key rnd with
  | (b', .occupied i) => b'.modify i (updateReal fun p => { p with conn := .notConnected })
  | (b', _) => b'

/-- `KBucket::closest_iter`: stable sort of all nodes by distance to the target, then drop the nodes
with an empty address store. -/
def closestIter (target : Nat) (b : Bucket) : List Slot :=
  (b.mergeSort (fun x y => decide (distance target x.key ≤ distance target y.key))).filter Slot.hasAddr

end Litep2pVerif.Kad.Bucket
