/-!
# Model of the Kademlia query contexts (src/protocol/libp2p/kademlia/query/*.rs) — property C15

`FindNodeContext` (find_node.rs, with the repaired time-out accounting: every pending peer is
discounted from `pending_responses` at most once, remembered in `timed_out`), `GetRecordContext`
(get_record.rs), `GetProvidersContext` (get_providers.rs), `PutToTargetPeersContext`
(target_peers.rs), `FindManyNodesContext` (find_many_nodes.rs). The engine is in `QueryEngine.lean`.

Conventions: peers and query ids are numbers; a `KademliaPeer` is its peer id together with the XOR
distance of its key to the target of the query (an input, computed outside: SHA-256 is not
modelled; in the real code the distance is a function of the peer id). `BTreeMap<Distance, _>` is
a list of pairs strictly sorted by key; `HashMap`/`HashSet` are lists (iteration order is never
observable in these contexts); `Instant::now()` is the explicit input `now`, `elapsed()` is the
truncated difference.
-/
namespace Litep2pVerif.Kad.Query

/-- `KademliaPeer`: peer id and distance of its key to the target of the query. -/
structure KPeer where
  peer : Nat
  dist : Nat
  deriving Repr, DecidableEq

/-- `BTreeMap<Distance, KademliaPeer>`. -/
abbrev DMap := List (Nat × KPeer)

/-- `BTreeMap::insert` (replaces the value of an existing key). -/
def dinsert (k : Nat) (v : KPeer) : DMap → DMap
  | [] => [(k, v)]
  | (k', v') :: rest =>
    if k < k' then (k, v) :: (k', v') :: rest
    else if k = k' then (k, v) :: rest
    else (k', v') :: dinsert k v rest

/-- `BTreeMap::into_values`. -/
def dvalues (m : DMap) : List KPeer := m.map (·.2)

/-- `HashSet::insert`. -/
def sinsert (p : Nat) (s : List Nat) : List Nat := if p ∈ s then s else p :: s

/-- Query action as returned by the contexts. -/
inductive QAction where
  | send (query peer : Nat)
  | succeeded (query : Nat)
  | failed (query : Nat)
  | partialRecord (query peer record : Nat)
  deriving Repr, DecidableEq

/-- The candidate filter shared (textually) by `FindNodeContext`, `GetRecordContext` and
`GetProvidersContext::register_response`: peers that were not queried, are not pending and are not
the local node become candidates. -/
def addCandidates (localPeer : Nat) (queried pendingPeers : List Nat) (cands : DMap)
    (peers : List KPeer) : DMap :=
  peers.foldl (fun acc p =>
    if p.peer ∈ queried then acc
    else if p.peer ∈ pendingPeers then acc
    else if localPeer = p.peer then acc
    else dinsert p.dist p acc) cands

/-- `new`: the initial candidates (not filtered). -/
def initCandidates (inPeers : List KPeer) : DMap :=
  inPeers.foldl (fun acc c => dinsert c.dist c acc) []

/-! ## FindNodeContext -/

structure FindNode where
  localPeer : Nat
  repl : Nat
  par : Nat
  query : Nat
  /-- `HashMap<PeerId, (KademliaPeer, Instant)>` -/
  pending : List (KPeer × Nat) := []
  queried : List Nat := []
  candidates : DMap := []
  responses : DMap := []
  peerTimeout : Nat
  pendingResponses : Nat := 0
  timedOut : List Nat := []
  deriving Repr, DecidableEq

def FindNode.new (localPeer repl par query peerTimeout : Nat) (inPeers : List KPeer) : FindNode :=
  { localPeer, repl, par, query, peerTimeout, candidates := initCandidates inPeers }

def pendLookup (p : Nat) : List (KPeer × Nat) → Option (KPeer × Nat)
  | [] => none
  | x :: xs => if x.1.peer = p then some x else pendLookup p xs

def pendErase (p : Nat) (l : List (KPeer × Nat)) : List (KPeer × Nat) :=
  l.filter (fun x => x.1.peer ≠ p)

def pendPeers (l : List (KPeer × Nat)) : List Nat := l.map (·.1.peer)

/-- The counter update shared by `register_response` and `register_response_failure`: a peer that
already timed out was discounted before. -/
def FindNode.discount (s : FindNode) (p : Nat) : FindNode :=
  if p ∈ s.timedOut then { s with timedOut := s.timedOut.erase p }
  else { s with pendingResponses := s.pendingResponses - 1 }

def FindNode.registerResponseFailure (s : FindNode) (peer : Nat) : FindNode :=
  match pendLookup peer s.pending with
  | none => s
  | some (kp, _) =>
    { (FindNode.discount { s with pending := pendErase peer s.pending } kp.peer) with
      queried := sinsert kp.peer s.queried }

/-- Keep the `repl` closest responses. -/
def insertResponse (repl : Nat) (responses : DMap) (kp : KPeer) : DMap :=
  if responses.length < repl then dinsert kp.dist kp responses
  else if kp.dist < (responses.getLast?.map (·.1)).getD kp.dist then
    if repl < (dinsert kp.dist kp responses).length then (dinsert kp.dist kp responses).dropLast
    else dinsert kp.dist kp responses
  else responses

def FindNode.registerResponse (s : FindNode) (peer : Nat) (peers : List KPeer) : FindNode :=
  match pendLookup peer s.pending with
  | none => s
  | some (kp, _) =>
    { (FindNode.discount { s with pending := pendErase peer s.pending } kp.peer) with
      queried := sinsert kp.peer s.queried
      responses := insertResponse s.repl s.responses kp
      candidates := addCandidates s.localPeer (sinsert kp.peer s.queried)
        (pendPeers (pendErase peer s.pending)) s.candidates peers }

def FindNode.nextPeerAction (s : FindNode) (peer : Nat) : Option QAction :=
  if (pendLookup peer s.pending).isSome then some (.send s.query peer) else none

def FindNode.scheduleNextPeer (s : FindNode) (now : Nat) : FindNode × Option QAction :=
  match s.candidates with
  | [] => (s, none)
  | (_, c) :: rest =>
    ({ s with candidates := rest
              pending := (c, now) :: pendErase c.peer s.pending
              pendingResponses := s.pendingResponses + 1 },
     some (.send s.query c.peer))

/-- One iteration of the time-out loop of `next_action`. -/
def FindNode.markOne (now : Nat) (s : FindNode) (x : KPeer × Nat) : FindNode :=
  if s.peerTimeout < now - x.2 ∧ x.1.peer ∉ s.timedOut then
    { s with timedOut := x.1.peer :: s.timedOut, pendingResponses := s.pendingResponses - 1 }
  else s

def FindNode.markTimeouts (s : FindNode) (now : Nat) : FindNode :=
  s.pending.foldl (FindNode.markOne now) s

/-- The part of `next_action` after the time-out loop. -/
def FindNode.decide (s : FindNode) (now : Nat) : FindNode × Option QAction :=
  if s.pendingResponses = s.par then (s, none)
  else if s.responses.length < s.repl then s.scheduleNextPeer now
  else
    match s.candidates.head?, s.responses.getLast? with
    | some (_, c), some (kr, _) =>
      if c.dist < kr then s.scheduleNextPeer now else (s, some (.succeeded s.query))
    | _, _ => (s, some (.succeeded s.query))

def FindNode.nextAction (s : FindNode) (now : Nat) : FindNode × Option QAction :=
  if s.pending.isEmpty ∧ s.candidates.isEmpty then
    (s, some (if s.responses.isEmpty then .failed s.query else .succeeded s.query))
  else (s.markTimeouts now).decide now

/-! ## GetRecordContext -/

inductive Quorum where
  | all
  | one
  | n (k : Nat)
  deriving Repr, DecidableEq

structure GetRecord where
  localPeer : Nat
  knownRecords : Nat
  quorum : Quorum
  repl : Nat
  par : Nat
  query : Nat
  /-- `HashMap<PeerId, KademliaPeer>` -/
  pending : List KPeer := []
  queried : List Nat := []
  candidates : DMap := []
  foundRecords : Nat := 0
  /-- `VecDeque<PeerRecord>`: (peer, record) -/
  records : List (Nat × Nat) := []
  deriving Repr, DecidableEq

def GetRecord.new (localPeer repl par query : Nat) (quorum : Quorum) (localRecord : Bool)
    (inPeers : List KPeer) : GetRecord :=
  { localPeer, repl, par, query, quorum
    knownRecords := if localRecord then 1 else 0
    foundRecords := if localRecord then 1 else 0
    candidates := initCandidates inPeers }

/-- `GetRecordConfig::sufficient_records`. -/
def GetRecord.sufficient (s : GetRecord) (records : Nat) : Bool :=
  match s.quorum with
  | .all => s.repl ≤ s.knownRecords + records
  | .one => 1 ≤ s.knownRecords + records
  | .n k => k ≤ s.knownRecords + records

def kpLookup (p : Nat) : List KPeer → Option KPeer
  | [] => none
  | x :: xs => if x.peer = p then some x else kpLookup p xs

def kpErase (p : Nat) (l : List KPeer) : List KPeer := l.filter (fun x => x.peer ≠ p)

def GetRecord.registerResponseFailure (s : GetRecord) (peer : Nat) : GetRecord :=
  match kpLookup peer s.pending with
  | none => s
  | some kp => { s with pending := kpErase peer s.pending, queried := sinsert kp.peer s.queried }

/-- `record`: the value and whether it is expired on arrival. -/
def GetRecord.registerResponse (s : GetRecord) (peer : Nat) (record : Option (Nat × Bool))
    (peers : List KPeer) : GetRecord :=
  match kpLookup peer s.pending with
  | none => s
  | some kp =>
    { s with
      pending := kpErase peer s.pending
      records := match record with
        | some (v, false) => s.records ++ [(kp.peer, v)]
        | _ => s.records
      foundRecords := match record with
        | some (_, false) => s.foundRecords + 1
        | _ => s.foundRecords
      queried := sinsert kp.peer s.queried
      candidates := addCandidates s.localPeer (sinsert kp.peer s.queried)
        ((kpErase peer s.pending).map (·.peer)) s.candidates peers }

def GetRecord.nextPeerAction (s : GetRecord) (peer : Nat) : Option QAction :=
  if (kpLookup peer s.pending).isSome then some (.send s.query peer) else none

def GetRecord.scheduleNextPeer (s : GetRecord) : GetRecord × Option QAction :=
  match s.candidates with
  | [] => (s, none)
  | (_, c) :: rest =>
    ({ s with candidates := rest, pending := c :: kpErase c.peer s.pending },
     some (.send s.query c.peer))

def GetRecord.nextAction (s : GetRecord) : GetRecord × Option QAction :=
  match s.records with
  | (p, v) :: rest => ({ s with records := rest }, some (.partialRecord s.query p v))
  | [] =>
    if s.pending.isEmpty ∧ s.candidates.isEmpty then
      (s, some (if s.knownRecords + s.foundRecords = 0 then .failed s.query else .succeeded s.query))
    else if s.sufficient s.foundRecords then (s, some (.succeeded s.query))
    else if s.pending.length = s.par then (s, none)
    else s.scheduleNextPeer

/-! ## GetProvidersContext -/

/-- A provider record: peer, distance of the peer's key to the target, addresses. -/
structure Prov where
  peer : Nat
  dist : Nat
  addrs : List Nat
  deriving Repr, DecidableEq

structure GetProviders where
  localPeer : Nat
  par : Nat
  query : Nat
  knownProviders : List Prov
  pending : List KPeer := []
  queried : List Nat := []
  candidates : DMap := []
  foundProviders : List Prov := []
  deriving Repr, DecidableEq

def GetProviders.new (localPeer par query : Nat) (known : List Prov) (inPeers : List KPeer) :
    GetProviders :=
  { localPeer, par, query, knownProviders := known, candidates := initCandidates inPeers }

/-- `HashSet::extend` on addresses (kept sorted: the order of a hash set is not observable). -/
def addrInsert (a : Nat) : List Nat → List Nat
  | [] => [a]
  | b :: bs => if a < b then a :: b :: bs else if a = b then b :: bs else b :: addrInsert a bs

def addrUnion (xs ys : List Nat) : List Nat := ys.foldl (fun acc a => addrInsert a acc) xs

/-- `providers.entry(peer).or_default().extend(addresses)`. -/
def mergeProv (p : Prov) : List Prov → List Prov
  | [] => [{ p with addrs := addrUnion [] p.addrs }]
  | q :: qs => if q.peer = p.peer then { q with addrs := addrUnion q.addrs p.addrs } :: qs
               else q :: mergeProv p qs

/-- Sorted insertion by distance (stable). -/
def provSortInsert (p : Prov) : List Prov → List Prov
  | [] => [p]
  | q :: qs => if p.dist < q.dist then p :: q :: qs else q :: provSortInsert p qs

/-- `merge_and_sort_providers` (distances are pairwise different for different peers, so the
unstable sort has one possible result). -/
def mergeAndSortProviders (ps : List Prov) : List Prov :=
  (ps.foldl (fun acc p => mergeProv p acc) []).foldr provSortInsert []

def GetProviders.found (s : GetProviders) : List Prov :=
  mergeAndSortProviders (s.knownProviders ++ s.foundProviders)

def GetProviders.registerResponseFailure (s : GetProviders) (peer : Nat) : GetProviders :=
  match kpLookup peer s.pending with
  | none => s
  | some kp => { s with pending := kpErase peer s.pending, queried := sinsert kp.peer s.queried }

def GetProviders.registerResponse (s : GetProviders) (peer : Nat) (providers : List Prov)
    (peers : List KPeer) : GetProviders :=
  match kpLookup peer s.pending with
  | none => s
  | some kp =>
    { s with
      pending := kpErase peer s.pending
      foundProviders := s.foundProviders ++ providers
      queried := sinsert kp.peer s.queried
      candidates := addCandidates s.localPeer (sinsert kp.peer s.queried)
        ((kpErase peer s.pending).map (·.peer)) s.candidates peers }

def GetProviders.nextPeerAction (s : GetProviders) (peer : Nat) : Option QAction :=
  if (kpLookup peer s.pending).isSome then some (.send s.query peer) else none

def GetProviders.scheduleNextPeer (s : GetProviders) : GetProviders × Option QAction :=
  match s.candidates with
  | [] => (s, none)
  | (_, c) :: rest =>
    ({ s with candidates := rest, pending := c :: kpErase c.peer s.pending },
     some (.send s.query c.peer))

def GetProviders.nextAction (s : GetProviders) : GetProviders × Option QAction :=
  if s.pending.isEmpty ∧ s.candidates.isEmpty then
    (s, some (if s.foundProviders.isEmpty then .failed s.query else .succeeded s.query))
  else if s.pending.length = s.par then (s, none)
  else s.scheduleNextPeer

/-! ## PutToTargetPeersContext -/

structure PutTarget where
  query : Nat
  key : Nat
  peersToSucceed : Nat
  /-- `HashSet<PeerId>` -/
  pendingPeers : List Nat
  nSucceeded : Nat := 0
  deriving Repr, DecidableEq

def PutTarget.new (query key : Nat) (peers : List Nat) (quorum : Quorum) : PutTarget :=
  { query, key
    peersToSucceed := match quorum with
      | .one => 1
      | .n k => min k (max peers.length 1)
      | .all => max peers.length 1
    pendingPeers := peers.foldl (fun acc p => sinsert p acc) [] }

def PutTarget.registerSendSuccess (s : PutTarget) (peer : Nat) : PutTarget :=
  if peer ∈ s.pendingPeers then
    { s with pendingPeers := s.pendingPeers.erase peer, nSucceeded := s.nSucceeded + 1 }
  else s

def PutTarget.registerSendFailure (s : PutTarget) (peer : Nat) : PutTarget :=
  if peer ∈ s.pendingPeers then { s with pendingPeers := s.pendingPeers.erase peer } else s

def PutTarget.nextAction (s : PutTarget) : Option QAction :=
  if s.pendingPeers.isEmpty then
    if s.peersToSucceed ≤ s.nSucceeded then some (.succeeded s.query) else some (.failed s.query)
  else none

/-! ## FindManyNodesContext -/

structure FindMany where
  query : Nat
  peersToReport : List KPeer
  deriving Repr, DecidableEq

def FindMany.nextAction (s : FindMany) : Option QAction := some (.succeeded s.query)

end Litep2pVerif.Kad.Query
