/-!
# Model of the Kademlia query executor (`src/protocol/libp2p/kademlia/executor.rs`)

`QueryExecutor` is a pool of futures, one per submitted `(peer, query)`; each future runs on one substream:
`send_message` (write), `send_message_eat_failure` (write, failures reported as `AssumeSendSuccess`), `read_message`
(read), `send_request_read_response` (write, then read), `send_request_eat_response_failure` (write, then read with
every read failure reported as `AssumeSendSuccess`). Every write runs under `WRITE_TIMEOUT`, every read under
`READ_TIMEOUT` (`tokio::time::timeout`: the inner future is polled first, so an operation that becomes possible
exactly at the deadline still succeeds).

Time is discrete (seconds). The substream is a pipe whose remote end follows a script of timed events; one `tick`
advances the clock by one second, applies the events that are due and polls every pending future once — this is what
the adapter `src/verif/c16_exec.rs` does with the real executor on the paused tokio clock.

Core Lean only (the model driver links against this file).
-/
namespace Litep2pVerif.Kad.Executor

/-- Which `QueryExecutor` method created the future. -/
inductive Kind | send | sendEat | read | reqResp | reqEat
  deriving DecidableEq, Repr, Inhabited

/-- Events of the remote end / the transport. -/
inductive Ev
  /-- the pipe accepts bytes from now on -/
  | writable
  /-- both directions fail from now on -/
  | reset
  /-- a well-formed frame arrives -/
  | msg
  /-- the remote closes its write side -/
  | eof
  /-- a frame larger than the codec allows arrives -/
  | junk
  deriving DecidableEq, Repr, Inhabited

/-- `QueryResult` with its `FailureReason`. -/
inductive Res | sendOk | assumeOk | sendFailTimeout | sendFailClosed | readOk | readFailTimeout | readFailClosed
  deriving DecidableEq, Repr, Inhabited

structure Pipe where
  writable : Bool := false
  reset : Bool := false
  /-- bytes that arrived and were not read: `true` = a good frame, `false` = an oversized one -/
  inbox : List Bool := []
  eof : Bool := false
  deriving DecidableEq, Repr, Inhabited

def Pipe.apply (p : Pipe) : Ev → Pipe
  | .writable => { p with writable := true }
  | .reset => { p with reset := true }
  | .msg => { p with inbox := p.inbox ++ [true] }
  | .eof => { p with eof := true }
  | .junk => { p with inbox := p.inbox ++ [false] }

inductive Phase
  | writing (deadline : Nat)
  | reading (deadline : Nat)
  | done
  deriving DecidableEq, Repr, Inhabited

structure Fut where
  id : Nat
  kind : Kind
  /-- the outgoing message exceeds the codec's maximum frame size -/
  big : Bool
  pipe : Pipe := {}
  phase : Phase
  /-- the complete outgoing frame reached the remote end -/
  written : Bool := false
  /-- remaining script: `(absolute second, event)` -/
  evs : List (Nat × Ev) := []
  deriving Repr, Inhabited

/-- Outcome of one poll of `substream.next()` under its timeout. -/
inductive ReadOut | msg | closed | timeout | pending
  deriving DecidableEq, Repr

def pollRead (p : Pipe) (now deadline : Nat) : ReadOut :=
  if p.reset then .closed
  else match p.inbox with
    | true :: _ => .msg
    | false :: _ => .closed
    | [] => if p.eof then .closed else if deadline ≤ now then .timeout else .pending

/-- Outcome of one poll of `substream.send_framed(message)` under its timeout. -/
inductive WriteOut | ok | closed | timeout | pending
  deriving DecidableEq, Repr

def pollWrite (big : Bool) (p : Pipe) (now deadline : Nat) : WriteOut :=
  if big then .closed            -- `send_unsigned_varint_payload`: size check before any I/O
  else if p.reset then .closed
  else if p.writable then .ok
  else if deadline ≤ now then .timeout else .pending

def readResult (kind : Kind) : ReadOut → Option Res
  | .msg => some .readOk
  | .closed => some (if kind = .reqEat then .assumeOk else .readFailClosed)
  | .timeout => some (if kind = .reqEat then .assumeOk else .readFailTimeout)
  | .pending => none

/-- One poll of the future at second `now` with read timeout `r`: the new state and the result it yields, if any. -/
def Fut.poll (f : Fut) (now r : Nat) : Fut × Option Res :=
  match f.phase with
  | .done => (f, none)
  | .reading dl =>
    match readResult f.kind (pollRead f.pipe now dl) with
    | some res => ({ f with phase := .done }, some res)
    | none => (f, none)
  | .writing dl =>
    match pollWrite f.big f.pipe now dl with
    | .pending => (f, none)
    | .timeout =>
      ({ f with phase := .done }, some (if f.kind = .sendEat then .assumeOk else .sendFailTimeout))
    | .closed =>
      ({ f with phase := .done }, some (if f.kind = .sendEat then .assumeOk else .sendFailClosed))
    | .ok =>
      if f.kind = .send ∨ f.kind = .sendEat then ({ f with phase := .done, written := true }, some .sendOk)
      else
        -- the same poll goes on with `substream.next()` under a fresh read timeout
        match readResult f.kind (pollRead f.pipe now (now + r)) with
        | some res => ({ f with phase := .done, written := true }, some res)
        | none => ({ f with phase := .reading (now + r), written := true }, none)

/-- Apply the events of the script that are due. -/
def Fut.applyDue (f : Fut) (now : Nat) : Fut :=
  { f with
    pipe := (f.evs.filter (fun e => e.1 ≤ now)).foldl (fun p e => p.apply e.2) f.pipe
    evs := f.evs.filter (fun e => !(e.1 ≤ now)) }

/-- The pool: the clock, the pending futures and everything the stream has yielded `(id, result, written, second)`. -/
structure Pool where
  now : Nat := 0
  pending : List Fut := []
  delivered : List (Nat × Res × Bool × Nat) := []
  /-- ghost: every submission `(id, kind, second)` -/
  submitted : List (Nat × Kind × Nat) := []
  deriving Repr, Inhabited

/-- Poll every pending future once; finished ones leave the pool and their result is yielded. -/
def pollAll (now r : Nat) : List Fut → List Fut × List (Nat × Res × Bool × Nat)
  | [] => ([], [])
  | f :: fs =>
    let rest := pollAll now r fs
    match f.poll now r with
    | (f', none) => (f' :: rest.1, rest.2)
    | (f', some res) => (rest.1, (f'.id, res, f'.written, now) :: rest.2)

/-- Submit a future: `events` are relative to now; it is polled at once. -/
def Pool.submit (p : Pool) (w r : Nat) (id : Nat) (kind : Kind) (big : Bool) (events : List (Nat × Ev)) : Pool :=
  let f : Fut :=
    { id := id, kind := kind, big := big
      phase := if kind = .read then .reading (p.now + r) else .writing (p.now + w)
      evs := events.map (fun e => (p.now + e.1, e.2)) }
  let out := pollAll p.now r [f.applyDue p.now]
  { p with pending := p.pending ++ out.1, delivered := p.delivered ++ out.2
           submitted := p.submitted ++ [(id, kind, p.now)] }

/-- One second passes. -/
def Pool.tick (p : Pool) (r : Nat) : Pool :=
  let out := pollAll (p.now + 1) r (p.pending.map (fun f => f.applyDue (p.now + 1)))
  { p with now := p.now + 1, pending := out.1, delivered := p.delivered ++ out.2 }

def Pool.ticks (p : Pool) (r : Nat) : Nat → Pool
  | 0 => p
  | n + 1 => (p.tick r).ticks r n

/-- The latest second at which the future can still be pending. -/
def Fut.horizon (f : Fut) (r : Nat) : Nat :=
  match f.phase with
  | .writing dl => dl + r
  | .reading dl => dl
  | .done => 0

/-- Which results a future of a kind can yield. -/
def Res.allowed : Kind → Res → Bool
  | .send, .sendOk | .send, .sendFailTimeout | .send, .sendFailClosed => true
  | .sendEat, .sendOk | .sendEat, .assumeOk => true
  | .read, .readOk | .read, .readFailTimeout | .read, .readFailClosed => true
  | .reqResp, .sendFailTimeout | .reqResp, .sendFailClosed | .reqResp, .readOk | .reqResp, .readFailTimeout
  | .reqResp, .readFailClosed => true
  | .reqEat, .sendFailTimeout | .reqEat, .sendFailClosed | .reqEat, .readOk | .reqEat, .assumeOk => true
  | _, _ => false

/-- Pools reachable from the empty one; ids are chosen fresh by the submitter. -/
inductive Reach (w r : Nat) : Pool → Prop
  | init : Reach w r {}
  | submit {p : Pool} (id : Nat) (kind : Kind) (big : Bool) (events : List (Nat × Ev)) :
      Reach w r p → id ∉ p.submitted.map (·.1) → Reach w r (p.submit w r id kind big events)
  | tick {p : Pool} : Reach w r p → Reach w r (p.tick r)

end Litep2pVerif.Kad.Executor
