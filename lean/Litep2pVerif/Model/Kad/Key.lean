/-!
# Kademlia keys and XOR distance (src/protocol/libp2p/kademlia/types.rs) — property C14

A `Key` is the 256-bit SHA-256 digest read as a big-endian natural number (`U256::from_big_endian`);
SHA-256 itself is not modelled: the key of a peer is an input of every operation.
-/
namespace Litep2pVerif.Kad.Key

/-- `KeyBytes::distance`: `Distance(a ^ b)`. -/
def distance (a b : Nat) : Nat := a ^^^ b

/-- `BucketIndex::new`: `d.ilog2()`, i.e. `(256 - leading_zeros).checked_sub(1)`; `None` for 0. -/
def bucketIndex (d : Nat) : Option Nat :=
  if d = 0 then none else some (Nat.log2 d)

end Litep2pVerif.Kad.Key
