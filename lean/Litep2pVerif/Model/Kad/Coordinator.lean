/-!
# Model of the Kademlia coordinator (`src/protocol/libp2p/kademlia/mod.rs`)

Operational copy of the glue between the query engine, the transport service and the executor:
`peers[p].pending_actions`, `pending_dials`, `pending_substreams`, the executor's futures,
`on_query_action` (incl. the PUT_VALUE / ADD_PROVIDER fan-out followed by `start_*_tracking`),
`open_substream_or_dial`, `on_connection_established` (both `Entry` branches), `disconnect_peer`,
`on_outbound_substream`, `on_substream_open_failure`, `on_dial_failure`, the handling of executor
results in `run`, and what serving an inbound request does to the bookkeeping (`on_inbound_substream`). `PutToTargetPeersContext` (`query/target_peers.rs`) is modelled exactly, the
iterative lookups (`FindNodeContext`, `GetRecordContext`, `GetProvidersContext`,
`FindManyNodesContext`) are abstracted to the set of peers they wait for; which peer a lookup
queries next and when it finishes are choices of the environment (labels of the transition system),
constrained only by what `QueryEngine`'s API guarantees.

Maps are flat association lists: removal of a key is `filter`; `pending_dials : HashMap<PeerId, Vec<PeerAction>>` is the list of
`(peer, action)` pairs in push order, `peers[p].pending_actions` is `ctx` (which peers have a
context) plus the list of `(peer, substream, action)` triples.

Core Lean only (the model driver links against this file).
-/
namespace Litep2pVerif.Kad.Coordinator

abbrev Peer := Nat
abbrev Qid := Nat
abbrev Sid := Nat

/-- `PeerAction` without its payload. -/
inductive AKind | findNode | putValue | addProvider
  deriving DecidableEq, Repr, Inhabited

structure PAction where
  kind : AKind
  q : Qid
  deriving DecidableEq, Repr, Inhabited

inductive Quorum | one | n (k : Nat) | all
  deriving DecidableEq, Repr, Inhabited

/-! ## `PutToTargetPeersContext` -/

/-- `peers_to_succeed` exactly as coded: `One ⇒ 1`, `N(n) ⇒ min(n, max(len, 1))`,
`All ⇒ max(len, 1)` where `len` is the length of the target list (duplicates included). -/
def clampQuorum (quorum : Quorum) (len : Nat) : Nat :=
  match quorum with
  | .one => 1
  | .n k => min k (max len 1)
  | .all => max len 1

structure Tracker where
  peersToSucceed : Nat
  /-- `pending_peers : HashSet<PeerId>` -/
  pending : List Peer
  nSucceeded : Nat
  /-- ghost: the peers counted in `n_succeeded`. -/
  counted : List Peer
  /-- ghost: quorum and number of targets the tracker was created with. -/
  quorum : Quorum
  nTargets : Nat
  deriving Repr, Inhabited

def Tracker.new (peers : List Peer) (quorum : Quorum) : Tracker :=
  { peersToSucceed := clampQuorum quorum peers.length
    pending := peers.eraseDups
    nSucceeded := 0
    counted := []
    quorum := quorum
    nTargets := peers.length }

def Tracker.sendSuccess (t : Tracker) (p : Peer) : Tracker :=
  if p ∈ t.pending then
    { t with pending := t.pending.filter (· != p), nSucceeded := t.nSucceeded + 1, counted := p :: t.counted }
  else t

def Tracker.sendFailure (t : Tracker) (p : Peer) : Tracker :=
  if p ∈ t.pending then { t with pending := t.pending.filter (· != p) } else t

def Tracker.isFinished (t : Tracker) : Bool := t.pending.isEmpty
def Tracker.isSucceeded (t : Tracker) : Bool := decide (t.peersToSucceed ≤ t.nSucceeded)

/-! ## The engine, abstracted -/

inductive QKind | findNode | putRecord | putToPeers | getRecord | addProvider | getProviders
  deriving DecidableEq, Repr, Inhabited

inductive QState
  /-- lookup phase: kind, quorum for the later send phase, peers it waits for. -/
  | lookup (kind : QKind) (quorum : Quorum) (pending : List Peer)
  /-- send phase (`PutRecordToFoundNodes` / `AddProviderToFoundNodes`). -/
  | tracker (isPut : Bool) (t : Tracker)
  deriving Repr, Inhabited

structure Query where
  id : Qid
  key : Nat
  st : QState
  deriving Repr, Inhabited

abbrev Engine := List Query

def QState.pending : QState → List Peer
  | .lookup _ _ ps => ps
  | .tracker _ t => t.pending

def QState.isLookup : QState → Bool
  | .lookup .. => true
  | .tracker .. => false

def findQ (e : Engine) (q : Qid) : Option Query := e.find? (fun x => x.id == q)

def updQ (e : Engine) (q : Qid) (f : QState → QState) : Engine :=
  e.map (fun x => if x.id = q then { x with st := f x.st } else x)

def removeQ (e : Engine) (q : Qid) : Engine := e.filter (fun x => x.id != q)

/-- `register_response` / `register_response_failure`: a lookup stops waiting for the peer; the
tracker ignores both. -/
def QState.respDone (p : Peer) : QState → QState
  | .lookup k qu ps => .lookup k qu (ps.filter (· != p))
  | st => st

/-- `register_send_failure`: ignored by lookups. -/
def QState.sendFail (p : Peer) : QState → QState
  | .tracker b t => .tracker b (t.sendFailure p)
  | st => st

/-- `register_send_success`: ignored by lookups. -/
def QState.sendOk (p : Peer) : QState → QState
  | .tracker b t => .tracker b (t.sendSuccess p)
  | st => st

def regRespDone (e : Engine) (q : Qid) (p : Peer) : Engine := updQ e q (QState.respDone p)
def regSendFail (e : Engine) (q : Qid) (p : Peer) : Engine := updQ e q (QState.sendFail p)
def regSendOk (e : Engine) (q : Qid) (p : Peer) : Engine := updQ e q (QState.sendOk p)

/-- `register_peer_failure` = `register_send_failure` then `register_response_failure`. -/
def regPeerFail (e : Engine) (q : Qid) (p : Peer) : Engine := regRespDone (regSendFail e q p) q p

/-- `next_peer_action`: a lookup that still waits for the peer sends its request. -/
def nextPeerAction (e : Engine) (q : Qid) (p : Peer) : Bool :=
  match findQ e q with
  | some ⟨_, _, .lookup _ _ ps⟩ => p ∈ ps
  | _ => false

/-! ## Executor futures -/

inductive FKind
  /-- `send_request_read_response` (FIND_NODE / GET_VALUE / GET_PROVIDERS). -/
  | reqResp
  /-- `send_request_eat_response_failure` (PUT_VALUE). -/
  | putEat
  /-- `send_message` (ADD_PROVIDER). -/
  | sendMsg
  deriving DecidableEq, Repr, Inhabited

structure Fut where
  peer : Peer
  q : Qid
  kind : FKind
  deriving DecidableEq, Repr, Inhabited

inductive Res | sendOk | assumeOk | sendFail | readOk | readFail
  deriving DecidableEq, Repr, Inhabited

/-- Which results a future can produce (`executor.rs`). -/
def Res.allowed : FKind → Res → Bool
  | .reqResp, .sendFail | .reqResp, .readOk | .reqResp, .readFail => true
  | .putEat, .sendFail | .putEat, .readOk | .putEat, .assumeOk => true
  | .sendMsg, .sendOk | .sendMsg, .sendFail => true
  | _, _ => false

/-! ## State -/

/-- A put/announce that reported success (ghost). -/
structure SuccessRec where
  q : Qid
  quorum : Quorum
  nTargets : Nat
  counted : List Peer
  deriving Repr, Inhabited

structure State where
  /-- keys of `peers` -/
  ctx : List Peer := []
  /-- `peers[p].pending_actions[sid] = a` -/
  actions : List (Peer × Sid × PAction) := []
  /-- `pending_substreams` -/
  pendingSubs : List (Sid × Peer) := []
  /-- `pending_dials`, flattened -/
  dials : List (Peer × PAction) := []
  engine : Engine := []
  futs : List Fut := []
  /-- keys of the local record store (`put_record` stores locally) -/
  stored : List Nat := []
  -- environment (what the transport service / manager / executor owe the coordinator)
  /-- peers with a connection in `TransportService` -/
  connected : List Peer := []
  /-- peers for which an accepted dial has not been concluded -/
  dialing : List Peer := []
  /-- substream opens accepted by a connection and not answered yet -/
  opening : List (Sid × Peer) := []
  nextSid : Nat := 0
  nextQid : Nat := 0
  -- ghost ledgers
  started : List Qid := []
  /-- terminal events `(query, success)` in emission order -/
  events : List (Qid × Bool) := []
  successLog : List SuccessRec := []
  /-- `(q, p, kind)`: an executor result of a success kind for `(q, p)` was handled -/
  sendResults : List (Qid × Peer × FKind) := []
  deriving Repr, Inhabited

/-! ## `disconnect_peer` -/

def actionsOf (s : State) (p : Peer) : List PAction :=
  (s.actions.filter (fun a => a.1 == p)).map (fun a => a.2.2)

/-- `disconnect_peer(peer, query)`: the given query and every query with a pending action for the
peer is told that the peer failed; the peer's context is dropped. -/
def disconnectPeer (s : State) (p : Peer) (query : Option Qid) : State :=
  { s with
    engine :=
      ((actionsOf s p).foldl (fun e a => if some a.q ≠ query then regPeerFail e a.q p else e)
        (match query with
         | some q => regPeerFail s.engine q p
         | none => s.engine))
    ctx := s.ctx.filter (· != p)
    actions := s.actions.filter (fun a => a.1 != p) }

/-! ## `open_substream_or_dial` -/

inductive DialRes | started | alreadyConnected | err
  deriving DecidableEq, Repr, Inhabited

/-- Answers of the environment to one `open_substream_or_dial` call: first `open_substream`,
`dial`, second `open_substream`. (`open_substream` can only succeed on a connected peer.) -/
structure OsdIn where
  open1 : Bool
  dial : DialRes
  open2 : Bool
  deriving Repr, Inhabited

/-- A substream open was accepted: `pending_substreams.insert`, `peers.entry(p).or_default()
.pending_actions.insert`. -/
def openSub (s : State) (p : Peer) (a : PAction) : State :=
  { s with
    pendingSubs := s.pendingSubs ++ [(s.nextSid, p)]
    ctx := if p ∈ s.ctx then s.ctx else s.ctx ++ [p]
    actions := s.actions ++ [(p, s.nextSid, a)]
    opening := s.opening ++ [(s.nextSid, p)]
    nextSid := s.nextSid + 1 }

def osd (s : State) (p : Peer) (a : PAction) (o : OsdIn) : State × Bool :=
  if p ∈ s.connected ∧ o.open1 = true then (openSub s p a, true)
  else match o.dial with
    | .started =>
      ({ s with dials := s.dials ++ [(p, a)]
                dialing := if p ∈ s.dialing then s.dialing else s.dialing ++ [p] }, true)
    | .alreadyConnected =>
      if p ∈ s.connected ∧ o.open2 = true then (openSub s p a, true) else (s, false)
    | .err => (s, false)

/-! ## `on_query_action` -/

/-- Fan-out of the send phase: one `open_substream_or_dial` per target; returns the peers for which
it failed. -/
def fanOut (kind : AKind) (q : Qid) : State → List Peer → List OsdIn → State × List Peer
  | s, [], _ => (s, [])
  | s, p :: ps, outs =>
    let r := osd s p ⟨kind, q⟩ (outs.headD default)
    let rest := fanOut kind q r.1 ps outs.tail
    (rest.1, if r.2 then rest.2 else p :: rest.2)

/-- `start_*_tracking` after the fan-out `r`, then the unreachable peers are failed. -/
def startTracking (r : State × List Peer) (q : Qid) (key : Nat) (isPut : Bool) (peers : List Peer)
    (quorum : Quorum) : State :=
  { r.fst with
    engine := (r.snd.foldl (fun e p => regSendFail e q p)
                (r.fst.engine ++ [⟨q, key, .tracker isPut (Tracker.new peers quorum)⟩])) }

/-- `on_query_action(QueryAction::SendMessage)`: on error both failures are registered. -/
def sendMessage (s : State) (q : Qid) (p : Peer) (o : OsdIn) : State :=
  if (osd s p ⟨.findNode, q⟩ o).2 then (osd s p ⟨.findNode, q⟩ o).1
  else { (osd s p ⟨.findNode, q⟩ o).1 with
          engine := regRespDone (regSendFail (osd s p ⟨.findNode, q⟩ o).1.engine q p) q p }

/-- Actions of the query engine (`QueryEngine::next_action`), chosen by the environment. -/
inductive EAct
  /-- a lookup queries a new peer (`QueryAction::SendMessage`) -/
  | send (q : Qid) (p : Peer)
  /-- a lookup finished: failed, or succeeded with the found peers -/
  | lookupDone (q : Qid) (ok : Bool) (peers : List Peer)
  /-- `GetRecordPartialResult` -/
  | partialResult (q : Qid)
  /-- a tracker finished (`PutToTargetPeersContext::next_action`) -/
  | trackerDone (q : Qid)
  deriving Repr, Inhabited

def emit (s : State) (q : Qid) (ok : Bool) : State := { s with events := s.events ++ [(q, ok)] }

/-- One iteration of `while let Some(action) = self.engine.next_action() { on_query_action }`.
`none` = the engine cannot produce this action in this state. -/
def engineStep (s : State) (act : EAct) (outs : List OsdIn) : Option State :=
  match act with
  | .send q p =>
    match findQ s.engine q with
    | some ⟨_, _, .lookup kind quorum ps⟩ =>
      if kind = .putToPeers ∨ p ∈ ps then none
      else
        -- the engine marks the peer pending, then `on_query_action(SendMessage)`
        some (sendMessage { s with engine := updQ s.engine q (fun _ => .lookup kind quorum (ps ++ [p])) }
                q p (outs.headD default))
    | _ => none
  | .lookupDone q ok peers =>
    match findQ s.engine q with
    | some ⟨_, key, .lookup kind quorum ps⟩ =>
      if !ok then
        if kind = .putToPeers then none
        else some (emit { s with engine := removeQ s.engine q } q false)
      else
        match kind with
        | .findNode | .getRecord | .getProviders =>
          some (emit { s with engine := removeQ s.engine q } q true)
        | _ =>
          if peers.any (fun p => p ∈ ps) then none
          else
            some (startTracking (fanOut (if kind = .addProvider then .addProvider else .putValue) q
                    { s with engine := removeQ s.engine q } peers outs) q key (kind != .addProvider) peers quorum)
    | _ => none
  | .partialResult q =>
    match findQ s.engine q with
    | some ⟨_, _, .lookup .getRecord _ _⟩ => some s
    | _ => none
  | .trackerDone q =>
    match findQ s.engine q with
    | some ⟨_, _, .tracker _ t⟩ =>
      if t.isFinished then
        let s1 := emit { s with engine := removeQ s.engine q } q t.isSucceeded
        if t.isSucceeded then
          some { s1 with successLog := s1.successLog ++ [⟨q, t.quorum, t.nTargets, t.counted⟩] }
        else some s1
      else none
    | _ => none

/-- `engine.next_action()` may return `None`: no tracker is finished and (contract of the iterative
lookups, C15) every lookup waits for somebody. -/
def engineIdle (e : Engine) : Bool :=
  e.all (fun x => !x.st.pending.isEmpty)

/-! ## Transport events -/

/-- `on_connection_established`, `Entry::Vacant` branch: the pending dial actions become substream
opens (`outs`: does the k-th `open_substream` succeed). -/
def drainDials (p : Peer) : State → List PAction → List Bool → State
  | s, [], _ => s
  | s, a :: as, outs =>
    if outs.headD false then
      drainDials p
        { s with pendingSubs := s.pendingSubs ++ [(s.nextSid, p)]
                 actions := s.actions ++ [(p, s.nextSid, a)]
                 opening := s.opening ++ [(s.nextSid, p)]
                 nextSid := s.nextSid + 1 } as outs.tail
    else
      drainDials p { s with engine := regRespDone (regSendFail s.engine a.q p) a.q p } as outs.tail

def dialActions (s : State) (p : Peer) : List PAction :=
  (s.dials.filter (fun d => d.1 == p)).map (fun d => d.2)

/-- `Kademlia::on_connection_established` as a function of the coordinator's own state. -/
def onConnectionEstablished (s : State) (p : Peer) (outs : List Bool) : State :=
  if p ∈ s.ctx then
    -- `Entry::Occupied`: "connection already exists, discarding opening substreams"
    s
  else
    match dialActions s p with
    | [] => s
    | acts =>
      drainDials p { s with dials := s.dials.filter (fun d => d.1 != p), ctx := s.ctx ++ [p] } acts outs

/-- `TransportEvent::ConnectionEstablished` (the service reports it only for a peer without
connection; a further connection of a connected peer is swallowed as secondary). -/
def established (s : State) (p : Peer) (outs : List Bool) : State :=
  if p ∈ s.connected then s
  else onConnectionEstablished
        { s with connected := s.connected ++ [p], dialing := s.dialing.filter (· != p) } p outs

/-- `TransportEvent::ConnectionClosed`. -/
def closed (s : State) (p : Peer) : State :=
  if p ∈ s.connected then
    disconnectPeer { s with connected := s.connected.filter (· != p)
                            opening := s.opening.filter (fun o => o.2 != p) } p none
  else s

/-- `TransportEvent::DialFailure` → `on_dial_failure`. -/
def dialFailure (s : State) (p : Peer) : State :=
  { s with
    dialing := s.dialing.filter (· != p)
    dials := s.dials.filter (fun d => d.1 != p)
    engine := (dialActions s p).foldl (fun e a => regRespDone (regSendFail e a.q p) a.q p) s.engine }

def subPeer (s : State) (sid : Sid) : Option Peer := (s.pendingSubs.find? (fun x => x.1 == sid)).map (·.2)

def actionAt (s : State) (p : Peer) (sid : Sid) : Option PAction :=
  (s.actions.find? (fun a => a.1 == p && a.2.1 == sid)).map (·.2.2)

/-- `TransportEvent::SubstreamOpenFailure` → `on_substream_open_failure`. -/
def subOpenFailure (s : State) (sid : Sid) : State :=
  match s.opening.find? (fun o => o.1 == sid) with
  | none => s
  | some _ =>
    let s0 := { s with opening := s.opening.filter (fun o => o.1 != sid) }
    match subPeer s0 sid with
    | none => s0
    | some p =>
      let s1 := { s0 with pendingSubs := s0.pendingSubs.filter (fun x => x.1 != sid) }
      if p ∈ s1.ctx then
        disconnectPeer
          { s1 with actions := s1.actions.filter (fun a => !(a.1 == p && a.2.1 == sid)) } p
          ((actionAt s1 p sid).map (·.q))
      else s1

/-- `TransportEvent::SubstreamOpened` (outbound) → `on_outbound_substream`. Returns the future that
was started, if any. -/
def subOpened (s : State) (sid : Sid) : State × Option Fut :=
  match s.opening.find? (fun o => o.1 == sid) with
  | none => (s, none)
  | some (_, p) =>
    let s1 := { s with opening := s.opening.filter (fun o => o.1 != sid)
                       pendingSubs := s.pendingSubs.filter (fun x => x.1 != sid) }
    if p ∈ s1.ctx then
      match actionAt s1 p sid with
      | none => (s1, none)
      | some a =>
        let s2 := { s1 with actions := s1.actions.filter (fun x => !(x.1 == p && x.2.1 == sid)) }
        match a.kind with
        | .findNode =>
          if nextPeerAction s2.engine a.q p then
            ({ s2 with futs := s2.futs ++ [⟨p, a.q, .reqResp⟩] }, some ⟨p, a.q, .reqResp⟩)
          else (s2, none)
        | .putValue => ({ s2 with futs := s2.futs ++ [⟨p, a.q, .putEat⟩] }, some ⟨p, a.q, .putEat⟩)
        | .addProvider => ({ s2 with futs := s2.futs ++ [⟨p, a.q, .sendMsg⟩] }, some ⟨p, a.q, .sendMsg⟩)
    else (s1, none)  -- `Error::PeerDoesntExist`, the substream is dropped

/-! ## Executor results (`run`, branch `self.executor.next()`) -/

def execResult (s : State) (f : Fut) (r : Res) : State :=
  if f ∈ s.futs ∧ Res.allowed f.kind r = true then
    let s1 := { s with futs := s.futs.erase f }
    match r with
    | .sendOk | .assumeOk =>
      { s1 with engine := regSendOk s1.engine f.q f.peer
                sendResults := (f.q, f.peer, f.kind) :: s1.sendResults }
    | .sendFail | .readFail => disconnectPeer s1 f.peer (some f.q)
    | .readOk =>
      -- "read success implies send success", then `on_message_received`: the response (or, for an
      -- undecodable / unexpected one, the response failure) is registered
      { s1 with engine := regRespDone (regSendOk s1.engine f.q f.peer) f.q f.peer
                sendResults := (f.q, f.peer, f.kind) :: s1.sendResults }
  else s

/-! ## Inbound substreams (requests of remote peers)

Handling a FIND_NODE / GET_VALUE / PUT_VALUE / ADD_PROVIDER / GET_PROVIDERS request of a remote peer creates no user
operation and touches the coordinator's bookkeeping in two places only. -/

/-- `on_inbound_substream` (reported only on an open connection): `peers.entry(peer).or_default()`, then the request is
read by an executor future without query id. -/
def inbound (s : State) (p : Peer) : State :=
  if p ∈ s.connected then { s with ctx := if p ∈ s.ctx then s.ctx else s.ctx ++ [p] } else s

/-- A future without query id (reading the request, sending the response) failed or timed out:
`disconnect_peer(peer, None)`; the connection itself stays. -/
def inboundFailed (s : State) (p : Peer) : State := disconnectPeer s p none

/-! ## User commands -/

inductive Cmd
  | findNode
  | putRecord (key : Nat) (quorum : Quorum)
  | putToPeers (key : Nat) (quorum : Quorum)
  | getRecord (key : Nat) (quorum : Quorum)
  | startProviding (key : Nat) (quorum : Quorum)
  | getProviders (key : Nat)
  deriving Repr, Inhabited

def startLookup (s : State) (kind : QKind) (key : Nat) (quorum : Quorum) : State :=
  { s with engine := s.engine ++ [⟨s.nextQid, key, .lookup kind quorum []⟩]
           started := s.started ++ [s.nextQid]
           nextQid := s.nextQid + 1 }

def command (s : State) : Cmd → State
  | .findNode => startLookup s .findNode 0 .one
  | .putRecord key quorum =>
    startLookup { s with stored := if key ∈ s.stored then s.stored else key :: s.stored } .putRecord key quorum
  | .putToPeers key quorum => startLookup s .putToPeers key quorum
  | .getRecord key quorum =>
    if key ∈ s.stored ∧ quorum = .one then
      -- found locally, quorum one: answered at once, the engine is not involved
      { s with started := s.started ++ [s.nextQid], nextQid := s.nextQid + 1
               events := s.events ++ [(s.nextQid, true)] }
    else startLookup s .getRecord key quorum
  | .startProviding key quorum => startLookup s .addProvider key quorum
  | .getProviders key => startLookup s .getProviders key .one

/-! ## The transition system -/

inductive Label
  | cmd (c : Cmd)
  | engine (a : EAct) (outs : List OsdIn)
  | established (p : Peer) (outs : List Bool)
  | closed (p : Peer)
  | dialFailure (p : Peer)
  | subOpened (sid : Sid)
  | subOpenFailure (sid : Sid)
  | result (f : Fut) (r : Res)
  | inbound (p : Peer)
  | inboundFailed (p : Peer)
  /-- the local record store changed otherwise (`store_record`, an inbound `PUT_VALUE` stored in automatic
  validation mode, an expired record dropped): `keys` are the live keys now -/
  | setStored (keys : List Nat)
  deriving Repr, Inhabited

/-- One step; `none` only for an engine action the engine cannot produce. -/
def step (s : State) : Label → Option State
  | .cmd c => some (command s c)
  | .engine a outs => engineStep s a outs
  | .established p outs => some (established s p outs)
  | .closed p => some (closed s p)
  | .dialFailure p => some (dialFailure s p)
  | .subOpened sid => some (subOpened s sid).1
  | .subOpenFailure sid => some (subOpenFailure s sid)
  | .result f r => some (execResult s f r)
  | .inbound p => some (inbound s p)
  | .inboundFailed p => some (inboundFailed s p)
  | .setStored keys => some { s with stored := keys }

/-- Run a schedule; labels the engine cannot produce are skipped. -/
def run (s : State) : List Label → State
  | [] => s
  | l :: ls => run ((step s l).getD s) ls

/-- States reachable from the initial state by any schedule. -/
inductive Reachable : State → Prop
  | init : Reachable {}
  | step {s s' : State} (l : Label) : Reachable s → step s l = some s' → Reachable s'

/-- The environment has discharged every obligation and the engine has been drained. -/
def Quiescent (s : State) : Prop :=
  s.dialing = [] ∧ s.opening = [] ∧ s.futs = [] ∧ engineIdle s.engine = true

/-! ## The ownership invariant (executable form) -/

/-- Which pending actions belong to which phase of a query. -/
def matchA : QState → AKind → Bool
  | .lookup .., .findNode => true
  | .tracker .., .putValue => true
  | .tracker .., .addProvider => true
  | _, _ => false

def matchF : QState → FKind → Bool
  | .lookup .., .reqResp => true
  | .tracker .., .putEat => true
  | .tracker .., .sendMsg => true
  | _, _ => false

/-- The peer `p` that query `x` waits for is owned by an outstanding obligation of the environment:
a pending dial action whose dial is not concluded, a pending substream action whose open is not
answered (and is tracked in `pending_substreams`), or an executor future. -/
def ownedB (s : State) (x : Query) (p : Peer) : Bool :=
  s.dials.any (fun d => d.1 == p && d.2.q == x.id && matchA x.st d.2.kind && s.dialing.contains p) ||
  s.actions.any (fun a => a.1 == p && a.2.2.q == x.id && matchA x.st a.2.2.kind &&
    s.opening.contains (a.2.1, p) && s.pendingSubs.contains (a.2.1, p) && s.ctx.contains p) ||
  s.futs.any (fun f => f.peer == p && f.q == x.id && matchF x.st f.kind)

def waitingOwnedB (s : State) : Bool :=
  s.engine.all fun x => x.st.pending.all fun p => ownedB s x p

/-- Every peer a live query is waiting for is owned by an outstanding obligation. -/
def WaitingOwned (s : State) : Prop := waitingOwnedB s = true

end Litep2pVerif.Kad.Coordinator
