/-!
# Model of the serving side of the Kademlia coordinator (`src/protocol/libp2p/kademlia/mod.rs`)

What `Kademlia` does with the requests of remote peers (`on_message_received` with `query_id = None`) and with the
user commands that touch the local store and the routing table, as a function of its configuration
(`IncomingRecordValidationMode`, `RoutingTableUpdateMode`, record TTL, store bounds, provider refresh interval):

* `FIND_NODE`, `GET_VALUE`, `GET_PROVIDERS` (with a key) and `PUT_VALUE` are answered with exactly one message,
  `ADD_PROVIDER`, key-less and undecodable requests with none;
* an inbound `PUT_VALUE` is stored only in `Automatic` validation mode — in `Manual` mode the record is only reported
  (`IncomingRecord`) and stored iff the user calls `store_record`;
* peers learned from responses enter the routing table only in `Automatic` update mode — in `Manual` mode only through
  `add_known_peer` (and the configured known peers);
* a local provider is republished when its refresh timer fires, unless `stop_providing` removed it.

Records carry one bit of time: `expired` = the expiry instant is not in the future (a local put with record TTL 0);
every other expiry of the checked configurations is hours away. Buckets never fill up with the at most 8 peers of the
check, so the routing table is a set. Core Lean only.
-/
namespace Litep2pVerif.Kad.Serve

structure Cfg where
  repl : Nat := 20
  manualValidation : Bool := false
  manualUpdate : Bool := false
  /-- record TTL 0: what the user stores has expired when it is next looked up -/
  ttl0 : Bool := false
  /-- provider TTL 0: likewise for provider records -/
  provTtl0 : Bool := false
  maxRecords : Nat := 1024
  maxRecordSize : Nat := 66560
  /-- provider refresh interval, ms -/
  refresh : Nat := 79200000
  deriving Repr, Inhabited

structure Rec where
  key : Nat
  size : Nat
  expired : Bool
  deriving DecidableEq, Repr, Inhabited

structure SState where
  records : List Rec := []
  /-- routing table: peers with at least one address -/
  table : List Nat := []
  /-- provider records `(key, provider)`; provider 0 is the local node -/
  providers : List (Nat × Nat) := []
  /-- `local_providers` (keys) -/
  localProv : List Nat := []
  /-- refresh timers `(due, key)` in creation order -/
  timers : List (Nat × Nat) := []
  deriving Repr, Inhabited

def hasKey (rs : List Rec) (k : Nat) : Bool := rs.any (·.key == k)

/-- `MemoryStore::put` (a newer record always replaces the stored one: expiry instants grow with the clock). -/
def storePut (cfg : Cfg) (st : SState) (r : Rec) : SState :=
  if cfg.maxRecordSize ≤ r.size then st
  else if hasKey st.records r.key then
    { st with records := st.records.map (fun x => if x.key = r.key then r else x) }
  else if cfg.maxRecords ≤ st.records.length then st
  else { st with records := st.records ++ [r] }

/-- `MemoryStore::get`: an expired record is dropped. -/
def storeGet (st : SState) (k : Nat) : SState × Option Rec :=
  match st.records.find? (·.key == k) with
  | some r =>
    if r.expired then ({ st with records := st.records.filter (·.key != k) }, none) else (st, some r)
  | none => (st, none)

/-- `MemoryStore::get_providers` (sorted by peer for printing; all expired under provider TTL 0). -/
def providersOf (cfg : Cfg) (st : SState) (k : Nat) : List Nat :=
  if cfg.provTtl0 then [] else (st.providers.filter (·.1 == k)).map (·.2)

/-- `put_provider`: one record per `(key, provider)`. -/
def putProvider (st : SState) (k p : Nat) : SState :=
  if st.providers.contains (k, p) then st else { st with providers := st.providers ++ [(k, p)] }

inductive Req
  | findNode
  | getValue (key : Option Nat)
  | putValue (key size : Nat)
  | addProvider (key provider : Nat)
  | getProviders (key : Option Nat)
  | garbage
  deriving DecidableEq, Repr, Inhabited

inductive Reply
  /-- `closest(target)` is a selection of the routing table -/
  | findNode (table : List Nat)
  | getValue (record : Option Nat) (table : List Nat)
  | putValue (key size : Nat)
  | getProviders (providers : List Nat) (table : List Nat)
  deriving DecidableEq, Repr, Inhabited

inductive Notice
  | record (key size : Nat)
  | provider (key peer : Nat)
  deriving DecidableEq, Repr, Inhabited

/-- `on_message_received(peer, None, request)`. -/
def serve (cfg : Cfg) (st : SState) (sender : Nat) : Req → SState × Option Reply × Option Notice
  | .findNode => (st, some (.findNode st.table), none)
  | .getValue none => (st, none, none)
  | .getValue (some k) =>
    let g := storeGet st k
    (g.1, some (.getValue (g.2.map (·.size)) st.table), none)
  | .putValue k size =>
    -- the ACK is sent "even if the record was/will be filtered out"
    ((if cfg.manualValidation then st else storePut cfg st ⟨k, size, false⟩), some (.putValue k size),
      some (.record k size))
  | .addProvider k provider =>
    if provider = sender then (putProvider st k sender, none, some (.provider k sender)) else (st, none, none)
  | .getProviders none => (st, none, none)
  | .getProviders (some k) => (st, some (.getProviders (providersOf cfg st k) st.table), none)
  | .garbage => (st, none, none)

/-- `put_local_provider` + refresh timer. -/
def putLocalProvider (cfg : Cfg) (st : SState) (now k : Nat) : SState :=
  let st1 := putProvider st k 0
  { st1 with localProv := if k ∈ st1.localProv then st1.localProv else st1.localProv ++ [k]
             timers := st1.timers ++ [(now + cfg.refresh, k)] }

/-- `remove_local_provider`. -/
def stopProviding (st : SState) (k : Nat) : SState :=
  if k ∈ st.localProv then
    { st with localProv := st.localProv.filter (· != k), providers := st.providers.filter (· != (k, 0)) }
  else st

/-- `add_known_peer` (ignored without addresses). -/
def addKnown (st : SState) (p : Nat) (hasAddr : Bool) : SState :=
  if hasAddr ∧ p ∉ st.table ∧ p ≠ 0 then { st with table := st.table ++ [p] } else st

/-- `update_routing_table` for the peers of a response. -/
def learn (cfg : Cfg) (st : SState) (peers : List (Nat × Bool)) : SState :=
  if cfg.manualUpdate then st else peers.foldl (fun s p => addKnown s p.1 p.2) st

/-- Timers that are due, in due order (ties: creation order): the keys to republish. -/
def insertDue (x : Nat × Nat) : List (Nat × Nat) → List (Nat × Nat)
  | [] => [x]
  | y :: ys => if x.1 < y.1 then x :: y :: ys else y :: insertDue x ys

def dueTimers (st : SState) (now : Nat) : List (Nat × Nat) :=
  (st.timers.filter (fun t => t.1 ≤ now)).foldl (fun acc t => insertDue t acc) []

/-- Operations on the serving state (for the theorems about histories). -/
inductive Op
  | inbound (sender : Nat) (req : Req)
  /-- `put_record` / `put_record_to_peers(update_local_store = true)` / `store_record` -/
  | userPut (key size : Nat)
  | getRecord (key : Nat)
  | startProviding (now key : Nat)
  | stopProviding (key : Nat)
  | addKnown (p : Nat) (hasAddr : Bool)
  | learn (peers : List (Nat × Bool))
  deriving Repr, Inhabited

def step (cfg : Cfg) (st : SState) : Op → SState
  | .inbound sender req => (serve cfg st sender req).1
  | .userPut k size => storePut cfg st ⟨k, size, cfg.ttl0⟩
  | .getRecord k => (storeGet st k).1
  | .startProviding now k => putLocalProvider cfg st now k
  | .stopProviding k => stopProviding st k
  | .addKnown p a => addKnown st p a
  | .learn peers => learn cfg st peers

def run (cfg : Cfg) (st : SState) (ops : List Op) : SState := ops.foldl (step cfg) st

/-- Keys the user stored. -/
def userKeys : List Op → List Nat
  | [] => []
  | .userPut k _ :: ops => k :: userKeys ops
  | _ :: ops => userKeys ops

/-- Peers the user added. -/
def userPeers : List Op → List Nat
  | [] => []
  | .addKnown p _ :: ops => p :: userPeers ops
  | _ :: ops => userPeers ops

end Litep2pVerif.Kad.Serve
