import Litep2pVerif.Model.Kad.QueryEngine
/-!
# Event sequences for the query contexts and the engine (C15)

"Every reply order / failure pattern" = every list of events. An event of a lookup is a call of
`next_action` (with the clock reading), a response from a peer with an arbitrary peer list, or a
failure of a peer; responses and failures for peers that are not pending are events too (the code
ignores them). The runs collect the emitted actions together with ghost information used only in
the statements (who answered, which clock reading came last).
-/
namespace Litep2pVerif.Kad.Query

/-! ## FindNodeContext -/

inductive Ev where
  | next (now : Nat)
  | resp (peer : Nat) (peers : List KPeer)
  | fail (peer : Nat)
  deriving Repr, DecidableEq

def FindNode.step (s : FindNode) : Ev → FindNode × Option QAction
  | .next now => s.nextAction now
  | .resp p peers => (s.registerResponse p peers, none)
  | .fail p => (s.registerResponseFailure p, none)

/-- Final state and the emitted actions, oldest first. -/
def FindNode.run (s : FindNode) : List Ev → FindNode × List QAction
  | [] => (s, [])
  | e :: es =>
    match (s.step e).2 with
    | some a => ((FindNode.run (s.step e).1 es).1, a :: (FindNode.run (s.step e).1 es).2)
    | none => FindNode.run (s.step e).1 es

/-- The peers a list of actions sent a request to. -/
def sentPeers : List QAction → List Nat
  | [] => []
  | .send _ p :: as => p :: sentPeers as
  | _ :: as => sentPeers as

/-- Ghost: peers whose response was accepted (they were pending when it arrived). -/
def FindNode.answered (s : FindNode) : List Ev → List Nat
  | [] => []
  | e :: es =>
    match e with
    | .resp p _ =>
      if (pendLookup p s.pending).isSome then p :: FindNode.answered (s.step e).1 es
      else FindNode.answered (s.step e).1 es
    | _ => FindNode.answered (s.step e).1 es

/-- Ghost: every peer the lookup learned of (initial candidates and the lists of accepted
responses). -/
def FindNode.learned (s : FindNode) : List Ev → List Nat
  | [] => []
  | e :: es =>
    match e with
    | .resp p peers =>
      if (pendLookup p s.pending).isSome then
        peers.map (·.peer) ++ FindNode.learned (s.step e).1 es
      else FindNode.learned (s.step e).1 es
    | _ => FindNode.learned (s.step e).1 es

/-- The clock readings of an event sequence never go back (starting from `t`). -/
def monotoneFrom (t : Nat) : List Ev → Prop
  | [] => True
  | .next now :: es => t ≤ now ∧ monotoneFrom now es
  | _ :: es => monotoneFrom t es

/-- The last clock reading (or `t`). -/
def lastNow (t : Nat) : List Ev → Nat
  | [] => t
  | .next now :: es => lastNow now es
  | _ :: es => lastNow t es

def isSend : Option QAction → Bool
  | some (.send _ _) => true
  | _ => false

/-- A step is productive if it sends a request or consumes an outstanding one. -/
def FindNode.productive (s : FindNode) : Ev → Bool
  | .next now => isSend (s.nextAction now).2
  | .resp p _ => (pendLookup p s.pending).isSome
  | .fail p => (pendLookup p s.pending).isSome

def FindNode.productiveCount (s : FindNode) : List Ev → Nat
  | [] => 0
  | e :: es => (if s.productive e then 1 else 0) + FindNode.productiveCount (s.step e).1 es

/-- The events mention only peers of the universe `U`, with their true distance. -/
def Ev.ok (d : Nat → Nat) (U : List Nat) : Ev → Prop
  | .resp _ peers => ∀ kp ∈ peers, kp.dist = d kp.peer ∧ kp.peer ∈ U
  | _ => True

/-- Requests that are unanswered and not older than the peer timeout at time `now`. -/
def FindNode.fresh (s : FindNode) (now : Nat) : List (KPeer × Nat) :=
  s.pending.filter (fun x => now - x.2 ≤ s.peerTimeout)

/-! ## GetRecordContext / GetProvidersContext -/

inductive GREv where
  | next
  | resp (peer : Nat) (record : Option (Nat × Bool)) (peers : List KPeer)
  | fail (peer : Nat)
  deriving Repr, DecidableEq

def GetRecord.step (s : GetRecord) : GREv → GetRecord × Option QAction
  | .next => s.nextAction
  | .resp p r peers => (s.registerResponse p r peers, none)
  | .fail p => (s.registerResponseFailure p, none)

def GetRecord.run (s : GetRecord) : List GREv → GetRecord × List QAction
  | [] => (s, [])
  | e :: es =>
    match (s.step e).2 with
    | some a => ((GetRecord.run (s.step e).1 es).1, a :: (GetRecord.run (s.step e).1 es).2)
    | none => GetRecord.run (s.step e).1 es

def GREv.ok (d : Nat → Nat) (U : List Nat) : GREv → Prop
  | .resp _ _ peers => ∀ kp ∈ peers, kp.dist = d kp.peer ∧ kp.peer ∈ U
  | _ => True

/-- Ghost: the unexpired records of accepted responses, in order of arrival. -/
def GetRecord.received (s : GetRecord) : List GREv → List (Nat × Nat)
  | [] => []
  | e :: es =>
    match e with
    | .resp p (some (v, false)) _ =>
      if (kpLookup p s.pending).isSome then (p, v) :: GetRecord.received (s.step e).1 es
      else GetRecord.received (s.step e).1 es
    | _ => GetRecord.received (s.step e).1 es

/-- The records reported by a list of actions. -/
def reportedRecords : List QAction → List (Nat × Nat)
  | [] => []
  | .partialRecord _ p v :: as => (p, v) :: reportedRecords as
  | _ :: as => reportedRecords as

inductive GPEv where
  | next
  | resp (peer : Nat) (providers : List Prov) (peers : List KPeer)
  | fail (peer : Nat)
  deriving Repr, DecidableEq

def GetProviders.step (s : GetProviders) : GPEv → GetProviders × Option QAction
  | .next => s.nextAction
  | .resp p provs peers => (s.registerResponse p provs peers, none)
  | .fail p => (s.registerResponseFailure p, none)

def GetProviders.run (s : GetProviders) : List GPEv → GetProviders × List QAction
  | [] => (s, [])
  | e :: es =>
    match (s.step e).2 with
    | some a => ((GetProviders.run (s.step e).1 es).1, a :: (GetProviders.run (s.step e).1 es).2)
    | none => GetProviders.run (s.step e).1 es

def GPEv.ok (d : Nat → Nat) (U : List Nat) : GPEv → Prop
  | .resp _ _ peers => ∀ kp ∈ peers, kp.dist = d kp.peer ∧ kp.peer ∈ U
  | _ => True

/-! ### Ghost information for value and provider lookups -/

/-- Ghost: every peer named in an accepted response of a value lookup. -/
def GetRecord.learned (s : GetRecord) : List GREv → List Nat
  | [] => []
  | e :: es =>
    match e with
    | .resp p _ peers =>
      if (kpLookup p s.pending).isSome then
        peers.map (·.peer) ++ GetRecord.learned (s.step e).1 es
      else GetRecord.learned (s.step e).1 es
    | _ => GetRecord.learned (s.step e).1 es

/-- Ghost: every peer named in an accepted response of a provider lookup. -/
def GetProviders.learned (s : GetProviders) : List GPEv → List Nat
  | [] => []
  | e :: es =>
    match e with
    | .resp p _ peers =>
      if (kpLookup p s.pending).isSome then
        peers.map (·.peer) ++ GetProviders.learned (s.step e).1 es
      else GetProviders.learned (s.step e).1 es
    | _ => GetProviders.learned (s.step e).1 es

def isPartial : Option QAction → Bool
  | some (.partialRecord _ _ _) => true
  | _ => false

/-- A step of a value lookup is productive if it sends a request, hands out a partial result, or
consumes an outstanding request. -/
def GetRecord.productive (s : GetRecord) : GREv → Bool
  | .next => isSend s.nextAction.2 || isPartial s.nextAction.2
  | .resp p _ _ => (kpLookup p s.pending).isSome
  | .fail p => (kpLookup p s.pending).isSome

def GetRecord.productiveCount (s : GetRecord) : List GREv → Nat
  | [] => 0
  | e :: es => (if s.productive e then 1 else 0) + GetRecord.productiveCount (s.step e).1 es

/-- A step of a provider lookup is productive if it sends a request or consumes an outstanding
one. -/
def GetProviders.productive (s : GetProviders) : GPEv → Bool
  | .next => isSend s.nextAction.2
  | .resp p _ _ => (kpLookup p s.pending).isSome
  | .fail p => (kpLookup p s.pending).isSome

def GetProviders.productiveCount (s : GetProviders) : List GPEv → Nat
  | [] => 0
  | e :: es => (if s.productive e then 1 else 0) + GetProviders.productiveCount (s.step e).1 es

/-! ## QueryEngine -/

inductive EOp where
  | startFindNode (q : Nat) (cands : List KPeer)
  | startPutRecord (q record : Nat) (cands : List KPeer) (quorum : Quorum)
  | startPutRecordToPeers (q record : Nat) (peers : List KPeer) (quorum : Quorum)
  | startGetRecord (q : Nat) (cands : List KPeer) (quorum : Quorum) (localRecord : Bool)
  | startAddProvider (q key provider : Nat) (cands : List KPeer) (quorum : Quorum)
  | startGetProviders (q : Nat) (cands : List KPeer) (known : List Prov)
  | startPutRecordTracking (q key : Nat) (peers : List Nat) (quorum : Quorum)
  | startAddProviderTracking (q key : Nat) (peers : List Nat) (quorum : Quorum)
  | response (q peer : Nat) (m : Msg)
  | responseFailure (q peer : Nat)
  | sendSuccess (q peer : Nat)
  | sendFailure (q peer : Nat)
  | peerFailure (q peer : Nat)
  | next (now : Nat) (order : List Nat)
  deriving Repr, DecidableEq

/-- The query id an operation starts, if any. -/
def EOp.starts : EOp → Option Nat
  | .startFindNode q _ => some q
  | .startPutRecord q _ _ _ => some q
  | .startPutRecordToPeers q _ _ _ => some q
  | .startGetRecord q _ _ _ => some q
  | .startAddProvider q _ _ _ _ => some q
  | .startGetProviders q _ _ => some q
  | .startPutRecordTracking q _ _ _ => some q
  | .startAddProviderTracking q _ _ _ => some q
  | _ => none

def Engine.step (e : Engine) : EOp → Engine × Outcome
  | .startFindNode q c => (e.startFindNode q c, .none)
  | .startPutRecord q r c qu => (e.startPutRecord q r c qu, .none)
  | .startPutRecordToPeers q r p qu => (e.startPutRecordToPeers q r p qu, .none)
  | .startGetRecord q c qu l => (e.startGetRecord q c qu l, .none)
  | .startAddProvider q k p c qu => (e.startAddProvider q k p c qu, .none)
  | .startGetProviders q c kn => (e.startGetProviders q c kn, .none)
  | .startPutRecordTracking q k ps qu => (e.startPutRecordTracking q k ps qu, .none)
  | .startAddProviderTracking q k ps qu => (e.startAddProviderTracking q k ps qu, .none)
  | .response q p m => (e.registerResponse q p m, .none)
  | .responseFailure q p => (e.registerResponseFailure q p, .none)
  | .sendSuccess q p => (e.registerSendSuccess q p, .none)
  | .sendFailure q p => (e.registerSendFailure q p, .none)
  | .peerFailure q p => (e.registerPeerFailure q p, .none)
  | .next now order => e.nextAction now order

def Engine.run (e : Engine) : List EOp → Engine × List Outcome
  | [] => (e, [])
  | op :: ops => ((Engine.run (e.step op).1 ops).1, (e.step op).2 :: (Engine.run (e.step op).1 ops).2)

/-- The query an action is about. -/
def EAction.query : EAction → Nat
  | .send q _ => q
  | .findNodeSucceeded q _ => q
  | .putRecordToFoundNodes q _ _ _ => q
  | .putRecordSucceeded q _ => q
  | .addProviderToFoundNodes q _ _ _ _ => q
  | .addProviderSucceeded q _ => q
  | .getRecordDone q => q
  | .partialRecord q _ _ => q
  | .getProvidersDone q _ => q
  | .failed q => q

/-- Terminal actions: everything except a request and a partial result. -/
def EAction.terminal : EAction → Bool
  | .send _ _ => false
  | .partialRecord _ _ _ => false
  | _ => true

/-- Number of terminal actions about query `q`. -/
def terminalCount (q : Nat) : List Outcome → Nat
  | [] => 0
  | .act a :: os => (if a.terminal ∧ a.query = q then 1 else 0) + terminalCount q os
  | _ :: os => terminalCount q os

/-- Number of actions of any kind about query `q`. -/
def actionCount (q : Nat) : List Outcome → Nat
  | [] => 0
  | .act a :: os => (if a.query = q then 1 else 0) + actionCount q os
  | _ :: os => actionCount q os

/-! ### Ghost information for the per-query statements at engine level -/

/-- The peer lists of a message carry the true distances and name only peers of the universe. -/
def Msg.ok (d : Nat → Nat) (U : List Nat) : Msg → Prop
  | .findNode peers => ∀ kp ∈ peers, kp.dist = d kp.peer ∧ kp.peer ∈ U
  | .getRecord _ peers => ∀ kp ∈ peers, kp.dist = d kp.peer ∧ kp.peer ∈ U
  | .getProviders _ peers => ∀ kp ∈ peers, kp.dist = d kp.peer ∧ kp.peer ∈ U
  | _ => True

/-- The responses routed to query `q` are well formed (nothing is assumed about other queries). -/
def EOp.okFor (d : Nat → Nat) (U : List Nat) (q : Nat) : EOp → Prop
  | .response q' _ m => q' = q → m.ok d U
  | _ => True

/-- The operation starts an iterative lookup under id `q` with the initial candidates `inPeers`. -/
def EOp.startsLookup (q : Nat) (inPeers : List KPeer) : EOp → Prop
  | .startFindNode q' c => q' = q ∧ c = inPeers
  | .startPutRecord q' _ c _ => q' = q ∧ c = inPeers
  | .startGetRecord q' c _ _ => q' = q ∧ c = inPeers
  | .startAddProvider q' _ _ c _ => q' = q ∧ c = inPeers
  | .startGetProviders q' c _ => q' = q ∧ c = inPeers
  | _ => False

/-- The peer query `q` is told to contact by one outcome. -/
def sentNow (q : Nat) : Outcome → Option Nat
  | .act (.send q' p) => if q' = q then some p else none
  | _ => none

/-- The peers query `q` was told to contact, oldest first. -/
def sentTo (q : Nat) : List Outcome → List Nat
  | [] => []
  | o :: os => (sentNow q o).toList ++ sentTo q os

/-- The clock readings of the engine never go back (starting from `t`). -/
def eMonotoneFrom (t : Nat) : List EOp → Prop
  | [] => True
  | .next now _ :: ops => t ≤ now ∧ eMonotoneFrom now ops
  | _ :: ops => eMonotoneFrom t ops

def eLastNow (t : Nat) : List EOp → Nat
  | [] => t
  | .next now _ :: ops => eLastNow now ops
  | _ :: ops => eLastNow t ops

/-- The requests of a query that count towards the parallelism factor at time `now`: unanswered and
not older than the peer timeout for `FindNodeContext`, unanswered for value and provider lookups. -/
def QueryType.inFlight (now : Nat) : QueryType → Nat
  | .findNode c => (c.fresh now).length
  | .putRecord _ _ c => (c.fresh now).length
  | .addProvider _ _ _ c => (c.fresh now).length
  | .getRecord c => c.pending.length
  | .getProviders c => c.pending.length
  | _ => 0

end Litep2pVerif.Kad.Query
