/-!
# Model of `MemoryStore` (src/protocol/libp2p/kademlia/store.rs) — property C17

Mirrors `put`, `get`, `put_provider`, `get_providers`, `put_local_provider`,
`remove_local_provider`. Hash maps are association lists with unique keys (their order is never
observable), time is an explicit input, the XOR distance of a provider to the key is an input of
the operation (a function of peer and key in the real code: SHA-256 is not modelled).
`binary_search_by` is modelled by its specification on strictly sorted input (the position is the
number of strictly smaller elements); strict sortedness is an invariant proved in
`Proofs/Kad/Store.lean`.
-/
namespace Litep2pVerif.Kad.Store

structure Cfg where
  maxRecords : Nat
  maxRecordSize : Nat
  maxProviderKeys : Nat
  maxProviderAddrs : Nat
  maxProvidersPerKey : Nat
  providerTtl : Nat
  deriving Repr, DecidableEq

structure Rec where
  key : Nat
  value : List Nat
  expires : Option Nat
  deriving Repr, DecidableEq

structure Prov where
  peer : Nat
  dist : Nat
  addrs : List Nat
  expires : Nat
  deriving Repr, DecidableEq

structure Store where
  records : List Rec := []
  providerKeys : List (Nat × List Prov) := []
  localProviders : List Nat := []
  deriving Repr, DecidableEq

def Store.empty : Store := {}

/-- `Record::is_expired`. -/
def Rec.expiredAt (r : Rec) (now : Nat) : Bool :=
  match r.expires with
  | none => false
  | some t => t ≤ now

/-- `ProviderRecord::is_expired`. -/
def Prov.expiredAt (p : Prov) (now : Nat) : Bool := p.expires ≤ now

def lookupRec (k : Nat) : List Rec → Option Rec
  | [] => none
  | r :: rs => if r.key = k then some r else lookupRec k rs

def eraseRec (k : Nat) : List Rec → List Rec
  | [] => []
  | r :: rs => if r.key = k then rs else r :: eraseRec k rs

/-- Replace the record stored under `r.key` (caller knows it is present). -/
def replaceRec (r : Rec) : List Rec → List Rec
  | [] => []
  | x :: xs => if x.key = r.key then r :: xs else x :: replaceRec r xs

/-- `MemoryStore::get`. -/
def getRecord (s : Store) (k : Nat) (now : Nat) : Store × Option Rec :=
  match lookupRec k s.records with
  | none => (s, none)
  | some r =>
    if r.expiredAt now then ({ s with records := eraseRec k s.records }, none)
    else (s, some r)

/-- `MemoryStore::put`. -/
def put (cfg : Cfg) (s : Store) (r : Rec) : Store :=
  if cfg.maxRecordSize ≤ r.value.length then s
  else
    match lookupRec r.key s.records with
    | some old =>
      match old.expires, r.expires with
      | some stored, some new =>
        if new < stored then s else { s with records := replaceRec r s.records }
      | _, _ => { s with records := replaceRec r s.records }
    | none =>
      if cfg.maxRecords ≤ s.records.length then s
      else { s with records := r :: s.records }

def lookupProv (k : Nat) : List (Nat × List Prov) → Option (List Prov)
  | [] => none
  | (k', ps) :: rest => if k' = k then some ps else lookupProv k rest

def eraseProvKey (k : Nat) : List (Nat × List Prov) → List (Nat × List Prov)
  | [] => []
  | (k', ps) :: rest => if k' = k then rest else (k', ps) :: eraseProvKey k rest

def setProvKey (k : Nat) (v : List Prov) : List (Nat × List Prov) → List (Nat × List Prov)
  | [] => []
  | (k', ps) :: rest => if k' = k then (k, v) :: rest else (k', ps) :: setProvKey k v rest

/-- Number of providers strictly closer than `d` (the insertion point in a sorted list). -/
def lowerBound (d : Nat) (ps : List Prov) : Nat := (ps.takeWhile (fun p => p.dist < d)).length

/-- `binary_search_by(|p| p.distance().cmp(&d))` on a strictly sorted list. -/
def search (d : Nat) (ps : List Prov) : Except Nat Nat :=
  let i := lowerBound d ps
  match ps[i]? with
  | some p => if p.dist = d then .ok i else .error i
  | none => .error i

/-- The `Entry::Occupied` branch of `put_provider`. -/
def putProvList (maxPerKey : Nat) (ps : List Prov) (p : Prov) : List Prov × Bool :=
  match search p.dist ps with
  | .ok i => (ps.set i p, true)
  | .error i =>
    if i = maxPerKey then (ps, false)
    else
      ((if ps.length = maxPerKey then ps.dropLast else ps).insertIdx i p, true)

/-- `MemoryStore::put_provider`. `addrs` is truncated to `max_provider_addresses`. -/
def putProvider (cfg : Cfg) (s : Store) (k : Nat) (peer dist : Nat) (addrs : List Nat) (now : Nat) :
    Store × Bool :=
  let p : Prov := { peer, dist, addrs := addrs.take cfg.maxProviderAddrs, expires := now + cfg.providerTtl }
  match lookupProv k s.providerKeys with
  | none =>
    if s.providerKeys.length < cfg.maxProviderKeys then
      ({ s with providerKeys := (k, [p]) :: s.providerKeys }, true)
    else (s, false)
  | some ps =>
    let (ps', ok) := putProvList cfg.maxProvidersPerKey ps p
    ({ s with providerKeys := setProvKey k ps' s.providerKeys }, ok)

/-- `MemoryStore::get_providers`. Returns `(peer, addresses)` pairs. -/
def getProviders (s : Store) (k : Nat) (now : Nat) : Store × List Prov :=
  match lookupProv k s.providerKeys with
  | none => (s, [])
  | some ps =>
    let live := ps.filter (fun p => !p.expiredAt now)
    if live.isEmpty then ({ s with providerKeys := eraseProvKey k s.providerKeys }, [])
    else ({ s with providerKeys := setProvKey k live s.providerKeys }, live)

/-- `MemoryStore::put_local_provider` (`localDist` = distance of the local peer id to `k`). -/
def putLocalProvider (cfg : Cfg) (s : Store) (k : Nat) (localPeer localDist : Nat) (now : Nat) :
    Store × Bool :=
  let (s', ok) := putProvider cfg s k localPeer localDist [] now
  if ok then
    ({ s' with localProviders := if s'.localProviders.contains k then s'.localProviders else k :: s'.localProviders }, true)
  else (s', false)

inductive RmOut where
  | ok
  | bug      -- a `debug_assert!(false)` branch
  deriving Repr, DecidableEq

/-- `MemoryStore::remove_local_provider`. -/
def removeLocalProvider (s : Store) (k : Nat) (localDist : Nat) : Store × RmOut :=
  if !s.localProviders.contains k then (s, .ok)
  else
    let s := { s with localProviders := s.localProviders.erase k }
    match lookupProv k s.providerKeys with
    | none => (s, .bug)
    | some ps =>
      match search localDist ps with
      | .ok i =>
        let ps' := ps.eraseIdx i
        if ps'.isEmpty then ({ s with providerKeys := eraseProvKey k s.providerKeys }, .ok)
        else ({ s with providerKeys := setProvKey k ps' s.providerKeys }, .ok)
      | .error _ => (s, .bug)

/-- Operations of the store, with the clock reading of each. -/
inductive Op where
  | put (r : Rec)
  | get (k : Nat) (now : Nat)
  | putProvider (k peer dist : Nat) (addrs : List Nat) (now : Nat)
  | getProviders (k : Nat) (now : Nat)
  | putLocal (k localPeer localDist : Nat) (now : Nat)
  | removeLocal (k localDist : Nat)
  deriving Repr

def apply (cfg : Cfg) (s : Store) : Op → Store
  | .put r => put cfg s r
  | .get k now => (getRecord s k now).1
  | .putProvider k peer dist addrs now => (putProvider cfg s k peer dist addrs now).1
  | .getProviders k now => (getProviders s k now).1
  | .putLocal k lp ld now => (putLocalProvider cfg s k lp ld now).1
  | .removeLocal k ld => (removeLocalProvider s k ld).1

def run (cfg : Cfg) (ops : List Op) : Store := ops.foldl (apply cfg) Store.empty

end Litep2pVerif.Kad.Store
