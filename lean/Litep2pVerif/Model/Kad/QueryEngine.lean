import Litep2pVerif.Model.Kad.Query
/-!
# Model of `QueryEngine` (src/protocol/libp2p/kademlia/query/mod.rs) — property C15

`queries : HashMap<QueryId, QueryType>` is an association list. `QueryEngine::next_action` iterates
the hash map in an unspecified order: the order in which the queries are visited is an explicit
input `order` of `Engine.nextAction` (every order is allowed; the theorems hold for every order).
Payloads that the engine only carries along (record, provider, key) are numbers.
-/
namespace Litep2pVerif.Kad.Query

inductive QueryType where
  | findNode (ctx : FindNode)
  | putRecord (record : Nat) (quorum : Quorum) (ctx : FindNode)
  | putRecordToPeers (record : Nat) (quorum : Quorum) (ctx : FindMany)
  | putRecordToFoundNodes (ctx : PutTarget)
  | getRecord (ctx : GetRecord)
  | addProvider (key : Nat) (provider : Nat) (quorum : Quorum) (ctx : FindNode)
  | addProviderToFoundNodes (ctx : PutTarget)
  | getProviders (ctx : GetProviders)
  deriving Repr, DecidableEq

/-- `KademliaMessage` as far as the engine looks at it. -/
inductive Msg where
  | findNode (peers : List KPeer)
  | putValue
  | getRecord (record : Option (Nat × Bool)) (peers : List KPeer)
  | addProvider
  | getProviders (providers : List Prov) (peers : List KPeer)
  deriving Repr, DecidableEq

/-- `QueryAction` as returned by `QueryEngine::next_action`. -/
inductive EAction where
  | send (query peer : Nat)
  | findNodeSucceeded (query : Nat) (peers : List KPeer)
  | putRecordToFoundNodes (query record : Nat) (peers : List KPeer) (quorum : Quorum)
  | putRecordSucceeded (query key : Nat)
  | addProviderToFoundNodes (query key provider : Nat) (peers : List KPeer) (quorum : Quorum)
  | addProviderSucceeded (query key : Nat)
  | getRecordDone (query : Nat)
  | partialRecord (query peer record : Nat)
  | getProvidersDone (query : Nat) (providers : List Prov)
  | failed (query : Nat)
  deriving Repr, DecidableEq

/-- Result of `QueryEngine::next_action`; `bug` stands for the `expect("query to exist")` panic. -/
inductive Outcome where
  | none
  | act (a : EAction)
  | bug
  deriving Repr, DecidableEq

structure Engine where
  localPeer : Nat
  repl : Nat
  par : Nat
  /-- `DEFAULT_PEER_TIMEOUT` (settable through the guarded hook) -/
  peerTimeout : Nat
  queries : List (Nat × QueryType) := []
  deriving Repr, DecidableEq

def qLookup (q : Nat) : List (Nat × QueryType) → Option QueryType
  | [] => none
  | x :: xs => if x.1 = q then some x.2 else qLookup q xs

def qErase (q : Nat) (l : List (Nat × QueryType)) : List (Nat × QueryType) :=
  l.filter (fun x => x.1 ≠ q)

/-- `HashMap::insert`. -/
def qInsert (q : Nat) (t : QueryType) (l : List (Nat × QueryType)) : List (Nat × QueryType) :=
  (q, t) :: qErase q l

/-- Replace the context of an existing query (`get_mut`). -/
def qSet (q : Nat) (t : QueryType) : List (Nat × QueryType) → List (Nat × QueryType)
  | [] => []
  | x :: xs => if x.1 = q then (q, t) :: xs else x :: qSet q t xs

namespace Engine

def newFindNode (e : Engine) (q : Nat) (cands : List KPeer) : FindNode :=
  FindNode.new e.localPeer e.repl e.par q e.peerTimeout cands

def startFindNode (e : Engine) (q : Nat) (cands : List KPeer) : Engine :=
  { e with queries := qInsert q (.findNode (e.newFindNode q cands)) e.queries }

def startPutRecord (e : Engine) (q record : Nat) (cands : List KPeer) (quorum : Quorum) : Engine :=
  { e with queries := qInsert q (.putRecord record quorum (e.newFindNode q cands)) e.queries }

def startPutRecordToPeers (e : Engine) (q record : Nat) (peers : List KPeer) (quorum : Quorum) :
    Engine :=
  { e with queries := qInsert q (.putRecordToPeers record quorum ⟨q, peers⟩) e.queries }

def startGetRecord (e : Engine) (q : Nat) (cands : List KPeer) (quorum : Quorum)
    (localRecord : Bool) : Engine :=
  { e with queries := (qInsert q
      (.getRecord (GetRecord.new e.localPeer e.repl e.par q quorum localRecord cands)) e.queries) }

def startAddProvider (e : Engine) (q key provider : Nat) (cands : List KPeer) (quorum : Quorum) :
    Engine :=
  { e with queries := qInsert q (.addProvider key provider quorum (e.newFindNode q cands)) e.queries }

def startGetProviders (e : Engine) (q : Nat) (cands : List KPeer) (known : List Prov) : Engine :=
  { e with queries := (qInsert q
      (.getProviders (GetProviders.new e.localPeer e.par q known cands)) e.queries) }

def startPutRecordTracking (e : Engine) (q key : Nat) (peers : List Nat) (quorum : Quorum) : Engine :=
  { e with queries := qInsert q (.putRecordToFoundNodes (PutTarget.new q key peers quorum)) e.queries }

def startAddProviderTracking (e : Engine) (q key : Nat) (peers : List Nat) (quorum : Quorum) :
    Engine :=
  { e with queries := qInsert q (.addProviderToFoundNodes (PutTarget.new q key peers quorum)) e.queries }

/-- `register_response_failure` on one query. -/
def failType (peer : Nat) : QueryType → QueryType
  | .findNode c => .findNode (c.registerResponseFailure peer)
  | .putRecord r qu c => .putRecord r qu (c.registerResponseFailure peer)
  | .putRecordToPeers r qu c => .putRecordToPeers r qu c
  | .putRecordToFoundNodes c => .putRecordToFoundNodes c
  | .getRecord c => .getRecord (c.registerResponseFailure peer)
  | .addProvider k p qu c => .addProvider k p qu (c.registerResponseFailure peer)
  | .addProviderToFoundNodes c => .addProviderToFoundNodes c
  | .getProviders c => .getProviders (c.registerResponseFailure peer)

def registerResponseFailure (e : Engine) (q peer : Nat) : Engine :=
  match qLookup q e.queries with
  | none => e
  | some t => { e with queries := qSet q (failType peer t) e.queries }

/-- `register_response` on one query: a message of the wrong kind counts as a failure. -/
def respType (peer : Nat) (m : Msg) : QueryType → QueryType
  | .findNode c =>
    match m with
    | .findNode peers => .findNode (c.registerResponse peer peers)
    | _ => .findNode (c.registerResponseFailure peer)
  | .putRecord r qu c =>
    match m with
    | .findNode peers => .putRecord r qu (c.registerResponse peer peers)
    | _ => .putRecord r qu (c.registerResponseFailure peer)
  | .putRecordToPeers r qu c => .putRecordToPeers r qu c
  | .putRecordToFoundNodes c => .putRecordToFoundNodes c
  | .getRecord c =>
    match m with
    | .getRecord record peers => .getRecord (c.registerResponse peer record peers)
    | _ => .getRecord (c.registerResponseFailure peer)
  | .addProvider k p qu c =>
    match m with
    | .findNode peers => .addProvider k p qu (c.registerResponse peer peers)
    | _ => .addProvider k p qu (c.registerResponseFailure peer)
  | .addProviderToFoundNodes c => .addProviderToFoundNodes c
  | .getProviders c =>
    match m with
    | .getProviders providers peers => .getProviders (c.registerResponse peer providers peers)
    | _ => .getProviders (c.registerResponseFailure peer)

def registerResponse (e : Engine) (q peer : Nat) (m : Msg) : Engine :=
  match qLookup q e.queries with
  | none => e
  | some t => { e with queries := qSet q (respType peer m t) e.queries }

/-- `register_send_failure`: only the tracking contexts look at it. -/
def sendFailType (peer : Nat) : QueryType → QueryType
  | .putRecordToFoundNodes c => .putRecordToFoundNodes (c.registerSendFailure peer)
  | .addProviderToFoundNodes c => .addProviderToFoundNodes (c.registerSendFailure peer)
  | t => t

def registerSendFailure (e : Engine) (q peer : Nat) : Engine :=
  match qLookup q e.queries with
  | none => e
  | some t => { e with queries := qSet q (sendFailType peer t) e.queries }

def sendOkType (peer : Nat) : QueryType → QueryType
  | .putRecordToFoundNodes c => .putRecordToFoundNodes (c.registerSendSuccess peer)
  | .addProviderToFoundNodes c => .addProviderToFoundNodes (c.registerSendSuccess peer)
  | t => t

def registerSendSuccess (e : Engine) (q peer : Nat) : Engine :=
  match qLookup q e.queries with
  | none => e
  | some t => { e with queries := qSet q (sendOkType peer t) e.queries }

def registerPeerFailure (e : Engine) (q peer : Nat) : Engine :=
  (e.registerSendFailure q peer).registerResponseFailure q peer

def nextPeerAction (e : Engine) (q peer : Nat) : Option QAction :=
  match qLookup q e.queries with
  | none => none
  | some (.findNode c) => c.nextPeerAction peer
  | some (.putRecord _ _ c) => c.nextPeerAction peer
  | some (.putRecordToPeers _ _ _) => none
  | some (.getRecord c) => c.nextPeerAction peer
  | some (.addProvider _ _ _ c) => c.nextPeerAction peer
  | some (.getProviders c) => c.nextPeerAction peer
  | some (.putRecordToFoundNodes _) => none
  | some (.addProviderToFoundNodes _) => none

/-- The result reported by `on_query_succeeded` for a removed query. -/
def successAction (q : Nat) : QueryType → EAction
  | .findNode c => .findNodeSucceeded q (dvalues c.responses)
  | .putRecord r qu c => .putRecordToFoundNodes c.query r (dvalues c.responses) qu
  | .putRecordToPeers r qu c => .putRecordToFoundNodes c.query r c.peersToReport qu
  | .putRecordToFoundNodes c => .putRecordSucceeded c.query c.key
  | .getRecord c => .getRecordDone c.query
  | .addProvider k p qu c => .addProviderToFoundNodes c.query k p (dvalues c.responses) qu
  | .addProviderToFoundNodes c => .addProviderSucceeded c.query c.key
  | .getProviders c => .getProvidersDone c.query c.found

def onQuerySucceeded (e : Engine) (q : Nat) : Engine × Outcome :=
  match qLookup q e.queries with
  | none => (e, .bug)
  | some t => ({ e with queries := qErase q e.queries }, .act (successAction q t))

def onQueryFailed (e : Engine) (q : Nat) : Engine × Outcome :=
  match qLookup q e.queries with
  | none => (e, .bug)
  | some _ => ({ e with queries := qErase q e.queries }, .act (.failed q))

/-- `context.next_action()` of one query. -/
def typeNext (now : Nat) : QueryType → QueryType × Option QAction
  | .findNode c => (.findNode (c.nextAction now).1, (c.nextAction now).2)
  | .putRecord r qu c => (.putRecord r qu (c.nextAction now).1, (c.nextAction now).2)
  | .putRecordToPeers r qu c => (.putRecordToPeers r qu c, c.nextAction)
  | .getRecord c => (.getRecord c.nextAction.1, c.nextAction.2)
  | .addProvider k p qu c => (.addProvider k p qu (c.nextAction now).1, (c.nextAction now).2)
  | .getProviders c => (.getProviders c.nextAction.1, c.nextAction.2)
  | .putRecordToFoundNodes c => (.putRecordToFoundNodes c, c.nextAction)
  | .addProviderToFoundNodes c => (.addProviderToFoundNodes c, c.nextAction)

/-- `QueryEngine::next_action`, visiting the queries in the given order (ids that are not active
are skipped). -/
def nextAction (e : Engine) (now : Nat) : List Nat → Engine × Outcome
  | [] => (e, .none)
  | q :: rest =>
    match qLookup q e.queries with
    | none => nextAction e now rest
    | some t =>
      match (typeNext now t).2 with
      | some (.succeeded q') =>
        onQuerySucceeded { e with queries := qSet q (typeNext now t).1 e.queries } q'
      | some (.failed q') =>
        onQueryFailed { e with queries := qSet q (typeNext now t).1 e.queries } q'
      | some (.send q' p) =>
        ({ e with queries := qSet q (typeNext now t).1 e.queries }, .act (.send q' p))
      | some (.partialRecord q' p v) =>
        ({ e with queries := qSet q (typeNext now t).1 e.queries }, .act (.partialRecord q' p v))
      | none => nextAction { e with queries := qSet q (typeNext now t).1 e.queries } now rest

end Engine

end Litep2pVerif.Kad.Query
