import Litep2pVerif.Model.Kad.Table
/-!
# The coordinator's calls into the routing table (`Kademlia` in src/protocol/libp2p/kademlia/mod.rs) — property C14
at coordinator level

`Kademlia` owns the `RoutingTable` and the map `peers` (peers with a `PeerContext`; NOT the set of open connections:
`on_connection_established` leaves out a peer for which nothing is pending, `on_inbound_substream` inserts it).
Which table operation each event handler performs, as a function of the event and of `peers`:

* `KademliaCommand::AddKnownPeer`  → `add_known_peer(peer, addrs, if peers.contains(peer) { Connected } else { NotConnected })`
* `ConnectionEstablished`          → `on_connection_established(key, endpoint)` (both arms of `peers.entry`)
* `ConnectionClosed`               → `disconnect_peer`: `peers.remove`, entry's connection := `NotConnected`
* `DialFailure`                    → `on_dial_failure(key, addrs)` and NOTHING else
* inbound substream                → `peers.entry(peer).or_default()`, no table call

(`update_routing_table` performs `AddKnownPeer`'s call for every peer of a response: the same `addKnown` event.)
The table itself is `Model/Kad/Table.lean`.
-/
namespace Litep2pVerif.Kad.Wiring
open Litep2pVerif.Kad.Key Litep2pVerif.Kad.Bucket Litep2pVerif.Kad.Table

inductive Ev
  /-- `AddKnownPeer` command / a peer listed in a response (automatic update mode) -/
  | addKnown (peer key naddrs : Nat)
  /-- `pending`: there were pending dial actions for the peer (it then gets a `PeerContext`) -/
  | established (peer key : Nat) (dialer pending : Bool)
  | closed (peer key : Nat)
  | dialFailure (peer key naddrs : Nat)
  | inbound (peer : Nat)
  deriving Repr, DecidableEq

structure W where
  table : Table
  /-- keys of `Kademlia::peers` -/
  peers : List Nat := []
  deriving Repr, DecidableEq

/-- The table operations the handler of `e` performs (placeholder keys are irrelevant: 0). -/
def calls (w : W) : Ev → List Op
  | .addKnown p k n => [.add p k n (if p ∈ w.peers then .connected else .notConnected) 0]
  | .established _ k d _ => [.connected k d 0]
  | .closed _ k => [.disconnected k 0]
  | .dialFailure _ k n => [.dialFailure k n 0]
  | .inbound _ => []

def peersAfter (w : W) : Ev → List Nat
  | .established p _ _ pending => if pending ∧ p ∉ w.peers then w.peers ++ [p] else w.peers
  | .closed p _ => w.peers.filter (· != p)
  | .inbound p => if p ∈ w.peers then w.peers else w.peers ++ [p]
  | _ => w.peers

def wstep (K : Nat) (w : W) (e : Ev) : W :=
  { table := (calls w e).foldl (step K) w.table, peers := peersAfter w e }

def wrun (K nb localKey : Nat) (evs : List Ev) : W :=
  evs.foldl (wstep K) { table := Table.new nb localKey }

/-- All table operations of a history, in order. -/
def opsOf (K : Nat) : W → List Ev → List Op
  | _, [] => []
  | w, e :: r => calls w e ++ opsOf K (wstep K w e) r

/-- `e` cannot take the `Connected` flag from the entry with key `key`: it is not the close of that peer's
connection and not an `add_known_peer` (with addresses) for it. -/
def Ev.harmless (key : Nat) : Ev → Prop
  | .closed _ k => k ≠ key
  | .addKnown _ k n => k ≠ key ∨ n = 0
  | _ => True

instance (key : Nat) (e : Ev) : Decidable (e.harmless key) := by
  cases e <;> unfold Ev.harmless <;> infer_instance

end Litep2pVerif.Kad.Wiring
