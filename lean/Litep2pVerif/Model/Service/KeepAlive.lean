import Litep2pVerif.Model.Service.Conns
/-!
# Model of the keep-alive mechanism — property C09
(src/protocol/transport_service.rs: `ConnectionContext::{downgrade,try_upgrade}`,
`KeepAliveTracker`, the keep-alive parts of `on_connection_established/closed`, `open_substream`
and `poll_next`; src/protocol/connection.rs: `ConnectionHandle`, `Permit`;
src/protocol/protocol_set.rs: `report_connection_established`; src/transport/tcp/connection.rs:
`lifetime_permit = keep_alive.then(|| opening_permit.clone())` and the loop exit on `None`.)

A connection's event loop ends by the idle mechanism when its command channel yields `None`, i.e.
when no *strong* `Sender` is left. Strong senders are reference counted; the model makes the
multiset of holders explicit (`strong`):

* every protocol's `ConnectionHandle` for the connection while it is `Active` (the `ProtocolSet`'s
  own handle is weak after `report_connection_established`), including the handle clones inside
  `ConnectionEstablished` messages not yet processed;
* one `Permit` inside every `OpenSubstream` command (queued, or held by the connection task while
  it negotiates) and one *opening permit* inside every `SubstreamOpened` message in flight;
* one *lifetime permit* inside every substream of a `SubstreamKeepAlive::Yes` protocol (in flight or
  held by the protocol).

Per protocol the `KeepAliveTracker` is `last_activity` plus the pending sleep futures. A sleep
future starts counting at its FIRST POLL (`async { sleep(timeout).await }` is lazy), which the model
keeps (`Timer.deadline = none` until the tracker is polled). Time is explicit (`now`).
-/
namespace Litep2pVerif.Service.KA
open Litep2pVerif.Service

/-! ### association lists (hash maps) -/

def aget {β : Type} : List (Nat × β) → Nat → Option β
  | [], _ => none
  | (k, v) :: rest, x => if k = x then some v else aget rest x

def aremove {β : Type} (m : List (Nat × β)) (x : Nat) : List (Nat × β) := m.filter (fun e => e.1 != x)

def aput {β : Type} (m : List (Nat × β)) (x : Nat) (v : β) : List (Nat × β) := (x, v) :: aremove m x

/-! ### `ConnectionHandle`, `ConnectionContext` -/

structure Handle where
  id : Nat
  active : Bool
  deriving Repr, DecidableEq

/-- `ConnectionHandle::close`. -/
def Handle.close (h : Handle) : Handle := { h with active := false }

/-- `ConnectionHandle::try_upgrade`; `up` = `WeakSender::upgrade` succeeds (a strong sender exists). -/
def Handle.tryUpgrade (h : Handle) (up : Bool) : Handle :=
  if h.active then h else { h with active := up }

structure KCtx where
  primary : Handle
  secondary : Option Handle
  deriving Repr, DecidableEq

/-- `ConnectionContext::downgrade`. -/
def KCtx.downgrade (ctx : KCtx) (c : Nat) : KCtx :=
  if ctx.primary.id = c then { ctx with primary := ctx.primary.close }
  else match ctx.secondary with
    | some h => if h.id = c then { ctx with secondary := some h.close } else ctx
    | none => ctx

/-- `ConnectionContext::try_upgrade`. -/
def KCtx.tryUpgrade (ctx : KCtx) (c : Nat) (up : Bool) : KCtx :=
  if ctx.primary.id = c then { ctx with primary := ctx.primary.tryUpgrade up }
  else match ctx.secondary with
    | some h => if h.id = c then { ctx with secondary := some (h.tryUpgrade up) } else ctx
    | none => ctx

/-- Is the handle for connection `c` (in either slot) active? -/
def KCtx.activeFor (ctx : KCtx) (c : Nat) : Bool :=
  (ctx.primary.id == c && ctx.primary.active) ||
  (match ctx.secondary with | some h => h.id == c && h.active | none => false)

/-! ### `KeepAliveTracker` -/

/-- One pending `sleep` future. Keys are connection ids (the peer of a connection never changes). -/
structure Timer where
  key : Nat
  /-- `none`: not polled yet — `tokio::time::sleep(timeout)` is created at the first poll -/
  deadline : Option Nat
  timeout : Nat
  deriving Repr, DecidableEq

structure Tracker where
  /-- `last_activity` -/
  last : List (Nat × Nat) := []
  /-- `pending_keep_alive_timeouts` -/
  timers : List Timer := []
  deriving Repr, DecidableEq

/-- `KeepAliveTracker::substream_activity`. -/
def Tracker.activity (tr : Tracker) (key now T : Nat) : Tracker :=
  match aget tr.last key with
  | none => { last := aput tr.last key now, timers := tr.timers ++ [⟨key, none, T⟩] }
  | some _ => { tr with last := aput tr.last key now }

/-- `KeepAliveTracker::on_connection_closed`. -/
def Tracker.closed (tr : Tracker) (key : Nat) : Tracker := { tr with last := aremove tr.last key }

def Timer.start (now : Nat) (t : Timer) : Timer :=
  match t.deadline with
  | none => { t with deadline := some (now + t.timeout) }
  | some _ => t

def Timer.fired (now : Nat) (t : Timer) : Bool :=
  match t.deadline with
  | some d => decide (d ≤ now)
  | none => false

/-- `KeepAliveTracker::poll_next` for one completed sleep: connection gone ⇒ ignore; not idle for
`T` yet ⇒ re-arm with the remaining time; else forget the connection and report its key. -/
def fireOne (T now : Nat) (acc : Tracker × List Nat) (t : Timer) : Tracker × List Nat :=
  match aget acc.1.last t.key with
  | none => acc
  | some la =>
    if now - la < T then
      ({ acc.1 with timers := acc.1.timers ++ [⟨t.key, none, T - (now - la)⟩] }, acc.2)
    else ({ acc.1 with last := aremove acc.1.last t.key }, acc.2 ++ [t.key])

/-- Poll every sleep once: unstarted ones start, completed ones are handled. -/
def pollRound (T now : Nat) (tr : Tracker) : Tracker × List Nat :=
  let ts := tr.timers.map (Timer.start now)
  (ts.filter (Timer.fired now)).foldl (fireOne T now)
    ({ tr with timers := ts.filter (fun t => !(Timer.fired now t)) }, [])

/-- Poll the tracker until it is `Pending` without a wake-up: a second round starts the re-armed
sleeps (their remaining time is positive, so none of them completes). -/
def pollTimers (T now : Nat) (tr : Tracker) : Tracker × List Nat :=
  let r1 := pollRound T now tr
  let r2 := pollRound T now r1.1
  (r2.1, r1.2 ++ r2.2)

/-! ### one protocol's `TransportService` -/

structure Svc where
  /-- `substream_keep_alive == SubstreamKeepAlive::Yes` -/
  ka : Bool
  /-- `keep_alive_timeout` -/
  T : Nat
  conns : List (Nat × KCtx) := []
  tr : Tracker := {}
  deriving Repr, DecidableEq

/-- `on_connection_established`; the `Bool` tells whether the handle was stored (else dropped). -/
def Svc.onEstablished (s : Svc) (p c now : Nat) : Svc × Option Ev × Bool :=
  match aget s.conns p with
  | some ctx =>
    match ctx.secondary with
    | some _ => (s, none, false)
    | none =>
      ({ s with tr := s.tr.activity c now s.T,
                conns := aput s.conns p { ctx with secondary := some ⟨c, true⟩ } }, none, true)
  | none =>
    ({ s with conns := aput s.conns p ⟨⟨c, true⟩, none⟩, tr := s.tr.activity c now s.T },
      some (.established p), true)

/-- `on_connection_closed`; the `Bool` is the `debug_assert!(false)` branch. -/
def Svc.onClosed (s : Svc) (p c : Nat) : Svc × Option Ev × Bool :=
  let tr := s.tr.closed c
  match aget s.conns p with
  | none => ({ s with tr := tr }, none, true)
  | some ctx =>
    if ctx.primary.id = c then
      match ctx.secondary with
      | none => ({ s with tr := tr, conns := aremove s.conns p }, some (.closed p), false)
      | some h => ({ s with tr := tr, conns := aput s.conns p ⟨h, none⟩ }, none, false)
    else ({ s with tr := tr, conns := aput s.conns p ⟨ctx.primary, none⟩ }, none, false)

/-- `open_substream`. `up`: a strong sender of the primary connection's channel exists (decides
`try_get_permit` on an inactive handle); `send`: outcome of `try_send`; `sid`: counter value. The
`Bool` tells whether the counter was advanced. -/
def Svc.openSubstream (s : Svc) (p now : Nat) (up : Bool) (send : SendRes) (sid : Nat) :
    Svc × Bool × Except OpenErr (Nat × Nat) :=
  match aget s.conns p with
  | none => (s, false, .error .peerDoesNotExist)
  | some ctx =>
    let h := ctx.primary
    if (h.active || up) = false then (s, false, .error .connectionClosed)
    else
      -- the permit is held from here on, so `try_upgrade` succeeds
      let s' := if s.ka then
          { s with tr := s.tr.activity h.id now s.T,
                   conns := aput s.conns p { ctx with primary := h.tryUpgrade true } }
        else s
      match send with
      | .ok => (s', true, .ok (sid, h.id))
      | .full => (s', true, .error .channelClogged)
      | .closed => (s', true, .error .connectionClosed)

/-- `poll_next`, `SubstreamOpened` branch (the message carries the opening permit, so upgrading
succeeds); the protocol name always matches in this model. -/
def Svc.onSubstreamOpened (s : Svc) (p c now : Nat) : Svc :=
  if s.ka then
    let tr := s.tr.activity c now s.T
    match aget s.conns p with
    | some ctx => { s with tr := tr, conns := aput s.conns p (ctx.tryUpgrade c true) }
    | none => { s with tr := tr }
  else s

/-- Downgrade the connection `c`, whichever peer holds it (`connections.get_mut(&peer)` with the
peer recorded in the key). -/
def downgradeAll (conns : List (Nat × KCtx)) (c : Nat) : List (Nat × KCtx) :=
  conns.map fun e => (e.1, e.2.downgrade c)

/-- `poll_next`, keep-alive loop: poll the tracker, downgrade the expired connections. -/
def Svc.pollKeepAlive (s : Svc) (now : Nat) : Svc :=
  let r := pollTimers s.T now s.tr
  { s with tr := r.1, conns := r.2.foldl downgradeAll s.conns }

/-- Does this protocol hold an ACTIVE handle of connection `c`? -/
def Svc.holds (s : Svc) (c : Nat) : Nat :=
  (s.conns.map fun e => (if e.2.primary.id = c ∧ e.2.primary.active then 1 else 0) +
    (match e.2.secondary with | some h => if h.id = c ∧ h.active then 1 else 0 | none => 0)).sum

/-! ### the system: protocols, connection tasks, messages in flight -/

/-- `ProtocolCommand::OpenSubstream` (carries a permit). -/
structure Cmd where
  sid : Nat
  proto : Nat
  conn : Nat
  ka : Bool
  deriving Repr, DecidableEq

/-- `InnerTransportEvent` in a protocol's channel. -/
inductive Msg where
  | established (p c : Nat)                                   -- carries an Active handle
  | closed (p c : Nat)
  | subOpened (p : Nat) (dir : Option Nat) (c : Nat) (life : Bool)  -- opening permit (+ lifetime permit)
  | subFailed (sid : Nat)
  deriving Repr, DecidableEq

structure Sys where
  now : Nat := 0
  svcs : List Svc := []
  nextSub : Nat := 0
  /-- commands in the command channels -/
  queue : List Cmd := []
  /-- commands received by a connection task, negotiation pending -/
  nego : List Cmd := []
  /-- messages to protocols, FIFO per protocol: `(protocol, message)` -/
  inbox : List (Nat × Msg) := []
  /-- substreams held by the protocols: `(protocol, connection, has lifetime permit)` -/
  subs : List (Nat × Nat × Bool) := []
  /-- live connection tasks: `(connection, peer)` -/
  tasks : List (Nat × Nat) := []
  deriving Repr, DecidableEq

def msgHolds (c : Nat) : Msg → Nat
  | .established _ c' => if c' = c then 1 else 0
  | .subOpened _ _ c' life => if c' = c then (if life then 2 else 1) else 0
  | _ => 0

/-- Permits (strong senders that are not protocol handles) of connection `c`. -/
def permits (s : Sys) (c : Nat) : Nat :=
  (s.queue.filter (fun x => x.conn == c)).length + (s.nego.filter (fun x => x.conn == c)).length +
  (s.inbox.map (fun m => msgHolds c m.2)).sum +
  (s.subs.filter (fun x => x.2.1 == c && x.2.2)).length

def handles (svcs : List Svc) (c : Nat) : Nat := (svcs.map (·.holds c)).sum

/-- Number of strong senders of connection `c`'s command channel. -/
def strong (s : Sys) (c : Nat) : Nat := handles s.svcs c + permits s c

/-- The loop-exit rule: `rx.recv()` yields `None` iff no strong sender is left. -/
def exits (s : Sys) (c : Nat) : Bool := strong s c == 0

/-- The lifetime permit the connection task puts into a negotiated substream. -/
def lifetimePermit (ka : Bool) : Bool := ka

def setSvc (svcs : List Svc) (i : Nat) (v : Svc) : List Svc := svcs.set i v

/-- `report_connection_established` on a fresh `ProtocolSet`. -/
def Sys.established (s : Sys) (p c : Nat) : Sys :=
  { s with tasks := s.tasks ++ [(c, p)],
           inbox := s.inbox ++ (List.range s.svcs.length).map (fun i => (i, Msg.established p c)) }

/-- `report_connection_closed`, then the task ends: its receiver, queued commands and the permits
it holds are dropped. -/
def Sys.closed (s : Sys) (p c : Nat) : Sys :=
  { s with tasks := s.tasks.filter (fun t => t.1 != c),
           queue := s.queue.filter (fun x => x.conn != c),
           nego := s.nego.filter (fun x => x.conn != c),
           inbox := s.inbox ++ (List.range s.svcs.length).map (fun i => (i, Msg.closed p c)) }

/-- Capacity of the command channel (`ProtocolSet::new`: `channel(256)`). -/
def CMD_CAP : Nat := 256

/-- Protocol `i` calls `open_substream(p)`. -/
def Sys.open (s : Sys) (i p : Nat) : Sys × Except OpenErr (Nat × Nat) :=
  match s.svcs[i]? with
  | none => (s, .error .peerDoesNotExist)
  | some svc =>
    let target := (aget svc.conns p).map (·.primary.id)
    let up := match target with | some c => decide (0 < strong s c) | none => false
    let send : SendRes := match target with
      | none => .closed
      | some c =>
        if !(s.tasks.any (fun t => t.1 == c)) then .closed
        else if (s.queue.filter (fun x => x.conn == c)).length ≥ CMD_CAP then .full else .ok
    let r := svc.openSubstream p s.now up send s.nextSub
    let s1 := { s with svcs := setSvc s.svcs i r.1, nextSub := if r.2.1 then s.nextSub + 1 else s.nextSub }
    match r.2.2 with
    | .ok (sid, c) => ({ s1 with queue := s1.queue ++ [⟨sid, i, c, svc.ka⟩] }, .ok (sid, c))
    | .error e => (s1, .error e)

/-- What the connection task's `protocol_set.next()` yields right now. -/
inductive Recv where
  | cmd (c : Cmd) | empty | none_
  deriving Repr, DecidableEq

def Sys.recv (s : Sys) (c : Nat) : Sys × Recv :=
  match s.queue.find? (fun x => x.conn == c) with
  | some cmd => ({ s with queue := s.queue.erase cmd, nego := s.nego ++ [cmd] }, .cmd cmd)
  | none => (s, if exits s c then .none_ else .empty)

def peerOf (s : Sys) (c : Nat) : Option Nat := aget s.tasks c

/-- The task finished negotiating `sid`: `handle_negotiated_substream`, `Ok` branch. -/
def Sys.subOpen (s : Sys) (c sid : Nat) : Option Sys :=
  match s.nego.find? (fun x => x.conn == c && x.sid == sid), peerOf s c with
  | some cmd, some p =>
    some { s with nego := s.nego.erase cmd,
                  inbox := s.inbox ++ [(cmd.proto, .subOpened p (some sid) c (lifetimePermit cmd.ka))] }
  | _, _ => none

/-- … `Err` branch (failure or timeout): the permit is dropped, the failure carries the id. -/
def Sys.subFail (s : Sys) (c sid : Nat) : Option Sys :=
  match s.nego.find? (fun x => x.conn == c && x.sid == sid) with
  | some cmd => some { s with nego := s.nego.erase cmd, inbox := s.inbox ++ [(cmd.proto, .subFailed sid)] }
  | none => none

/-- Inbound substream for protocol `i` (`handle_yamux_substream`): needs a permit from the
`ProtocolSet`'s weak handle. -/
def Sys.subInbound (s : Sys) (c i : Nat) : Sys × Bool :=
  match peerOf s c, s.svcs[i]? with
  | some p, some svc =>
    if exits s c then (s, false)
    else ({ s with inbox := s.inbox ++ [(i, .subOpened p none c (lifetimePermit svc.ka))] }, true)
  | _, _ => (s, false)

/-- Protocol `i` drops its `k`-th substream. -/
def Sys.dropSub (s : Sys) (i k : Nat) : Option Sys :=
  let mine := (List.range s.subs.length).filter (fun j => match s.subs[j]? with | some x => x.1 == i | none => false)
  match mine[k]? with
  | some j => some { s with subs := s.subs.eraseIdx j }
  | none => none

/-- Protocol `i` processes one message of its channel. -/
def Sys.deliver (s : Sys) (i : Nat) (m : Msg) : Sys × Option Ev × Bool :=
  match s.svcs[i]? with
  | none => (s, none, false)
  | some svc =>
    match m with
    | .established p c =>
      let r := svc.onEstablished p c s.now
      ({ s with svcs := setSvc s.svcs i r.1 }, r.2.1, false)
    | .closed p c =>
      let r := svc.onClosed p c
      ({ s with svcs := setSvc s.svcs i r.1 }, r.2.1, r.2.2)
    | .subOpened p dir c life =>
      ({ s with svcs := setSvc s.svcs i (svc.onSubstreamOpened p c s.now),
                subs := s.subs ++ [(i, c, life)] }, some (.subOpened p dir), false)
    | .subFailed sid => (s, some (.subFailed sid), false)

/-- Protocol `i` drains its channel (in order), then polls its keep-alive tracker. -/
def Sys.drain (s : Sys) (i : Nat) : Sys × List Ev × Bool :=
  let mine := (s.inbox.filter (fun m => m.1 == i)).map (·.2)
  let s0 := { s with inbox := s.inbox.filter (fun m => m.1 != i) }
  let r := mine.foldl (fun (acc : Sys × List Ev × Bool) m =>
      if acc.2.2 then acc else
      let d := acc.1.deliver i m
      (d.1, (match d.2.1 with | some e => acc.2.1 ++ [e] | none => acc.2.1), d.2.2)) (s0, [], false)
  if r.2.2 then r else
  match r.1.svcs[i]? with
  | some svc => ({ r.1 with svcs := setSvc r.1.svcs i (svc.pollKeepAlive r.1.now) }, r.2.1, false)
  | none => r

/-- Time passes. -/
def Sys.advance (s : Sys) (dt : Nat) : Sys := { s with now := s.now + dt }

/-- Every protocol polls its keep-alive tracker (no messages are processed). -/
def Sys.pollAll (s : Sys) : Sys :=
  { s with svcs := s.svcs.map (fun svc => svc.pollKeepAlive s.now) }

/-! ### the whole system as a transition system (C09 `idle_closed_at`)

Every step is one of the real operations; who does it is in the constructor's comment. The
environment hypothesis (fairness of the executor under a logical clock) is the guard of `advance`:
**the clock does not move while some protocol's tracker holds a sleep future that was pushed but not
polled yet, nor past the deadline of a started one** — i.e. a protocol task is polled when it has a
new timer (it is: `substream_activity` is only called from inside `poll_next`, which then either goes
on to poll the tracker or returns an event to the protocol's loop that polls again, or from
`open_substream`, after which the protocol's loop polls its service again) and when a timer wakes it.
Messages may stay in the channels for any length of time. -/

/-- First message for protocol `i` in the inbox: `(before, message, after)`. -/
def splitFirst (i : Nat) : List (Nat × Msg) → Option (List (Nat × Msg) × Msg × List (Nat × Msg))
  | [] => none
  | x :: r =>
    if x.1 = i then some ([], x.2, r)
    else match splitFirst i r with
      | some (pre, m, post) => some (x :: pre, m, post)
      | none => none

inductive Label where
  /-- a connection task announces the new connection `c` (`report_connection_established`) -/
  | established (c : Nat)
  /-- the task of `c` ends for whatever reason (`report_connection_closed`) -/
  | closed (c : Nat)
  /-- protocol `i` calls `open_substream(p)` -/
  | open (i p : Nat)
  /-- the task of `c` takes a command out of its channel -/
  | recv (c : Nat)
  /-- the task of `c` finishes an outbound negotiation: success / failure -/
  | subOpen (c sid : Nat)
  | subFail (c sid : Nat)
  /-- the task of `c` reports an inbound substream for protocol `i` -/
  | subInbound (c i : Nat)
  /-- protocol `i` drops its `k`-th substream -/
  | dropSub (i k : Nat)
  /-- protocol `i`'s `poll_next` takes the next message of its channel -/
  | deliver (i : Nat)
  /-- protocol `i`'s `poll_next` polls its keep-alive tracker -/
  | poll (i : Nat)
  /-- the logical clock advances -/
  | advance (dt : Nat)
  deriving Repr, DecidableEq

/-- The environment hypothesis: every sleep future of every protocol has been polled (is started) and
none of them completes before `now + dt`. -/
def timersSettled (s : Sys) (dt : Nat) : Bool :=
  s.svcs.all fun svc => svc.tr.timers.all fun t =>
    match t.deadline with
    | some d => decide (s.now + dt ≤ d)
    | none => false

/-- One step. `peer c` is the remote peer of connection `c` (fixed for a connection's life); `n` is a
ghost counter: connection ids are never reused. `none` = the step is not enabled. -/
def Sys.step (peer : Nat → Nat) (n : Nat) (s : Sys) : Label → Option (Nat × Sys)
  | .established c => if n ≤ c then some (c + 1, s.established (peer c) c) else none
  | .closed c => if s.tasks.any (fun t => t.1 == c) then some (n, s.closed (peer c) c) else none
  | .open i p => some (n, (s.open i p).1)
  | .recv c => some (n, (s.recv c).1)
  | .subOpen c sid => (s.subOpen c sid).map fun s' => (n, s')
  | .subFail c sid => (s.subFail c sid).map fun s' => (n, s')
  | .subInbound c i => some (n, (s.subInbound c i).1)
  | .dropSub i k => (s.dropSub i k).map fun s' => (n, s')
  | .deliver i =>
    match splitFirst i s.inbox with
    | some (pre, m, post) => some (n, (Sys.deliver { s with inbox := pre ++ post } i m).1)
    | none => none
  | .poll i =>
    match s.svcs[i]? with
    | some svc => some (n, { s with svcs := setSvc s.svcs i (svc.pollKeepAlive s.now) })
    | none => none
  | .advance dt => if timersSettled s dt then some (n, s.advance dt) else none

/-- Run a list of steps (stops with `none` at the first one that is not enabled). -/
def Sys.steps (peer : Nat → Nat) : Nat → Sys → List Label → Option (Nat × Sys)
  | n, s, [] => some (n, s)
  | n, s, l :: ls =>
    match s.step peer n l with
    | some (n', s') => Sys.steps peer n' s' ls
    | none => none

/-- A system before any connection: protocols `(keep-alive?, timeout)`. -/
def Sys.init (cfg : List (Bool × Nat)) : Sys := { svcs := cfg.map fun x => { ka := x.1, T := x.2 } }

end Litep2pVerif.Service.KA
