import Litep2pVerif.Model.Service.Conns
/-!
# Environment of one `TransportService` — the input assumptions of C08 as a transition system

The service receives its events over ONE FIFO channel (`rx`, tokio mpsc) from the transport manager
(established, dial failure) and from the connection tasks (closed, substream opened / failed). What
the rest of litep2p guarantees about the ORDER in which these arrive at one protocol is written
here as an acceptor `Env` running next to the service:

* **≤ 2 live connections per peer** (`live`): the manager accepts at most a primary and a secondary
  connection per peer (C06) and learns that a connection ended only *after* every protocol has been
  told (`ProtocolSet::report_connection_closed` sends to all protocols, awaits them, then sends to
  the manager — C07 `protocols_before_manager`), so a replacement connection is announced to a
  protocol only after the close of the one it replaces.
* **connection ids are never reused** (`used`; `ConnectionId` comes from a shared counter).
* **close only for an announced connection**, once (`accept` notifies the protocols, then spawns the
  connection task; the task reports closed once — C07).
* **substream events come from a live connection** (the task sends them on the same FIFO channel
  before its own close report), and an outbound answer (`SubstreamOpened{Outbound(id)}` or
  `SubstreamOpenFailure{id}`) is produced **only for a command the task received and has not yet
  answered** (`outstanding`; one future per `OpenSubstream` in `pending_substreams`, a timeout
  becomes a failure with the same id — src/transport/tcp/connection.rs). When the task ends, its
  unanswered commands are dropped with it.

`envOk` is the precondition of a step, `envStep` the update (it needs the service's observation:
an accepted `open` puts its command into the channel of the primary connection).
`force_close` is always possible and does not change the environment: a connection that was told to close is
still live (its substream events and, later, its close report still arrive) until its close is delivered.
`Quiescent` = no outstanding command: every pending open future of every live task has completed.
-/
namespace Litep2pVerif.Service

structure Env where
  /-- connections announced to this protocol whose close has not been delivered yet -/
  live : List (Peer × ConnId) := []
  /-- every connection id ever announced -/
  used : List ConnId := []
  /-- accepted `OpenSubstream` commands not yet answered: `(substream id, peer, connection)` -/
  outstanding : List (SubId × Peer × ConnId) := []
  /-- ghost: connections whose close has been delivered -/
  closedConns : List ConnId := []
  deriving Repr, DecidableEq

/-- Number of live connections to `p`. -/
def liveCount (e : Env) (p : Peer) : Nat := (e.live.filter (fun x => x.1 == p)).length

def outstandingIds (e : Env) : List SubId := e.outstanding.map (·.1)

/-- Is `op` something the environment can do in state `e`? -/
def envOk (e : Env) : Op → Bool
  | .inner (.established p c) => !e.used.contains c && decide (liveCount e p < 2)
  | .inner (.closed p c) => e.live.contains (p, c)
  | .inner (.subOpened p (some sid) c) => e.outstanding.contains (sid, p, c)
  | .inner (.subOpened p none c) => e.live.contains (p, c)
  | .inner (.subFailed sid) => (outstandingIds e).contains sid
  | .inner (.dialFailure _) => true
  | .open _ _ _ => true
  | .otherAlloc _ => true
  | .forceClose _ _ _ => true       -- the protocol may call `force_close` at any time, with any channel state
  | .managerCall => true

def envStep (e : Env) (op : Op) (o : Obs) : Env :=
  match op, o with
  | .inner (.established p c), _ => { e with live := (p, c) :: e.live, used := c :: e.used }
  | .inner (.closed p c), _ =>
    { e with live := e.live.filter (fun x => x != (p, c)),
             outstanding := e.outstanding.filter (fun x => x.2.2 != c),
             closedConns := c :: e.closedConns }
  | .inner (.subOpened _ (some sid) _), _ =>
    { e with outstanding := e.outstanding.filter (fun x => x.1 != sid) }
  | .inner (.subFailed sid), _ =>
    { e with outstanding := e.outstanding.filter (fun x => x.1 != sid) }
  | .open p _ _, .openOk sid c => { e with outstanding := (sid, p, c) :: e.outstanding }
  | _, _ => e

/-- The history `ops` is one the environment can produce, starting from `(e, s)`. -/
def feasible : Env → State → List Op → Bool
  | _, _, [] => true
  | e, s, op :: rest =>
    envOk e op && feasible (envStep e op (step s op).2) (step s op).1 rest

/-- Environment state after a history. -/
def envRun : Env → State → List Op → Env
  | e, _, [] => e
  | e, s, op :: rest => envRun (envStep e op (step s op).2) (step s op).1 rest

/-- `(environment before, state before, operation, observation)` for every step. -/
def esteps : Env → State → List Op → List (Env × State × Op × Obs)
  | _, _, [] => []
  | e, s, op :: rest =>
    (e, s, op, (step s op).2) :: esteps (envStep e op (step s op).2) (step s op).1 rest

/-- Every pending open future of every live connection task has completed. -/
def Quiescent (e : Env) : Prop := e.outstanding = []

end Litep2pVerif.Service
