import Litep2pVerif.Model.Addr.Filter
/-!
# `TransportService::add_known_address` — property C10 (attribution on the protocol-facing path)

Every protocol (Kademlia, identify, user protocols) offers addresses through its `TransportService`
(src/protocol/transport_service.rs). The service maps a closure over the offered addresses — append
`/p2p/<peer>` iff the address does NOT end with a `/p2p` component, otherwise pass the address on
UNCHANGED —, collects the results into a `HashSet` and hands them to
`TransportManagerHandle::add_known_address` (`Addr.admitted`, Model/Addr/Filter.lean), whose filter
refuses an address whose trailing `/p2p` names somebody else. The composition is what the peer table
gets from a protocol.
-/
namespace Litep2pVerif.Service
open Litep2pVerif.Addr

/-- The closure of `TransportService::add_known_address`:
`if !matches!(address.iter().last(), Some(Protocol::P2p(_))) { address.with(P2p(peer)) } else { address }`. -/
def normalizeKnown (peer : Nat) (a : Multiaddr) : Multiaddr :=
  match a.getLast? with
  | some (.p2p _) => a
  | _ => withP2p a peer

/-- `TransportService::add_known_address(peer, addresses)`: what reaches the peer table (the
`HashSet` in between only removes duplicates, which `admitted` does again; its order is arbitrary). -/
def addKnownAddress (tcp : Bool) (listen : List Multiaddr) (peer : Nat) (as : List Multiaddr) :
    List Multiaddr :=
  admitted tcp listen peer (as.map (normalizeKnown peer))

end Litep2pVerif.Service
