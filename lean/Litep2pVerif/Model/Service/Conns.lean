/-!
# Model of `TransportService` connection and substream bookkeeping — property C08
(src/protocol/transport_service.rs: `on_connection_established`, `on_connection_closed`,
`open_substream`, and the event paths of `Stream::poll_next`)

Operational mirror of the code:

* `connections : HashMap<PeerId, ConnectionContext { primary, secondary }>` is an association list
  accessed only through `cget/cput/cremove` (first match / remove all, so no uniqueness invariant
  is needed). A `ConnectionHandle` is represented by its `ConnectionId`; whether the handle is
  `Active`/`Inactive` (keep-alive) is the subject of `Model/Service/KeepAlive.lean` (C09) — here
  the two places where it matters (`try_get_permit`, `try_send`) are *inputs* of `openSubstream`,
  so that every theorem holds for every behaviour of the keep-alive mechanism.
* `next_substream_id` is a shared `Arc<AtomicUsize>`: `openSubstream` does the `fetch_add`
  **before** the command is sent (so a failed send consumes an identifier, as in the code); other
  holders of the counter are the operation `Op.otherAlloc`.
* `force_close(peer)` sends `ProtocolCommand::ForceClose` to the secondary connection (result ignored) and then
  to the primary (result returned) and changes NOTHING in `connections`: both handles stay where they are until
  each connection reports itself closed. The outcomes of the two `ConnectionHandle::force_close` calls (weak
  sender not upgradable ⇒ `closed`, `try_send` ⇒ `ok/full/closed`) are inputs, like those of `openSubstream`.
  The remaining public methods (`dial`, `dial_address`, `add_known_address`, `local_peer_id`, `listen_addresses`,
  `public_addresses`, `unregister_protocol`) only delegate to the `TransportManagerHandle` and never touch the
  service's own state: `Op.managerCall`.
* `debug_assert!(false)` ("connection closed to a non-existent peer") is the explicit flag `bug` of
  the step result: debug builds panic there, release builds return `None` and continue — the model
  continues (every theorem is prefix closed, so both readings are covered).
-/
namespace Litep2pVerif.Service

/-- Peers, connection ids and substream ids are natural numbers (plain notation, so that
arithmetic tactics see `Nat`). -/
scoped notation "Peer" => Nat
scoped notation "ConnId" => Nat
scoped notation "SubId" => Nat

/-- `ConnectionContext`. -/
structure Ctx where
  primary : ConnId
  secondary : Option ConnId
  deriving Repr, DecidableEq

abbrev ConnMap := List (Peer × Ctx)

/-- `HashMap::get`. -/
def cget : ConnMap → Peer → Option Ctx
  | [], _ => none
  | (q, c) :: rest, p => if q = p then some c else cget rest p

/-- `HashMap::remove`. -/
def cremove (m : ConnMap) (p : Peer) : ConnMap := m.filter (fun e => e.1 != p)

/-- `HashMap::insert` / update through `get_mut`. -/
def cput (m : ConnMap) (p : Peer) (c : Ctx) : ConnMap := (p, c) :: cremove m p

structure State where
  conns : ConnMap := []
  /-- value of the shared `next_substream_id` counter -/
  nextSub : Nat := 0
  deriving Repr, DecidableEq

/-- Is `p` in `connections`? (the protocol has been told `ConnectionEstablished` and not yet
`ConnectionClosed`). -/
def connected (s : State) (p : Peer) : Bool := (cget s.conns p).isSome

/-- `InnerTransportEvent` (what the manager and the connection tasks send to the service).
`dir = some sid` is `Direction::Outbound(sid)`, `none` is `Direction::Inbound`. -/
inductive Inner where
  | established (p : Peer) (c : ConnId)
  | closed (p : Peer) (c : ConnId)
  | subOpened (p : Peer) (dir : Option SubId) (c : ConnId)
  | subFailed (sid : SubId)
  | dialFailure (p : Peer)
  deriving Repr, DecidableEq

/-- `TransportEvent` (what the protocol sees). -/
inductive Ev where
  | established (p : Peer)
  | closed (p : Peer)
  | subOpened (p : Peer) (dir : Option SubId)
  | subFailed (sid : SubId)
  | dialFailure (p : Peer)
  deriving Repr, DecidableEq

/-- Result of `Sender::try_send` on the connection's command channel. -/
inductive SendRes where
  | ok | full | closed
  deriving Repr, DecidableEq

/-- `SubstreamError` classes returned by `open_substream`. -/
inductive OpenErr where
  | peerDoesNotExist | connectionClosed | channelClogged
  deriving Repr, DecidableEq

/-- `TransportService::on_connection_established`. -/
def onEstablished (s : State) (p : Peer) (c : ConnId) : State × Option Ev :=
  match cget s.conns p with
  | some ctx =>
    match ctx.secondary with
    | some _ => (s, none)                                   -- "ignoring third connection"
    | none => ({ s with conns := cput s.conns p ⟨ctx.primary, some c⟩ }, none)
  | none => ({ s with conns := cput s.conns p ⟨c, none⟩ }, some (.established p))

/-- `TransportService::on_connection_closed`; the `Bool` is the `debug_assert!(false)` branch. -/
def onClosed (s : State) (p : Peer) (c : ConnId) : State × Option Ev × Bool :=
  match cget s.conns p with
  | none => (s, none, true)                                 -- warn + debug_assert!(false)
  | some ctx =>
    if ctx.primary = c then
      match ctx.secondary with
      | none => ({ s with conns := cremove s.conns p }, some (.closed p), false)
      | some h => ({ s with conns := cput s.conns p ⟨h, none⟩ }, none, false)
    else
      -- `match context.secondary.take()`: both arms leave `secondary = None`, also when the
      -- identifier is not the secondary's ("connection closed but it doesn't exist")
      ({ s with conns := cput s.conns p ⟨ctx.primary, none⟩ }, none, false)

/-- One iteration of the `rx` loop of `poll_next` for one received event. -/
def pollEvent (s : State) : Inner → State × Option Ev × Bool
  | .established p c => let r := onEstablished s p c; (r.1, r.2, false)
  | .closed p c => onClosed s p c
  | .subOpened p dir _ => (s, some (.subOpened p dir), false)
  | .subFailed sid => (s, some (.subFailed sid), false)
  | .dialFailure p => (s, some (.dialFailure p), false)

/-- `TransportService::open_substream`. `permit` is the outcome of
`connection.try_get_permit()` on the primary handle, `send` the outcome of the `try_send` of
`ProtocolCommand::OpenSubstream`. On success the command carries `(sid, primary)`. -/
def openSubstream (s : State) (p : Peer) (permit : Bool) (send : SendRes) :
    State × Except OpenErr (SubId × ConnId) :=
  match cget s.conns p with
  | none => (s, .error .peerDoesNotExist)
  | some ctx =>
    if permit = false then (s, .error .connectionClosed)
    else
      match send with
      | .ok => ({ s with nextSub := s.nextSub + 1 }, .ok (s.nextSub, ctx.primary))
      | .full => ({ s with nextSub := s.nextSub + 1 }, .error .channelClogged)
      | .closed => ({ s with nextSub := s.nextSub + 1 }, .error .connectionClosed)

/-- `Error` classes returned by `force_close`. -/
inductive ForceErr where
  | peerDoesntExist | connectionClosed | channelClogged
  deriving Repr, DecidableEq

/-- `ConnectionHandle::force_close` on one handle: the command is enqueued iff the send succeeds. -/
def forceOne (c : ConnId) : SendRes → Option ForceErr × List ConnId
  | .ok => (none, [c])
  | .full => (some .channelClogged, [])
  | .closed => (some .connectionClosed, [])

/-- `if let Some(ref mut connection) = connection.secondary { let _ = connection.force_close(); }` -/
def forceSecondary : Option ConnId → SendRes → List ConnId
  | some h, r => (forceOne h r).2
  | none, _ => []

/-- `TransportService::force_close`. `sec` / `prim` are the outcomes of `ConnectionHandle::force_close` on the
secondary and the primary handle. Returns the (UNCHANGED) state, the call's result (`none` = `Ok(())`; the
secondary's result is discarded, `let _ =`) and the connections that were sent `ProtocolCommand::ForceClose`, in the
order of the sends (secondary first). -/
def forceClose (s : State) (p : Peer) (sec prim : SendRes) : State × Option ForceErr × List ConnId :=
  match cget s.conns p with
  | none => (s, some .peerDoesntExist, [])
  | some ctx =>
    (s, (forceOne ctx.primary prim).1, forceSecondary ctx.secondary sec ++ (forceOne ctx.primary prim).2)

/-- Everything that can happen to the service: an event arrives on `rx`, the protocol calls
`open_substream` or `force_close` or one of the methods that only delegate to the manager handle, or another
holder of the shared counter allocates `n` identifiers. -/
inductive Op where
  | inner (e : Inner)
  | open (p : Peer) (permit : Bool) (send : SendRes)
  | otherAlloc (n : Nat)
  | forceClose (p : Peer) (sec prim : SendRes)
  | managerCall
  deriving Repr, DecidableEq

/-- What the protocol (and, for an accepted `open` / a `force_close`, the connection tasks) observes of one
step. -/
inductive Obs where
  | silent
  | ev (e : Ev)
  | openOk (sid : SubId) (c : ConnId)
  | openErr (e : OpenErr)
  | force (res : Option ForceErr) (cmds : List ConnId)
  deriving Repr, DecidableEq

def step (s : State) : Op → State × Obs
  | .inner e =>
    let r := pollEvent s e
    (r.1, match r.2.1 with | some ev => .ev ev | none => .silent)
  | .open p permit send =>
    let r := openSubstream s p permit send
    (r.1, match r.2 with | .ok (sid, c) => .openOk sid c | .error e => .openErr e)
  | .otherAlloc n => ({ s with nextSub := s.nextSub + n }, .silent)
  | .forceClose p sec prim =>
    let r := forceClose s p sec prim
    (r.1, .force r.2.1 r.2.2)
  | .managerCall => (s, .silent)

/-- Observations of a whole history, in order. -/
def trace : State → List Op → List Obs
  | _, [] => []
  | s, op :: rest => (step s op).2 :: trace (step s op).1 rest

/-- State after a history. -/
def run : State → List Op → State
  | s, [] => s
  | s, op :: rest => run (step s op).1 rest

/-- `(state before, operation, observation)` for every step of a history. -/
def steps : State → List Op → List (State × Op × Obs)
  | _, [] => []
  | s, op :: rest => (s, op, (step s op).2) :: steps (step s op).1 rest

/-- Per-peer projection of the emitted connection events: `true` = established, `false` = closed. -/
def connEvents (p : Peer) : List Obs → List Bool
  | [] => []
  | .ev (.established q) :: rest => if q = p then true :: connEvents p rest else connEvents p rest
  | .ev (.closed q) :: rest => if q = p then false :: connEvents p rest else connEvents p rest
  | _ :: rest => connEvents p rest

/-- `alternates b l`: `l` alternates, starting with `b`. -/
def alternates : Bool → List Bool → Bool
  | _, [] => true
  | b, x :: rest => x == b && alternates (!b) rest

/-- Identifiers of accepted `open_substream` calls, in order. -/
def acceptedIds : List Obs → List SubId
  | [] => []
  | .openOk sid _ :: rest => sid :: acceptedIds rest
  | _ :: rest => acceptedIds rest

/-- Identifiers answered to the protocol (outbound `SubstreamOpened` or `SubstreamOpenFailure`). -/
def answeredIds : List Obs → List SubId
  | [] => []
  | .ev (.subOpened _ (some sid)) :: rest => sid :: answeredIds rest
  | .ev (.subFailed sid) :: rest => sid :: answeredIds rest
  | _ :: rest => answeredIds rest

end Litep2pVerif.Service
