import Litep2pVerif.Model.Bitswap.Batch
/-!
# Bitswap protocol level (C20): the event loop of `Bitswap` and what surrounds it

Operational model of `Bitswap::{run, on_inbound_substream, on_message_received, on_outbound_substream,
on_connection_established, on_connection_closed, on_dial_failure, on_substream_open_failure,
open_substream_or_dial, on_bitswap_request, on_bitswap_response}` and of `send_request`
(`src/protocol/libp2p/bitswap/mod.rs`), on top of `respond` (`send_response`, `Batch.lean`).

State components are those of the struct (`outbound`, `pending_outbound`, `pending_substreams`,
`pending_dials`, `inbound`; hash maps are association lists keyed by peer / substream number) plus the
environment the harness plays: the connections `TransportService` knows, the transport manager's view
of every peer (decides what `dial` answers), the far end of every outbound substream (how many more
frames it accepts before a write fails, and how much time it takes to accept each) and the unanswered
`OpenSubstream` commands.

Time: every `substream.send_framed(message)` of `send_request` / `send_response` is wrapped in its own
`tokio::time::timeout(WRITE_TIMEOUT, ..)`; nothing bounds a whole call, a whole queue flush or an
iteration of the event loop. The far end of a substream therefore carries the (virtual) time it takes to
accept each successive frame (`Far.delays`); a frame that takes longer than `Limits.writeTimeout` fails
the call with `Error::Timeout`, frames that are each within it are all written, however long they take
together.

Imports only other model files (core Lean only).
-/
namespace Litep2pVerif.Bitswap.Proto
open Litep2pVerif.Bitswap

/-! ## association lists -/

variable {α : Type}

def aerase (k : Nat) (l : List (Nat × α)) : List (Nat × α) := l.filter fun e => e.1 != k

def alookup (k : Nat) (l : List (Nat × α)) : Option α := (l.find? fun e => e.1 == k).map (·.2)

def ainsert (k : Nat) (v : α) (l : List (Nat × α)) : List (Nat × α) := (k, v) :: aerase k l

/-! ## what is sent -/

/-- CID parameters of an adapter-made CID (`k=<v>/<codec>/<mh>/<dlen>`), for printing only. -/
structure Kind where
  v : Nat
  codec : Nat
  mh : Nat
  dlen : Nat
  deriving DecidableEq, Repr

/-- A block of a response: length of the prefix `blocks_message` writes, data = `size` × `fill`. -/
structure Blk where
  kind : Kind
  plen : Nat
  size : Nat
  fill : Nat
  deriving DecidableEq, Repr

/-- A presence entry: `cid.to_bytes().len()`, the number written into the digest, the type. -/
structure Pres where
  kind : Kind
  clen : Nat
  idx : Nat
  ty : Nat
  deriving DecidableEq, Repr

/-- A wanted CID of a request: `ty` 0 = `WantType::Block`, 1 = `WantType::Have`. -/
structure Want where
  kind : Kind
  clen : Nat
  idx : Nat
  ty : Nat
  deriving DecidableEq, Repr

def blkSized : Sized Blk := ⟨Blk.plen, Blk.size⟩
def presSized : PSized Pres := ⟨Pres.clen, Pres.ty⟩

abbrev REntry := Entry Pres Blk
abbrev RFrame := Frame Pres Blk

/-- `config::{MAX_BATCH_SIZE, MAX_BATCH_BLOCKS, MAX_MESSAGE_SIZE}`, the codec's frame limit and
`WRITE_TIMEOUT` (milliseconds). -/
structure Limits where
  maxBatch : Nat
  cap : Nat
  maxMsg : Nat
  codecMax : Nat
  writeTimeout : Nat

/-- `wantlist::Entry { block = 1, priority = 2 (always 1), cancel = 3, wantType = 4, sendDontHave = 5 }`
as one `entries = 1` item of `Wantlist`. -/
def wantEntryLen (w : Want) : Nat :=
  1 + pbVarintLen (pbBytesField w.clen + 2 + pbEnumField w.ty) + (pbBytesField w.clen + 2 + pbEnumField w.ty)

/-- Encoded length of the message `send_request` builds (`wantlist = 1` is always present). -/
def requestLen (cids : List Want) : Nat :=
  1 + pbVarintLen (cids.map wantEntryLen).sum + (cids.map wantEntryLen).sum

/-- A message on an outbound substream. -/
inductive WFrame where
  | resp (f : RFrame)
  | req (cids : List Want) (len : Nat)
  deriving DecidableEq, Repr

/-- `SubstreamAction`. -/
inductive Action where
  | request (cids : List Want)
  | response (entries : List REntry)
  deriving DecidableEq, Repr

/-- All messages `send_response(substream, entries)` writes to a substream that accepts everything,
and its return value there. -/
def responseFrames (L : Limits) (entries : List REntry) : List RFrame × SendResult :=
  respond presSized blkSized L.maxBatch L.cap L.maxMsg L.codecMax entries

/-- Ditto for an action: `send_request` writes one message (rejected by the codec when too large). -/
def actionFrames (L : Limits) : Action → List WFrame × Bool
  | .request cids =>
    if sendFramed L.codecMax (requestLen cids) then ([.req cids (requestLen cids)], true) else ([], false)
  | .response entries => ((responseFrames L entries).1.map .resp, (responseFrames L entries).2 == .ok)

/-! ## the far end of an outbound substream -/

/-! ### time: how long the far end takes to accept a frame -/

/-- The time (ms) the next frame takes: the head of the list; the last entry repeats; `[]`: no time. -/
def delayHead : List Nat → Nat
  | [] => 0
  | d :: _ => d

def delayTail : List Nat → List Nat
  | [] => []
  | [d] => [d]
  | _ :: t => t

/-- the delays that remain after `n` frames -/
def delaysAfter : Nat → List Nat → List Nat
  | 0, ds => ds
  | n + 1, ds => delaysAfter n (delayTail ds)

/-- `timeout(WRITE_TIMEOUT, substream.send_framed(..))`, frame after frame: how many of `n` frames are
accepted in time. Each frame has its own budget `wt`; nothing adds the times up. -/
def timely (wt : Nat) : List Nat → Nat → Nat
  | _, 0 => 0
  | ds, n + 1 => if delayHead ds ≤ wt then timely wt (delayTail ds) n + 1 else 0

/-- the time the first `n` frames take together -/
def elapsedOf : List Nat → Nat → Nat
  | _, 0 => 0
  | ds, n + 1 => delayHead ds + elapsedOf (delayTail ds) n

/-- `budget`: complete frames still accepted before a write fails or stalls (`none`: all); `off`: bytes
of the failing frame that are still taken (observed as a partial frame); `gone`: the protocol dropped
it; `delays`: the time the far end takes before it accepts each further frame. -/
structure Far where
  budget : Option Nat
  off : Nat
  gone : Bool
  delays : List Nat
  deriving DecidableEq, Repr

/-- Writing `n` frames: how many are accepted and whether all were. A frame is refused when the budget
is used up, and times out when it takes longer than `wt`. -/
def Far.take (wt : Nat) (f : Far) (n : Nat) : Nat × Bool :=
  match f.budget with
  | none => (timely wt f.delays n, timely wt f.delays n == n)
  | some k =>
    if n ≤ k then (timely wt f.delays n, timely wt f.delays n == n)
    else (min k (timely wt f.delays n), false)

/-- Bytes of the refused frame that were still taken: only when the budget (not the clock) ended the call. -/
def Far.partialOf (wt : Nat) (f : Far) (n : Nat) : Nat :=
  match f.budget with
  | none => 0
  | some k => if k < n ∧ k ≤ timely wt f.delays n then f.off else 0

def Far.after (wt : Nat) (f : Far) (n : Nat) : Far :=
  match f.budget with
  | none => { f with delays := delaysAfter (f.take wt n).1 f.delays }
  | some k =>
    if n ≤ k then { f with budget := some (k - n), delays := delaysAfter (f.take wt n).1 f.delays }
    else { f with budget := some 0, delays := delaysAfter (f.take wt n).1 f.delays }

/-- One call of `send_request` / `send_response` on a substream. -/
structure Attempt where
  sub : Nat
  action : Action
  /-- complete frames the far end accepted -/
  written : List WFrame
  /-- bytes of a further, incomplete frame -/
  partialBytes : Nat
  ok : Bool
  /-- virtual time until the last of the written frames was accepted -/
  elapsed : Nat
  deriving DecidableEq, Repr

/-- `send_*(substream, …)` against the far end `f` of substream `s`: the frames are written in order
until one is refused or takes longer than `WRITE_TIMEOUT`; the call returns `Ok` iff none was (and the
codec accepted all). -/
def attempt (L : Limits) (s : Nat) (f : Far) (a : Action) : Attempt × Far :=
  (⟨s, a, (actionFrames L a).1.take (f.take L.writeTimeout (actionFrames L a).1.length).1,
     f.partialOf L.writeTimeout (actionFrames L a).1.length,
     (f.take L.writeTimeout (actionFrames L a).1.length).2 && (actionFrames L a).2,
     elapsedOf f.delays (f.take L.writeTimeout (actionFrames L a).1.length).1⟩,
   f.after L.writeTimeout (actionFrames L a).1.length)

/-! ## state -/

inductive View where
  | disconnected | dialing | connected
  deriving DecidableEq, Repr

structure St where
  /-- `outbound`: peer ↦ cached outbound substream -/
  outbound : List (Nat × Nat) := []
  /-- `pending_outbound` -/
  pendingOutbound : List (Nat × List Action) := []
  /-- `pending_substreams`: substream ↦ peer -/
  pendingSubstreams : List (Nat × Nat) := []
  /-- `pending_dials` -/
  pendingDials : List Nat := []
  /-- `inbound`: peer ↦ inbound substream -/
  inbound : List (Nat × Nat) := []
  /-- connections of the `TransportService`: peer ↦ command channel still served -/
  conns : List (Nat × Bool) := []
  /-- the transport manager's view -/
  views : List (Nat × View) := []
  /-- far ends of the outbound substreams handed to the protocol -/
  fars : List (Nat × Far) := []
  /-- unanswered `OpenSubstream` commands: substream ↦ peer -/
  opens : List (Nat × Nat) := []
  nextSub : Nat := 0
  nextIn : Nat := 0
  /-- inbound substreams on which the remote has written only the beginning of a frame -/
  held : List Nat := []
  deriving Repr

/-- What one operation makes visible. -/
structure Out where
  dials : List Nat := []
  opened : List (Nat × Nat) := []
  attempts : List Attempt := []
  deriving Repr

def Out.append (a b : Out) : Out := ⟨a.dials ++ b.dials, a.opened ++ b.opened, a.attempts ++ b.attempts⟩

/-- peers 1..=3 have a dialable address -/
def hasAddress (p : Nat) : Bool := 1 ≤ p && p ≤ 3

def St.view (st : St) (p : Nat) : View := (alookup p st.views).getD .disconnected

/-- `TransportService::open_substream`: the peer must be connected and the connection's command
channel must still be served. -/
def openSubstream (st : St) (p : Nat) : Option (St × Nat) :=
  match alookup p st.conns with
  | some true => some ({ st with opens := ainsert st.nextSub p st.opens, nextSub := st.nextSub + 1 }, st.nextSub)
  | _ => none

inductive DialResult where
  | started | inProgress | alreadyConnected | error
  deriving DecidableEq, Repr

/-- `TransportManagerHandle::dial`. -/
def dialResult (st : St) (p : Nat) : DialResult :=
  match st.view p with
  | .connected => .alreadyConnected
  | .dialing => .inProgress
  | .disconnected => if hasAddress p then .started else .error

/-- `pending_outbound.remove(&peer)` -/
def dropQueue (st : St) (p : Nat) : St := { st with pendingOutbound := aerase p st.pendingOutbound }

/-- `open_substream_or_dial`. -/
def openSubstreamOrDial (st : St) (p : Nat) : St × Out :=
  match openSubstream st p with
  | some (st1, s) => ({ st1 with pendingSubstreams := ainsert s p st1.pendingSubstreams }, { opened := [(p, s)] })
  | none =>
    match dialResult st p with
    | .started =>
      ({ st with pendingDials := p :: st.pendingDials.filter (· != p), views := ainsert p .dialing st.views },
       { dials := [p] })
    | .inProgress => ({ st with pendingDials := p :: st.pendingDials.filter (· != p) }, {})
    | .alreadyConnected =>
      -- the second `open_substream` sees the same service state
      (dropQueue st p, {})
    | .error => (dropQueue st p, {})

/-- The tail shared by `on_bitswap_request` / `on_bitswap_response`: queue the action, request a
substream unless one is already on its way. -/
def enqueue (st : St) (p : Nat) (a : Action) : St × Out :=
  match alookup p st.pendingOutbound with
  | some (x :: xs) => ({ st with pendingOutbound := ainsert p ((x :: xs) ++ [a]) st.pendingOutbound }, {})
  | _ => openSubstreamOrDial { st with pendingOutbound := ainsert p [a] st.pendingOutbound } p

def St.far (st : St) (s : Nat) : Far := (alookup s st.fars).getD ⟨none, 0, true, []⟩

def St.setFar (st : St) (s : Nat) (f : Far) : St := { st with fars := ainsert s f st.fars }

def St.dropSub (st : St) (s : Nat) : St := st.setFar s { st.far s with gone := true }

/-- `on_bitswap_request` / `on_bitswap_response`: the cached substream first; when the call fails
the substream is dropped and the action — as handed over — takes the slow path. -/
def onCommand (L : Limits) (st : St) (p : Nat) (a : Action) : St × Out :=
  match alookup p st.outbound with
  | some s =>
    if (attempt L s (st.far s) a).1.ok then
      (st.setFar s (attempt L s (st.far s) a).2, { attempts := [(attempt L s (st.far s) a).1] })
    else
      ((enqueue ({ (st.setFar s (attempt L s (st.far s) a).2).dropSub s with
                    outbound := aerase p st.outbound }) p a).1,
       Out.append { attempts := [(attempt L s (st.far s) a).1] }
         (enqueue ({ (st.setFar s (attempt L s (st.far s) a).2).dropSub s with
                      outbound := aerase p st.outbound }) p a).2)
  | none => enqueue st p a

/-- The `for action in actions` loop of `on_outbound_substream`: stops at the first failed call. -/
def runActions (L : Limits) (s : Nat) : Far → List Action → List Attempt × Far × Bool
  | f, [] => ([], f, true)
  | f, a :: rest =>
    if (attempt L s f a).1.ok then
      ((attempt L s f a).1 :: (runActions L s (attempt L s f a).2 rest).1,
       (runActions L s (attempt L s f a).2 rest).2.1, (runActions L s (attempt L s f a).2 rest).2.2)
    else ([(attempt L s f a).1], (attempt L s f a).2, false)

/-- `on_outbound_substream(peer, substream_id, substream)`. -/
def onOutboundSubstream (L : Limits) (st : St) (p s : Nat) (f : Far) : St × Out :=
  match alookup p st.pendingOutbound with
  | none =>
    ({ st with pendingSubstreams := aerase s st.pendingSubstreams, fars := ainsert s { f with gone := true } st.fars }, {})
  | some actions =>
    if (runActions L s f actions).2.2 then
      ({ (match alookup p st.outbound with
          | some old => st.dropSub old
          | none => st) with
          pendingSubstreams := aerase s st.pendingSubstreams,
          pendingOutbound := aerase p st.pendingOutbound,
          outbound := ainsert p s st.outbound,
          fars := ainsert s (runActions L s f actions).2.1
            (match alookup p st.outbound with
             | some old => st.dropSub old
             | none => st).fars },
       { attempts := (runActions L s f actions).1 })
    else
      ({ st with pendingSubstreams := aerase s st.pendingSubstreams,
                 pendingOutbound := aerase p st.pendingOutbound,
                 fars := ainsert s { (runActions L s f actions).2.1 with gone := true } st.fars },
       { attempts := (runActions L s f actions).1 })

/-- `on_connection_established`. -/
def onConnectionEstablished (st : St) (p : Nat) : St × Out :=
  if st.pendingDials.contains p then
    match openSubstream { st with pendingDials := st.pendingDials.filter (· != p) } p with
    | some (st1, s) => ({ st1 with pendingSubstreams := ainsert s p st1.pendingSubstreams }, { opened := [(p, s)] })
    | none => (dropQueue { st with pendingDials := st.pendingDials.filter (· != p) } p, {})
  else (st, {})

/-- `on_connection_closed`. -/
def onConnectionClosed (st : St) (p : Nat) : St :=
  { (match alookup p st.outbound with
     | some s => st.dropSub s
     | none => st) with
    outbound := aerase p st.outbound,
    pendingOutbound := aerase p st.pendingOutbound,
    pendingDials := st.pendingDials.filter (· != p),
    pendingSubstreams := st.pendingSubstreams.filter (fun e => e.2 != p),
    inbound := aerase p st.inbound }

/-- `on_dial_failure`. -/
def onDialFailure (st : St) (p : Nat) : St :=
  if st.pendingDials.contains p then
    dropQueue { st with pendingDials := st.pendingDials.filter (· != p) } p
  else st

/-- `on_substream_open_failure`. -/
def onSubstreamOpenFailure (st : St) (s : Nat) : St :=
  match alookup s st.pendingSubstreams with
  | none => st
  | some p => dropQueue { st with pendingSubstreams := aerase s st.pendingSubstreams } p

/-! ## operations of the harness -/

inductive Op where
  /-- `alive = false`: the connection's command channel is already gone when the event is handled -/
  | conn (p : Nat) (alive : Bool)
  | disc (p : Nat)
  | conndead (p : Nat)
  | dialfail (p : Nat)
  | view (p : Nat) (v : View)
  | subopen (s : Nat) (budget : Option Nat) (off : Nat) (delays : List Nat)
  | subfail (s : Nat)
  | plan (s : Nat) (budget : Option Nat) (off : Nat) (delays : List Nat)
  | command (p : Nat) (a : Action)
  | insub (p : Nat)
  /-- a message arrived on inbound substream `k` (in one piece or in pieces, however slowly: reads
  have no timeout); `decodes`: prost accepted it (`false` also stands for a length prefix above the
  codec's limit: the stream fails) -/
  | inmsg (k : Nat) (decodes : Bool)
  /-- only the beginning of a frame arrived on inbound substream `k` -/
  | inhold (k : Nat)
  /-- … and now the rest of it -/
  | inrest (k : Nat) (decodes : Bool)
  /-- inbound substream `k` ended (clean close, reset) -/
  | inend (k : Nat)
  deriving Repr

inductive Res where
  | ok | none | inName (k : Nat)
  deriving DecidableEq, Repr

def St.inboundOwner (st : St) (k : Nat) : Option Nat := (st.inbound.find? fun e => e.2 == k).map (·.1)

/-- One operation: the events the harness injects are handled by `run()` one after the other. -/
def step (L : Limits) (st : St) : Op → St × Res × Out
  | .conn p alive =>
    match alookup p st.conns with
    | some _ => (st, .none, {})
    | none =>
      ((onConnectionEstablished { st with conns := ainsert p alive st.conns, views := ainsert p .connected st.views } p).1,
       .ok,
       (onConnectionEstablished { st with conns := ainsert p alive st.conns, views := ainsert p .connected st.views } p).2)
  | .disc p =>
    match alookup p st.conns with
    | none => (st, .none, {})
    | some _ =>
      (onConnectionClosed { st with conns := aerase p st.conns, views := ainsert p .disconnected st.views } p, .ok, {})
  | .conndead p =>
    match alookup p st.conns with
    | some true => ({ st with conns := ainsert p false st.conns }, .ok, {})
    | _ => (st, .none, {})
  | .dialfail p =>
    (onDialFailure (match alookup p st.conns with
      | some _ => st
      | none => { st with views := ainsert p .disconnected st.views }) p, .ok, {})
  | .view p v => ({ st with views := ainsert p v st.views }, .ok, {})
  | .subopen s budget off delays =>
    match alookup s st.opens with
    | none => (st, .none, {})
    | some p =>
      ((onOutboundSubstream L { st with opens := aerase s st.opens } p s ⟨budget, off, false, delays⟩).1, .ok,
       (onOutboundSubstream L { st with opens := aerase s st.opens } p s ⟨budget, off, false, delays⟩).2)
  | .subfail s =>
    match alookup s st.opens with
    | none => (st, .none, {})
    | some _ => (onSubstreamOpenFailure { st with opens := aerase s st.opens } s, .ok, {})
  | .plan s budget off delays =>
    match alookup s st.fars with
    | none => (st, .none, {})
    | some f => if f.gone then (st, .none, {}) else (st.setFar s ⟨budget, off, false, delays⟩, .ok, {})
  | .command p a => ((onCommand L st p a).1, .ok, (onCommand L st p a).2)
  | .insub p =>
    match alookup p st.conns with
    | none => (st, .none, {})
    | some _ => ({ st with inbound := ainsert p st.nextIn st.inbound, nextIn := st.nextIn + 1 }, .inName st.nextIn, {})
  | .inmsg k decodes =>
    match st.inboundOwner k with
    | none => (st, .none, {})
    | some p =>
      -- (the harness does not start a frame inside a held one)
      if st.held.contains k then (st, .none, {})
      else if decodes then (st, .ok, {}) else ({ st with inbound := aerase p st.inbound }, .ok, {})
  | .inhold k =>
    match st.inboundOwner k with
    | none => (st, .none, {})
    | some _ => if st.held.contains k then (st, .none, {}) else ({ st with held := k :: st.held }, .ok, {})
  | .inrest k decodes =>
    match st.inboundOwner k with
    | none => (st, .none, {})
    | some p =>
      if st.held.contains k then
        if decodes then ({ st with held := st.held.filter (· != k) }, .ok, {})
        else ({ st with held := st.held.filter (· != k), inbound := aerase p st.inbound }, .ok, {})
      else (st, .none, {})
  | .inend k =>
    match st.inboundOwner k with
    | none => (st, .none, {})
    | some p => ({ st with inbound := aerase p st.inbound, held := st.held.filter (· != k) }, .ok, {})

/-- A history: the state after it and every call of `send_request` / `send_response` made. -/
def run (L : Limits) : St → List Op → St × List Attempt
  | st, [] => (st, [])
  | st, op :: ops => ((run L (step L st op).1 ops).1, (step L st op).2.2.attempts ++ (run L (step L st op).1 ops).2)

/-- The actions the user handed to the protocol in a history (`BitswapHandle::send_*`). -/
def handed : List Op → List Action
  | [] => []
  | .command _ a :: ops => a :: handed ops
  | _ :: ops => handed ops

/-! ## inbound messages: `on_message_received` -/

/-- `Cid::read_bytes` (cid 0.11 / multihash 0.19): two varints; the pair (0x12, 0x20) is a CIDv0
(32 digest bytes follow); otherwise version 1, then `Multihash::read` (code, size ≤ 64, digest).
Bytes after the CID are not looked at. -/
def cidRead (bs : Bytes) : Option Cid :=
  match uvarDec bs with
  | .error _ => none
  | .ok (version, rest) =>
    match uvarDec rest with
    | .error _ => none
    | .ok (codec, rest) =>
      if version = 0x12 ∧ codec = 0x20 then
        if rest.length < 32 then none else some ⟨0, DAG_PB, SHA2_256, rest.take 32⟩
      else if version ≠ 1 then none
      else
        match uvarDec rest with
        | .error _ => none
        | .ok (code, rest) =>
          match uvarDec rest with
          | .error _ => none
          | .ok (size, rest) =>
            if size > MH_ALLOC then none
            else if rest.length < size then none
            else some ⟨1, codec, code, rest.take size⟩

/-- The wantlist half: entries whose CID parses and whose type is `Block` (0) or `Have` (1). -/
def requestCids (entries : List (Bytes × Nat)) : List (Cid × Nat) :=
  entries.filterMap fun e =>
    match cidRead e.1 with
    | none => none
    | some cid => if e.2 = 0 ∨ e.2 = 1 then some (cid, e.2) else none

/-- `BitswapEvent::Request` for a message: only when some entry survives. -/
def requestEvent (wantlist : Option (List (Bytes × Nat))) : Option (List (Cid × Nat)) :=
  match wantlist with
  | none => none
  | some entries => if (requestCids entries).isEmpty then none else some (requestCids entries)

/-- An entry of `BitswapEvent::Response`. -/
inductive RespItem where
  | block (cid : Cid) (data : Bytes)
  | presence (cid : Cid) (ty : Nat)
  deriving DecidableEq, Repr

/-- The response half: blocks first (re-hashed), then the presences. -/
def responseEvent (H : HashFamily) (payload : List (Bytes × Bytes)) (presences : List (Bytes × Nat)) :
    Option (List RespItem) :=
  if ((inboundResponses H payload).map (fun r => RespItem.block r.1 r.2) ++
      (requestCids presences).map (fun r => RespItem.presence r.1 r.2)).isEmpty then none
  else some ((inboundResponses H payload).map (fun r => RespItem.block r.1 r.2) ++
      (requestCids presences).map (fun r => RespItem.presence r.1 r.2))

end Litep2pVerif.Bitswap.Proto
