/-!
# Bitswap CID prefix codec and the inbound block path (C20)

Operational model of `src/protocol/libp2p/bitswap/mod.rs`:
`Prefix::{to_bytes, from_bytes}` (on top of `unsigned_varint::{encode,decode}::u64`, 0.8.0),
`block_to_response` and the payload loop of `Bitswap::on_message_received`, with `cid::Cid::new`
(0.11). The hash family (`multihash_codetable::Code`) is a PARAMETER: `supported code` says whether
`Code::try_from(code)` succeeds, `digest code data` is the digest it computes.

Import-free (core Lean only). Bytes are naturals below 256.
-/
namespace Litep2pVerif.Bitswap

abbrev Bytes := List Nat

/-! ## unsigned-varint (u64) -/

/-- `unsigned_varint::encode::u64`: the loop over the 10-byte buffer (`fuel` = bytes left).
`*b = n as u8 | 0x80; n >>= 7; if n == 0 { *b &= 0x7f; break }`. -/
def uvarEncAux : Nat → Nat → Bytes
  | 0, _ => []
  | f + 1, n => if n / 128 = 0 then [n % 128] else (n % 128 + 128) :: uvarEncAux f (n / 128)

def uvarEnc (n : Nat) : Bytes := uvarEncAux 10 n

inductive UvarErr where
  | insufficient | overflow | notMinimal
  deriving DecidableEq, Repr

/-- `n |= k << (i * 7)` on `u64` with `k = b & 0x7f`: the groups never overlap, so `|` is `+`;
bits shifted beyond 64 are lost (`k << 63` keeps one bit of the tenth byte). -/
def uvarAcc (i acc b : Nat) : Nat := (acc + (b % 128) * 2 ^ (i * 7)) % 2 ^ 64

/-- `unsigned_varint::decode::u64` = `decode!(buf, 9, u64)`: byte `i`, accumulator `acc`. -/
def uvarDecAux (i acc : Nat) : Bytes → Except UvarErr (Nat × Bytes)
  | [] => .error .insufficient
  | b :: rest =>
    if b < 128 then
      if b = 0 ∧ i > 0 then .error .notMinimal else .ok (uvarAcc i acc b, rest)
    else if i = 9 then .error .overflow
    else uvarDecAux (i + 1) (uvarAcc i acc b) rest

def uvarDec (bs : Bytes) : Except UvarErr (Nat × Bytes) := uvarDecAux 0 0 bs

/-! ## Prefix -/

/-- `struct Prefix { version: Version, codec: u64, multihash_type: u64, multihash_len: u8 }`;
`version` is 0 (`V0`) or 1 (`V1`). -/
structure Prefix where
  version : Nat
  codec : Nat
  mhType : Nat
  mhLen : Nat
  deriving DecidableEq, Repr

/-- Values a Rust `Prefix` can hold. -/
def Prefix.Representable (p : Prefix) : Prop :=
  p.version ≤ 1 ∧ p.codec < 2 ^ 64 ∧ p.mhType < 2 ^ 64 ∧ p.mhLen < 256

instance (p : Prefix) : Decidable p.Representable := by unfold Prefix.Representable; infer_instance

/-- `Prefix::to_bytes` -/
def Prefix.toBytes (p : Prefix) : Bytes :=
  uvarEnc p.version ++ (uvarEnc p.codec ++ (uvarEnc p.mhType ++ uvarEnc p.mhLen))

/-- `Prefix::from_bytes`: four varints, nothing after them, `Version::try_from`, `u8::try_from`. -/
def Prefix.fromBytes (bs : Bytes) : Option Prefix :=
  match uvarDec bs with
  | .error _ => none
  | .ok (version, rest) =>
    match uvarDec rest with
    | .error _ => none
    | .ok (codec, rest) =>
      match uvarDec rest with
      | .error _ => none
      | .ok (mhType, rest) =>
        match uvarDec rest with
        | .error _ => none
        | .ok (mhLen, rest) =>
          if !rest.isEmpty then none
          else if version > 1 then none
          else if mhLen > 255 then none
          else some ⟨version, codec, mhType, mhLen⟩

/-! ## CID -/

/-- `cid::Cid` = version, codec, multihash (code + digest; the size is the digest's length). -/
structure Cid where
  version : Nat
  codec : Nat
  hashCode : Nat
  digest : Bytes
  deriving DecidableEq, Repr

def DAG_PB : Nat := 0x70
def SHA2_256 : Nat := 0x12
/-- `cid::multihash::Multihash` is `Multihash<64>`: `wrap` fails for longer digests. -/
def MH_ALLOC : Nat := 64

/-- `Cid::new(version, codec, hash)` (with `new_v0` inlined). -/
def cidNew (version codec code : Nat) (digest : Bytes) : Option Cid :=
  if version = 0 then
    if codec ≠ DAG_PB then none
    else if code ≠ SHA2_256 ∨ digest.length ≠ 32 then none
    else some ⟨0, DAG_PB, code, digest⟩
  else some ⟨1, codec, code, digest⟩

/-- `Cid::to_bytes` (used only to print CIDs canonically). -/
def Cid.toBytes (c : Cid) : Bytes :=
  let mh := uvarEnc c.hashCode ++ (uvarEnc c.digest.length ++ c.digest)
  if c.version = 0 then mh else uvarEnc c.version ++ (uvarEnc c.codec ++ mh)

/-- The prefix `blocks_message` writes for a CID. -/
def Cid.toPrefix (c : Cid) : Prefix := ⟨c.version, c.codec, c.hashCode, c.digest.length⟩

/-! ## Inbound blocks -/

/-- The hash family compiled into the node (a parameter of every statement). -/
structure HashFamily where
  supported : Nat → Bool
  digest : Nat → Bytes → Bytes

/-- `block_to_response(peer, Block { prefix, data })`. -/
def blockToResponse (H : HashFamily) (pfx data : Bytes) : Option (Cid × Bytes) :=
  match Prefix.fromBytes pfx with
  | none => none
  | some p =>
    if !H.supported p.mhType then none
    else if (H.digest p.mhType data).length > MH_ALLOC then none
    else
      match cidNew p.version p.codec p.mhType (H.digest p.mhType data) with
      | some cid => some (cid, data)
      | none => none

/-- The payload loop of `on_message_received`: responses in payload order, failures skipped. -/
def inboundResponses (H : HashFamily) (payload : List (Bytes × Bytes)) : List (Cid × Bytes) :=
  payload.filterMap fun b => blockToResponse H b.1 b.2

/-- The `BitswapEvent::Response` emitted for a message that carries only blocks: none when no
block survived. -/
def inboundEvent (H : HashFamily) (payload : List (Bytes × Bytes)) : Option (List (Cid × Bytes)) :=
  if (inboundResponses H payload).isEmpty then none else some (inboundResponses H payload)

end Litep2pVerif.Bitswap
