import Litep2pVerif.Model.Bitswap.Prefix
/-!
# Bitswap response batching (C20)

Operational model of `extract_next_batch`, `blocks_message` / `presences_message` (size of the prost
encoding only) and of `send_response` (presence message, then the block loop) in `src/protocol/libp2p/bitswap/mod.rs`. The batching looks only
at `data.len()` and the encoding's size depends only on the lengths of prefix and data, so the
model is generic in the block type `β` with the two length projections (`Sized β`).

Imports only the prefix model (core Lean only).
-/
namespace Litep2pVerif.Bitswap

/-- prost `encoded_len_varint` for values below 2^64. -/
def pbVarintLen (n : Nat) : Nat :=
  if n < 128 then 1 else if n < 16384 then 2 else if n < 2097152 then 3
  else if n < 268435456 then 4 else if n < 34359738368 then 5 else if n < 4398046511104 then 6
  else if n < 562949953421312 then 7 else if n < 72057594037927936 then 8
  else if n < 9223372036854775808 then 9 else 10

/-- A proto3 `bytes` field with a one-byte key: omitted when empty. -/
def pbBytesField (len : Nat) : Nat := if len = 0 then 0 else 1 + pbVarintLen len + len

/-- `Block { prefix = 1, data = 2 }` encoded. -/
def blockBodyLen (prefixLen dataLen : Nat) : Nat := pbBytesField prefixLen + pbBytesField dataLen

/-- One `payload = 3` entry of `Message`: key, length, body (always emitted). -/
def blockEntryLen (prefixLen dataLen : Nat) : Nat :=
  1 + pbVarintLen (blockBodyLen prefixLen dataLen) + blockBodyLen prefixLen dataLen

/-- What the code looks at in a `(Cid, Vec<u8>)`. -/
structure Sized (β : Type) where
  prefixLen : β → Nat
  dataLen : β → Nat

variable {β : Type}

def Sized.entryLen (S : Sized β) (b : β) : Nat := blockEntryLen (S.prefixLen b) (S.dataLen b)

/-- `blocks_message(batch).map(|(m, _)| m.len())`: `wantlist: Some(Default)` costs 2 bytes, then the
payload entries; `None` for an empty batch. -/
def blocksMessageLen (S : Sized β) (batch : List β) : Option Nat :=
  if batch.isEmpty then none else some (2 + (batch.map S.entryLen).sum)

/-- First loop of `extract_next_batch`: pop oversized blocks from the front. -/
def dropOversized (S : Sized β) (maxBatch : Nat) : List β → List β
  | [] => []
  | b :: rest => if S.dataLen b > maxBatch then dropOversized S maxBatch rest else b :: rest

/-- Second loop of `extract_next_batch`: `total` = `total_size`, `count` = `block_count`;
`cap` = `config::MAX_BATCH_BLOCKS`. Returns the final `block_count`. -/
def countFit (S : Sized β) (maxBatch cap : Nat) : List β → Nat → Nat → Nat
  | [], _, count => count
  | b :: rest, total, count =>
    if total + S.dataLen b > maxBatch then count
    else if count = cap then count
    else countFit S maxBatch cap rest (total + S.dataLen b) (count + 1)

/-- `extract_next_batch(&mut blocks, max_batch_size)`: the drained batch and what is left. -/
def extractNextBatch (S : Sized β) (maxBatch cap : Nat) (blocks : List β) : Option (List β × List β) :=
  match dropOversized S maxBatch blocks with
  | [] => none
  | b :: rest =>
    some ((b :: rest).take (countFit S maxBatch cap (b :: rest) 0 0),
          (b :: rest).drop (countFit S maxBatch cap (b :: rest) 0 0))

/-- One iteration of the `while let` loop in `send_response`. -/
structure Step (β : Type) where
  batch : List β
  /-- `message.len()` (`none`: `blocks_message` returned `None`) -/
  enc : Option Nat
  /-- written to the substream (`false`: skipped, with a warning when too large) -/
  sent : Bool
  deriving DecidableEq, Repr

def mkStep (S : Sized β) (maxMsg : Nat) (batch : List β) : Step β :=
  match blocksMessageLen S batch with
  | none => ⟨batch, none, false⟩
  | some len => ⟨batch, some len, decide (len ≤ maxMsg)⟩

/-- The block loop of `send_response` with `fuel` iterations allowed; the flag says that the loop
ended by itself (`extract_next_batch` returned `None`). Writes are assumed to succeed. -/
def sendLoop (S : Sized β) (maxBatch cap maxMsg : Nat) : Nat → List β → List (Step β) × Bool
  | 0, _ => ([], false)
  | fuel + 1, blocks =>
    match extractNextBatch S maxBatch cap blocks with
    | none => ([], true)
    | some (batch, rest) =>
      (mkStep S maxMsg batch :: (sendLoop S maxBatch cap maxMsg fuel rest).1,
       (sendLoop S maxBatch cap maxMsg fuel rest).2)

/-- `send_response` restricted to blocks. -/
def sendResponse (S : Sized β) (maxBatch cap maxMsg : Nat) (blocks : List β) : List (Step β) × Bool :=
  sendLoop S maxBatch cap maxMsg (blocks.length + 1) blocks

/-- Batches actually written. -/
def sentBatches (steps : List (Step β)) : List (List β) :=
  (steps.filter (·.sent)).map (·.batch)

/-! ## The whole of `send_response`: presence message first, then the block batches

`send_response(substream, entries)` filters the `Presence` entries into ONE `presences_message`
(`None` when there is none), writes it if its encoding is at most `MAX_MESSAGE_SIZE` and otherwise
skips it with a warning; then it runs the block loop above. Every write goes through
`Substream::send_framed`, whose codec (`UnsignedVarint(Some(codecMax))`, `bitswap/config.rs`) rejects
a larger frame with an error; `send_response` propagates a write error at once (`return Err(..)`),
i.e. nothing after the failed write is sent. -/

/-- A proto3 `int32`/enum field with a one-byte key: omitted when 0. -/
def pbEnumField (v : Nat) : Nat := if v = 0 then 0 else 1 + pbVarintLen v

/-- `BlockPresence { cid = 1, type = 2 }` encoded. -/
def presenceBodyLen (cidLen ty : Nat) : Nat := pbBytesField cidLen + pbEnumField ty

/-- One `blockPresences = 4` entry of `Message`: key, length, body. -/
def presenceEntryLen (cidLen ty : Nat) : Nat :=
  1 + pbVarintLen (presenceBodyLen cidLen ty) + presenceBodyLen cidLen ty

/-- What the code looks at in a `(Cid, BlockPresenceType)`: `cid.to_bytes().len()` and the enum
value (`Have` = 0, `DontHave` = 1). -/
structure PSized (π : Type) where
  cidLen : π → Nat
  ptype : π → Nat

variable {π : Type}

def PSized.entryLen (P : PSized π) (p : π) : Nat := presenceEntryLen (P.cidLen p) (P.ptype p)

/-- `presences_message(ps).map(|(m, _)| m.len())`: `wantlist: Some(Default)` costs 2 bytes, then the
presence entries; `None` when there is no presence. -/
def presencesMessageLen (P : PSized π) (ps : List π) : Option Nat :=
  if ps.isEmpty then none else some (2 + (ps.map P.entryLen).sum)

/-- `ResponseType`. -/
inductive Entry (π β : Type) where
  | presence (p : π)
  | block (b : β)
  deriving DecidableEq, Repr

/-- the first `filter_map` of `send_response` -/
def presencesOf : List (Entry π β) → List π
  | [] => []
  | .presence p :: rest => p :: presencesOf rest
  | .block _ :: rest => presencesOf rest

/-- the second `filter_map` of `send_response` -/
def blocksOf : List (Entry π β) → List β
  | [] => []
  | .presence _ :: rest => blocksOf rest
  | .block b :: rest => b :: blocksOf rest

/-- A message written to the substream, with the length of its encoding. -/
inductive Frame (π β : Type) where
  | presences (ps : List π) (len : Nat)
  | blocks (batch : List β) (len : Nat)
  deriving DecidableEq, Repr

def Frame.len : Frame π β → Nat
  | .presences _ len => len
  | .blocks _ len => len

/-- The batches carried by the block frames, in order. -/
def blockBatches : List (Frame π β) → List (List β)
  | [] => []
  | .presences _ _ :: rest => blockBatches rest
  | .blocks batch _ :: rest => batch :: blockBatches rest

/-- Return value of `send_response` (`outOfFuel`: artefact of the fuel, excluded by the theorems). -/
inductive SendResult where
  | ok
  | writeError
  | outOfFuel
  deriving DecidableEq, Repr

/-- `send_framed` on a substream with the codec `UnsignedVarint(Some(codecMax))`: `check_size!`
rejects a larger frame. No other write error and no timeout is modelled. -/
def sendFramed (codecMax len : Nat) : Bool := decide (len ≤ codecMax)

/-- The `while let` loop of `send_response` including the writes: a batch whose message is larger
than `maxMsg` is skipped (warning), a failed write ends the function. -/
def respondLoop (π : Type) (S : Sized β) (maxBatch cap maxMsg codecMax : Nat) :
    Nat → List β → List (Frame π β) × SendResult
  | 0, _ => ([], .outOfFuel)
  | fuel + 1, blocks =>
    match extractNextBatch S maxBatch cap blocks with
    | none => ([], .ok)
    | some (batch, rest) =>
      match blocksMessageLen S batch with
      | none => respondLoop π S maxBatch cap maxMsg codecMax fuel rest
      | some len =>
        if len ≤ maxMsg then
          if sendFramed codecMax len then
            (Frame.blocks batch len :: (respondLoop π S maxBatch cap maxMsg codecMax fuel rest).1,
             (respondLoop π S maxBatch cap maxMsg codecMax fuel rest).2)
          else ([], .writeError)
        else respondLoop π S maxBatch cap maxMsg codecMax fuel rest

/-- `send_response(substream, entries)`: what is written, and the return value. -/
def respond (P : PSized π) (S : Sized β) (maxBatch cap maxMsg codecMax : Nat)
    (entries : List (Entry π β)) : List (Frame π β) × SendResult :=
  match presencesMessageLen P (presencesOf entries) with
  | none => respondLoop π S maxBatch cap maxMsg codecMax ((blocksOf entries).length + 1) (blocksOf entries)
  | some len =>
    if len ≤ maxMsg then
      if sendFramed codecMax len then
        (Frame.presences (presencesOf entries) len ::
          (respondLoop π S maxBatch cap maxMsg codecMax ((blocksOf entries).length + 1) (blocksOf entries)).1,
         (respondLoop π S maxBatch cap maxMsg codecMax ((blocksOf entries).length + 1) (blocksOf entries)).2)
      else ([], .writeError)
    else respondLoop π S maxBatch cap maxMsg codecMax ((blocksOf entries).length + 1) (blocksOf entries)

/-- Presences reduced to (CID length, type). -/
def lenPres : PSized (Nat × Nat) := ⟨Prod.fst, Prod.snd⟩

/-- The blocks of a real response: `(Cid, Vec<u8>)` with the prefix `blocks_message` writes. -/
def wireBlocks : Sized (Cid × Bytes) := ⟨fun b => b.1.toPrefix.toBytes.length, fun b => b.2.length⟩

/-- The presences of a real response: `(Cid, BlockPresenceType)`, `cid.to_bytes()` on the wire. -/
def wirePres : PSized (Cid × Nat) := ⟨fun p => p.1.toBytes.length, Prod.snd⟩

/-- Blocks reduced to (prefix length, data length). -/
def lenPair : Sized (Nat × Nat) := ⟨Prod.fst, Prod.snd⟩

end Litep2pVerif.Bitswap
