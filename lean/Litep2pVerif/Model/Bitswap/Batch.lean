import Litep2pVerif.Model.Bitswap.Prefix
/-!
# Bitswap response batching (C20)

Operational model of `extract_next_batch`, `blocks_message` (size of the prost encoding only) and
the block loop of `send_response` in `src/protocol/libp2p/bitswap/mod.rs`. The batching looks only
at `data.len()` and the encoding's size depends only on the lengths of prefix and data, so the
model is generic in the block type `β` with the two length projections (`Sized β`).

Imports only the prefix model (core Lean only).
-/
namespace Litep2pVerif.Bitswap

/-- prost `encoded_len_varint` for values below 2^64. -/
def pbVarintLen (n : Nat) : Nat :=
  if n < 128 then 1 else if n < 16384 then 2 else if n < 2097152 then 3
  else if n < 268435456 then 4 else if n < 34359738368 then 5 else if n < 4398046511104 then 6
  else if n < 562949953421312 then 7 else if n < 72057594037927936 then 8
  else if n < 9223372036854775808 then 9 else 10

/-- A proto3 `bytes` field with a one-byte key: omitted when empty. -/
def pbBytesField (len : Nat) : Nat := if len = 0 then 0 else 1 + pbVarintLen len + len

/-- `Block { prefix = 1, data = 2 }` encoded. -/
def blockBodyLen (prefixLen dataLen : Nat) : Nat := pbBytesField prefixLen + pbBytesField dataLen

/-- One `payload = 3` entry of `Message`: key, length, body (always emitted). -/
def blockEntryLen (prefixLen dataLen : Nat) : Nat :=
  1 + pbVarintLen (blockBodyLen prefixLen dataLen) + blockBodyLen prefixLen dataLen

/-- What the code looks at in a `(Cid, Vec<u8>)`. -/
structure Sized (β : Type) where
  prefixLen : β → Nat
  dataLen : β → Nat

variable {β : Type}

def Sized.entryLen (S : Sized β) (b : β) : Nat := blockEntryLen (S.prefixLen b) (S.dataLen b)

/-- `blocks_message(batch).map(|(m, _)| m.len())`: `wantlist: Some(Default)` costs 2 bytes, then the
payload entries; `None` for an empty batch. -/
def blocksMessageLen (S : Sized β) (batch : List β) : Option Nat :=
  if batch.isEmpty then none else some (2 + (batch.map S.entryLen).sum)

/-- First loop of `extract_next_batch`: pop oversized blocks from the front. -/
def dropOversized (S : Sized β) (maxBatch : Nat) : List β → List β
  | [] => []
  | b :: rest => if S.dataLen b > maxBatch then dropOversized S maxBatch rest else b :: rest

/-- Second loop of `extract_next_batch`: `total` = `total_size`, `count` = `block_count`;
`cap` = `config::MAX_BATCH_BLOCKS`. Returns the final `block_count`. -/
def countFit (S : Sized β) (maxBatch cap : Nat) : List β → Nat → Nat → Nat
  | [], _, count => count
  | b :: rest, total, count =>
    if total + S.dataLen b > maxBatch then count
    else if count = cap then count
    else countFit S maxBatch cap rest (total + S.dataLen b) (count + 1)

/-- `extract_next_batch(&mut blocks, max_batch_size)`: the drained batch and what is left. -/
def extractNextBatch (S : Sized β) (maxBatch cap : Nat) (blocks : List β) : Option (List β × List β) :=
  match dropOversized S maxBatch blocks with
  | [] => none
  | b :: rest =>
    some ((b :: rest).take (countFit S maxBatch cap (b :: rest) 0 0),
          (b :: rest).drop (countFit S maxBatch cap (b :: rest) 0 0))

/-- One iteration of the `while let` loop in `send_response`. -/
structure Step (β : Type) where
  batch : List β
  /-- `message.len()` (`none`: `blocks_message` returned `None`) -/
  enc : Option Nat
  /-- written to the substream (`false`: skipped, with a warning when too large) -/
  sent : Bool
  deriving DecidableEq, Repr

def mkStep (S : Sized β) (maxMsg : Nat) (batch : List β) : Step β :=
  match blocksMessageLen S batch with
  | none => ⟨batch, none, false⟩
  | some len => ⟨batch, some len, decide (len ≤ maxMsg)⟩

/-- The block loop of `send_response` with `fuel` iterations allowed; the flag says that the loop
ended by itself (`extract_next_batch` returned `None`). Writes are assumed to succeed. -/
def sendLoop (S : Sized β) (maxBatch cap maxMsg : Nat) : Nat → List β → List (Step β) × Bool
  | 0, _ => ([], false)
  | fuel + 1, blocks =>
    match extractNextBatch S maxBatch cap blocks with
    | none => ([], true)
    | some (batch, rest) =>
      (mkStep S maxMsg batch :: (sendLoop S maxBatch cap maxMsg fuel rest).1,
       (sendLoop S maxBatch cap maxMsg fuel rest).2)

/-- `send_response` restricted to blocks. -/
def sendResponse (S : Sized β) (maxBatch cap maxMsg : Nat) (blocks : List β) : List (Step β) × Bool :=
  sendLoop S maxBatch cap maxMsg (blocks.length + 1) blocks

/-- Batches actually written. -/
def sentBatches (steps : List (Step β)) : List (List β) :=
  (steps.filter (·.sent)).map (·.batch)

/-- The blocks of a real response: `(Cid, Vec<u8>)` with the prefix `blocks_message` writes. -/
def wireBlocks : Sized (Cid × Bytes) := ⟨fun b => b.1.toPrefix.toBytes.length, fun b => b.2.length⟩

/-- Blocks reduced to (prefix length, data length). -/
def lenPair : Sized (Nat × Nat) := ⟨Prod.fst, Prod.snd⟩

end Litep2pVerif.Bitswap
