import Litep2pVerif.Model.Bitswap.Proto
import Litep2pVerif.Model.Kad.Events
/-!
# The command channel between `BitswapHandle` and `Bitswap::run()` (C20)

`BitswapHandle::send_request` / `send_response` hand a `BitswapCommand` to the event loop with
`cmd_tx.send(cmd).await` over one bounded tokio mpsc channel (capacity `DEFAULT_CHANNEL_SIZE`): when the
channel is full the USER's future is suspended holding the command, and the slot the loop frees with its
next `cmd_rx.recv()` goes to the suspended `send`. The bounded channel is the one of
`Model/Kad/Events.lean` with the roles swapped (producer = the user, consumer = the event loop).

`burst`: the user hands over `cmds` back to back while the loop is not polled (the adapter's `burst`
operation), then the loop runs until nothing is left; it handles each command it receives with
`Proto.step … (.command p a)`.
-/
namespace Litep2pVerif.Bitswap.Cmd
open Litep2pVerif.Bitswap Litep2pVerif.Bitswap.Proto Litep2pVerif.Kad.Events

abbrev Command := Nat × Action

/-- The channel after the user pushed `cmds` without the loop running: the first `cap` are inside, the
user is suspended holding the next one (`blocked`), the rest is what it will send afterwards. -/
def held (cap : Nat) (cmds : List Command) : Chan Command :=
  cmds.foldl (fun c e => (c.emit e).runOne) { cap := cap }

/-- `some k`: the user's future suspended after the channel took `k` commands. -/
def suspendedAt (cap : Nat) (cmds : List Command) : Option Nat :=
  if (held cap cmds).blocked.isSome then some (held cap cmds).queue.length else none

/-- The commands the event loop receives, in order, once it runs until the channel stays empty. -/
def received (cap : Nat) (cmds : List Command) : List Command :=
  (heldThenDrained ({ cap := cap } : Chan Command) cmds).got

/-- The loop handles what it receives, one command per iteration. -/
def handleAll (L : Limits) (st : St) (cmds : List Command) : St × Out :=
  cmds.foldl (fun acc c => ((step L acc.1 (.command c.1 c.2)).1, acc.2.append (step L acc.1 (.command c.1 c.2)).2.2)) (st, {})

/-- The adapter's `burst` operation. -/
def burst (L : Limits) (cap : Nat) (st : St) (cmds : List Command) : St × Out :=
  handleAll L st (received cap cmds)

/-- The seeded variant (`try_send`): what does not fit is gone. -/
def receivedTry (cap : Nat) (cmds : List Command) : List Command :=
  let c := cmds.foldl Chan.emitTry ({ cap := cap } : Chan Command)
  (Chan.drain (c.pending + 1) c).got

end Litep2pVerif.Bitswap.Cmd
