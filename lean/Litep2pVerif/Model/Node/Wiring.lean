import Litep2pVerif.Generated.Consts
/-!
# What `Litep2p::new` must hand over (`src/lib.rs`, `src/config.rs`)

The WIRING of a node, written from the code: a function from the user's configuration (the calls made on
`ConfigBuilder`) to

* the per-protocol registration record — what `TransportManager::register_protocol` is called with for every
  protocol (name, codec incl. maximum size, substream keep-alive flag, fallback names) and what the protocol's
  `TransportService` is constructed with (the keep-alive timeout of its tracker);
* the manager's connection limits, the known addresses, the listen addresses `Litep2p::listen_addresses` reports,
  the installed transports, the protocol list handed to identify and the number of event loops handed to the
  executor.

`ConfigBuilder::build` (`config.rs`) is `build`; `Litep2p::new` (`lib.rs`) is `wire`. The adapter
`/repo/src/verif/node.rs` prints the ACTUAL record of a node built through the public API; `Driver/Node.lean`
prints this model's record; the two are compared field by field on every run.

Order: user protocols of one kind live in a `HashMap` in the builder, so `Litep2p::new` registers them in an
arbitrary order; the only order-sensitive effect of registration is the duplicate-name check, which does not depend
on the order (`Proofs/Node/Wiring.lean`: `clashFree_perm`). Records are therefore compared as sorted lists.
-/
namespace Litep2pVerif.Node

/-- `ProtocolCodec` (`src/codec/mod.rs`). -/
inductive Codec where
  | identity (size : Nat)
  | varint (max : Option Nat)
  | unspecified
  deriving DecidableEq, Repr, Inhabited

/-- `notification::ConfigBuilder` as used by the adapter. -/
structure NotifCfg where
  name : String
  max : Nat
  /-- handshake bytes, hex (`-` = empty) -/
  handshake : String
  fallback : List String
  /-- `a` auto-accept, `y`/`n` the user accepts/rejects -/
  mode : Char
  deriving DecidableEq, Repr, Inhabited

/-- `request_response::ConfigBuilder`. -/
structure RrCfg where
  name : String
  max : Nat
  timeoutMs : Nat
  fallback : List String
  maxInbound : Option Nat
  deriving DecidableEq, Repr, Inhabited

/-- A `UserProtocol`: its `protocol()` and `codec()`. -/
structure UserCfg where
  name : String
  codec : Codec
  deriving DecidableEq, Repr, Inhabited

/-- `kademlia::ConfigBuilder`: `with_protocol_names` (empty = not called), `with_max_message_size`. -/
structure KadCfg where
  names : List String
  max : Option Nat
  deriving DecidableEq, Repr, Inhabited

/-- An address given for a peer: the peer's listen address `k` with its peer id (`l`), without peer id (`n`), with a
foreign peer id (`w`), a closed TCP port with its peer id (`x`), a QUIC address (`q`). -/
inductive AddrKind where
  | listen (k : Nat) | noPeer (k : Nat) | wrongPeer (k : Nat) | closed | quic
  deriving DecidableEq, Repr, Inhabited

/-- The calls made on `ConfigBuilder` (`None` = the setter was not called). -/
structure Config where
  keepAliveMs : Option Nat := none
  limits : Option (Option Nat × Option Nat) := none
  tcp : Bool := true
  /-- last octets of the 127.0.0.x listen addresses, in the order given to `TcpConfig` -/
  listen : List Nat := [1]
  notif : List NotifCfg := []
  rr : List RrCfg := []
  user : List UserCfg := []
  kad : List KadCfg := []
  /-- ping interval in ms (1 = `ping::Config::default()`), `none` = ping not enabled -/
  ping : Option Nat := none
  identify : Bool := false
  bitswap : Bool := false
  /-- `with_known_addresses` (replaces the list) -/
  known : Option (List (Nat × List AddrKind)) := none
  customExecutor : Bool := false
  deriving DecidableEq, Repr, Inhabited

def pingName : String := "/ipfs/ping/1.0.0"
def identifyName : String := "/ipfs/id/1.0.0"
def kadName : String := "/ipfs/kad/1.0.0"
def bitswapName : String := "/ipfs/bitswap/1.2.0"

/-- `KEEP_ALIVE_TIMEOUT` (`src/transport/mod.rs`), in ms. -/
def defaultKeepAliveMs : Nat := 1000 * Consts.KEEP_ALIVE_TIMEOUT_SECS

/-! ## `ConfigBuilder::build` -/

/-- `HashMap::insert` by name: a later configuration of the same name replaces the earlier one. -/
def insertBy {α : Type} (key : α → String) (x : α) : List α → List α
  | [] => [x]
  | y :: ys => if key y = key x then x :: ys else y :: insertBy key x ys

def dedupBy {α : Type} (key : α → String) (l : List α) : List α :=
  l.foldl (fun acc x => insertBy key x acc) []

/-- `Litep2pConfig`: what `build()` produces (defaults filled in). -/
structure Built where
  keepAliveMs : Nat
  limits : Option Nat × Option Nat
  tcp : Bool
  listen : List Nat
  notif : List NotifCfg
  rr : List RrCfg
  user : List UserCfg
  kad : List KadCfg
  ping : Option Nat
  identify : Bool
  bitswap : Bool
  known : List (Nat × List AddrKind)
  customExecutor : Bool
  deriving DecidableEq, Repr, Inhabited

def build (c : Config) : Built :=
  { keepAliveMs := c.keepAliveMs.getD defaultKeepAliveMs
    limits := c.limits.getD (none, none)
    tcp := c.tcp
    listen := c.listen
    notif := dedupBy (·.name) c.notif
    rr := dedupBy (·.name) c.rr
    user := dedupBy (·.name) c.user
    kad := c.kad
    ping := c.ping
    identify := c.identify
    bitswap := c.bitswap
    known := c.known.getD []
    customExecutor := c.customExecutor }

/-! ## `Litep2p::new` -/

/-- One call of `TransportManager::register_protocol` together with the `TransportService` it constructs. -/
structure Registration where
  name : String
  fallback : List String
  codec : Codec
  /-- keep-alive timeout handed to the `TransportService` (ms) -/
  keepAliveMs : Nat
  /-- `SubstreamKeepAlive::Yes` -/
  keepAlive : Bool
  deriving DecidableEq, Repr, Inhabited

/-- The registrations in the order of `Litep2p::new`: notification, request-response, user protocols, ping, kademlia,
identify, bitswap. Every one gets `litep2p_config.keep_alive_timeout`. -/
def registrations (b : Built) : List Registration :=
  b.notif.map (fun p => ⟨p.name, p.fallback, .varint (some p.max), b.keepAliveMs, true⟩) ++
  b.rr.map (fun p => ⟨p.name, p.fallback, .varint (some p.max), b.keepAliveMs, true⟩) ++
  b.user.map (fun p => ⟨p.name, [], p.codec, b.keepAliveMs, true⟩) ++
  (match b.ping with
   | some _ => [⟨pingName, [], .identity Consts.PING_PAYLOAD_SIZE, b.keepAliveMs, false⟩]
   | none => []) ++
  b.kad.map (fun k =>
    let names := if k.names.isEmpty then [kadName] else k.names
    ⟨names.headD kadName, names.drop 1, .varint (some (k.max.getD Consts.KAD_DEFAULT_MAX_MESSAGE_SIZE)),
     b.keepAliveMs, true⟩) ++
  (if b.identify then [⟨identifyName, [], .varint (some Consts.IDENTIFY_PAYLOAD_SIZE), b.keepAliveMs, false⟩] else []) ++
  (if b.bitswap then [⟨bitswapName, [], .varint (some Consts.BITSWAP_MAX_MESSAGE_SIZE), b.keepAliveMs, true⟩] else [])

/-- `register_protocol`'s checks, run over the registrations in order with the set of names taken so far:
`assert!(!protocol_names.contains(&protocol))`, `panic!("duplicate fallback …")`; then the main name and the fallback
names are added. `none` = panic. -/
def registerAll : List String → List Registration → Option (List String)
  | taken, [] => some taken
  | taken, r :: rs =>
    if taken.contains r.name then none
    else if r.fallback.any (fun f => taken.contains f) then none
    else registerAll (r.name :: r.fallback ++ taken) rs

/-- The names a registration claims. -/
def Registration.claims (r : Registration) : List String := r.name :: r.fallback

/-- What the manager stores for a known address: only TCP addresses carrying the peer's own id survive
`TransportManagerHandle::add_known_address` (`supported_transport` refuses an address without `/p2p`). -/
def AddrKind.stored : AddrKind → Bool
  | .listen _ => true
  | .closed => true
  | _ => false

/-- A node after `Litep2p::new`. -/
structure Wired where
  regs : List Registration
  limits : Option Nat × Option Nat
  /-- listen addresses reported, in order: (last octet, carries the own peer id) -/
  listen : List (Nat × Bool)
  /-- known addresses stored per peer -/
  known : List (Nat × List AddrKind)
  /-- `identify_config.protocols` -/
  identifyProtocols : List String
  /-- futures handed to the executor by `Litep2p::new` -/
  spawned : Nat
  deriving DecidableEq, Repr, Inhabited

inductive NewResult where
  | ok (w : Wired)
  /-- `Err(Error::Other("No transport specified"))` -/
  | noTransport
  /-- `register_protocol` panicked -/
  | panic
  deriving DecidableEq, Repr, Inhabited

def wire (b : Built) : NewResult :=
  let regs := registrations b
  match registerAll [] regs with
  | none => .panic
  | some _ =>
    if !b.tcp then .noTransport
    else .ok
      { regs := regs
        limits := b.limits
        listen := b.listen.map (fun o => (o, true))
        known := b.known.map (fun (j, ks) => (j, ks.filter AddrKind.stored))
        identifyProtocols := regs.map (·.name)
        spawned := regs.length }

/-- `Litep2p::new(ConfigBuilder…build())`. -/
def new (c : Config) : NewResult := wire (build c)

end Litep2pVerif.Node
