import Litep2pVerif.Generated.Consts
/-!
# What `Litep2p::new` must hand over (`src/lib.rs`, `src/config.rs`)

The WIRING of a node, written from the code: a function from the user's configuration (the calls made on
`ConfigBuilder`) to

* the per-protocol registration record — what `TransportManager::register_protocol` is called with for every
  protocol (name, codec incl. maximum size, substream keep-alive flag, fallback names) and what the protocol's
  `TransportService` is constructed with (the keep-alive timeout of its tracker);
* the manager's connection limits, the known addresses, the listen addresses `Litep2p::listen_addresses` reports,
  the installed transports, the protocol list handed to identify and the number of event loops handed to the
  executor.

`ConfigBuilder::build` (`config.rs`) is `build`; `Litep2p::new` (`lib.rs`) is `wire`. The adapter
`/repo/src/verif/node.rs` prints the ACTUAL record of a node built through the public API; `Driver/Node.lean`
prints this model's record; the two are compared field by field on every run.

Order: user protocols of one kind live in a `HashMap` in the builder, so `Litep2p::new` registers them in an
arbitrary order; the only order-sensitive effect of registration is the duplicate-name check, which does not depend
on the order (`Proofs/Node/Wiring.lean`: `clashFree_perm`). Records are therefore compared as sorted lists.
-/
namespace Litep2pVerif.Node

/-- `ProtocolCodec` (`src/codec/mod.rs`). -/
inductive Codec where
  | identity (size : Nat)
  | varint (max : Option Nat)
  | unspecified
  deriving DecidableEq, Repr, Inhabited

/-- `notification::ConfigBuilder` as used by the adapter. -/
structure NotifCfg where
  name : String
  max : Nat
  /-- handshake bytes, hex (`-` = empty) -/
  handshake : String
  fallback : List String
  /-- `a` auto-accept, `y`/`n` the user accepts/rejects -/
  mode : Char
  /-- `with_sync_channel_size` / `with_async_channel_size` / `with_dialing_enabled` (`none` = not called) -/
  sync : Option Nat := some 64
  async : Option Nat := some 64
  dial : Option Bool := none
  deriving DecidableEq, Repr, Inhabited

/-- `request_response::ConfigBuilder`. -/
structure RrCfg where
  name : String
  max : Nat
  timeoutMs : Nat
  fallback : List String
  maxInbound : Option Nat
  deriving DecidableEq, Repr, Inhabited

/-- A `UserProtocol`: its `protocol()` and `codec()`. -/
structure UserCfg where
  name : String
  codec : Codec
  deriving DecidableEq, Repr, Inhabited

/-- The other setters of `kademlia::ConfigBuilder` (`src/protocol/libp2p/kademlia/config.rs`), durations in ms,
`true` = `Automatic`. -/
inductive KadSet where
  | replication (n : Nat) | recordTtl (ms : Nat) | updateMode (auto : Bool) | validationMode (auto : Bool)
  | maxRecords (n : Nat) | maxRecordSize (n : Nat) | maxProviderKeys (n : Nat) | maxProviderAddresses (n : Nat)
  | maxProvidersPerKey (n : Nat) | providerRefresh (ms : Nat) | providerTtl (ms : Nat)
  deriving DecidableEq, Repr, Inhabited

/-- `kademlia::ConfigBuilder`: `with_protocol_names` (empty = not called), `with_max_message_size`, then the other
setters in call order. -/
structure KadCfg where
  names : List String
  max : Option Nat
  sets : List KadSet := []
  deriving DecidableEq, Repr, Inhabited

/-- Fields of `tcp::config::Config` the user sets before `with_tcp` (durations in ms). -/
inductive TcpSet where
  | nodelay (b : Bool) | reusePort (b : Bool) | readAhead (n : Nat) | writeBuffer (n : Nat)
  | connectionOpen (ms : Nat) | substreamOpen (ms : Nat) | yamuxStreams (n : Nat) | parallelDials (n : Nat)
  deriving DecidableEq, Repr, Inhabited

/-- An address given for a peer: the peer's listen address `k` with its peer id (`l`), without peer id (`n`), with a
foreign peer id (`w`), a closed TCP port with its peer id (`x`), a QUIC address (`q`). -/
inductive AddrKind where
  | listen (k : Nat) | noPeer (k : Nat) | wrongPeer (k : Nat) | closed | quic
  /-- `/ip4/127.0.0.1/tcp/<k>` (closed port `k` ≥ 2) and `/dns4/127.0.0.1/tcp/<k>`, with the peer's id -/
  | closedPort (k : Nat) | dns (k : Nat)
  deriving DecidableEq, Repr, Inhabited

/-- The calls made on `ConfigBuilder` (`None` = the setter was not called). -/
structure Config where
  keepAliveMs : Option Nat := none
  limits : Option (Option Nat × Option Nat) := none
  tcp : Bool := true
  /-- last octets of the 127.0.0.x listen addresses, in the order given to `TcpConfig` -/
  listen : List Nat := [1]
  notif : List NotifCfg := []
  rr : List RrCfg := []
  user : List UserCfg := []
  kad : List KadCfg := []
  /-- ping interval in ms (1 = `ping::Config::default()`), `none` = ping not enabled -/
  ping : Option Nat := none
  identify : Bool := false
  bitswap : Bool := false
  /-- `with_known_addresses` (replaces the list) -/
  known : Option (List (Nat × List AddrKind)) := none
  customExecutor : Bool := false
  /-- `with_max_parallel_dials` -/
  maxParallelDials : Option Nat := none
  tcpSets : List TcpSet := []
  /-- `ping::ConfigBuilder::with_max_failure` -/
  pingFailures : Option Nat := none
  /-- `identify::Config::new(protocol_version, user_agent)` -/
  idVersion : String := "/verif/1"
  idAgent : Option String := some "verif"
  deriving DecidableEq, Repr, Inhabited

def pingName : String := "/ipfs/ping/1.0.0"
def identifyName : String := "/ipfs/id/1.0.0"
def kadName : String := "/ipfs/kad/1.0.0"
def bitswapName : String := "/ipfs/bitswap/1.2.0"

/-- `KEEP_ALIVE_TIMEOUT` (`src/transport/mod.rs`), in ms. -/
def defaultKeepAliveMs : Nat := 1000 * Consts.KEEP_ALIVE_TIMEOUT_SECS

/-! ## `ConfigBuilder::build` -/

/-- `HashMap::insert` by name: a later configuration of the same name replaces the earlier one. -/
def insertBy {α : Type} (key : α → String) (x : α) : List α → List α
  | [] => [x]
  | y :: ys => if key y = key x then x :: ys else y :: insertBy key x ys

def dedupBy {α : Type} (key : α → String) (l : List α) : List α :=
  l.foldl (fun acc x => insertBy key x acc) []

/-- `Litep2pConfig`: what `build()` produces (defaults filled in). -/
structure Built where
  keepAliveMs : Nat
  limits : Option Nat × Option Nat
  tcp : Bool
  listen : List Nat
  notif : List NotifCfg
  rr : List RrCfg
  user : List UserCfg
  kad : List KadCfg
  ping : Option Nat
  identify : Bool
  bitswap : Bool
  known : List (Nat × List AddrKind)
  customExecutor : Bool
  maxParallelDials : Nat := Consts.NODE_MAX_PARALLEL_DIALS
  tcpSets : List TcpSet := []
  pingFailures : Option Nat := none
  idVersion : String := "/verif/1"
  idAgent : Option String := some "verif"
  deriving DecidableEq, Repr, Inhabited

def build (c : Config) : Built :=
  { keepAliveMs := c.keepAliveMs.getD defaultKeepAliveMs
    limits := c.limits.getD (none, none)
    tcp := c.tcp
    listen := c.listen
    notif := dedupBy (·.name) c.notif
    rr := dedupBy (·.name) c.rr
    user := dedupBy (·.name) c.user
    kad := c.kad
    ping := c.ping
    identify := c.identify
    bitswap := c.bitswap
    known := c.known.getD []
    customExecutor := c.customExecutor
    -- `self.max_parallel_dials = max_parallel_dials.max(1)`
    maxParallelDials := (c.maxParallelDials.map (max · 1)).getD Consts.NODE_MAX_PARALLEL_DIALS
    tcpSets := c.tcpSets
    pingFailures := c.pingFailures
    idVersion := c.idVersion
    idAgent := c.idAgent }

/-! ## `Litep2p::new` -/

/-- One call of `TransportManager::register_protocol` together with the `TransportService` it constructs. -/
structure Registration where
  name : String
  fallback : List String
  codec : Codec
  /-- keep-alive timeout handed to the `TransportService` (ms) -/
  keepAliveMs : Nat
  /-- `SubstreamKeepAlive::Yes` -/
  keepAlive : Bool
  deriving DecidableEq, Repr, Inhabited

/-- The registrations in the order of `Litep2p::new`: notification, request-response, user protocols, ping, kademlia,
identify, bitswap. Every one gets `litep2p_config.keep_alive_timeout`. -/
def registrations (b : Built) : List Registration :=
  b.notif.map (fun p => ⟨p.name, p.fallback, .varint (some p.max), b.keepAliveMs, true⟩) ++
  b.rr.map (fun p => ⟨p.name, p.fallback, .varint (some p.max), b.keepAliveMs, true⟩) ++
  b.user.map (fun p => ⟨p.name, [], p.codec, b.keepAliveMs, true⟩) ++
  (match b.ping with
   | some _ => [⟨pingName, [], .identity Consts.PING_PAYLOAD_SIZE, b.keepAliveMs, false⟩]
   | none => []) ++
  b.kad.map (fun k =>
    let names := if k.names.isEmpty then [kadName] else k.names
    ⟨names.headD kadName, names.drop 1, .varint (some (k.max.getD Consts.KAD_DEFAULT_MAX_MESSAGE_SIZE)),
     b.keepAliveMs, true⟩) ++
  (if b.identify then [⟨identifyName, [], .varint (some Consts.IDENTIFY_PAYLOAD_SIZE), b.keepAliveMs, false⟩] else []) ++
  (if b.bitswap then [⟨bitswapName, [], .varint (some Consts.BITSWAP_MAX_MESSAGE_SIZE), b.keepAliveMs, true⟩] else [])

/-- `register_protocol`'s checks, run over the registrations in order with the set of names taken so far:
`assert!(!protocol_names.contains(&protocol))`, `panic!("duplicate fallback …")`; then the main name and the fallback
names are added. `none` = panic. -/
def registerAll : List String → List Registration → Option (List String)
  | taken, [] => some taken
  | taken, r :: rs =>
    if taken.contains r.name then none
    else if r.fallback.any (fun f => taken.contains f) then none
    else registerAll (r.name :: r.fallback ++ taken) rs

/-- The names a registration claims. -/
def Registration.claims (r : Registration) : List String := r.name :: r.fallback

/-- What the manager stores for a known address: only TCP addresses carrying the peer's own id survive
`TransportManagerHandle::add_known_address` (`supported_transport` refuses an address without `/p2p`). -/
def AddrKind.stored : AddrKind → Bool
  | .listen _ => true
  | .closed => true
  | .closedPort _ => true
  | .dns _ => true
  | _ => false

/-- A node after `Litep2p::new`. -/
structure Wired where
  regs : List Registration
  limits : Option Nat × Option Nat
  /-- listen addresses reported, in order: (last octet, carries the own peer id) -/
  listen : List (Nat × Bool)
  /-- known addresses stored per peer -/
  known : List (Nat × List AddrKind)
  /-- `identify_config.protocols` -/
  identifyProtocols : List String
  /-- futures handed to the executor by `Litep2p::new` -/
  spawned : Nat
  deriving DecidableEq, Repr, Inhabited

inductive NewResult where
  | ok (w : Wired)
  /-- `Err(Error::Other("No transport specified"))` -/
  | noTransport
  /-- `register_protocol` panicked -/
  | panic
  deriving DecidableEq, Repr, Inhabited

def wire (b : Built) : NewResult :=
  let regs := registrations b
  match registerAll [] regs with
  | none => .panic
  | some _ =>
    if !b.tcp then .noTransport
    else .ok
      { regs := regs
        limits := b.limits
        listen := b.listen.map (fun o => (o, true))
        known := b.known.map (fun (j, ks) => (j, ks.filter AddrKind.stored))
        identifyProtocols := regs.map (·.name)
        spawned := regs.length }

/-- `Litep2p::new(ConfigBuilder…build())`. -/
def new (c : Config) : NewResult := wire (build c)

/-! ## What the constructed protocol objects and the transport hold

Every protocol `Config` builder hands its settings to the protocol object `Litep2p::new` constructs inside the event-loop
future (`NotificationProtocol::new`, `RequestResponseProtocol::new`, `Ping::new`, `Kademlia::new` → `MemoryStore::with_config`,
`QueryEngine::new`, `Identify::new`, `Bitswap::new`); the TCP transport keeps the user's `tcp::config::Config` with
`max_parallel_dials` overwritten by the top-level setting. The adapter prints what the CONSTRUCTED objects hold (guarded notes
at the start of each event loop; `TcpTransport::verif_config`). -/

/-- `MemoryStoreConfig` (`kademlia/store.rs`). -/
structure KadStore where
  maxRecords : Nat := Consts.NODE_KAD_MAX_RECORDS
  maxRecordSize : Nat := Consts.NODE_KAD_MAX_RECORD_SIZE
  maxProviderKeys : Nat := Consts.NODE_KAD_MAX_PROVIDER_KEYS
  maxProviderAddresses : Nat := Consts.NODE_KAD_MAX_PROVIDER_ADDRESSES
  maxProvidersPerKey : Nat := Consts.NODE_KAD_MAX_PROVIDERS_PER_KEY
  providerRefreshMs : Nat := 1000 * Consts.NODE_KAD_PROVIDER_REFRESH_SECS
  providerTtlMs : Nat := 1000 * Consts.NODE_KAD_PROVIDER_TTL_SECS
  deriving DecidableEq, Repr, Inhabited

/-- What `Kademlia` holds: `kademlia::ConfigBuilder::new()` … `build()` → `Config::new` → `Kademlia::new`. -/
structure KadHeld where
  replication : Nat := Consts.NODE_KAD_REPLICATION_FACTOR
  recordTtlMs : Nat := 1000 * Consts.NODE_KAD_DEFAULT_TTL_SECS
  updateAuto : Bool := true
  validationAuto : Bool := true
  store : KadStore := {}
  deriving DecidableEq, Repr, Inhabited

/-- One setter call. -/
def KadSet.apply (h : KadHeld) : KadSet → KadHeld
  | .replication n => { h with replication := n }
  | .recordTtl ms => { h with recordTtlMs := ms }
  | .updateMode a => { h with updateAuto := a }
  | .validationMode a => { h with validationAuto := a }
  | .maxRecords n => { h with store := { h.store with maxRecords := n } }
  | .maxRecordSize n => { h with store := { h.store with maxRecordSize := n } }
  | .maxProviderKeys n => { h with store := { h.store with maxProviderKeys := n } }
  | .maxProviderAddresses n => { h with store := { h.store with maxProviderAddresses := n } }
  | .maxProvidersPerKey n => { h with store := { h.store with maxProvidersPerKey := n } }
  | .providerRefresh ms => { h with store := { h.store with providerRefreshMs := ms } }
  | .providerTtl ms => { h with store := { h.store with providerTtlMs := ms } }

/-- `ConfigBuilder::new()`, the setters in call order, `build()` (which passes every field on unchanged). -/
def kadBuild (sets : List KadSet) : KadHeld := sets.foldl KadSet.apply {}

/-- What the TCP transport holds. -/
structure TcpHeld where
  maxParallelDials : Nat := Consts.NODE_MAX_PARALLEL_DIALS
  reusePort : Bool := true
  nodelay : Bool := false
  readAhead : Nat := Consts.NODE_NOISE_READ_AHEAD
  writeBuffer : Nat := Consts.NODE_NOISE_WRITE_BUFFER
  connectionOpenMs : Nat := 1000 * Consts.NODE_CONNECTION_OPEN_TIMEOUT_SECS
  substreamOpenMs : Nat := 1000 * Consts.NODE_SUBSTREAM_OPEN_TIMEOUT_SECS
  /-- `yamux::Config::default()` of the yamux crate allows 512 streams -/
  yamuxStreams : Nat := 512
  deriving DecidableEq, Repr, Inhabited

def TcpSet.apply (h : TcpHeld) : TcpSet → TcpHeld
  | .nodelay b => { h with nodelay := b }
  | .reusePort b => { h with reusePort := b }
  | .readAhead n => { h with readAhead := n }
  | .writeBuffer n => { h with writeBuffer := n }
  | .connectionOpen ms => { h with connectionOpenMs := ms }
  | .substreamOpen ms => { h with substreamOpenMs := ms }
  | .yamuxStreams n => { h with yamuxStreams := n }
  | .parallelDials n => { h with maxParallelDials := n }

/-- `Litep2p::new`: `config.max_parallel_dials = litep2p_config.max_parallel_dials`, then `TcpTransport::new`. -/
def tcpHeld (b : Built) : TcpHeld :=
  { b.tcpSets.foldl TcpSet.apply {} with maxParallelDials := b.maxParallelDials }

/-- `DEFAULT_AGENT` (`identify.rs`). -/
def defaultAgent : String := String.ofList (Consts.IDENTIFY_DEFAULT_AGENT.map Char.ofNat)

/-- What one constructed protocol object holds. -/
inductive Note where
  | notif (name : String) (sync async : Nat) (autoAccept dial : Bool) (handshake : String)
  | rr (name : String) (timeoutMs : Nat) (maxInbound : Option Nat)
  | ping (intervalMs maxFailures : Nat)
  | kad (h : KadHeld)
  | identify (version agent : String)
  | bitswap
  deriving DecidableEq, Repr, Inhabited

/-- The protocol objects constructed by `Litep2p::new`, in its order. -/
def notes (b : Built) : List Note :=
  b.notif.map (fun p => .notif p.name (p.sync.getD Consts.NODE_NOTIF_SYNC_CHANNEL_SIZE)
    (p.async.getD Consts.NODE_NOTIF_ASYNC_CHANNEL_SIZE) (p.mode == 'a') (p.dial.getD true) p.handshake) ++
  b.rr.map (fun p => .rr p.name p.timeoutMs p.maxInbound) ++
  (match b.ping with
   | some ms => [.ping (if ms = 1 then 1000 * Consts.NODE_PING_INTERVAL_SECS else ms)
                   (b.pingFailures.getD Consts.NODE_PING_MAX_FAILURES)]
   | none => []) ++
  b.kad.map (fun k => .kad (kadBuild k.sets)) ++
  (if b.identify then [.identify b.idVersion (b.idAgent.getD defaultAgent)] else []) ++
  (if b.bitswap then [.bitswap] else [])

/-! ## `ProtocolSet` (`src/protocol/protocol_set.rs`): what a connection answers for a negotiated name -/

/-- `ProtocolSet::new`: the `fallback_names` map (fallback name → main name). -/
def fallbackOwner (regs : List Registration) (n : String) : Option String :=
  (regs.find? (fun r => r.fallback.contains n)).map (·.name)

/-- `ProtocolSet::protocol_codec`: `protocols.get(fallback_names.get(name).unwrap_or(name)).expect(..).codec`
(`none` = the `expect` panics). -/
def protocolCodec (regs : List Registration) (n : String) : Option Codec :=
  (regs.find? (fun r => r.name = (fallbackOwner regs n).getD n)).map (·.codec)

/-- `ProtocolSet::new`: the `keep_alives` map (main names, then fallback names with their main protocol's setting). -/
def nameKeepAlive (regs : List Registration) (n : String) : Option Bool :=
  (regs.find? (fun r => r.name = (fallbackOwner regs n).getD n)).map (·.keepAlive)

end Litep2pVerif.Node
