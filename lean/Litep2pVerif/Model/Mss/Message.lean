import Litep2pVerif.Generated.Consts
/-!
# multistream-select messages (`src/multistream_select/protocol.rs`)

Executable, import-free model of `Message::{encode, decode}`, of the `unsigned-varint 0.8` encoder and
its `decode!` macro (instantiated for `u16` and `usize = u64`), and of
`webrtc_encode_multistream_message`. Bytes are natural numbers `< 256` in lists.
-/
namespace Litep2pVerif.Mss
open Litep2pVerif

abbrev Bytes := List Nat

instance instDecEqExcept {ε α : Type} [DecidableEq ε] [DecidableEq α] : DecidableEq (Except ε α)
  | .ok a, .ok b => if h : a = b then isTrue (by rw [h]) else isFalse (by intro h'; cases h'; exact h rfl)
  | .error a, .error b => if h : a = b then isTrue (by rw [h]) else isFalse (by intro h'; cases h'; exact h rfl)
  | .ok _, .error _ => isFalse (by intro h; cases h)
  | .error _, .ok _ => isFalse (by intro h; cases h)

/-- The loop of `unsigned_varint::encode::*` with explicit fuel (structural, so that it computes in
the kernel); `n` itself is always enough fuel. -/
def uviEncodeAux : Nat → Nat → Bytes
  | 0, n => [n]
  | fuel + 1, n => if n < 128 then [n] else (n % 128 + 128) :: uviEncodeAux fuel (n / 128)

/-- `unsigned_varint::encode::{u16,usize}` (identical for every width on values that fit). -/
def uviEncode (n : Nat) : Bytes := uviEncodeAux n n

inductive UviErr | insufficient | overflow | notMinimal
  deriving DecidableEq, Repr

/-- The `decode!` macro of `unsigned-varint 0.8`: `bits` is the width of the integer type,
`maxBytes` the macro's `$max_bytes` (`2` for `u16`, `9` for `u64`). `i` is the index of the byte
being looked at, `acc` the value accumulated so far (`n |= k << (i * 7)`, high bits silently lost). -/
def uviDecodeAux (bits maxBytes : Nat) : Nat → Nat → Bytes → Except UviErr (Nat × Bytes)
  | _, _, [] => .error .insufficient
  | i, acc, b :: rest =>
    if b < 128 then
      if b = 0 ∧ 0 < i then .error .notMinimal
      else .ok (acc + ((b % 128) * 2 ^ (7 * i)) % 2 ^ bits, rest)
    else if i = maxBytes then .error .overflow
    else uviDecodeAux bits maxBytes (i + 1) (acc + ((b % 128) * 2 ^ (7 * i)) % 2 ^ bits) rest

/-- `unsigned_varint::decode::u16`. -/
def uviDecodeU16 (bs : Bytes) : Except UviErr (Nat × Bytes) := uviDecodeAux 16 2 0 0 bs
/-- `unsigned_varint::decode::usize` on a 64-bit target. -/
def uviDecodeUsize (bs : Bytes) : Except UviErr (Nat × Bytes) := uviDecodeAux 64 9 0 0 bs

/-! The literal byte strings are extracted from `protocol.rs` into `Generated/Consts.lean` on every
run (`CONST_TABLE` of `checks/c03.py`); what the proofs need of them is re-checked by `decide`
(`Proofs/Mss/Message.lean`: `msgMultistream_eq`, …). -/

/-- `PROTO_MULTISTREAM_1_0 = b"/multistream/1.0.0"` -/
def protoMultistream : Bytes := Consts.MSS_PROTO_MULTISTREAM_1_0
/-- `MSG_MULTISTREAM_1_0 = b"/multistream/1.0.0\n"` -/
def msgMultistream : Bytes := Consts.MSS_MSG_MULTISTREAM_1_0
/-- `MSG_PROTOCOL_NA = b"na\n"` -/
def msgNa : Bytes := Consts.MSS_MSG_PROTOCOL_NA
/-- `MSG_LS = b"ls\n"` -/
def msgLs : Bytes := Consts.MSS_MSG_LS

/-- `Message` (there is one `HeaderLine`, `V1`). A `Protocol` is its byte string. -/
inductive Msg
  | header
  | protocol (name : Bytes)
  | listProtocols
  | protocols (names : List Bytes)
  | notAvailable
  deriving DecidableEq, Repr

/-- `ProtocolError` (I/O errors carry their `ErrorKind`). -/
inductive PErr
  | ioInvalidData
  | ioUnexpectedEof
  | ioWriteZero
  | invalidMessage
  | invalidProtocol
  | tooManyProtocols
  deriving DecidableEq, Repr

/-- Body of the `Message::Protocols` arm of `encode`, without the final `\n`. -/
def encodeNames : List Bytes → Bytes
  | [] => []
  | p :: ps => uviEncode (p.length + 1) ++ p ++ [10] ++ encodeNames ps

/-- `Message::encode` (it never fails). -/
def Msg.encode : Msg → Bytes
  | .header => msgMultistream
  | .protocol p => p ++ [10]
  | .listProtocols => msgLs
  | .protocols ps => encodeNames ps ++ [10]
  | .notAvailable => msgNa

/-- `Message::encoded_len`. -/
def Msg.encodedLen : Msg → Nat
  | .header => msgMultistream.length
  | .protocol p => p.length + 1
  | .listProtocols => msgLs.length
  | .notAvailable => msgNa.length
  | .protocols ps => ps.foldl (fun len p => len + (uviEncode (p.length + 1)).length + (p.length + 1)) 1

/-- `Protocol::try_from`: a name must start with `/`. -/
def protocolTryFrom (bs : Bytes) : Except PErr Bytes :=
  if bs.head? = some 47 then .ok bs else .error .invalidProtocol

/-- The `loop` of `Message::decode` parsing an `ls` response. `fuel` bounds the iterations
(every iteration consumes at least one byte; the caller passes `length + 1`). -/
def decodeLs : Nat → List Bytes → Bytes → Except PErr Msg
  | 0, _, _ => .error .invalidMessage
  | fuel + 1, acc, remaining =>
    if remaining = [10] then .ok (.protocols acc.reverse)
    else if acc.length = Consts.MSS_MAX_PROTOCOLS then .error .tooManyProtocols
    else
      match uviDecodeUsize remaining with
      | .error _ => .error .ioInvalidData
      | .ok (len, tail) =>
        if len = 0 ∨ len > tail.length ∨ tail[len - 1]? ≠ some 10 then .error .invalidMessage
        else
          match protocolTryFrom (tail.take (len - 1)) with
          | .error e => .error e
          | .ok p => decodeLs fuel (p :: acc) (tail.drop len)

/-- `Message::decode`. -/
def Msg.decode (msg : Bytes) : Except PErr Msg :=
  if msg = msgMultistream then .ok .header
  else if msg = msgNa then .ok .notAvailable
  else if msg = msgLs then .ok .listProtocols
  else if msg.head? = some 47 ∧ msg.getLast? = some 10 ∧ ¬ (10 ∈ msg.dropLast) then
    match protocolTryFrom msg.dropLast with
    | .error e => .error e
    | .ok p => .ok (.protocol p)
  else decodeLs (msg.length + 1) [] msg

/-- `MAX_FRAME_SIZE = (1 << (MAX_LEN_BYTES * 8 - MAX_LEN_BYTES)) - 1` (`length_delimited.rs`). -/
def maxFrameSize : Nat := 2 ^ (Consts.MSS_MAX_LEN_BYTES * 8 - Consts.MSS_MAX_LEN_BYTES) - Consts.MSS_MAX_FRAME_SIZE_MINUS

/-- `webrtc_encode_multistream_message`: `none` is `Err(InvalidData)` (frame too large). -/
def webrtcEncode (m : Msg) (prependHeader : Bool) : Option Bytes :=
  let msgLen := m.encodedLen
  let headerLen := msgMultistream.length
  let capacity :=
    if prependHeader then (uviEncode headerLen).length + headerLen + (uviEncode msgLen).length + msgLen
    else (uviEncode msgLen).length + msgLen
  if capacity > maxFrameSize then none
  else
    some ((if prependHeader then uviEncode headerLen ++ Msg.header.encode else []) ++
      uviEncode msgLen ++ m.encode)

end Litep2pVerif.Mss
