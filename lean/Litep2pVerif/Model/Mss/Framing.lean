import Litep2pVerif.Model.Mss.Message
/-!
# `LengthDelimited` (`src/multistream_select/length_delimited.rs`)

The frame reader (`Stream::poll_next`) and writer (`start_send`, `poll_write_buffer`, `poll_flush`,
`poll_close`, `LengthDelimitedReader::poll_write`) over a carrier that may stage written bytes until
its flush completes and that delivers arbitrary chunk sizes and `Poll::Pending`: every inner `poll_read` / `poll_write`
consumes one *choice* from a schedule — `0` is `Pending`, `k > 0` transfers at most `k` bytes (at
least one). Restricting what is available to the reader at a given moment (because the writer has
not written it yet) is the same as a smaller choice or a `Pending`, so quantifying over all
schedules covers all interleavings with the writing side.
-/
namespace Litep2pVerif.Mss
open Litep2pVerif

/-- The read half of the carrier: bytes still in flight; `eof` says what happens once they are
exhausted (`true`: `Ok(0)`, `false`: `Pending`). -/
structure RCarrier where
  data : Bytes
  eof : Bool
  deriving DecidableEq, Repr

inductive ReadRes
  | pending
  | ready (bs : Bytes)      -- `Ok(bs.len())`; `[]` is `Ok(0)`
  deriving DecidableEq, Repr

/-- Inner `poll_read` into a buffer of `cap` bytes under scheduling choice `ch`. -/
def pollRead (c : RCarrier) (cap ch : Nat) : RCarrier × ReadRes :=
  if cap = 0 then (c, .ready [])
  else if c.data = [] then (c, if c.eof then .ready [] else .pending)
  else if ch = 0 then (c, .pending)
  else
    let n := min ch (min cap c.data.length)
    ({ c with data := c.data.drop n }, .ready (c.data.take n))

/-- `ReadState` -/
inductive ReadState
  | readLength (buf : List Nat) (pos : Nat)
  | readData (len pos : Nat)
  deriving DecidableEq, Repr

/-- `ReadState::default()` -/
def ReadState.default : ReadState := .readLength (List.replicate Consts.MSS_MAX_LEN_BYTES 0) 0

/-- The reading half of `LengthDelimited`. -/
structure Reader where
  state : ReadState := ReadState.default
  readBuffer : Bytes := []
  deriving DecidableEq, Repr

/-- `io::ErrorKind` of the errors the framing layer produces. -/
inductive FrameErr | unexpectedEof | invalidData | writeZero
  deriving DecidableEq, Repr

/-- Result of `Stream::poll_next`. -/
inductive PollNext
  | pending
  | eof                      -- `Ready(None)`
  | frame (bs : Bytes)
  | err (e : FrameErr)
  | bug                      -- out-of-bounds slice: polled again after an error in `ReadLength`
  deriving DecidableEq, Repr

/-- `&mut read_buffer[pos..]` filled with `bs`. -/
def writeAt (rb : Bytes) (pos : Nat) (bs : Bytes) : Bytes :=
  rb.take pos ++ bs ++ rb.drop (pos + bs.length)

/-- `<LengthDelimited as Stream>::poll_next`: the `loop`, one scheduling choice per inner
`poll_read`. An exhausted schedule ends the observation (reported as `pending`). -/
def pollNext : Reader → RCarrier → List Nat → Reader × RCarrier × List Nat × PollNext
  | r, c, [] => (r, c, [], .pending)
  | r, c, ch :: sched =>
    match r.state with
    | .readLength buf pos =>
      if Consts.MSS_MAX_LEN_BYTES ≤ pos then (r, c, sched, .bug)
      else
        match pollRead c 1 ch with
        | (c', .pending) => (r, c', sched, .pending)
        | (c', .ready []) =>
          if pos = 0 then (r, c', sched, .eof) else (r, c', sched, .err .unexpectedEof)
        | (c', .ready (b :: _)) =>
          let buf' := buf.set pos b
          if b < 128 then
            match uviDecodeU16 buf' with
            | .error _ => ({ r with state := .readLength buf' (pos + 1) }, c', sched, .err .invalidData)
            | .ok (len, _) =>
              if 1 ≤ len then
                pollNext { state := .readData len 0, readBuffer := List.replicate len 0 } c' sched
              else ({ r with state := ReadState.default }, c', sched, .frame [])
          else if pos + 1 = Consts.MSS_MAX_LEN_BYTES then
            ({ r with state := .readLength buf' (pos + 1) }, c', sched, .err .invalidData)
          else pollNext { r with state := .readLength buf' (pos + 1) } c' sched
    | .readData len pos =>
      match pollRead c (r.readBuffer.length - pos) ch with
      | (c', .pending) => (r, c', sched, .pending)
      | (c', .ready []) => (r, c', sched, .err .unexpectedEof)
      | (c', .ready (b :: bs)) =>
        let rb := writeAt r.readBuffer pos (b :: bs)
        let pos' := pos + (b :: bs).length
        if pos' = len then ({ state := ReadState.default, readBuffer := [] }, c', sched, .frame rb)
        else pollNext { state := .readData len pos', readBuffer := rb } c' sched

/-- Poll for at most `n` frames, polling again after every `Pending` while the schedule lasts (this
is what the negotiation futures do: they stop reading after their last message). Returns every
`Ready` result in order. -/
def readN : Nat → Nat → Reader → RCarrier → List Nat → List PollNext × Reader × RCarrier × List Nat
  | 0, _, r, c, s => ([], r, c, s)
  | _ + 1, 0, r, c, s => ([], r, c, s)
  | n + 1, fuel + 1, r, c, s =>
    if s = [] then ([], r, c, s)
    else
      match pollNext r c s with
      | (r', c', s', .pending) => readN (n + 1) fuel r' c' s'
      | (r', c', s', .frame f) =>
        let (out, rr, cc, ss) := readN n fuel r' c' s'
        (.frame f :: out, rr, cc, ss)
      | (r', c', s', res) => ([res], r', c', s')

/-! ### Writer -/

/-- The writing half of `LengthDelimited`. -/
structure Writer where
  writeBuffer : Bytes := []
  deriving DecidableEq, Repr

/-- What `start_send` appends for one frame. -/
def frameBytes (item : Bytes) : Bytes := uviEncode item.length ++ item

/-- `Sink::start_send`. -/
def startSend (w : Writer) (item : Bytes) : Except FrameErr Writer :=
  if item.length < 2 ^ 16 ∧ item.length ≤ maxFrameSize then
    .ok { writeBuffer := w.writeBuffer ++ frameBytes item }
  else .error .invalidData

inductive WriteRes | pending | ready
  deriving DecidableEq, Repr

/-- `poll_write_buffer` onto a sink `out` (the bytes on the wire so far): one choice per inner
`poll_write`, which accepts between 1 and `choice` bytes, or is `Pending` for choice `0`. -/
def pollWriteBuffer : Writer → Bytes → List Nat → Writer × Bytes × List Nat × WriteRes
  | w, out, [] => (w, out, [], if w.writeBuffer = [] then .ready else .pending)
  | w, out, ch :: s =>
    if w.writeBuffer = [] then (w, out, ch :: s, .ready)
    else if ch = 0 then (w, out, s, .pending)
    else
      let n := min ch w.writeBuffer.length
      pollWriteBuffer { writeBuffer := w.writeBuffer.drop n } (out ++ w.writeBuffer.take n) s

/-! ### The write half of the carrier, with a staging buffer

A transport may *stage* what `poll_write` accepts (the encrypt buffer of a noise socket, a buffered
websocket stream) and put it on the wire only when its `poll_flush` completes. `wb = true` is such a
write-behind carrier; `wb = false` is the write-through carrier (accepted bytes are visible to the peer
at once). The inner `poll_flush` answers `Pending` or `Ready` as a schedule of answers decides. -/

/-- The write half of the carrier as the peer and the writer see it. -/
structure WCarrier where
  /-- write-behind: `poll_write` only stages -/
  wb : Bool := false
  /-- the bytes the peer can read (or has read) -/
  visible : Bytes := []
  /-- accepted by `poll_write`, not yet on the wire -/
  staged : Bytes := []
  closed : Bool := false
  deriving DecidableEq, Repr

/-- Inner `poll_write` accepted `bs`. -/
def WCarrier.accept (c : WCarrier) (bs : Bytes) : WCarrier :=
  if c.wb then { c with staged := c.staged ++ bs }
  else { c with visible := c.visible ++ c.staged ++ bs, staged := [] }

/-- The inner `poll_flush` returned `Ready(Ok(()))`: everything staged is on the wire. -/
def WCarrier.flushed (c : WCarrier) : WCarrier :=
  { c with visible := c.visible ++ c.staged, staged := [] }

/-- `LengthDelimited` (write half) over a carrier, together with the schedules that decide what the
carrier does next: `ws` — one choice per inner `poll_write` (`0`: `Pending`, `k`: accepts at most `k`
bytes, at least one); `fs` — one answer per inner `poll_flush` (`false`: `Pending`, after arranging a
wake-up; `true`: `Ready`). An exhausted schedule ends the observation (reported as `pending`). -/
structure SinkIo where
  w : Writer := {}
  c : WCarrier := {}
  ws : List Nat := []
  fs : List Bool := []
  deriving DecidableEq, Repr

/-- `poll_write_buffer` over the carrier: `while !write_buffer.is_empty() { inner.poll_write(..) }`. -/
def pollWriteBufferC : Writer → WCarrier → List Nat → Writer × WCarrier × List Nat × WriteRes
  | w, c, [] => (w, c, [], if w.writeBuffer = [] then .ready else .pending)
  | w, c, ch :: s =>
    if w.writeBuffer = [] then (w, c, ch :: s, .ready)
    else if ch = 0 then (w, c, s, .pending)
    else
      pollWriteBufferC { writeBuffer := w.writeBuffer.drop (min ch w.writeBuffer.length) }
        (c.accept (w.writeBuffer.take (min ch w.writeBuffer.length))) s

/-- `<LengthDelimited as Sink>::poll_flush`: write the buffered frames out (`Pending` if the carrier
does not take them all), THEN flush the underlying stream and return ITS answer — also when this
poll found the write buffer already empty: an earlier poll may have handed the frames over and got
`Pending` from the inner flush. -/
def sinkPollFlush (s : SinkIo) : SinkIo × WriteRes :=
  match pollWriteBufferC s.w s.c s.ws with
  | (w', c', ws', .pending) => ({ s with w := w', c := c', ws := ws' }, .pending)
  | (w', c', ws', .ready) =>
    match s.fs with
    | [] => ({ s with w := w', c := c', ws := ws' }, .pending)
    | true :: fs' => ({ w := w', c := c'.flushed, ws := ws', fs := fs' }, .ready)
    | false :: fs' => ({ w := w', c := c', ws := ws', fs := fs' }, .pending)

/-- A flush that is polled again after every `Pending` (what `FlushProtocol` / `Flush` of the
negotiation futures and `flush().await` of an application do), at most `fuel` polls. -/
def flushRun : Nat → SinkIo → SinkIo × WriteRes
  | 0, s => (s, .pending)
  | fuel + 1, s =>
    match sinkPollFlush s with
    | (s', .ready) => (s', .ready)
    | (s', .pending) => flushRun fuel s'

/-- `Sink::poll_ready`: only a write buffer of `MAX_FRAME_SIZE` bytes or more is written out first. -/
def sinkPollReady (s : SinkIo) : SinkIo × WriteRes :=
  if maxFrameSize ≤ s.w.writeBuffer.length then
    match pollWriteBufferC s.w s.c s.ws with
    | (w', c', ws', r) => ({ s with w := w', c := c', ws := ws' }, r)
  else (s, .ready)

/-- `Sink::poll_close`: write the buffered frames out, then close the underlying stream. Closing a
carrier that still stages bytes implies flushing them (one flush answer); otherwise it completes. -/
def sinkPollClose (s : SinkIo) : SinkIo × WriteRes :=
  match pollWriteBufferC s.w s.c s.ws with
  | (w', c', ws', .pending) => ({ s with w := w', c := c', ws := ws' }, .pending)
  | (w', c', ws', .ready) =>
    if c'.staged = [] then ({ s with w := w', c := { c' with closed := true }, ws := ws' }, .ready)
    else
      match s.fs with
      | [] => ({ s with w := w', c := c', ws := ws' }, .pending)
      | true :: fs' => ({ w := w', c := { c'.flushed with closed := true }, ws := ws', fs := fs' }, .ready)
      | false :: fs' => ({ w := w', c := c', ws := ws', fs := fs' }, .pending)

/-- `LengthDelimitedReader::poll_write` (the lazy dialer's application data): the frames still
buffered go out first, then ONE inner `poll_write` of the application's bytes. `some k`: `Ok(k)`. -/
def readerPollWrite (s : SinkIo) (buf : Bytes) : SinkIo × Option Nat :=
  match pollWriteBufferC s.w s.c s.ws with
  | (w', c', ws', .pending) => ({ s with w := w', c := c', ws := ws' }, none)
  | (w', c', ws', .ready) =>
    if buf = [] then ({ s with w := w', c := c', ws := ws' }, some 0)
    else
      match ws' with
      | [] => ({ s with w := w', c := c', ws := [] }, none)
      | ch :: rest =>
        if ch = 0 then ({ s with w := w', c := c', ws := rest }, none)
        else ({ s with w := w', c := c'.accept (buf.take (min ch buf.length)), ws := rest }, some (min ch buf.length))

/-- The byte stream of a sequence of frames. -/
def wire (fs : List Bytes) : Bytes := (fs.map frameBytes).flatten

/-- Specification-level parser (used by the executable composition in `Negotiate.lean`, justified by
`framing_transparent`): what `poll_next` eventually yields on a stream whose writer has finished. -/
inductive Parsed
  | eof
  | frame (f : Bytes) (rest : Bytes)
  | err (e : FrameErr)
  | incomplete                     -- needs more bytes and the stream is still open
  deriving DecidableEq, Repr

def parseFrame (data : Bytes) (closed : Bool) : Parsed :=
  match data with
  | [] => if closed then .eof else .incomplete
  | b0 :: t0 =>
    if b0 < 128 then
      if b0 = 0 then .frame [] t0
      else if b0 ≤ t0.length then .frame (t0.take b0) (t0.drop b0)
      else if closed then .err .unexpectedEof else .incomplete
    else
      match t0 with
      | [] => if closed then .err .unexpectedEof else .incomplete
      | b1 :: t1 =>
        if b1 < 128 then
          match uviDecodeU16 [b0, b1] with
          | .error _ => .err .invalidData
          | .ok (len, _) =>
            if len ≤ t1.length then .frame (t1.take len) (t1.drop len)
            else if closed then .err .unexpectedEof else .incomplete
        else .err .invalidData

end Litep2pVerif.Mss
