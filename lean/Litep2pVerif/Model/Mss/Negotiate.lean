import Litep2pVerif.Model.Mss.Framing
/-!
# `DialerSelectFuture`, `ListenerSelectFuture`, `Negotiated` (message level) and their composition

The two futures (and the `Expecting` state of `Negotiated`, which finishes the lazy dialer's
negotiation) as state machines over decoded messages: one step is one iteration of the `loop` in
`poll`. A state is either *internal* (the iteration needs nothing from the peer: `start_send` into
the write buffer, or a flush, which always completes eventually on the carrier of `Framing.lean`),
*reading* (the iteration is `poll_next`: it can run once a frame or the end of the stream is there),
or *halted* (the future has returned). `poll_ready` is a no-op in both futures: the write buffer
never holds `MAX_FRAME_SIZE` bytes when it is called (it is empty except for the 20-byte header).

The composition is a labelled transition system of two such processes and two FIFO channels.
-/
namespace Litep2pVerif.Mss
open Litep2pVerif

inductive Version | v1 | v1Lazy
  deriving DecidableEq, Repr

/-- `NegotiationError`; `panic` stands for a failed assertion in `into_inner`. -/
inductive NegErr
  | failed
  | protocolError (e : PErr)
  | panic
  deriving DecidableEq, Repr

/-- What `MessageIO::poll_next` yields when it is ready. -/
inductive Recv
  | msg (m : Msg)
  | eof
  | err (e : PErr)
  deriving DecidableEq, Repr

inductive Mode | internal | reading | halted
  deriving DecidableEq, Repr

/-- Effect of one step: the new state, the messages that reached the wire (a flush), and whether
the I/O object was dropped (the future returned an error). -/
structure Eff (σ : Type) where
  st : σ
  send : List Msg := []
  close : Bool := false

/-- `Sink::start_send` at message level: the encoded message must fit a frame. -/
def fitsFrame (m : Msg) : Bool := m.encode.length < 2 ^ 16 ∧ m.encode.length ≤ maxFrameSize

/-! ### Dialer -/

inductive DState
  | sendHeader
  | sendProtocol (p : Bytes) (headerReceived : Bool)
  | flushProtocol (p : Bytes) (headerReceived : Bool)
  | awaitProtocol (p : Bytes) (headerReceived : Bool)
  /-- The future has returned `Ok((p, Negotiated::expecting(..)))`; `header` is `Some(V1)`. -/
  | expecting (p : Bytes) (header : Bool)
  /-- `Negotiated::Completed`: the dialer reports `p`. -/
  | completed (p : Bytes)
  | failed (e : NegErr)
  deriving DecidableEq, Repr

structure Dialer where
  version : Version
  /-- The `Peekable` iterator: names not yet proposed. -/
  protocols : List Bytes
  state : DState := .sendHeader
  /-- Frames submitted with `start_send` and not yet written out. -/
  wbuf : List Msg := []
  deriving DecidableEq, Repr

def Dialer.init (v : Version) (ps : List Bytes) : Dialer := { version := v, protocols := ps }

def Dialer.mode (d : Dialer) : Mode :=
  match d.state with
  | .sendHeader | .sendProtocol _ _ | .flushProtocol _ _ => .internal
  | .awaitProtocol _ _ => .reading
  | .expecting _ _ => if d.wbuf = [] then .reading else .internal
  | .completed _ | .failed _ => .halted

def Dialer.fail (d : Dialer) (e : NegErr) : Eff Dialer :=
  { st := { d with state := .failed e }, close := true }

def Dialer.internal (d : Dialer) : Eff Dialer :=
  match d.state with
  | .sendHeader =>
    -- start_send(Header) succeeds; then `protocols.next().ok_or(Failed)?`
    match d.protocols with
    | [] => Dialer.fail { d with wbuf := d.wbuf ++ [Msg.header] } .failed
    | p :: ps => { st := { d with wbuf := d.wbuf ++ [.header], protocols := ps, state := .sendProtocol p false } }
  | .sendProtocol p hr =>
    match protocolTryFrom p with
    | .error e => d.fail (.protocolError e)
    | .ok _ =>
      if fitsFrame (.protocol p) = false then d.fail (.protocolError .ioInvalidData)
      else if d.protocols ≠ [] then
        { st := { d with wbuf := d.wbuf ++ [.protocol p], state := .flushProtocol p hr } }
      else
        match d.version with
        | .v1 => { st := { d with wbuf := d.wbuf ++ [.protocol p], state := .flushProtocol p hr } }
        | .v1Lazy => { st := { d with wbuf := d.wbuf ++ [.protocol p], state := .expecting p true } }
  | .flushProtocol p hr => { st := { d with wbuf := [], state := .awaitProtocol p hr }, send := d.wbuf }
  | .expecting _ _ => { st := { d with wbuf := [] }, send := d.wbuf }
  | _ => { st := d }

def Dialer.onRecv (d : Dialer) (r : Recv) : Eff Dialer :=
  match d.state with
  | .awaitProtocol p hr =>
    match r with
    | .err e => d.fail (.protocolError e)
    | .eof => d.fail .failed
    | .msg .header =>
      if hr = false then { st := { d with state := .awaitProtocol p true } }
      else d.fail (.protocolError .invalidMessage)
    | .msg (.protocol q) =>
      if q = p then
        -- `Negotiated::completed(io.into_inner())`: asserts that the write buffer is empty
        if d.wbuf = [] then { st := { d with state := .completed p } } else d.fail .panic
      else d.fail (.protocolError .invalidMessage)
    | .msg .notAvailable =>
      match d.protocols with
      | [] => d.fail .failed
      | q :: qs => { st := { d with protocols := qs, state := .sendProtocol q hr } }
    | .msg _ => d.fail (.protocolError .invalidMessage)
  | .expecting p h =>
    match r with
    | .err e => d.fail (.protocolError e)
    | .eof => d.fail (.protocolError .ioUnexpectedEof)
    | .msg .header =>
      if h then { st := { d with state := .expecting p false } }
      else d.fail (.protocolError .invalidMessage)
    | .msg (.protocol q) =>
      if q = p then
        if d.wbuf = [] then { st := { d with state := .completed p } } else d.fail .panic
      else d.fail .failed
    | .msg _ => d.fail .failed
  | _ => { st := d }

/-! ### Listener -/

inductive LState
  | recvHeader
  | sendHeader
  | recvMessage
  | sendMessage (m : Msg) (protocol : Option Bytes)
  | flush (protocol : Option Bytes)
  | done (p : Bytes)
  | failed (e : NegErr)
  deriving DecidableEq, Repr

structure Listener where
  protocols : List Bytes
  state : LState := .recvHeader
  lastSentNa : Bool := false
  wbuf : List Msg := []
  deriving DecidableEq, Repr

/-- `listener_select_proto`: invalid names are ignored. -/
def Listener.init (ls : List Bytes) : Listener :=
  { protocols := ls.filter (fun n => n.head? = some 47) }

def Listener.mode (l : Listener) : Mode :=
  match l.state with
  | .recvHeader | .recvMessage => .reading
  | .sendHeader | .sendMessage _ _ | .flush _ => .internal
  | .done _ | .failed _ => .halted

def Listener.fail (l : Listener) (e : NegErr) : Eff Listener :=
  { st := { l with state := .failed e }, close := true }

def Listener.internal (l : Listener) : Eff Listener :=
  match l.state with
  | .sendHeader => { st := { l with wbuf := l.wbuf ++ [.header], state := .flush none } }
  | .sendMessage m prot =>
    let l' : Listener := { l with lastSentNa := decide (m = Msg.notAvailable) }
    if fitsFrame m = false then l'.fail (.protocolError .ioInvalidData)
    else { st := { l' with wbuf := l.wbuf ++ [m], state := .flush prot } }
  | .flush prot =>
    match prot with
    | some p => { st := { l with wbuf := [], state := .done p }, send := l.wbuf }
    | none => { st := { l with wbuf := [], state := .recvMessage }, send := l.wbuf }
  | _ => { st := l }

def Listener.onRecv (l : Listener) (r : Recv) : Eff Listener :=
  match l.state with
  | .recvHeader =>
    match r with
    | .msg .header => { st := { l with state := .sendHeader } }
    | .msg _ => l.fail (.protocolError .invalidMessage)
    | .err e => l.fail (.protocolError e)
    | .eof => l.fail .failed
  | .recvMessage =>
    match r with
    | .eof => l.fail .failed
    | .err e =>
      if l.lastSentNa ∧ (e = .invalidMessage ∨ e = .ioUnexpectedEof) then l.fail .failed
      else l.fail (.protocolError e)
    | .msg .listProtocols => { st := { l with state := .sendMessage (.protocols l.protocols) none } }
    | .msg (.protocol p) =>
      if p ∈ l.protocols then { st := { l with state := .sendMessage (.protocol p) (some p) } }
      else { st := { l with state := .sendMessage .notAvailable none } }
    | .msg _ => l.fail (.protocolError .invalidMessage)
  | _ => { st := l }

/-! ### Composition: two processes, two FIFO channels -/

/-- What travels on a channel at message level: a negotiation message, or a frame of application
data that does not decode as one (`bad e`: what the reader gets for it). -/
inductive Item
  | msg (m : Msg)
  | bad (e : PErr)
  deriving DecidableEq, Repr

def Item.toRecv : Item → Recv
  | .msg m => .msg m
  | .bad e => .err e

structure Chan where
  q : List Item := []
  /-- The writing side has dropped the I/O object. -/
  closed : Bool := false
  deriving DecidableEq, Repr

def Chan.push (c : Chan) (items : List Item) (close : Bool) : Chan :=
  { q := c.q ++ items, closed := c.closed || close }

/-- A process: mode, internal step, step on input. Steps yield (state, items sent, dropped). -/
structure Proc (σ : Type) where
  mode : σ → Mode
  internal : σ → σ × List Item × Bool
  onRecv : σ → Recv → σ × List Item × Bool

structure Sys (σ τ : Type) where
  a : σ
  b : τ
  ab : Chan := {}
  ba : Chan := {}

/-- One step of a process with state `x`, reading `inp`, writing `out`. -/
def procStep {σ : Type} (P : Proc σ) (x : σ) (inp out : Chan) : Option (σ × Chan × Chan) :=
  match P.mode x with
  | .halted => none
  | .internal =>
    let r := P.internal x
    some (r.1, inp, out.push r.2.1 r.2.2)
  | .reading =>
    match inp.q with
    | i :: rest =>
      let r := P.onRecv x i.toRecv
      some (r.1, { inp with q := rest }, out.push r.2.1 r.2.2)
    | [] =>
      if inp.closed then
        let r := P.onRecv x .eof
        some (r.1, inp, out.push r.2.1 r.2.2)
      else none

def stepA {σ τ : Type} (P : Proc σ) (s : Sys σ τ) : Option (Sys σ τ) :=
  (procStep P s.a s.ba s.ab).map fun r => { s with a := r.1, ba := r.2.1, ab := r.2.2 }

def stepB {σ τ : Type} (Q : Proc τ) (s : Sys σ τ) : Option (Sys σ τ) :=
  (procStep Q s.b s.ab s.ba).map fun r => { s with b := r.1, ab := r.2.1, ba := r.2.2 }

/-- The transition relation: either process moves. -/
def Step {σ τ : Type} (P : Proc σ) (Q : Proc τ) (s t : Sys σ τ) : Prop :=
  stepA P s = some t ∨ stepB Q s = some t

/-- No transition is enabled. -/
def Final {σ τ : Type} (P : Proc σ) (Q : Proc τ) (s : Sys σ τ) : Prop :=
  stepA P s = none ∧ stepB Q s = none

/-- Executions: `Exec P Q s n t` — `t` is reached from `s` in exactly `n` transitions. -/
inductive Exec {σ τ : Type} (P : Proc σ) (Q : Proc τ) : Sys σ τ → Nat → Sys σ τ → Prop
  | refl (s) : Exec P Q s 0 s
  | step {s t u n} : Step P Q s t → Exec P Q t n u → Exec P Q s (n + 1) u

/-- The dialer as a process. `junk`: what the application of a *lazy* dialer writes right behind
the negotiation messages — `some e`: a frame that is not a negotiation message (the reader gets
error `e`), `none`: nothing before the negotiation has completed. -/
def dialerProc (junk : Option PErr) : Proc Dialer where
  mode := Dialer.mode
  internal d :=
    let e := d.internal
    let extra : List Item :=
      match d.state, junk with
      | .expecting _ _, some err => [.bad err]
      | _, _ => []
    (e.st, e.send.map .msg ++ extra, e.close)
  onRecv d r := let e := d.onRecv r; (e.st, e.send.map .msg, e.close)

def listenerProc : Proc Listener where
  mode := Listener.mode
  internal l := let e := l.internal; (e.st, e.send.map .msg, e.close)
  onRecv l r := let e := l.onRecv r; (e.st, e.send.map .msg, e.close)

/-- The composed system at the start of a negotiation. -/
def negInit (v : Version) (ps ls : List Bytes) : Sys Dialer Listener :=
  { a := Dialer.init v ps, b := Listener.init ls }

/-- The dialer's most preferred name that the listener supports. -/
def firstCommon (ps ls : List Bytes) : Option Bytes := ps.find? (fun p => p ∈ ls)

/-- Deterministic scheduler (dialer first), used to *compute* an execution. -/
def runSys {σ τ : Type} (P : Proc σ) (Q : Proc τ) : Nat → Sys σ τ → Sys σ τ
  | 0, s => s
  | fuel + 1, s =>
    match stepA P s with
    | some t => runSys P Q fuel t
    | none =>
      match stepB Q s with
      | some t => runSys P Q fuel t
      | none => s

end Litep2pVerif.Mss
