import Litep2pVerif.Model.Mss.Negotiate
/-!
# Message-based negotiation (`WebRtcDialerState`, `webrtc_listener_negotiate`) and the
fallback → main mapping of `ProtocolSet::report_substream_open`

Pure functions of the payload bytes, mirrored one to one; `wPair` composes them the way
`transport/webrtc/connection.rs` does (`on_inbound_opening_channel_data`,
`on_outbound_opening_channel_data`).
-/
namespace Litep2pVerif.Mss
open Litep2pVerif

/-- The errors these functions return. -/
inductive WErr
  | invalidData        -- `Error::InvalidData`
  | parse              -- `NegotiationError::ParseError(InvalidData)`
  | failed             -- `MultistreamSelectError(Failed)`
  | invalidMessage     -- `MultistreamSelectError(ProtocolError(InvalidMessage))`
  | stateMismatch      -- `NegotiationError::StateMismatch`
  deriving DecidableEq, Repr

inductive HandshakeState | waitingResponse | waitingProtocol
  deriving DecidableEq, Repr

/-- `WebRtcDialerState`; `fallbackNames` is stored reversed, the next one to try is the last. -/
structure WDialer where
  protocol : Bytes
  fallbackNames : List Bytes
  state : HandshakeState
  deriving DecidableEq, Repr

inductive HandshakeResult
  | notReady
  | succeeded (p : Bytes)
  | rejected
  deriving DecidableEq, Repr

/-- `WebRtcDialerState::propose` -/
def wPropose (protocol : Bytes) (fallbacks : List Bytes) : Except WErr (WDialer × Bytes) :=
  match protocolTryFrom protocol with
  | .error _ => .error .invalidData
  | .ok p =>
    match webrtcEncode (.protocol p) true with
    | none => .error .invalidData
    | some m => .ok ({ protocol, fallbackNames := fallbacks.reverse, state := .waitingResponse }, m)

/-- `WebRtcDialerState::propose_next_fallback` (the state is updated before the encoding can fail). -/
def wProposeNext (d : WDialer) : WDialer × Except WErr (Option Bytes) :=
  match d.fallbackNames.getLast? with
  | none => (d, .ok none)
  | some next =>
    let d' := { d with fallbackNames := d.fallbackNames.dropLast, protocol := next }
    match protocolTryFrom next with
    | .error _ => (d', .error .invalidData)
    | .ok p =>
      match webrtcEncode (.protocol p) false with
      | none => (d', .error .invalidData)
      | some m => (d', .ok (some m))

/-- The `while !remaining.is_empty()` loop of `register_response` (every iteration consumes at least
the length prefix; `fuel` = `payload.length + 1`). -/
def wRegisterLoop : Nat → WDialer → Bytes → WDialer × Except WErr HandshakeResult
  | 0, d, _ => (d, .error .stateMismatch)
  | fuel + 1, d, remaining =>
    if remaining = [] then
      (d, match d.state with
          | .waitingProtocol => .ok .notReady
          | .waitingResponse => .error .stateMismatch)
    else
      match uviDecodeUsize remaining with
      | .error _ => (d, .error .parse)
      | .ok (len, tail) =>
        if len > tail.length then (d, .error .parse)
        else
          match d.state, Msg.decode (tail.take len) with
          | .waitingResponse, .ok .header =>
            wRegisterLoop fuel { d with state := .waitingProtocol } (tail.drop len)
          | .waitingResponse, .ok _ => (d, .error .failed)
          | .waitingProtocol, .ok .notAvailable => (d, .ok .rejected)
          | .waitingProtocol, .ok (.protocol p) =>
            if p = protoMultistream then (d, .error .stateMismatch)
            else if d.protocol = p then (d, .ok (.succeeded d.protocol))
            else (d, .error .failed)
          | .waitingProtocol, .ok .listProtocols => (d, .error .invalidMessage)
          | _, _ => (d, .error .stateMismatch)

/-- `WebRtcDialerState::register_response` -/
def wRegister (d : WDialer) (payload : Bytes) : WDialer × Except WErr HandshakeResult :=
  wRegisterLoop (payload.length + 1) d payload

/-- `decode_multistream_message` -/
def decodeMultistreamMessage (data : Bytes) : Except WErr (Msg × Bytes) :=
  match uviDecodeUsize data with
  | .error _ => .error .parse
  | .ok (len, tail) =>
    if len > tail.length then .error .parse
    else
      match Msg.decode (tail.take len) with
      | .error _ => .error .parse
      | .ok m => .ok (m, tail.drop len)

/-- `ListenerSelectResult` -/
inductive LResult
  | accepted (protocol : Bytes) (message : Bytes)
  | rejected (message : Bytes)
  | pendingProtocol (message : Bytes)
  deriving DecidableEq, Repr

/-- The tail of `webrtc_listener_negotiate` once the proposed protocol is known. -/
def wListenFinish (supported : List Bytes) (protocol : Bytes) (headerInThisPayload : Bool) (rest : Bytes) :
    Except WErr LResult :=
  if rest ≠ [] then .error .parse
  else if protocol ∈ supported then
    match webrtcEncode (.protocol protocol) headerInThisPayload with
    | none => .error .invalidData
    | some m => .ok (.accepted protocol m)
  else
    match webrtcEncode .notAvailable headerInThisPayload with
    | none => .error .invalidData
    | some m => .ok (.rejected m)

/-- `webrtc_listener_negotiate` -/
def wListen (supported : List Bytes) (payload : Bytes) (headerReceived : Bool) : Except WErr LResult :=
  match decodeMultistreamMessage payload with
  | .error e => .error e
  | .ok (first, rest) =>
    match first with
    | .header =>
      if headerReceived then .error .failed
      else if rest = [] then .ok (.pendingProtocol payload)
      else
        match decodeMultistreamMessage rest with
        | .error e => .error e
        | .ok (.protocol p, rest') => wListenFinish supported p true rest'
        | .ok _ => .error .parse
    | .protocol p =>
      if headerReceived then wListenFinish supported p false rest else .error .failed
    | _ => .error .failed

/-! ### The pair, driven as in `transport/webrtc/connection.rs` -/

/-- Outcome on the dialer side. -/
inductive WDOutcome
  | succeeded (p : Bytes)
  | failed                   -- all proposals rejected (`NegotiationError::Failed`)
  | error (e : WErr)
  | notReady                 -- no more payloads in flight and no decision
  | none                     -- the listener closed the channel with an error
  deriving DecidableEq, Repr

structure WPairResult where
  d : WDOutcome
  /-- `some (ok p)`: the listener opened a substream for `p`; `some (error e)`: it closed the channel. -/
  l : Option (Except WErr Bytes)
  deriving DecidableEq, Repr

/-- Length of the encoded header frame (`uvi(19) ++ "/multistream/1.0.0\n"`). -/
def headerFrameLen : Nat := 1 + msgMultistream.length

/-- Feed the response parts to the dialer; `inl out` = decided, `inr (d, queue)` = go on. -/
def wFeed (lres : Option (Except WErr Bytes)) :
    List Bytes → WDialer → List Bytes → Sum WPairResult (WDialer × List Bytes)
  | [], d, q => .inr (d, q)
  | part :: parts, d, q =>
    match wRegister d part with
    | (d', .ok .notReady) => wFeed lres parts d' q
    | (_, .ok (.succeeded p)) => .inl ⟨.succeeded p, lres⟩
    | (d', .ok .rejected) =>
      match wProposeNext d' with
      | (d'', .ok (some m)) => wFeed lres parts d'' (q ++ [m])
      | (_, .ok none) => .inl ⟨.failed, lres⟩
      | (_, .error e) => .inl ⟨.error e, lres⟩
    | (_, .error e) => .inl ⟨.error e, lres⟩

/-- The listener/dialer ping-pong over discrete payloads. `split` bit `round` says whether the
listener's two-message response of that round travels as two payloads. -/
def wPairLoop (sup : List Bytes) (split : Nat) :
    Nat → Nat → WDialer → List Bytes → Bool → WPairResult
  | 0, _, _, _, _ => ⟨.notReady, none⟩
  | _ + 1, _, _, [], _ => ⟨.notReady, none⟩
  | fuel + 1, round, d, payload :: q, hr =>
    let round := round + 1
    match wListen sup payload hr with
    | .error e => ⟨.none, some (.error e)⟩
    | .ok r =>
      let (message, two, hr', lres) : Bytes × Bool × Bool × Option (Except WErr Bytes) :=
        match r with
        | .accepted p m => (m, !hr, hr, some (.ok p))
        | .rejected m => (m, !hr, true, none)
        | .pendingProtocol m => (m, false, true, none)
      let parts :=
        if two ∧ message.length > headerFrameLen ∧ round < 64 ∧ (split >>> round) % 2 = 1 then
          [message.take headerFrameLen, message.drop headerFrameLen]
        else [message]
      match wFeed lres parts d q with
      | .inl out => out
      | .inr (d', q') =>
        if lres.isSome then ⟨.notReady, lres⟩ else wPairLoop sup split fuel round d' q' hr'

/-- `split` bit 0: the dialer's first payload (header + proposal) travels as two payloads. -/
def wPair (main : Bytes) (fallbacks sup : List Bytes) (split : Nat) : WPairResult :=
  match wPropose main fallbacks with
  | .error e => ⟨.error e, none⟩
  | .ok (d, first) =>
    let q := if split % 2 = 1 then [first.take headerFrameLen, first.drop headerFrameLen] else [first]
    wPairLoop sup split (2 * fallbacks.length + 6) 0 d q false

/-! ### `report_substream_open`: fallback → main -/

/-- `let (protocol, fallback) = match self.fallback_names.get(&protocol) { Some(main) => (main, Some(protocol)),
None => (protocol, None) }`, then the lookup in `self.protocols`. `fallbackNames` is the map built in
`ProtocolSet::new` (association list, first binding wins like a map with unique keys). -/
def reportSubstreamOpen (protocols : List Bytes) (fallbackNames : List (Bytes × Bytes)) (negotiated : Bytes) :
    Option (Bytes × Option Bytes) :=
  let (protocol, fallback) :=
    match fallbackNames.lookup negotiated with
    | some main => (main, some negotiated)
    | none => (negotiated, none)
  if protocol ∈ protocols then some (protocol, fallback) else none

/-- The `fallback → main` map of `ProtocolSet::new`, from the installed protocols
`(main, context.fallback_names)`: `protocols.iter().flat_map(|(protocol, context)|
context.fallback_names.iter().map(|fallback| (fallback.clone(), protocol.clone())))`. (The code
collects into a `HashMap`; when a fallback name belongs to two protocols the iteration order of the
outer map decides, which this list does not model: see `Unambiguous`.) -/
def buildFallbackNames (installed : List (Bytes × List Bytes)) : List (Bytes × Bytes) :=
  installed.flatMap fun e => e.2.map fun f => (f, e.1)

/-- `ProtocolSet::new` followed by `report_substream_open`. -/
def reportInstalled (installed : List (Bytes × List Bytes)) (negotiated : Bytes) : Option (Bytes × Option Bytes) :=
  reportSubstreamOpen (installed.map (·.1)) (buildFallbackNames installed) negotiated

/-- The names a connection offers to a remote dialer (`protocols_with_keep_alives().keys()`): main
and fallback names, without repetition. -/
def offeredNames (installed : List (Bytes × List Bytes)) : List Bytes :=
  (installed.map (·.1) ++ (buildFallbackNames installed).map (·.1)).eraseDups

/-- The installed protocols are the keys of a map (distinct), and no fallback name belongs to two
of them (otherwise hash-map iteration order decides which protocol gets the substream). -/
def unambiguousB : List (Bytes × List Bytes) → Bool
  | [] => true
  | e :: rest => rest.all (fun o => e.1 != o.1 && !(e.2.any (fun f => o.2.contains f))) && unambiguousB rest

end Litep2pVerif.Mss
