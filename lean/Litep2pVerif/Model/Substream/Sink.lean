import Litep2pVerif.Model.Substream.Codec
/-!
# Model of `impl Sink<Bytes> for Substream` and `Substream::send_framed`

Real fields: `pending_out_frames` (`frames`), `pending_out_frame` (`frame`), `pending_out_bytes`
(`bytes`). The carrier is an abstract flow-controlled pipe: each inner `poll_write(buf)` accepts
between 1 and `buf.len()` bytes (0 for an empty buffer), returns `Pending`, or fails; the inner
`poll_flush` is `Ready`, `Pending` or fails. The results of the inner polls are inputs (`WrEv`,
`FlEv`), one per call, so every flow-control behaviour is a script; a script that runs out means
`Pending`.
-/
namespace Litep2pVerif.Substream

/-- `BACKPRESSURE_BOUNDARY` -/
def BACKPRESSURE_BOUNDARY : Nat := Consts.BACKPRESSURE_BOUNDARY

structure WState where
  /-- `pending_out_frames` -/
  frames : List Bytes
  /-- `pending_out_frame` -/
  frame : Option Bytes
  /-- `pending_out_bytes` -/
  bytes : Nat
deriving Repr, DecidableEq

def WState.init : WState := ⟨[], none, 0⟩

/-- Result of one inner `poll_write(buf)`: `accept k` = `Ready(Ok(min (k+1) buf.len()))`. -/
inductive WrEv
  | accept (k : Nat)
  | pending
  | err
deriving Repr, DecidableEq

/-- Result of the inner `poll_flush`. -/
inductive FlEv
  | ready
  | pending
  | err
deriving Repr, DecidableEq

/-- `Poll<Result<(), SubstreamError>>` -/
inductive POut
  | ready
  | pending
  | err
deriving Repr, DecidableEq

def FlEv.toPOut : FlEv → POut
  | .ready => .ready
  | .pending => .pending
  | .err => .err

/-- All bytes queued in the sink, in order. -/
def queued (st : WState) : Bytes :=
  (match st.frame with | some f => f | none => []) ++ st.frames.flatten

/-- `pending_out_frame.take()` or else `pending_out_frames.pop_front()`: the frame in hand and the
remaining queue. -/
def takeFrame (st : WState) : Option (Bytes × List Bytes) :=
  match st.frame, st.frames with
  | some f, fs => some (f, fs)
  | none, f :: fs => some (f, fs)
  | none, [] => none

/-- `Sink::poll_flush`. Returns the result, the new state and the bytes handed to the carrier.

    loop {
        let mut pending_frame = match self.pending_out_frame.take() { Some(f) => f,
            None => match self.pending_out_frames.pop_front() { Some(f) => f, None => break } };
        match poll_write!(.., &pending_frame) {
            Ready(Err(e)) => return Ready(Err(e)),
            Pending => { self.pending_out_frame = Some(pending_frame); return Pending }
            Ready(Ok(n)) => { pending_frame.advance(n);
                self.pending_out_bytes = self.pending_out_bytes.saturating_sub(n);
                if !pending_frame.is_empty() { self.pending_out_frame = Some(pending_frame) } }
        }
    }
    poll_flush!(..)
-/
def pollFlush : List WrEv → WState → FlEv → POut × WState × Bytes
  | [], st, fl =>
    match takeFrame st with
    | none => (fl.toPOut, st, [])
    -- script exhausted: the next inner write is `Pending`
    | some (f, fs) => (.pending, ⟨fs, some f, st.bytes⟩, [])
  | ev :: evs, st, fl =>
    match takeFrame st with
    | none => (fl.toPOut, st, [])
    | some (f, fs) =>
      match ev with
      | .err => (.err, ⟨fs, none, st.bytes⟩, [])
      | .pending => (.pending, ⟨fs, some f, st.bytes⟩, [])
      | .accept k =>
        match pollFlush evs
            ⟨fs, if f.length ≤ min (k + 1) f.length then none else some (f.drop (min (k + 1) f.length)),
              st.bytes - min (k + 1) f.length⟩ fl with
        | (o, st'', out) => (o, st'', f.take (min (k + 1) f.length) ++ out)

/-- `Sink::poll_ready`: flush first when `pending_out_bytes >= BACKPRESSURE_BOUNDARY`. -/
def pollReady (st : WState) (evs : List WrEv) (fl : FlEv) : POut × WState × Bytes :=
  if BACKPRESSURE_BOUNDARY ≤ st.bytes then pollFlush evs st fl else (.ready, st, [])

inductive SendRes | ok | refused
deriving Repr, DecidableEq

/-- `Sink::start_send`. `refused` = `Err(IoError(PermissionDenied))`. -/
def startSend (codec : Codec) (st : WState) (item : Bytes) : SendRes × WState :=
  match codec with
  | .identity n =>
    if item.length ≠ n then (.refused, st)
    else (.ok, { st with bytes := st.bytes + item.length, frames := st.frames ++ [item] })
  | .varint max =>
    if overMax max item.length then (.refused, st)
    else
      let len := encodeUsize item.length
      (.ok, { st with bytes := st.bytes + (len.length + item.length), frames := st.frames ++ [len, item] })

/-! ## `send_framed` -/

/-- The buffers `send_framed` passes to `write_all`, or `none` when it refuses the message
(`send_identity_payload` / `send_unsigned_varint_payload`). -/
def framedBufs (codec : Codec) (item : Bytes) : Option (List Bytes) :=
  match codec with
  | .identity n => if item.length ≠ n then none else some [item]
  | .varint max => if overMax max item.length then none else some [encodeUsize item.length, item]

inductive WaOut | done | blocked | failed
deriving Repr, DecidableEq

/-- `write_all` on an empty buffer returns at once, without an inner poll. -/
def dropEmpty : List Bytes → List Bytes
  | [] :: r => dropEmpty r
  | r => r

/-- `write_all` over the buffers in turn: `while !buf.is_empty() { n = ready!(poll_write(buf))?; buf = &buf[n..] }`.
A `Pending` means the future is polled again later, i.e. the next event is consumed. Returns the
outcome, the bytes handed to the carrier, the buffers not yet written and the unused events. -/
def writeAlls : List WrEv → List Bytes → WaOut × Bytes × List Bytes × List WrEv
  | [], bufs =>
    match dropEmpty bufs with
    | [] => (.done, [], [], [])
    | rest => (.blocked, [], rest, [])
  | ev :: evs, bufs =>
    match dropEmpty bufs with
    | [] => (.done, [], [], ev :: evs)
    | buf :: rest =>
      match ev with
      | .pending => writeAlls evs (buf :: rest)
      | .err => (.failed, [], buf :: rest, evs)
      | .accept k =>
        match writeAlls evs (buf.drop (min (k + 1) buf.length) :: rest) with
        | (o, w, r, e) => (o, buf.take (min (k + 1) buf.length) ++ w, r, e)

inductive SfOut | ok | refused | err | inProgress
deriving Repr, DecidableEq

/-- `io.flush().await` -/
def flushAll : List FlEv → SfOut
  | [] => .inProgress
  | .pending :: r => flushAll r
  | .ready :: _ => .ok
  | .err :: _ => .err

/-- `send_framed`: outcome and the bytes handed to the carrier. -/
def sendFramed (codec : Codec) (item : Bytes) (evs : List WrEv) (fls : List FlEv) : SfOut × Bytes :=
  match framedBufs codec item with
  | none => (.refused, [])
  | some bufs =>
    match writeAlls evs bufs with
    | (.done, w, _, _) => (flushAll fls, w)
    | (.blocked, w, _, _) => (.inProgress, w)
    | (.failed, w, _, _) => (.err, w)

/-! ## histories of sink operations -/

/-- One use of the sink: `poll_ready` followed (if ready) by `start_send`, or `poll_flush`; each
with the script of inner poll results it meets. -/
inductive SinkOp
  | send (item : Bytes) (evs : List WrEv) (fl : FlEv)
  | flush (evs : List WrEv) (fl : FlEv)
deriving Repr, DecidableEq

structure SinkRun where
  st : WState
  /-- every byte handed to the carrier so far -/
  wire : Bytes
  /-- messages `start_send` accepted -/
  accepted : List Bytes
  /-- result of the last operation -/
  last : POut
deriving Repr, DecidableEq

def SinkRun.init : SinkRun := ⟨WState.init, [], [], .ready⟩

def sinkStep (codec : Codec) (r : SinkRun) : SinkOp → SinkRun
  | .send item evs fl =>
    match pollReady r.st evs fl with
    | (.ready, st', out) =>
      match startSend codec st' item with
      | (.ok, st'') => ⟨st'', r.wire ++ out, r.accepted ++ [item], .ready⟩
      | (.refused, st'') => ⟨st'', r.wire ++ out, r.accepted, .err⟩
    | (o, st', out) => ⟨st', r.wire ++ out, r.accepted, o⟩
  | .flush evs fl =>
    match pollFlush evs r.st fl with
    | (o, st', out) => ⟨st', r.wire ++ out, r.accepted, o⟩

def sinkRun (codec : Codec) (ops : List SinkOp) : SinkRun :=
  ops.foldl (sinkStep codec) SinkRun.init

end Litep2pVerif.Substream
