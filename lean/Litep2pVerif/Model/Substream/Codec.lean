import Litep2pVerif.Generated.Consts
/-!
# Model of `impl Stream for Substream` (`src/substream/mod.rs`): the incremental frame reader

Operational copy of `poll_next` for `ProtocolCodec::Identity(n)` and
`ProtocolCodec::UnsignedVarint(max)`, of `read_payload_size`, and of the `unsigned-varint`
encode/decode loops it calls. Import-free apart from the generated constants.

State components are the real fields: `read_buffer` (its length `rbLen` and the bytes written into
`read_buffer[..offset]`, `rbData`), `offset`, `current_frame_size` (`cur`) and `size_vec`
(`svData` = `size_vec[..offset]` while a length prefix is being read). `pending_frames` is never
pushed to by the code and is therefore always empty; it is omitted.

Every slice expression that can panic in Rust is a checked operation (`readCap`) returning an
explicit panic value, and so is the `debug_assert_eq!` in the length-prefix branch (the harness is
built with debug assertions, like the test suite).

The carrier under the substream is abstract: each inner `poll_read` returns `Pending`, an error, or
between 0 and `cap` bytes (`0` = end of stream), where `cap` is the length of the slice handed to it.
-/
namespace Litep2pVerif.Substream

abbrev Bytes := List Nat

/-- `ProtocolCodec` (without `Unspecified`, for which `poll_next` panics by contract). -/
inductive Codec
  | identity (n : Nat)
  | varint (max : Option Nat)
deriving Repr, DecidableEq

/-- `unsigned_varint::encode::usize_buffer().len()` on a 64-bit target (`U64_LEN`). -/
def USIZE_LEN : Nat := 10
/-- `max_bytes` of `decode!(buf, 9, u64)`. -/
def U64_MAX_BYTES : Nat := 9
/-- Length of `size_vec` (`BytesMut::zeroed(10)` in `Substream::new`). -/
def SIZE_VEC_LEN : Nat := Consts.SUBSTREAM_SIZE_VEC_LEN
/-- Length of the initial `read_buffer` for codecs other than `Identity`. -/
def INITIAL_READ_BUFFER : Nat := Consts.SUBSTREAM_INITIAL_READ_BUFFER

/-! ## unsigned-varint -/

/-- `decode::is_last(b)`: `b & 0x80 == 0` (bytes are `< 256`). -/
def isLast (b : Nat) : Bool := b < 128

/-- `encode!`: `for b in buf.iter_mut() { *b = n as u8 | 0x80; n >>= 7; if n == 0 { *b &= 0x7f; break } }`
over a buffer of `fuel` bytes. -/
def encodeLoop : Nat → Nat → Bytes
  | 0, _ => []
  | fuel + 1, n =>
    if n / 128 = 0 then [n % 128] else (n % 128 + 128) :: encodeLoop fuel (n / 128)

/-- `unsigned_varint::encode::usize(v, &mut usize_buffer())`. -/
def encodeUsize (v : Nat) : Bytes := encodeLoop USIZE_LEN v

inductive DecErr | insufficient | overflow | notMinimal
deriving Repr, DecidableEq

/-- `decode!(buf, 9, u64)`: `n |= k << (i*7)` in `u64` arithmetic (the shifted groups occupy disjoint
bit ranges, so `|` is `+`; bits shifted beyond bit 63 are lost, i.e. the sum is taken mod 2^64). -/
def decodeLoop : Bytes → Nat → Nat → Except DecErr Nat
  | [], _, _ => .error .insufficient
  | b :: bs, i, n =>
    if isLast b then
      (if b = 0 ∧ 0 < i then .error .notMinimal
       else .ok ((n + (b % 128) * 2 ^ (7 * i)) % 2 ^ 64))
    else if i = U64_MAX_BYTES then .error .overflow
    else decodeLoop bs (i + 1) ((n + (b % 128) * 2 ^ (7 * i)) % 2 ^ 64)

inductive ReadError | overflow | notEnoughBytes | decodeError
deriving Repr, DecidableEq

/-- The `for i in 0..min(buffer.len(), max_len)` scan for the first terminating byte. -/
def scanLast : Bytes → Nat → Nat → Option Nat
  | [], _, _ => none
  | b :: bs, i, lim => if lim ≤ i then none else if isLast b then some i else scanLast bs (i + 1) lim

/-- `read_payload_size`: payload size and the number of bytes that encoded it. -/
def readPayloadSize (buffer : Bytes) : Except ReadError (Nat × Nat) :=
  match scanLast buffer 0 (min buffer.length USIZE_LEN) with
  | some i =>
    match decodeLoop (buffer.take (i + 1)) 0 0 with
    | .error _ => .error .decodeError
    | .ok size => .ok (size, i + 1)
  | none => if buffer.length < USIZE_LEN then .error .notEnoughBytes else .error .overflow

/-! ## reader state and one loop iteration of `poll_next` -/

structure RState where
  /-- `read_buffer.len()` -/
  rbLen : Nat
  /-- bytes written to `read_buffer[..offset]` while a frame body is being read -/
  rbData : Bytes
  offset : Nat
  /-- `current_frame_size` -/
  cur : Option Nat
  /-- `size_vec[..offset]` while a length prefix is being read -/
  svData : Bytes
deriving Repr, DecidableEq

/-- `Substream::new`: the read buffer holds a whole identity frame from the start. -/
def RState.init : Codec → RState
  | .identity n => ⟨n, [], 0, none, []⟩
  | .varint _ => ⟨INITIAL_READ_BUFFER, [], 0, none, []⟩

/-- Result of one inner `poll_read`. `ok []` is end of stream. -/
inductive RdRes
  | pending
  | err
  | ok (bs : Bytes)
deriving Repr, DecidableEq

inductive RErr | readFailure | io
deriving Repr, DecidableEq

/-- What `poll_next` returns (`pending` = `Poll::Pending`), or an explicit panic. -/
inductive Out
  | frame (bs : Bytes)
  | err (e : RErr)
  | eof
  | pending
  | panic (msg : String)
deriving Repr, DecidableEq

def Out.isPanic : Out → Bool
  | .panic _ => true
  | _ => false

/-- The slice handed to the inner `poll_read`, as its length; `error` = the slice expression
panics. `Identity`: `read_buffer[offset..payload_size]`; varint body: `read_buffer[offset..]`;
varint prefix: `size_vec[offset..offset + 1]`. -/
def readCap (codec : Codec) (st : RState) : Except String Nat :=
  match codec with
  | .identity n =>
    if st.offset ≤ n ∧ n ≤ st.rbLen then .ok (n - st.offset)
    else .error "range end index out of range for slice (read_buffer[offset..payload_size])"
  | .varint _ =>
    match st.cur with
    | some _ =>
      if st.offset ≤ st.rbLen then .ok (st.rbLen - st.offset)
      else .error "range start index out of range for slice (read_buffer[offset..])"
    | none =>
      if st.offset + 1 ≤ SIZE_VEC_LEN then .ok 1
      else .error "range end index out of range for slice (size_vec[offset..offset + 1])"

def overMax (max : Option Nat) (size : Nat) : Bool :=
  match max with
  | some m => decide (m < size)
  | none => false

/-- The body of the loop after the inner read returned `r`: new state and `some out` when
`poll_next` returns, `none` when the loop continues. -/
def onRead (codec : Codec) (st : RState) (r : RdRes) : RState × Option Out :=
  match codec with
  | .identity n =>
    match r with
    | .pending => (st, some .pending)
    | .err => (st, some (.err .io))
    | .ok bs =>
      if bs.length = 0 then (st, some .eof)
      else
        let off := st.offset + bs.length
        if off = n then
          -- `mem::replace(&mut read_buffer, zeroed(n))`, `payload.truncate(n)`, `offset = 0`
          ({ st with rbLen := n, rbData := [], offset := 0 }, some (.frame ((st.rbData ++ bs).take n)))
        else ({ st with rbData := st.rbData ++ bs, offset := off }, none)
  | .varint max =>
    match st.cur with
    | some frameSize =>
      match r with
      | .pending => (st, some .pending)
      | .err => (st, some .eof)
      | .ok bs =>
        if bs.length = 0 then (st, some .eof)
        else
          let off := st.offset + bs.length
          if off = frameSize then
            -- `mem::replace(&mut read_buffer, BytesMut::new())`
            ({ st with rbLen := 0, rbData := [], offset := 0, cur := none },
              some (.frame (st.rbData ++ bs)))
          else ({ st with rbData := st.rbData ++ bs, offset := off }, none)
    | none =>
      match r with
      | .pending => (st, some .pending)
      | .err => (st, some .eof)
      | .ok bs =>
        if bs.length = 0 then (st, some .eof)
        else
          let off := st.offset + 1
          let sv := st.svData ++ bs
          match readPayloadSize sv with
          | .error .notEnoughBytes => ({ st with offset := off, svData := sv }, none)
          | .error _ => ({ st with offset := 0, svData := [] }, some (.err .readFailure))
          | .ok (size, numBytes) =>
            if numBytes ≠ off then
              ({ st with offset := off, svData := sv },
                some (.panic "assertion `left == right` failed (num_bytes, offset)"))
            else if overMax max size then
              ({ st with offset := 0, svData := [] }, some (.err .readFailure))
            else if size = 0 then
              ({ st with offset := 0, svData := [] }, some (.frame []))
            else
              -- `current_frame_size = Some(size)`, `read_buffer = BytesMut::zeroed(size)`
              ({ st with offset := 0, svData := [], cur := some size, rbLen := size, rbData := [] }, none)

/-! ## the carrier and `poll_next` -/

/-- What the carrier will do: deliver bytes (an inner read takes at most `cap` of the front
segment), return `Pending` once, fail once, or report end of stream (sticky). -/
inductive Seg
  | data (bs : Bytes)
  | pending
  | err
  | eof
deriving Repr, DecidableEq

abbrev Carrier := List Seg

def carRead (cap : Nat) : Carrier → RdRes × Carrier
  | [] => (.pending, [])
  | .pending :: r => (.pending, r)
  | .err :: r => (.err, r)
  | .eof :: r => (.ok [], .eof :: r)
  | .data bs :: r =>
    if cap = 0 then (.ok [], .data bs :: r)
    else (.ok (bs.take cap), if bs.length ≤ cap then r else .data (bs.drop cap) :: r)

def segSize : Seg → Nat
  | .data bs => bs.length + 1
  | _ => 1

def carSize : Carrier → Nat
  | [] => 0
  | s :: r => segSize s + carSize r

def carBytes : Carrier → Bytes
  | [] => []
  | .data bs :: r => bs ++ carBytes r
  | _ :: r => carBytes r

/-- `poll_next`: the loop, with fuel (`carSize + 1` iterations always suffice, see `pollNext`). -/
def pollNextF (codec : Codec) : Nat → RState → Carrier → Out × RState × Carrier
  | 0, st, car => (.pending, st, car)
  | fuel + 1, st, car =>
    match readCap codec st with
    | .error msg => (.panic msg, st, car)
    | .ok cap =>
      match onRead codec st (carRead cap car).1 with
      | (st', some out) => (out, st', (carRead cap car).2)
      | (st', none) => pollNextF codec fuel st' (carRead cap car).2

def pollNext (codec : Codec) (st : RState) (car : Carrier) : Out × RState × Carrier :=
  pollNextF codec (carSize car + 1) st car

/-- Poll until the carrier has nothing more to say; stop after a panic. The outputs of the
successive `poll_next` calls. -/
def recvAllF (codec : Codec) : Nat → RState → Carrier → List Out
  | 0, _, _ => []
  | fuel + 1, st, car =>
    match car with
    | [] => []
    | _ :: _ =>
      let r := pollNext codec st car
      if r.1.isPanic then [r.1] else r.1 :: recvAllF codec fuel r.2.1 r.2.2

def recvAll (codec : Codec) (car : Carrier) : List Out :=
  recvAllF codec (carSize car + 1) (RState.init codec) car

def Out.isPending : Out → Bool
  | .pending => true
  | _ => false

/-- The results the caller sees, `Pending`s dropped. -/
def received (codec : Codec) (car : Carrier) : List Out :=
  (recvAll codec car).filter (fun o => !o.isPending)

/-! ## the wire format -/

def encodeMsg (codec : Codec) (m : Bytes) : Bytes :=
  match codec with
  | .identity _ => m
  | .varint _ => encodeUsize m.length ++ m

def encodeAll (codec : Codec) : List Bytes → Bytes
  | [] => []
  | m :: ms => encodeMsg codec m ++ encodeAll codec ms

/-- A message the codec's sender accepts. -/
def accepts (codec : Codec) (m : Bytes) : Bool :=
  match codec with
  | .identity n => m.length = n
  | .varint max => !overMax max m.length

end Litep2pVerif.Substream
