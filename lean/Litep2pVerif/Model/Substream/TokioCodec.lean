import Litep2pVerif.Model.Substream.Codec
/-!
# The `tokio_util` codecs of `src/codec/` (`unsigned_varint.rs`, `identity.rs`)

`UnsignedVarint` wraps `unsigned_varint::codec::UviBytes<Bytes>` (unsigned-varint 0.8, `codec.rs`):
`deserialise` with its `len` field and `max`, `serialise`; `Uvi<usize>::deserialise` is
`decode::usize` = the `decode!(buf, 9, u64)` loop of `Model/Substream/Codec.lean` returning the rest
as well. `Identity` is litep2p's own. Buffers are byte lists; `reserve` calls are recorded so that the
allocation rule can be stated. `Framed` drives a decoder by calling `decode` until it answers `None`
(`feed`).
-/
namespace Litep2pVerif.Substream

/-- `UviBytes::default().max` (128 MiB), what `UnsignedVarint::new(None)` keeps. -/
def UVI_DEFAULT_MAX : Nat := 128 * 1024 * 1024

/-- `decode::usize(buf)` = `decode!(buf, 9, u64)`: value and remaining slice. -/
def uviRead : Bytes → Nat → Nat → Except DecErr (Nat × Bytes)
  | [], _, _ => .error .insufficient
  | b :: bs, i, n =>
    if isLast b then
      (if b = 0 ∧ 0 < i then .error .notMinimal
       else .ok ((n + (b % 128) * 2 ^ (7 * i)) % 2 ^ 64, bs))
    else if i = U64_MAX_BYTES then .error .overflow
    else uviRead bs (i + 1) ((n + (b % 128) * 2 ^ (7 * i)) % 2 ^ 64)

/-- `crate::Error` as far as the codecs produce it. -/
inductive CodecErr
  /-- `io::ErrorKind::Other` (over-long or non-minimal length prefix) -/
  | other
  /-- `io::ErrorKind::PermissionDenied` (`len > max`) -/
  | permissionDenied
  /-- `Error::InvalidData` -/
  | invalidData
  deriving Repr, DecidableEq

/-- Result of one `Decoder::decode` call. -/
inductive DecRes
  | frame (bs : Bytes)
  | needMore
  | err (e : CodecErr)
  deriving Repr, DecidableEq

/-- `UnsignedVarint { codec: UviBytes }`: the configured maximum and `len`. -/
structure UviState where
  max : Nat
  len : Option Nat := none
  deriving Repr, DecidableEq

/-- `UnsignedVarint::new(max_size)` / `with_max_size`. -/
def UviState.new (max : Option Nat) : UviState := { max := max.getD UVI_DEFAULT_MAX }

/-- The second half of `UviBytes::deserialise` (`if let Some(n) = self.len.take()`): result, new
state, new buffer, and the argument of `src.reserve` if it is called. -/
def uviBody (st : UviState) (n : Nat) (src : Bytes) : DecRes × UviState × Bytes × Option Nat :=
  if st.max < n then (.err .permissionDenied, { st with len := none }, src, none)
  else if n ≤ src.length then (.frame (src.take n), { st with len := none }, src.drop n, none)
  else (.needMore, { st with len := some n }, src, some (n - src.length))

/-- `<UnsignedVarint as Decoder>::decode`. -/
def uviDecode (st : UviState) (src : Bytes) : DecRes × UviState × Bytes × Option Nat :=
  match st.len with
  | some n => uviBody st n src
  | none =>
    match uviRead src 0 0 with
    | .error .insufficient => (.needMore, st, src, none)
    | .error _ => (.err .other, st, src, none)
    | .ok (n, rest) => uviBody st n rest

/-- `<UnsignedVarint as Encoder<Bytes>>::encode`: `none` = `PermissionDenied`, `dst` untouched. -/
def uviEncode (st : UviState) (item dst : Bytes) : Option Bytes :=
  if st.max < item.length then none else some (dst ++ encodeUsize item.length ++ item)

/-- `UnsignedVarint::encode(payload)` (the associated function; `assert!(len <= u32::MAX)`). -/
def uviHelperEncode (payload : Bytes) : Except String (Option Bytes) :=
  if 2 ^ 32 ≤ payload.length then .error "assertion failed: payload.len() <= u32::MAX as usize"
  else .ok (uviEncode (UviState.new none) payload [])

/-- `UnsignedVarint::decode(payload)`: one `decode` of a default codec, `None` is `InvalidData`. -/
def uviHelperDecode (payload : Bytes) : Except CodecErr (Bytes × Bytes) :=
  match uviDecode (UviState.new none) payload with
  | (.frame f, _, rest, _) => .ok (f, rest)
  | (.needMore, _, _, _) => .error .invalidData
  | (.err e, _, _, _) => .error e

/-- `<Identity as Decoder>::decode` for `Identity { payload_len: n }`. -/
def idDecode (n : Nat) (src : Bytes) : DecRes × Bytes :=
  if src.isEmpty ∨ src.length < n then (.needMore, src) else (.frame (src.take n), src.drop n)

/-- `<Identity as Encoder<Bytes>>::encode`: only whole frames are accepted (after the `fix:`; the
original accepted every non-empty item of at most `n` bytes). -/
def idEncode (n : Nat) (item dst : Bytes) : Option Bytes :=
  if item.length ≠ n ∨ item.isEmpty then none else some (dst ++ item)

/-- `Identity::new(payload_len)`: `assert!(payload_len != 0)`. -/
def idNew (n : Nat) : Except String Nat :=
  if n = 0 then .error "assertion failed: payload_len != 0" else .ok n

/-! ## `Framed`-style driving: after every chunk, `decode` until `None` or an error -/

/-- A decoder over byte lists: state, one `decode` call (result, state, buffer, reserve request). -/
structure Dec (σ : Type) where
  decode : σ → Bytes → DecRes × σ × Bytes × Option Nat

def uviDec : Dec UviState := ⟨uviDecode⟩
def idDec (n : Nat) : Dec Unit := ⟨fun _ src => ((idDecode n src).1, (), (idDecode n src).2, none)⟩

/-- Decode until `None`/error; `fuel` bounds the number of frames (`src.length + 1` suffices when
every frame consumes a byte). Returns results, state, buffer and the largest `reserve` request. -/
def drainF {σ : Type} (d : Dec σ) : Nat → σ → Bytes → Nat → List DecRes × σ × Bytes × Nat
  | 0, st, src, rsv => ([], st, src, rsv)
  | fuel + 1, st, src, rsv =>
    match d.decode st src with
    | (.frame f, st', src', r) =>
      let (rs, st'', src'', rsv') := drainF d fuel st' src' (max rsv (r.getD 0))
      (.frame f :: rs, st'', src'', rsv')
    | (res, st', src', r) => ([res], st', src', max rsv (r.getD 0))

/-- Feed chunks: append to the buffer, drain. -/
def feed {σ : Type} (d : Dec σ) : List Bytes → σ → Bytes → Nat → List DecRes × σ × Bytes × Nat
  | [], st, buf, rsv => ([], st, buf, rsv)
  | c :: cs, st, buf, rsv =>
    let (rs, st', buf', rsv') := drainF d ((buf ++ c).length + 1) st (buf ++ c) rsv
    let (rs2, st'', buf'', rsv'') := feed d cs st' buf' rsv'
    (rs ++ rs2, st'', buf'', rsv'')

/-- The frames among the results. -/
def framesOf : List DecRes → List Bytes
  | [] => []
  | .frame f :: r => f :: framesOf r
  | _ :: r => framesOf r

end Litep2pVerif.Substream
