import Litep2pVerif.Model.Conn.Close
/-!
# The `TcpConnection::start` event loop (C07)

Operational model of `src/transport/tcp/connection.rs`: `start` / `run_event_loop` with its three
event sources (`handle_yamux_substream`, `handle_negotiated_substream`, `handle_protocol_command`)
and every exit, including the `?` exits. A report call made by the loop is the small-step machine of
`Close.lean`; while it is suspended on a full channel the loop takes no further event, only the
environment (`EnvOp`) moves. `Cont` remembers what the loop does when the call returns.

Keep-alive expiry has no branch of its own in the loop: protocols downgrade their handles and the
command channel yields `None` (`cmdNone`).
-/
namespace Litep2pVerif.Conn

/-- How `start()` returned. -/
inductive Exit | ok | err
  deriving DecidableEq, Repr

/-- Result delivered by `pending_substreams`. -/
inductive NegRes
  /-- negotiated for protocol `p` (inbound or outbound) -/
  | ok (p : Nat)
  /-- failed; `some p` = outbound open with (protocol, substream id) known, `none` = inbound -/
  | err (info : Option Nat)
  deriving DecidableEq, Repr

/-- One `select!` wake-up of the loop. -/
inductive LoopEv
  /-- yamux `Some(Ok(stream))`; `permit` = `try_get_permit()` returned `Some` -/
  | yamuxStream (permit : Bool)
  /-- yamux `Some(Err(_))` -/
  | yamuxErr
  /-- yamux `None` -/
  | yamuxEof
  | negotiated (r : NegRes)
  /-- `ProtocolCommand::OpenSubstream` -/
  | cmdOpen
  /-- `ProtocolCommand::ForceClose` -/
  | cmdForceClose
  /-- command channel closed: every protocol dropped / downgraded its handle (idle expiry, shutdown) -/
  | cmdNone
  deriving DecidableEq, Repr

/-- What the loop does once the report call in flight returns. -/
inductive Cont
  /-- `report_connection_closed(..).await?; Ok(true)` in one of the handlers -/
  | closeThenExit
  /-- `report_substream_open(..).await…?` / `report_substream_open_failure(..).await…?` -/
  | substreamReport
  /-- `start()`: `run_event_loop` returned `Err`, the close report is made up for -/
  | errorExitReport
  deriving DecidableEq, Repr

structure Loop where
  ps : PSet
  /-- `pending_substreams.len()` -/
  pending : Nat := 0
  cont : Option Cont := none
  exited : Option Exit := none
  deriving DecidableEq, Repr

/-- `start()` after `run_event_loop` returned `Err`: report (no-op if already reported), return `Err`. -/
def errorExit (s : Loop) : Loop :=
  let ps := startCall s.ps .closed
  match ps.call with
  | .result _ _ => { s with ps := ps, cont := none, exited := some .err }
  | _ => { s with ps := ps, cont := some .errorExitReport }

/-- If the call in flight has returned, continue the loop body from there. -/
def settle (s : Loop) : Loop :=
  match s.cont, s.ps.call with
  | some .closeThenExit, .result _ ok =>
    if ok then { s with cont := none, exited := some .ok }
    else errorExit { s with cont := none }        -- `?` inside the handler, then `start()`'s error path
  | some .substreamReport, .result _ ok =>
    if ok then { s with cont := none, ps := { s.ps with call := .idle } }
    else errorExit { s with cont := none }
  | some .errorExitReport, .result _ _ => { s with cont := none, exited := some .err }
  | _, _ => s

/-- A handler reaches `report_connection_closed(..).await?; Ok(true)`. -/
def closeAndExit (s : Loop) : Loop :=
  settle { s with ps := startCall s.ps .closed, cont := some .closeThenExit }

/-- One event of the loop. Enabled only while the loop is running and not suspended in a call. -/
def loopStep (s : Loop) (e : LoopEv) : Loop :=
  if s.exited.isSome || s.cont.isSome then s else
  match e with
  | .yamuxStream true => { s with pending := s.pending + 1 }
  -- `try_get_permit().ok_or(Error::ConnectionClosed)?`
  | .yamuxStream false => errorExit s
  | .yamuxErr => closeAndExit s
  | .yamuxEof => closeAndExit s
  | .cmdOpen => { s with pending := s.pending + 1 }
  | .cmdForceClose => closeAndExit s
  | .cmdNone => closeAndExit s
  | .negotiated r =>
    -- `select_next_some(), if !self.pending_substreams.is_empty()`
    if s.pending = 0 then s else
    let s := { s with pending := s.pending - 1 }
    match r with
    | .ok p => settle { s with ps := startCall s.ps (.substream p true), cont := some .substreamReport }
    | .err (some p) => settle { s with ps := startCall s.ps (.substream p false), cont := some .substreamReport }
    | .err none => s

inductive Label
  | loop (e : LoopEv)
  | env (o : EnvOp)
  deriving DecidableEq, Repr

def step (s : Loop) : Label → Loop
  | .loop e => loopStep s e
  | .env o => settle { s with ps := envStep s.ps o }

def run (s : Loop) (ls : List Label) : Loop := ls.foldl step s

/-- `TcpTransport::accept`: notify the protocols, then spawn the loop, then resolve. Returns the
state of the spawned loop (`none` = not spawned yet / accept failed) and whether the accept future
has resolved `Ok`. With the repaired `report_connection_established` the only way not to resolve is
to be suspended on a full channel. -/
def accept (ps : PSet) : PSet × Option Loop × Option Bool :=
  let ps' := startCall ps .established
  match ps'.call with
  | .result _ true =>
    let ps'' := { ps' with call := .idle }
    (ps'', some { ps := ps'' }, some true)
  | .result _ false => (ps', none, some false)
  | _ => (ps', none, none)

end Litep2pVerif.Conn
