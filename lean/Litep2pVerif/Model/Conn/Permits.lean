import Litep2pVerif.Model.Conn.Loop
import Litep2pVerif.Generated.Consts
/-!
# The `TcpConnection::start` loop together with its keep-alive permits (C07, C09)

`Loop.lean` takes "a permit was available" (`yamuxStream permit`) and "the command channel is closed"
(`cmdNone`) as inputs. Here both are *computed*: the state carries every strong sender of the
connection's command channel, exactly as `src/transport/tcp/connection.rs` and
`src/protocol/connection.rs` create and drop them:

* a protocol's `ConnectionHandle` while it is `Active` (`handles`), and the handle clone inside every
  `ConnectionEstablished` still in a protocol's channel;
* the `Permit` inside every queued `ProtocolCommand::OpenSubstream` (`cmdQ`);
* the `Permit` of every substream in `pending_substreams` (`Stage.opening`, `Stage.negotiating`): for an OUTBOUND
  substream it came with the command, for an INBOUND one `handle_yamux_substream` takes it at ACCEPT
  time (`self.protocol_set.try_get_permit().ok_or(Error::ConnectionClosed)?`) — before multistream-select
  has said which protocol the substream is for — and `accept_substream` carries it in
  `NegotiatedSubstream.permit` until `handle_negotiated_substream`;
* the opening permit, plus the lifetime permit `substream.keep_alive.then(|| opening_permit.clone())`,
  inside a `SubstreamOpened` message in flight (`Stage.queued`);
* the lifetime permit of a substream the protocol holds (`Stage.held`), if its protocol is
  `SubstreamKeepAlive::Yes`. The permit is a field of the substream OBJECT (`tcp::Substream::_lifetime_permit`):
  it lives until the object is dropped. Shutting down the write half (`Sink::poll_close` /
  `AsyncWrite::poll_shutdown`, `Stage.heldHalf`) does not release it — a half-closed substream on which the
  protocol still reads the reply keeps the connection like any other.

* while `report_connection_established` is suspended on a full channel (inside `TcpTransport::accept`, before the
  loop exists, `Model/Conn/Accept.lean`): its local `connection_handle` and the clone inside every pending send — a
  protocol that was already told can upgrade its handle and send commands meanwhile.

`idleExit` (`protocol_set.next()` yields `None`) is enabled iff no strong sender is left and no command
is queued; `accept` without a strong sender is the no-permit exit. `tokio::select!` picks any ready
branch, so the loop is a labelled transition system; the driver explores every enabled order (checker
mode) and the theorems quantify over every label sequence.

**Life cycle of an outbound open request** (C08). `ConnectionHandle::open_substream` puts
`ProtocolCommand::OpenSubstream` into the command channel (capacity `Consts.PROTOCOL_COMMAND_CHANNEL_SIZE`; a full
channel refuses the request: `ChannelClogged`) — *requested*. `handle_protocol_command` moves it into
`pending_substreams` as `timeout(open_timeout, open_substream(..))` — *yamux open pending* (`Stage.opening`):
`Control::open_stream()` has not returned yet; it does not return while `MAX_ACK_BACKLOG` outbound yamux streams are
waiting for the remote's acknowledgement, and a remote may never acknowledge (`TLabel.yamuxOpened` is the
environment's move). Then multistream-select runs under `negotiate_protocol`'s own timer — *negotiating*. The future
ends with the negotiated substream (`negOk` for the main name, `negOkFb` for a fallback name), with a negotiation
failure, or with EITHER timer firing — from either stage — and the loop reports `SubstreamOpened` resp.
`SubstreamOpenFailure`, with the request's protocol and substream id, to the protocol that asked (`negFail` on an
outbound entry: `NegRes.err (some i)`). An entry leaves the pending stages once and never comes back.

**Names.** A protocol has a main name and fallback names; `ProtocolSet::new` builds the name → keep-alive map
(`keepAlives` below) that `accept_substream` consults for the NEGOTIATED name, and `report_substream_open` maps a
fallback name to its main protocol. Both are per protocol: a substream negotiated under any name of protocol `p`
is reported to `p` and gets `p`'s lifetime permit (`nameKa_eq`), so `negOkFb k p f` acts on the state exactly like
`negOk k p`.

The reporting side (who is told what, suspended sends, `start()`'s error path) is `Loop.lean`'s
`loopStep`/`step` unchanged: `TLoop.loop` is a `Loop` whose `pending` counter is recomputed from the
substream table before every step.
-/
namespace Litep2pVerif.Conn

/-- Where a substream of the connection is. -/
inductive Stage
  /-- outbound, in `pending_substreams`: `Control::open_stream()` has not returned, the future owns the permit -/
  | opening
  /-- in `pending_substreams`: multistream-select running, the future owns the permit -/
  | negotiating
  /-- `SubstreamOpened` sent (or being sent) to the protocol, not yet taken -/
  | queued
  /-- the protocol holds the substream -/
  | held
  /-- the protocol holds the substream and has shut down its write half (`poll_close` / `poll_shutdown`) -/
  | heldHalf
  /-- failed, dropped, or lost with the connection task / the protocol's receiver -/
  | gone
  deriving DecidableEq, Repr

/-- In `pending_substreams`: the request (outbound) / the accepted stream (inbound) has not been answered yet. -/
def Stage.pending : Stage → Bool
  | .opening | .negotiating => true
  | _ => false

structure Sub where
  inbound : Bool
  /-- outbound: the protocol that opened it; inbound: known once negotiated -/
  proto : Option Nat
  stage : Stage
  deriving DecidableEq, Repr

/-- A protocol's `ConnectionHandle` for this connection (`ConnectionType`). -/
inductive HandleSt | dropped | inactive | active
  deriving DecidableEq, Repr

/-- `ProtocolCommand` in the command channel. -/
inductive Cmd | openSub (i : Nat) | forceClose
  deriving DecidableEq, Repr

structure TLoop where
  loop : Loop
  /-- `ProtocolContext.keep_alive == SubstreamKeepAlive::Yes`, per protocol -/
  ka : List Bool
  handles : List HandleSt
  cmdQ : List Cmd := []
  subs : List Sub := []
  /-- ghost: `next_substream_id`, advanced by every inbound yamux stream -/
  accepted : Nat := 0
  deriving DecidableEq, Repr

def kaOf (ka : List Bool) : Option Nat → Bool
  | some p => ka.getD p false
  | none => false

/-- Strong senders owned by one substream. -/
def Sub.permits (ka : List Bool) (x : Sub) : Nat :=
  match x.stage with
  | .opening => 1
  | .negotiating => 1
  | .queued => 1 + (if kaOf ka x.proto then 1 else 0)
  | .held => if kaOf ka x.proto then 1 else 0
  | .heldHalf => if kaOf ka x.proto then 1 else 0
  | .gone => 0

def Cmd.permits : Cmd → Nat
  | .openSub _ => 1
  | .forceClose => 0

def HandleSt.strong : HandleSt → Nat
  | .active => 1
  | _ => 0

/-- Number of strong senders of the command channel. -/
def TLoop.strong (s : TLoop) : Nat :=
  (s.handles.map HandleSt.strong).sum + (s.cmdQ.map Cmd.permits).sum +
  (s.subs.map (Sub.permits s.ka)).sum +
  (s.loop.ps.chans.map fun c => c.queue.count .established).sum +
  -- `report_connection_established` suspended on a full channel (only inside `TcpTransport::accept`, before the
  -- loop exists): its local `connection_handle` and the clone inside every pending send are strong
  (match s.loop.ps.call with
    | .protoSends .established w _ => w.length + 1
    | _ => 0)

/-- The loop is at its `select!` (not returned, not suspended inside a report call). -/
def TLoop.running (s : TLoop) : Bool := s.loop.exited.isNone && s.loop.cont.isNone

def negCount (subs : List Sub) : Nat := (subs.filter fun x => x.stage.pending).length

/-- When `start()` has returned the `TcpConnection` is dropped: `pending_substreams` (with their
permits) and the command receiver (with the queued commands) go away. -/
def cleanup (s : TLoop) : TLoop :=
  if s.loop.exited.isSome then
    { s with cmdQ := [],
             subs := s.subs.map fun x => if x.stage.pending = true then { x with stage := .gone } else x }
  else s

/-- One `select!` event of `Loop.lean`, with `pending_substreams.len()` taken from the table. -/
def lstep (s : TLoop) (e : LoopEv) : Loop := loopStep { s.loop with pending := negCount s.subs } e

/-- An environment move on the channels (`Loop.step` with an `env` label). -/
def estep (s : TLoop) (o : EnvOp) : Loop := step s.loop (.env o)

/-- Index of the first substream of protocol `i` in stage `st`. -/
def firstAt (subs : List Sub) (i : Nat) (st : Stage) : Option Nat :=
  subs.findIdx? fun x => x.stage == st && x.proto == some i

def setStage (subs : List Sub) (k : Nat) (st : Stage) : List Sub :=
  match subs[k]? with
  | some x => subs.set k { x with stage := st }
  | none => subs

def protoAlive (s : TLoop) (p : Nat) : Bool :=
  match s.loop.ps.chans[p]? with
  | some c => c.alive
  | none => false

inductive TLabel
  /-- yamux `Some(Ok(stream))` -/
  | accept
  | yamuxEof
  | yamuxErr
  /-- `pending_substreams` yields `Ok` for table entry `k`, negotiated protocol `p` (under its main name) -/
  | negOk (k p : Nat)
  /-- … negotiated under the `f`-th fallback name of protocol `p` -/
  | negOkFb (k p f : Nat)
  /-- … yields `Err` (failure, or either of the two timers) -/
  | negFail (k : Nat)
  /-- `Control::open_stream()` of outbound entry `k` returns the yamux stream: multistream-select starts -/
  | yamuxOpened (k : Nat)
  /-- `protocol_set.next()` yields `Some(command)` -/
  | takeCmd
  /-- `protocol_set.next()` yields `None` -/
  | idleExit
  /-- protocol `i` takes the next message of its channel -/
  | recv (i : Nat)
  | recvMgr
  /-- `ConnectionHandle::close` (keep-alive expiry) / `try_upgrade` / drop, by protocol `i` -/
  | downgrade (i : Nat)
  | upgrade (i : Nat)
  | dropHandle (i : Nat)
  /-- `try_get_permit` + `ConnectionHandle::open_substream` by protocol `i` -/
  | localOpen (i : Nat)
  | forceClose (i : Nat)
  /-- protocol `i` drops the oldest substream it holds -/
  | dropSub (i : Nat)
  /-- protocol `i` shuts down the write half of the oldest substream it holds and keeps the object -/
  | halfClose (i : Nat)
  /-- somebody else's messages fill protocol `i`'s channel / the manager's channel -/
  | fill (i : Nat)
  | fillMgr
  /-- protocol `i` shuts down: receiver, handle and substreams go away -/
  | dropRx (i : Nat)
  deriving DecidableEq, Repr

/-- `handle_yamux_substream`, `Some(Ok(stream))`: the id counter advances, then the permit is taken —
or the loop fails with `ConnectionClosed`. -/
def tAccept (s : TLoop) : TLoop :=
  if s.running = false then s else
  if 0 < s.strong then
    cleanup { s with loop := lstep s (.yamuxStream true), accepted := s.accepted + 1,
                     subs := s.subs ++ [⟨true, none, .negotiating⟩] }
  else
    cleanup { s with loop := lstep s (.yamuxStream false), accepted := s.accepted + 1 }

def tNegOk (s : TLoop) (k p : Nat) : TLoop :=
  if s.running = false then s else
  match s.subs[k]? with
  | none => s
  | some x =>
    if x.stage ≠ .negotiating then s else
    -- a message that cannot be delivered is dropped together with the permits inside it
    cleanup { s with loop := lstep s (.negotiated (.ok p)),
                     subs := s.subs.set k { x with proto := some p,
                                                   stage := if protoAlive s p then .queued else .gone } }

/-- `Control::open_stream()` returned: the future goes on with multistream-select (same future, same permit). -/
def tYamuxOpened (s : TLoop) (k : Nat) : TLoop :=
  if s.running = false then s else
  match s.subs[k]? with
  | none => s
  | some x => if x.stage = .opening then { s with subs := s.subs.set k { x with stage := .negotiating } } else s

/-- The future of entry `k` ends with an error: negotiation failure, `open_stream` failure, or one of the two
timers (`tokio::time::timeout(open_timeout, ..)` around the whole future, `negotiate_protocol`'s own) — from
whichever stage it is in. An outbound request is answered with its protocol and id. -/
def tNegFail (s : TLoop) (k : Nat) : TLoop :=
  if s.running = false then s else
  match s.subs[k]? with
  | none => s
  | some x =>
    if x.stage.pending = false then s else
    cleanup { s with loop := lstep s (.negotiated (.err (if x.inbound then none else x.proto))),
                     subs := s.subs.set k { x with stage := .gone } }

def tTakeCmd (s : TLoop) : TLoop :=
  if s.running = false then s else
  match s.cmdQ with
  | [] => s
  | .openSub i :: q =>
    cleanup { s with loop := lstep s .cmdOpen, cmdQ := q, subs := s.subs ++ [⟨false, some i, .opening⟩] }
  | .forceClose :: q => cleanup { s with loop := lstep s .cmdForceClose, cmdQ := q }

/-- `rx.recv()` yields `None` iff the queue is empty and no strong sender exists. -/
def TLoop.idleEnabled (s : TLoop) : Bool := s.running && s.cmdQ.isEmpty && s.strong == 0

def tIdleExit (s : TLoop) : TLoop :=
  if s.idleEnabled then cleanup { s with loop := lstep s .cmdNone } else s

def tRecv (s : TLoop) (i : Nat) : TLoop :=
  match s.loop.ps.chans[i]? with
  | none => s
  | some c =>
    if c.alive = false then s else
    match c.queue.head? with
    | none => s
    | some .established => cleanup { s with loop := estep s (.recv i), handles := s.handles.set i .active }
    | some .substreamOpened =>
      cleanup { s with loop := estep s (.recv i),
                       subs := match firstAt s.subs i .queued with
                               | some k => setStage s.subs k .held
                               | none => s.subs }
    | some _ => cleanup { s with loop := estep s (.recv i) }

/-- Can protocol `i`'s handle produce a strong sender (`Active`, or `Inactive` and upgradable)? -/
def canSend (s : TLoop) (i : Nat) : Bool :=
  match s.handles[i]? with
  | some .active => true
  | some .inactive => decide (0 < s.strong)
  | _ => false

/-- The command channel (`channel(256)` in `ProtocolSet::new`) has room for another command. -/
def TLoop.cmdRoom (s : TLoop) : Bool := decide (s.cmdQ.length < Consts.PROTOCOL_COMMAND_CHANNEL_SIZE)

def tstep (s : TLoop) : TLabel → TLoop
  | .accept => tAccept s
  | .yamuxEof => if s.running then cleanup { s with loop := lstep s .yamuxEof } else s
  | .yamuxErr => if s.running then cleanup { s with loop := lstep s .yamuxErr } else s
  | .negOk k p => tNegOk s k p
  -- whichever of the protocol's names was negotiated: reported to `p`, `p`'s lifetime permit
  | .negOkFb k p _ => tNegOk s k p
  | .negFail k => tNegFail s k
  | .yamuxOpened k => tYamuxOpened s k
  | .takeCmd => tTakeCmd s
  | .idleExit => tIdleExit s
  | .recv i => tRecv s i
  | .recvMgr => cleanup { s with loop := estep s .recvMgr }
  | .downgrade i =>
    if s.handles[i]? = some .active then { s with handles := s.handles.set i .inactive } else s
  | .upgrade i =>
    if s.handles[i]? = some .inactive ∧ 0 < s.strong then { s with handles := s.handles.set i .active } else s
  | .dropHandle i => if i < s.handles.length then { s with handles := s.handles.set i .dropped } else s
  | .localOpen i =>
    -- `try_send` fails once the receiver is gone (`Closed`) and while the channel is full (`ChannelClogged`)
    if canSend s i && s.loop.exited.isNone && s.cmdRoom then { s with cmdQ := s.cmdQ ++ [.openSub i] } else s
  | .forceClose i =>
    if canSend s i && s.loop.exited.isNone && s.cmdRoom then { s with cmdQ := s.cmdQ ++ [.forceClose] } else s
  | .dropSub i =>
    -- the oldest substream held: `halfClose` acts on the oldest one too, so a half-closed one comes first
    match firstAt s.subs i .heldHalf with
    | some k => { s with subs := setStage s.subs k .gone }
    | none =>
      match firstAt s.subs i .held with
      | some k => { s with subs := setStage s.subs k .gone }
      | none => s
  | .halfClose i =>
    match firstAt s.subs i .heldHalf with
    | some _ => s
    | none =>
      match firstAt s.subs i .held with
      | some k => { s with subs := setStage s.subs k .heldHalf }
      | none => s
  | .fill i => cleanup { s with loop := estep s (.fill i) }
  | .fillMgr => cleanup { s with loop := estep s .fillMgr }
  | .dropRx i =>
    cleanup { s with loop := estep s (.drop i), handles := s.handles.set i .dropped,
                     subs := s.subs.map fun x =>
                       if x.proto = some i ∧ (x.stage = .queued ∨ x.stage = .held ∨ x.stage = .heldHalf) then { x with stage := .gone } else x }

def trun (s : TLoop) (ls : List TLabel) : TLoop := ls.foldl tstep s

/-- The labels that act on the pending entry `k`: the end of its future (`negOk`, `negOkFb`, `negFail`). -/
def TLabel.endsNeg (k : Nat) : TLabel → Bool
  | .negOk k' _ => k' == k
  | .negOkFb k' _ _ => k' == k
  | .negFail k' => k' == k
  | _ => false

/-- … or its yamux stream having been opened. -/
def TLabel.touches (k : Nat) : TLabel → Bool
  | .yamuxOpened k' => k' == k
  | l => l.endsNeg k


/-- A connection right after `report_connection_established`: every protocol has the `established`
event (with a strong handle clone) in its channel, the `ProtocolSet`'s own handle is downgraded. -/
def tinit (ka : List Bool) (cap : Nat) : TLoop :=
  { loop := { ps := { chans := List.replicate ka.length { cap := cap, queue := [.established] },
                      order := List.range ka.length, mgr := { cap := cap }, active := false } },
    ka := ka, handles := List.replicate ka.length .dropped }

/-- A substream that keeps the connection busy: an outbound substream whose yamux stream is being opened, an inbound
or outbound substream being negotiated (whatever protocol it will turn out to be for), or a delivered substream of a keep-alive protocol — in the
protocol's channel, held, or held with its write half shut down. -/
def Busy (ka : List Bool) (x : Sub) : Prop :=
  x.stage = .opening ∨ x.stage = .negotiating ∨
    (kaOf ka x.proto = true ∧ (x.stage = .queued ∨ x.stage = .held ∨ x.stage = .heldHalf))

instance (ka : List Bool) (x : Sub) : Decidable (Busy ka x) := by unfold Busy; infer_instance

/-! ### names: `ProtocolSet::new` -/

/-- A protocol name: `(p, 0)` is the main name of protocol `p`, `(p, f + 1)` its `f`-th fallback name. -/
abbrev Name := Nat × Nat

/-- `fallback_names`: `protocols.iter().flat_map(|(protocol, context)| context.fallback_names.iter().map(|fallback|
(fallback.clone(), protocol.clone())))` — fallback name ↦ main protocol. `fbs[p]` = number of fallback names of `p`. -/
def fallbackNames (fbs : List Nat) : List (Name × Nat) :=
  (List.range fbs.length).flatMap fun p => (List.range (fbs.getD p 0)).map fun f => ((p, f + 1), p)

/-- `keep_alives`: `main_keep_alives` (every main name with its context's setting) chained with
`fallback_keep_alives` (every fallback name with the setting of the context of ITS MAIN protocol:
`protocols.get(main).expect(..).keep_alive`). `none` for a missing context is the `expect`. -/
def keepAlives (ka : List Bool) (fbs : List Nat) : List (Name × Option Bool) :=
  ((List.range ka.length).map fun p => ((p, 0), ka[p]?)) ++
  (fallbackNames fbs).map fun (fallback, main) => (fallback, ka[main]?)

/-- `protocols.get(&protocol)` in `accept_substream`: the keep-alive setting of the negotiated name. -/
def nameKa (ka : List Bool) (fbs : List Nat) (n : Name) : Option (Option Bool) := (keepAlives ka fbs).lookup n

/-- `report_substream_open`: `match self.fallback_names.get(&protocol) { Some(main) => (main, Some(protocol)),
None => (protocol, None) }` — the protocol the substream is reported to, and the `fallback` field of the event. -/
def reportTo (fbs : List Nat) (n : Name) : Nat × Option Name :=
  match (fallbackNames fbs).lookup n with
  | some main => (main, some n)
  | none => (n.1, none)

end Litep2pVerif.Conn
