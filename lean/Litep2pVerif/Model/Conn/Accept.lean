import Litep2pVerif.Model.Conn.Permits
/-!
# `TcpTransport::accept` around the connection loop (C07)

`src/transport/tcp/mod.rs`, `accept()`: the negotiated connection is taken out of `pending_open`, a
`ProtocolSet` is made for it, and the returned future does

```
protocol_set.report_connection_established(peer, endpoint).await?;   // notify the protocols
executor.run(TcpConnection::new(context, protocol_set, ..).start()); // then spawn the loop
Ok(())                                                               // then resolve
```

The future is polled by the transport manager. While `report_connection_established` is suspended on a
full protocol channel the protocols with room HAVE been told (each `ConnectionEstablished` carries a
strong handle of the connection), the loop does not exist yet, and only the protocols and the manager
move (`TLabel.protoSide`). The state is a `TLoop` (channels, handles, command queue) plus the phase of the
future; once the future has resolved `Ok` it is exactly the `TLoop` of `Permits.lean`.

`failed` is the future resolving `Err`: `context` (the negotiated connection) and `protocol_set` are
dropped without a loop having been spawned, so nobody would ever send `ConnectionClosed` for it. The
theorem `accept_established_then_closed` (Props/C07) shows that the code as it is never gets there.
-/
namespace Litep2pVerif.Conn

inductive APhase
  /-- negotiated, in `pending_open`; `accept()` not called yet -/
  | parked
  /-- the future is suspended in `report_connection_established(..).await` -/
  | notifying
  /-- the future resolved `Err`: connection dropped, loop never spawned -/
  | failed
  /-- the loop has been spawned and the future resolved `Ok(())` -/
  | up
  deriving DecidableEq, Repr

structure AConn where
  phase : APhase := .parked
  t : TLoop
  deriving DecidableEq, Repr

/-- Transitions the protocols, the manager and other senders make on their own: no future of the
connection has to be polled for them. -/
def TLabel.protoSide : TLabel → Bool
  | .recv _ | .recvMgr | .downgrade _ | .upgrade _ | .dropHandle _ | .localOpen _ | .forceClose _
  | .dropSub _ | .halfClose _ | .dropRx _ | .fill _ | .fillMgr => true
  | _ => false

def setCall (t : TLoop) (c : Call) : TLoop :=
  { t with loop := { t.loop with ps := { t.loop.ps with call := c } } }

/-- `report_connection_established(..).await?` has returned: spawn the loop and resolve `Ok`, or `?`. -/
def aResolve (a : AConn) : AConn :=
  if a.phase ≠ .notifying then a else
  match a.t.loop.ps.call with
  | .result .established true => { phase := .up, t := setCall a.t .idle }
  | .result .established false => { a with phase := .failed }
  | _ => a

inductive ALabel
  /-- the future returned by `accept()` is polled for the first time -/
  | call
  | t (l : TLabel)
  deriving DecidableEq, Repr

def astep (a : AConn) : ALabel → AConn
  | .call =>
    if a.phase = .parked then
      aResolve { phase := .notifying,
                 t := { a.t with loop := { a.t.loop with ps := startCall a.t.loop.ps .established } } }
    else a
  | .t l =>
    if a.phase = .up then { a with t := tstep a.t l }
    else if l.protoSide then aResolve { a with t := tstep a.t l }
    else a

def arun (a : AConn) (ls : List ALabel) : AConn := ls.foldl astep a

/-- A negotiated connection parked in the transport: empty channels (capacity `cap`, the manager's
`mcap`), the `ProtocolSet`'s own handle still `Active`, no protocol knows the connection. -/
def ainit (ka : List Bool) (cap mcap : Nat) : AConn :=
  { phase := .parked,
    t := { loop := { ps := { chans := List.replicate ka.length { cap := cap }, order := List.range ka.length,
                             mgr := { cap := mcap } } },
           ka := ka, handles := List.replicate ka.length .dropped } }

end Litep2pVerif.Conn
