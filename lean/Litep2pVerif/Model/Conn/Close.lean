/-!
# `ProtocolSet` reports over bounded FIFO channels, the manager's close rule, `accept` (C07)

Operational model of `src/protocol/protocol_set.rs` (`report_connection_established`,
`report_connection_closed`, `report_substream_open`, `report_substream_open_failure`,
`try_get_permit`), of the tokio `mpsc` channels they send into (bounded FIFO, receiver may be
dropped, a send on a full channel suspends until a slot is freed or the receiver goes away), of
`TransportManager::on_connection_{established,closed}` / `PeerState` and of `TcpTransport::accept`.

A report call is a small-step machine (`Call`): the environment (`EnvOp`: a protocol pops a message,
drops its receiver, its channel is filled by somebody else, the same for the manager) is interleaved
with it, and `progress` re-polls the suspended sends exactly like `FuturesUnordered` does.

Import-free (core Lean only): the model driver links against it.
-/
namespace Litep2pVerif.Conn

/-- What a protocol finds in its channel (`InnerTransportEvent`; `filler` = anything else, e.g. a
`DialFailure` from the manager). -/
inductive Msg
  | established | closed | substreamOpened | openFailure | filler
  deriving DecidableEq, Repr

/-- Ghost log of successful enqueues, in global order. `mgr` is
`TransportManagerEvent::ConnectionClosed` on the manager's channel. -/
inductive Ev
  | proto (i : Nat) (m : Msg)
  | mgr
  deriving DecidableEq, Repr

/-- A bounded tokio channel seen from the sender. -/
structure Chan where
  queue : List Msg := []
  cap : Nat := 1
  /-- receiver not dropped -/
  alive : Bool := true
  deriving DecidableEq, Repr

/-- Result of polling one `tx.send(msg)` future. -/
inductive Poll | sent | closed | full
  deriving DecidableEq, Repr

def trySend (c : Chan) (m : Msg) : Poll × Chan :=
  if c.alive = false then (.closed, c)
  else if c.queue.length < c.cap then (.sent, { c with queue := c.queue ++ [m] })
  else (.full, c)

/-- Which report is running. -/
inductive Kind
  | established
  | closed
  /-- `report_substream_open` (`opened = true`) / `report_substream_open_failure` towards protocol `i` -/
  | substream (i : Nat) (opened : Bool)
  deriving DecidableEq, Repr

def Kind.msg : Kind → Msg
  | .established => .established
  | .closed => .closed
  | .substream _ true => .substreamOpened
  | .substream _ false => .openFailure

/-- State of the `async fn` currently borrowed from the `ProtocolSet` (`&mut self`: one at a time). -/
inductive Call
  | idle
  /-- the protocol sends of `k` are in flight; `waiting` = sends suspended on a full channel;
  `err` = some send already failed -/
  | protoSends (k : Kind) (waiting : List Nat) (err : Bool)
  /-- `report_connection_closed` is suspended in `mgr_tx.send(..)`; `err` = `protocol_error.is_some()` -/
  | mgrSend (err : Bool)
  /-- the call returned `Ok(())` (`ok = true`) or `Err(_)` -/
  | result (k : Kind) (ok : Bool)
  deriving DecidableEq, Repr

/-- `ProtocolSet` together with the channels it writes to. -/
structure PSet where
  /-- per-protocol channel (`ProtocolContext.tx`), index = protocol -/
  chans : List Chan
  /-- iteration order of the `protocols` hash map (arbitrary) -/
  order : List Nat
  /-- `mgr_tx` -/
  mgr : Chan := { cap := 4 }
  /-- `closed_reported` -/
  closedReported : Bool := false
  call : Call := .idle
  /-- ghost: global order of enqueues -/
  log : List Ev := []
  /-- ghost: how often the body of `report_connection_closed` ran -/
  closedRuns : Nat := 0
  /-- `connection` is still `Active` (before `report_connection_established` downgraded it) -/
  active : Bool := true
  /-- strong `ConnectionHandle`s held outside the channels (popped by protocols and kept) -/
  held : Nat := 0
  deriving DecidableEq, Repr

/-- Poll `tx.send(m)` of protocol `i`. -/
def sendTo (ps : PSet) (i : Nat) (m : Msg) : Poll × PSet :=
  match ps.chans[i]? with
  | none => (.closed, ps)
  | some c =>
    match trySend c m with
    | (.sent, c') => (.sent, { ps with chans := ps.chans.set i c', log := ps.log ++ [.proto i m] })
    | (p, _) => (p, ps)

/-- Poll the listed send futures once, in order: completed ones disappear, failed ones set the
error flag, those whose channel is full stay. Returns the new state, the still-waiting sends and the
error flag. -/
def pollSends (m : Msg) : List Nat → PSet → List Nat → Bool → PSet × List Nat × Bool
  | [], ps, w, e => (ps, w, e)
  | i :: is, ps, w, e =>
    match sendTo ps i m with
    | (.sent, ps') => pollSends m is ps' w e
    | (.closed, ps') => pollSends m is ps' w true
    | (.full, ps') => pollSends m is ps' (w ++ [i]) e

/-- Poll `mgr_tx.send(ConnectionClosed).await?` and finish `report_connection_closed`. -/
def progressMgr (ps : PSet) (err : Bool) : PSet :=
  match trySend ps.mgr .closed with
  | (.sent, c') =>
    -- `match protocol_error { Some(e) => Err(e), None => Ok(()) }`
    { ps with mgr := c', log := ps.log ++ [.mgr], call := .result .closed (!err) }
  | (.closed, _) => { ps with call := .result .closed false }
  | (.full, _) => { ps with call := .mgrSend err }

/-- Run the current call as far as it goes without the environment. -/
def progress (ps : PSet) : PSet :=
  match ps.call with
  | .protoSends k w e =>
    match pollSends k.msg w ps [] e with
    | (ps', [], e') =>
      match k with
      | .closed => progressMgr ps' e'
      -- `report_connection_established`: send errors are logged and skipped
      | .established => { ps' with call := .result .established true }
      | .substream i m => { ps' with call := .result (.substream i m) (!e') }
    | (ps', w', e') => { ps' with call := .protoSends k w' e' }
  | .mgrSend e => progressMgr ps e
  | _ => ps

/-- Begin a report (the previous one has returned). -/
def startCall (ps : PSet) (k : Kind) : PSet :=
  match k with
  | .closed =>
    -- `if std::mem::replace(&mut self.closed_reported, true) { return Ok(()) }`
    if ps.closedReported then { ps with call := .result .closed true }
    else progress { ps with closedReported := true, closedRuns := ps.closedRuns + 1,
                            call := .protoSends .closed ps.order false }
  | .established =>
    -- `self.connection.downgrade()`; every event carries a strong clone of the handle
    progress { ps with active := false, call := .protoSends .established ps.order false }
  | .substream i m =>
    -- `self.protocols.get(&protocol)`: an unknown protocol is an error without any send
    if i < ps.chans.length then progress { ps with call := .protoSends (.substream i m) [i] false }
    else { ps with call := .result (.substream i m) false }

/-- What the environment can do to the channels. -/
inductive EnvOp
  | recv (i : Nat) | drop (i : Nat) | fill (i : Nat)
  | recvMgr | dropMgr | fillMgr
  deriving DecidableEq, Repr

def Chan.pop (c : Chan) : Chan := { c with queue := c.queue.tail }
def Chan.dropRx (c : Chan) : Chan := { c with queue := [], alive := false }
def Chan.fillUp (c : Chan) : Chan :=
  if c.alive then { c with queue := c.queue ++ List.replicate (c.cap - c.queue.length) .filler } else c

def waitingOn (ps : PSet) (i : Nat) : Bool :=
  match ps.call with
  | .protoSends _ w _ => w.contains i
  | _ => false

def waitingOnMgr (ps : PSet) : Bool :=
  match ps.call with
  | .mgrSend _ => true
  | _ => false

/-- The environment acts, then the suspended call is re-polled. -/
def envStep (ps : PSet) : EnvOp → PSet
  | .recv i =>
    match ps.chans[i]? with
    | none => ps
    | some c => progress { ps with chans := ps.chans.set i c.pop }
  | .drop i =>
    match ps.chans[i]? with
    | none => ps
    | some c => progress { ps with chans := ps.chans.set i c.dropRx }
  | .fill i =>
    -- a slot freed for a suspended sender is already reserved for it: nobody else can take it
    if waitingOn ps i then ps else
    match ps.chans[i]? with
    | none => ps
    | some c => { ps with chans := ps.chans.set i c.fillUp }
  | .recvMgr => progress { ps with mgr := ps.mgr.pop }
  | .dropMgr => progress { ps with mgr := ps.mgr.dropRx }
  | .fillMgr => if waitingOnMgr ps then ps else { ps with mgr := ps.mgr.fillUp }

/-- Number of strong `ConnectionHandle`s in existence (inside undelivered `established` events or
held by protocols); `try_get_permit` on the downgraded handle succeeds iff there is one. -/
def strongHandles (ps : PSet) : Nat :=
  ps.held + (ps.chans.map fun c => c.queue.count .established).sum

def tryGetPermit (ps : PSet) : Bool := ps.active || decide (0 < strongHandles ps)

/-! ## Transport manager: `PeerState::{on_connection_established, on_connection_closed, can_dial}` -/

inductive Secondary
  | none
  | secondary (c : Nat)
  | dialing (c : Nat)
  deriving DecidableEq, Repr

inductive PeerState
  | connected (primary : Nat) (sec : Secondary)
  | opening (c : Nat)
  | dialing (c : Nat)
  | disconnected (dial : Option Nat)
  deriving DecidableEq, Repr

/-- `PeerState::on_connection_established`: new state and "accept". -/
def PeerState.onEstablished : PeerState → Nat → PeerState × Bool
  | .connected p (.dialing d), c =>
    if d = c then (.connected p (.secondary c), true) else (.connected p (.dialing d), false)
  | .connected p .none, c => (.connected p (.secondary c), true)
  | .connected p (.secondary s), _ => (.connected p (.secondary s), false)
  | .dialing d, c => if d = c then (.connected c .none, true) else (.connected c (.dialing d), true)
  | .disconnected (some d), c =>
    if d = c then (.connected c .none, true) else (.connected c (.dialing d), true)
  | .disconnected none, c => (.connected c .none, true)
  | .opening _, c => (.connected c .none, true)

/-- `PeerState::on_connection_closed`: new state and "this was the last connection". -/
def PeerState.onClosed : PeerState → Nat → PeerState × Bool
  | .connected p sec, c =>
    if p = c then
      match sec with
      | .secondary s => (.connected s .none, false)
      | .dialing d => (.disconnected (some d), true)
      | .none => (.disconnected none, true)
    else
      match sec with
      | .secondary s => if s = c then (.connected p .none, false) else (.connected p (.secondary s), false)
      | sec => (.connected p sec, false)
  | st, _ => (st, false)

inductive DialResult | alreadyConnected | inProgress | ok
  deriving DecidableEq, Repr

def PeerState.canDial : PeerState → DialResult
  | .connected _ _ => .alreadyConnected
  | .dialing _ | .opening _ | .disconnected (some _) => .inProgress
  | .disconnected none => .ok

/-- Connections the manager currently counts as open. -/
def PeerState.conns : PeerState → List Nat
  | .connected p (.secondary s) => [p, s]
  | .connected p _ => [p]
  | _ => []

/-- Events the application sees for one peer. -/
inductive AppEv
  | established (c : Nat)
  | closed (c : Nat)
  deriving DecidableEq, Repr

/-- What reaches `TransportManager::next` for one peer. -/
inductive MgrIn
  /-- the transport negotiated connection `c`; `acceptOk` = the `accept` future (protocols
  notified, loop spawned) resolves `Ok` -/
  | transportEstablished (c : Nat) (acceptOk : Bool)
  /-- `TransportManagerEvent::ConnectionClosed` from the connection task -/
  | connClosed (c : Nat)
  deriving DecidableEq, Repr

/-- One iteration of `TransportManager::next` for the peer (limits never reject here). The accept
future is resolved in the same step: `ConnectionEstablished` is returned only when it is `Ok`,
otherwise the state change is rolled back through `on_connection_closed`, silently. -/
def mgrStep (st : PeerState) : MgrIn → PeerState × List AppEv
  | .transportEstablished c acceptOk =>
    match st.onEstablished c with
    | (st', true) =>
      if acceptOk then (st', [.established c])
      else ((st'.onClosed c).1, [])
    | (st', false) => (st', [])      -- rejected: the transport drops the connection
  | .connClosed c =>
    match st.onClosed c with
    | (st', true) => (st', [.closed c])
    | (st', false) => (st', [])

def mgrRun : PeerState → List MgrIn → PeerState × List AppEv
  | st, [] => (st, [])
  | st, x :: xs =>
    let r := mgrStep st x
    let r' := mgrRun r.1 xs
    (r'.1, r.2 ++ r'.2)

end Litep2pVerif.Conn
