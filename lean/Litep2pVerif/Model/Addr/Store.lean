import Litep2pVerif.Model.Addr.Multiaddr
/-!
# `AddressStore` (src/transport/manager/address.rs) — property C10

The `HashMap<Multiaddr, AddressRecord>` is an association list with unique addresses. Its iteration
order is arbitrary in the real code; here it is the list order, and every statement about the store
is proved for every permutation of the list (see `Props/C10.lean`), the driver permutes the list to
follow the implementation's observed choice (checker mode). Scores are `i32`: `Int` with the
`saturating_add` clamp.
-/
namespace Litep2pVerif.Addr

/-- `AddressRecord`. -/
structure Rec where
  addr : Multiaddr
  score : Int
  deriving DecidableEq, Repr

/-- `AddressStore`: records in iteration order, and `max_capacity`. -/
structure Store where
  recs : List Rec
  cap : Nat
  deriving DecidableEq, Repr

def I32_MAX : Int := 2147483647
def I32_MIN : Int := -2147483648

/-- `i32::saturating_add`. -/
def satAdd (a b : Int) : Int :=
  if a + b > I32_MAX then I32_MAX else if a + b < I32_MIN then I32_MIN else a + b

/-- The `scores` module; the values are regenerated from the source (`Generated/Consts.lean`) and
passed in by the property file and the driver. -/
structure Scores where
  established : Int
  failure : Int
  addressFailure : Int
  bonus : Int
  deriving DecidableEq, Repr

/-- `is_global_multiaddr`: decided by the first ip/dns component. -/
def isGlobalMultiaddr : Multiaddr → Bool
  | [] => false
  | .ip4 ip :: _ => ip.global
  | .ip6 ip :: _ => ip.global
  | .dns _ :: _ => true
  | .dns4 _ :: _ => true
  | .dns6 _ :: _ => true
  | _ :: rest => isGlobalMultiaddr rest

/-- `AddressRecord::new(peer, address, score)`: append the peer id unless the last component is `/p2p`. -/
def Rec.new (peer : Nat) (a : Multiaddr) (score : Int) : Rec :=
  match lastP2p a with
  | some _ => ⟨a, score⟩
  | none => ⟨withP2p a peer, score⟩

/-- `AddressRecord::from_multiaddr`. -/
def Rec.fromMultiaddr (a : Multiaddr) : Option Rec :=
  match lastP2p a with
  | some _ => some ⟨a, 0⟩
  | none => none

def hasAddr (rs : List Rec) (a : Multiaddr) : Bool := rs.any (fun r => r.addr == a)

def lookupScore (rs : List Rec) (a : Multiaddr) : Option Int :=
  match rs with
  | [] => none
  | r :: rest => if r.addr = a then some r.score else lookupScore rest a

/-- `occupied.get_mut().update_score(score)`. -/
def setScore (rs : List Rec) (a : Multiaddr) (score : Int) : List Rec :=
  rs.map (fun r => if r.addr = a then { r with score := score } else r)

/-- `self.addresses.values().min()`: the first record of minimal score in iteration order. -/
def minRec : List Rec → Option Rec
  | [] => none
  | r :: rest =>
    match minRec rest with
    | none => some r
    | some m => if m.score < r.score then some m else some r

/-- `self.addresses.remove(address)`. -/
def removeAddr (rs : List Rec) (a : Multiaddr) : List Rec := rs.filter (fun r => r.addr != a)

/-- The record actually stored for a new address: public addresses get the bonus. -/
def withBonus (sc : Scores) (r : Rec) : Rec :=
  if isGlobalMultiaddr r.addr then { r with score := satAdd r.score sc.bonus } else r

/-- `AddressStore::insert`. -/
def insert (sc : Scores) (s : Store) (r : Rec) : Store :=
  if hasAddr s.recs r.addr then
    if r.score ≠ 0 then { s with recs := setScore s.recs r.addr r.score } else s
  else if s.cap ≤ s.recs.length then
    match minRec s.recs with
    | none => s       -- `expect` on an empty map: see `insertPanics`
    | some m =>
      if (withBonus sc r).score < m.score then s
      else { s with recs := removeAddr s.recs m.addr ++ [withBonus sc r] }
  else { s with recs := s.recs ++ [withBonus sc r] }

/-- `insert` panics (`.expect("There is at least one element …")`) iff a new address meets an empty
map of capacity 0. -/
def insertPanics (s : Store) (r : Rec) : Bool :=
  !hasAddr s.recs r.addr && decide (s.cap ≤ s.recs.length) && s.recs.isEmpty

/-- Stable insertion into a list sorted by non-increasing score: `r` goes before the first record
whose score is not larger (it preceded all of them in the original order). -/
def insertDesc (r : Rec) : List Rec → List Rec
  | [] => [r]
  | x :: xs => if r.score < x.score then x :: insertDesc r xs else r :: x :: xs

/-- `records.sort_by_key(|r| Reverse(r.score))` (stable). -/
def sortDesc : List Rec → List Rec
  | [] => []
  | r :: rest => insertDesc r (sortDesc rest)

/-- `AddressStore::addresses(limit)` as records (`none` = `usize::MAX`). -/
def selectRecs (s : Store) (limit : Option Nat) : List Rec :=
  match limit with
  | none => sortDesc s.recs
  | some n => (sortDesc s.recs).take n

/-- `AddressStore::addresses(limit)`. -/
def addresses (s : Store) (limit : Option Nat) : List Multiaddr := (selectRecs s limit).map (·.addr)

/-- `AddressStore::extend(records)`. -/
def extend (sc : Scores) (s : Store) (rs : List Rec) : Store := rs.foldl (insert sc) s

end Litep2pVerif.Addr
