import Litep2pVerif.Model.Addr.Manager
/-!
# Listen addresses, local dial addresses, DNS lookup, public addresses — property C10

Mirrors `SocketListener::new::<TcpAddress>` (src/transport/common/listener.rs: which configured
addresses are bound, what is reported as the node's listen addresses — including the expansion of
an unspecified bind address over the machine's interfaces — and the `DialAddresses` handed to the
dialer), `DialAddresses::local_dial_address`, `AddressType::lookup_ip`, `PublicAddresses`
(src/addresses.rs) and the guards of `TransportManagerHandle::dial` (manager/handle.rs).

The operating system and the resolver are inputs: `os` lists, per bind attempt in order, whether
socket creation/options/bind/listen succeeded and which local port the socket got; `ifaces` is
what `NetworkInterface::show()` returns (`none` = error); `answer` is the resolver's answer in the
order `lookup.iter()` yields it (`none` = lookup error).
Assumption (operating system): `local_addr()` of a socket bound to `(ip, p)` is `(ip, p')`.
-/
namespace Litep2pVerif.Addr

instance instDecEqExcept {ε α : Type} [DecidableEq ε] [DecidableEq α] : DecidableEq (Except ε α) := fun a b =>
  match a, b with
  | .ok x, .ok y => if h : x = y then isTrue (by rw [h]) else isFalse (by intro h'; cases h'; exact h rfl)
  | .error x, .error y => if h : x = y then isTrue (by rw [h]) else isFalse (by intro h'; cases h'; exact h rfl)
  | .ok _, .error _ => isFalse (by intro h; cases h)
  | .error _, .ok _ => isFalse (by intro h; cases h)

/-- `std::net::SocketAddr`. -/
structure SockAddr where
  ip : IpAddr
  port : Nat
  deriving DecidableEq, Repr

def IpAddr.isV4 : IpAddr → Bool
  | .v4 _ => true
  | .v6 _ => false

/-- `Protocol::from(ip)`. -/
def IpAddr.comp : IpAddr → Comp
  | .v4 a => .ip4 a
  | .v6 a => .ip6 a

def IpAddr.host : IpAddr → Host
  | .v4 a => .ip4 a
  | .v6 a => .ip6 a

/-- `TcpAddress::socket_address_to_multiaddr`. -/
def socketToMultiaddr (s : SockAddr) : Multiaddr := [s.ip.comp, .tcp s.port]

/-- What `SocketListener::new` tries to bind for one configured address: `none` = skipped without
touching the OS (the parser refuses it, or it is a DNS name: "dns not supported as bind address"). -/
def bindTarget (a : Multiaddr) : Option SockAddr :=
  match tcpParse a with
  | .ok ⟨.ip4 i, p, _⟩ => some ⟨.v4 i, p⟩
  | .ok ⟨.ip6 i, p, _⟩ => some ⟨.v6 i, p⟩
  | _ => none

/-- First 16-bit segment of an IPv6 address (`inner.ip.segments().first()`). -/
def seg0 (a : Ip) : Nat := a.val / 2 ^ 112

/-- The per-interface-address filter of the expansion (`target4` = the bound address is IPv4):
same family only, `fe80:` addresses dropped. -/
def expandOne (target4 : Bool) (port : Nat) : IpAddr → Option SockAddr
  | .v4 a => if target4 then some ⟨.v4 a, port⟩ else none
  | .v6 a => if target4 then none else if seg0 a = 0xfe80 then none else some ⟨.v6 a, port⟩

/-- One listener: its local socket address and the addresses reported for it. -/
structure Bound where
  sock : SockAddr
  reported : List SockAddr
  deriving DecidableEq, Repr

/-- The `filter_map` of `SocketListener::new` over the configured addresses. -/
def bindAll (ifaces : Option (List IpAddr)) : List (Option Nat) → List Multiaddr → List Bound
  | _, [] => []
  | os, a :: rest =>
    match bindTarget a with
    | none => bindAll ifaces os rest
    | some t =>
      match os with
      | [] => bindAll ifaces [] rest
      | none :: os' => bindAll ifaces os' rest
      | some p :: os' =>
        if t.ip.isUnspecified then
          match ifaces with
          | none => bindAll ifaces os' rest            -- "failed to fetch network interfaces"
          | some l => ⟨⟨t.ip, p⟩, l.filterMap (expandOne t.ip.isV4 p)⟩ :: bindAll ifaces os' rest
        else ⟨⟨t.ip, p⟩, [⟨t.ip, p⟩]⟩ :: bindAll ifaces os' rest

/-- `listen_addresses` (socket form). -/
def reportedSockets (bs : List Bound) : List SockAddr := bs.flatMap (·.reported)

/-- The listen addresses `SocketListener::new` returns. -/
def reportedAddrs (bs : List Bound) : List Multiaddr := (reportedSockets bs).map socketToMultiaddr

/-- `DialAddresses`. -/
inductive Dial where
  | noReuse
  | reuse (listen : List SockAddr)
  deriving DecidableEq, Repr

def dialAddresses (reusePort : Bool) (bs : List Bound) : Dial :=
  if reusePort then .reuse (reportedSockets bs) else .noReuse

def unspecified4 : Ip := ⟨0, true, false, false⟩
def unspecified6 : Ip := ⟨0, true, false, false⟩

/-- The test of the loop in `local_dial_address`. -/
def dialCandidate (remote : IpAddr) (a : SockAddr) : Bool :=
  (remote.isV4 == a.ip.isV4) && (remote.isLoopback == a.ip.isLoopback)

/-- `DialAddresses::local_dial_address`: `error` = `Err(())`. -/
def localDial (d : Dial) (remote : IpAddr) : Except Unit (Option SockAddr) :=
  match d with
  | .noReuse => .ok none
  | .reuse l =>
    match l.find? (dialCandidate remote) with
    | some a => .ok (some ⟨if remote.isV4 then .v4 unspecified4 else .v6 unspecified6, a.port⟩)
    | none => .error ()

/-! ## DNS lookup -/

inductive DnsErr where
  | resolve      -- `DnsError::ResolveError`
  | mismatch     -- `DnsError::IpVersionMismatch`
  deriving DecidableEq, Repr

/-- The `find` predicate of `lookup_ip` (host must be a DNS host). -/
def dnsWants : Host → IpAddr → Bool
  | .dns4 _, ip => ip.isV4
  | .dns6 _, ip => !ip.isV4
  | _, _ => true

/-- `AddressType::lookup_ip` applied to the parsed address `(host, port)`. -/
def lookupIp (h : Host) (port : Nat) (answer : Option (List IpAddr)) : Except DnsErr SockAddr :=
  match h with
  | .ip4 i => .ok ⟨.v4 i, port⟩
  | .ip6 i => .ok ⟨.v6 i, port⟩
  | h =>
    match answer with
    | none => .error .resolve
    | some l =>
      match l.find? (dnsWants h) with
      | some ip => .ok ⟨ip, port⟩
      | none => .error .mismatch

/-! ## Public addresses (src/addresses.rs) -/

inductive InsertErr where
  | empty
  | differentPeer
  deriving DecidableEq, Repr

/-- `ensure_local_peer`. -/
def ensureLocalPeer (localPeer : Nat) (a : Multiaddr) : Except InsertErr Multiaddr :=
  if a.isEmpty then .error .empty
  else match lastP2p a with
    | some q => if q = localPeer then .ok a else .error .differentPeer
    | none => .ok (withP2p a localPeer)

/-- `PublicAddresses::add_address` on the set (a duplicate-free list): new set and `Ok(inserted)`. -/
def publicAdd (localPeer : Nat) (set : List Multiaddr) (a : Multiaddr) : List Multiaddr × Except InsertErr Bool :=
  match ensureLocalPeer localPeer a with
  | .error e => (set, .error e)
  | .ok a' => if set.contains a' then (set, .ok false) else (set ++ [a'], .ok true)

/-- `PublicAddresses::remove_address`. -/
def publicRemove (set : List Multiaddr) (a : Multiaddr) : List Multiaddr × Bool :=
  (set.filter (fun b => b != a), set.contains a)

/-! ## `TransportManagerHandle::dial` -/

inductive HandleDialOut where
  | self             -- `TriedToDialSelf`
  | noAddress        -- `NoAddressAvailable`
  | inProgress       -- `Ok(())` without a command (`DialingInProgress`)
  | queued           -- `Ok(())`, `DialPeer` queued
  deriving DecidableEq, Repr

/-- The guards of `TransportManagerHandle::dial` (the peer states of this model are never connected). -/
def Mgr.handleDialGuard (m : Mgr) (peer : Nat) : HandleDialOut :=
  if peer = m.localPeer then .self
  else match lookupCtx peer m.peers with
    | none => .noAddress
    | some c =>
      match c.st with
      | .opening _ => .inProgress
      | .dialing _ => .inProgress
      | .disconnected => if c.store.recs.isEmpty then .noAddress else .queued

/-- `handle.dial(peer)` followed by the manager's event loop taking the command: the manager runs
`dial(peer)` and only logs an error. -/
def Mgr.handleDial (m : Mgr) (peer : Nat) : Mgr × HandleDialOut × Option DialOut :=
  match m.handleDialGuard peer with
  | .queued => let r := m.dial peer; (r.1, .queued, some r.2)
  | g => (m, g, none)

end Litep2pVerif.Addr
