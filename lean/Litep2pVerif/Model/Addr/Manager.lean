import Litep2pVerif.Model.Addr.Filter
import Litep2pVerif.Model.Addr.Store
/-!
# Address handling of `TransportManager` (src/transport/manager/mod.rs) — property C10

The part of the manager that touches the per-peer address stores: `add_known_address` (through the
handle), the three score-update paths (`update_address_on_dial_failure`,
`update_address_on_connection_established`, `on_connection_opened`), and `dial(peer)` which hands
`addresses(available_capacity)` to the transport. Of `PeerState` only what `dial` and the
open/dial-failure bookkeeping need is kept (`Disconnected{None} | Opening | Dialing`); the full
state machine is property C05's model.
-/
namespace Litep2pVerif.Addr

inductive DialSt where
  | disconnected
  | opening (conn : Nat)
  | dialing (conn : Nat)
  deriving DecidableEq, Repr

/-- `PeerContext`. -/
structure Ctx where
  st : DialSt
  store : Store
  deriving DecidableEq, Repr

structure Mgr where
  localPeer : Nat
  /-- TCP transport registered (`supported_transport` contains `Tcp`, `transports` has it). -/
  tcp : Bool
  listen : List Multiaddr
  peers : List (Nat × Ctx)
  /-- `pending_connections`. -/
  pending : List (Nat × Nat)
  nextConn : Nat
  /-- `ConnectionLimitsConfig::max_outgoing_connections`. -/
  maxOut : Option Nat
  /-- `outgoing_connections.len()`. -/
  usedOut : Nat
  /-- `MAX_ADDRESSES`, the capacity `AddressStore::new()` gives to a fresh peer context. -/
  cap : Nat
  sc : Scores
  deriving Repr

/-- `PeerContext::default()`. -/
def Mgr.defaultCtx (m : Mgr) : Ctx := ⟨.disconnected, ⟨[], m.cap⟩⟩

def lookupCtx (peer : Nat) : List (Nat × Ctx) → Option Ctx
  | [] => none
  | (p, c) :: rest => if p = peer then some c else lookupCtx peer rest

def setCtx (peer : Nat) (c : Ctx) : List (Nat × Ctx) → List (Nat × Ctx)
  | [] => [(peer, c)]
  | (p, c') :: rest => if p = peer then (p, c) :: rest else (p, c') :: setCtx peer c rest

/-- `peers.entry(peer).or_default()` read. -/
def Mgr.ctx (m : Mgr) (peer : Nat) : Ctx := (lookupCtx peer m.peers).getD m.defaultCtx

/-- `peers.entry(peer).or_default()` followed by a modification. -/
def Mgr.modify (m : Mgr) (peer : Nat) (f : Ctx → Ctx) : Mgr :=
  { m with peers := setCtx peer (f (m.ctx peer)) m.peers }

def lookupPending (conn : Nat) : List (Nat × Nat) → Option Nat
  | [] => none
  | (c, p) :: rest => if c = conn then some p else lookupPending conn rest

def erasePending (conn : Nat) (l : List (Nat × Nat)) : List (Nat × Nat) := l.filter (fun e => e.1 != conn)

/-- `pending_connections.insert(conn, peer)`. -/
def putPending (conn peer : Nat) (l : List (Nat × Nat)) : List (Nat × Nat) := erasePending conn l ++ [(conn, peer)]

/-- `TransportManager::register_listen_address`; `none` = the `assert!` fails. -/
def Mgr.registerListen (m : Mgr) (a : Multiaddr) : Option Mgr :=
  match Addr.registerListen m.localPeer m.listen a with
  | none => none
  | some l => some { m with listen := l }

/-- `add_known_address(peer, addresses)` where `order` is the iteration order of the `HashSet`
`peer_addresses` (a permutation of `admitted …`, see `Props/C10.lean`). Returns the new state; the
returned count is `(admitted …).length`. -/
def Mgr.addKnownOrdered (m : Mgr) (peer : Nat) (order : List Multiaddr) : Mgr :=
  m.modify peer (fun c => { c with store := extend m.sc c.store (order.filterMap Rec.fromMultiaddr) })

def Mgr.addKnownCount (m : Mgr) (peer : Nat) (as : List Multiaddr) : Nat :=
  (admitted m.tcp m.listen peer as).length

/-- Direct `context.addresses.insert(record)` (used by `dial_address` and by the harness). -/
def Mgr.rawInsert (m : Mgr) (peer : Nat) (r : Rec) : Mgr :=
  m.modify peer (fun c => { c with store := insert m.sc c.store r })

/-- `AddressStore::error_score`. -/
def errorScore (sc : Scores) (addressError : Bool) : Int :=
  if addressError then sc.addressFailure else sc.failure

/-- `update_address_on_dial_failure(address, error)`. -/
def Mgr.updateOnDialFailure (m : Mgr) (a : Multiaddr) (addressError : Bool) : Mgr :=
  match lastP2p a with
  | none => m
  | some p => m.rawInsert p (Rec.new p a (errorScore m.sc addressError))

/-- `update_address_on_connection_established(peer, endpoint)`. -/
def Mgr.updateOnEstablished (m : Mgr) (peer : Nat) (endpoint : Multiaddr) (listener : Bool) : Mgr :=
  if listener then m else m.rawInsert peer (Rec.new peer endpoint m.sc.established)

inductive DialOut where
  | limit                     -- `ConnectionLimitsError::MaxOutgoingConnectionsExceeded`
  | self                      -- `TriedToDialSelf`
  | inProgress                -- `Ok(())` without dialing
  | noAddress                 -- `NoAddressAvailable`
  | started (conn : Nat) (opened : Option (List Multiaddr))   -- `open(conn, addresses)` (if TCP installed)
  deriving DecidableEq, Repr

/-- `ConnectionLimits::on_dial_address`: `none` = error, `some none` = `usize::MAX`. -/
def Mgr.availableCapacity (m : Mgr) : Option (Option Nat) :=
  match m.maxOut with
  | some mx => if mx ≤ m.usedOut then none else some (some (mx - m.usedOut))
  | none => some none

/-- `TransportManager::dial(peer)`. -/
def Mgr.dial (m : Mgr) (peer : Nat) : Mgr × DialOut :=
  match m.availableCapacity with
  | none => (m, .limit)
  | some limit =>
    if peer = m.localPeer then (m, .self)
    else
      match (m.ctx peer).st with
      | .opening _ => (m.modify peer id, .inProgress)
      | .dialing _ => (m.modify peer id, .inProgress)
      | .disconnected =>
        if (addresses (m.ctx peer).store limit).isEmpty then (m.modify peer id, .noAddress)
        else
          ({ (m.modify peer (fun c => { c with st := .opening m.nextConn })) with
              nextConn := m.nextConn + 1
              pending := putPending m.nextConn peer m.pending },
           .started m.nextConn (if m.tcp then some (addresses (m.ctx peer).store limit) else none))

inductive EvOut where
  | ok
  | invalidState
  | bug        -- `debug_assert!(false)` / `expect`
  deriving DecidableEq, Repr

/-- `on_connection_opened(Tcp, conn, address)`. -/
def Mgr.onConnectionOpened (m : Mgr) (conn : Nat) (a : Multiaddr) : Mgr × EvOut :=
  match lookupPending conn m.pending with
  | none => (m, .bug)
  | some peer =>
    match (m.ctx peer).st with
    | .opening c =>
      if m.tcp then
        ({ (m.modify peer (fun x => { st := .dialing conn, store := insert m.sc x.store (Rec.new peer a m.sc.established) })) with
            pending := putPending c peer (erasePending conn m.pending) }, .ok)
      else
        ({ (m.modify peer (fun x => { st := .dialing conn, store := insert m.sc x.store (Rec.new peer a m.sc.established) })) with
            pending := erasePending conn m.pending }, .bug)
    | _ =>
      ({ (m.modify peer (fun x => { x with store := insert m.sc x.store (Rec.new peer a m.sc.established) })) with
          pending := erasePending conn m.pending }, .invalidState)

/-- `on_open_failure(Tcp, conn)`. -/
def Mgr.onOpenFailure (m : Mgr) (conn : Nat) : Mgr × EvOut :=
  match lookupPending conn m.pending with
  | none => (m, .invalidState)
  | some peer =>
    match (m.ctx peer).st with
    | .opening _ =>
      ({ (m.modify peer (fun x => { x with st := .disconnected })) with pending := erasePending conn m.pending }, .ok)
    | _ => (m.modify peer id, .invalidState)

/-- `on_dial_failure(conn)`. -/
def Mgr.onDialFailure (m : Mgr) (conn : Nat) : Mgr × EvOut :=
  match lookupPending conn m.pending with
  | none => (m, .invalidState)
  | some peer =>
    ({ (m.modify peer (fun x =>
          match x.st with
          | .dialing c => if c = conn then { x with st := .disconnected } else x
          | _ => x)) with pending := erasePending conn m.pending }, .ok)

/-- `connection_limits.accept_established_connection(fresh id, is_listener = false)`. -/
def Mgr.occupy (m : Mgr) : Mgr :=
  match m.maxOut with
  | some _ => { m with usedOut := m.usedOut + 1 }
  | none => m

def Mgr.init (localPeer : Nat) (tcp : Bool) (maxOut : Option Nat) (cap : Nat) (sc : Scores) : Mgr :=
  { localPeer, tcp, listen := [], peers := [], pending := [], nextConn := 0, maxOut, usedOut := 0, cap, sc }

end Litep2pVerif.Addr
