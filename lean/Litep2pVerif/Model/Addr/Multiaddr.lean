/-!
# Multiaddresses as component lists — property C10

A `Multiaddr` is the list of its protocol components, in order (what `Multiaddr::iter()` yields).
Only the components that the address filter, the TCP parser and the address store distinguish are
kept apart; every other protocol is `other tag`. IP addresses carry their numeric value (identity)
and the three attributes the code reads (`is_unspecified`, `is_loopback`, `IpNetwork::is_global`)
as data: the theorems hold for every assignment of the attributes; the driver computes them.
Host names, peer ids and `other` tags are numbers (injective encodings chosen by the driver).
Two `Multiaddr`s are equal in the real code iff their byte encodings are, i.e. iff the component
lists are equal.
-/
namespace Litep2pVerif.Addr

/-- An IP address: numeric value plus the attributes the code inspects. -/
structure Ip where
  val : Nat
  unspecified : Bool
  loopback : Bool
  global : Bool
  deriving DecidableEq, Repr

inductive Comp where
  | ip4 (a : Ip)
  | ip6 (a : Ip)
  | dns (h : Nat)
  | dns4 (h : Nat)
  | dns6 (h : Nat)
  | tcp (p : Nat)
  | udp (p : Nat)
  | ws
  | wss
  | quicV1
  | p2p (peer : Nat)
  | other (tag : Nat)
  deriving DecidableEq, Repr

abbrev Multiaddr := List Comp

def Comp.isP2p : Comp → Bool
  | .p2p _ => true
  | _ => false

/-- `match address.iter().last() { Some(Protocol::P2p(p)) => Some(p), _ => None }`. -/
def lastP2p (a : Multiaddr) : Option Nat :=
  match a.getLast? with
  | some (.p2p p) => some p
  | _ => none

/-- `address.with(Protocol::P2p(peer))`. -/
def withP2p (a : Multiaddr) (peer : Nat) : Multiaddr := a ++ [.p2p peer]

/-- `std::net::IpAddr`. -/
inductive IpAddr where
  | v4 (a : Ip)
  | v6 (a : Ip)
  deriving DecidableEq, Repr

def IpAddr.isUnspecified : IpAddr → Bool
  | .v4 a => a.unspecified
  | .v6 a => a.unspecified

def IpAddr.isLoopback : IpAddr → Bool
  | .v4 a => a.loopback
  | .v6 a => a.loopback

end Litep2pVerif.Addr
