import Litep2pVerif.Model.Addr.Multiaddr
/-!
# Address filter of `TransportManagerHandle` and the TCP address parser — property C10

Mirrors, for the default feature set (TCP only: the `websocket` and `quic` arms are compiled out),
`TransportManagerHandle::{supported_transport, extract_ip_port, is_local_address,
add_known_address}` (src/transport/manager/handle.rs), `TransportManager::register_listen_address`
(manager/mod.rs) and `multiaddr_to_socket_address(_, SocketListenerType::Tcp)`
(src/transport/common/listener.rs) together with the address the TCP connection reports back as
its endpoint (tcp/connection.rs: rebuilt from the parsed socket address, without `/p2p`).

Assumption (C18): the multihash inside a `/p2p` component of a parsed `Multiaddr` is always accepted
by `PeerId::from_multihash`, so `AddressError::InvalidPeerId` is not reachable from a `Multiaddr`.
-/
namespace Litep2pVerif.Addr

/-- `supported_transport(address)`; `tcp` = `supported_transport.contains(&SupportedTransport::Tcp)`. -/
def supportedTransport (tcp : Bool) (a : Multiaddr) : Bool :=
  match a with
  | [] => false
  | .ip4 ip :: rest =>
    if ip.unspecified then false
    else match rest with
      | [.tcp _, .p2p _] => tcp
      | _ => false
  | .ip6 ip :: rest =>
    if ip.unspecified then false
    else match rest with
      | [.tcp _, .p2p _] => tcp
      | _ => false
  | .dns _ :: rest | .dns4 _ :: rest | .dns6 _ :: rest =>
    match rest with
    | [.tcp _, .p2p _] => tcp
    | _ => false
  | _ :: _ => false

/-- `extract_ip_port`. -/
def extractIpPort (a : Multiaddr) : Option (IpAddr × Nat) :=
  match a with
  | .ip4 i :: .tcp p :: _ => some (.v4 i, p)
  | .ip4 i :: .udp p :: _ => some (.v4 i, p)
  | .ip6 i :: .tcp p :: _ => some (.v6 i, p)
  | .ip6 i :: .udp p :: _ => some (.v6 i, p)
  | _ => none

/-- The per-listen-address test in the loop of `is_local_address`. -/
def localMatch (ip : IpAddr) (port : Nat) (l : Multiaddr) : Bool :=
  match extractIpPort l with
  | none => false
  | some (lip, lport) =>
    port == lport &&
      (lip == ip || (lip.isUnspecified && ip.isLoopback) || (lip.isLoopback && ip.isLoopback))

/-- `is_local_address(address)` against the set of listen addresses. -/
def isLocalAddress (listen : List Multiaddr) (a : Multiaddr) : Bool :=
  if listen.contains (a.takeWhile (fun c => !c.isP2p)) then true
  else match extractIpPort (a.takeWhile (fun c => !c.isP2p)) with
    | none => false
    | some (ip, port) => listen.any (localMatch ip port)

/-- `register_listen_address`: `none` is the `assert!` (address must not contain `/p2p`). -/
def registerListen (localPeer : Nat) (listen : List Multiaddr) (a : Multiaddr) : Option (List Multiaddr) :=
  if a.any Comp.isP2p then none
  else some (listen ++ [a, withP2p a localPeer])

/-- Body of the loop of `add_known_address` for one offered address: `some a'` is the address put
into `peer_addresses`, `none` means skipped. -/
def admitOne (tcp : Bool) (listen : List Multiaddr) (peer : Nat) (a : Multiaddr) : Option Multiaddr :=
  if !supportedTransport tcp a then none
  else if isLocalAddress listen a then none
  else match a.getLast? with
    | some (.p2p q) => if q = peer then some a else none
    | _ => some (withP2p a peer)

/-- `peer_addresses` as a duplicate-free list, in order of first appearance (the `HashSet`'s
iteration order is arbitrary: see `Manager.lean`). -/
def dedup : List Multiaddr → List Multiaddr
  | [] => []
  | a :: as => a :: (dedup as).filter (fun b => b != a)

def admitted (tcp : Bool) (listen : List Multiaddr) (peer : Nat) (as : List Multiaddr) : List Multiaddr :=
  dedup (as.filterMap (admitOne tcp listen peer))

/-! ## TCP address parser -/

inductive Host where
  | ip4 (a : Ip)
  | ip6 (a : Ip)
  | dns (h : Nat)
  | dns4 (h : Nat)
  | dns6 (h : Nat)
  deriving DecidableEq, Repr

def Host.comp : Host → Comp
  | .ip4 a => .ip4 a
  | .ip6 a => .ip6 a
  | .dns h => .dns h
  | .dns4 h => .dns4 h
  | .dns6 h => .dns6 h

inductive AddrErr where
  | invalidProtocol
  deriving DecidableEq, Repr

/-- Result of the parser: host, port, optional peer. -/
structure Parsed where
  host : Host
  port : Nat
  peer : Option Nat
  deriving DecidableEq, Repr

instance : DecidableEq (Except AddrErr Parsed) := fun a b =>
  match a, b with
  | .ok x, .ok y => if h : x = y then isTrue (by rw [h]) else isFalse (by intro h'; cases h'; exact h rfl)
  | .error x, .error y => if h : x = y then isTrue (by rw [h]) else isFalse (by intro h'; cases h'; exact h rfl)
  | .ok _, .error _ => isFalse (by intro h; cases h)
  | .error _, .ok _ => isFalse (by intro h; cases h)

/-- The tail of `multiaddr_to_socket_address` after the socket address (TCP listener type):
`None => None`, `Some(P2p(p)) => Some(p)` — whatever follows the first `/p2p` is not looked at —,
anything else is an error. -/
def parsePeer (host : Host) (port : Nat) : Multiaddr → Except AddrErr Parsed
  | [] => .ok ⟨host, port, none⟩
  | .p2p q :: _ => .ok ⟨host, port, some q⟩
  | _ :: _ => .error .invalidProtocol

/-- `TcpAddress::multiaddr_to_socket_address`. -/
def tcpParse (a : Multiaddr) : Except AddrErr Parsed :=
  match a with
  | .ip6 i :: .tcp p :: rest => parsePeer (.ip6 i) p rest
  | .ip4 i :: .tcp p :: rest => parsePeer (.ip4 i) p rest
  | .dns h :: .tcp p :: rest => parsePeer (.dns h) p rest
  | .dns4 h :: .tcp p :: rest => parsePeer (.dns4 h) p rest
  | .dns6 h :: .tcp p :: rest => parsePeer (.dns6 h) p rest
  | _ => .error .invalidProtocol

/-- The address a TCP connection reports as its endpoint (`Multiaddr::empty().with(ip|dns).with(Tcp(port))`). -/
def endpointAddr (p : Parsed) : Multiaddr := [p.host.comp, .tcp p.port]

end Litep2pVerif.Addr
