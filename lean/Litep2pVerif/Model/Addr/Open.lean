/-!
# `TcpTransport::open` — in which order the addresses of one dial are attempted

`open(connection_id, addresses)` (`src/transport/tcp/mod.rs`) turns the address list into a stream of connection
attempts, `futures::stream::iter(addresses.map(attempt)).buffer_unordered(max_parallel_dials)`, and collects the
failures in the order in which the attempts FINISH (`errors.push(error)`) until one succeeds, the stream ends
(`RawConnectionResult::Failed { errors }` → `TransportEvent::OpenFailure` → `Litep2pEvent::ListDialFailures`) or the dial
deadline passes.

`buffer_unordered(n)` is modelled as it works: whenever it is polled it pulls the next attempts from the underlying
iterator, in order, while fewer than `n` are in flight (`fill`); which of the attempts in flight finishes next is up to
the network — the schedule (`complete k`). The model records the order in which attempts are STARTED and the order in
which they finish.
-/
namespace Litep2pVerif.Addr.Open

structure St (α : Type) where
  /-- not yet pulled from the iterator -/
  pending : List α
  /-- attempts in flight, oldest first -/
  inflight : List α := []
  /-- attempts in the order they were started -/
  started : List α := []
  /-- attempts in the order they finished (`errors`, all attempts failing) -/
  finished : List α := []
  deriving Repr, DecidableEq

variable {α : Type}

/-- Pull attempts from the iterator (`pending`) while fewer than `n` are in flight. -/
def fillGo (n : Nat) : List α → St α → St α
  | [], s => { s with pending := [] }
  | a :: rest, s =>
    if s.inflight.length < n then
      fillGo n rest { s with inflight := s.inflight ++ [a], started := s.started ++ [a] }
    else { s with pending := a :: rest }

def fill (n : Nat) (s : St α) : St α := fillGo n s.pending s

/-- The `k`-th attempt in flight (modulo their number) fails. -/
def complete (k : Nat) (s : St α) : St α :=
  match s.inflight[k % s.inflight.length]? with
  | some a => { s with inflight := s.inflight.eraseIdx (k % s.inflight.length), finished := s.finished ++ [a] }
  | none => s

/-- `open(addresses)` with `n` dial slots under a schedule of completions: poll (fill), then per completion: the attempt
finishes, the stream is polled again. -/
def run (n : Nat) (sched : List Nat) (addrs : List α) : St α :=
  sched.foldl (fun s k => fill n (complete k s)) (fill n { pending := addrs })

end Litep2pVerif.Addr.Open
