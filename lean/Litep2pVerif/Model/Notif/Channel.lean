/-!
Notification data path (src/protocol/notification/connection.rs, handle.rs): the bounded sync/async queues
of a `NotificationSink`, the `Connection` task's poll loop, the substreams as FIFO byte pipes, the shared
inbound channel with the slot reserved before reading, the handle's `peers` filter and the clogged flag.

Which of the two non-empty queues the task takes next (`tokio::select!` without `biased`) is not fixed:
the model only moves whole queues into per-mode FIFO buffers (`sBuf`, `aBuf`) and lets the reader take
either head, so every interleaving is covered.
-/
namespace Litep2pVerif.Chan

structure Msg where
  mode : Nat      -- 0 = sync, 1 = async, 2 = from the remote
  seq : Nat
  size : Nat
  deriving DecidableEq, Repr

def varintLen (n : Nat) : Nat := if n < 128 then 1 else if n < 16384 then 2 else if n < 2097152 then 3 else 4

def Msg.bytes (m : Msg) : Nat := varintLen (max m.size 3) + max m.size 3

structure Cfg where
  syncCap : Nat
  asyncCap : Nat
  notifCap : Nat
  pipeCap : Nat
  maxSize : Nat
  deriving Repr

inductive SendRes | ok | clogged | noconn | nopeer | waiting
  deriving DecidableEq, Repr

structure Chan where
  cfg : Cfg
  alive : Bool := false           -- the connection task exists (receivers of the queues alive)
  viewHas : Bool := false         -- `handle.peers` contains the peer
  clogged : Bool := false
  syncQ : List Msg := []
  asyncQ : List Msg := []
  waiting : List Msg := []        -- async sends waiting for capacity (FIFO semaphore)
  sBuf : List Msg := []           -- taken by the task, not yet read completely by the remote
  aBuf : List Msg := []
  sinkBytes : Nat := 0            -- in the substream's write buffer
  pipeFill : Nat := 0             -- in the pipe
  carry : Nat := 0                -- bytes of a partially read frame at the remote
  inQ : List Msg := []            -- written by the remote, not yet read by the task
  inClosed : Bool := false
  notifQ : List Msg := []         -- shared inbound channel
  evQ : List String := []         -- event channel to the handle
  signalled : Bool := false
  -- ghost logs of the current open period
  accS : List Msg := []
  accA : List Msg := []
  delS : List Msg := []
  delA : List Msg := []
  inRead : List Msg := []         -- moved from the inbound substream into the shared channel
  userGot : List Msg := []        -- yielded to the user
  deriving Repr

/-- `send_sync_notification`: one non-blocking step. Second component: a `ForceClose` command was sent. -/
def syncSend (c : Chan) (m : Msg) : Chan × SendRes × Bool :=
  if !c.viewHas then (c, .ok, false)
  else if !c.alive then (c, .noconn, false)
  else if c.syncQ.length ≥ c.cfg.syncCap then ({ c with clogged := true }, .clogged, !c.clogged)
  else ({ c with syncQ := c.syncQ ++ [m], accS := c.accS ++ [m] }, .ok, false)

/-- `send_async_notification`, first poll. -/
def asyncSend (c : Chan) (m : Msg) : Chan × SendRes :=
  if !c.viewHas then (c, .nopeer)
  else if !c.alive then (c, .noconn)
  else if c.waiting.isEmpty && c.asyncQ.length < c.cfg.asyncCap then
    ({ c with asyncQ := c.asyncQ ++ [m], accA := c.accA ++ [m] }, .ok)
  else ({ c with waiting := c.waiting ++ [m] }, .waiting)

/-- Waiting async senders take the free capacity, in order. Returns those that completed. -/
def letIn (c : Chan) : Nat → Chan × List Msg
  | 0 => (c, [])
  | fuel + 1 =>
    match c.waiting with
    | [] => (c, [])
    | m :: rest =>
      if c.asyncQ.length < c.cfg.asyncCap then
        let (c', done) := letIn { c with waiting := rest, asyncQ := c.asyncQ ++ [m], accA := c.accA ++ [m] } fuel
        (c', m :: done)
      else (c, [])

/-- `close_connection`: the queues' receivers are dropped; `notify` = the protocol gets a notice. -/
def closeTask (c : Chan) : Chan :=
  { c with alive := false, syncQ := [], asyncQ := [], evQ := c.evQ ++ ["closed"] }

def flush (c : Chan) : Chan :=
  let mv := min c.sinkBytes (c.cfg.pipeCap - c.pipeFill)
  { c with sinkBytes := c.sinkBytes - mv, pipeFill := c.pipeFill + mv }

/-- Inbound half of `poll_next`, repeated by the `start()` loop: reserve a slot on the shared channel
BEFORE reading, read one frame, deliver. Result flag: the connection must close. -/
def readInbound (c : Chan) : Nat → Chan × Bool
  | 0 => (c, false)
  | fuel + 1 =>
    if c.notifQ.length ≥ c.cfg.notifCap then (c, false)
    else match c.inQ with
      | [] => (c, c.inClosed)
      | m :: rest =>
        if max m.size 3 > c.cfg.maxSize then ({ c with inQ := rest }, true)
        else readInbound { c with inQ := rest, notifQ := c.notifQ ++ [m], inRead := c.inRead ++ [m] } fuel

/-- One poll of the connection task. Result: `some notify` if the task ended. -/
def taskPoll (c : Chan) : Chan × Option Bool :=
  if !c.alive then (c, none)
  else if c.signalled then (closeTask c, some false)
  else
    let batch := c.syncQ ++ c.asyncQ
    if batch.any (fun m => max m.size 3 > c.cfg.maxSize) then
      -- `start_send` rejects the oversized notification: the connection closes, nothing of this batch is flushed
      (closeTask c, some true)
    else
      let c := { c with sBuf := c.sBuf ++ c.syncQ, aBuf := c.aBuf ++ c.asyncQ,
                        sinkBytes := c.sinkBytes + (batch.map Msg.bytes).foldl (· + ·) 0,
                        syncQ := [], asyncQ := [] }
      let c := flush c
      let (c, close) := readInbound c 4096
      if close then (closeTask c, some true) else (c, none)

def partialOk (c : Chan) (avail : Nat) : Bool :=
  avail = 0 || (match c.sBuf with | m :: _ => avail < m.bytes | [] => false) ||
    (match c.aBuf with | m :: _ => avail < m.bytes | [] => false)

/-- The remote reads `n` bytes and thereby completes the frames `frames` (checker mode: the observed
frames are taken from the heads of the per-mode buffers; `none` if the observation is impossible). -/
def remoteRead (c : Chan) (n : Nat) : List (Nat × Nat) → Option Chan
  | [] =>
    -- whatever is left must be a proper prefix of a possible next frame
    if partialOk c (c.carry + n) then some { c with carry := c.carry + n, pipeFill := c.pipeFill - n } else none
  | (mode, seq) :: rest =>
    if mode = 0 then
      match c.sBuf with
      | m :: tl =>
        if m.seq = seq && m.bytes ≤ c.carry + n then
          remoteRead { c with sBuf := tl, delS := c.delS ++ [m], carry := 0, pipeFill := c.pipeFill - (m.bytes - c.carry) }
            (c.carry + n - m.bytes) rest
        else none
      | [] => none
    else
      match c.aBuf with
      | m :: tl =>
        if m.seq = seq && m.bytes ≤ c.carry + n then
          remoteRead { c with aBuf := tl, delA := c.delA ++ [m], carry := 0, pipeFill := c.pipeFill - (m.bytes - c.carry) }
            (c.carry + n - m.bytes) rest
        else none
      | [] => none

/-- The handle polls: queued events first (they update `peers`), then the notifications, filtered. -/
def pollHandle (c : Chan) : Chan × List String :=
  let view := c.evQ.foldl (fun v e => if e = "opened" then true else if e = "closed" then false else v) c.viewHas
  let clogged := if c.evQ.contains "closed" then false else c.clogged
  let got := if view then c.notifQ else []
  ({ c with viewHas := view, clogged := clogged, evQ := [], notifQ := [], userGot := c.userGot ++ got },
    c.evQ ++ got.map fun m => s!"r{m.seq}")

/-- A new stream (new queues, new pipes) after the previous task ended. -/
def reopen (c : Chan) : Chan :=
  { cfg := c.cfg, alive := true, viewHas := c.viewHas, clogged := c.clogged, waiting := c.waiting,
    notifQ := c.notifQ, evQ := c.evQ ++ ["opened"], userGot := [] }

end Litep2pVerif.Chan
