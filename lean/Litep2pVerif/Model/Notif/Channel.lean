import Litep2pVerif.Generated.Consts
/-!
Notification data path (src/protocol/notification/connection.rs, handle.rs): the bounded sync/async queues
of a `NotificationSink`, the `Connection` task's poll loop, the substreams as FIFO byte pipes, the shared
inbound channel with the slot reserved before reading, the handle's `peers` filter and the clogged flag.

Which of the two non-empty queues the task takes next (`tokio::select!` without `biased`) is not fixed:
`taskPoll` takes the choices as an argument (`picks`, consumed only when both queues are non-empty), the
notifications handed to the substream are kept in per-mode FIFO buffers (`sBuf`, `aBuf`) and the reader
may take either head, so every interleaving is covered.

Back-pressure (src/substream/mod.rs, `Sink::poll_ready`): once `pending_out_bytes >= BACKPRESSURE_BOUNDARY`
the substream accepts a further notification only after a complete flush; until then the task keeps the
ONE notification it has already taken from a queue in `next_notification` (`parked`) and takes no other.
-/
namespace Litep2pVerif.Chan

structure Msg where
  mode : Nat      -- 0 = sync, 1 = async, 2 = from the remote
  seq : Nat
  size : Nat
  deriving DecidableEq, Repr

def varintLen (n : Nat) : Nat := if n < 128 then 1 else if n < 16384 then 2 else if n < 2097152 then 3 else 4

def Msg.bytes (m : Msg) : Nat := varintLen (max m.size 3) + max m.size 3

structure Cfg where
  syncCap : Nat
  asyncCap : Nat
  notifCap : Nat
  pipeCap : Nat
  maxSize : Nat
  boundary : Nat := Consts.BACKPRESSURE_BOUNDARY   -- `BACKPRESSURE_BOUNDARY` of the substream's sink
  deriving DecidableEq, Repr

inductive SendRes | ok | clogged | noconn | nopeer | waiting | blocked
  deriving DecidableEq, Repr

structure Chan where
  cfg : Cfg
  alive : Bool := false           -- the connection task exists (receivers of the queues alive)
  viewHas : Bool := false         -- `handle.peers` contains the peer
  gen : Nat := 0                  -- number of the current stream (each `reopen` makes new queues)
  viewGen : Nat := 0              -- the stream whose sink `handle.peers` holds
  clogged : Bool := false
  syncQ : List Msg := []
  asyncQ : List Msg := []
  waiting : List Msg := []        -- async sends waiting for capacity (FIFO semaphore)
  sBuf : List Msg := []           -- taken by the task, not yet read completely by the remote
  aBuf : List Msg := []
  parked : Option (Bool × Msg) := none   -- `next_notification` (taken from the sync queue?, notification)
  sinkBytes : Nat := 0            -- in the substream's write buffer (`pending_out_bytes`)
  pipeFill : Nat := 0             -- in the pipe
  carry : Nat := 0                -- bytes of a partially read frame at the remote
  inQ : List Msg := []            -- written by the remote, not yet read by the task
  inClosed : Bool := false
  notifQ : List Msg := []         -- shared inbound channel
  evQ : List String := []         -- event channel to the handle
  signalled : Bool := false
  -- ghost logs of the current open period
  accS : List Msg := []
  accA : List Msg := []
  delS : List Msg := []
  delA : List Msg := []
  inRead : List Msg := []         -- moved from the inbound substream into the shared channel
  userGot : List Msg := []        -- yielded to the user
  deriving DecidableEq, Repr

/-- `send_sync_notification`: one non-blocking step. Second component: a `ForceClose` command was sent. -/
def syncSend (c : Chan) (m : Msg) : Chan × SendRes × Bool :=
  if !c.viewHas then (c, .ok, false)
  else if !c.alive || c.viewGen != c.gen then (c, .noconn, false)     -- the sink's queue is closed
  else if c.syncQ.length ≥ c.cfg.syncCap then ({ c with clogged := true }, .clogged, !c.clogged)
  else ({ c with syncQ := c.syncQ ++ [m], accS := c.accS ++ [m] }, .ok, false)

/-- `send_async_notification`, first poll. -/
def asyncSend (c : Chan) (m : Msg) : Chan × SendRes :=
  if !c.viewHas then (c, .nopeer)
  else if !c.alive || c.viewGen != c.gen then (c, .noconn)
  else if c.waiting.isEmpty && c.asyncQ.length < c.cfg.asyncCap then
    ({ c with asyncQ := c.asyncQ ++ [m], accA := c.accA ++ [m] }, .ok)
  else ({ c with waiting := c.waiting ++ [m] }, .waiting)

/-- `NotificationSink::send_sync_notification` on a clone obtained with `notification_sink()` while stream number
`g` was the one in the handle's view: the clone knows nothing of the handle (no `clogged` flag, no `ForceClose`). -/
def sinkSync (c : Chan) (g : Nat) (m : Msg) : Chan × SendRes :=
  if !c.alive || g != c.gen then (c, .noconn)
  else if c.syncQ.length ≥ c.cfg.syncCap then (c, .clogged)
  else ({ c with syncQ := c.syncQ ++ [m], accS := c.accS ++ [m] }, .ok)

/-- `NotificationSink::send_async_notification` on such a clone, first poll. -/
def sinkAsync (c : Chan) (g : Nat) (m : Msg) : Chan × SendRes :=
  if !c.alive || g != c.gen then (c, .noconn)
  else if c.waiting.isEmpty && c.asyncQ.length < c.cfg.asyncCap then
    ({ c with asyncQ := c.asyncQ ++ [m], accA := c.accA ++ [m] }, .ok)
  else ({ c with waiting := c.waiting ++ [m] }, .waiting)

/-- `NotificationHandle::send_async_notification` polled once and dropped if it has to wait (`blocked`): a
cancelled `Sender::send` sends nothing. -/
def asyncOnce (c : Chan) (m : Msg) : Chan × SendRes :=
  if !c.viewHas then (c, .nopeer)
  else if !c.alive || c.viewGen != c.gen then (c, .noconn)
  else if c.waiting.isEmpty && c.asyncQ.length < c.cfg.asyncCap then
    ({ c with asyncQ := c.asyncQ ++ [m], accA := c.accA ++ [m] }, .ok)
  else (c, .blocked)

/-- `notification_sink()`: a clone of the sink in the handle's view, identified by its stream number. -/
def getSink (c : Chan) : Option Nat := if c.viewHas then some c.viewGen else none

/-- Waiting async senders take the free capacity, in order. Returns those that completed. -/
def letIn (c : Chan) : Nat → Chan × List Msg
  | 0 => (c, [])
  | fuel + 1 =>
    match c.waiting with
    | [] => (c, [])
    | m :: rest =>
      if c.asyncQ.length < c.cfg.asyncCap then
        let (c', done) := letIn { c with waiting := rest, asyncQ := c.asyncQ ++ [m], accA := c.accA ++ [m] } fuel
        (c', m :: done)
      else (c, [])

/-- `close_connection`: the task (queue receivers, parked notification) is dropped; `notify` = the protocol gets a notice. -/
def closeTask (c : Chan) : Chan :=
  { c with alive := false, syncQ := [], asyncQ := [], parked := none, evQ := c.evQ ++ ["closed"] }

/-- `Sink::poll_flush`: write as much of the pending bytes as the pipe takes; complete iff nothing is left. -/
def flush (c : Chan) : Chan :=
  let mv := min c.sinkBytes (c.cfg.pipeCap - c.pipeFill)
  { c with sinkBytes := c.sinkBytes - mv, pipeFill := c.pipeFill + mv }

/-- Inbound half of one `poll_next`: reserve a slot on the shared channel BEFORE reading, read one frame.
Result: `none` = pending, `some true` = the connection must close, `some false` = one notification delivered
(the `start()` loop then calls `poll_next` again). -/
def readOne (c : Chan) : Chan × Option Bool :=
  if c.notifQ.length ≥ c.cfg.notifCap then (c, none)
  else match c.inQ with
    | [] => (c, if c.inClosed then some true else none)
    | m :: rest =>
      if max m.size 3 > c.cfg.maxSize then ({ c with inQ := rest }, some true)
      else ({ c with inQ := rest, notifQ := c.notifQ ++ [m], inRead := c.inRead ++ [m] }, some false)

/-- The notification the outbound loop handles next: the parked one, else the head of a non-empty queue —
if both are non-empty the next element of `picks` decides (`0` = sync; no element left = sync). -/
def nextNotif (c : Chan) (picks : List Nat) : Option ((Bool × Msg) × Chan × List Nat) :=
  match c.parked with
  | some p => some (p, { c with parked := none }, picks)
  | none =>
    match c.syncQ, c.asyncQ with
    | [], [] => none
    | m :: r, [] => some ((true, m), { c with syncQ := r }, picks)
    | [], m :: r => some ((false, m), { c with asyncQ := r }, picks)
    | ms :: rs, ma :: ra =>
      if picks.headD 0 = 0 then some ((true, ms), { c with syncQ := rs }, picks.tail)
      else some ((false, ma), { c with asyncQ := ra }, picks.tail)

/-- `Sink::poll_ready`: below the boundary the substream is ready at once; at or above it only after a
complete flush. -/
def pollReady (c : Chan) : Chan × Bool :=
  if c.sinkBytes ≥ c.cfg.boundary then ((flush c), (flush c).sinkBytes = 0) else (c, true)

/-- `start_send` of an admissible notification: it joins the bytes pending in the substream. -/
def pushOut (c : Chan) (p : Bool × Msg) : Chan :=
  if p.1 then { c with sBuf := c.sBuf ++ [p.2], sinkBytes := c.sinkBytes + p.2.bytes }
  else { c with aBuf := c.aBuf ++ [p.2], sinkBytes := c.sinkBytes + p.2.bytes }

/-- The outbound loop of `poll_next`. Result: the connection closed (`start_send` refused an oversized
notification; whatever this poll handed to the substream before is never flushed), and the unused choices. -/
def outLoop (c : Chan) (picks : List Nat) : Nat → Chan × Bool × List Nat
  | 0 => (c, false, picks)
  | fuel + 1 =>
    match nextNotif c picks with
    | none => (c, false, picks)
    | some (p, c1, picks1) =>
      if (pollReady c1).2 then
        if max p.2.size 3 > c.cfg.maxSize then (closeTask (pollReady c1).1, true, picks1)
        else outLoop (pushOut (pollReady c1).1 p) picks1 fuel
      else ({ (pollReady c1).1 with parked := some p }, false, picks1)

/-- `poll_next`: the outbound loop, a flush (a pending flush does not stop the poll), the inbound half. -/
def pollNext (c : Chan) (picks : List Nat) : Chan × Option Bool × List Nat :=
  if (outLoop c picks (c.syncQ.length + c.asyncQ.length + 1)).2.1 then
    ((outLoop c picks (c.syncQ.length + c.asyncQ.length + 1)).1, some true,
      (outLoop c picks (c.syncQ.length + c.asyncQ.length + 1)).2.2)
  else
    ((readOne (flush (outLoop c picks (c.syncQ.length + c.asyncQ.length + 1)).1)).1,
     (readOne (flush (outLoop c picks (c.syncQ.length + c.asyncQ.length + 1)).1)).2,
     (outLoop c picks (c.syncQ.length + c.asyncQ.length + 1)).2.2)

/-- The `start()` loop within one poll of the task: `poll_next` again after every delivered notification — the
whole of it, so a parked notification is retried each time. -/
def taskLoop (c : Chan) (picks : List Nat) : Nat → Chan × Option Bool
  | 0 => (c, none)
  | fuel + 1 =>
    match (pollNext c picks).2.1 with
    | none => ((pollNext c picks).1, none)
    | some true => (if (pollNext c picks).1.alive then closeTask (pollNext c picks).1 else (pollNext c picks).1, some true)
    | some false => taskLoop (pollNext c picks).1 (pollNext c picks).2.2 fuel

/-- One poll of the connection task; `picks` = the choices of `select!`. Result: `some notify` if the task ended. -/
def taskPoll (c : Chan) (picks : List Nat) : Chan × Option Bool :=
  if !c.alive then (c, none)
  else if c.signalled then (closeTask c, some false)
  else taskLoop c picks 4096

def partialOk (c : Chan) (avail : Nat) : Bool :=
  avail = 0 || (match c.sBuf with | m :: _ => avail < m.bytes | [] => false) ||
    (match c.aBuf with | m :: _ => avail < m.bytes | [] => false)

/-- The remote reads `n` bytes and thereby completes the frames `frames` (checker mode: the observed
frames are taken from the heads of the per-mode buffers; `none` if the observation is impossible). -/
def remoteRead (c : Chan) (n : Nat) : List (Nat × Nat) → Option Chan
  | [] =>
    -- whatever is left must be a proper prefix of a possible next frame
    if partialOk c (c.carry + n) then some { c with carry := c.carry + n, pipeFill := c.pipeFill - n } else none
  | (mode, seq) :: rest =>
    if mode = 0 then
      match c.sBuf with
      | m :: tl =>
        if m.seq = seq && m.bytes ≤ c.carry + n then
          remoteRead { c with sBuf := tl, delS := c.delS ++ [m], carry := 0, pipeFill := c.pipeFill - (m.bytes - c.carry) }
            (c.carry + n - m.bytes) rest
        else none
      | [] => none
    else
      match c.aBuf with
      | m :: tl =>
        if m.seq = seq && m.bytes ≤ c.carry + n then
          remoteRead { c with aBuf := tl, delA := c.delA ++ [m], carry := 0, pipeFill := c.pipeFill - (m.bytes - c.carry) }
            (c.carry + n - m.bytes) rest
        else none
      | [] => none

/-- The handle polls: queued events first (they update `peers`), then the notifications, filtered. -/
def pollHandle (c : Chan) : Chan × List String :=
  let view := c.evQ.foldl (fun v e => if e = "opened" then true else if e = "closed" then false else v) c.viewHas
  let clogged := if c.evQ.contains "closed" then false else c.clogged
  let got := if view then c.notifQ else []
  ({ c with viewHas := view, viewGen := if c.evQ.contains "opened" then c.gen else c.viewGen,
            clogged := clogged, evQ := [], notifQ := [], userGot := c.userGot ++ got },
    c.evQ ++ got.map fun m => s!"r{m.seq}")

/-- A new stream (new queues, new pipes) after the previous task ended. -/
def reopen (c : Chan) : Chan :=
  { cfg := c.cfg, alive := true, viewHas := c.viewHas, gen := c.gen + 1, viewGen := c.viewGen, clogged := c.clogged,
    waiting := c.waiting,
    notifQ := c.notifQ, evQ := c.evQ ++ ["opened"], userGot := [] }

end Litep2pVerif.Chan
